/-
  PW.Num — number-system plumbing for the polliwog model.

  The model is written against the *operation* classes only
  (`Add K`, `Mul K`, `LT K` …, no laws), so that the very same definitions can be
    * reasoned about at any `[Field K] [LinearOrder K] [IsStrictOrderedRing K]` (Mathlib picks the
      instances of the field), or at `ℝ`,
    * executed exactly at `NRat` (rationals + one absorbing NaN),
    * executed at `Float` (IEEE doubles, the arithmetic NumPy uses).

  This file is Mathlib-free (it is linked into the `pwdriver` executable).
-/

namespace PW

/-- square root as an operation (instantiated by `Real.sqrt`, `Float.sqrt`, rational approximation). -/
class Sqrt (K : Type) where
  sqrt : K → K

/-- trigonometric operations used by the model (Rodrigues, euler, tilted, signed_angle). -/
class Trig (K : Type) where
  sin : K → K
  cos : K → K
  acos : K → K

/-- `ceil`/`floor`/`round-half-even` to an integer, as needed by subdivision and `np.around`. -/
class Rounding (K : Type) where
  ceil : K → Int
  floor : K → Int
  /-- round half to even, to an integer -/
  rint : K → Int
  ofInt : Int → K

export Sqrt (sqrt)

/-! ## NRat: exact rationals with one absorbing NaN

`x / 0 = nan`, every arithmetic operation on `nan` gives `nan`, every comparison with `nan` is
false.  IEEE's `±inf` are folded into `nan`; the model has an explicit branch wherever the code
distinguishes them. -/

inductive NRat where
  | nan : NRat
  | ok (q : Rat) : NRat
deriving Inhabited

namespace NRat

def map2 (f : Rat → Rat → Rat) : NRat → NRat → NRat
  | ok a, ok b => ok (f a b)
  | _, _ => nan

instance : Add NRat := ⟨map2 (· + ·)⟩
instance : Sub NRat := ⟨map2 (· - ·)⟩
instance : Mul NRat := ⟨map2 (· * ·)⟩
instance : Neg NRat := ⟨fun | ok a => ok (-a) | nan => nan⟩
instance : Div NRat := ⟨fun
  | ok a, ok b => if b = 0 then nan else ok (a / b)
  | _, _ => nan⟩
instance : OfNat NRat n := ⟨ok (n : Rat)⟩

def lt : NRat → NRat → Bool
  | ok a, ok b => decide (a < b)
  | _, _ => false
def le : NRat → NRat → Bool
  | ok a, ok b => decide (a ≤ b)
  | _, _ => false

instance : LT NRat := ⟨fun a b => lt a b = true⟩
instance : LE NRat := ⟨fun a b => le a b = true⟩
instance : DecidableLT NRat := fun a b => inferInstanceAs (Decidable (lt a b = true))
instance : DecidableLE NRat := fun a b => inferInstanceAs (Decidable (le a b = true))
instance : BEq NRat := ⟨fun
  | ok a, ok b => a == b
  | _, _ => false⟩

def isNan : NRat → Bool
  | nan => true
  | _ => false

/-- integer square root by `Nat.sqrt`, scaled: a `2⁻¹²⁸`-relative approximation of `√(p/q)`, exact on
    perfect squares. -/
def sqrtRat (r : Rat) : NRat :=
  if r < 0 then nan else
  let p := r.num.toNat
  let q := r.den
  -- √(p/q) = √(p·q)/q
  let m := p * q
  let s := Nat.sqrt m
  if s * s = m then ok (mkRat s q) else
  let k : Nat := 128
  let s' := Nat.sqrt (m * 4 ^ k)
  ok (mkRat s' (q * 2 ^ k))

instance : Sqrt NRat := ⟨fun | ok a => sqrtRat a | nan => nan⟩

def ratToFloat (r : Rat) : Float :=
  -- scale so that numerator and denominator convert without overflow
  let n := r.num
  let d := r.den
  let bits := max n.natAbs.log2 d.log2
  if bits < 1000 then Float.ofInt n / Float.ofNat d
  else
    let sh := bits - 900
    Float.ofInt (n / (2 ^ sh : Nat)) / Float.ofNat (d / 2 ^ sh)

def toFloat : NRat → Float
  | ok a => ratToFloat a
  | nan => 0.0 / 0.0

end NRat

/-- exact value of an IEEE double given by its bit pattern (`none` for inf / nan) -/
def ratOfBits? (b : UInt64) : Option Rat :=
  let n : Nat := b.toNat
  let sign : Int := if n / 2 ^ 63 = 1 then -1 else 1
  let ex : Nat := (n / 2 ^ 52) % 2048
  let man : Nat := n % 2 ^ 52
  if ex = 2047 then none else
  let (m, e) : Nat × Int := if ex = 0 then (man, -1074) else (man + 2 ^ 52, (ex : Int) - 1075)
  let r : Rat :=
    if e ≥ 0 then ((m * 2 ^ e.toNat : Nat) : Rat) else (m : Rat) / ((2 ^ (-e).toNat : Nat) : Rat)
  some ((sign : Rat) * r)

def NRat.ofBits (b : UInt64) : NRat :=
  match ratOfBits? b with
  | some r => .ok r
  | none => .nan

def NRat.ofFloat (x : Float) : NRat := NRat.ofBits x.toBits

instance : Trig NRat where
  sin x := NRat.ofFloat (Float.sin x.toFloat)
  cos x := NRat.ofFloat (Float.cos x.toFloat)
  acos x := NRat.ofFloat (Float.acos x.toFloat)

def rintRat (r : Rat) : Int :=
  let f := r.floor
  let d := r - (f : Rat)
  if d < 1/2 then f else if d > 1/2 then f + 1 else if f % 2 = 0 then f else f + 1

instance : Rounding NRat where
  ceil | .ok a => a.ceil | .nan => 0
  floor | .ok a => a.floor | .nan => 0
  rint | .ok a => rintRat a | .nan => 0
  ofInt i := .ok (i : Rat)

/-! ## Float instances -/

instance : Sqrt Float := ⟨Float.sqrt⟩
instance : Trig Float := ⟨Float.sin, Float.cos, Float.acos⟩

def floatToInt (x : Float) : Int :=
  if x ≥ 0 then (x.toUInt64.toNat : Int) else -((-x).toUInt64.toNat : Int)

instance : Rounding Float where
  ceil x := floatToInt x.ceil
  floor x := floatToInt x.floor
  rint x :=
    let f := x.floor
    let d := x - f
    let fi := floatToInt f
    if d < 0.5 then fi else if d > 0.5 then fi + 1 else if fi % 2 = 0 then fi else fi + 1
  ofInt := Float.ofInt

/-! ## rendering / parsing for the line protocol -/

class DriverNum (K : Type) where
  ofBits : UInt64 → K
  /-- from an exact decimal constant of the source (`1e-8`): numerator / denominator -/
  ofRat : Rat → K
  render : K → String
  isNan : K → Bool

def renderRat (r : Rat) : String :=
  if r.den = 1 then toString r.num else s!"{r.num}/{r.den}"

def hexDigit (n : Nat) : Char :=
  if n < 10 then Char.ofNat (48 + n) else Char.ofNat (87 + n)

def hex16 (b : UInt64) : String :=
  let n := b.toNat
  String.ofList ((List.range 16).map fun i => hexDigit ((n / 16 ^ (15 - i)) % 16))

/-- nearest double of a rational (used to turn a source literal such as `1e-8` into the double Python
    sees): via `Float.ofScientific`-free division, correct when numerator and denominator are exactly
    representable (all constants in polliwog are `m·10^-k` with small `m`, `k ≤ 22`). -/
def floatOfRat (r : Rat) : Float := NRat.ratToFloat r

instance : DriverNum NRat where
  ofBits := NRat.ofBits
  ofRat r := NRat.ofFloat (floatOfRat r)   -- the *double* the source literal denotes, exactly
  render | .ok a => renderRat a | .nan => "nan"
  isNan := NRat.isNan

instance : DriverNum Float where
  ofBits := Float.ofBits
  ofRat := floatOfRat
  render x := if x.isNaN then "nan" else if x.isInf then (if x > 0 then "inf" else "-inf") else "x" ++ hex16 x.toBits
  isNan x := x.isNaN

end PW
