/-
  C19 — serialization round-trips Polylines and Planes at the stated precision.

  Property theorems only (helper lemmas live in PW/Lemmas/Serialize.lean).

  * "by G": statements about `PW.Gen.Ser.schema` and the other generated constants are re-checked against
    the current source on every run (the generated file is rebuilt from /repo first).
  * The validator theorems are about the Draft-7 interpreter `PW.Ser.valid` run on the generated schema,
    for documents over any number type.
  * Rounding theorems are over every linearly ordered field with a floor function (`ℚ`, `ℝ`), with
    `rint` = round half to even built from the floor (the formula the executable rational model uses,
    `rint_rat_agrees`).  Statements with a norm are over `ℝ`.
  * The JSON *text* round trip (`json.dumps` / `json.loads`) is an external contract, exercised by the
    correspondence check, not modelled.
-/
import PW.Model.Serialize
import PW.Lemmas.Vec
import PW.Lemmas.Serialize
import Mathlib.Tactic.Ring
import Mathlib.Tactic.Linarith
import Mathlib.Tactic.LinearCombination
import Mathlib.Tactic.Positivity
import Mathlib.Tactic.FieldSimp
import Mathlib.Tactic.NormNum
import Mathlib.Algebra.Order.Field.Basic
import Mathlib.Algebra.Order.Floor.Ring
import Mathlib.Data.Rat.Floor
import Mathlib.Analysis.Real.Sqrt

set_option linter.unusedSectionVars false
set_option linter.unusedVariables false

namespace PW.C19

open PW.Ser PW.Json

/-! ## the generated objects (by G) -/

/-- the schema stays inside the subset of Draft 7 the interpreter implements -/
theorem schema_supported : supported Gen.Ser.schema = true := by decide

/-- `validate` loads `schema.json` and validates against `#/definitions/Polyline` resp. `Plane` -/
theorem gen_refs : Gen.Ser.schemaFileName = "schema.json" ∧ Gen.Ser.polylineRef = "#/definitions/Polyline" ∧
    Gen.Ser.planeRef = "#/definitions/Plane" := by decide

/-- the documented defaults: six decimals everywhere -/
theorem gen_default_decimals : Gen.Ser.polylineDefaultDecimals = 6 ∧ Gen.Ser.planeDefaultPositionDecimals = 6 ∧
    Gen.Ser.planeDefaultDirectionDecimals = 6 := by decide

/-! ## what a valid document is -/

section Docs
variable {K : Type}

/-- a JSON number: an int or a float — not a bool, not a string -/
def IsNumber : Json K → Prop
  | .int _ => True
  | .num _ => True
  | _ => False

/-- an array of exactly three numbers -/
def IsVec3 (doc : Json K) : Prop := ∃ a b c, doc = .arr [a, b, c] ∧ IsNumber a ∧ IsNumber b ∧ IsNumber c

/-- a Polyline document: an object whose members are `vertices` (an array of `IsVec3`) and `isClosed`
    (a boolean), nothing else, both present.  (Stated for association lists; for a Python dict — unique
    keys — see `polyline_validate_iff_dict`.) -/
def IsPolylineDoc (doc : Json K) : Prop :=
  ∃ kvs, doc = .obj kvs ∧ (kvs.lookup "vertices").isSome = true ∧ (kvs.lookup "isClosed").isSome = true ∧
    ∀ kv ∈ kvs, (kv.1 = "vertices" ∧ ∃ vs, kv.2 = .arr vs ∧ ∀ v ∈ vs, IsVec3 v) ∨
                (kv.1 = "isClosed" ∧ ∃ b, kv.2 = .bool b)

/-- a Plane document: members `referencePoint` and `unitNormal`, each `IsVec3`, nothing else, both present -/
def IsPlaneDoc (doc : Json K) : Prop :=
  ∃ kvs, doc = .obj kvs ∧ (kvs.lookup "referencePoint").isSome = true ∧ (kvs.lookup "unitNormal").isSome = true ∧
    ∀ kv ∈ kvs, (kv.1 = "referencePoint" ∨ kv.1 = "unitNormal") ∧ IsVec3 kv.2

/-! the nodes of the generated schema, obtained by evaluation -/
def vec3N : Schema := nodeOf Gen.Ser.schema (refS "#/definitions/Vector3")
def numS : Schema := sub "items" vec3N
def polyN : Schema := nodeOf Gen.Ser.schema (refS Gen.Ser.polylineRef)
def polyProps : Schema := sub "properties" polyN
def vertsS : Schema := sub "vertices" polyProps
def closedS : Schema := sub "isClosed" polyProps
def vertsN : Schema := nodeOf Gen.Ser.schema vertsS
def vertsItemS : Schema := sub "items" vertsN
def planeN : Schema := nodeOf Gen.Ser.schema (refS Gen.Ser.planeRef)
def planeProps : Schema := sub "properties" planeN
def refPtS : Schema := sub "referencePoint" planeProps
def normalS : Schema := sub "unitNormal" planeProps

theorem valid_number (doc : Json K) : valid Gen.Ser.schema numS doc = true ↔ IsNumber doc := by
  rw [valid_leaf (n := nodeOf Gen.Ser.schema numS) (t := "number") doc rfl rfl (by decide) (by decide)]
  cases doc <;> simp [typeIs, IsNumber]

theorem valid_vec3_node (s : Schema) (hs : deref Gen.Ser.schema s = some vec3N) (doc : Json K) :
    valid Gen.Ser.schema s doc = true ↔ IsVec3 doc := by
  rw [valid_array (n := vec3N) (it := numS) doc hs rfl rfl]
  simp only [lenOk_iff (n := vec3N) (a := 3) (b := 3) _ rfl rfl, valid_number]
  constructor
  · rintro ⟨xs, rfl, ⟨h1, h2⟩, h⟩
    match xs, h1, h2, h with
    | [a, b, c], _, _, h => exact ⟨a, b, c, rfl, by simpa using h⟩
    | [], h1, _, _ => simp at h1
    | [_], h1, _, _ => simp at h1
    | [_, _], h1, _, _ => simp at h1
    | _ :: _ :: _ :: _ :: _, _, h2, _ => simp at h2; omega
  · rintro ⟨a, b, c, rfl, ha, hb, hc⟩
    exact ⟨[a, b, c], rfl, by simp, by simp [ha, hb, hc]⟩

/-- **validate_iff (Vector3)**: a document validates against `#/definitions/Vector3` iff it is an array of
    exactly three numbers -/
theorem vector3_validate_iff (doc : Json K) :
    validates Gen.Ser.schema "#/definitions/Vector3" doc = true ↔ IsVec3 doc :=
  valid_vec3_node _ rfl doc

theorem valid_closed (doc : Json K) : valid Gen.Ser.schema closedS doc = true ↔ ∃ b, doc = .bool b := by
  rw [valid_leaf (n := nodeOf Gen.Ser.schema closedS) (t := "boolean") doc rfl rfl (by decide) (by decide)]
  cases doc <;> simp [typeIs]

theorem valid_verts (doc : Json K) :
    valid Gen.Ser.schema vertsS doc = true ↔ ∃ vs, doc = .arr vs ∧ ∀ v ∈ vs, IsVec3 v := by
  rw [valid_array (n := vertsN) (it := vertsItemS) doc rfl rfl rfl]
  simp only [lenOk_free (n := vertsN) _ rfl rfl, valid_vec3_node vertsItemS rfl, true_and]

theorem polyKeys (k : String) : k ∈ keysOf polyProps ↔ k = "vertices" ∨ k = "isClosed" := by
  have h : (keysOf polyProps).Perm ["vertices", "isClosed"] := by decide
  rw [h.mem_iff]; simp

theorem planeKeys (k : String) : k ∈ keysOf planeProps ↔ k = "referencePoint" ∨ k = "unitNormal" := by
  have h : (keysOf planeProps).Perm ["referencePoint", "unitNormal"] := by decide
  rw [h.mem_iff]; simp

theorem polyReq (P : String → Prop) : (∀ name ∈ reqNames polyN, P name) ↔ P "vertices" ∧ P "isClosed" := by
  have h : (reqNames polyN).Perm ["vertices", "isClosed"] := by decide
  constructor
  · intro hh; exact ⟨hh _ (h.mem_iff.mpr (by simp)), hh _ (h.mem_iff.mpr (by simp))⟩
  · rintro ⟨h1, h2⟩ name hn
    rcases (by simpa using h.mem_iff.mp hn : name = "vertices" ∨ name = "isClosed") with rfl | rfl
    exacts [h1, h2]

theorem planeReq (P : String → Prop) :
    (∀ name ∈ reqNames planeN, P name) ↔ P "referencePoint" ∧ P "unitNormal" := by
  have h : (reqNames planeN).Perm ["referencePoint", "unitNormal"] := by decide
  constructor
  · intro hh; exact ⟨hh _ (h.mem_iff.mpr (by simp)), hh _ (h.mem_iff.mpr (by simp))⟩
  · rintro ⟨h1, h2⟩ name hn
    rcases (by simpa using h.mem_iff.mp hn : name = "referencePoint" ∨ name = "unitNormal") with rfl | rfl
    exacts [h1, h2]

/-- **validate_iff (Polyline)**, by G: `Polyline.validate` accepts exactly the Polyline documents -/
theorem polyline_validate_iff (doc : Json K) : plValidate doc = .ok () ↔ IsPolylineDoc doc := by
  have hv : plValidate doc = .ok () ↔ valid Gen.Ser.schema (refS Gen.Ser.polylineRef) doc = true := by
    unfold plValidate validates refS
    split_ifs with h <;> simp [h]
  rw [hv, valid_object (n := polyN) (ps := polyProps) doc rfl rfl rfl rfl rfl]
  unfold IsPolylineDoc
  apply exists_congr
  intro kvs
  rw [polyReq (fun name => (kvs.lookup name).isSome = true)]
  constructor
  · rintro ⟨rfl, ⟨h1, h2⟩, h⟩
    refine ⟨rfl, h1, h2, ?_⟩
    intro kv hkv
    obtain ⟨hk, hval⟩ := h kv hkv
    rcases (polyKeys kv.1).mp hk with hk | hk
    · left; rw [hk] at hval; exact ⟨hk, (valid_verts kv.2).mp hval⟩
    · right; rw [hk] at hval; exact ⟨hk, (valid_closed kv.2).mp hval⟩
  · rintro ⟨rfl, h1, h2, h⟩
    refine ⟨rfl, ⟨h1, h2⟩, ?_⟩
    intro kv hkv
    rcases h kv hkv with ⟨hk, hv⟩ | ⟨hk, hb⟩
    · exact ⟨(polyKeys kv.1).mpr (Or.inl hk), by rw [hk]; exact (valid_verts kv.2).mpr hv⟩
    · exact ⟨(polyKeys kv.1).mpr (Or.inr hk), by rw [hk]; exact (valid_closed kv.2).mpr hb⟩

/-- **validate_iff (Plane)**, by G: `Plane.validate` accepts exactly the Plane documents -/
theorem plane_validate_iff (doc : Json K) : planeValidate doc = .ok () ↔ IsPlaneDoc doc := by
  have hv : planeValidate doc = .ok () ↔ valid Gen.Ser.schema (refS Gen.Ser.planeRef) doc = true := by
    unfold planeValidate validates refS
    split_ifs with h <;> simp [h]
  rw [hv, valid_object (n := planeN) (ps := planeProps) doc rfl rfl rfl rfl rfl]
  unfold IsPlaneDoc
  apply exists_congr
  intro kvs
  rw [planeReq (fun name => (kvs.lookup name).isSome = true)]
  constructor
  · rintro ⟨rfl, ⟨h1, h2⟩, h⟩
    refine ⟨rfl, h1, h2, ?_⟩
    intro kv hkv
    obtain ⟨hk, hval⟩ := h kv hkv
    refine ⟨(planeKeys kv.1).mp hk, ?_⟩
    rcases (planeKeys kv.1).mp hk with hk | hk
    · rw [hk] at hval; exact (valid_vec3_node refPtS rfl kv.2).mp hval
    · rw [hk] at hval; exact (valid_vec3_node normalS rfl kv.2).mp hval
  · rintro ⟨rfl, h1, h2, h⟩
    refine ⟨rfl, ⟨h1, h2⟩, ?_⟩
    intro kv hkv
    obtain ⟨hk, hv⟩ := h kv hkv
    refine ⟨(planeKeys kv.1).mpr hk, ?_⟩
    rcases hk with hk | hk
    · rw [hk]; exact (valid_vec3_node refPtS rfl kv.2).mpr hv
    · rw [hk]; exact (valid_vec3_node normalS rfl kv.2).mpr hv


/-! ### the same for Python dicts (unique keys): exactly the two members, in either order -/

/-- **validate_iff (Polyline, dict form)**: an object with unique keys validates iff it consists of exactly
    `vertices` (an array of arrays of exactly three numbers) and `isClosed` (a boolean) -/
theorem polyline_validate_iff_dict (kvs : List (String × Json K)) (hnd : (kvs.map Prod.fst).Nodup) :
    plValidate (.obj kvs) = .ok () ↔
      ∃ vs b, (∀ v ∈ vs, IsVec3 v) ∧
        (kvs = [("vertices", .arr vs), ("isClosed", .bool b)] ∨ kvs = [("isClosed", .bool b), ("vertices", .arr vs)]) := by
  rw [polyline_validate_iff]
  constructor
  · rintro ⟨kvs', h, h1, h2, hall⟩
    cases h
    obtain ⟨va, vb, hk⟩ := two_keys kvs "vertices" "isClosed" (by decide) hnd
      (fun kv hkv => (hall kv hkv).imp And.left And.left) h1 h2
    have hva : ∃ vs, va = .arr vs ∧ ∀ v ∈ vs, IsVec3 v := by
      have hm : (("vertices" : String), va) ∈ kvs := by rcases hk with rfl | rfl <;> simp
      rcases hall _ hm with ⟨_, h⟩ | ⟨h, _⟩
      · exact h
      · exact absurd h (by simp)
    have hvb : ∃ b, vb = .bool b := by
      have hm : (("isClosed" : String), vb) ∈ kvs := by rcases hk with rfl | rfl <;> simp
      rcases hall _ hm with ⟨h, _⟩ | ⟨_, h⟩
      · exact absurd h (by simp)
      · exact h
    obtain ⟨vs, rfl, hvs⟩ := hva
    obtain ⟨b, rfl⟩ := hvb
    exact ⟨vs, b, hvs, hk⟩
  · rintro ⟨vs, b, hvs, rfl | rfl⟩
    · refine ⟨_, rfl, by simp [List.lookup], by simp [List.lookup], ?_⟩
      intro kv hkv
      simp at hkv
      rcases hkv with rfl | rfl
      · exact Or.inl ⟨rfl, vs, rfl, hvs⟩
      · exact Or.inr ⟨rfl, b, rfl⟩
    · refine ⟨_, rfl, by simp [List.lookup], by simp [List.lookup], ?_⟩
      intro kv hkv
      simp at hkv
      rcases hkv with rfl | rfl
      · exact Or.inr ⟨rfl, b, rfl⟩
      · exact Or.inl ⟨rfl, vs, rfl, hvs⟩

/-- **validate_iff (Plane, dict form)** -/
theorem plane_validate_iff_dict (kvs : List (String × Json K)) (hnd : (kvs.map Prod.fst).Nodup) :
    planeValidate (.obj kvs) = .ok () ↔
      ∃ r n, IsVec3 r ∧ IsVec3 n ∧
        (kvs = [("referencePoint", r), ("unitNormal", n)] ∨ kvs = [("unitNormal", n), ("referencePoint", r)]) := by
  rw [plane_validate_iff]
  constructor
  · rintro ⟨kvs', h, h1, h2, hall⟩
    cases h
    obtain ⟨va, vb, hk⟩ := two_keys kvs "referencePoint" "unitNormal" (by decide) hnd
      (fun kv hkv => (hall kv hkv).1) h1 h2
    have hva : IsVec3 va := by
      have hm : (("referencePoint" : String), va) ∈ kvs := by rcases hk with rfl | rfl <;> simp
      exact (hall _ hm).2
    have hvb : IsVec3 vb := by
      have hm : (("unitNormal" : String), vb) ∈ kvs := by rcases hk with rfl | rfl <;> simp
      exact (hall _ hm).2
    exact ⟨va, vb, hva, hvb, hk⟩
  · rintro ⟨r, n, hr, hn, rfl | rfl⟩
    · refine ⟨_, rfl, by simp [List.lookup], by simp [List.lookup], ?_⟩
      intro kv hkv
      simp at hkv
      rcases hkv with rfl | rfl
      · exact ⟨Or.inl rfl, hr⟩
      · exact ⟨Or.inr rfl, hn⟩
    · refine ⟨_, rfl, by simp [List.lookup], by simp [List.lookup], ?_⟩
      intro kv hkv
      simp at hkv
      rcases hkv with rfl | rfl
      · exact ⟨Or.inr rfl, hn⟩
      · exact ⟨Or.inl rfl, hr⟩

/-! ## every single-fault corruption is refused -/

theorem polyline_refused_iff (doc : Json K) : plValidate doc = .error .Other ↔ ¬ IsPolylineDoc doc := by
  rw [← polyline_validate_iff]
  unfold plValidate
  split_ifs <;> simp

theorem plane_refused_iff (doc : Json K) : planeValidate doc = .error .Other ↔ ¬ IsPlaneDoc doc := by
  rw [← plane_validate_iff]
  unfold planeValidate
  split_ifs <;> simp

/-- a bool (`True`), a string (`"1"`), `None`, a list, a dict are not numbers; an int (`1`) is -/
theorem not_number_cases (b : Bool) (s : String) (xs : List (Json K)) (kvs : List (String × Json K)) :
    ¬ IsNumber (.bool b : Json K) ∧ ¬ IsNumber (.str s : Json K) ∧ ¬ IsNumber (.null : Json K) ∧
    ¬ IsNumber (.arr xs) ∧ ¬ IsNumber (.obj kvs) := by
  simp [IsNumber]

theorem int_is_number (i : Int) : IsNumber (.int i : Json K) := trivial

/-- wrong arity (2, 4, …) -/
theorem not_vec3_of_length (xs : List (Json K)) (h : xs.length ≠ 3) : ¬ IsVec3 (.arr xs) := by
  rintro ⟨a, b, c, he, _⟩
  cases he
  simp at h

/-- a wrong type at any leaf -/
theorem not_vec3_of_leaf (xs : List (Json K)) (x : Json K) (hx : x ∈ xs) (hn : ¬ IsNumber x) : ¬ IsVec3 (.arr xs) := by
  rintro ⟨a, b, c, he, ha, hb, hc⟩
  cases he
  simp at hx
  rcases hx with rfl | rfl | rfl <;> contradiction

/-- not a list at all -/
theorem not_vec3_of_non_array (doc : Json K) (h : ∀ xs, doc ≠ .arr xs) : ¬ IsVec3 doc := by
  rintro ⟨a, b, c, he, _⟩
  exact h _ he

theorem polyline_refuses_non_object (doc : Json K) (h : ∀ kvs, doc ≠ .obj kvs) :
    plValidate doc = .error .Other := by
  rw [polyline_refused_iff]
  rintro ⟨kvs, he, _⟩
  exact h _ he

theorem polyline_refuses_missing_key (kvs : List (String × Json K))
    (h : kvs.lookup "vertices" = none ∨ kvs.lookup "isClosed" = none) :
    plValidate (.obj kvs) = .error .Other := by
  rw [polyline_refused_iff]
  rintro ⟨kvs', he, h1, h2, _⟩
  cases he
  rcases h with h | h
  · simp [h] at h1
  · simp [h] at h2

theorem polyline_refuses_extra_key (kvs : List (String × Json K)) (k : String) (v : Json K)
    (hm : (k, v) ∈ kvs) (h1 : k ≠ "vertices") (h2 : k ≠ "isClosed") :
    plValidate (.obj kvs) = .error .Other := by
  rw [polyline_refused_iff]
  rintro ⟨kvs', he, _, _, hall⟩
  cases he
  rcases hall _ hm with ⟨h, _⟩ | ⟨h, _⟩
  · exact h1 h
  · exact h2 h

/-- `isClosed` must be a boolean: `1`, `"true"`, `None`, … are refused -/
theorem polyline_refuses_non_boolean_closed (kvs : List (String × Json K)) (v : Json K)
    (hm : ("isClosed", v) ∈ kvs) (hv : ∀ b, v ≠ .bool b) :
    plValidate (.obj kvs) = .error .Other := by
  rw [polyline_refused_iff]
  rintro ⟨kvs', he, _, _, hall⟩
  cases he
  rcases hall _ hm with ⟨h, _⟩ | ⟨_, b, hb⟩
  · exact absurd h (by simp)
  · exact hv b hb

/-- `vertices` must be a list of `IsVec3` -/
theorem polyline_refuses_bad_vertices (kvs : List (String × Json K)) (v : Json K)
    (hm : ("vertices", v) ∈ kvs) (hv : ¬ ∃ vs, v = .arr vs ∧ ∀ x ∈ vs, IsVec3 x) :
    plValidate (.obj kvs) = .error .Other := by
  rw [polyline_refused_iff]
  rintro ⟨kvs', he, _, _, hall⟩
  cases he
  rcases hall _ hm with ⟨_, h⟩ | ⟨h, _⟩
  · exact hv h
  · exact absurd h (by simp)

/-- one vertex that is not three numbers (wrong arity, wrong leaf type, not a list) spoils the document -/
theorem polyline_refuses_bad_vertex (kvs : List (String × Json K)) (vs : List (Json K)) (x : Json K)
    (hm : ("vertices", .arr vs) ∈ kvs) (hx : x ∈ vs) (hbad : ¬ IsVec3 x) :
    plValidate (.obj kvs) = .error .Other := by
  apply polyline_refuses_bad_vertices kvs _ hm
  rintro ⟨vs', he, hall⟩
  cases he
  exact hbad (hall x hx)

theorem plane_refuses_non_object (doc : Json K) (h : ∀ kvs, doc ≠ .obj kvs) :
    planeValidate doc = .error .Other := by
  rw [plane_refused_iff]
  rintro ⟨kvs, he, _⟩
  exact h _ he

theorem plane_refuses_missing_key (kvs : List (String × Json K))
    (h : kvs.lookup "referencePoint" = none ∨ kvs.lookup "unitNormal" = none) :
    planeValidate (.obj kvs) = .error .Other := by
  rw [plane_refused_iff]
  rintro ⟨kvs', he, h1, h2, _⟩
  cases he
  rcases h with h | h
  · simp [h] at h1
  · simp [h] at h2

theorem plane_refuses_extra_key (kvs : List (String × Json K)) (k : String) (v : Json K)
    (hm : (k, v) ∈ kvs) (h1 : k ≠ "referencePoint") (h2 : k ≠ "unitNormal") :
    planeValidate (.obj kvs) = .error .Other := by
  rw [plane_refused_iff]
  rintro ⟨kvs', he, _, _, hall⟩
  cases he
  rcases (hall _ hm).1 with h | h
  · exact h1 h
  · exact h2 h

theorem plane_refuses_bad_vector (kvs : List (String × Json K)) (k : String) (v : Json K)
    (hm : (k, v) ∈ kvs) (hbad : ¬ IsVec3 v) :
    planeValidate (.obj kvs) = .error .Other := by
  rw [plane_refused_iff]
  rintro ⟨kvs', he, _, _, hall⟩
  cases he
  exact hbad (hall _ hm).2

end Docs

/-! ## deserialize never constructs from refused data -/

section Guard
variable {K : Type} [Add K] [Sub K] [Mul K] [Div K] [OfNat K 1] [LE K] [DecidableLE K] [Rounding K]

/-- **deserialize_guarded (Polyline)** -/
theorem polyline_deserialize_guarded (doc : Json K) :
    (∀ p, plDeserialize doc = .ok p → plValidate doc = .ok ()) ∧
    (∀ e, plValidate doc = .error e → plDeserialize doc = .error e) := by
  unfold plDeserialize
  cases h : plValidate doc with
  | error e => simp [bind, Except.bind]
  | ok u => simp

/-- **deserialize_guarded (Plane)** -/
theorem plane_deserialize_guarded (doc : Json K) :
    (∀ p, planeDeserialize doc = .ok p → planeValidate doc = .ok ()) ∧
    (∀ e, planeValidate doc = .error e → planeDeserialize doc = .error e) := by
  unfold planeDeserialize
  cases h : planeValidate doc with
  | error e => simp [bind, Except.bind]
  | ok u => simp

theorem toNum_of_number (j : Json K) (h : IsNumber j) : ∃ x, toNum j = some x := by
  cases j <;> simp [IsNumber] at h <;> simp [toNum]

theorem toV3_of_vec3 (j : Json K) (h : IsVec3 j) : ∃ v, toV3 j = some v := by
  obtain ⟨a, b, c, rfl, ha, hb, hc⟩ := h
  obtain ⟨x, hx⟩ := toNum_of_number a ha
  obtain ⟨y, hy⟩ := toNum_of_number b hb
  obtain ⟨z, hz⟩ := toNum_of_number c hc
  exact ⟨⟨x, y, z⟩, by simp [toV3, hx, hy, hz]⟩

theorem toV3s_of_vec3 (vs : List (Json K)) (h : ∀ v ∈ vs, IsVec3 v) : ∃ l, toV3s vs = some l := by
  induction vs with
  | nil => exact ⟨[], rfl⟩
  | cons j js ih =>
    obtain ⟨v, hv⟩ := toV3_of_vec3 j (h j (by simp))
    obtain ⟨l, hl⟩ := ih (fun v hv => h v (by simp [hv]))
    exact ⟨v :: l, by simp [toV3s, hv, hl]⟩

/-- after a successful `validate`, `Polyline.deserialize` always constructs (no hidden exception;
    in particular an empty `vertices` list is fine) -/
theorem polyline_deserialize_total (doc : Json K) (h : plValidate doc = .ok ()) :
    ∃ p, plDeserialize doc = .ok p := by
  obtain ⟨kvs, rfl, h1, h2, hall⟩ := (polyline_validate_iff doc).mp h
  obtain ⟨va, hva⟩ := Option.isSome_iff_exists.mp h1
  obtain ⟨vb, hvb⟩ := Option.isSome_iff_exists.mp h2
  have ha : ∃ vs, va = .arr vs ∧ ∀ v ∈ vs, IsVec3 v := by
    rcases hall _ (lookup_mem _ _ _ hva) with ⟨_, h⟩ | ⟨h, _⟩
    · exact h
    · exact absurd h (by simp)
  have hb : ∃ b, vb = .bool b := by
    rcases hall _ (lookup_mem _ _ _ hvb) with ⟨h, _⟩ | ⟨_, h⟩
    · exact absurd h (by simp)
    · exact h
  obtain ⟨vs, rfl, hvs⟩ := ha
  obtain ⟨b, rfl⟩ := hb
  obtain ⟨l, hl⟩ := toV3s_of_vec3 vs hvs
  exact ⟨⟨l, b⟩, by simp [plDeserialize, h, Json.get?, hva, hvb, hl, bind, Except.bind]⟩

/-- after a successful `validate`, `Plane.deserialize` is the constructor call on the two vectors
    (the only exception left is the constructor's `ValueError`) -/
theorem plane_deserialize_after_validate (doc : Json K) (h : planeValidate doc = .ok ()) :
    ∃ r n, planeDeserialize doc = planeCtor r n none := by
  obtain ⟨kvs, rfl, h1, h2, hall⟩ := (plane_validate_iff doc).mp h
  obtain ⟨va, hva⟩ := Option.isSome_iff_exists.mp h1
  obtain ⟨vb, hvb⟩ := Option.isSome_iff_exists.mp h2
  obtain ⟨r, hr⟩ := toV3_of_vec3 va (hall _ (lookup_mem _ _ _ hva)).2
  obtain ⟨n, hn⟩ := toV3_of_vec3 vb (hall _ (lookup_mem _ _ _ hvb)).2
  exact ⟨r, n, by simp [planeDeserialize, h, Json.get?, hva, hvb, hr, hn, bind, Except.bind]⟩

end Guard

/-! ## serialize produces valid documents; the round trip (any number type, any rounding operation) -/

section RoundTrip
variable {K : Type} [Add K] [Sub K] [Mul K] [Div K] [OfNat K 1] [LE K] [DecidableLE K] [Rounding K]

theorem vecJson_isVec3 (v : V3 K) : IsVec3 (vecJson v) := ⟨_, _, _, rfl, trivial, trivial, trivial⟩

theorem plJson_validates (r : Polyline K) : plValidate (plJson r) = .ok () := by
  rw [polyline_validate_iff]
  refine ⟨_, rfl, by simp [List.lookup], by simp [List.lookup], ?_⟩
  intro kv hkv
  simp at hkv
  rcases hkv with rfl | rfl
  · refine Or.inl ⟨rfl, _, rfl, ?_⟩
    intro v hv
    obtain ⟨w, _, rfl⟩ := List.mem_map.mp hv
    exact vecJson_isVec3 w
  · exact Or.inr ⟨rfl, _, rfl⟩

theorem plJson_deserialize (r : Polyline K) : plDeserialize (plJson r) = .ok r := by
  have h := plJson_validates r
  unfold plDeserialize
  rw [h]
  simp [plJson, Json.get?, List.lookup, toV3s_map_vecJson, bind, Except.bind]

/-- `serialize` returns data that passes `validate` — for every polyline, also the empty one, and every
    number of decimals (and the default) -/
theorem polyline_serialize_validates (p : Polyline K) (d : Option Nat) : plValidate (plSerialize p d) = .ok () :=
  plJson_validates _

/-- **roundtrip (Polyline)**: `deserialize (serialize p d) = rounded p d` — same closedness, vertices the
    originals rounded to `d` decimals; holds for the polyline with no vertices too -/
theorem polyline_roundtrip (p : Polyline K) (d : Option Nat) :
    plDeserialize (plSerialize p d) = .ok (plRounded p d) :=
  plJson_deserialize _

theorem polyline_roundtrip_empty (c : Bool) (d : Option Nat) :
    plDeserialize (plSerialize (⟨[], c⟩ : Polyline K) d) = .ok ⟨[], c⟩ :=
  polyline_roundtrip _ _

/-- `rounded` keeps closedness and the number of vertices -/
theorem polyline_rounded_shape (p : Polyline K) (d : Option Nat) :
    (plRounded p d).closed = p.closed ∧ (plRounded p d).v.length = p.v.length := by
  simp [plRounded]

theorem planeJson_validates (r : Plane K) : planeValidate (planeJson r) = .ok () := by
  rw [plane_validate_iff]
  refine ⟨_, rfl, by simp [List.lookup], by simp [List.lookup], ?_⟩
  intro kv hkv
  simp at hkv
  rcases hkv with rfl | rfl
  · exact ⟨Or.inl rfl, vecJson_isVec3 _⟩
  · exact ⟨Or.inr rfl, vecJson_isVec3 _⟩

/-- whenever `Plane.serialize` returns, its result passes `validate` -/
theorem plane_serialize_validates (p : Plane K) (pd dd : Option Nat) (doc : Json K)
    (h : planeSerialize p pd dd = .ok doc) : planeValidate doc = .ok () := by
  unfold planeSerialize at h
  cases hr : planeRounded p pd dd with
  | error e => simp [hr, bind, Except.bind] at h
  | ok r =>
    simp [hr, bind, Except.bind, pure, Except.pure] at h
    subst h
    exact planeJson_validates r

/-- `Plane.deserialize` on a serialized plane is the constructor call on the serialized vectors
    (validated at the default number of direction decimals) -/
theorem planeJson_deserialize (r : Plane K) : planeDeserialize (planeJson r) = planeCtor r.ref r.n none := by
  have h := planeJson_validates r
  unfold planeDeserialize
  rw [h]
  simp [planeJson, Json.get?, List.lookup, toV3_vecJson, bind, Except.bind]

end RoundTrip

/-! ## rounding: half a unit in the last kept decimal (any ordered field with a floor) -/

section Rounding
variable {K : Type} [Field K] [LinearOrder K] [IsStrictOrderedRing K] [FloorRing K]

/-- the rounding used by the theorems is the one the exact model executes (`PW.rintRat`) -/
theorem rint_rat_agrees (q : ℚ) : rintFloor q = PW.rintRat q := by
  have hf : ⌊q⌋ = q.floor := rfl
  unfold rintFloor PW.rintRat
  simp only [hf, gt_iff_lt]

/-- `rint` is within one half -/
theorem rint_error (x : K) : |((Rounding.rint x : Int) : K) - x| ≤ 1 / 2 := rintFloor_error x

/-- ties go to the even neighbour (`np.around(2.5) = 2`, `np.around(3.5) = 4`) -/
theorem rint_tie_even (m : Int) : (Rounding.rint ((m : K) + 1 / 2) : Int) % 2 = 0 := rintFloor_tie_even m

/-- **around_error**: `|around d x − x| ≤ ½·10⁻ᵈ` -/
theorem around_error (d : Nat) (x : K) : |around d x - x| ≤ 1 / 2 / 10 ^ d := around_error' d x

/-- the result has at most `d` decimals: it is an integer multiple of `10⁻ᵈ` -/
theorem around_on_grid (d : Nat) (x : K) : ∃ k : Int, around d x = (k : K) / 10 ^ d :=
  ⟨_, around_eq d x⟩

/-- every coordinate of every vertex of `rounded` is within half a unit of the last kept decimal -/
theorem polyline_rounded_error (p : Polyline K) (d : Option Nat) (i : Nat) (hi : i < p.v.length) :
    let dd := d.getD Gen.Ser.polylineDefaultDecimals
    let r := (plRounded p d).v[i]'(by simpa [plRounded] using hi)
    |r.x - (p.v[i]).x| ≤ 1 / 2 / 10 ^ dd ∧ |r.y - (p.v[i]).y| ≤ 1 / 2 / 10 ^ dd ∧
      |r.z - (p.v[i]).z| ≤ 1 / 2 / 10 ^ dd := by
  simp only [plRounded, List.getElem_map, roundV3]
  exact ⟨around_error _ _, around_error _ _, around_error _ _⟩

/-! ### unit length after rounding, for a normal that is unit only up to `δ`

A normal with `double` components is never *exactly* unit unless it is axis-aligned; a normal normalised in
double precision satisfies `|n·n − 1| ≤ 4·2⁻⁵²` (the harness checks this on every normal it generates).  The
theorems are stated for any `δ` under an explicit smallness condition, instantiated at `δ = 4·2⁻⁵²`, `d ≤ 12`
(the property's range), and the exact-unit statements are the corollaries `δ = 0`. -/

/-- **rounded_total, slack form**: `|n·n − 1| ≤ δ < 1`; the normal is rounded to `d` decimals and checked at `d'`.
    Explicit condition: `2(1+δ)·(7/8)·10⁻ᵈ + δ(1 + 10⁻ᵈ') ≤ 2·10⁻ᵈ'` (`7/8 ≥ √3/2` keeps the statement free of square
    roots; the sharp ℝ form is `almostUnit_round_real`). -/
theorem almostUnit_round_slack (n : V3 K) (δ : K) (hδ0 : 0 ≤ δ) (hδ1 : δ < 1) (hn : |n.normSq - 1| ≤ δ)
    (d d' : Nat) (hC : 2 * (1 + δ) * (7 / 8 * unitTol d) + δ * (1 + unitTol d') ≤ 2 * unitTol d') :
    almostUnit d' (roundV3 d n) = true := by
  have hu := (unitTol_range (K := K) d).1
  have he : (roundV3 d n - n).normSq ≤ (7 / 8 * unitTol d) * (7 / 8 * unitTol d) := by
    have h2 := round_normSq_error d n
    have h3 : (0 : K) ≤ unitTol d * unitTol d := mul_self_nonneg _
    have e : (7 / 8 * (unitTol d : K)) * (7 / 8 * unitTol d) = 49 / 64 * (unitTol d * unitTol d) := by ring
    rw [e]; linarith
  obtain ⟨hl, hu'⟩ := normSq_perturbed_slack n (roundV3 d n) δ (7 / 8 * unitTol d) (unitTol d') hδ0 hδ1 hn
    (by positivity) (unitTol_range (K := K) d').2 he hC
  simp [almostUnit, hl, hu']

/-- the condition holds as soon as `15·δ ≤ 10⁻ᵈ` (and `d' ≤ d`) -/
theorem almostUnit_round_of_small (n : V3 K) (δ : K) (hδ0 : 0 ≤ δ) (hn : |n.normSq - 1| ≤ δ)
    (d d' : Nat) (h15 : 15 * δ ≤ unitTol d) (h : d' ≤ d) :
    almostUnit d' (roundV3 d n) = true := by
  obtain ⟨hu0, hu1⟩ := unitTol_range (K := K) d
  obtain ⟨ha0, ha1⟩ := unitTol_range (K := K) d'
  have hua := unitTol_anti (K := K) h
  have h1 : δ * unitTol d ≤ δ := by
    have := mul_le_mul_of_nonneg_left hu1 hδ0
    simpa using this
  have h2 : δ * unitTol d' ≤ δ := by
    have := mul_le_mul_of_nonneg_left ha1 hδ0
    simpa using this
  apply almostUnit_round_slack n δ hδ0 (by linarith) hn d d'
  have e : 2 * (1 + δ) * (7 / 8 * unitTol d) + δ * (1 + unitTol d')
      = 7 / 4 * unitTol d + 7 / 4 * (δ * unitTol d) + δ + δ * unitTol d' := by ring
  rw [e]; linarith

/-- instantiated for a normal normalised in double precision and the property's range `d ≤ 12` -/
theorem almostUnit_round_double (n : V3 K) (hn : |n.normSq - 1| ≤ 4 / 2 ^ 52) (d d' : Nat) (h : d' ≤ d)
    (hd : d ≤ 12) : almostUnit d' (roundV3 d n) = true := by
  apply almostUnit_round_of_small n (4 / 2 ^ 52) (by positivity) hn d d' _ h
  have h12 := unitTol_anti (K := K) hd
  rw [unitTol_eq 12] at h12
  have : (15 : K) * (4 / 2 ^ 52) ≤ 1 / 10 ^ 12 := by norm_num
  linarith

/-- an exactly unit normal rounded to `d` decimals passes the unit-length check at `d` decimals and at every
    coarser `d' ≤ d` (the case `δ = 0`) -/
theorem almostUnit_round (n : V3 K) (hn : n.normSq = 1) (d d' : Nat) (h : d' ≤ d) :
    almostUnit d' (roundV3 d n) = true :=
  almostUnit_round_of_small n 0 le_rfl (by simp [hn]) d d' (by simpa using (unitTol_range (K := K) d).1) h

theorem planeRounded_of_almostUnit (p : Plane K) (pd dd : Option Nat)
    (h : almostUnit (dd.getD Gen.Ser.planeDefaultDirectionDecimals)
      (roundV3 (dd.getD Gen.Ser.planeDefaultDirectionDecimals) p.n) = true) :
    planeRounded p pd dd = .ok ⟨roundV3 (pd.getD Gen.Ser.planeDefaultPositionDecimals) p.ref,
      roundV3 (dd.getD Gen.Ser.planeDefaultDirectionDecimals) p.n⟩ := by
  simp [planeRounded, planeCtor, h]

/-- **rounded_total (Plane), slack form**: `Plane.rounded` succeeds and returns the componentwise rounded plane
    whenever `|n·n − 1| ≤ δ` with `15·δ ≤ 10⁻ᵈ` at the requested direction decimals `d` -/
theorem plane_rounded_total_slack (p : Plane K) (δ : K) (hδ0 : 0 ≤ δ) (hn : |p.n.normSq - 1| ≤ δ)
    (pd dd : Option Nat) (h15 : 15 * δ ≤ unitTol (dd.getD Gen.Ser.planeDefaultDirectionDecimals)) :
    planeRounded p pd dd = .ok ⟨roundV3 (pd.getD Gen.Ser.planeDefaultPositionDecimals) p.ref,
      roundV3 (dd.getD Gen.Ser.planeDefaultDirectionDecimals) p.n⟩ :=
  planeRounded_of_almostUnit p pd dd (almostUnit_round_of_small p.n δ hδ0 hn _ _ h15 (le_refl _))

theorem planeSerialize_of_rounded (p q : Plane K) (pd dd : Option Nat) (h : planeRounded p pd dd = .ok q) :
    planeSerialize p pd dd = .ok (planeJson q) := by
  simp [planeSerialize, h, bind, Except.bind, pure, Except.pure]

/-- … and so does `Plane.serialize`, with the rounded vectors under the schema's key names -/
theorem plane_serialize_total_slack (p : Plane K) (δ : K) (hδ0 : 0 ≤ δ) (hn : |p.n.normSq - 1| ≤ δ)
    (pd dd : Option Nat) (h15 : 15 * δ ≤ unitTol (dd.getD Gen.Ser.planeDefaultDirectionDecimals)) :
    planeSerialize p pd dd = .ok (planeJson ⟨roundV3 (pd.getD Gen.Ser.planeDefaultPositionDecimals) p.ref,
      roundV3 (dd.getD Gen.Ser.planeDefaultDirectionDecimals) p.n⟩) :=
  planeSerialize_of_rounded p _ pd dd (plane_rounded_total_slack p δ hδ0 hn pd dd h15)

theorem double_slack_small (d : Nat) (hd : d ≤ 12) : (15 : K) * (4 / 2 ^ 52) ≤ unitTol d := by
  have h12 := unitTol_anti (K := K) hd
  rw [unitTol_eq 12] at h12
  have : (15 : K) * (4 / 2 ^ 52) ≤ 1 / 10 ^ 12 := by norm_num
  linarith

/-- **rounded_total (Plane), double precision**: for a normal normalised in double precision
    (`|n·n − 1| ≤ 4·2⁻⁵²`) `rounded` succeeds for every position decimals and every direction decimals `≤ 12` -/
theorem plane_rounded_total_double (p : Plane K) (hn : |p.n.normSq - 1| ≤ 4 / 2 ^ 52) (pd dd : Option Nat)
    (hdd : dd.getD Gen.Ser.planeDefaultDirectionDecimals ≤ 12) :
    planeRounded p pd dd = .ok ⟨roundV3 (pd.getD Gen.Ser.planeDefaultPositionDecimals) p.ref,
      roundV3 (dd.getD Gen.Ser.planeDefaultDirectionDecimals) p.n⟩ :=
  plane_rounded_total_slack p _ (by positivity) hn pd dd (double_slack_small _ hdd)

theorem plane_serialize_total_double (p : Plane K) (hn : |p.n.normSq - 1| ≤ 4 / 2 ^ 52) (pd dd : Option Nat)
    (hdd : dd.getD Gen.Ser.planeDefaultDirectionDecimals ≤ 12) :
    planeSerialize p pd dd = .ok (planeJson ⟨roundV3 (pd.getD Gen.Ser.planeDefaultPositionDecimals) p.ref,
      roundV3 (dd.getD Gen.Ser.planeDefaultDirectionDecimals) p.n⟩) :=
  plane_serialize_total_slack p _ (by positivity) hn pd dd (double_slack_small _ hdd)

/-- **rounded_total**: for an exactly unit normal, `Plane.rounded` succeeds for every number of position and
    direction decimals (and the defaults) and returns the componentwise rounded plane (`δ = 0`) -/
theorem plane_rounded_total (p : Plane K) (hn : p.n.normSq = 1) (pd dd : Option Nat) :
    planeRounded p pd dd = .ok ⟨roundV3 (pd.getD Gen.Ser.planeDefaultPositionDecimals) p.ref,
      roundV3 (dd.getD Gen.Ser.planeDefaultDirectionDecimals) p.n⟩ :=
  plane_rounded_total_slack p 0 le_rfl (by simp [hn]) pd dd (by simpa using (unitTol_range (K := K) _).1)

/-- … and so does `Plane.serialize`, with the rounded vectors under the schema's key names -/
theorem plane_serialize_total (p : Plane K) (hn : p.n.normSq = 1) (pd dd : Option Nat) :
    planeSerialize p pd dd = .ok (planeJson ⟨roundV3 (pd.getD Gen.Ser.planeDefaultPositionDecimals) p.ref,
      roundV3 (dd.getD Gen.Ser.planeDefaultDirectionDecimals) p.n⟩) :=
  planeSerialize_of_rounded p _ pd dd (plane_rounded_total p hn pd dd)

/-- every coordinate of the rounded plane is within half a unit of the last kept decimal -/
theorem plane_rounded_error (p q : Plane K) (pd dd : Option Nat) (h : planeRounded p pd dd = .ok q) :
    let a := pd.getD Gen.Ser.planeDefaultPositionDecimals
    let b := dd.getD Gen.Ser.planeDefaultDirectionDecimals
    (|q.ref.x - p.ref.x| ≤ 1 / 2 / 10 ^ a ∧ |q.ref.y - p.ref.y| ≤ 1 / 2 / 10 ^ a ∧ |q.ref.z - p.ref.z| ≤ 1 / 2 / 10 ^ a) ∧
    (|q.n.x - p.n.x| ≤ 1 / 2 / 10 ^ b ∧ |q.n.y - p.n.y| ≤ 1 / 2 / 10 ^ b ∧ |q.n.z - p.n.z| ≤ 1 / 2 / 10 ^ b) := by
  unfold planeRounded planeCtor at h
  simp only at h
  split_ifs at h with hu
  cases h
  simp only [roundV3]
  exact ⟨⟨around_error _ _, around_error _ _, around_error _ _⟩, ⟨around_error _ _, around_error _ _, around_error _ _⟩⟩

/-- **roundtrip (Plane), slack form**: `|n·n − 1| ≤ δ`, `15·δ ≤ 10⁻ᵈ` at the requested direction decimals `d`,
    and `d` at least the default: serialising and deserialising yields exactly `rounded` with the same arguments -/
theorem plane_roundtrip_slack (p : Plane K) (δ : K) (hδ0 : 0 ≤ δ) (hn : |p.n.normSq - 1| ≤ δ) (pd dd : Option Nat)
    (h15 : 15 * δ ≤ unitTol (dd.getD Gen.Ser.planeDefaultDirectionDecimals))
    (hdd : Gen.Ser.planeDefaultDirectionDecimals ≤ dd.getD Gen.Ser.planeDefaultDirectionDecimals) :
    ∃ q doc, planeRounded p pd dd = .ok q ∧ planeSerialize p pd dd = .ok doc ∧ planeDeserialize doc = .ok q := by
  refine ⟨_, _, plane_rounded_total_slack p δ hδ0 hn pd dd h15, plane_serialize_total_slack p δ hδ0 hn pd dd h15, ?_⟩
  rw [planeJson_deserialize]
  simp [planeCtor, almostUnit_round_of_small p.n δ hδ0 hn _ _ h15 hdd]

/-- **roundtrip (Plane), double precision**: normal normalised in double precision, direction decimals between the
    default and 12 -/
theorem plane_roundtrip_double (p : Plane K) (hn : |p.n.normSq - 1| ≤ 4 / 2 ^ 52) (pd dd : Option Nat)
    (hdd : Gen.Ser.planeDefaultDirectionDecimals ≤ dd.getD Gen.Ser.planeDefaultDirectionDecimals)
    (hdd' : dd.getD Gen.Ser.planeDefaultDirectionDecimals ≤ 12) :
    ∃ q doc, planeRounded p pd dd = .ok q ∧ planeSerialize p pd dd = .ok doc ∧ planeDeserialize doc = .ok q :=
  plane_roundtrip_slack p _ (by positivity) hn pd dd (double_slack_small _ hdd') hdd

/-- … in particular at the default direction decimals (by G: the default is 6 ≤ 12) -/
theorem plane_roundtrip_default_double (p : Plane K) (hn : |p.n.normSq - 1| ≤ 4 / 2 ^ 52) (pd : Option Nat) :
    ∃ q doc, planeRounded p pd none = .ok q ∧ planeSerialize p pd none = .ok doc ∧ planeDeserialize doc = .ok q :=
  plane_roundtrip_double p hn pd none (le_refl _) (by simp [gen_default_decimals.2.2])

/-- **roundtrip (Plane)**: for an exactly unit normal, serialising with any position decimals and with the default
    (or any finer) direction decimals and deserialising yields exactly `rounded` with the same arguments (`δ = 0`) -/
theorem plane_roundtrip (p : Plane K) (hn : p.n.normSq = 1) (pd dd : Option Nat)
    (hdd : Gen.Ser.planeDefaultDirectionDecimals ≤ dd.getD Gen.Ser.planeDefaultDirectionDecimals) :
    ∃ q doc, planeRounded p pd dd = .ok q ∧ planeSerialize p pd dd = .ok doc ∧ planeDeserialize doc = .ok q :=
  plane_roundtrip_slack p 0 le_rfl (by simp [hn]) pd dd (by simpa using (unitTol_range (K := K) _).1) hdd

/-- the default direction decimals are among those that round-trip -/
theorem plane_roundtrip_default (p : Plane K) (hn : p.n.normSq = 1) (pd : Option Nat) :
    ∃ q doc, planeRounded p pd none = .ok q ∧ planeSerialize p pd none = .ok doc ∧ planeDeserialize doc = .ok q :=
  plane_roundtrip p hn pd none (le_refl _)

/-- the slack hypothesis is satisfiable by a normal that is *not* exactly unit -/
example : ∃ n : V3 ℚ, n.normSq ≠ 1 ∧ |n.normSq - 1| ≤ 4 / 2 ^ 52 :=
  ⟨⟨1 + 1 / 2 ^ 53, 0, 0⟩, by norm_num [V3.normSq_def], by norm_num [V3.normSq_def, abs_le]⟩

/-- the hypotheses are satisfiable: an oblique unit normal with rational components -/
example : ∃ p : Plane ℚ, p.n.normSq = 1 ∧ p.n.x ≠ 0 ∧ p.n.y ≠ 0 ∧ p.n.z ≠ 0 :=
  ⟨⟨⟨1, 2, 3⟩, ⟨2 / 7, 3 / 7, 6 / 7⟩⟩, by norm_num [V3.normSq_def]⟩

end Rounding

/-! ## over ℝ: the unit-length check is the one with the norm; the rounded normal is `(√3/2)·10⁻ᵈ`-close to unit -/

section Real

noncomputable instance : PW.Sqrt ℝ := ⟨Real.sqrt⟩

/-- the square-root-free acceptance decision of the model is `|‖n‖ − 1| ≤ a` for `0 ≤ a ≤ 1` -/
theorem unit_check_sqrt_free (a nn : ℝ) (h0 : 0 ≤ a) (h1 : a ≤ 1) (hnn : 0 ≤ nn) :
    |Real.sqrt nn - 1| ≤ a ↔ (1 - a) * (1 - a) ≤ nn ∧ nn ≤ (1 + a) * (1 + a) := by
  rw [abs_le]
  have hs := Real.sqrt_nonneg nn
  have hss := Real.mul_self_sqrt hnn
  constructor
  · rintro ⟨hl, hu⟩
    constructor <;> nlinarith
  · rintro ⟨hl, hu⟩
    constructor
    · by_contra hc
      have hc := not_le.mp hc
      nlinarith
    · by_contra hc
      have hc := not_le.mp hc
      nlinarith

/-- `almostUnit d n` ⇔ `vg.almost_unit_length(n, atol=10⁻ᵈ)` -/
theorem almostUnit_iff_real (d : Nat) (n : V3 ℝ) :
    almostUnit d n = true ↔ |V3.norm n - 1| ≤ 1 / 10 ^ d := by
  have hr := unitTol_range (K := ℝ) d
  have hnn : 0 ≤ n.normSq := by
    simp only [V3.normSq_def]; nlinarith [mul_self_nonneg n.x, mul_self_nonneg n.y, mul_self_nonneg n.z]
  have h := unit_check_sqrt_free (unitTol d) n.normSq hr.1 hr.2 hnn
  rw [unitTol_eq] at h
  simp only [V3.norm, PW.sqrt, Sqrt.sqrt]
  rw [h]
  simp [almostUnit, unitTol_eq]

/-- **rounded_total (ℝ, with the norm)**: `|‖round_d n‖ − 1| ≤ (√3/2)·10⁻ᵈ` for a unit `n` — strictly inside the
    constructor's tolerance `10⁻ᵈ` at the requested `d` -/
theorem rounded_norm_bound_real (n : V3 ℝ) (hn : n.normSq = 1) (d : Nat) :
    |V3.norm (roundV3 d n) - 1| ≤ Real.sqrt 3 / 2 * (1 / 10 ^ d) ∧
      Real.sqrt 3 / 2 * (1 / 10 ^ d) < 1 / 10 ^ (d : ℕ) := by
  have h3 : Real.sqrt 3 * Real.sqrt 3 = 3 := Real.mul_self_sqrt (by norm_num)
  have h3pos : 0 ≤ Real.sqrt 3 := Real.sqrt_nonneg 3
  have h3lt : Real.sqrt 3 < 2 := by nlinarith
  have hp : (0 : ℝ) < 1 / 10 ^ d := by positivity
  have hp1 : (1 : ℝ) / 10 ^ d ≤ 1 := by
    have := (unitTol_range (K := ℝ) d).2
    rwa [unitTol_eq] at this
  constructor
  · set ε := Real.sqrt 3 / 2 * (1 / 10 ^ d) with hε
    have he0 : 0 ≤ ε := by positivity
    have he1 : ε ≤ 1 := by nlinarith
    have he : (roundV3 d n - n).normSq ≤ ε * ε := by
      have h2 := round_normSq_error d n
      rw [unitTol_eq] at h2
      have : ε * ε = 3 / 4 * (1 / 10 ^ d * (1 / 10 ^ d)) := by
        rw [hε]; linear_combination (1 / 4 * (1 / 10 ^ d * (1 / 10 ^ d))) * h3
      rw [this]; exact h2
    obtain ⟨hl, hu⟩ := normSq_perturbed n (roundV3 d n) ε hn he0 he1 he
    have hnn : 0 ≤ (roundV3 d n).normSq := by
      simp only [V3.normSq_def]
      nlinarith [mul_self_nonneg (roundV3 d n).x, mul_self_nonneg (roundV3 d n).y, mul_self_nonneg (roundV3 d n).z]
    simp only [V3.norm, PW.sqrt, Sqrt.sqrt]
    exact (unit_check_sqrt_free ε _ he0 he1 hnn).mpr ⟨hl, hu⟩
  · nlinarith

/-- **rounded_total (ℝ, slack form)**: `|n·n − 1| ≤ δ` ⇒ `|‖round_d n‖ − 1| ≤ (√3/2)·10⁻ᵈ + δ` -/
theorem rounded_norm_bound_real_slack (n : V3 ℝ) (δ : ℝ) (hδ0 : 0 ≤ δ) (hn : |n.normSq - 1| ≤ δ) (d : Nat) :
    |V3.norm (roundV3 d n) - 1| ≤ Real.sqrt 3 / 2 * (1 / 10 ^ d) + δ := by
  have h3 : Real.sqrt 3 * Real.sqrt 3 = 3 := Real.mul_self_sqrt (by norm_num)
  have h3pos : 0 ≤ Real.sqrt 3 := Real.sqrt_nonneg 3
  set r := roundV3 d n with hr
  have hss : 0 ≤ n.normSq := by
    simp only [V3.normSq_def]; nlinarith [mul_self_nonneg n.x, mul_self_nonneg n.y, mul_self_nonneg n.z]
  have hrr : 0 ≤ r.normSq := by
    simp only [V3.normSq_def]; nlinarith [mul_self_nonneg r.x, mul_self_nonneg r.y, mul_self_nonneg r.z]
  simp only [V3.norm, PW.sqrt, Sqrt.sqrt]
  have hu0 := Real.sqrt_nonneg r.normSq
  have hv0 := Real.sqrt_nonneg n.normSq
  have huu := Real.mul_self_sqrt hrr
  have hvv := Real.mul_self_sqrt hss
  -- Cauchy–Schwarz with the norms
  have hcs : r.dot n ≤ Real.sqrt r.normSq * Real.sqrt n.normSq := by
    have h := dot_sq_le r n
    rw [← Real.sqrt_mul hrr]
    exact le_trans (le_abs_self _) (Real.abs_le_sqrt (by rw [sq]; exact h))
  -- (‖r‖ − ‖n‖)² ≤ (r−n)·(r−n) ≤ w²
  have he := round_normSq_error d n
  rw [unitTol_eq] at he
  have hexp : (r - n).normSq = r.normSq + n.normSq - 2 * r.dot n := by
    simp only [V3.dot_def, V3.normSq_def, V3.sub_x, V3.sub_y, V3.sub_z]; ring
  set u := Real.sqrt r.normSq
  set v := Real.sqrt n.normSq
  set w := Real.sqrt 3 / 2 * (1 / 10 ^ d) with hw
  have hw0 : 0 ≤ w := by positivity
  have hww : w * w = 3 / 4 * (1 / 10 ^ d * (1 / 10 ^ d)) := by
    rw [hw]; linear_combination (1 / 4 * (1 / 10 ^ d * (1 / 10 ^ d))) * h3
  have hsq : (u - v) * (u - v) ≤ w * w := by
    have e : (u - v) * (u - v) = u * u + v * v - 2 * (u * v) := by ring
    rw [e, huu, hvv, hww]
    rw [hexp] at he
    linarith
  have huv : |u - v| ≤ w := abs_le_of_sq_le_sq' (by simpa [sq] using hsq) hw0 |> fun h => abs_le.mpr h
  -- |‖n‖ − 1| ≤ |n·n − 1| ≤ δ
  obtain ⟨hs1, hs2⟩ := abs_le.mp hn
  have hv1 : |v - 1| ≤ δ := by
    rw [abs_le]
    have e : (v - 1) * (v + 1) = n.normSq - 1 := by rw [← hvv]; ring
    constructor
    · by_contra hc
      have hc := not_le.mp hc
      nlinarith
    · by_contra hc
      have hc := not_le.mp hc
      nlinarith
  calc |u - 1| = |(u - v) + (v - 1)| := by ring_nf
    _ ≤ |u - v| + |v - 1| := abs_add_le _ _
    _ ≤ w + δ := add_le_add huv hv1

/-- **rounded_total (ℝ, sharp explicit condition)**: if `(√3/2)·10⁻ᵈ + δ ≤ 10⁻ᵈ'` the normal rounded to `d` decimals
    passes the constructor's unit check at `d'` decimals -/
theorem almostUnit_round_real (n : V3 ℝ) (δ : ℝ) (hδ0 : 0 ≤ δ) (hn : |n.normSq - 1| ≤ δ) (d d' : Nat)
    (hcond : Real.sqrt 3 / 2 * (1 / 10 ^ d) + δ ≤ 1 / 10 ^ d') :
    almostUnit d' (roundV3 d n) = true :=
  (almostUnit_iff_real d' _).mpr (le_trans (rounded_norm_bound_real_slack n δ hδ0 hn d) hcond)

end Real

end PW.C19
