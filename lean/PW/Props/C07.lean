/-
  C07 — Polyline.nearest is the true closest point; closest_point_of_line_segment / is_point_on_line_segment;
  sliced_at_points and aligned_along_subsegment build on it.

  Property theorems only (helper lemmas live in PW/Lemmas/Nearest.lean).  Everything free of `sqrt` is over an
  arbitrary linearly ordered field `K` (hence ℚ and ℝ at once) and speaks of squared distances; the statements
  about the Euclidean distance itself are over ℝ with `Real.sqrt`.  `a, v` = start point and vector of a segment,
  a point of the segment is `a + s·v` with `0 ≤ s ≤ 1`.
-/
import PW.Model.Nearest
import PW.Lemmas.Vec
import PW.Lemmas.Nearest
import PW.Gen.C07Nearest
import Mathlib.Tactic.Ring
import Mathlib.Tactic.LinearCombination
import Mathlib.Tactic.Linarith
import Mathlib.Algebra.Order.Field.Basic
import Mathlib.Analysis.Real.Sqrt
import Mathlib.Algebra.BigOperators.Group.List.Basic

set_option linter.unusedSectionVars false

namespace PW.C07

open PW.Nearest

section field
variable {K : Type} [Field K] [LinearOrder K] [IsStrictOrderedRing K]

/-! ## closest_point_of_line_segment -/

/-- the clamped parameter lies in `[0,1]` and the result is `start + t·vector` (a point of the segment) -/
theorem closest_t_range (q a v : V3 K) :
    0 ≤ closestT q a v ∧ closestT q a v ≤ 1 ∧ closestPoint q a v = a + V3.smul (closestT q a v) v :=
  ⟨(clampedRatio_mem _ _).1, (clampedRatio_mem _ _).2, rfl⟩

/-- the `t` value is what the documentation says: `clamp((q−a)·v / v·v)` for a proper segment -/
theorem closest_t_formula (q a v : V3 K) (hv : v.dot v ≠ 0) :
    closestT q a v = max 0 (min 1 ((q - a).dot v / v.dot v)) := by
  have hpos : 0 < v.dot v := lt_of_le_of_ne (dot_self_nonneg v) (Ne.symm hv)
  unfold closestT
  rw [clampedRatio_pos hpos]
  unfold clip01
  split_ifs with h1 h2
  · rw [min_eq_right (le_of_lt (lt_trans h1 zero_lt_one)), max_eq_left (le_of_lt h1)]
  · rw [min_eq_left (le_of_lt h2), max_eq_right zero_le_one]
  · rw [min_eq_right (not_lt.mp h2), max_eq_right (not_lt.mp h1)]

/-- zero-length segment (`nan_to_num(0/0) = 0`): `t = 0` and the closest point is the start point -/
theorem closest_zero_length (q a : V3 K) :
    closestT q a ⟨0, 0, 0⟩ = 0 ∧ closestPoint q a ⟨0, 0, 0⟩ = a := by
  have ht : closestT q a (⟨0, 0, 0⟩ : V3 K) = 0 := by
    unfold closestT
    have h1 : (⟨0, 0, 0⟩ : V3 K).dot ⟨0, 0, 0⟩ = 0 := by simp [V3.dot_def]
    have h2 : (q - a).dot (⟨0, 0, 0⟩ : V3 K) = 0 := by simp [V3.dot_def]
    rw [h1, h2, clampedRatio_zero_den]
    simp
  refine ⟨ht, ?_⟩
  unfold closestPoint
  rw [ht]
  ext <;> simp

/-- **closest_on_segment_opt**: no point of the segment is closer to the query than the returned one
    (squared distances; every segment, zero-length included) -/
theorem closest_on_segment_opt (q a v : V3 K) (s : K) (hs0 : 0 ≤ s) (hs1 : s ≤ 1) :
    (closestPoint q a v - q).normSq ≤ ((a + V3.smul s v) - q).normSq := by
  unfold closestPoint
  rw [normSq_param, normSq_param]
  have h0 : v.dot v = 0 → (q - a).dot v = 0 := by
    intro h
    obtain ⟨hx, hy, hz⟩ := dot_self_eq_zero h
    simp [V3.dot_def, hx, hy, hz]
  have := quad_min (dot_self_nonneg v) h0 hs0 hs1
  unfold closestT
  linarith

/-- the pairwise (stacked) function is the single one row by row, and it rejects unequal row counts -/
theorem closest_pairwise (qs as vs : List (V3 K)) :
    (as.length = qs.length ∧ vs.length = qs.length →
      ∃ l, closestPointsOfLineSegments qs as vs = .ok l ∧ l.length = qs.length ∧
        ∀ i (h : i < qs.length) (ha : i < as.length) (hv : i < vs.length),
          l[i]? = some (closestPoint qs[i] as[i] vs[i], closestT qs[i] as[i] vs[i])) ∧
    (¬ (as.length = qs.length ∧ vs.length = qs.length) →
      closestPointsOfLineSegments qs as vs = .error .ValueError) := by
  unfold closestPointsOfLineSegments
  constructor
  · intro h
    rw [if_pos h]
    refine ⟨_, rfl, ?_, ?_⟩
    · rw [List.length_map, zip3_length, h.1, h.2]; simp
    · intro i hi ha hv
      rw [List.getElem?_map, zip3_getElem?]
      simp [List.getElem?_eq_getElem hi, List.getElem?_eq_getElem ha, List.getElem?_eq_getElem hv]
  · intro h
    rw [if_neg h]

/-! ## is_point_on_line_segment -/

/-- **is_on_segment_iff**: the test is true exactly when some point of the segment is within `ε` of the query
    (squared: `≤ ε²`), for every segment including zero-length ones -/
theorem is_on_segment_iff (q a v : V3 K) (eps : K) :
    isPointOnLineSegment q a v eps = true ↔
      ∃ s, 0 ≤ s ∧ s ≤ 1 ∧ ((a + V3.smul s v) - q).normSq ≤ eps * eps := by
  unfold isPointOnLineSegment
  rw [decide_eq_true_iff]
  constructor
  · intro h
    exact ⟨closestT q a v, (closest_t_range q a v).1, (closest_t_range q a v).2.1, h⟩
  · rintro ⟨s, hs0, hs1, h⟩
    exact le_trans (closest_on_segment_opt q a v s hs0 hs1) h

/-- zero-length segment: the test is "the query is within `ε` of the start point" -/
theorem is_on_segment_zero_length (q a : V3 K) (eps : K) :
    isPointOnLineSegment q a ⟨0, 0, 0⟩ eps = true ↔ (a - q).normSq ≤ eps * eps := by
  unfold isPointOnLineSegment
  rw [decide_eq_true_iff, (closest_zero_length q a).2]

theorem is_on_segment_pairwise (qs as vs : List (V3 K)) (eps : K)
    (h : as.length = qs.length ∧ vs.length = qs.length) :
    ∃ l, arePointsOnLineSegments qs as vs eps = .ok l ∧ l.length = qs.length ∧
      ∀ i (hi : i < qs.length) (ha : i < as.length) (hv : i < vs.length),
        l[i]? = some (isPointOnLineSegment qs[i] as[i] vs[i] eps) := by
  unfold arePointsOnLineSegments
  rw [if_pos h]
  refine ⟨_, rfl, ?_, ?_⟩
  · rw [List.length_map, zip3_length, h.1, h.2]; simp
  · intro i hi ha hv
    rw [List.getElem?_map, zip3_getElem?]
    simp [List.getElem?_eq_getElem hi, List.getElem?_eq_getElem ha, List.getElem?_eq_getElem hv]

/-! ## Polyline.nearest, one query point -/

/-- the candidate row of a segment -/
theorem cand_def (f : K → K) (q : V3 K) (s : V3 K × V3 K) :
    (cand f q s).point = closestPoint q s.1 (s.2 - s.1) ∧ (cand f q s).t = closestT q s.1 (s.2 - s.1) ∧
    (cand f q s).dist = f (((cand f q s).point - q).normSq) := ⟨rfl, rfl, rfl⟩

/-- **consistency of the outputs** (any distance function `f`): the reported index is a valid segment index,
    `point = start of that segment + t × its vector` with `0 ≤ t ≤ 1`, `distance = f(|point − query|²)` -/
theorem nearest_consistent (f : K → K) (q : V3 K) (s : V3 K × V3 K) (ss : List (V3 K × V3 K)) :
    ∃ sg, (s :: ss)[(hit f q s ss).index]? = some sg ∧
      (hit f q s ss).point = sg.1 + V3.smul (hit f q s ss).t (sg.2 - sg.1) ∧
      0 ≤ (hit f q s ss).t ∧ (hit f q s ss).t ≤ 1 ∧
      (hit f q s ss).t = closestT q sg.1 (sg.2 - sg.1) ∧
      (hit f q s ss).dist = f (((hit f q s ss).point - q).normSq) := by
  have h := (pickFrom_first_min (cand f q s) (ss.map (cand f q))).1
  rw [← List.map_cons, List.getElem?_map] at h
  obtain ⟨sg, hsg, hc⟩ := Option.map_eq_some_iff.mp h
  refine ⟨sg, hsg, ?_⟩
  simp only [hit]
  rw [← hc]
  exact ⟨rfl, (closest_t_range _ _ _).1, (closest_t_range _ _ _).2.1, rfl, rfl⟩

/-- the compared distance of the reported segment is minimal among all segments' candidates, and **strictly**
    smaller than that of every earlier segment (NumPy's first-minimal-index rule) -/
theorem nearest_first_minimal (f : K → K) (q : V3 K) (s : V3 K × V3 K) (ss : List (V3 K × V3 K)) :
    (∀ sg ∈ s :: ss, (hit f q s ss).dist ≤ (cand f q sg).dist) ∧
    (∀ k sg, k < (hit f q s ss).index → (s :: ss)[k]? = some sg → (hit f q s ss).dist < (cand f q sg).dist) := by
  obtain ⟨_, h2, h3⟩ := pickFrom_first_min (cand f q s) (ss.map (cand f q))
  rw [← List.map_cons] at h2 h3
  constructor
  · intro sg hsg
    exact h2 _ (List.mem_map_of_mem hsg)
  · intro k sg hk hsg
    apply h3 k _ hk
    rw [List.getElem?_map, hsg]; rfl

/-- optimality for a monotone distance function: the reported distance is `≤ f(|x − q|²)` for every point `x`
    of every segment -/
theorem nearest_opt_of_mono (f : K → K) (hf : ∀ x y, 0 ≤ x → x ≤ y → f x ≤ f y)
    (q : V3 K) (s : V3 K × V3 K) (ss : List (V3 K × V3 K))
    (sg : V3 K × V3 K) (hsg : sg ∈ s :: ss) (u : K) (hu0 : 0 ≤ u) (hu1 : u ≤ 1) :
    (hit f q s ss).dist ≤ f (((sg.1 + V3.smul u (sg.2 - sg.1)) - q).normSq) := by
  refine le_trans ((nearest_first_minimal f q s ss).1 sg hsg) ?_
  apply hf
  · exact dot_self_nonneg _
  · exact closest_on_segment_opt q sg.1 (sg.2 - sg.1) u hu0 hu1

/-- **nearest optimality over K** (squared distances, `f = id`): the squared distance from the query to the
    returned point is minimal over all points of all segments -/
theorem C07_nearest_opt_sq (q : V3 K) (s : V3 K × V3 K) (ss : List (V3 K × V3 K))
    (sg : V3 K × V3 K) (hsg : sg ∈ s :: ss) (u : K) (hu0 : 0 ≤ u) (hu1 : u ≤ 1) :
    ((hit id q s ss).point - q).normSq ≤ ((sg.1 + V3.smul u (sg.2 - sg.1)) - q).normSq := by
  obtain ⟨_, _, _, _, _, _, hd⟩ := nearest_consistent id q s ss
  have := nearest_opt_of_mono id (fun _ _ _ h => h) q s ss sg hsg u hu0 hu1
  rw [hd] at this
  exact this

/-- a polyline without a segment: `np.argmin` of an empty axis, ValueError (for every query, even an empty stack);
    with at least one segment `nearest` returns -/
theorem nearest_error_iff (f : K → K) (pl : Polyline K) (q : Query K) (si sd st : Bool) :
    (pl.segments = [] → nearestWith f pl q si sd st = .error .ValueError) ∧
    (pl.segments ≠ [] → ∃ r, nearestWith f pl q si sd st = .ok r) := by
  unfold nearestWith
  constructor
  · intro h; rw [h]
  · intro h
    match hs : pl.segments with
    | [] => exact absurd hs h
    | s :: ss => exact ⟨_, rfl⟩

/-! ## stacked = map, and the optional outputs -/

/-- **stacked = map**: on a stack of queries every returned array is the `map` of the single-query result, in
    query order; a single query is the one-row stack with `transform_result` picking row 0 -/
theorem nearest_stacked_map (f : K → K) (pl : Polyline K) (s : V3 K × V3 K) (ss : List (V3 K × V3 K))
    (hs : pl.segments = s :: ss) (qs : List (V3 K)) (si sd st : Bool) :
    ∃ r, nearestWith f pl (.many qs) si sd st = .ok r ∧ r.single = false ∧
      r.points = qs.map (fun q => (hit f q s ss).point) ∧
      (∀ l, r.indices = some l → l = qs.map (fun q => (hit f q s ss).index)) ∧
      (∀ l, r.dists = some l → l = qs.map (fun q => (hit f q s ss).dist)) ∧
      (∀ l, r.ts = some l → l = qs.map (fun q => (hit f q s ss).t)) := by
  unfold nearestWith
  rw [hs]
  refine ⟨_, rfl, ?_⟩
  unfold assemble Query.toList Query.single
  split_ifs <;> simp [List.map_map, Function.comp_def]

theorem nearest_single_eq_stack_of_one (f : K → K) (pl : Polyline K) (q : V3 K) (si sd st : Bool) :
    (nearestWith f pl (.one q) si sd st).map (fun r => (r.tuple, r.points, r.indices, r.dists, r.ts)) =
    (nearestWith f pl (.many [q]) si sd st).map (fun r => (r.tuple, r.points, r.indices, r.dists, r.ts)) ∧
    ∀ r, nearestWith f pl (.one q) si sd st = .ok r → r.single = true ∧ r.points.length = 1 := by
  unfold nearestWith
  cases pl.segments with
  | nil => exact ⟨rfl, by intro r h; cases h⟩
  | cons s ss =>
    refine ⟨?_, ?_⟩
    · simp only [Except.map, assemble, Query.toList]
      split_ifs <;> rfl
    · intro r h
      injection h with h
      subst h
      simp only [assemble, Query.toList, Query.single]
      split_ifs <;> simp

/-- the full clause "every optional output that is requested is returned" — **false of the code** (see the witness) -/
def C07_outputs_statement (K : Type) [Add K] [Sub K] [Mul K] [Div K] [Neg K] [OfNat K 0] [OfNat K 1]
    [LT K] [LE K] [DecidableLT K] [DecidableLE K] (f : K → K) : Prop :=
  ∀ (pl : Polyline K) (q : Query K) (si sd st : Bool) (r : Ret K), nearestWith f pl q si sd st = .ok r →
    (si = true → r.indices.isSome) ∧ (sd = true → r.dists.isSome) ∧ (st = true → r.ts.isSome)

/-- **C07_outputs_partial**: for every flag combination except `ret_t_values` alone, exactly the requested
    optional outputs are returned (and nothing that was not requested) -/
theorem C07_outputs_partial (f : K → K) (pl : Polyline K) (q : Query K) (si sd st : Bool) (r : Ret K)
    (hr : nearestWith f pl q si sd st = .ok r) (hflags : ¬ (st = true ∧ si = false ∧ sd = false)) :
    r.indices.isSome = si ∧ r.dists.isSome = sd ∧ r.ts.isSome = st ∧ r.tuple = (si || sd || st) := by
  unfold nearestWith at hr
  cases hseg : pl.segments with
  | nil => rw [hseg] at hr; cases hr
  | cons s ss =>
    rw [hseg] at hr
    injection hr with hr
    subst hr
    cases si <;> cases sd <;> cases st <;> simp_all [assemble, tupleCond]

/-- the excluded combination really is the `else` branch: only the points come back -/
theorem C07_outputs_t_only (f : K → K) (pl : Polyline K) (q : Query K) (r : Ret K)
    (hr : nearestWith f pl q false false true = .ok r) :
    r.tuple = false ∧ r.indices = none ∧ r.dists = none ∧ r.ts = none := by
  unfold nearestWith at hr
  cases hseg : pl.segments with
  | nil => rw [hseg] at hr; cases hr
  | cons s ss =>
    rw [hseg] at hr
    injection hr with hr
    subst hr
    simp [assemble, tupleCond]

end field



/-! ## sub-path selection

`Na` / `Nb` are the points nearest `a` / `b`.  Three layers:

1. `sliced_at_points_forward` … `sliced_at_points_closing_edge_full_turn`: the landing segments are hypotheses on the
   *working* polyline (the one that already contains `Na`).
2. `sliced_at_points_original` (and its corollaries `sliced_at_points_original_*`): every case, hypotheses on the
   ORIGINAL polyline only (`LandsInside`: which segment, at which parameter); the bridge is `landing_inner` /
   `landing_closing` (where `b` lands after `Na` has been inserted), built on `split_preserves_nearest`.
3. `Simple` ("does not touch itself") and points ON the polyline: `nearest_on_simple` derives the landing hypotheses,
   `sliced_at_points_on_path` is the sub-path clause with no hypothesis about `nearest`; over ℝ
   `closed_subpaths_cover_loop` (the two closed sub-paths are the two ways round), `aligned_closed_on_path_shorter`
   and `aligned_open_on_path_forward` (the returned orientation).  `C07_subpath_partial` collects them; what it leaves
   out of `C07_subpath_statement` is only the pairs of distinct points closer than `atol` to each other, for which the
   code returns the one-vertex polyline `[Na]` (`sliced_at_points_original_same_point`). -/

section subpath
variable {K : Type} [Field K] [LinearOrder K] [IsStrictOrderedRing K]

/-- `index_of_vertex`: the answer is the lowest index whose vertex is within `atol` of the point in every
    coordinate; ValueError exactly when there is none -/
theorem index_of_vertex_spec (vs : List (V3 K)) (p : V3 K) (atol : K) :
    (∀ i, indexOfVertex vs p atol = .ok i ↔
      ∃ h : i < vs.length, (|vs[i].x - p.x| ≤ atol ∧ |vs[i].y - p.y| ≤ atol ∧ |vs[i].z - p.z| ≤ atol) ∧
        ∀ j (hj : j < i), ¬ (|vs[j].x - p.x| ≤ atol ∧ |vs[j].y - p.y| ≤ atol ∧ |vs[j].z - p.z| ≤ atol)) ∧
    (indexOfVertex vs p atol = .error .ValueError ↔
      ∀ v ∈ vs, ¬ (|v.x - p.x| ≤ atol ∧ |v.y - p.y| ≤ atol ∧ |v.z - p.z| ≤ atol)) := by
  have hclose : ∀ x : K, closeToZero x atol = true ↔ |x| ≤ atol := by
    intro x
    unfold closeToZero
    split_ifs with h
    · rw [decide_eq_true_iff, abs_of_neg h]
    · rw [decide_eq_true_iff, abs_of_nonneg (not_lt.mp h)]
  have hm : ∀ v : V3 K, vertexMatches p atol v = true ↔
      (|v.x - p.x| ≤ atol ∧ |v.y - p.y| ≤ atol ∧ |v.z - p.z| ≤ atol) := by
    intro v
    unfold vertexMatches
    rw [Bool.and_eq_true, Bool.and_eq_true, hclose, hclose, hclose, and_assoc]
  unfold indexOfVertex
  constructor
  · intro i
    cases hf : vs.findIdx? (vertexMatches p atol) with
    | none =>
      constructor
      · intro h; cases h
      · rintro ⟨hi, h1, _⟩
        have := List.findIdx?_eq_none_iff.mp hf vs[i] (List.getElem_mem hi)
        rw [(hm _).mpr h1] at this
        cases this
    | some k =>
      obtain ⟨hk, hk1, hk2⟩ := List.findIdx?_eq_some_iff_getElem.mp hf
      constructor
      · intro h
        injection h with h
        subst h
        exact ⟨hk, (hm _).mp hk1, fun j hj hmj => hk2 j hj ((hm _).mpr hmj)⟩
      · rintro ⟨hi, h1, h2⟩
        rcases Nat.lt_trichotomy k i with hlt | heq | hgt
        · exact absurd ((hm _).mp hk1) (h2 k hlt)
        · rw [heq]
        · exact absurd ((hm _).mpr h1) (hk2 i hgt)
  · cases hf : vs.findIdx? (vertexMatches p atol) with
    | none =>
      simp only [true_iff]
      intro v hv hmv
      have := List.findIdx?_eq_none_iff.mp hf v hv
      rw [(hm _).mpr hmv] at this
      cases this
    | some k =>
      obtain ⟨hk, hk1, _⟩ := List.findIdx?_eq_some_iff_getElem.mp hf
      constructor
      · intro h; cases h
      · intro h
        exact absurd ((hm _).mp hk1) (h _ (List.getElem_mem hk))

/-- `sliced_at_indices`: `[start, stop)` in order; on a closed polyline `stop ≤ start` wraps around the end;
    on an open one it is a ValueError; the result is always open -/
theorem sliced_at_indices_spec (pl : Polyline K) (start stop : Nat) :
    (start < stop → slicedAtIndices pl start stop = .ok ⟨(pl.v.drop start).take (stop - start), false⟩) ∧
    (stop ≤ start → pl.closed = false → slicedAtIndices pl start stop = .error .ValueError) ∧
    (stop ≤ start → pl.closed = true → start < pl.v.length →
      slicedAtIndices pl start stop = .ok ⟨pl.v.drop start ++ pl.v.take stop, false⟩) := by
  obtain ⟨v, c⟩ := pl
  refine ⟨slicedAtIndices_lt v c start stop, ?_, ?_⟩
  · intro h hc
    simp only at hc
    subst hc
    exact slicedAtIndices_open_le v start stop h
  · intro h hc hlt
    simp only at hc
    subst hc
    exact slicedAtIndices_wrap v start stop h hlt

/-- the reported segment index of one query is a valid segment index -/
theorem nearest_index_lt (f : K → K) (pl : Polyline K) (q : V3 K) (h : Hit K)
    (hn : nearestOne f pl q = .ok h) : h.index < pl.numE := by
  unfold nearestOne at hn
  cases hs : pl.segments with
  | nil => rw [hs] at hn; cases hn
  | cons s ss =>
    rw [hs] at hn
    injection hn with hn
    subst hn
    obtain ⟨sg, h1, _⟩ := nearest_consistent f q s ss
    rw [← segments_length, hs]
    exact (List.getElem?_eq_some_iff.mp h1).1

/-- both nearest points are (within `atol` of) existing vertices: no insertion, plain index slice -/
theorem sliced_at_points_at_vertices (f : K → K) (pl : Polyline K) (a b : V3 K) (atol : K) (ha hb : Hit K)
    (ia ib : Nat) (hna : nearestOne f pl a = .ok ha) (hva : indexOfVertex pl.v ha.point atol = .ok ia)
    (hnb : nearestOne f pl b = .ok hb) (hvb : indexOfVertex pl.v hb.point atol = .ok ib) :
    slicedAtPointsWith f pl a b atol = slicedAtIndices pl ia (ib + 1) := by
  unfold slicedAtPointsWith withNearestVertex
  simp [hna, hva, hnb, hvb]

/-- neither nearest point is a vertex: both are inserted (`Na` first, `Nb` into the working polyline that
    already contains `Na`; `Na`'s index is shifted when `Nb` lands at or before it) and the slice runs from `Na`
    to `Nb` inclusive -/
theorem sliced_at_points_unfold (f : K → K) (pl : Polyline K) (a b : V3 K) (atol : K) (ha hb : Hit K)
    (hna : nearestOne f pl a = .ok ha) (hva : indexOfVertex pl.v ha.point atol = .error .ValueError)
    (hnb : nearestOne f ⟨insertBefore pl.v (edgeEnd pl ha.index) ha.point, pl.closed⟩ b = .ok hb)
    (hvb : indexOfVertex (insertBefore pl.v (edgeEnd pl ha.index) ha.point) hb.point atol = .error .ValueError) :
    slicedAtPointsWith f pl a b atol =
      slicedAtIndices
        ⟨insertBefore (insertBefore pl.v (edgeEnd pl ha.index) ha.point)
          (edgeEnd ⟨insertBefore pl.v (edgeEnd pl ha.index) ha.point, pl.closed⟩ hb.index) hb.point, pl.closed⟩
        (if edgeEnd ⟨insertBefore pl.v (edgeEnd pl ha.index) ha.point, pl.closed⟩ hb.index ≤ edgeEnd pl ha.index
          then edgeEnd pl ha.index + 1 else edgeEnd pl ha.index)
        (edgeEnd ⟨insertBefore pl.v (edgeEnd pl ha.index) ha.point, pl.closed⟩ hb.index + 1) := by
  unfold slicedAtPointsWith withNearestVertex
  simp [hna, hva, hnb, hvb]

/-- **forward** (open or closed, no closing edge involved).  Vertices `p ++ m ++ s`, `s ≠ []`; `Na` on the segment
    leaving the last vertex of `p`, `Nb` (on the working polyline) on the segment leaving the last vertex of `m`
    (or leaving `Na` when `m = []`): the result is the open polyline `Na, m, Nb` — the two inserted points with
    exactly the vertices strictly between them. -/
theorem sliced_at_points_forward (f : K → K) (pl : Polyline K) (a b : V3 K) (atol : K) (ha hb : Hit K)
    (p m s : List (V3 K)) (hv : pl.v = p ++ m ++ s) (hs : s ≠ [])
    (hia : ha.index + 1 = p.length) (hib : hb.index = p.length + m.length)
    (hna : nearestOne f pl a = .ok ha) (hva : indexOfVertex pl.v ha.point atol = .error .ValueError)
    (hnb : nearestOne f ⟨insertBefore pl.v (edgeEnd pl ha.index) ha.point, pl.closed⟩ b = .ok hb)
    (hvb : indexOfVertex (insertBefore pl.v (edgeEnd pl ha.index) ha.point) hb.point atol = .error .ValueError) :
    slicedAtPointsWith f pl a b atol = .ok ⟨ha.point :: m ++ [hb.point], false⟩ := by
  have hsl : 0 < s.length := List.length_pos_iff.mpr hs
  rw [sliced_at_points_unfold f pl a b atol ha hb hna hva hnb hvb]
  obtain ⟨v, c⟩ := pl
  simp only at hv ⊢
  subst hv
  have e1 : edgeEnd ⟨p ++ m ++ s, c⟩ ha.index = p.length := by
    rw [edgeEnd_inner _ _ _ (Or.inr (by simp only [List.length_append]; omega)), hia]
  rw [e1]
  have e2 : edgeEnd ⟨insertBefore (p ++ m ++ s) p.length ha.point, c⟩ hb.index = p.length + 1 + m.length := by
    rw [edgeEnd_inner _ _ _ (Or.inr (by simp [insertBefore]; omega)), hib]; omega
  rw [e2, if_neg (by omega), slicedAtIndices_lt _ _ _ _ (by omega)]
  exact congrArg (fun l => Except.ok (⟨l, false⟩ : Polyline K)) (slice_forward p m s ha.point hb.point)

/-- **backward on an open polyline**: `Nb` falls before `Na` (same configuration with the roles exchanged, including
    both on one segment with `Nb` first): `sliced_at_indices` raises ValueError -/
theorem sliced_at_points_backward_open (f : K → K) (pl : Polyline K) (a b : V3 K) (atol : K) (ha hb : Hit K)
    (p m s : List (V3 K)) (hv : pl.v = p ++ m ++ s) (hopen : pl.closed = false)
    (hia : ha.index + 1 = p.length + m.length) (hib : hb.index + 1 = p.length)
    (hna : nearestOne f pl a = .ok ha) (hva : indexOfVertex pl.v ha.point atol = .error .ValueError)
    (hnb : nearestOne f ⟨insertBefore pl.v (edgeEnd pl ha.index) ha.point, pl.closed⟩ b = .ok hb)
    (hvb : indexOfVertex (insertBefore pl.v (edgeEnd pl ha.index) ha.point) hb.point atol = .error .ValueError) :
    slicedAtPointsWith f pl a b atol = .error .ValueError := by
  rw [sliced_at_points_unfold f pl a b atol ha hb hna hva hnb hvb]
  obtain ⟨v, c⟩ := pl
  simp only at hv hopen ⊢
  subst hv hopen
  rw [edgeEnd_inner _ _ _ (Or.inl rfl), edgeEnd_inner _ _ _ (Or.inl rfl), hia, hib, if_pos (by omega)]
  exact slicedAtIndices_open_le _ _ _ (by omega)

/-- **backward on a closed polyline** (wrapping, no closing edge involved).  Vertices `p ++ m ++ s`, `s ≠ []`; `Na`
    on the segment leaving the last vertex of `p ++ m`, `Nb` on the segment leaving the last vertex of `p`: the
    result runs from `Na` over `s`, wraps to `p` and ends at `Nb`. -/
theorem sliced_at_points_wrap (f : K → K) (pl : Polyline K) (a b : V3 K) (atol : K) (ha hb : Hit K)
    (p m s : List (V3 K)) (hv : pl.v = p ++ m ++ s) (hs : s ≠ []) (hclosed : pl.closed = true)
    (hia : ha.index + 1 = p.length + m.length) (hib : hb.index + 1 = p.length)
    (hna : nearestOne f pl a = .ok ha) (hva : indexOfVertex pl.v ha.point atol = .error .ValueError)
    (hnb : nearestOne f ⟨insertBefore pl.v (edgeEnd pl ha.index) ha.point, pl.closed⟩ b = .ok hb)
    (hvb : indexOfVertex (insertBefore pl.v (edgeEnd pl ha.index) ha.point) hb.point atol = .error .ValueError) :
    slicedAtPointsWith f pl a b atol = .ok ⟨ha.point :: s ++ p ++ [hb.point], false⟩ := by
  have hsl : 0 < s.length := List.length_pos_iff.mpr hs
  rw [sliced_at_points_unfold f pl a b atol ha hb hna hva hnb hvb]
  obtain ⟨v, c⟩ := pl
  simp only at hv hclosed ⊢
  subst hv hclosed
  have e1 : edgeEnd ⟨p ++ m ++ s, true⟩ ha.index = p.length + m.length := by
    rw [edgeEnd_inner _ _ _ (Or.inr (by simp only [List.length_append]; omega)), hia]
  rw [e1]
  have e2 : edgeEnd ⟨insertBefore (p ++ m ++ s) (p.length + m.length) ha.point, true⟩ hb.index = p.length := by
    rw [edgeEnd_inner _ _ _ (Or.inr (by simp [insertBefore]; omega)), hib]
  rw [e2, if_pos (by omega), slice_backward]
  rw [slicedAtIndices_wrap _ _ _ (by omega) (by simp; omega)]
  have h1 : p ++ hb.point :: m ++ ha.point :: s = (p ++ hb.point :: m) ++ (ha.point :: s) := by simp
  have h2 : p ++ hb.point :: m ++ ha.point :: s = (p ++ [hb.point]) ++ (m ++ ha.point :: s) := by simp
  conv_lhs => rw [h1, List.drop_left' (by simp; omega)]
  rw [h2, List.take_left' (by simp)]
  simp

/-- **`Na` on the closing edge** of a closed polyline (it becomes vertex 0 of the working polyline).  Vertices
    `m ++ s`, `s ≠ []`, `Nb` on the segment leaving the last vertex of `m` (leaving `Na` when `m = []`): the result
    is `Na, m, Nb` — the path wraps through the first vertices. -/
theorem sliced_at_points_from_closing_edge (f : K → K) (pl : Polyline K) (a b : V3 K) (atol : K) (ha hb : Hit K)
    (m s : List (V3 K)) (hv : pl.v = m ++ s) (hs : s ≠ []) (hclosed : pl.closed = true)
    (hia : ha.index + 1 = pl.v.length) (hib : hb.index = m.length)
    (hna : nearestOne f pl a = .ok ha) (hva : indexOfVertex pl.v ha.point atol = .error .ValueError)
    (hnb : nearestOne f ⟨insertBefore pl.v (edgeEnd pl ha.index) ha.point, pl.closed⟩ b = .ok hb)
    (hvb : indexOfVertex (insertBefore pl.v (edgeEnd pl ha.index) ha.point) hb.point atol = .error .ValueError) :
    slicedAtPointsWith f pl a b atol = .ok ⟨ha.point :: m ++ [hb.point], false⟩ := by
  have hsl : 0 < s.length := List.length_pos_iff.mpr hs
  rw [sliced_at_points_unfold f pl a b atol ha hb hna hva hnb hvb]
  obtain ⟨v, c⟩ := pl
  simp only at hv hclosed hia ⊢
  subst hv hclosed
  rw [edgeEnd_closing _ _ hia, insertBefore_zero]
  have e2 : edgeEnd ⟨ha.point :: (m ++ s), true⟩ hb.index = m.length + 1 := by
    rw [edgeEnd_inner _ _ _ (Or.inr (by simp; omega)), hib]
  rw [e2, if_neg (by omega), slicedAtIndices_lt _ _ _ _ (by omega)]
  have h1 : ha.point :: (m ++ s) = (ha.point :: m) ++ s := by simp
  have h2 : (ha.point :: m).length = m.length + 1 := by simp
  rw [h1, ← h2, insertBefore_append]
  have h3 : (ha.point :: m) ++ hb.point :: s = (ha.point :: m ++ [hb.point]) ++ s := by simp
  simp only [List.drop_zero]
  rw [h3, List.take_left' (by simp)]

/-- **`Nb` on the closing edge** of the working polyline (`Na` on an inner segment).  Vertices `p ++ s`, `s ≠ []`,
    `Na` on the segment leaving the last vertex of `p`: the result is `Na, s, Nb`. -/
theorem sliced_at_points_to_closing_edge (f : K → K) (pl : Polyline K) (a b : V3 K) (atol : K) (ha hb : Hit K)
    (p s : List (V3 K)) (hv : pl.v = p ++ s) (hs : s ≠ []) (hclosed : pl.closed = true)
    (hia : ha.index + 1 = p.length) (hib : hb.index = pl.v.length)
    (hna : nearestOne f pl a = .ok ha) (hva : indexOfVertex pl.v ha.point atol = .error .ValueError)
    (hnb : nearestOne f ⟨insertBefore pl.v (edgeEnd pl ha.index) ha.point, pl.closed⟩ b = .ok hb)
    (hvb : indexOfVertex (insertBefore pl.v (edgeEnd pl ha.index) ha.point) hb.point atol = .error .ValueError) :
    slicedAtPointsWith f pl a b atol = .ok ⟨ha.point :: s ++ [hb.point], false⟩ := by
  have hsl : 0 < s.length := List.length_pos_iff.mpr hs
  rw [sliced_at_points_unfold f pl a b atol ha hb hna hva hnb hvb]
  obtain ⟨v, c⟩ := pl
  simp only at hv hclosed hib ⊢
  subst hv hclosed
  have e1 : edgeEnd ⟨p ++ s, true⟩ ha.index = p.length := by
    rw [edgeEnd_inner _ _ _ (Or.inr (by simp only [List.length_append]; omega)), hia]
  rw [e1]
  have e2 : edgeEnd ⟨insertBefore (p ++ s) p.length ha.point, true⟩ hb.index = 0 := by
    apply edgeEnd_closing
    rw [insertBefore_append, hib]; simp only [List.length_append, List.length_cons]; omega
  rw [e2, if_pos (by omega), insertBefore_zero, insertBefore_append]
  rw [slicedAtIndices_wrap _ _ _ (by omega) (by simp)]
  have h1 : hb.point :: (p ++ ha.point :: s) = (hb.point :: p) ++ (ha.point :: s) := by simp
  conv_lhs => rw [h1, List.drop_left' (by simp)]
  simp

/-- **both on the closing edge, `Nb` before `Na`**: once all the way round, `Na, every vertex, Nb` -/
theorem sliced_at_points_closing_edge_full_turn (f : K → K) (pl : Polyline K) (a b : V3 K) (atol : K) (ha hb : Hit K)
    (hclosed : pl.closed = true)
    (hia : ha.index + 1 = pl.v.length) (hib : hb.index = pl.v.length)
    (hna : nearestOne f pl a = .ok ha) (hva : indexOfVertex pl.v ha.point atol = .error .ValueError)
    (hnb : nearestOne f ⟨insertBefore pl.v (edgeEnd pl ha.index) ha.point, pl.closed⟩ b = .ok hb)
    (hvb : indexOfVertex (insertBefore pl.v (edgeEnd pl ha.index) ha.point) hb.point atol = .error .ValueError) :
    slicedAtPointsWith f pl a b atol = .ok ⟨ha.point :: pl.v ++ [hb.point], false⟩ := by
  rw [sliced_at_points_unfold f pl a b atol ha hb hna hva hnb hvb]
  obtain ⟨v, c⟩ := pl
  simp only at hclosed hia hib ⊢
  subst hclosed
  rw [edgeEnd_closing _ _ hia, insertBefore_zero]
  have e2 : edgeEnd ⟨ha.point :: v, true⟩ hb.index = 0 := by
    apply edgeEnd_closing
    simp [hib]
  rw [e2, if_pos (le_refl _), insertBefore_zero]
  rw [slicedAtIndices_wrap _ _ _ (by omega) (by simp)]
  simp

/-! ### cutting a segment does not move nearest points -/

/-- **split_preserves_nearest**: cutting the segment `x y` of a polyline at a point `x + s (y − x)` on it changes
    no nearest *point* and no nearest distance, and shifts the first-minimal segment index predictably: unchanged
    before the cut segment, one of the two halves on it, `+ 1` after it.  (`f` = the distance function the arg-min
    compares, any order-embedding of the non-negative numbers: `id`, `Real.sqrt`.) -/
theorem split_preserves_nearest (f : K → K) (hf : ∀ x y : K, 0 ≤ x → 0 ≤ y → (f x ≤ f y ↔ x ≤ y))
    (pl pl' : Polyline K) (pre post : List (V3 K × V3 K)) (x y : V3 K) (s : K) (hs0 : 0 ≤ s) (hs1 : s ≤ 1)
    (hseg : pl.segments = pre ++ (x, y) :: post)
    (hseg' : pl'.segments = pre ++ (x, x + V3.smul s (y - x)) :: (x + V3.smul s (y - x), y) :: post)
    (q : V3 K) (h h' : Hit K) (hn : nearestOne f pl q = .ok h) (hn' : nearestOne f pl' q = .ok h') :
    h'.point = h.point ∧ h'.dist = h.dist ∧
    (h.index < pre.length → h'.index = h.index ∧ h'.t = h.t) ∧
    (h.index = pre.length → h'.index = pre.length ∨ h'.index = pre.length + 1) ∧
    (pre.length < h.index → h'.index = h.index + 1 ∧ h'.t = h.t) := by
  set P := x + V3.smul s (y - x) with hP
  have hfm := nearestOne_firstMin f pl q h hn
  rw [hseg, List.map_append, List.map_cons] at hfm
  have key : ∀ k c, FirstMin ((pre.map (cand f q)) ++ cand f q (x, P) :: cand f q (P, y) :: post.map (cand f q)) k c →
      h'.index = k ∧ h'.point = c.point ∧ h'.t = c.t ∧ h'.dist = c.dist := by
    intro k c hk
    apply nearestOne_of_firstMin f pl' q h' hn' k c
    rw [hseg', List.map_append, List.map_cons, List.map_cons]
    exact hk
  obtain ⟨le1, le2, hor⟩ := split_segment q x y s hs0 hs1
  obtain ⟨heq1, heq2⟩ := split_half_eq q x y s hs0 hs1
  rw [← hP] at le1 le2 hor heq1 heq2
  have nn : ∀ w : V3 K, 0 ≤ w.normSq := fun w => dot_self_nonneg w
  have h1 : (cand f q (x, y)).dist ≤ (cand f q (x, P)).dist := (hf _ _ (nn _) (nn _)).mpr le1
  have h2 : (cand f q (x, y)).dist ≤ (cand f q (P, y)).dist := (hf _ _ (nn _) (nn _)).mpr le2
  have p1 : (cand f q (x, P)).dist = (cand f q (x, y)).dist → (cand f q (x, P)).point = (cand f q (x, y)).point := by
    intro hd
    exact heq1 ((hf _ _ (nn _) (nn _)).mp (le_of_eq hd))
  have p2 : (cand f q (P, y)).dist = (cand f q (x, y)).dist → (cand f q (P, y)).point = (cand f q (x, y)).point := by
    intro hd
    exact heq2 ((hf _ _ (nn _) (nn _)).mp (le_of_eq hd))
  have h12 : (cand f q (x, P)).dist = (cand f q (x, y)).dist ∨ (cand f q (P, y)).dist = (cand f q (x, y)).dist := by
    rcases hor with h | h
    · left; show f _ = f _; rw [h]
    · right; show f _ = f _; rw [h]
  obtain ⟨s1, s2, s3, s4⟩ := hfm.split (pre.map (cand f q)) (post.map (cand f q)) (cand f q (x, y))
    (cand f q (x, P)) (cand f q (P, y)) h1 h2 h12
  rw [List.length_map] at s1 s2 s3 s4
  have hX : h.index = pre.length → (⟨h.point, h.t, h.dist⟩ : Cand K) = cand f q (x, y) := by
    intro he
    have g0 := (split_get_at (pre.map (cand f q)) (post.map (cand f q)) (cand f q (x, y)) (cand f q (x, P))
      (cand f q (P, y))).2.2
    rw [List.length_map, ← he] at g0
    exact Option.some.inj (hfm.1.symm.trans g0)
  rcases Nat.lt_trichotomy h.index pre.length with hlt | heq | hgt
  · obtain ⟨k1, k2, k3, k4⟩ := key _ _ (s1 hlt)
    exact ⟨k2, k4, fun _ => ⟨k1, k3⟩, fun he => absurd he (by omega), fun hg => absurd hg (by omega)⟩
  · have hc := hX heq
    have hcp : h.point = (cand f q (x, y)).point := congrArg Cand.point hc
    have hcd : h.dist = (cand f q (x, y)).dist := congrArg Cand.dist hc
    by_cases hd : (cand f q (x, P)).dist = (cand f q (x, y)).dist
    · obtain ⟨k1, k2, _, k4⟩ := key _ _ (s2 heq hd)
      refine ⟨by rw [k2, p1 hd, hcp], by rw [k4, hd, hcd], fun hl => absurd hl (by omega),
        fun _ => Or.inl (by rw [k1, heq]), fun hg => absurd hg (by omega)⟩
    · have hlt : (cand f q (x, y)).dist < (cand f q (x, P)).dist := lt_of_le_of_ne h1 (Ne.symm hd)
      have hd2 : (cand f q (P, y)).dist = (cand f q (x, y)).dist := by
        rcases h12 with h | h
        · exact absurd h hd
        · exact h
      obtain ⟨k1, k2, _, k4⟩ := key _ _ (s3 heq hlt)
      refine ⟨by rw [k2, p2 hd2, hcp], by rw [k4, hd2, hcd], fun hl => absurd hl (by omega),
        fun _ => Or.inr (by rw [k1, heq]), fun hg => absurd hg (by omega)⟩
  · obtain ⟨k1, k2, k3, k4⟩ := key _ _ (s4 hgt)
    exact ⟨k2, k4, fun hl => absurd hl (by omega), fun he => absurd he (by omega), fun _ => ⟨k1, k3⟩⟩

/-- the same for the vertex lists: a vertex inserted on the inner edge `x → y` at `x + s (y − x)` -/
theorem insert_preserves_nearest (f : K → K) (hf : ∀ x y : K, 0 ≤ x → 0 ≤ y → (f x ≤ f y ↔ x ≤ y))
    (p' s' : List (V3 K)) (x y : V3 K) (c : Bool) (s : K) (hs0 : 0 ≤ s) (hs1 : s ≤ 1)
    (q : V3 K) (h h' : Hit K) (hn : nearestOne f ⟨p' ++ x :: y :: s', c⟩ q = .ok h)
    (hn' : nearestOne f ⟨p' ++ x :: (x + V3.smul s (y - x)) :: y :: s', c⟩ q = .ok h') :
    h'.point = h.point ∧ h'.dist = h.dist ∧
    (h.index < p'.length → h'.index = h.index ∧ h'.t = h.t) ∧
    (h.index = p'.length → h'.index = p'.length ∨ h'.index = p'.length + 1) ∧
    (p'.length < h.index → h'.index = h.index + 1 ∧ h'.t = h.t) := by
  obtain ⟨pre, post, hl, h1, h2⟩ := segments_split_inner p' s' x y (x + V3.smul s (y - x)) c
  rw [← hl]
  exact split_preserves_nearest f hf _ _ pre post x y s hs0 hs1 h1 h2 q h h' hn hn'

/-- **forward, in terms of the original polyline** (inner edges): vertices `p' ++ [x] ++ m ++ s` with `m, s ≠ []`;
    the point nearest `a` lies on the edge leaving `x`, the point nearest `b` *on the original polyline* on the edge
    leaving the last vertex of `m`; neither is within `atol` of a vertex and `Nb` is not within `atol` of `Na`.
    Then `sliced_at_points(a, b) = Na, m, Nb`. -/
theorem sliced_at_points_forward_original (f : K → K) (hf : ∀ x y : K, 0 ≤ x → 0 ≤ y → (f x ≤ f y ↔ x ≤ y))
    (pl : Polyline K) (a b : V3 K) (atol : K) (ha hb : Hit K)
    (p' m s : List (V3 K)) (x : V3 K) (hv : pl.v = p' ++ [x] ++ m ++ s) (hm : m ≠ []) (hs : s ≠ [])
    (hna : nearestOne f pl a = .ok ha) (hia : ha.index = p'.length)
    (hnb : nearestOne f pl b = .ok hb) (hib : hb.index = p'.length + m.length)
    (hva : indexOfVertex pl.v ha.point atol = .error .ValueError)
    (hvb : indexOfVertex (insertBefore pl.v (p'.length + 1) ha.point) hb.point atol = .error .ValueError) :
    slicedAtPointsWith f pl a b atol = .ok ⟨ha.point :: m ++ [hb.point], false⟩ := by
  obtain ⟨v, c⟩ := pl
  simp only at hv hva hvb
  subst hv
  obtain ⟨y, m', rfl⟩ := List.exists_cons_of_ne_nil hm
  have hvv : p' ++ [x] ++ y :: m' ++ s = p' ++ x :: y :: (m' ++ s) := by simp
  -- the point nearest `a` is on the edge x → y
  obtain ⟨pre, post, hl, hs1, _⟩ := segments_split_inner p' (m' ++ s) x y x c
  rw [← hvv] at hs1
  have hAt : ∃ t, 0 ≤ t ∧ t ≤ 1 ∧ ha.point = x + V3.smul t (y - x) := by
    have hna' := hna
    unfold nearestOne at hna'
    cases hsg : (⟨p' ++ [x] ++ y :: m' ++ s, c⟩ : Polyline K).segments with
    | nil => rw [hsg] at hna'; cases hna'
    | cons s0 ss =>
      rw [hsg] at hna'
      injection hna' with hna'
      obtain ⟨sg, g1, g2, g3, g4, _, _⟩ := nearest_consistent f a s0 ss
      rw [hna', ← hsg, hs1, hia, ← hl, List.getElem?_append_right (le_refl _)] at g1
      simp at g1
      rw [hna'] at g2 g3 g4
      rw [← g1] at g2
      exact ⟨ha.t, g3, g4, g2⟩
  obtain ⟨t, ht0, ht1, hpt⟩ := hAt
  have eE : edgeEnd ⟨p' ++ [x] ++ y :: m' ++ s, c⟩ ha.index = p'.length + 1 := by
    rw [edgeEnd_inner _ _ _ (Or.inr (by simp; omega)), hia]
  have eW : insertBefore (p' ++ [x] ++ y :: m' ++ s) (p'.length + 1) ha.point
      = p' ++ x :: ha.point :: y :: (m' ++ s) := by
    have : p' ++ [x] ++ y :: m' ++ s = (p' ++ [x]) ++ (y :: (m' ++ s)) := by simp
    rw [this]
    have hl2 : p'.length + 1 = (p' ++ [x]).length := by simp
    rw [hl2, insertBefore_append]; simp
  -- the point nearest `b` on the working polyline
  have hex : ∃ hb', nearestOne f ⟨p' ++ x :: ha.point :: y :: (m' ++ s), c⟩ b = .ok hb' := by
    obtain ⟨pre2, post2, _, _, h2⟩ := segments_split_inner p' (m' ++ s) x y ha.point c
    unfold nearestOne
    rw [h2]
    cases pre2 <;> exact ⟨_, rfl⟩
  obtain ⟨hb', hnb'⟩ := hex
  have hnb0 : nearestOne f ⟨p' ++ x :: y :: (m' ++ s), c⟩ b = .ok hb := by rw [← hvv]; exact hnb
  have hnb1 := hnb'
  rw [hpt] at hnb1
  obtain ⟨q1, _, _, _, q5⟩ := insert_preserves_nearest f hf p' (m' ++ s) x y c t ht0 ht1 b hb hb' hnb0 hnb1
  have hidx : hb'.index = hb.index + 1 := (q5 (by rw [hib]; simp)).1
  have := sliced_at_points_forward f ⟨p' ++ [x] ++ y :: m' ++ s, c⟩ a b atol ha hb' (p' ++ [x]) (y :: m') s rfl hs
    (by simp [hia]) (by rw [hidx, hib]; simp; omega) hna hva
    (by rw [eE, eW]; exact hnb') (by rw [eE, q1]; exact hvb)
  rw [this, q1]

/-- the row `nearestOne` reports is the candidate row of the reported segment -/
theorem nearest_row (f : K → K) (pl : Polyline K) (q : V3 K) (h : Hit K) (hn : nearestOne f pl q = .ok h)
    (sg : V3 K × V3 K) (hsg : pl.segments[h.index]? = some sg) :
    h.point = closestPoint q sg.1 (sg.2 - sg.1) ∧ h.t = closestT q sg.1 (sg.2 - sg.1) ∧
    h.dist = f ((closestPoint q sg.1 (sg.2 - sg.1) - q).normSq) := by
  have hfm := (nearestOne_firstMin f pl q h hn).1
  rw [List.getElem?_map, hsg] at hfm
  have := Option.some.inj hfm
  exact ⟨(congrArg Cand.point this).symm, (congrArg Cand.t this).symm, (congrArg Cand.dist this).symm⟩

/-- **the same-segment case of `split_preserves_nearest`**: when the query's nearest segment is the one that is cut
    (at parameter `s`), the half that is reported is decided by the query's own parameter `t` on the uncut segment:
    `t ≤ s` — the first half (same index), `s < t` — the second half (index `+ 1`). -/
theorem split_preserves_nearest_same (f : K → K) (hf : ∀ x y : K, 0 ≤ x → 0 ≤ y → (f x ≤ f y ↔ x ≤ y))
    (pl pl' : Polyline K) (pre post : List (V3 K × V3 K)) (x y : V3 K) (s : K) (hs0 : 0 ≤ s) (hs1 : s ≤ 1)
    (hseg : pl.segments = pre ++ (x, y) :: post)
    (hseg' : pl'.segments = pre ++ (x, x + V3.smul s (y - x)) :: (x + V3.smul s (y - x), y) :: post)
    (q : V3 K) (h h' : Hit K) (hn : nearestOne f pl q = .ok h) (hn' : nearestOne f pl' q = .ok h')
    (hidx : h.index = pre.length) :
    (h.t ≤ s → h'.index = pre.length) ∧ (s < h.t → h'.index = pre.length + 1) := by
  set P := x + V3.smul s (y - x) with hP
  have hrow := nearest_row f pl q h hn (x, y) (by
    rw [hseg, hidx, List.getElem?_append_right (le_refl _)]; simp)
  simp only at hrow
  have hfm := nearestOne_firstMin f pl q h hn
  rw [hseg, List.map_append, List.map_cons] at hfm
  have key : ∀ k c, FirstMin ((pre.map (cand f q)) ++ cand f q (x, P) :: cand f q (P, y) :: post.map (cand f q)) k c →
      h'.index = k := by
    intro k c hk
    refine (nearestOne_of_firstMin f pl' q h' hn' k c ?_).1
    rw [hseg', List.map_append, List.map_cons, List.map_cons]
    exact hk
  obtain ⟨le1, le2, hor⟩ := split_segment q x y s hs0 hs1
  obtain ⟨w1, _, w3, _⟩ := split_which q x y s hs0 hs1
  rw [← hP] at le1 le2 hor w1 w3
  have nn : ∀ w : V3 K, 0 ≤ w.normSq := fun w => dot_self_nonneg w
  have h1 : (cand f q (x, y)).dist ≤ (cand f q (x, P)).dist := (hf _ _ (nn _) (nn _)).mpr le1
  have h2 : (cand f q (x, y)).dist ≤ (cand f q (P, y)).dist := (hf _ _ (nn _) (nn _)).mpr le2
  have h12 : (cand f q (x, P)).dist = (cand f q (x, y)).dist ∨ (cand f q (P, y)).dist = (cand f q (x, y)).dist := by
    rcases hor with h | h
    · left; show f _ = f _; rw [h]
    · right; show f _ = f _; rw [h]
  obtain ⟨_, s2, s3, _⟩ := hfm.split (pre.map (cand f q)) (post.map (cand f q)) (cand f q (x, y))
    (cand f q (x, P)) (cand f q (P, y)) h1 h2 h12
  rw [List.length_map] at s2 s3
  constructor
  · intro hts
    rw [hrow.2.1] at hts
    have hd : (cand f q (x, P)).dist = (cand f q (x, y)).dist := by
      show f _ = f _
      rw [w1 hts]
    have := key _ _ (s2 hidx hd)
    rw [this, hidx]
  · intro hst
    rw [hrow.2.1] at hst
    have hlt : (cand f q (x, y)).dist < (cand f q (x, P)).dist := by
      have := w3 hst
      apply lt_of_not_ge
      intro hle
      exact absurd ((hf _ _ (nn _) (nn _)).mp hle) (not_le.mpr this)
    have := key _ _ (s3 hidx hlt)
    rw [this, hidx]

/-- **where `b` lands on the working polyline, `Na` on an inner edge.**  `Na` (the point nearest `a`, on segment
    `ha.index` which is not the closing edge) has been inserted as vertex `ha.index + 1`.  The point nearest `b` is
    unchanged, and its segment index — in terms of its index and parameter on the *original* polyline — is: the same
    before `Na`'s segment, `+ 1` after it, and on `Na`'s own segment the first half when `t_b ≤ t_a`, the second when
    `t_a < t_b`. -/
theorem landing_inner (f : K → K) (hf : ∀ x y : K, 0 ≤ x → 0 ≤ y → (f x ≤ f y ↔ x ≤ y))
    (pl : Polyline K) (a b : V3 K) (ha hb : Hit K)
    (hna : nearestOne f pl a = .ok ha) (hnb : nearestOne f pl b = .ok hb) (hin : ha.index + 1 < pl.v.length) :
    ∃ hb', nearestOne f ⟨insertBefore pl.v (ha.index + 1) ha.point, pl.closed⟩ b = .ok hb' ∧
      hb'.point = hb.point ∧
      (hb.index < ha.index → hb'.index = hb.index) ∧
      (hb.index = ha.index → hb.t ≤ ha.t → hb'.index = hb.index) ∧
      (hb.index = ha.index → ha.t < hb.t → hb'.index = hb.index + 1) ∧
      (ha.index < hb.index → hb'.index = hb.index + 1) := by
  obtain ⟨v, c⟩ := pl
  simp only at hin ⊢
  obtain ⟨p', x, y, s', hl, hv, _, _⟩ := list_split_two v ha.index hin
  subst hv
  obtain ⟨pre, post, hpl, hs1, hs2⟩ := segments_split_inner p' s' x y ha.point c
  have hrow := nearest_row f _ a ha hna (x, y) (by
    rw [hs1, ← hl, ← hpl, List.getElem?_append_right (le_refl _)]; simp)
  simp only at hrow
  have ht0 : 0 ≤ ha.t := by rw [hrow.2.1]; exact (closest_t_range _ _ _).1
  have ht1 : ha.t ≤ 1 := by rw [hrow.2.1]; exact (closest_t_range _ _ _).2.1
  have hpt : ha.point = x + V3.smul ha.t (y - x) := by
    rw [hrow.1, hrow.2.1]; rfl
  have eW : insertBefore (p' ++ x :: y :: s') (ha.index + 1) ha.point = p' ++ x :: ha.point :: y :: s' := by
    have : p' ++ x :: y :: s' = (p' ++ [x]) ++ (y :: s') := by simp
    rw [this]
    have hl2 : ha.index + 1 = (p' ++ [x]).length := by simp [hl]
    rw [hl2, insertBefore_append]; simp
  rw [eW]
  have hex : ∃ hb', nearestOne f ⟨p' ++ x :: ha.point :: y :: s', c⟩ b = .ok hb' := by
    unfold nearestOne
    rw [hs2]
    cases pre <;> exact ⟨_, rfl⟩
  obtain ⟨hb', hnb'⟩ := hex
  refine ⟨hb', hnb', ?_⟩
  have hnb1 := hnb'
  rw [hpt] at hnb1 hs2
  obtain ⟨q1, _, q3, _, q5⟩ := insert_preserves_nearest f hf p' s' x y c ha.t ht0 ht1 b hb hb' hnb hnb1
  rw [hl] at q3 q5
  refine ⟨q1, fun h => (q3 h).1, ?_, ?_, fun h => (q5 h).1⟩
  · intro he hle
    have := (split_preserves_nearest_same f hf _ _ pre post x y ha.t ht0 ht1 hs1 hs2 b hb hb' hnb hnb1
      (by rw [he, hpl, hl])).1 hle
    rw [this, hpl, hl, he]
  · intro he hlt
    have := (split_preserves_nearest_same f hf _ _ pre post x y ha.t ht0 ht1 hs1 hs2 b hb hb' hnb hnb1
      (by rw [he, hpl, hl])).2 hlt
    rw [this, hpl, hl, he]

/-- **where `b` lands on the working polyline, `Na` on the closing edge** of a closed polyline (`Na` becomes vertex 0:
    the second half of the closing edge is now segment `0`, its first half the new closing edge `n`).  Provided `b` is
    strictly closer to its own nearest point than to the closing edge (unless that is where it lands), the point
    nearest `b` is unchanged and its index is `+ 1` for an inner segment; on the closing edge itself it is `0` when
    `t_a ≤ t_b` and `n` when `t_b < t_a`. -/
theorem landing_closing (f : K → K) (hf : ∀ x y : K, 0 ≤ x → 0 ≤ y → (f x ≤ f y ↔ x ≤ y))
    (pl : Polyline K) (a b : V3 K) (ha hb : Hit K) (hclosed : pl.closed = true)
    (hna : nearestOne f pl a = .ok ha) (hnb : nearestOne f pl b = .ok hb) (hia : ha.index + 1 = pl.v.length)
    (hstrict : hb.index ≠ ha.index → ∀ sg, pl.segments[ha.index]? = some sg →
      (hb.point - b).normSq < (closestPoint b sg.1 (sg.2 - sg.1) - b).normSq) :
    ∃ hb', nearestOne f ⟨ha.point :: pl.v, true⟩ b = .ok hb' ∧ hb'.point = hb.point ∧
      (hb.index < ha.index → hb'.index = hb.index + 1) ∧
      (hb.index = ha.index → ha.t ≤ hb.t → hb'.index = 0) ∧
      (hb.index = ha.index → hb.t < ha.t → hb'.index = pl.v.length) := by
  obtain ⟨v, c⟩ := pl
  simp only at hclosed hia hstrict ⊢
  subst hclosed
  have hvne : v ≠ [] := by intro h; rw [h] at hia; simp at hia
  obtain ⟨pre, l, fv, hpl, _, _, hs1, hs2⟩ := segments_split_closing v hvne ha.point
  have hpl' : pre.length = ha.index := by omega
  have hget : (⟨v, true⟩ : Polyline K).segments[ha.index]? = some (l, fv) := by
    rw [hs1, ← hpl', List.getElem?_append_right (le_refl _)]; simp
  have hrow := nearest_row f _ a ha hna (l, fv) hget
  simp only at hrow
  have ht0 : 0 ≤ ha.t := by rw [hrow.2.1]; exact (closest_t_range _ _ _).1
  have ht1 : ha.t ≤ 1 := by rw [hrow.2.1]; exact (closest_t_range _ _ _).2.1
  have hpt : ha.point = l + V3.smul ha.t (fv - l) := by
    rw [hrow.1, hrow.2.1]; rfl
  set P := ha.point with hPdef
  have hex : ∃ hb', nearestOne f ⟨P :: v, true⟩ b = .ok hb' := by
    unfold nearestOne
    rw [hs2]
    exact ⟨_, rfl⟩
  obtain ⟨hb', hnb'⟩ := hex
  refine ⟨hb', hnb', ?_⟩
  -- the candidate rows
  have hfm := nearestOne_firstMin f _ b hb hnb
  rw [hs1, List.map_append, List.map_cons, List.map_nil] at hfm
  have key : ∀ k cc, FirstMin (cand f b (P, fv) :: pre.map (cand f b) ++ [cand f b (l, P)]) k cc →
      hb'.index = k ∧ hb'.point = cc.point := by
    intro k cc hk
    have := nearestOne_of_firstMin f _ b hb' hnb' k cc (by
      rw [hs2]
      simp only [List.map_append, List.map_cons, List.map_nil]
      exact hk)
    exact ⟨this.1, this.2.1⟩
  obtain ⟨le1, le2, _⟩ := split_segment b l fv ha.t ht0 ht1
  obtain ⟨w1, w2, _, w4⟩ := split_which b l fv ha.t ht0 ht1
  rw [← hpt] at le1 le2 w1 w2 w4
  have nn : ∀ w : V3 K, 0 ≤ w.normSq := fun w => dot_self_nonneg w
  have h1 : (cand f b (l, fv)).dist ≤ (cand f b (l, P)).dist := (hf _ _ (nn _) (nn _)).mpr le1
  have h2 : (cand f b (l, fv)).dist ≤ (cand f b (P, fv)).dist := (hf _ _ (nn _) (nn _)).mpr le2
  obtain ⟨s1, s2, s3⟩ := hfm.split_closing (pre.map (cand f b)) (cand f b (l, fv)) (cand f b (l, P))
    (cand f b (P, fv)) h1 h2
  rw [List.length_map] at s1 s2 s3
  have flt : ∀ u w : V3 K, u.normSq < w.normSq → f u.normSq < f w.normSq := by
    intro u w huw
    apply lt_of_not_ge
    intro hle
    exact absurd ((hf _ _ (nn _) (nn _)).mp hle) (not_le.mpr huw)
  have hbrow : hb.index = ha.index → hb.point = closestPoint b l (fv - l) ∧ hb.t = closestT b l (fv - l) := by
    intro he
    have := nearest_row f _ b hb hnb (l, fv) (by rw [he]; exact hget)
    exact ⟨this.1, this.2.1⟩
  have hbt0 : 0 ≤ hb.t := by
    have hcons : ∃ sg, (⟨v, true⟩ : Polyline K).segments[hb.index]? = some sg := by
      have := hfm.1
      rw [← List.map_nil (f := cand f b), ← List.map_cons, ← List.map_append, List.getElem?_map] at this
      obtain ⟨sg, hsg, _⟩ := Option.map_eq_some_iff.mp this
      exact ⟨sg, by rw [hs1]; exact hsg⟩
    obtain ⟨sg, hsg⟩ := hcons
    rw [(nearest_row f _ b hb hnb sg hsg).2.1]
    exact (closest_t_range _ _ _).1
  have hidx : hb.index < v.length := by
    have := nearest_index_lt f _ b hb hnb
    rw [numE_eq] at this
    simpa using this
  rcases Nat.lt_trichotomy hb.index ha.index with hlt | he | hgt
  · have hd : (⟨hb.point, hb.t, hb.dist⟩ : Cand K).dist < (cand f b (l, fv)).dist := by
      have hcons : ∃ sg, (⟨v, true⟩ : Polyline K).segments[hb.index]? = some sg := by
        have := hfm.1
        rw [← List.map_nil (f := cand f b), ← List.map_cons, ← List.map_append, List.getElem?_map] at this
        obtain ⟨sg, hsg, _⟩ := Option.map_eq_some_iff.mp this
        exact ⟨sg, by rw [hs1]; exact hsg⟩
      obtain ⟨sg, hsg⟩ := hcons
      have hr := nearest_row f _ b hb hnb sg hsg
      show hb.dist < f _
      rw [hr.2.2, ← hr.1]
      exact flt _ _ (hstrict (by omega) (l, fv) hget)
    obtain ⟨k1, k2⟩ := key _ _ (s1 (by omega) hd)
    exact ⟨k2, fun _ => k1, fun h => absurd h (by omega), fun h => absurd h (by omega)⟩
  · obtain ⟨hbp, hbt⟩ := hbrow he
    refine ⟨?_, fun h => absurd h (by omega), ?_, ?_⟩
    · rcases le_or_gt ha.t hb.t with hle | hlt
      · rw [hbt] at hle
        have hd : (cand f b (P, fv)).dist = (cand f b (l, fv)).dist := by
          show f _ = f _
          rw [w2 hle]
        obtain ⟨_, k2⟩ := key _ _ (s2 (by omega) hd)
        rw [k2, hbp]
        exact w2 hle
      · have hnz : (fv - l).dot (fv - l) ≠ 0 := by
          intro hz
          have := closestT_zero_vec a l (fv - l) hz
          rw [← hrow.2.1] at this
          linarith
        rw [hbt] at hlt
        have hd2 : (cand f b (l, fv)).dist < (cand f b (P, fv)).dist := flt _ _ (w4 hlt hnz)
        have hd1 : (cand f b (l, P)).dist = (cand f b (l, fv)).dist := by
          show f _ = f _
          rw [w1 (le_of_lt hlt)]
        obtain ⟨_, k2⟩ := key _ _ (s3 (by omega) hd2 hd1)
        rw [k2, hbp]
        exact w1 (le_of_lt hlt)
    · intro _ hle
      rw [hbt] at hle
      have hd : (cand f b (P, fv)).dist = (cand f b (l, fv)).dist := by
        show f _ = f _
        rw [w2 hle]
      exact (key _ _ (s2 (by omega) hd)).1
    · intro _ hlt
      have hnz : (fv - l).dot (fv - l) ≠ 0 := by
        intro hz
        have := closestT_zero_vec a l (fv - l) hz
        rw [← hrow.2.1] at this
        linarith
      rw [hbt] at hlt
      have hd2 : (cand f b (l, fv)).dist < (cand f b (P, fv)).dist := flt _ _ (w4 hlt hnz)
      have hd1 : (cand f b (l, P)).dist = (cand f b (l, fv)).dist := by
        show f _ = f _
        rw [w1 (le_of_lt hlt)]
      have := (key _ _ (s3 (by omega) hd2 hd1)).1
      rw [this]; omega
  · omega

/-! ### `sliced_at_points` in terms of the ORIGINAL polyline: every case -/

/-- `q`'s nearest point on `pl` is `N`, lying on segment `i` of `pl` at parameter `t`, and `N` is not within `atol`
    (coordinate-wise, `index_of_vertex`'s test) of any vertex of `pl` — so it will be inserted as a new vertex -/
def LandsInside (f : K → K) (pl : Polyline K) (atol : K) (q : V3 K) (i : Nat) (t : K) (N : V3 K) : Prop :=
  ∃ h : Hit K, nearestOne f pl q = .ok h ∧ h.index = i ∧ h.t = t ∧ h.point = N ∧
    indexOfVertex pl.v N atol = .error .ValueError

/-- **the sub-path from position `(i, ta)` to position `(j, tb)`** of the vertex list `v` (positions = segment index
    and parameter, ordered lexicographically): `Na`, the vertices strictly between, `Nb`.  Forward when `(i, ta) <
    (j, tb)`; otherwise a closed polyline is walked through its end (`v[i+1..]`, then `v[..j]`) — all the way round
    when both points are on one segment — and an open polyline has no such sub-path (`sliced_at_indices` raises
    ValueError). -/
def subPath (v : List (V3 K)) (closed : Bool) (i : Nat) (ta : K) (Na : V3 K) (j : Nat) (tb : K) (Nb : V3 K) :
    Res (Polyline K) :=
  if i < j ∨ (i = j ∧ ta < tb) then .ok ⟨Na :: (v.drop (i + 1)).take (j - i) ++ [Nb], false⟩
  else if closed then .ok ⟨Na :: v.drop (i + 1) ++ v.take (j + 1) ++ [Nb], false⟩
  else .error .ValueError

theorem take_mid_drop {α : Type} (v : List α) (i j : Nat) (hij : i ≤ j) :
    v = v.take (i + 1) ++ (v.drop (i + 1)).take (j - i) ++ v.drop (j + 1) := by
  have : v.drop (j + 1) = (v.drop (i + 1)).drop (j - i) := by
    rw [List.drop_drop]; congr 1; omega
  rw [List.append_assoc, this, List.take_append_drop, List.take_append_drop]

/-- **`sliced_at_points`, every case, hypotheses on the original polyline only.**  `a` lands strictly inside segment
    `i` at parameter `ta` (point `Na`), `b` inside segment `j` at `tb` (point `Nb`), both on the polyline *as given*;
    neither is within `atol` of a vertex, `Nb` is not within `atol` of `Na`; and, only when `Na` is on the closing
    edge and `Nb` is not, `b` is strictly closer to `Nb` than to the closing edge.  Then the result is exactly
    `subPath`: `[Na] ++ vertices strictly between ++ [Nb]`, wrapping on closed polylines, ValueError when an open
    polyline would have to be walked backwards. -/
theorem sliced_at_points_original (f : K → K) (hf : ∀ x y : K, 0 ≤ x → 0 ≤ y → (f x ≤ f y ↔ x ≤ y))
    (pl : Polyline K) (a b : V3 K) (atol : K) (hatol : 0 ≤ atol) (i j : Nat) (ta tb : K) (Na Nb : V3 K)
    (hA : LandsInside f pl atol a i ta Na) (hB : LandsInside f pl atol b j tb Nb)
    (hAB : vertexMatches Nb atol Na = false)
    (hstrict : pl.closed = true → i + 1 = pl.v.length → j ≠ i → ∀ sg, pl.segments[i]? = some sg →
      (Nb - b).normSq < (closestPoint b sg.1 (sg.2 - sg.1) - b).normSq) :
    slicedAtPointsWith f pl a b atol = subPath pl.v pl.closed i ta Na j tb Nb := by
  obtain ⟨ha, hna, rfl, rfl, rfl, hva⟩ := hA
  obtain ⟨hb, hnb, rfl, rfl, rfl, hvb⟩ := hB
  obtain ⟨v, c⟩ := pl
  simp only at hva hvb hstrict ⊢
  have hi := nearest_index_lt f _ a ha hna
  have hj := nearest_index_lt f _ b hb hnb
  rw [numE_eq] at hi hj
  simp only at hi hj
  unfold subPath
  by_cases hin : ha.index + 1 < v.length
  · obtain ⟨hb', hnb', hp, l1, l2, l3, l4⟩ := landing_inner f hf ⟨v, c⟩ a b ha hb hna hnb hin
    simp only at hnb'
    have eE : edgeEnd ⟨v, c⟩ ha.index = ha.index + 1 := edgeEnd_inner _ _ _ (Or.inr hin)
    have hnbW : nearestOne f ⟨insertBefore v (edgeEnd ⟨v, c⟩ ha.index) ha.point, c⟩ b = .ok hb' := by
      rw [eE]; exact hnb'
    have hvbW : indexOfVertex (insertBefore v (edgeEnd ⟨v, c⟩ ha.index) ha.point) hb'.point atol
        = .error .ValueError := by
      rw [hp]; exact indexOfVertex_insert_error _ _ _ _ _ hvb hAB
    by_cases hfw : ha.index < hb.index ∨ (ha.index = hb.index ∧ ha.t < hb.t)
    · rw [if_pos hfw]
      have hj' : hb'.index = hb.index + 1 := by
        rcases hfw with h | ⟨h1, h2⟩
        · exact l4 h
        · exact l3 h1.symm h2
      have hle : ha.index ≤ hb.index := by
        rcases hfw with h | ⟨h1, _⟩ <;> omega
      by_cases hlast : hb.index + 1 < v.length
      · have := sliced_at_points_forward f ⟨v, c⟩ a b atol ha hb' (v.take (ha.index + 1))
          ((v.drop (ha.index + 1)).take (hb.index - ha.index)) (v.drop (hb.index + 1))
          (take_mid_drop v _ _ hle) (by
            intro h
            have := congrArg List.length h
            simp at this; omega)
          (by simp; omega) (by rw [hj']; simp; omega) hna hva hnbW hvbW
        rw [this, hp]
      · have hc : c = true := by
          cases c
          · simp at hj; omega
          · rfl
        subst hc
        simp only [if_true] at hj
        have := sliced_at_points_to_closing_edge f ⟨v, true⟩ a b atol ha hb' (v.take (ha.index + 1))
          (v.drop (ha.index + 1)) (List.take_append_drop _ _).symm (by
            intro h
            have := congrArg List.length h
            simp at this; omega) rfl
          (by simp; omega) (by rw [hj']; simp only; omega) hna hva hnbW hvbW
        rw [this, hp, List.take_of_length_le (by simp; omega)]
    · rw [if_neg hfw]
      have hle : hb.index ≤ ha.index := by
        by_contra h
        exact hfw (Or.inl (by omega))
      have hj' : hb'.index = hb.index := by
        rcases Nat.lt_or_ge hb.index ha.index with h | h
        · exact l1 h
        · have he : hb.index = ha.index := by omega
          refine l2 he (not_lt.mp fun hlt => hfw (Or.inr ⟨he.symm, hlt⟩))
      cases c
      · simp only [Bool.false_eq_true, if_false]
        exact sliced_at_points_backward_open f ⟨v, false⟩ a b atol ha hb' (v.take (hb.index + 1))
          ((v.drop (hb.index + 1)).take (ha.index - hb.index)) (v.drop (ha.index + 1))
          (take_mid_drop v _ _ hle) rfl (by simp; omega) (by rw [hj']; simp; omega) hna hva hnbW hvbW
      · simp only [if_true]
        have := sliced_at_points_wrap f ⟨v, true⟩ a b atol ha hb' (v.take (hb.index + 1))
          ((v.drop (hb.index + 1)).take (ha.index - hb.index)) (v.drop (ha.index + 1))
          (take_mid_drop v _ _ hle) (by
            intro h
            have := congrArg List.length h
            simp at this; omega) rfl
          (by simp; omega) (by rw [hj']; simp; omega) hna hva hnbW hvbW
        rw [this, hp]
  · -- `Na` on the closing edge
    have hc : c = true := by
      cases c
      · simp at hi; omega
      · rfl
    subst hc
    simp only [if_true] at hi hj ⊢
    have hia : ha.index + 1 = v.length := by omega
    have hle : hb.index ≤ ha.index := by omega
    obtain ⟨hb', hnb', hp, l1, l2, l3⟩ := landing_closing f hf ⟨v, true⟩ a b ha hb rfl hna hnb hia
      (fun hne => hstrict rfl hia hne)
    simp only at hnb' l3
    have eE : edgeEnd ⟨v, true⟩ ha.index = 0 := edgeEnd_closing _ _ hia
    have hnbW : nearestOne f ⟨insertBefore v (edgeEnd ⟨v, true⟩ ha.index) ha.point, true⟩ b = .ok hb' := by
      rw [eE, insertBefore_zero]; exact hnb'
    have hvbW : indexOfVertex (insertBefore v (edgeEnd ⟨v, true⟩ ha.index) ha.point) hb'.point atol
        = .error .ValueError := by
      rw [hp]; exact indexOfVertex_insert_error _ _ _ _ _ hvb hAB
    rcases Nat.lt_or_ge hb.index ha.index with hlt | hge
    · rw [if_neg (by
        rintro (h | ⟨h, _⟩) <;> omega)]
      have := sliced_at_points_from_closing_edge f ⟨v, true⟩ a b atol ha hb' (v.take (hb.index + 1))
        (v.drop (hb.index + 1)) (List.take_append_drop _ _).symm (by
          intro h
          have := congrArg List.length h
          simp at this; omega) rfl hia (by rw [l1 hlt]; simp; omega) hna hva hnbW hvbW
      rw [this, hp, List.drop_of_length_le (by omega)]
      simp
    · have he : hb.index = ha.index := by omega
      -- both on the closing edge
      obtain ⟨sgl, hsgl⟩ : ∃ sg, (⟨v, true⟩ : Polyline K).segments[ha.index]? = some sg := by
        have := (nearestOne_firstMin f _ a ha hna).1
        rw [List.getElem?_map] at this
        obtain ⟨sg, hsg, _⟩ := Option.map_eq_some_iff.mp this
        exact ⟨sg, hsg⟩
      have ra := nearest_row f _ a ha hna sgl hsgl
      have rb := nearest_row f _ b hb hnb sgl (by rw [he]; exact hsgl)
      rcases lt_trichotomy ha.t hb.t with hlt | heq | hgt
      · rw [if_pos (Or.inr ⟨he.symm, hlt⟩)]
        have := sliced_at_points_from_closing_edge f ⟨v, true⟩ a b atol ha hb' [] v rfl (by
            intro h; rw [h] at hia; simp at hia) rfl hia (by rw [l2 he (le_of_lt hlt)]; rfl) hna hva hnbW hvbW
        rw [this, hp]
        simp [he]
      · exfalso
        have hpe : hb.point = ha.point := by
          rw [ra.1, rb.1]
          unfold closestPoint
          rw [← ra.2.1, ← rb.2.1, heq]
        rw [hpe] at hAB
        have hclose : ∀ x : K, closeToZero x atol = true ↔ |x| ≤ atol := by
          intro x
          unfold closeToZero
          split_ifs with h
          · rw [decide_eq_true_iff, abs_of_neg h]
          · rw [decide_eq_true_iff, abs_of_nonneg (not_lt.mp h)]
        have : vertexMatches ha.point atol ha.point = true := by
          unfold vertexMatches
          simp [hclose, hatol]
        rw [this] at hAB
        cases hAB
      · rw [if_neg (by
          rintro (h | ⟨_, h⟩)
          · omega
          · exact absurd h (not_lt.mpr (le_of_lt hgt)))]
        have := sliced_at_points_closing_edge_full_turn f ⟨v, true⟩ a b atol ha hb' rfl hia
          (by rw [l3 he hgt]) hna hva hnbW hvbW
        rw [this, hp, List.drop_of_length_le (by omega), List.take_of_length_le (by omega)]
        simp

theorem LandsInside.index_lt {f : K → K} {pl : Polyline K} {atol : K} {q : V3 K} {i : Nat} {t : K} {N : V3 K}
    (h : LandsInside f pl atol q i t N) : i < (if pl.closed then pl.v.length else pl.v.length - 1) := by
  obtain ⟨hh, hn, rfl, _⟩ := h
  have := nearest_index_lt f pl q hh hn
  rwa [numE_eq] at this

/-- **forward** (`a`'s segment strictly before `b`'s; open or closed; `b` may be on the closing edge):
    `Na, v[i+1 .. j], Nb` -/
theorem sliced_at_points_original_forward (f : K → K) (hf : ∀ x y : K, 0 ≤ x → 0 ≤ y → (f x ≤ f y ↔ x ≤ y))
    (pl : Polyline K) (a b : V3 K) (atol : K) (hatol : 0 ≤ atol) (i j : Nat) (ta tb : K) (Na Nb : V3 K)
    (hA : LandsInside f pl atol a i ta Na) (hB : LandsInside f pl atol b j tb Nb)
    (hAB : vertexMatches Nb atol Na = false) (hij : i < j) :
    slicedAtPointsWith f pl a b atol = .ok ⟨Na :: (pl.v.drop (i + 1)).take (j - i) ++ [Nb], false⟩ := by
  have hj := hB.index_lt
  rw [sliced_at_points_original f hf pl a b atol hatol i j ta tb Na Nb hA hB hAB (by
    intro hc hi
    rw [hc] at hj
    simp only [if_true] at hj
    omega)]
  unfold subPath
  rw [if_pos (Or.inl hij)]

/-- **`b` on the closing edge**, `a` on an inner segment before it: `Na`, every vertex after `Na`, `Nb` -/
theorem sliced_at_points_original_to_closing_edge (f : K → K)
    (hf : ∀ x y : K, 0 ≤ x → 0 ≤ y → (f x ≤ f y ↔ x ≤ y))
    (pl : Polyline K) (a b : V3 K) (atol : K) (hatol : 0 ≤ atol) (i j : Nat) (ta tb : K) (Na Nb : V3 K)
    (hA : LandsInside f pl atol a i ta Na) (hB : LandsInside f pl atol b j tb Nb)
    (hAB : vertexMatches Nb atol Na = false) (hij : i < j) (hj : j + 1 = pl.v.length) :
    slicedAtPointsWith f pl a b atol = .ok ⟨Na :: pl.v.drop (i + 1) ++ [Nb], false⟩ := by
  rw [sliced_at_points_original_forward f hf pl a b atol hatol i j ta tb Na Nb hA hB hAB hij,
    List.take_of_length_le (by simp; omega)]

/-- **same segment, `a` before `b`** (open or closed, any segment including the closing edge): just `Na, Nb` -/
theorem sliced_at_points_original_same_segment_forward (f : K → K)
    (hf : ∀ x y : K, 0 ≤ x → 0 ≤ y → (f x ≤ f y ↔ x ≤ y))
    (pl : Polyline K) (a b : V3 K) (atol : K) (hatol : 0 ≤ atol) (i : Nat) (ta tb : K) (Na Nb : V3 K)
    (hA : LandsInside f pl atol a i ta Na) (hB : LandsInside f pl atol b i tb Nb)
    (hAB : vertexMatches Nb atol Na = false) (hlt : ta < tb) :
    slicedAtPointsWith f pl a b atol = .ok ⟨[Na, Nb], false⟩ := by
  rw [sliced_at_points_original f hf pl a b atol hatol i i ta tb Na Nb hA hB hAB (fun _ _ h => absurd rfl h)]
  unfold subPath
  rw [if_pos (Or.inr ⟨rfl, hlt⟩)]
  simp

/-- **open polyline, `b` not after `a`** (an earlier segment, or the same segment with `tb ≤ ta`): there is no forward
    sub-path and the code raises ValueError (from `sliced_at_indices`) -/
theorem sliced_at_points_original_backward_open (f : K → K)
    (hf : ∀ x y : K, 0 ≤ x → 0 ≤ y → (f x ≤ f y ↔ x ≤ y))
    (pl : Polyline K) (a b : V3 K) (atol : K) (hatol : 0 ≤ atol) (i j : Nat) (ta tb : K) (Na Nb : V3 K)
    (hA : LandsInside f pl atol a i ta Na) (hB : LandsInside f pl atol b j tb Nb)
    (hAB : vertexMatches Nb atol Na = false) (hopen : pl.closed = false)
    (hback : j < i ∨ (j = i ∧ tb ≤ ta)) :
    slicedAtPointsWith f pl a b atol = .error .ValueError := by
  rw [sliced_at_points_original f hf pl a b atol hatol i j ta tb Na Nb hA hB hAB (by
    intro hc; rw [hopen] at hc; cases hc)]
  unfold subPath
  rw [if_neg (by
    rintro (h | ⟨h1, h2⟩)
    · rcases hback with h' | ⟨h', _⟩ <;> omega
    · rcases hback with h' | ⟨_, h'⟩
      · omega
      · exact absurd h2 (not_lt.mpr h')), hopen]
  rfl

/-- **closed polyline, `b` on an earlier segment than `a`** (wrapping; `a` may be on the closing edge, then
    `v.drop (i+1) = []`): `Na`, the vertices after `Na` to the end, the vertices from the start up to `Nb`, `Nb` -/
theorem sliced_at_points_original_wrap (f : K → K) (hf : ∀ x y : K, 0 ≤ x → 0 ≤ y → (f x ≤ f y ↔ x ≤ y))
    (pl : Polyline K) (a b : V3 K) (atol : K) (hatol : 0 ≤ atol) (i j : Nat) (ta tb : K) (Na Nb : V3 K)
    (hA : LandsInside f pl atol a i ta Na) (hB : LandsInside f pl atol b j tb Nb)
    (hAB : vertexMatches Nb atol Na = false) (hclosed : pl.closed = true) (hji : j < i)
    (hstrict : i + 1 = pl.v.length → ∀ sg, pl.segments[i]? = some sg →
      (Nb - b).normSq < (closestPoint b sg.1 (sg.2 - sg.1) - b).normSq) :
    slicedAtPointsWith f pl a b atol = .ok ⟨Na :: pl.v.drop (i + 1) ++ pl.v.take (j + 1) ++ [Nb], false⟩ := by
  rw [sliced_at_points_original f hf pl a b atol hatol i j ta tb Na Nb hA hB hAB (fun _ h _ => hstrict h)]
  unfold subPath
  rw [if_neg (by rintro (h | ⟨h, _⟩) <;> omega), hclosed]
  rfl

/-- **`a` on the closing edge** (its halves become segments `0` and `n` of the working polyline), `b` on an inner
    segment: `Na`, the vertices from the start up to `Nb`, `Nb` -/
theorem sliced_at_points_original_from_closing_edge (f : K → K)
    (hf : ∀ x y : K, 0 ≤ x → 0 ≤ y → (f x ≤ f y ↔ x ≤ y))
    (pl : Polyline K) (a b : V3 K) (atol : K) (hatol : 0 ≤ atol) (i j : Nat) (ta tb : K) (Na Nb : V3 K)
    (hA : LandsInside f pl atol a i ta Na) (hB : LandsInside f pl atol b j tb Nb)
    (hAB : vertexMatches Nb atol Na = false) (hclosed : pl.closed = true) (hi : i + 1 = pl.v.length) (hji : j < i)
    (hstrict : ∀ sg, pl.segments[i]? = some sg →
      (Nb - b).normSq < (closestPoint b sg.1 (sg.2 - sg.1) - b).normSq) :
    slicedAtPointsWith f pl a b atol = .ok ⟨Na :: pl.v.take (j + 1) ++ [Nb], false⟩ := by
  rw [sliced_at_points_original_wrap f hf pl a b atol hatol i j ta tb Na Nb hA hB hAB hclosed hji
    (fun _ => hstrict), List.drop_of_length_le (by omega)]
  rfl

/-- **closed polyline, same segment, `b` before `a`**: all the way round — `Na`, the vertices after it, the vertices
    from the start up to the segment's start vertex, `Nb` (every vertex exactly once) -/
theorem sliced_at_points_original_same_segment_full_turn (f : K → K)
    (hf : ∀ x y : K, 0 ≤ x → 0 ≤ y → (f x ≤ f y ↔ x ≤ y))
    (pl : Polyline K) (a b : V3 K) (atol : K) (hatol : 0 ≤ atol) (i : Nat) (ta tb : K) (Na Nb : V3 K)
    (hA : LandsInside f pl atol a i ta Na) (hB : LandsInside f pl atol b i tb Nb)
    (hAB : vertexMatches Nb atol Na = false) (hclosed : pl.closed = true) (hlt : tb < ta) :
    slicedAtPointsWith f pl a b atol = .ok ⟨Na :: pl.v.drop (i + 1) ++ pl.v.take (i + 1) ++ [Nb], false⟩ ∧
    (pl.v.drop (i + 1) ++ pl.v.take (i + 1)).Perm pl.v := by
  constructor
  · rw [sliced_at_points_original f hf pl a b atol hatol i i ta tb Na Nb hA hB hAB (fun _ _ h => absurd rfl h)]
    unfold subPath
    rw [if_neg (by
      rintro (h | ⟨_, h⟩)
      · omega
      · exact absurd h (not_lt.mpr (le_of_lt hlt))), hclosed]
    rfl
  · have := List.perm_append_comm (l₁ := pl.v.drop (i + 1)) (l₂ := pl.v.take (i + 1))
    rwa [List.take_append_drop] at this

/-- … and when that segment is the closing edge: `Na`, every vertex in order, `Nb` -/
theorem sliced_at_points_original_closing_edge_full_turn (f : K → K)
    (hf : ∀ x y : K, 0 ≤ x → 0 ≤ y → (f x ≤ f y ↔ x ≤ y))
    (pl : Polyline K) (a b : V3 K) (atol : K) (hatol : 0 ≤ atol) (i : Nat) (ta tb : K) (Na Nb : V3 K)
    (hA : LandsInside f pl atol a i ta Na) (hB : LandsInside f pl atol b i tb Nb)
    (hAB : vertexMatches Nb atol Na = false) (hclosed : pl.closed = true) (hi : i + 1 = pl.v.length)
    (hlt : tb < ta) :
    slicedAtPointsWith f pl a b atol = .ok ⟨Na :: pl.v ++ [Nb], false⟩ := by
  rw [(sliced_at_points_original_same_segment_full_turn f hf pl a b atol hatol i ta tb Na Nb hA hB hAB hclosed
    hlt).1, List.drop_of_length_le (by omega), List.take_of_length_le (by omega)]
  simp

/-! ### polylines that do not touch themselves -/

/-- the point at parameter `t` of a segment -/
def segPoint (sg : V3 K × V3 K) (t : K) : V3 K := sg.1 + V3.smul t (sg.2 - sg.1)

/-- **"does not touch itself"**: no segment is a single point, and two different segments have a common point only
    when they are consecutive and the point is the vertex they share (the end of the earlier = the start of the
    later; for a closed polyline also the start of segment `0` = the end of the closing edge). -/
def Simple (pl : Polyline K) : Prop :=
  (∀ sg ∈ pl.segments, sg.1 ≠ sg.2) ∧
  ∀ i j sgi sgj, i < j → pl.segments[i]? = some sgi → pl.segments[j]? = some sgj →
    ∀ s t : K, 0 ≤ s → s ≤ 1 → 0 ≤ t → t ≤ 1 → segPoint sgi s = segPoint sgj t →
      (j = i + 1 ∧ s = 1 ∧ t = 0) ∨
      (pl.closed = true ∧ i = 0 ∧ j + 1 = pl.segments.length ∧ s = 0 ∧ t = 1)

theorem normSq_eq_zero {w : V3 K} (h : w.normSq = 0) : w.x = 0 ∧ w.y = 0 ∧ w.z = 0 := dot_self_eq_zero h

theorem closestT_on_segment (a v : V3 K) (hv : v.dot v ≠ 0) (t : K) (ht0 : 0 ≤ t) (ht1 : t ≤ 1) :
    closestT (a + V3.smul t v) a v = t := by
  have hpos : 0 < v.dot v := lt_of_le_of_ne (dot_self_nonneg v) (Ne.symm hv)
  unfold closestT
  rw [clampedRatio_pos hpos]
  have : ((a + V3.smul t v) - a).dot v / v.dot v = t := by
    have : ((a + V3.smul t v) - a).dot v = t * v.dot v := by
      simp only [V3.dot_def, V3.add_x, V3.add_y, V3.add_z, V3.sub_x, V3.sub_y, V3.sub_z,
        V3.smul_x, V3.smul_y, V3.smul_z]
      ring
    rw [this]
    field_simp
  rw [this]
  unfold clip01
  rw [if_neg (not_lt.mpr ht0), if_neg (not_lt.mpr ht1)]

/-- **a point strictly inside a segment of a simple polyline is its own nearest point, found on that segment at
    that parameter, at distance `f 0`; every point of every other segment is at positive distance** -/
theorem nearest_on_simple (f : K → K) (hf : ∀ x y : K, 0 ≤ x → 0 ≤ y → (f x ≤ f y ↔ x ≤ y))
    (pl : Polyline K) (hS : Simple pl) (i : Nat) (sg : V3 K × V3 K) (hsg : pl.segments[i]? = some sg)
    (t : K) (ht0 : 0 < t) (ht1 : t < 1) :
    (∃ h, nearestOne f pl (segPoint sg t) = .ok h ∧ h.index = i ∧ h.t = t ∧ h.point = segPoint sg t ∧
      h.dist = f 0) ∧
    (∀ k sgk, k ≠ i → pl.segments[k]? = some sgk → ∀ u, 0 ≤ u → u ≤ 1 →
      0 < (segPoint sgk u - segPoint sg t).normSq) := by
  set q := segPoint sg t with hq
  have nn : ∀ w : V3 K, 0 ≤ w.normSq := fun w => dot_self_nonneg w
  have hne : sg.1 ≠ sg.2 := hS.1 sg (List.mem_of_getElem? hsg)
  have hv : (sg.2 - sg.1).dot (sg.2 - sg.1) ≠ 0 := by
    intro hz
    obtain ⟨hx, hy, hz⟩ := dot_self_eq_zero hz
    simp only [V3.sub_x, V3.sub_y, V3.sub_z] at hx hy hz
    apply hne
    ext <;> linarith
  -- every other segment is at positive distance
  have hpos : ∀ k sgk, k ≠ i → pl.segments[k]? = some sgk → ∀ u, 0 ≤ u → u ≤ 1 →
      0 < (segPoint sgk u - q).normSq := by
    intro k sgk hk hsgk u hu0 hu1
    apply lt_of_le_of_ne (nn _)
    intro hz
    obtain ⟨hx, hy, hz⟩ := normSq_eq_zero hz.symm
    simp only [V3.sub_x, V3.sub_y, V3.sub_z] at hx hy hz
    have heq : segPoint sgk u = segPoint sg t := by
      ext <;> linarith
    rcases Nat.lt_or_gt_of_ne hk with hlt | hgt
    · rcases hS.2 k i sgk sg hlt hsgk hsg u t hu0 hu1 (le_of_lt ht0) (le_of_lt ht1) heq with ⟨_, _, h⟩ | ⟨_, _, _, _, h⟩
      · exact absurd h (ne_of_gt ht0)
      · exact absurd h (ne_of_lt ht1)
    · rcases hS.2 i k sg sgk hgt hsg hsgk t u (le_of_lt ht0) (le_of_lt ht1) hu0 hu1 heq.symm with ⟨_, h, _⟩ | ⟨_, _, _, h, _⟩
      · exact absurd h (ne_of_lt ht1)
      · exact absurd h (ne_of_gt ht0)
  refine ⟨?_, hpos⟩
  -- the row of segment i
  have hct : closestT q sg.1 (sg.2 - sg.1) = t := closestT_on_segment sg.1 (sg.2 - sg.1) hv t (le_of_lt ht0) (le_of_lt ht1)
  have hcp : closestPoint q sg.1 (sg.2 - sg.1) = q := by
    unfold closestPoint; rw [hct]; rfl
  have hrow : cand f q sg = ⟨q, t, f 0⟩ := by
    unfold cand
    simp only [hcp, hct]
    congr 1
    have : (q - q).normSq = 0 := by simp [V3.normSq_def]
    rw [this]
  have f0lt : ∀ w : V3 K, 0 < w.normSq → f 0 < f w.normSq := by
    intro w hw
    apply lt_of_not_ge
    intro hle
    exact absurd ((hf _ _ (nn w) (le_refl _)).mp hle) (not_le.mpr hw)
  have hfm : FirstMin (pl.segments.map (cand f q)) i ⟨q, t, f 0⟩ := by
    refine ⟨by rw [List.getElem?_map, hsg, ← hrow]; rfl, ?_, ?_⟩
    · intro x hx
      obtain ⟨sgk, hsgk, rfl⟩ := List.mem_map.mp hx
      show f 0 ≤ f _
      exact (hf _ _ (le_refl _) (nn _)).mpr (nn _)
    · intro k x hk hx
      rw [List.getElem?_map] at hx
      obtain ⟨sgk, hsgk, rfl⟩ := Option.map_eq_some_iff.mp hx
      show f 0 < f _
      apply f0lt
      have := hpos k sgk (by omega) hsgk (closestT q sgk.1 (sgk.2 - sgk.1)) (closest_t_range _ _ _).1
        (closest_t_range _ _ _).2.1
      exact this
  have hex : ∃ h, nearestOne f pl q = .ok h := by
    unfold nearestOne
    cases hs : pl.segments with
    | nil => rw [hs] at hsg; simp at hsg
    | cons s ss => exact ⟨_, rfl⟩
  obtain ⟨h, hn⟩ := hex
  obtain ⟨k1, k2, k3, k4⟩ := nearestOne_of_firstMin f pl q h hn i _ hfm
  exact ⟨h, hn, k1, k3, k2, k4⟩

/-- no vertex is within `atol` of `p` in every coordinate (`index_of_vertex`'s test fails everywhere) -/
def FarFromVertices (vs : List (V3 K)) (p : V3 K) (atol : K) : Prop :=
  ∀ v ∈ vs, ¬ (|v.x - p.x| ≤ atol ∧ |v.y - p.y| ≤ atol ∧ |v.z - p.z| ≤ atol)

theorem vertexMatches_iff (p v : V3 K) (atol : K) :
    vertexMatches p atol v = true ↔ (|v.x - p.x| ≤ atol ∧ |v.y - p.y| ≤ atol ∧ |v.z - p.z| ≤ atol) := by
  have hclose : ∀ x : K, closeToZero x atol = true ↔ |x| ≤ atol := by
    intro x
    unfold closeToZero
    split_ifs with h
    · rw [decide_eq_true_iff, abs_of_neg h]
    · rw [decide_eq_true_iff, abs_of_nonneg (not_lt.mp h)]
  unfold vertexMatches
  rw [Bool.and_eq_true, Bool.and_eq_true, hclose, hclose, hclose, and_assoc]

/-- **`sliced_at_points_on_path`**: on a polyline that does not touch itself, for two points that lie ON it — `a` at
    parameter `ta` strictly inside segment `i`, `b` at `tb` strictly inside segment `j` — neither within `atol` of a
    vertex nor of each other, `sliced_at_points(a, b)` is the sub-path between them: `a`, the vertices strictly between,
    `b`; forward when `(i, ta) < (j, tb)`, wrapping through the end on a closed polyline otherwise, ValueError on an
    open one.  No hypothesis about what `nearest` returns. -/
theorem sliced_at_points_on_path (f : K → K) (hf : ∀ x y : K, 0 ≤ x → 0 ≤ y → (f x ≤ f y ↔ x ≤ y))
    (pl : Polyline K) (hS : Simple pl) (atol : K) (hatol : 0 ≤ atol) (i j : Nat) (sgi sgj : V3 K × V3 K)
    (hi : pl.segments[i]? = some sgi) (hj : pl.segments[j]? = some sgj) (ta tb : K)
    (hta0 : 0 < ta) (hta1 : ta < 1) (htb0 : 0 < tb) (htb1 : tb < 1)
    (hfa : FarFromVertices pl.v (segPoint sgi ta) atol) (hfb : FarFromVertices pl.v (segPoint sgj tb) atol)
    (hab : ¬ (|(segPoint sgi ta).x - (segPoint sgj tb).x| ≤ atol ∧ |(segPoint sgi ta).y - (segPoint sgj tb).y| ≤ atol ∧
      |(segPoint sgi ta).z - (segPoint sgj tb).z| ≤ atol)) :
    slicedAtPointsWith f pl (segPoint sgi ta) (segPoint sgj tb) atol =
      subPath pl.v pl.closed i ta (segPoint sgi ta) j tb (segPoint sgj tb) := by
  obtain ⟨⟨ha, hna, ia, ta', pa, _⟩, _⟩ := nearest_on_simple f hf pl hS i sgi hi ta hta0 hta1
  obtain ⟨⟨hb, hnb, ib, tb', pb, _⟩, hposb⟩ := nearest_on_simple f hf pl hS j sgj hj tb htb0 htb1
  apply sliced_at_points_original f hf pl _ _ atol hatol i j ta tb _ _
    ⟨ha, hna, ia, ta', pa, ((index_of_vertex_spec pl.v _ atol).2).mpr hfa⟩
    ⟨hb, hnb, ib, tb', pb, ((index_of_vertex_spec pl.v _ atol).2).mpr hfb⟩
  · cases hm : vertexMatches (segPoint sgj tb) atol (segPoint sgi ta) with
    | false => rfl
    | true => exact absurd ((vertexMatches_iff _ _ _).mp hm) hab
  · intro _ _ hne sg hsg
    have h0 : (segPoint sgj tb - segPoint sgj tb).normSq = 0 := by simp [V3.normSq_def]
    rw [h0]
    exact hposb i sg hne.symm hsg _ (closest_t_range _ _ _).1 (closest_t_range _ _ _).2.1

/-- a point strictly inside segment `i` of a simple polyline, not within `atol` of a vertex, "lands inside" segment
    `i` at its own parameter, as itself — and is strictly closer to itself than to any other segment -/
theorem on_path_lands (f : K → K) (hf : ∀ x y : K, 0 ≤ x → 0 ≤ y → (f x ≤ f y ↔ x ≤ y))
    (pl : Polyline K) (hS : Simple pl) (atol : K) (i : Nat) (sg : V3 K × V3 K) (hi : pl.segments[i]? = some sg)
    (t : K) (ht0 : 0 < t) (ht1 : t < 1) (hfar : FarFromVertices pl.v (segPoint sg t) atol) :
    LandsInside f pl atol (segPoint sg t) i t (segPoint sg t) ∧
    (∀ k sgk, k ≠ i → pl.segments[k]? = some sgk →
      (segPoint sg t - segPoint sg t).normSq < (closestPoint (segPoint sg t) sgk.1 (sgk.2 - sgk.1) - segPoint sg t).normSq) := by
  obtain ⟨⟨h, hn, ia, ta, pa, _⟩, hpos⟩ := nearest_on_simple f hf pl hS i sg hi t ht0 ht1
  refine ⟨⟨h, hn, ia, ta, pa, ((index_of_vertex_spec pl.v _ atol).2).mpr hfar⟩, ?_⟩
  intro k sgk hk hsgk
  have h0 : (segPoint sg t - segPoint sg t).normSq = 0 := by simp [V3.normSq_def]
  rw [h0]
  exact hpos k sgk hk hsgk _ (closest_t_range _ _ _).1 (closest_t_range _ _ _).2.1

theorem indexOfVertex_insert_hit (vs : List (V3 K)) (e : Nat) (P p : V3 K) (atol : K) (he : e ≤ vs.length)
    (h1 : indexOfVertex vs p atol = .error .ValueError) (h2 : vertexMatches p atol P = true) :
    indexOfVertex (insertBefore vs e P) p atol = .ok e := by
  unfold indexOfVertex at h1 ⊢
  cases hf : vs.findIdx? (vertexMatches p atol) with
  | some k => rw [hf] at h1; cases h1
  | none =>
    have hnone := List.findIdx?_eq_none_iff.mp hf
    have hlen : (vs.take e).length = e := by simp [he]
    have : (insertBefore vs e P).findIdx? (vertexMatches p atol) = some e := by
      unfold insertBefore
      apply List.findIdx?_eq_some_iff_getElem.mpr
      refine ⟨by simp; omega, ?_, ?_⟩
      · rw [List.getElem_append_right (by omega)]
        simp [hlen, h2]
      · intro j hj
        have hjl : j < (vs.take e).length := by omega
        rw [List.getElem_append_left hjl]
        have := hnone _ (List.mem_of_mem_take (List.getElem_mem hjl))
        rw [this]; simp
    rw [this]

/-- **`b`'s nearest point coincides (within `atol`) with `Na`**, e.g. `a = b`: `Na` is found as the end vertex too and
    the result is the one-vertex polyline `[Na]` -/
theorem sliced_at_points_original_same_point (f : K → K) (hf : ∀ x y : K, 0 ≤ x → 0 ≤ y → (f x ≤ f y ↔ x ≤ y))
    (pl : Polyline K) (a b : V3 K) (atol : K) (i j : Nat) (ta tb : K) (Na Nb : V3 K)
    (hA : LandsInside f pl atol a i ta Na) (hB : LandsInside f pl atol b j tb Nb)
    (hAB : vertexMatches Nb atol Na = true)
    (hstrict : pl.closed = true → i + 1 = pl.v.length → j ≠ i → ∀ sg, pl.segments[i]? = some sg →
      (Nb - b).normSq < (closestPoint b sg.1 (sg.2 - sg.1) - b).normSq) :
    slicedAtPointsWith f pl a b atol = .ok ⟨[Na], false⟩ := by
  obtain ⟨ha, hna, rfl, rfl, rfl, hva⟩ := hA
  obtain ⟨hb, hnb, rfl, rfl, rfl, hvb⟩ := hB
  obtain ⟨v, c⟩ := pl
  simp only at hva hvb hstrict ⊢
  have hi := nearest_index_lt f _ a ha hna
  rw [numE_eq] at hi
  simp only at hi
  -- the working polyline and where `b` lands on it
  have hw : ∃ e hb', e ≤ v.length ∧ edgeEnd ⟨v, c⟩ ha.index = e ∧
      nearestOne f ⟨insertBefore v e ha.point, c⟩ b = .ok hb' ∧ hb'.point = hb.point := by
    by_cases hin : ha.index + 1 < v.length
    · obtain ⟨hb', hnb', hp, _⟩ := landing_inner f hf ⟨v, c⟩ a b ha hb hna hnb hin
      exact ⟨ha.index + 1, hb', by omega, edgeEnd_inner _ _ _ (Or.inr hin), hnb', hp⟩
    · have hc : c = true := by
        cases c
        · simp at hi; omega
        · rfl
      subst hc
      simp only [if_true] at hi
      have hia : ha.index + 1 = v.length := by omega
      obtain ⟨hb', hnb', hp, _⟩ := landing_closing f hf ⟨v, true⟩ a b ha hb rfl hna hnb hia
        (fun hne => hstrict rfl hia hne)
      exact ⟨0, hb', by omega, edgeEnd_closing _ _ hia, by rw [insertBefore_zero]; exact hnb', hp⟩
  obtain ⟨e, hb', hev, hee, hnb', hp⟩ := hw
  have hidx : indexOfVertex (insertBefore v e ha.point) hb'.point atol = .ok e := by
    rw [hp]; exact indexOfVertex_insert_hit v e _ _ atol hev hvb hAB
  unfold slicedAtPointsWith withNearestVertex
  simp only [hna, hva, hee, hnb', hidx]
  simp only [Bool.false_and, Bool.false_eq_true, if_false]
  rw [slicedAtIndices_lt _ _ _ _ (by omega)]
  unfold insertBefore
  have hlen : (v.take e).length = e := by simp [hev]
  conv_lhs => rw [List.drop_left' hlen]
  simp

/-! ### flipping: positions and sub-paths on the flipped polyline -/

theorem segPoint_swap (sg : V3 K × V3 K) (t : K) : segPoint (sg.2, sg.1) (1 - t) = segPoint sg t := by
  unfold segPoint
  ext <;> simp <;> ring

theorem segments_length' (pl : Polyline K) :
    pl.segments.length = if pl.closed then pl.v.length else pl.v.length - 1 := by
  rw [segments_length, numE_eq]

/-- **a polyline that does not touch itself still does not after `flipped()`** -/
theorem simple_flipped {pl : Polyline K} (hS : Simple pl) : Simple (flipped pl) := by
  constructor
  · intro sg hsg
    obtain ⟨k, hk⟩ := List.getElem?_of_mem hsg
    have := (flipped_segment pl k sg hk).1
    have := hS.1 _ (List.mem_of_getElem? this)
    exact fun h => this h.symm
  · intro i j sgi sgj hij hi hj s t hs0 hs1 ht0 ht1 heq
    obtain ⟨hi', bi⟩ := flipped_segment pl i sgi hi
    obtain ⟨hj', bj⟩ := flipped_segment pl j sgj hj
    have heq' : segPoint (sgj.2, sgj.1) (1 - t) = segPoint (sgi.2, sgi.1) (1 - s) := by
      rw [segPoint_swap, segPoint_swap]; exact heq.symm
    have hlen : (flipped pl).segments.length = pl.segments.length := by
      rw [segments_length', segments_length']; simp [Nearest.flipped]
    have hcl : (flipped pl).closed = pl.closed := rfl
    rw [hlen, hcl, segments_length']
    unfold flipIdx at hi' hj'
    by_cases hc : pl.closed = true ∧ j + 1 = pl.v.length
    · -- `j` is the closing edge of the flipped polyline
      rw [if_pos hc] at hj'
      have hni : ¬ (pl.closed = true ∧ i + 1 = pl.v.length) := by omega
      rw [if_neg hni] at hi'
      rw [hc.1] at bi bj ⊢
      simp only [if_true] at bi bj ⊢
      have := hS.2 (pl.v.length - 2 - i) j _ _ (by omega) hi' hj' (1 - s) (1 - t) (by linarith) (by linarith)
        (by linarith) (by linarith) heq'.symm
      rw [segments_length', hc.1] at this
      simp only [if_true] at this
      rcases this with ⟨h1, h2, h3⟩ | ⟨_, h1, _, h2, h3⟩
      · right
        exact ⟨trivial, by omega, hc.2, by linarith, by linarith⟩
      · left
        exact ⟨by omega, by linarith, by linarith⟩
    · rw [if_neg hc] at hj'
      have hni : ¬ (pl.closed = true ∧ i + 1 = pl.v.length) := by
        rintro ⟨h1, h2⟩
        rw [h1] at bj
        simp only [if_true] at bj
        omega
      rw [if_neg hni] at hi'
      have hjb : j + 1 < pl.v.length := by
        cases hcc : pl.closed
        · rw [hcc] at bj; simp at bj; omega
        · rw [hcc] at bj; simp only [if_true] at bj
          have : j + 1 ≠ pl.v.length := fun h => hc ⟨hcc, h⟩
          omega
      have := hS.2 (pl.v.length - 2 - j) (pl.v.length - 2 - i) _ _ (by omega) hj' hi' (1 - t) (1 - s) (by linarith)
        (by linarith) (by linarith) (by linarith) heq'
      rw [segments_length'] at this
      rcases this with ⟨h1, h2, h3⟩ | ⟨hcc, _, h1, _, _⟩
      · left
        exact ⟨by omega, by linarith, by linarith⟩
      · rw [hcc] at h1
        simp only [if_true] at h1
        omega

/-- the polyline with its vertex list reversed (what `flipped()` does to a sub-path) -/
def revPath (p : Polyline K) : Polyline K := ⟨p.v.reverse, p.closed⟩

/-- **the sub-path from `a` to `b` on the flipped polyline is the sub-path from `b` to `a` on the polyline, reversed**
    (positions: segment `k` ↦ `flipIdx k`, parameter `t ↦ 1 − t`) -/
theorem subPath_flipped (v : List (V3 K)) (closed : Bool) (i j : Nat) (ta tb : K) (Na Nb : V3 K)
    (hi : i < (if closed then v.length else v.length - 1)) (hj : j < (if closed then v.length else v.length - 1)) :
    subPath v.reverse closed (flipIdx closed v.length i) (1 - ta) Na (flipIdx closed v.length j) (1 - tb) Nb =
      (subPath v closed j tb Nb i ta Na).map revPath := by
  have ht : (1 - ta < 1 - tb) ↔ tb < ta := by constructor <;> intro h <;> linarith
  unfold subPath flipIdx
  cases closed
  · -- open: only inner segments
    simp only [Bool.false_eq_true, false_and, if_false] at hi hj ⊢
    by_cases hb : j < i ∨ (j = i ∧ tb < ta)
    · have hb' : v.length - 2 - i < v.length - 2 - j ∨ (v.length - 2 - i = v.length - 2 - j ∧ 1 - ta < 1 - tb) := by
        rcases hb with h | ⟨h1, h2⟩
        · left; omega
        · right; exact ⟨by omega, ht.mpr h2⟩
      have hji : j ≤ i := by rcases hb with h | ⟨h, _⟩ <;> omega
      rw [if_pos hb, if_pos hb']
      simp only [Except.map, revPath]
      have e1 : v.length - 2 - i + 1 = v.length - 1 - i := by omega
      have e2 : v.length - 2 - j - (v.length - 2 - i) = i - j := by omega
      rw [e1, e2, rev_drop_idx v i (by omega), rev_take_take v i j hji (by omega)]
      simp
    · have hb' : ¬ (v.length - 2 - i < v.length - 2 - j ∨ (v.length - 2 - i = v.length - 2 - j ∧ 1 - ta < 1 - tb)) := by
        rintro (h | ⟨h1, h2⟩)
        · exact hb (Or.inl (by omega))
        · exact hb (Or.inr ⟨by omega, ht.mp h2⟩)
      rw [if_neg hb, if_neg hb']
      rfl
  · simp only [true_and, if_true] at hi hj ⊢
    by_cases hic : i + 1 = v.length <;> by_cases hjc : j + 1 = v.length
    · -- both on the closing edge
      rw [if_pos hic, if_pos hjc]
      have hij : i = j := by omega
      subst hij
      by_cases hb : tb < ta
      · rw [if_pos (Or.inr ⟨rfl, ht.mpr hb⟩), if_pos (Or.inr ⟨rfl, hb⟩)]
        simp [Except.map, revPath]
      · rw [if_neg (by rintro (h | ⟨_, h⟩); omega; exact hb (ht.mp h)),
          if_neg (by rintro (h | ⟨_, h⟩); omega; exact hb h)]
        simp only [Except.map, revPath]
        rw [List.drop_of_length_le (by simp; omega), List.take_of_length_le (by simp; omega),
          List.drop_of_length_le (by omega), List.take_of_length_le (by omega)]
        simp
    · -- `a` on the closing edge, `b` inner
      rw [if_pos hic, if_neg hjc]
      rw [if_neg (by rintro (h | ⟨h, _⟩) <;> omega), if_pos (Or.inl (by omega))]
      simp only [Except.map, revPath]
      have e1 : v.length - 2 - j + 1 = v.length - 1 - j := by omega
      rw [List.drop_of_length_le (by simp; omega), e1, rev_take_idx v j (by omega),
        List.take_of_length_le (by simp; omega)]
      simp
    · -- `a` inner, `b` on the closing edge
      rw [if_neg hic, if_pos hjc]
      rw [if_pos (Or.inl (by omega)), if_neg (by rintro (h | ⟨h, _⟩) <;> omega)]
      simp only [Except.map, revPath]
      have e1 : v.length - 2 - i + 1 = v.length - 1 - i := by omega
      rw [e1, rev_drop_idx v i (by omega), List.take_of_length_le (by simp; omega),
        List.drop_of_length_le (by omega)]
      simp
    · -- both inner
      rw [if_neg hic, if_neg hjc]
      have e1 : v.length - 2 - i + 1 = v.length - 1 - i := by omega
      have e3 : v.length - 2 - j + 1 = v.length - 1 - j := by omega
      by_cases hb : j < i ∨ (j = i ∧ tb < ta)
      · have hb' : v.length - 2 - i < v.length - 2 - j ∨ (v.length - 2 - i = v.length - 2 - j ∧ 1 - ta < 1 - tb) := by
          rcases hb with h | ⟨h1, h2⟩
          · left; omega
          · right; exact ⟨by omega, ht.mpr h2⟩
        have hji : j ≤ i := by rcases hb with h | ⟨h, _⟩ <;> omega
        rw [if_pos hb, if_pos hb']
        simp only [Except.map, revPath]
        have e2 : v.length - 2 - j - (v.length - 2 - i) = i - j := by omega
        rw [e1, e2, rev_drop_idx v i (by omega), rev_take_take v i j hji (by omega)]
        simp
      · have hb' : ¬ (v.length - 2 - i < v.length - 2 - j ∨ (v.length - 2 - i = v.length - 2 - j ∧ 1 - ta < 1 - tb)) := by
          rintro (h | ⟨h1, h2⟩)
          · exact hb (Or.inl (by omega))
          · exact hb (Or.inr ⟨by omega, ht.mp h2⟩)
        rw [if_neg hb, if_neg hb']
        simp only [Except.map, revPath]
        rw [e1, e3, rev_drop_idx v i (by omega), rev_take_idx v j (by omega)]
        simp

/-! ### aligned_along_subsegment -/

theorem flipped_flipped (pl : Polyline K) : flipped (flipped pl) = pl := by
  unfold flipped
  simp

/-- **open**: the polyline is flipped exactly when the position `(segment index, t)` of the point nearest `p2`
    is lexicographically before that of the point nearest `p1`; so in the returned orientation of the *same
    vertices* the sub-path is traversed from `p1`'s point to `p2`'s point -/
theorem aligned_open_spec [Sqrt K] (pl : Polyline K) (p1 p2 : V3 K) (atol : K) (h1 h2 : Hit K)
    (hopen : pl.closed = false) (hn1 : nearestOne sqrt pl p1 = .ok h1) (hn2 : nearestOne sqrt pl p2 = .ok h2) :
    alignedAlongSubsegment pl p1 p2 atol =
      .ok (if h2.index < h1.index ∨ (h2.index = h1.index ∧ h2.t < h1.t) then flipped pl else pl) := by
  unfold alignedAlongSubsegment
  rw [if_neg (by simp [hopen])]
  simp only [hn1, hn2]
  unfold flippedIf
  by_cases he : h1.index = h2.index
  · rw [if_pos he]
    by_cases ht : h2.t < h1.t
    · simp [he, ht]
    · simp [he, ht]
  · rw [if_neg he]
    by_cases hlt : h2.index < h1.index
    · simp [hlt]
    · have : ¬ (h2.index = h1.index) := fun h => he h.symm
      simp [hlt, this]

/-- **closed**: the polyline is flipped exactly when the sub-path from `p2`'s point to `p1`'s point is strictly
    shorter than the one from `p1`'s point to `p2`'s point (the comparison of the two `sliced_at_points` lengths;
    that these two sub-paths are the two ways round is the content of the `sliced_at_points_*` theorems) -/
theorem aligned_closed_spec [Sqrt K] (pl : Polyline K) (p1 p2 : V3 K) (atol : K) (s12 s21 : Polyline K)
    (hclosed : pl.closed = true) (h21 : slicedAtPoints pl p2 p1 atol = .ok s21)
    (h12 : slicedAtPoints pl p1 p2 atol = .ok s12) :
    alignedAlongSubsegment pl p1 p2 atol =
      .ok (if totalLength s21 < totalLength s12 then flipped pl else pl) := by
  unfold alignedAlongSubsegment
  rw [if_pos hclosed]
  simp only [h21, h12]
  unfold flippedIf
  by_cases h : totalLength s21 < totalLength s12 <;> simp [h]

end subpath


/-! ## the literal pieces of the source (regenerated by harness/translate/c07.py on every run) -/

section generated
variable {K : Type} [Field K] [LinearOrder K] [IsStrictOrderedRing K]

/-- the model's clamp is `np.clip(t, lo, hi)` with the bounds found in the source, and the source still wraps the
    quotient in `np.nan_to_num` (the `den = 0` branch of `clampedRatio`) -/
theorem gen_clip (t : K) :
    clip01 t = max ((PW.Gen.c07ClipLo : Int) : K) (min ((PW.Gen.c07ClipHi : Int) : K) t) ∧
    PW.Gen.c07NanToNum = true := by
  refine ⟨?_, by decide⟩
  have hlo : ((PW.Gen.c07ClipLo : Int) : K) = 0 := by simp [PW.Gen.c07ClipLo]
  have hhi : ((PW.Gen.c07ClipHi : Int) : K) = 1 := by simp [PW.Gen.c07ClipHi]
  rw [hlo, hhi]
  unfold clip01
  split_ifs with h1 h2
  · rw [min_eq_right (le_of_lt (lt_trans h1 zero_lt_one)), max_eq_left (le_of_lt h1)]
  · rw [min_eq_left (le_of_lt h2), max_eq_right zero_le_one]
  · rw [min_eq_right (not_lt.mp h2), max_eq_right (not_lt.mp h1)]

/-- `index_of_vertex`'s default tolerance is the `1e-08` the driver feeds to the model -/
theorem gen_atol : PW.Gen.c07AtolNum = 1 ∧ PW.Gen.c07AtolDen = 100000000 := by decide

/-- the flag logic of `nearest` in the source is the one of the model: same tuple-branch condition, same outputs
    appended in the same order inside it, bare points otherwise; and the reduction over segments is `argmin` -/
theorem gen_flag_logic :
    (∀ si sd st, PW.Gen.c07TupleCond si sd st = tupleCond si sd st) ∧
    PW.Gen.c07AppendOrder = ["ret_segment_indices", "ret_distances", "ret_t_values"] ∧
    PW.Gen.c07ElseBare = true ∧ PW.Gen.c07Reduction = "argmin" := by
  refine ⟨by decide, by decide, by decide, by decide⟩

end generated

/-! ## over ℝ: the Euclidean distance itself -/

section real

noncomputable instance : PW.Sqrt ℝ := ⟨Real.sqrt⟩

/-- Euclidean distance `|a − b|` -/
noncomputable def dist3 (a b : V3 ℝ) : ℝ := Real.sqrt ((a - b).normSq)

theorem sqrt_is_real_sqrt (x : ℝ) : PW.sqrt x = Real.sqrt x := rfl

/-- arg-min over distances = arg-min over squared distances: the code (which takes square roots first) reports
    the same segment, point and `t` as the sqrt-free twin, and the square root of its squared distance -/
theorem nearest_sqrt_eq_sq (q : V3 ℝ) (s : V3 ℝ × V3 ℝ) (ss : List (V3 ℝ × V3 ℝ)) :
    (hit Real.sqrt q s ss).index = (hit id q s ss).index ∧ (hit Real.sqrt q s ss).point = (hit id q s ss).point ∧
    (hit Real.sqrt q s ss).t = (hit id q s ss).t ∧ (hit Real.sqrt q s ss).dist = Real.sqrt (hit id q s ss).dist := by
  have hmap : ss.map (cand Real.sqrt q) = (ss.map (cand id q)).map fun c => ⟨c.point, c.t, Real.sqrt c.dist⟩ := by
    rw [List.map_map]; rfl
  have hc : cand Real.sqrt q s = ⟨(cand id q s).point, (cand id q s).t, Real.sqrt (cand id q s).dist⟩ := rfl
  have key := pickFrom_map Real.sqrt (ss.map (cand id q)) (cand id q s) 0 1 (by
    intro x hx y _
    rw [← List.map_cons] at hx
    obtain ⟨sx, _, rfl⟩ := List.mem_map.mp hx
    exact Real.sqrt_lt_sqrt_iff (dot_self_nonneg _))
  simp only [hit]
  rw [hmap, hc, key]
  exact ⟨rfl, rfl, rfl, rfl⟩

/-- **C07_nearest_opt** (ℝ).  `nearest` with every optional output, on a polyline with at least one segment:
    one point, index, distance and `t` come back; the index is a valid segment index; `point = start of the
    reported segment + t × its vector` with `0 ≤ t ≤ 1`; `distance = |query − point|`; the distance is `≤` the
    distance from the query to every point of every segment; and every earlier segment is strictly farther
    (first minimal index). -/
theorem C07_nearest_opt (pl : Polyline ℝ) (q : V3 ℝ) (r : Ret ℝ)
    (hr : nearest pl (.one q) true true true = .ok r) :
    ∃ p i d t sg, r.points = [p] ∧ r.indices = some [i] ∧ r.dists = some [d] ∧ r.ts = some [t] ∧
      pl.segments[i]? = some sg ∧ p = sg.1 + V3.smul t (sg.2 - sg.1) ∧ 0 ≤ t ∧ t ≤ 1 ∧ d = dist3 p q ∧
      (∀ sg' ∈ pl.segments, ∀ u : ℝ, 0 ≤ u → u ≤ 1 → d ≤ dist3 (sg'.1 + V3.smul u (sg'.2 - sg'.1)) q) ∧
      (∀ k sg', k < i → pl.segments[k]? = some sg' → d < dist3 (closestPoint q sg'.1 (sg'.2 - sg'.1)) q) := by
  unfold nearest nearestWith at hr
  cases hseg : pl.segments with
  | nil => rw [hseg] at hr; cases hr
  | cons s ss =>
    rw [hseg] at hr
    injection hr with hr
    subst hr
    obtain ⟨sg, h1, h2, h3, h4, _, h6⟩ := nearest_consistent Real.sqrt q s ss
    refine ⟨(hit Real.sqrt q s ss).point, (hit Real.sqrt q s ss).index, (hit Real.sqrt q s ss).dist,
      (hit Real.sqrt q s ss).t, sg, rfl, rfl, rfl, rfl, h1, h2, h3, h4, h6, ?_, ?_⟩
    · intro sg' hsg' u hu0 hu1
      exact nearest_opt_of_mono Real.sqrt (fun x y _ h => Real.sqrt_le_sqrt h) q s ss sg' hsg' u hu0 hu1
    · intro k sg' hk hsg'
      exact (nearest_first_minimal Real.sqrt q s ss).2 k sg' hk hsg'

/-- the same for a stack of queries, row by row (stacked = map) -/
theorem C07_nearest_opt_stacked (pl : Polyline ℝ) (qs : List (V3 ℝ)) (r : Ret ℝ)
    (hr : nearest pl (.many qs) true true true = .ok r) (j : Nat) (hj : j < qs.length) :
    ∃ p i d t sg, r.points[j]? = some p ∧ (r.indices.bind (·[j]?)) = some i ∧ (r.dists.bind (·[j]?)) = some d ∧
      (r.ts.bind (·[j]?)) = some t ∧
      pl.segments[i]? = some sg ∧ p = sg.1 + V3.smul t (sg.2 - sg.1) ∧ 0 ≤ t ∧ t ≤ 1 ∧ d = dist3 p qs[j] ∧
      (∀ sg' ∈ pl.segments, ∀ u : ℝ, 0 ≤ u → u ≤ 1 → d ≤ dist3 (sg'.1 + V3.smul u (sg'.2 - sg'.1)) qs[j]) := by
  unfold nearest nearestWith at hr
  cases hseg : pl.segments with
  | nil => rw [hseg] at hr; cases hr
  | cons s ss =>
    rw [hseg] at hr
    injection hr with hr
    subst hr
    obtain ⟨sg, h1, h2, h3, h4, _, h6⟩ := nearest_consistent Real.sqrt qs[j] s ss
    refine ⟨(hit Real.sqrt qs[j] s ss).point, (hit Real.sqrt qs[j] s ss).index, (hit Real.sqrt qs[j] s ss).dist,
      (hit Real.sqrt qs[j] s ss).t, sg, ?_, ?_, ?_, ?_, h1, h2, h3, h4, h6, ?_⟩
    · simp [assemble, tupleCond, Query.toList, List.getElem?_eq_getElem hj]; rfl
    · simp [assemble, tupleCond, Query.toList, List.getElem?_eq_getElem hj]; rfl
    · simp [assemble, tupleCond, Query.toList, List.getElem?_eq_getElem hj]; rfl
    · simp [assemble, tupleCond, Query.toList, List.getElem?_eq_getElem hj]; rfl
    · intro sg' hsg' u hu0 hu1
      exact nearest_opt_of_mono Real.sqrt (fun x y _ h => Real.sqrt_le_sqrt h) qs[j] s ss sg' hsg' u hu0 hu1

/-! ### closed polylines: the two sub-paths are the two ways round (lengths, over ℝ) -/

section lengths

/-- `|b − a|` -/
noncomputable def seglen (a b : V3 ℝ) : ℝ := Real.sqrt ((b - a).normSq)

/-- length of the open path through the listed points -/
noncomputable def pathLen : List (V3 ℝ) → ℝ
  | a :: b :: r => seglen a b + pathLen (b :: r)
  | [_] => 0
  | [] => 0

@[simp] theorem pathLen_nil : pathLen [] = 0 := by unfold pathLen; rfl
@[simp] theorem pathLen_single (a : V3 ℝ) : pathLen [a] = 0 := by unfold pathLen; rfl
@[simp] theorem pathLen_cons_cons (a b : V3 ℝ) (r : List (V3 ℝ)) :
    pathLen (a :: b :: r) = seglen a b + pathLen (b :: r) := by rw [pathLen]

/-- a path is the sum of its two parts at any of its points -/
theorem pathLen_append_cons (l1 : List (V3 ℝ)) (x : V3 ℝ) (l2 : List (V3 ℝ)) :
    pathLen (l1 ++ x :: l2) = pathLen (l1 ++ [x]) + pathLen (x :: l2) := by
  induction l1 with
  | nil => simp
  | cons a l1 ih =>
    cases l1 with
    | nil => simp
    | cons b l1 =>
      simp only [List.cons_append, pathLen_cons_cons] at ih ⊢
      linarith

theorem totalLength_eq_sum (pl : Polyline ℝ) :
    totalLength pl = (pl.segments.map fun s => seglen s.1 s.2).sum := by
  unfold totalLength
  rw [List.sum_eq_foldl]
  rfl

theorem sum_consec (l : List (V3 ℝ)) : ((l.zip l.tail).map fun s => seglen s.1 s.2).sum = pathLen l := by
  induction l with
  | nil => simp
  | cons a l ih =>
    cases l with
    | nil => simp
    | cons b r =>
      simp only [List.tail_cons, List.zip_cons_cons, List.map_cons, List.sum_cons, pathLen_cons_cons] at ih ⊢
      rw [ih]

/-- `total_length` of an open polyline is the length of the path through its vertices -/
theorem totalLength_open (l : List (V3 ℝ)) : totalLength ⟨l, false⟩ = pathLen l := by
  rw [totalLength_eq_sum, ← sum_consec]
  cases l with
  | nil => simp [Polyline.segments]
  | cons a rest => simp [Polyline.segments]

/-- `total_length` of a closed polyline is the length of the path through its vertices and back to the first -/
theorem totalLength_closed (a : V3 ℝ) (rest : List (V3 ℝ)) :
    totalLength ⟨a :: rest, true⟩ = pathLen (a :: rest ++ [a]) := by
  rw [totalLength_eq_sum, ← sum_consec]
  simp only [Polyline.segments, if_true, List.cons_append, List.tail_cons]
  have h1 : a :: (rest ++ [a]) = (a :: rest) ++ [a] := rfl
  have h2 : (rest ++ [a]) = (rest ++ [a]) ++ [] := by simp
  conv_rhs => rw [h1, h2, List.zip_append (by simp)]
  simp

theorem seglen_param (x y : V3 ℝ) (s t : ℝ) (hst : s ≤ t) :
    seglen (x + V3.smul s (y - x)) (x + V3.smul t (y - x)) = (t - s) * seglen x y := by
  unfold seglen
  have : ((x + V3.smul t (y - x)) - (x + V3.smul s (y - x))).normSq = (t - s) * (t - s) * (y - x).normSq := by
    simp only [V3.normSq_def, V3.add_x, V3.add_y, V3.add_z, V3.sub_x, V3.sub_y, V3.sub_z,
      V3.smul_x, V3.smul_y, V3.smul_z]
    ring
  rw [this, Real.sqrt_mul (mul_self_nonneg _), Real.sqrt_mul_self (by linarith)]

theorem smul_zero_pt (x y : V3 ℝ) : x + V3.smul 0 (y - x) = x := by ext <;> simp
theorem smul_one_pt (x y : V3 ℝ) : x + V3.smul 1 (y - x) = y := by ext <;> simp

/-- a point of a segment cuts its length in two -/
theorem seglen_cut (x y : V3 ℝ) (t : ℝ) (ht0 : 0 ≤ t) (ht1 : t ≤ 1) :
    seglen x (x + V3.smul t (y - x)) + seglen (x + V3.smul t (y - x)) y = seglen x y := by
  have h1 := seglen_param x y 0 t ht0
  have h2 := seglen_param x y t 1 ht1
  rw [smul_zero_pt] at h1
  rw [smul_one_pt] at h2
  rw [h1, h2]; ring

/-- two points of one segment, in order -/
theorem seglen_cut2 (x y : V3 ℝ) (s t : ℝ) (hst : s ≤ t) (ht1 : t ≤ 1) :
    seglen (x + V3.smul s (y - x)) (x + V3.smul t (y - x)) + seglen (x + V3.smul t (y - x)) y =
      seglen (x + V3.smul s (y - x)) y := by
  have h1 := seglen_param x y s t hst
  have h2 := seglen_param x y t 1 ht1
  have h3 := seglen_param x y s 1 (le_trans hst ht1)
  rw [smul_one_pt] at h2 h3
  rw [h1, h2, h3]; ring

/-- cutting a path at a point `N` of its edge `X Y` -/
theorem pathLen_cut (L1 : List (V3 ℝ)) (X Y : V3 ℝ) (L2 : List (V3 ℝ)) (N : V3 ℝ)
    (hN : seglen X N + seglen N Y = seglen X Y) :
    pathLen (L1 ++ [X] ++ [N]) + pathLen (N :: Y :: L2) = pathLen (L1 ++ X :: Y :: L2) := by
  have e1 : L1 ++ [X] ++ [N] = L1 ++ X :: [N] := by simp
  rw [e1, pathLen_append_cons L1 X [N], pathLen_append_cons L1 X (Y :: L2)]
  simp only [pathLen_cons_cons, pathLen_single]
  linarith

theorem getElem?_split_two {α : Type} (W : List α) (i : Nat) (x y : α) (hx : W[i]? = some x)
    (hy : W[i + 1]? = some y) :
    W = W.take i ++ x :: y :: W.drop (i + 2) ∧ W.take (i + 1) = W.take i ++ [x] ∧
      W.drop (i + 1) = y :: W.drop (i + 2) := by
  have h1 : i + 1 < W.length := (List.getElem?_eq_some_iff.mp hy).1
  have hxe : W[i] = x := (List.getElem?_eq_some_iff.mp hx).2
  have hye : W[i + 1] = y := (List.getElem?_eq_some_iff.mp hy).2
  have d1 : W.drop i = x :: W.drop (i + 1) := by rw [← hxe]; exact List.drop_eq_getElem_cons (by omega)
  have d2 : W.drop (i + 1) = y :: W.drop (i + 2) := by rw [← hye]; exact List.drop_eq_getElem_cons h1
  refine ⟨?_, ?_, d2⟩
  · rw [← d2, ← d1, List.take_append_drop]
  · rw [List.take_add_one, hx]; rfl

/-- **two cuts**: a path `W` cut at `Na` (on its edge `i`) and at `Nb` (on its edge `j ≥ i`; when `j = i`, after
    `Na` on that edge) falls into three pieces whose lengths add up -/
theorem pathLen_two_cuts (W : List (V3 ℝ)) (i j : Nat) (hij : i ≤ j) (xi yi xj yj Na Nb : V3 ℝ)
    (hxi : W[i]? = some xi) (hyi : W[i + 1]? = some yi) (hxj : W[j]? = some xj) (hyj : W[j + 1]? = some yj)
    (hNa : seglen xi Na + seglen Na yi = seglen xi yi)
    (hNb : (i < j → seglen xj Nb + seglen Nb yj = seglen xj yj) ∧
      (i = j → seglen Na Nb + seglen Nb yi = seglen Na yi)) :
    pathLen (W.take (i + 1) ++ [Na]) + pathLen (Na :: (W.drop (i + 1)).take (j - i) ++ [Nb])
      + pathLen (Nb :: W.drop (j + 1)) = pathLen W := by
  obtain ⟨eW, eT, eD⟩ := getElem?_split_two W i xi yi hxi hyi
  have c1 := pathLen_cut (W.take i) xi yi (W.drop (i + 2)) Na hNa
  rw [← eW, ← eT, ← eD] at c1
  rw [← c1]
  rcases Nat.lt_or_ge i j with hlt | hge
  · -- second cut on a later edge of `W2 = Na :: W.drop (i+1)`
    set W2 := Na :: W.drop (i + 1) with hW2
    have g1 : W2[j - i]? = some xj := by
      obtain ⟨k, hk⟩ : ∃ k, j - i = k + 1 := ⟨j - i - 1, by omega⟩
      rw [hk, hW2, List.getElem?_cons_succ, List.getElem?_drop]
      have : i + 1 + k = j := by omega
      rw [this]; exact hxj
    have g2 : W2[j - i + 1]? = some yj := by
      rw [hW2, List.getElem?_cons_succ, List.getElem?_drop]
      have : i + 1 + (j - i) = j + 1 := by omega
      rw [this]; exact hyj
    obtain ⟨eW2, eT2, eD2⟩ := getElem?_split_two W2 (j - i) xj yj g1 g2
    have c2 := pathLen_cut (W2.take (j - i)) xj yj (W2.drop (j - i + 2)) Nb (hNb.1 hlt)
    rw [← eW2, ← eT2, ← eD2] at c2
    have t2 : W2.take (j - i + 1) = Na :: (W.drop (i + 1)).take (j - i) := by
      rw [hW2, List.take_succ_cons]
    have d2 : W2.drop (j - i + 1) = W.drop (j + 1) := by
      rw [hW2, List.drop_succ_cons, List.drop_drop]
      congr 1; omega
    rw [t2, d2] at c2
    rw [← c2]
    simp only [List.cons_append]
    ring
  · have he : i = j := by omega
    subst he
    have c2 := pathLen_cut [] Na yi (W.drop (i + 2)) Nb (hNb.2 rfl)
    rw [← eD] at c2
    have hy : yj = yi := Option.some.inj (hyj.symm.trans hyi)
    simp only [Nat.sub_self, List.take_zero, List.nil_append, List.cons_append] at c2 ⊢
    rw [← c2]
    ring

/-- segment `k` of a closed polyline joins entries `k` and `k + 1` of "the vertices and back to the first" -/
theorem closed_segment_get (a0 : V3 ℝ) (rest : List (V3 ℝ)) (k : Nat) (sg : V3 ℝ × V3 ℝ)
    (h : (⟨a0 :: rest, true⟩ : Polyline ℝ).segments[k]? = some sg) :
    (a0 :: rest ++ [a0])[k]? = some sg.1 ∧ (a0 :: rest ++ [a0])[k + 1]? = some sg.2 ∧ k < (a0 :: rest).length := by
  simp only [Polyline.segments, if_true] at h
  rw [List.getElem?_zip_eq_some] at h
  obtain ⟨h1, h2⟩ := h
  have hk : k < (a0 :: rest).length := (List.getElem?_eq_some_iff.mp h1).1
  refine ⟨?_, ?_, hk⟩
  · rw [List.getElem?_append_left hk]; exact h1
  · show (a0 :: (rest ++ [a0]))[k + 1]? = _
    rw [List.getElem?_cons_succ]; exact h2

/-- the forward sub-path and the wrapping sub-path between two positions of a closed polyline are the two ways
    round: their lengths add up to the length of the loop -/
theorem subPath_lengths_fwd (a0 : V3 ℝ) (rest : List (V3 ℝ)) (i j : Nat) (sgi sgj : V3 ℝ × V3 ℝ)
    (hi : (⟨a0 :: rest, true⟩ : Polyline ℝ).segments[i]? = some sgi)
    (hj : (⟨a0 :: rest, true⟩ : Polyline ℝ).segments[j]? = some sgj)
    (ta tb : ℝ) (hta0 : 0 ≤ ta) (hta1 : ta ≤ 1) (htb0 : 0 ≤ tb) (htb1 : tb ≤ 1)
    (hlt : i < j ∨ (i = j ∧ ta < tb)) :
    pathLen (segPoint sgi ta :: ((a0 :: rest).drop (i + 1)).take (j - i) ++ [segPoint sgj tb]) +
      pathLen (segPoint sgj tb :: (a0 :: rest).drop (j + 1) ++ (a0 :: rest).take (i + 1) ++ [segPoint sgi ta]) =
    pathLen (a0 :: rest ++ [a0]) := by
  obtain ⟨gi1, gi2, hin⟩ := closed_segment_get a0 rest i sgi hi
  obtain ⟨gj1, gj2, hjn⟩ := closed_segment_get a0 rest j sgj hj
  have hij : i ≤ j := by rcases hlt with h | ⟨h, _⟩ <;> omega
  set v := a0 :: rest with hv
  have key := pathLen_two_cuts (v ++ [a0]) i j hij sgi.1 sgi.2 sgj.1 sgj.2 (segPoint sgi ta) (segPoint sgj tb)
    gi1 gi2 gj1 gj2 (seglen_cut _ _ ta hta0 hta1) ⟨fun _ => seglen_cut _ _ tb htb0 htb1, by
      intro he
      subst he
      have hs : sgj = sgi := Option.some.inj (hj.symm.trans hi)
      rw [hs]
      rcases hlt with h | ⟨_, h⟩
      · omega
      · exact seglen_cut2 _ _ ta tb (le_of_lt h) htb1⟩
  have e1 : (v ++ [a0]).take (i + 1) = v.take (i + 1) := List.take_append_of_le_length (by omega)
  have e2 : ((v ++ [a0]).drop (i + 1)).take (j - i) = (v.drop (i + 1)).take (j - i) := by
    rw [List.drop_append_of_le_length (by omega), List.take_append_of_le_length (by simp; omega)]
  have e3 : (v ++ [a0]).drop (j + 1) = v.drop (j + 1) ++ [a0] := List.drop_append_of_le_length (by omega)
  rw [e1, e2, e3] at key
  have e4 : v.take (i + 1) = a0 :: rest.take i := by rw [hv, List.take_succ_cons]
  have e5 : segPoint sgj tb :: v.drop (j + 1) ++ v.take (i + 1) ++ [segPoint sgi ta] =
      (segPoint sgj tb :: v.drop (j + 1)) ++ a0 :: (rest.take i ++ [segPoint sgi ta]) := by
    rw [e4]; simp
  rw [e5, pathLen_append_cons (segPoint sgj tb :: v.drop (j + 1)) a0 (rest.take i ++ [segPoint sgi ta]), ← key, e4]
  simp only [List.cons_append]
  ring

/-- **the two sub-paths between two different positions of a closed polyline cover the loop once**: `subPath` from
    `(i, ta)` to `(j, tb)` and `subPath` from `(j, tb)` to `(i, ta)` both exist and their lengths add up to the
    polyline's `total_length` -/
theorem subPath_lengths_closed (v : List (V3 ℝ)) (i j : Nat) (sgi sgj : V3 ℝ × V3 ℝ)
    (hi : (⟨v, true⟩ : Polyline ℝ).segments[i]? = some sgi) (hj : (⟨v, true⟩ : Polyline ℝ).segments[j]? = some sgj)
    (ta tb : ℝ) (hta0 : 0 ≤ ta) (hta1 : ta ≤ 1) (htb0 : 0 ≤ tb) (htb1 : tb ≤ 1) (hne : i ≠ j ∨ ta ≠ tb) :
    ∃ s12 s21, subPath v true i ta (segPoint sgi ta) j tb (segPoint sgj tb) = .ok s12 ∧
      subPath v true j tb (segPoint sgj tb) i ta (segPoint sgi ta) = .ok s21 ∧
      totalLength s12 + totalLength s21 = totalLength ⟨v, true⟩ := by
  cases v with
  | nil => simp [Polyline.segments] at hi
  | cons a0 rest =>
    by_cases hlt : i < j ∨ (i = j ∧ ta < tb)
    · have hnot : ¬ (j < i ∨ (j = i ∧ tb < ta)) := by
        rintro (h | ⟨h1, h2⟩)
        · rcases hlt with h' | ⟨h', _⟩ <;> omega
        · rcases hlt with h' | ⟨_, h'⟩
          · omega
          · linarith
      refine ⟨_, _, by unfold subPath; rw [if_pos hlt], by unfold subPath; rw [if_neg hnot, if_pos rfl], ?_⟩
      rw [totalLength_open, totalLength_open, totalLength_closed]
      exact subPath_lengths_fwd a0 rest i j sgi sgj hi hj ta tb hta0 hta1 htb0 htb1 hlt
    · have hgt : j < i ∨ (j = i ∧ tb < ta) := by
        rcases Nat.lt_trichotomy i j with h | h | h
        · exact absurd (Or.inl h) hlt
        · right
          refine ⟨h.symm, ?_⟩
          rcases hne with h' | h'
          · exact absurd h h'
          · rcases lt_trichotomy ta tb with h'' | h'' | h''
            · exact absurd (Or.inr ⟨h, h''⟩) hlt
            · exact absurd h'' h'
            · exact h''
        · exact Or.inl h
      refine ⟨_, _, by unfold subPath; rw [if_neg hlt, if_pos rfl], by unfold subPath; rw [if_pos hgt], ?_⟩
      rw [totalLength_open, totalLength_open, totalLength_closed, add_comm]
      exact subPath_lengths_fwd a0 rest j i sgj sgi hj hi tb ta htb0 htb1 hta0 hta1 hgt

theorem sqrt_order_embedding : ∀ x y : ℝ, 0 ≤ x → 0 ≤ y → (Real.sqrt x ≤ Real.sqrt y ↔ x ≤ y) :=
  fun _ _ _ hy => Real.sqrt_le_sqrt_iff hy

theorem vertexMatches_comm {K : Type} [Field K] [LinearOrder K] [IsStrictOrderedRing K] (p v : V3 K) (atol : K) :
    vertexMatches p atol v = vertexMatches v atol p := by
  rw [Bool.eq_iff_iff, vertexMatches_iff, vertexMatches_iff, abs_sub_comm v.x, abs_sub_comm v.y, abs_sub_comm v.z]

theorem vertexMatches_self {K : Type} [Field K] [LinearOrder K] [IsStrictOrderedRing K] (p : V3 K) (atol : K)
    (hatol : 0 ≤ atol) : vertexMatches p atol p = true := by
  rw [vertexMatches_iff]; simp [hatol]

/-- what `LandsInside` says about the landing point: it is the point at parameter `t` of segment `i` -/
theorem LandsInside.point_eq {K : Type} [Field K] [LinearOrder K] [IsStrictOrderedRing K]
    {f : K → K} {pl : Polyline K} {atol : K} {q : V3 K} {i : Nat} {t : K} {N : V3 K}
    (h : LandsInside f pl atol q i t N) :
    ∃ sg, pl.segments[i]? = some sg ∧ N = segPoint sg t ∧ 0 ≤ t ∧ t ≤ 1 := by
  obtain ⟨hh, hn, rfl, rfl, rfl, _⟩ := h
  obtain ⟨sg, hsg⟩ : ∃ sg, pl.segments[hh.index]? = some sg := by
    have := (nearestOne_firstMin f pl q hh hn).1
    rw [List.getElem?_map] at this
    obtain ⟨sg, hsg, _⟩ := Option.map_eq_some_iff.mp this
    exact ⟨sg, hsg⟩
  have r := nearest_row f pl q hh hn sg hsg
  refine ⟨sg, hsg, ?_, ?_, ?_⟩
  · rw [r.1, r.2.1]; rfl
  · rw [r.2.1]; exact (closest_t_range _ _ _).1
  · rw [r.2.1]; exact (closest_t_range _ _ _).2.1

/-- **closed polylines: `sliced_at_points(a, b)` and `sliced_at_points(b, a)` are the two ways round.**  Under the
    original-polyline hypotheses of `sliced_at_points_original` (in both directions) both calls succeed and the
    lengths of the two results add up to the `total_length` of the loop. -/
theorem closed_subpaths_cover_loop (pl : Polyline ℝ) (a b : V3 ℝ) (atol : ℝ) (hatol : 0 ≤ atol) (i j : Nat)
    (ta tb : ℝ) (Na Nb : V3 ℝ) (hclosed : pl.closed = true)
    (hA : LandsInside Real.sqrt pl atol a i ta Na) (hB : LandsInside Real.sqrt pl atol b j tb Nb)
    (hAB : vertexMatches Nb atol Na = false)
    (hsb : i + 1 = pl.v.length → j ≠ i → ∀ sg, pl.segments[i]? = some sg →
      (Nb - b).normSq < (closestPoint b sg.1 (sg.2 - sg.1) - b).normSq)
    (hsa : j + 1 = pl.v.length → i ≠ j → ∀ sg, pl.segments[j]? = some sg →
      (Na - a).normSq < (closestPoint a sg.1 (sg.2 - sg.1) - a).normSq) :
    ∃ s12 s21, slicedAtPoints pl a b atol = .ok s12 ∧ slicedAtPoints pl b a atol = .ok s21 ∧
      totalLength s12 + totalLength s21 = totalLength pl := by
  obtain ⟨sgi, hi, hNa, hta0, hta1⟩ := hA.point_eq
  obtain ⟨sgj, hj, hNb, htb0, htb1⟩ := hB.point_eq
  have hne : i ≠ j ∨ ta ≠ tb := by
    by_contra hcon
    obtain ⟨h1, h2⟩ := not_or.mp hcon
    have h1 := not_not.mp h1
    have h2 := not_not.mp h2
    subst h1 h2
    have hs : sgj = sgi := Option.some.inj (hj.symm.trans hi)
    rw [hNa, hNb, hs, vertexMatches_self _ _ hatol] at hAB
    cases hAB
  have e12 := sliced_at_points_original Real.sqrt sqrt_order_embedding pl a b atol hatol i j ta tb Na Nb hA hB hAB
    (fun _ => hsb)
  have e21 := sliced_at_points_original Real.sqrt sqrt_order_embedding pl b a atol hatol j i tb ta Nb Na hB hA
    (by rw [vertexMatches_comm]; exact hAB) (fun _ => hsa)
  obtain ⟨v, c⟩ := pl
  simp only at hclosed
  subst hclosed
  obtain ⟨s12, s21, h12, h21, hsum⟩ := subPath_lengths_closed v i j sgi sgj hi hj ta tb hta0 hta1 htb0 htb1 hne
  refine ⟨s12, s21, ?_, ?_, hsum⟩
  · show slicedAtPointsWith Real.sqrt _ a b atol = _
    rw [e12, hNa, hNb]; exact h12
  · show slicedAtPointsWith Real.sqrt _ b a atol = _
    rw [e21, hNa, hNb]; exact h21

/-- **"the shorter way round"**: under the same hypotheses `aligned_along_subsegment(a, b)` flips the closed polyline
    exactly when the way from `Na` to `Nb` is longer than the other way round, i.e. longer than half the loop -/
theorem aligned_closed_shorter (pl : Polyline ℝ) (a b : V3 ℝ) (atol : ℝ) (hatol : 0 ≤ atol) (i j : Nat)
    (ta tb : ℝ) (Na Nb : V3 ℝ) (hclosed : pl.closed = true)
    (hA : LandsInside Real.sqrt pl atol a i ta Na) (hB : LandsInside Real.sqrt pl atol b j tb Nb)
    (hAB : vertexMatches Nb atol Na = false)
    (hsb : i + 1 = pl.v.length → j ≠ i → ∀ sg, pl.segments[i]? = some sg →
      (Nb - b).normSq < (closestPoint b sg.1 (sg.2 - sg.1) - b).normSq)
    (hsa : j + 1 = pl.v.length → i ≠ j → ∀ sg, pl.segments[j]? = some sg →
      (Na - a).normSq < (closestPoint a sg.1 (sg.2 - sg.1) - a).normSq) :
    ∃ s12 s21, slicedAtPoints pl a b atol = .ok s12 ∧ slicedAtPoints pl b a atol = .ok s21 ∧
      totalLength s12 + totalLength s21 = totalLength pl ∧
      alignedAlongSubsegment pl a b atol =
        .ok (if totalLength pl < 2 * totalLength s12 then flipped pl else pl) := by
  obtain ⟨s12, s21, h12, h21, hsum⟩ := closed_subpaths_cover_loop pl a b atol hatol i j ta tb Na Nb hclosed hA hB hAB
    hsb hsa
  refine ⟨s12, s21, h12, h21, hsum, ?_⟩
  rw [aligned_closed_spec pl a b atol s12 s21 hclosed h21 h12]
  have : totalLength s21 < totalLength s12 ↔ totalLength pl < 2 * totalLength s12 := by
    rw [← hsum]; constructor <;> intro h <;> linarith
  by_cases h : totalLength s21 < totalLength s12
  · rw [if_pos h, if_pos (this.mp h)]
  · rw [if_neg h, if_neg (fun h' => h (this.mpr h'))]

end lengths

/-! ### simple polylines, points on the path: the sub-path clause without hypotheses about `nearest` -/

/-- `sliced_at_points` itself (distances compared after `sqrt`, as in the code) on a simple polyline, for two points
    on it: the sub-path between them -/
theorem sliced_at_points_on_path_real (pl : Polyline ℝ) (hS : Simple pl) (atol : ℝ) (hatol : 0 ≤ atol)
    (i j : Nat) (sgi sgj : V3 ℝ × V3 ℝ) (hi : pl.segments[i]? = some sgi) (hj : pl.segments[j]? = some sgj)
    (ta tb : ℝ) (hta0 : 0 < ta) (hta1 : ta < 1) (htb0 : 0 < tb) (htb1 : tb < 1)
    (hfa : FarFromVertices pl.v (segPoint sgi ta) atol) (hfb : FarFromVertices pl.v (segPoint sgj tb) atol)
    (hab : ¬ (|(segPoint sgi ta).x - (segPoint sgj tb).x| ≤ atol ∧ |(segPoint sgi ta).y - (segPoint sgj tb).y| ≤ atol ∧
      |(segPoint sgi ta).z - (segPoint sgj tb).z| ≤ atol)) :
    slicedAtPoints pl (segPoint sgi ta) (segPoint sgj tb) atol =
      subPath pl.v pl.closed i ta (segPoint sgi ta) j tb (segPoint sgj tb) :=
  sliced_at_points_on_path Real.sqrt sqrt_order_embedding pl hS atol hatol i j sgi sgj hi hj ta tb hta0 hta1 htb0 htb1
    hfa hfb hab

/-- **closed simple polyline, two points on it**: `sliced_at_points(a, b)` and `sliced_at_points(b, a)` both succeed,
    their lengths add up to the length of the loop (they are the two ways round), and `aligned_along_subsegment(a, b)`
    flips the polyline exactly when the way from `a` to `b` is longer than half the loop.  No hypothesis about
    `nearest`. -/
theorem aligned_closed_on_path (pl : Polyline ℝ) (hS : Simple pl) (hclosed : pl.closed = true)
    (atol : ℝ) (hatol : 0 ≤ atol)
    (i j : Nat) (sgi sgj : V3 ℝ × V3 ℝ) (hi : pl.segments[i]? = some sgi) (hj : pl.segments[j]? = some sgj)
    (ta tb : ℝ) (hta0 : 0 < ta) (hta1 : ta < 1) (htb0 : 0 < tb) (htb1 : tb < 1)
    (hfa : FarFromVertices pl.v (segPoint sgi ta) atol) (hfb : FarFromVertices pl.v (segPoint sgj tb) atol)
    (hab : ¬ (|(segPoint sgi ta).x - (segPoint sgj tb).x| ≤ atol ∧ |(segPoint sgi ta).y - (segPoint sgj tb).y| ≤ atol ∧
      |(segPoint sgi ta).z - (segPoint sgj tb).z| ≤ atol)) :
    ∃ s12 s21, slicedAtPoints pl (segPoint sgi ta) (segPoint sgj tb) atol = .ok s12 ∧
      slicedAtPoints pl (segPoint sgj tb) (segPoint sgi ta) atol = .ok s21 ∧
      .ok s12 = subPath pl.v true i ta (segPoint sgi ta) j tb (segPoint sgj tb) ∧
      .ok s21 = subPath pl.v true j tb (segPoint sgj tb) i ta (segPoint sgi ta) ∧
      totalLength s12 + totalLength s21 = totalLength pl ∧
      alignedAlongSubsegment pl (segPoint sgi ta) (segPoint sgj tb) atol =
        .ok (if totalLength pl < 2 * totalLength s12 then flipped pl else pl) := by
  obtain ⟨lA, sA⟩ := on_path_lands Real.sqrt sqrt_order_embedding pl hS atol i sgi hi ta hta0 hta1 hfa
  obtain ⟨lB, sB⟩ := on_path_lands Real.sqrt sqrt_order_embedding pl hS atol j sgj hj tb htb0 htb1 hfb
  have hAB : vertexMatches (segPoint sgj tb) atol (segPoint sgi ta) = false := by
    cases hm : vertexMatches (segPoint sgj tb) atol (segPoint sgi ta) with
    | false => rfl
    | true => exact absurd ((vertexMatches_iff _ _ _).mp hm) hab
  obtain ⟨s12, s21, h12, h21, hsum, hal⟩ := aligned_closed_shorter pl _ _ atol hatol i j ta tb _ _ hclosed lA lB hAB
    (fun _ hne sg hsg => sB i sg hne.symm hsg) (fun _ hne sg hsg => sA j sg hne.symm hsg)
  refine ⟨s12, s21, h12, h21, ?_, ?_, hsum, hal⟩
  · have := sliced_at_points_on_path_real pl hS atol hatol i j sgi sgj hi hj ta tb hta0 hta1 htb0 htb1 hfa hfb hab
    rw [h12, hclosed] at this
    exact this
  · have := sliced_at_points_on_path_real pl hS atol hatol j i sgj sgi hj hi tb ta htb0 htb1 hta0 hta1 hfb hfa
      (by rw [abs_sub_comm (segPoint sgj tb).x, abs_sub_comm (segPoint sgj tb).y, abs_sub_comm (segPoint sgj tb).z]
          exact hab)
    rw [h21, hclosed] at this
    exact this

/-- **open simple polyline, two points on it**: `aligned_along_subsegment(a, b)` flips the polyline exactly when `b`
    comes before `a` along it (earlier segment, or same segment and smaller parameter) -/
theorem aligned_open_on_path (pl : Polyline ℝ) (hS : Simple pl) (hopen : pl.closed = false) (atol : ℝ)
    (i j : Nat) (sgi sgj : V3 ℝ × V3 ℝ) (hi : pl.segments[i]? = some sgi) (hj : pl.segments[j]? = some sgj)
    (ta tb : ℝ) (hta0 : 0 < ta) (hta1 : ta < 1) (htb0 : 0 < tb) (htb1 : tb < 1) :
    alignedAlongSubsegment pl (segPoint sgi ta) (segPoint sgj tb) atol =
      .ok (if j < i ∨ (j = i ∧ tb < ta) then flipped pl else pl) := by
  obtain ⟨⟨ha, hna, ia, ta', _, _⟩, _⟩ :=
    nearest_on_simple Real.sqrt sqrt_order_embedding pl hS i sgi hi ta hta0 hta1
  obtain ⟨⟨hb, hnb, ib, tb', _, _⟩, _⟩ :=
    nearest_on_simple Real.sqrt sqrt_order_embedding pl hS j sgj hj tb htb0 htb1
  rw [aligned_open_spec pl _ _ atol ha hb hopen hna hnb, ia, ib, ta', tb']

/-! ### the returned orientation of `aligned_along_subsegment` -/

theorem subPath_open_result {K : Type} [Field K] [LinearOrder K] [IsStrictOrderedRing K]
    (v : List (V3 K)) (closed : Bool) (i j : Nat) (ta tb : K) (Na Nb : V3 K) (s : Polyline K)
    (h : subPath v closed i ta Na j tb Nb = .ok s) : s.closed = false := by
  unfold subPath at h
  split_ifs at h
  · injection h with h; rw [← h]
  · injection h with h; rw [← h]

theorem seglen_comm (a b : V3 ℝ) : seglen a b = seglen b a := by
  unfold seglen
  congr 1
  simp only [V3.normSq_def, V3.sub_x, V3.sub_y, V3.sub_z]
  ring

theorem pathLen_reverse (l : List (V3 ℝ)) : pathLen l.reverse = pathLen l := by
  induction l with
  | nil => simp
  | cons a l ih =>
    cases l with
    | nil => simp
    | cons b r =>
      have e : (a :: b :: r).reverse = r.reverse ++ b :: [a] := by simp
      rw [e, pathLen_append_cons r.reverse b [a]]
      have e2 : r.reverse ++ [b] = (b :: r).reverse := by simp
      rw [e2, ih]
      simp only [pathLen_cons_cons, pathLen_single]
      rw [seglen_comm b a]; ring

theorem totalLength_revPath (p : Polyline ℝ) (h : p.closed = false) : totalLength (revPath p) = totalLength p := by
  obtain ⟨l, c⟩ := p
  simp only at h
  subst h
  unfold revPath
  rw [totalLength_open, totalLength_open, pathLen_reverse]

theorem farFromVertices_reverse {K : Type} [Field K] [LinearOrder K] [IsStrictOrderedRing K]
    (vs : List (V3 K)) (p : V3 K) (atol : K) (h : FarFromVertices vs p atol) : FarFromVertices vs.reverse p atol :=
  fun v hv => h v (List.mem_reverse.mp hv)

/-- **closed simple polyline, two points on it — the returned orientation.**  `aligned_along_subsegment(a, b)`
    returns the polyline or its flip, and IN THE RETURNED POLYLINE the sub-path from `a` to `b` is no longer than the
    sub-path from `b` to `a` (the other way round): "the shorter way round". -/
theorem aligned_closed_on_path_shorter (pl : Polyline ℝ) (hS : Simple pl) (hclosed : pl.closed = true)
    (atol : ℝ) (hatol : 0 ≤ atol)
    (i j : Nat) (sgi sgj : V3 ℝ × V3 ℝ) (hi : pl.segments[i]? = some sgi) (hj : pl.segments[j]? = some sgj)
    (ta tb : ℝ) (hta0 : 0 < ta) (hta1 : ta < 1) (htb0 : 0 < tb) (htb1 : tb < 1)
    (hfa : FarFromVertices pl.v (segPoint sgi ta) atol) (hfb : FarFromVertices pl.v (segPoint sgj tb) atol)
    (hab : ¬ (|(segPoint sgi ta).x - (segPoint sgj tb).x| ≤ atol ∧ |(segPoint sgi ta).y - (segPoint sgj tb).y| ≤ atol ∧
      |(segPoint sgi ta).z - (segPoint sgj tb).z| ≤ atol)) :
    ∃ r s12 s21, alignedAlongSubsegment pl (segPoint sgi ta) (segPoint sgj tb) atol = .ok r ∧
      (r = pl ∨ r = flipped pl) ∧
      slicedAtPoints r (segPoint sgi ta) (segPoint sgj tb) atol = .ok s12 ∧
      slicedAtPoints r (segPoint sgj tb) (segPoint sgi ta) atol = .ok s21 ∧
      totalLength s12 ≤ totalLength s21 ∧ totalLength s12 + totalLength s21 = totalLength pl := by
  obtain ⟨o12, o21, h12, h21, e12, e21, hsum, hal⟩ := aligned_closed_on_path pl hS hclosed atol hatol i j sgi sgj hi hj
    ta tb hta0 hta1 htb0 htb1 hfa hfb hab
  by_cases hflip : totalLength pl < 2 * totalLength o12
  · rw [if_pos hflip] at hal
    -- the same two points as positions on the flipped polyline
    have hi' := segment_of_flipped pl i sgi hi
    have hj' := segment_of_flipped pl j sgj hj
    have hbi : i < (if pl.closed then pl.v.length else pl.v.length - 1) := by
      have := (List.getElem?_eq_some_iff.mp hi).1
      rwa [segments_length'] at this
    have hbj : j < (if pl.closed then pl.v.length else pl.v.length - 1) := by
      have := (List.getElem?_eq_some_iff.mp hj).1
      rwa [segments_length'] at this
    have ea := segPoint_swap sgi ta
    have eb := segPoint_swap sgj tb
    obtain ⟨f12, f21, g12, g21, d12, d21, _, _⟩ := aligned_closed_on_path (flipped pl) (simple_flipped hS) hclosed atol
      hatol _ _ (sgi.2, sgi.1) (sgj.2, sgj.1) hi' hj' (1 - ta) (1 - tb) (by linarith) (by linarith) (by linarith)
      (by linarith) (by rw [ea]; exact farFromVertices_reverse _ _ _ hfa)
      (by rw [eb]; exact farFromVertices_reverse _ _ _ hfb) (by rw [ea, eb]; exact hab)
    rw [ea, eb] at g12 g21 d12 d21
    have hv : (flipped pl).v = pl.v.reverse := rfl
    rw [hv, ← hclosed, subPath_flipped pl.v pl.closed i j ta tb _ _ hbi hbj, hclosed, ← e21] at d12
    rw [hv, ← hclosed, subPath_flipped pl.v pl.closed j i tb ta _ _ hbj hbi, hclosed, ← e12] at d21
    have c12 : f12 = revPath o21 := by
      simp only [Except.map] at d12; injection d12
    have c21 : f21 = revPath o12 := by
      simp only [Except.map] at d21; injection d21
    have l12 : totalLength f12 = totalLength o21 := by
      rw [c12]; exact totalLength_revPath _ (subPath_open_result _ _ _ _ _ _ _ _ _ e21.symm)
    have l21 : totalLength f21 = totalLength o12 := by
      rw [c21]; exact totalLength_revPath _ (subPath_open_result _ _ _ _ _ _ _ _ _ e12.symm)
    exact ⟨flipped pl, f12, f21, hal, Or.inr rfl, g12, g21, by rw [l12, l21]; linarith, by rw [l12, l21]; linarith⟩
  · rw [if_neg hflip] at hal
    exact ⟨pl, o12, o21, hal, Or.inl rfl, h12, h21, by linarith, hsum⟩

/-- **open simple polyline, two points on it — the returned orientation.**  `aligned_along_subsegment(a, b)` returns
    the polyline or its flip, and ON THE RETURNED POLYLINE `sliced_at_points(a, b)` succeeds (no ValueError): the
    sub-path from `a` to `b` runs forward.  It is the forward sub-path of the polyline when `a` comes first, and the
    reversed forward sub-path from `b` to `a` when the polyline was flipped. -/
theorem aligned_open_on_path_forward (pl : Polyline ℝ) (hS : Simple pl) (hopen : pl.closed = false)
    (atol : ℝ) (hatol : 0 ≤ atol)
    (i j : Nat) (sgi sgj : V3 ℝ × V3 ℝ) (hi : pl.segments[i]? = some sgi) (hj : pl.segments[j]? = some sgj)
    (ta tb : ℝ) (hta0 : 0 < ta) (hta1 : ta < 1) (htb0 : 0 < tb) (htb1 : tb < 1)
    (hfa : FarFromVertices pl.v (segPoint sgi ta) atol) (hfb : FarFromVertices pl.v (segPoint sgj tb) atol)
    (hab : ¬ (|(segPoint sgi ta).x - (segPoint sgj tb).x| ≤ atol ∧ |(segPoint sgi ta).y - (segPoint sgj tb).y| ≤ atol ∧
      |(segPoint sgi ta).z - (segPoint sgj tb).z| ≤ atol)) :
    ∃ r s, alignedAlongSubsegment pl (segPoint sgi ta) (segPoint sgj tb) atol = .ok r ∧
      slicedAtPoints r (segPoint sgi ta) (segPoint sgj tb) atol = .ok s ∧
      ((r = pl ∧ s = ⟨segPoint sgi ta :: (pl.v.drop (i + 1)).take (j - i) ++ [segPoint sgj tb], false⟩) ∨
       (r = flipped pl ∧
         s = revPath ⟨segPoint sgj tb :: (pl.v.drop (j + 1)).take (i - j) ++ [segPoint sgi ta], false⟩)) := by
  have hal := aligned_open_on_path pl hS hopen atol i j sgi sgj hi hj ta tb hta0 hta1 htb0 htb1
  have hne : i ≠ j ∨ ta ≠ tb := by
    by_contra hcon
    obtain ⟨h1, h2⟩ := not_or.mp hcon
    have h1 := not_not.mp h1
    have h2 := not_not.mp h2
    subst h1 h2
    have hs : sgj = sgi := Option.some.inj (hj.symm.trans hi)
    rw [hs] at hab
    apply hab
    simp [hatol]
  by_cases hback : j < i ∨ (j = i ∧ tb < ta)
  · rw [if_pos hback] at hal
    have hi' := segment_of_flipped pl i sgi hi
    have hj' := segment_of_flipped pl j sgj hj
    have hbi : i < (if pl.closed then pl.v.length else pl.v.length - 1) := by
      have := (List.getElem?_eq_some_iff.mp hi).1
      rwa [segments_length'] at this
    have hbj : j < (if pl.closed then pl.v.length else pl.v.length - 1) := by
      have := (List.getElem?_eq_some_iff.mp hj).1
      rwa [segments_length'] at this
    have ea := segPoint_swap sgi ta
    have eb := segPoint_swap sgj tb
    have h := sliced_at_points_on_path_real (flipped pl) (simple_flipped hS) atol hatol _ _ (sgi.2, sgi.1) (sgj.2, sgj.1)
      hi' hj' (1 - ta) (1 - tb) (by linarith) (by linarith) (by linarith) (by linarith)
      (by rw [ea]; exact farFromVertices_reverse _ _ _ hfa)
      (by rw [eb]; exact farFromVertices_reverse _ _ _ hfb) (by rw [ea, eb]; exact hab)
    rw [ea, eb] at h
    have hv : (flipped pl).v = pl.v.reverse := rfl
    have hc : (flipped pl).closed = pl.closed := rfl
    rw [hv, hc, subPath_flipped pl.v pl.closed i j ta tb _ _ hbi hbj] at h
    unfold subPath at h
    rw [if_pos hback] at h
    exact ⟨flipped pl, _, hal, h, Or.inr ⟨rfl, rfl⟩⟩
  · rw [if_neg hback] at hal
    have hfw : i < j ∨ (i = j ∧ ta < tb) := by
      rcases Nat.lt_trichotomy i j with h | h | h
      · exact Or.inl h
      · right
        refine ⟨h, ?_⟩
        rcases hne with h' | h'
        · exact absurd h h'
        · rcases lt_trichotomy ta tb with h'' | h'' | h''
          · exact h''
          · exact absurd h'' h'
          · exact absurd (Or.inr ⟨h.symm, h''⟩) hback
      · exact absurd (Or.inl h) hback
    have h := sliced_at_points_on_path_real pl hS atol hatol i j sgi sgj hi hj ta tb hta0 hta1 htb0 htb1 hfa hfb hab
    unfold subPath at h
    rw [if_pos hfw] at h
    exact ⟨pl, _, hal, h, Or.inl ⟨rfl, rfl⟩⟩

/-! ### the sub-path clause of the property, assembled -/

/-- what the property says about two points `a = segPoint sgi ta`, `b = segPoint sgj tb` on a polyline:
    `sliced_at_points(a, b)` is the sub-path between them, and in the polyline returned by
    `aligned_along_subsegment(a, b)` that sub-path runs forward (open) / is the shorter way round (closed) -/
def SubpathClause (pl : Polyline ℝ) (atol : ℝ) (i j : Nat) (sgi sgj : V3 ℝ × V3 ℝ) (ta tb : ℝ) : Prop :=
  slicedAtPoints pl (segPoint sgi ta) (segPoint sgj tb) atol =
    subPath pl.v pl.closed i ta (segPoint sgi ta) j tb (segPoint sgj tb) ∧
  (pl.closed = false →
    ∃ r s, alignedAlongSubsegment pl (segPoint sgi ta) (segPoint sgj tb) atol = .ok r ∧
      slicedAtPoints r (segPoint sgi ta) (segPoint sgj tb) atol = .ok s ∧
      ((r = pl ∧ s = ⟨segPoint sgi ta :: (pl.v.drop (i + 1)).take (j - i) ++ [segPoint sgj tb], false⟩) ∨
       (r = flipped pl ∧
         s = revPath ⟨segPoint sgj tb :: (pl.v.drop (j + 1)).take (i - j) ++ [segPoint sgi ta], false⟩))) ∧
  (pl.closed = true →
    ∃ r s12 s21, alignedAlongSubsegment pl (segPoint sgi ta) (segPoint sgj tb) atol = .ok r ∧
      (r = pl ∨ r = flipped pl) ∧
      slicedAtPoints r (segPoint sgi ta) (segPoint sgj tb) atol = .ok s12 ∧
      slicedAtPoints r (segPoint sgj tb) (segPoint sgi ta) atol = .ok s21 ∧
      totalLength s12 ≤ totalLength s21 ∧ totalLength s12 + totalLength s21 = totalLength pl)

/-- **the sub-path clause, full statement**: every polyline that does not touch itself, every two different points on
    it that lie strictly inside segments and are not within `atol` of a vertex.  (Not proved in this generality: for
    two different points within `atol` of each other the code returns the single vertex `[Na]`, see
    `sliced_at_points_original_same_point`.) -/
def C07_subpath_statement (atol : ℝ) : Prop :=
  ∀ (pl : Polyline ℝ), Simple pl →
  ∀ (i j : Nat) (sgi sgj : V3 ℝ × V3 ℝ), pl.segments[i]? = some sgi → pl.segments[j]? = some sgj →
  ∀ (ta tb : ℝ), 0 < ta → ta < 1 → 0 < tb → tb < 1 → (i ≠ j ∨ ta ≠ tb) →
    FarFromVertices pl.v (segPoint sgi ta) atol → FarFromVertices pl.v (segPoint sgj tb) atol →
    SubpathClause pl atol i j sgi sgj ta tb

/-- **C07_subpath_partial**: the sub-path clause for every simple polyline and every two points on it that are not
    within `atol` of a vertex *nor of each other* (coordinate-wise, `index_of_vertex`'s test; the property's
    quantifier keeps them `1e-3` from the vertices, `atol = 1e-8`).  No hypothesis about what `nearest` returns. -/
theorem C07_subpath_partial (atol : ℝ) (hatol : 0 ≤ atol) (pl : Polyline ℝ) (hS : Simple pl)
    (i j : Nat) (sgi sgj : V3 ℝ × V3 ℝ) (hi : pl.segments[i]? = some sgi) (hj : pl.segments[j]? = some sgj)
    (ta tb : ℝ) (hta0 : 0 < ta) (hta1 : ta < 1) (htb0 : 0 < tb) (htb1 : tb < 1)
    (hfa : FarFromVertices pl.v (segPoint sgi ta) atol) (hfb : FarFromVertices pl.v (segPoint sgj tb) atol)
    (hab : ¬ (|(segPoint sgi ta).x - (segPoint sgj tb).x| ≤ atol ∧ |(segPoint sgi ta).y - (segPoint sgj tb).y| ≤ atol ∧
      |(segPoint sgi ta).z - (segPoint sgj tb).z| ≤ atol)) :
    SubpathClause pl atol i j sgi sgj ta tb :=
  ⟨sliced_at_points_on_path_real pl hS atol hatol i j sgi sgj hi hj ta tb hta0 hta1 htb0 htb1 hfa hfb hab,
   fun hopen => aligned_open_on_path_forward pl hS hopen atol hatol i j sgi sgj hi hj ta tb hta0 hta1 htb0 htb1
     hfa hfb hab,
   fun hclosed => aligned_closed_on_path_shorter pl hS hclosed atol hatol i j sgi sgj hi hj ta tb hta0 hta1 htb0 htb1
     hfa hfb hab⟩

end real

/-- **defect witness** (closed term over ℚ): one segment, one query, `ret_t_values=True` alone — the model
    (which mirrors the code) returns the bare point and no `t` value -/
theorem C07_outputs_defect_witness :
    ∃ r, nearestWith (K := ℚ) id ⟨[⟨0, 0, 0⟩, ⟨1, 0, 0⟩], false⟩ (.one ⟨2, 1, 0⟩) false false true = .ok r ∧
      r.points = [⟨1, 0, 0⟩] ∧ r.tuple = false ∧ r.ts = none := by
  refine ⟨_, rfl, ?_, rfl, rfl⟩
  decide +kernel

/-- hence the full clause is false -/
theorem C07_outputs_statement_false : ¬ C07_outputs_statement ℚ id := by
  intro h
  have := (h ⟨[⟨0, 0, 0⟩, ⟨1, 0, 0⟩], false⟩ (.one ⟨2, 1, 0⟩) false false true _ rfl).2.2 rfl
  exact absurd this (by decide +kernel)

/-! ## non-vacuity: the hypotheses are satisfiable (concrete instances over ℚ, checked by the kernel) -/

/-- a lattice chain with a zero-length segment and an exact tie: the first minimal segment is reported -/
example : (nearestWith (K := ℚ) id ⟨[⟨0, 0, 0⟩, ⟨0, 0, 0⟩, ⟨2, 0, 0⟩, ⟨2, 2, 0⟩], false⟩
      (.many [⟨3, 1, 0⟩, ⟨1, 1, 0⟩]) true true true).map (fun r => (r.points, r.indices, r.dists, r.ts)) =
    .ok ([⟨2, 1, 0⟩, ⟨1, 0, 0⟩], some [2, 1], some [1, 1], some [1 / 2, 1 / 2]) := by decide +kernel

/-- an open square path, `a` below the first edge, `b` above the third: every hypothesis of
    `sliced_at_points_forward_original` holds (`p' = []`, `x = (0,0,0)`, `m = [(2,0,0), (2,2,0)]`,
    `s = [(0,2,0)]`) and the result is `Na, m, Nb` -/
example :
    let pl : Polyline ℚ := ⟨[⟨0, 0, 0⟩, ⟨2, 0, 0⟩, ⟨2, 2, 0⟩, ⟨0, 2, 0⟩], false⟩
    let atol : ℚ := 1 / 100000000
    (∃ ha hb, nearestOne id pl ⟨1, -1, 0⟩ = .ok ha ∧ ha.index = 0 ∧ nearestOne id pl ⟨1, 3, 0⟩ = .ok hb ∧
      hb.index = 0 + 2 ∧ indexOfVertex pl.v ha.point atol = .error .ValueError ∧
      indexOfVertex (insertBefore pl.v (0 + 1) ha.point) hb.point atol = .error .ValueError) ∧
    (slicedAtPointsWith id pl ⟨1, -1, 0⟩ ⟨1, 3, 0⟩ atol).map (·.v) =
      .ok [⟨1, 0, 0⟩, ⟨2, 0, 0⟩, ⟨2, 2, 0⟩, ⟨1, 2, 0⟩] := by
  refine ⟨⟨_, _, rfl, by decide +kernel, rfl, by decide +kernel, by decide +kernel, by decide +kernel⟩,
    by decide +kernel⟩

/-- a closed square, wrapping: from the closing edge over the first vertices -/
example : (slicedAtPointsWith (K := ℚ) id ⟨[⟨0, 0, 0⟩, ⟨2, 0, 0⟩, ⟨2, 2, 0⟩, ⟨0, 2, 0⟩], true⟩
      ⟨-1, 1, 0⟩ ⟨1, -1, 0⟩ (1 / 100000000)).map (·.v) = .ok [⟨0, 1, 0⟩, ⟨0, 0, 0⟩, ⟨1, 0, 0⟩] := by decide +kernel

/-! ### non-vacuity of the original-index and on-path theorems (concrete instances over ℚ) -/

section witnesses

/-- the triangle `(0,0,0), (4,0,0), (0,4,0)`, closed, does not touch itself -/
theorem triangle_simple {K : Type} [Field K] [LinearOrder K] [IsStrictOrderedRing K] :
    Simple (⟨[⟨0, 0, 0⟩, ⟨4, 0, 0⟩, ⟨0, 4, 0⟩], true⟩ : Polyline K) := by
  constructor
  · intro sg hsg
    simp only [Polyline.segments, if_true, List.cons_append, List.nil_append, List.zip_cons_cons, List.zip_nil_right,
      List.mem_cons, List.not_mem_nil, or_false] at hsg
    rcases hsg with rfl | rfl | rfl <;> simp
  · intro i j sgi sgj hij hi hj s t hs0 hs1 ht0 ht1 heq
    have hj3 : j < 3 := by
      have := (List.getElem?_eq_some_iff.mp hj).1
      simpa [Polyline.segments] using this
    have hx := congrArg V3.x heq
    have hy := congrArg V3.y heq
    obtain rfl | rfl | rfl : j = 0 ∨ j = 1 ∨ j = 2 := by omega
    · omega
    · obtain rfl : i = 0 := by omega
      simp [Polyline.segments] at hi hj
      subst hi hj
      simp [segPoint] at hx hy
      left
      refine ⟨rfl, by linarith, by linarith⟩
    · obtain rfl | rfl : i = 0 ∨ i = 1 := by omega
      · simp [Polyline.segments] at hi hj
        subst hi hj
        simp [segPoint] at hx hy
        right
        refine ⟨rfl, rfl, rfl, by linarith, by linarith⟩
      · simp [Polyline.segments] at hi hj
        subst hi hj
        simp [segPoint] at hx hy
        left
        refine ⟨rfl, by linarith, by linarith⟩

/-- every hypothesis of `sliced_at_points_on_path` holds for the triangle with `a` on the closing edge (segment 2,
    `t = 1/2`: the point `(0,2,0)`) and `b` on segment 0 (`t = 1/4`: `(1,0,0)`); the conclusion is the wrapping
    sub-path `a, (0,0,0), b` -/
example :
    slicedAtPointsWith (K := ℚ) id ⟨[⟨0, 0, 0⟩, ⟨4, 0, 0⟩, ⟨0, 4, 0⟩], true⟩ ⟨0, 2, 0⟩ ⟨1, 0, 0⟩ (1 / 100000000) =
      .ok ⟨[⟨0, 2, 0⟩, ⟨0, 0, 0⟩, ⟨1, 0, 0⟩], false⟩ := by
  have h := sliced_at_points_on_path (K := ℚ) id (fun _ _ _ _ => Iff.rfl) _ triangle_simple (1 / 100000000)
    (by norm_num) 2 0 (⟨0, 4, 0⟩, ⟨0, 0, 0⟩) (⟨0, 0, 0⟩, ⟨4, 0, 0⟩) (by decide +kernel) (by decide +kernel)
    (1 / 2) (1 / 4) (by norm_num) (by norm_num) (by norm_num) (by norm_num)
    (by
      intro v hv
      simp only [List.mem_cons, List.not_mem_nil, or_false] at hv
      rcases hv with rfl | rfl | rfl <;> simp [segPoint] <;> norm_num)
    (by
      intro v hv
      simp only [List.mem_cons, List.not_mem_nil, or_false] at hv
      rcases hv with rfl | rfl | rfl <;> simp [segPoint] <;> norm_num)
    (by simp [segPoint]; norm_num)
  have e1 : segPoint ((⟨0, 4, 0⟩, ⟨0, 0, 0⟩) : V3 ℚ × V3 ℚ) (1 / 2) = ⟨0, 2, 0⟩ := by
    ext <;> (simp [segPoint]; try norm_num)
  have e2 : segPoint ((⟨0, 0, 0⟩, ⟨4, 0, 0⟩) : V3 ℚ × V3 ℚ) (1 / 4) = ⟨1, 0, 0⟩ := by
    ext <;> simp [segPoint]
  rw [e1, e2] at h
  rw [h]
  simp [subPath]

/-- every hypothesis of `sliced_at_points_original` holds for a closed square and two queries OFF the polyline: `a`
    nearest to the closing edge (segment 3 at `t = 1/2`), `b` nearest to segment 0 (`t = 1/2`), including the
    strictness condition for the closing edge -/
example :
    let pl : Polyline ℚ := ⟨[⟨0, 0, 0⟩, ⟨2, 0, 0⟩, ⟨2, 2, 0⟩, ⟨0, 2, 0⟩], true⟩
    let atol : ℚ := 1 / 100000000
    LandsInside id pl atol ⟨-1, 1, 0⟩ 3 (1 / 2) ⟨0, 1, 0⟩ ∧ LandsInside id pl atol ⟨1, -1, 0⟩ 0 (1 / 2) ⟨1, 0, 0⟩ ∧
    vertexMatches (⟨1, 0, 0⟩ : V3 ℚ) atol ⟨0, 1, 0⟩ = false ∧
    (pl.closed = true → 3 + 1 = pl.v.length → 0 ≠ 3 → ∀ sg, pl.segments[3]? = some sg →
      ((⟨1, 0, 0⟩ : V3 ℚ) - ⟨1, -1, 0⟩).normSq < (closestPoint ⟨1, -1, 0⟩ sg.1 (sg.2 - sg.1) - ⟨1, -1, 0⟩).normSq) ∧
    subPath pl.v pl.closed 3 (1 / 2) ⟨0, 1, 0⟩ 0 (1 / 2) ⟨1, 0, 0⟩ = .ok ⟨[⟨0, 1, 0⟩, ⟨0, 0, 0⟩, ⟨1, 0, 0⟩], false⟩ := by
  refine ⟨⟨_, rfl, by decide +kernel, by decide +kernel, by decide +kernel, by decide +kernel⟩,
    ⟨_, rfl, by decide +kernel, by decide +kernel, by decide +kernel, by decide +kernel⟩, by decide +kernel, ?_,
    by simp [subPath]⟩
  intro _ _ _ sg hsg
  have : sg = (⟨0, 2, 0⟩, ⟨0, 0, 0⟩) := by
    have h2 : (⟨[⟨0, 0, 0⟩, ⟨2, 0, 0⟩, ⟨2, 2, 0⟩, ⟨0, 2, 0⟩], true⟩ : Polyline ℚ).segments[3]? =
        some (⟨0, 2, 0⟩, ⟨0, 0, 0⟩) := by decide +kernel
    exact Option.some.inj (hsg.symm.trans h2)
  subst this
  decide +kernel

/-- every hypothesis of `C07_subpath_partial` (over ℝ, `atol = 1e-8`) holds for the triangle with `a` on the closing
    edge and `b` on segment 0 -/
example : SubpathClause (⟨[⟨0, 0, 0⟩, ⟨4, 0, 0⟩, ⟨0, 4, 0⟩], true⟩ : Polyline ℝ) (1 / 100000000) 2 0
    (⟨0, 4, 0⟩, ⟨0, 0, 0⟩) (⟨0, 0, 0⟩, ⟨4, 0, 0⟩) (1 / 2) (1 / 4) :=
  C07_subpath_partial (1 / 100000000) (by norm_num) _ triangle_simple 2 0 _ _ (by simp [Polyline.segments])
    (by simp [Polyline.segments]) (1 / 2) (1 / 4) (by norm_num) (by norm_num) (by norm_num) (by norm_num)
    (by
      intro v hv
      simp only [List.mem_cons, List.not_mem_nil, or_false] at hv
      rcases hv with rfl | rfl | rfl <;> simp [segPoint] <;> norm_num)
    (by
      intro v hv
      simp only [List.mem_cons, List.not_mem_nil, or_false] at hv
      rcases hv with rfl | rfl | rfl <;> simp [segPoint] <;> norm_num)
    (by simp [segPoint]; norm_num)

end witnesses

end PW.C07
