/-
  C07 — Polyline.nearest is the true closest point; closest_point_of_line_segment / is_point_on_line_segment;
  sliced_at_points and aligned_along_subsegment build on it.

  Property theorems only (helper lemmas live in PW/Lemmas/Nearest.lean).  Everything free of `sqrt` is over an
  arbitrary linearly ordered field `K` (hence ℚ and ℝ at once) and speaks of squared distances; the statements
  about the Euclidean distance itself are over ℝ with `Real.sqrt`.  `a, v` = start point and vector of a segment,
  a point of the segment is `a + s·v` with `0 ≤ s ≤ 1`.
-/
import PW.Model.Nearest
import PW.Lemmas.Vec
import PW.Lemmas.Nearest
import PW.Gen.C07Nearest
import Mathlib.Tactic.Ring
import Mathlib.Tactic.LinearCombination
import Mathlib.Tactic.Linarith
import Mathlib.Algebra.Order.Field.Basic
import Mathlib.Analysis.Real.Sqrt

set_option linter.unusedSectionVars false

namespace PW.C07

open PW.Nearest

section field
variable {K : Type} [Field K] [LinearOrder K] [IsStrictOrderedRing K]

/-! ## closest_point_of_line_segment -/

/-- the clamped parameter lies in `[0,1]` and the result is `start + t·vector` (a point of the segment) -/
theorem closest_t_range (q a v : V3 K) :
    0 ≤ closestT q a v ∧ closestT q a v ≤ 1 ∧ closestPoint q a v = a + V3.smul (closestT q a v) v :=
  ⟨(clampedRatio_mem _ _).1, (clampedRatio_mem _ _).2, rfl⟩

/-- the `t` value is what the documentation says: `clamp((q−a)·v / v·v)` for a proper segment -/
theorem closest_t_formula (q a v : V3 K) (hv : v.dot v ≠ 0) :
    closestT q a v = max 0 (min 1 ((q - a).dot v / v.dot v)) := by
  have hpos : 0 < v.dot v := lt_of_le_of_ne (dot_self_nonneg v) (Ne.symm hv)
  unfold closestT
  rw [clampedRatio_pos hpos]
  unfold clip01
  split_ifs with h1 h2
  · rw [min_eq_right (le_of_lt (lt_trans h1 zero_lt_one)), max_eq_left (le_of_lt h1)]
  · rw [min_eq_left (le_of_lt h2), max_eq_right zero_le_one]
  · rw [min_eq_right (not_lt.mp h2), max_eq_right (not_lt.mp h1)]

/-- zero-length segment (`nan_to_num(0/0) = 0`): `t = 0` and the closest point is the start point -/
theorem closest_zero_length (q a : V3 K) :
    closestT q a ⟨0, 0, 0⟩ = 0 ∧ closestPoint q a ⟨0, 0, 0⟩ = a := by
  have ht : closestT q a (⟨0, 0, 0⟩ : V3 K) = 0 := by
    unfold closestT
    have h1 : (⟨0, 0, 0⟩ : V3 K).dot ⟨0, 0, 0⟩ = 0 := by simp [V3.dot_def]
    have h2 : (q - a).dot (⟨0, 0, 0⟩ : V3 K) = 0 := by simp [V3.dot_def]
    rw [h1, h2, clampedRatio_zero_den]
    simp
  refine ⟨ht, ?_⟩
  unfold closestPoint
  rw [ht]
  ext <;> simp

/-- **closest_on_segment_opt**: no point of the segment is closer to the query than the returned one
    (squared distances; every segment, zero-length included) -/
theorem closest_on_segment_opt (q a v : V3 K) (s : K) (hs0 : 0 ≤ s) (hs1 : s ≤ 1) :
    (closestPoint q a v - q).normSq ≤ ((a + V3.smul s v) - q).normSq := by
  unfold closestPoint
  rw [normSq_param, normSq_param]
  have h0 : v.dot v = 0 → (q - a).dot v = 0 := by
    intro h
    obtain ⟨hx, hy, hz⟩ := dot_self_eq_zero h
    simp [V3.dot_def, hx, hy, hz]
  have := quad_min (dot_self_nonneg v) h0 hs0 hs1
  unfold closestT
  linarith

/-- the pairwise (stacked) function is the single one row by row, and it rejects unequal row counts -/
theorem closest_pairwise (qs as vs : List (V3 K)) :
    (as.length = qs.length ∧ vs.length = qs.length →
      ∃ l, closestPointsOfLineSegments qs as vs = .ok l ∧ l.length = qs.length ∧
        ∀ i (h : i < qs.length) (ha : i < as.length) (hv : i < vs.length),
          l[i]? = some (closestPoint qs[i] as[i] vs[i], closestT qs[i] as[i] vs[i])) ∧
    (¬ (as.length = qs.length ∧ vs.length = qs.length) →
      closestPointsOfLineSegments qs as vs = .error .ValueError) := by
  unfold closestPointsOfLineSegments
  constructor
  · intro h
    rw [if_pos h]
    refine ⟨_, rfl, ?_, ?_⟩
    · rw [List.length_map, zip3_length, h.1, h.2]; simp
    · intro i hi ha hv
      rw [List.getElem?_map, zip3_getElem?]
      simp [List.getElem?_eq_getElem hi, List.getElem?_eq_getElem ha, List.getElem?_eq_getElem hv]
  · intro h
    rw [if_neg h]

/-! ## is_point_on_line_segment -/

/-- **is_on_segment_iff**: the test is true exactly when some point of the segment is within `ε` of the query
    (squared: `≤ ε²`), for every segment including zero-length ones -/
theorem is_on_segment_iff (q a v : V3 K) (eps : K) :
    isPointOnLineSegment q a v eps = true ↔
      ∃ s, 0 ≤ s ∧ s ≤ 1 ∧ ((a + V3.smul s v) - q).normSq ≤ eps * eps := by
  unfold isPointOnLineSegment
  rw [decide_eq_true_iff]
  constructor
  · intro h
    exact ⟨closestT q a v, (closest_t_range q a v).1, (closest_t_range q a v).2.1, h⟩
  · rintro ⟨s, hs0, hs1, h⟩
    exact le_trans (closest_on_segment_opt q a v s hs0 hs1) h

/-- zero-length segment: the test is "the query is within `ε` of the start point" -/
theorem is_on_segment_zero_length (q a : V3 K) (eps : K) :
    isPointOnLineSegment q a ⟨0, 0, 0⟩ eps = true ↔ (a - q).normSq ≤ eps * eps := by
  unfold isPointOnLineSegment
  rw [decide_eq_true_iff, (closest_zero_length q a).2]

theorem is_on_segment_pairwise (qs as vs : List (V3 K)) (eps : K)
    (h : as.length = qs.length ∧ vs.length = qs.length) :
    ∃ l, arePointsOnLineSegments qs as vs eps = .ok l ∧ l.length = qs.length ∧
      ∀ i (hi : i < qs.length) (ha : i < as.length) (hv : i < vs.length),
        l[i]? = some (isPointOnLineSegment qs[i] as[i] vs[i] eps) := by
  unfold arePointsOnLineSegments
  rw [if_pos h]
  refine ⟨_, rfl, ?_, ?_⟩
  · rw [List.length_map, zip3_length, h.1, h.2]; simp
  · intro i hi ha hv
    rw [List.getElem?_map, zip3_getElem?]
    simp [List.getElem?_eq_getElem hi, List.getElem?_eq_getElem ha, List.getElem?_eq_getElem hv]

/-! ## Polyline.nearest, one query point -/

/-- the candidate row of a segment -/
theorem cand_def (f : K → K) (q : V3 K) (s : V3 K × V3 K) :
    (cand f q s).point = closestPoint q s.1 (s.2 - s.1) ∧ (cand f q s).t = closestT q s.1 (s.2 - s.1) ∧
    (cand f q s).dist = f (((cand f q s).point - q).normSq) := ⟨rfl, rfl, rfl⟩

/-- **consistency of the outputs** (any distance function `f`): the reported index is a valid segment index,
    `point = start of that segment + t × its vector` with `0 ≤ t ≤ 1`, `distance = f(|point − query|²)` -/
theorem nearest_consistent (f : K → K) (q : V3 K) (s : V3 K × V3 K) (ss : List (V3 K × V3 K)) :
    ∃ sg, (s :: ss)[(hit f q s ss).index]? = some sg ∧
      (hit f q s ss).point = sg.1 + V3.smul (hit f q s ss).t (sg.2 - sg.1) ∧
      0 ≤ (hit f q s ss).t ∧ (hit f q s ss).t ≤ 1 ∧
      (hit f q s ss).t = closestT q sg.1 (sg.2 - sg.1) ∧
      (hit f q s ss).dist = f (((hit f q s ss).point - q).normSq) := by
  have h := (pickFrom_first_min (cand f q s) (ss.map (cand f q))).1
  rw [← List.map_cons, List.getElem?_map] at h
  obtain ⟨sg, hsg, hc⟩ := Option.map_eq_some_iff.mp h
  refine ⟨sg, hsg, ?_⟩
  simp only [hit]
  rw [← hc]
  exact ⟨rfl, (closest_t_range _ _ _).1, (closest_t_range _ _ _).2.1, rfl, rfl⟩

/-- the compared distance of the reported segment is minimal among all segments' candidates, and **strictly**
    smaller than that of every earlier segment (NumPy's first-minimal-index rule) -/
theorem nearest_first_minimal (f : K → K) (q : V3 K) (s : V3 K × V3 K) (ss : List (V3 K × V3 K)) :
    (∀ sg ∈ s :: ss, (hit f q s ss).dist ≤ (cand f q sg).dist) ∧
    (∀ k sg, k < (hit f q s ss).index → (s :: ss)[k]? = some sg → (hit f q s ss).dist < (cand f q sg).dist) := by
  obtain ⟨_, h2, h3⟩ := pickFrom_first_min (cand f q s) (ss.map (cand f q))
  rw [← List.map_cons] at h2 h3
  constructor
  · intro sg hsg
    exact h2 _ (List.mem_map_of_mem hsg)
  · intro k sg hk hsg
    apply h3 k _ hk
    rw [List.getElem?_map, hsg]; rfl

/-- optimality for a monotone distance function: the reported distance is `≤ f(|x − q|²)` for every point `x`
    of every segment -/
theorem nearest_opt_of_mono (f : K → K) (hf : ∀ x y, 0 ≤ x → x ≤ y → f x ≤ f y)
    (q : V3 K) (s : V3 K × V3 K) (ss : List (V3 K × V3 K))
    (sg : V3 K × V3 K) (hsg : sg ∈ s :: ss) (u : K) (hu0 : 0 ≤ u) (hu1 : u ≤ 1) :
    (hit f q s ss).dist ≤ f (((sg.1 + V3.smul u (sg.2 - sg.1)) - q).normSq) := by
  refine le_trans ((nearest_first_minimal f q s ss).1 sg hsg) ?_
  apply hf
  · exact dot_self_nonneg _
  · exact closest_on_segment_opt q sg.1 (sg.2 - sg.1) u hu0 hu1

/-- **nearest optimality over K** (squared distances, `f = id`): the squared distance from the query to the
    returned point is minimal over all points of all segments -/
theorem C07_nearest_opt_sq (q : V3 K) (s : V3 K × V3 K) (ss : List (V3 K × V3 K))
    (sg : V3 K × V3 K) (hsg : sg ∈ s :: ss) (u : K) (hu0 : 0 ≤ u) (hu1 : u ≤ 1) :
    ((hit id q s ss).point - q).normSq ≤ ((sg.1 + V3.smul u (sg.2 - sg.1)) - q).normSq := by
  obtain ⟨_, _, _, _, _, _, hd⟩ := nearest_consistent id q s ss
  have := nearest_opt_of_mono id (fun _ _ _ h => h) q s ss sg hsg u hu0 hu1
  rw [hd] at this
  exact this

/-- a polyline without a segment: `np.argmin` of an empty axis, ValueError (for every query, even an empty stack);
    with at least one segment `nearest` returns -/
theorem nearest_error_iff (f : K → K) (pl : Polyline K) (q : Query K) (si sd st : Bool) :
    (pl.segments = [] → nearestWith f pl q si sd st = .error .ValueError) ∧
    (pl.segments ≠ [] → ∃ r, nearestWith f pl q si sd st = .ok r) := by
  unfold nearestWith
  constructor
  · intro h; rw [h]
  · intro h
    match hs : pl.segments with
    | [] => exact absurd hs h
    | s :: ss => exact ⟨_, rfl⟩

/-! ## stacked = map, and the optional outputs -/

/-- **stacked = map**: on a stack of queries every returned array is the `map` of the single-query result, in
    query order; a single query is the one-row stack with `transform_result` picking row 0 -/
theorem nearest_stacked_map (f : K → K) (pl : Polyline K) (s : V3 K × V3 K) (ss : List (V3 K × V3 K))
    (hs : pl.segments = s :: ss) (qs : List (V3 K)) (si sd st : Bool) :
    ∃ r, nearestWith f pl (.many qs) si sd st = .ok r ∧ r.single = false ∧
      r.points = qs.map (fun q => (hit f q s ss).point) ∧
      (∀ l, r.indices = some l → l = qs.map (fun q => (hit f q s ss).index)) ∧
      (∀ l, r.dists = some l → l = qs.map (fun q => (hit f q s ss).dist)) ∧
      (∀ l, r.ts = some l → l = qs.map (fun q => (hit f q s ss).t)) := by
  unfold nearestWith
  rw [hs]
  refine ⟨_, rfl, ?_⟩
  unfold assemble Query.toList Query.single
  split_ifs <;> simp [List.map_map, Function.comp_def]

theorem nearest_single_eq_stack_of_one (f : K → K) (pl : Polyline K) (q : V3 K) (si sd st : Bool) :
    (nearestWith f pl (.one q) si sd st).map (fun r => (r.tuple, r.points, r.indices, r.dists, r.ts)) =
    (nearestWith f pl (.many [q]) si sd st).map (fun r => (r.tuple, r.points, r.indices, r.dists, r.ts)) ∧
    ∀ r, nearestWith f pl (.one q) si sd st = .ok r → r.single = true ∧ r.points.length = 1 := by
  unfold nearestWith
  cases pl.segments with
  | nil => exact ⟨rfl, by intro r h; cases h⟩
  | cons s ss =>
    refine ⟨?_, ?_⟩
    · simp only [Except.map, assemble, Query.toList]
      split_ifs <;> rfl
    · intro r h
      injection h with h
      subst h
      simp only [assemble, Query.toList, Query.single]
      split_ifs <;> simp

/-- the full clause "every optional output that is requested is returned" — **false of the code** (see the witness) -/
def C07_outputs_statement (K : Type) [Add K] [Sub K] [Mul K] [Div K] [Neg K] [OfNat K 0] [OfNat K 1]
    [LT K] [LE K] [DecidableLT K] [DecidableLE K] (f : K → K) : Prop :=
  ∀ (pl : Polyline K) (q : Query K) (si sd st : Bool) (r : Ret K), nearestWith f pl q si sd st = .ok r →
    (si = true → r.indices.isSome) ∧ (sd = true → r.dists.isSome) ∧ (st = true → r.ts.isSome)

/-- **C07_outputs_partial**: for every flag combination except `ret_t_values` alone, exactly the requested
    optional outputs are returned (and nothing that was not requested) -/
theorem C07_outputs_partial (f : K → K) (pl : Polyline K) (q : Query K) (si sd st : Bool) (r : Ret K)
    (hr : nearestWith f pl q si sd st = .ok r) (hflags : ¬ (st = true ∧ si = false ∧ sd = false)) :
    r.indices.isSome = si ∧ r.dists.isSome = sd ∧ r.ts.isSome = st ∧ r.tuple = (si || sd || st) := by
  unfold nearestWith at hr
  cases hseg : pl.segments with
  | nil => rw [hseg] at hr; cases hr
  | cons s ss =>
    rw [hseg] at hr
    injection hr with hr
    subst hr
    cases si <;> cases sd <;> cases st <;> simp_all [assemble, tupleCond]

/-- the excluded combination really is the `else` branch: only the points come back -/
theorem C07_outputs_t_only (f : K → K) (pl : Polyline K) (q : Query K) (r : Ret K)
    (hr : nearestWith f pl q false false true = .ok r) :
    r.tuple = false ∧ r.indices = none ∧ r.dists = none ∧ r.ts = none := by
  unfold nearestWith at hr
  cases hseg : pl.segments with
  | nil => rw [hseg] at hr; cases hr
  | cons s ss =>
    rw [hseg] at hr
    injection hr with hr
    subst hr
    simp [assemble, tupleCond]

end field



/-! ## sub-path selection (partial — see the summary at the end of this section)

`Na` / `Nb` are the points nearest `a` / `b`.  The hypotheses say which segment they fall on **directly**
(`ha.index`, and `hb.index` on the *working* polyline that already contains `Na`); that a non-self-touching
polyline makes these the geometrically expected segments is not formalised. -/

section subpath
variable {K : Type} [Field K] [LinearOrder K] [IsStrictOrderedRing K]

/-- `index_of_vertex`: the answer is the lowest index whose vertex is within `atol` of the point in every
    coordinate; ValueError exactly when there is none -/
theorem index_of_vertex_spec (vs : List (V3 K)) (p : V3 K) (atol : K) :
    (∀ i, indexOfVertex vs p atol = .ok i ↔
      ∃ h : i < vs.length, (|vs[i].x - p.x| ≤ atol ∧ |vs[i].y - p.y| ≤ atol ∧ |vs[i].z - p.z| ≤ atol) ∧
        ∀ j (hj : j < i), ¬ (|vs[j].x - p.x| ≤ atol ∧ |vs[j].y - p.y| ≤ atol ∧ |vs[j].z - p.z| ≤ atol)) ∧
    (indexOfVertex vs p atol = .error .ValueError ↔
      ∀ v ∈ vs, ¬ (|v.x - p.x| ≤ atol ∧ |v.y - p.y| ≤ atol ∧ |v.z - p.z| ≤ atol)) := by
  have hclose : ∀ x : K, closeToZero x atol = true ↔ |x| ≤ atol := by
    intro x
    unfold closeToZero
    split_ifs with h
    · rw [decide_eq_true_iff, abs_of_neg h]
    · rw [decide_eq_true_iff, abs_of_nonneg (not_lt.mp h)]
  have hm : ∀ v : V3 K, vertexMatches p atol v = true ↔
      (|v.x - p.x| ≤ atol ∧ |v.y - p.y| ≤ atol ∧ |v.z - p.z| ≤ atol) := by
    intro v
    unfold vertexMatches
    rw [Bool.and_eq_true, Bool.and_eq_true, hclose, hclose, hclose, and_assoc]
  unfold indexOfVertex
  constructor
  · intro i
    cases hf : vs.findIdx? (vertexMatches p atol) with
    | none =>
      constructor
      · intro h; cases h
      · rintro ⟨hi, h1, _⟩
        have := List.findIdx?_eq_none_iff.mp hf vs[i] (List.getElem_mem hi)
        rw [(hm _).mpr h1] at this
        cases this
    | some k =>
      obtain ⟨hk, hk1, hk2⟩ := List.findIdx?_eq_some_iff_getElem.mp hf
      constructor
      · intro h
        injection h with h
        subst h
        exact ⟨hk, (hm _).mp hk1, fun j hj hmj => hk2 j hj ((hm _).mpr hmj)⟩
      · rintro ⟨hi, h1, h2⟩
        rcases Nat.lt_trichotomy k i with hlt | heq | hgt
        · exact absurd ((hm _).mp hk1) (h2 k hlt)
        · rw [heq]
        · exact absurd ((hm _).mpr h1) (hk2 i hgt)
  · cases hf : vs.findIdx? (vertexMatches p atol) with
    | none =>
      simp only [true_iff]
      intro v hv hmv
      have := List.findIdx?_eq_none_iff.mp hf v hv
      rw [(hm _).mpr hmv] at this
      cases this
    | some k =>
      obtain ⟨hk, hk1, _⟩ := List.findIdx?_eq_some_iff_getElem.mp hf
      constructor
      · intro h; cases h
      · intro h
        exact absurd ((hm _).mp hk1) (h _ (List.getElem_mem hk))

/-- `sliced_at_indices`: `[start, stop)` in order; on a closed polyline `stop ≤ start` wraps around the end;
    on an open one it is a ValueError; the result is always open -/
theorem sliced_at_indices_spec (pl : Polyline K) (start stop : Nat) :
    (start < stop → slicedAtIndices pl start stop = .ok ⟨(pl.v.drop start).take (stop - start), false⟩) ∧
    (stop ≤ start → pl.closed = false → slicedAtIndices pl start stop = .error .ValueError) ∧
    (stop ≤ start → pl.closed = true → start < pl.v.length →
      slicedAtIndices pl start stop = .ok ⟨pl.v.drop start ++ pl.v.take stop, false⟩) := by
  obtain ⟨v, c⟩ := pl
  refine ⟨slicedAtIndices_lt v c start stop, ?_, ?_⟩
  · intro h hc
    simp only at hc
    subst hc
    exact slicedAtIndices_open_le v start stop h
  · intro h hc hlt
    simp only at hc
    subst hc
    exact slicedAtIndices_wrap v start stop h hlt

/-- the reported segment index of one query is a valid segment index -/
theorem nearest_index_lt (f : K → K) (pl : Polyline K) (q : V3 K) (h : Hit K)
    (hn : nearestOne f pl q = .ok h) : h.index < pl.numE := by
  unfold nearestOne at hn
  cases hs : pl.segments with
  | nil => rw [hs] at hn; cases hn
  | cons s ss =>
    rw [hs] at hn
    injection hn with hn
    subst hn
    obtain ⟨sg, h1, _⟩ := nearest_consistent f q s ss
    rw [← segments_length, hs]
    exact (List.getElem?_eq_some_iff.mp h1).1

/-- both nearest points are (within `atol` of) existing vertices: no insertion, plain index slice -/
theorem sliced_at_points_at_vertices (f : K → K) (pl : Polyline K) (a b : V3 K) (atol : K) (ha hb : Hit K)
    (ia ib : Nat) (hna : nearestOne f pl a = .ok ha) (hva : indexOfVertex pl.v ha.point atol = .ok ia)
    (hnb : nearestOne f pl b = .ok hb) (hvb : indexOfVertex pl.v hb.point atol = .ok ib) :
    slicedAtPointsWith f pl a b atol = slicedAtIndices pl ia (ib + 1) := by
  unfold slicedAtPointsWith withNearestVertex
  simp [hna, hva, hnb, hvb]

/-- neither nearest point is a vertex: both are inserted (`Na` first, `Nb` into the working polyline that
    already contains `Na`; `Na`'s index is shifted when `Nb` lands at or before it) and the slice runs from `Na`
    to `Nb` inclusive -/
theorem sliced_at_points_unfold (f : K → K) (pl : Polyline K) (a b : V3 K) (atol : K) (ha hb : Hit K)
    (hna : nearestOne f pl a = .ok ha) (hva : indexOfVertex pl.v ha.point atol = .error .ValueError)
    (hnb : nearestOne f ⟨insertBefore pl.v (edgeEnd pl ha.index) ha.point, pl.closed⟩ b = .ok hb)
    (hvb : indexOfVertex (insertBefore pl.v (edgeEnd pl ha.index) ha.point) hb.point atol = .error .ValueError) :
    slicedAtPointsWith f pl a b atol =
      slicedAtIndices
        ⟨insertBefore (insertBefore pl.v (edgeEnd pl ha.index) ha.point)
          (edgeEnd ⟨insertBefore pl.v (edgeEnd pl ha.index) ha.point, pl.closed⟩ hb.index) hb.point, pl.closed⟩
        (if edgeEnd ⟨insertBefore pl.v (edgeEnd pl ha.index) ha.point, pl.closed⟩ hb.index ≤ edgeEnd pl ha.index
          then edgeEnd pl ha.index + 1 else edgeEnd pl ha.index)
        (edgeEnd ⟨insertBefore pl.v (edgeEnd pl ha.index) ha.point, pl.closed⟩ hb.index + 1) := by
  unfold slicedAtPointsWith withNearestVertex
  simp [hna, hva, hnb, hvb]

/-- **forward** (open or closed, no closing edge involved).  Vertices `p ++ m ++ s`, `s ≠ []`; `Na` on the segment
    leaving the last vertex of `p`, `Nb` (on the working polyline) on the segment leaving the last vertex of `m`
    (or leaving `Na` when `m = []`): the result is the open polyline `Na, m, Nb` — the two inserted points with
    exactly the vertices strictly between them. -/
theorem sliced_at_points_forward (f : K → K) (pl : Polyline K) (a b : V3 K) (atol : K) (ha hb : Hit K)
    (p m s : List (V3 K)) (hv : pl.v = p ++ m ++ s) (hs : s ≠ [])
    (hia : ha.index + 1 = p.length) (hib : hb.index = p.length + m.length)
    (hna : nearestOne f pl a = .ok ha) (hva : indexOfVertex pl.v ha.point atol = .error .ValueError)
    (hnb : nearestOne f ⟨insertBefore pl.v (edgeEnd pl ha.index) ha.point, pl.closed⟩ b = .ok hb)
    (hvb : indexOfVertex (insertBefore pl.v (edgeEnd pl ha.index) ha.point) hb.point atol = .error .ValueError) :
    slicedAtPointsWith f pl a b atol = .ok ⟨ha.point :: m ++ [hb.point], false⟩ := by
  have hsl : 0 < s.length := List.length_pos_iff.mpr hs
  rw [sliced_at_points_unfold f pl a b atol ha hb hna hva hnb hvb]
  obtain ⟨v, c⟩ := pl
  simp only at hv ⊢
  subst hv
  have e1 : edgeEnd ⟨p ++ m ++ s, c⟩ ha.index = p.length := by
    rw [edgeEnd_inner _ _ _ (Or.inr (by simp only [List.length_append]; omega)), hia]
  rw [e1]
  have e2 : edgeEnd ⟨insertBefore (p ++ m ++ s) p.length ha.point, c⟩ hb.index = p.length + 1 + m.length := by
    rw [edgeEnd_inner _ _ _ (Or.inr (by simp [insertBefore]; omega)), hib]; omega
  rw [e2, if_neg (by omega), slicedAtIndices_lt _ _ _ _ (by omega)]
  exact congrArg (fun l => Except.ok (⟨l, false⟩ : Polyline K)) (slice_forward p m s ha.point hb.point)

/-- **backward on an open polyline**: `Nb` falls before `Na` (same configuration with the roles exchanged, including
    both on one segment with `Nb` first): `sliced_at_indices` raises ValueError -/
theorem sliced_at_points_backward_open (f : K → K) (pl : Polyline K) (a b : V3 K) (atol : K) (ha hb : Hit K)
    (p m s : List (V3 K)) (hv : pl.v = p ++ m ++ s) (hopen : pl.closed = false)
    (hia : ha.index + 1 = p.length + m.length) (hib : hb.index + 1 = p.length)
    (hna : nearestOne f pl a = .ok ha) (hva : indexOfVertex pl.v ha.point atol = .error .ValueError)
    (hnb : nearestOne f ⟨insertBefore pl.v (edgeEnd pl ha.index) ha.point, pl.closed⟩ b = .ok hb)
    (hvb : indexOfVertex (insertBefore pl.v (edgeEnd pl ha.index) ha.point) hb.point atol = .error .ValueError) :
    slicedAtPointsWith f pl a b atol = .error .ValueError := by
  rw [sliced_at_points_unfold f pl a b atol ha hb hna hva hnb hvb]
  obtain ⟨v, c⟩ := pl
  simp only at hv hopen ⊢
  subst hv hopen
  rw [edgeEnd_inner _ _ _ (Or.inl rfl), edgeEnd_inner _ _ _ (Or.inl rfl), hia, hib, if_pos (by omega)]
  exact slicedAtIndices_open_le _ _ _ (by omega)

/-- **backward on a closed polyline** (wrapping, no closing edge involved).  Vertices `p ++ m ++ s`, `s ≠ []`; `Na`
    on the segment leaving the last vertex of `p ++ m`, `Nb` on the segment leaving the last vertex of `p`: the
    result runs from `Na` over `s`, wraps to `p` and ends at `Nb`. -/
theorem sliced_at_points_wrap (f : K → K) (pl : Polyline K) (a b : V3 K) (atol : K) (ha hb : Hit K)
    (p m s : List (V3 K)) (hv : pl.v = p ++ m ++ s) (hs : s ≠ []) (hclosed : pl.closed = true)
    (hia : ha.index + 1 = p.length + m.length) (hib : hb.index + 1 = p.length)
    (hna : nearestOne f pl a = .ok ha) (hva : indexOfVertex pl.v ha.point atol = .error .ValueError)
    (hnb : nearestOne f ⟨insertBefore pl.v (edgeEnd pl ha.index) ha.point, pl.closed⟩ b = .ok hb)
    (hvb : indexOfVertex (insertBefore pl.v (edgeEnd pl ha.index) ha.point) hb.point atol = .error .ValueError) :
    slicedAtPointsWith f pl a b atol = .ok ⟨ha.point :: s ++ p ++ [hb.point], false⟩ := by
  have hsl : 0 < s.length := List.length_pos_iff.mpr hs
  rw [sliced_at_points_unfold f pl a b atol ha hb hna hva hnb hvb]
  obtain ⟨v, c⟩ := pl
  simp only at hv hclosed ⊢
  subst hv hclosed
  have e1 : edgeEnd ⟨p ++ m ++ s, true⟩ ha.index = p.length + m.length := by
    rw [edgeEnd_inner _ _ _ (Or.inr (by simp only [List.length_append]; omega)), hia]
  rw [e1]
  have e2 : edgeEnd ⟨insertBefore (p ++ m ++ s) (p.length + m.length) ha.point, true⟩ hb.index = p.length := by
    rw [edgeEnd_inner _ _ _ (Or.inr (by simp [insertBefore]; omega)), hib]
  rw [e2, if_pos (by omega), slice_backward]
  rw [slicedAtIndices_wrap _ _ _ (by omega) (by simp; omega)]
  have h1 : p ++ hb.point :: m ++ ha.point :: s = (p ++ hb.point :: m) ++ (ha.point :: s) := by simp
  have h2 : p ++ hb.point :: m ++ ha.point :: s = (p ++ [hb.point]) ++ (m ++ ha.point :: s) := by simp
  conv_lhs => rw [h1, List.drop_left' (by simp; omega)]
  rw [h2, List.take_left' (by simp)]
  simp

/-- **`Na` on the closing edge** of a closed polyline (it becomes vertex 0 of the working polyline).  Vertices
    `m ++ s`, `s ≠ []`, `Nb` on the segment leaving the last vertex of `m` (leaving `Na` when `m = []`): the result
    is `Na, m, Nb` — the path wraps through the first vertices. -/
theorem sliced_at_points_from_closing_edge (f : K → K) (pl : Polyline K) (a b : V3 K) (atol : K) (ha hb : Hit K)
    (m s : List (V3 K)) (hv : pl.v = m ++ s) (hs : s ≠ []) (hclosed : pl.closed = true)
    (hia : ha.index + 1 = pl.v.length) (hib : hb.index = m.length)
    (hna : nearestOne f pl a = .ok ha) (hva : indexOfVertex pl.v ha.point atol = .error .ValueError)
    (hnb : nearestOne f ⟨insertBefore pl.v (edgeEnd pl ha.index) ha.point, pl.closed⟩ b = .ok hb)
    (hvb : indexOfVertex (insertBefore pl.v (edgeEnd pl ha.index) ha.point) hb.point atol = .error .ValueError) :
    slicedAtPointsWith f pl a b atol = .ok ⟨ha.point :: m ++ [hb.point], false⟩ := by
  have hsl : 0 < s.length := List.length_pos_iff.mpr hs
  rw [sliced_at_points_unfold f pl a b atol ha hb hna hva hnb hvb]
  obtain ⟨v, c⟩ := pl
  simp only at hv hclosed hia ⊢
  subst hv hclosed
  rw [edgeEnd_closing _ _ hia, insertBefore_zero]
  have e2 : edgeEnd ⟨ha.point :: (m ++ s), true⟩ hb.index = m.length + 1 := by
    rw [edgeEnd_inner _ _ _ (Or.inr (by simp; omega)), hib]
  rw [e2, if_neg (by omega), slicedAtIndices_lt _ _ _ _ (by omega)]
  have h1 : ha.point :: (m ++ s) = (ha.point :: m) ++ s := by simp
  have h2 : (ha.point :: m).length = m.length + 1 := by simp
  rw [h1, ← h2, insertBefore_append]
  have h3 : (ha.point :: m) ++ hb.point :: s = (ha.point :: m ++ [hb.point]) ++ s := by simp
  simp only [List.drop_zero]
  rw [h3, List.take_left' (by simp)]

/-- **`Nb` on the closing edge** of the working polyline (`Na` on an inner segment).  Vertices `p ++ s`, `s ≠ []`,
    `Na` on the segment leaving the last vertex of `p`: the result is `Na, s, Nb`. -/
theorem sliced_at_points_to_closing_edge (f : K → K) (pl : Polyline K) (a b : V3 K) (atol : K) (ha hb : Hit K)
    (p s : List (V3 K)) (hv : pl.v = p ++ s) (hs : s ≠ []) (hclosed : pl.closed = true)
    (hia : ha.index + 1 = p.length) (hib : hb.index = pl.v.length)
    (hna : nearestOne f pl a = .ok ha) (hva : indexOfVertex pl.v ha.point atol = .error .ValueError)
    (hnb : nearestOne f ⟨insertBefore pl.v (edgeEnd pl ha.index) ha.point, pl.closed⟩ b = .ok hb)
    (hvb : indexOfVertex (insertBefore pl.v (edgeEnd pl ha.index) ha.point) hb.point atol = .error .ValueError) :
    slicedAtPointsWith f pl a b atol = .ok ⟨ha.point :: s ++ [hb.point], false⟩ := by
  have hsl : 0 < s.length := List.length_pos_iff.mpr hs
  rw [sliced_at_points_unfold f pl a b atol ha hb hna hva hnb hvb]
  obtain ⟨v, c⟩ := pl
  simp only at hv hclosed hib ⊢
  subst hv hclosed
  have e1 : edgeEnd ⟨p ++ s, true⟩ ha.index = p.length := by
    rw [edgeEnd_inner _ _ _ (Or.inr (by simp only [List.length_append]; omega)), hia]
  rw [e1]
  have e2 : edgeEnd ⟨insertBefore (p ++ s) p.length ha.point, true⟩ hb.index = 0 := by
    apply edgeEnd_closing
    rw [insertBefore_append, hib]; simp only [List.length_append, List.length_cons]; omega
  rw [e2, if_pos (by omega), insertBefore_zero, insertBefore_append]
  rw [slicedAtIndices_wrap _ _ _ (by omega) (by simp)]
  have h1 : hb.point :: (p ++ ha.point :: s) = (hb.point :: p) ++ (ha.point :: s) := by simp
  conv_lhs => rw [h1, List.drop_left' (by simp)]
  simp

/-- **both on the closing edge, `Nb` before `Na`**: once all the way round, `Na, every vertex, Nb` -/
theorem sliced_at_points_closing_edge_full_turn (f : K → K) (pl : Polyline K) (a b : V3 K) (atol : K) (ha hb : Hit K)
    (hclosed : pl.closed = true)
    (hia : ha.index + 1 = pl.v.length) (hib : hb.index = pl.v.length)
    (hna : nearestOne f pl a = .ok ha) (hva : indexOfVertex pl.v ha.point atol = .error .ValueError)
    (hnb : nearestOne f ⟨insertBefore pl.v (edgeEnd pl ha.index) ha.point, pl.closed⟩ b = .ok hb)
    (hvb : indexOfVertex (insertBefore pl.v (edgeEnd pl ha.index) ha.point) hb.point atol = .error .ValueError) :
    slicedAtPointsWith f pl a b atol = .ok ⟨ha.point :: pl.v ++ [hb.point], false⟩ := by
  rw [sliced_at_points_unfold f pl a b atol ha hb hna hva hnb hvb]
  obtain ⟨v, c⟩ := pl
  simp only at hclosed hia hib ⊢
  subst hclosed
  rw [edgeEnd_closing _ _ hia, insertBefore_zero]
  have e2 : edgeEnd ⟨ha.point :: v, true⟩ hb.index = 0 := by
    apply edgeEnd_closing
    simp [hib]
  rw [e2, if_pos (le_refl _), insertBefore_zero]
  rw [slicedAtIndices_wrap _ _ _ (by omega) (by simp)]
  simp

/-! ### cutting a segment does not move nearest points -/

/-- **split_preserves_nearest**: cutting the segment `x y` of a polyline at a point `x + s (y − x)` on it changes
    no nearest *point* and no nearest distance, and shifts the first-minimal segment index predictably: unchanged
    before the cut segment, one of the two halves on it, `+ 1` after it.  (`f` = the distance function the arg-min
    compares, any order-embedding of the non-negative numbers: `id`, `Real.sqrt`.) -/
theorem split_preserves_nearest (f : K → K) (hf : ∀ x y : K, 0 ≤ x → 0 ≤ y → (f x ≤ f y ↔ x ≤ y))
    (pl pl' : Polyline K) (pre post : List (V3 K × V3 K)) (x y : V3 K) (s : K) (hs0 : 0 ≤ s) (hs1 : s ≤ 1)
    (hseg : pl.segments = pre ++ (x, y) :: post)
    (hseg' : pl'.segments = pre ++ (x, x + V3.smul s (y - x)) :: (x + V3.smul s (y - x), y) :: post)
    (q : V3 K) (h h' : Hit K) (hn : nearestOne f pl q = .ok h) (hn' : nearestOne f pl' q = .ok h') :
    h'.point = h.point ∧ h'.dist = h.dist ∧
    (h.index < pre.length → h'.index = h.index ∧ h'.t = h.t) ∧
    (h.index = pre.length → h'.index = pre.length ∨ h'.index = pre.length + 1) ∧
    (pre.length < h.index → h'.index = h.index + 1 ∧ h'.t = h.t) := by
  set P := x + V3.smul s (y - x) with hP
  have hfm := nearestOne_firstMin f pl q h hn
  rw [hseg, List.map_append, List.map_cons] at hfm
  have key : ∀ k c, FirstMin ((pre.map (cand f q)) ++ cand f q (x, P) :: cand f q (P, y) :: post.map (cand f q)) k c →
      h'.index = k ∧ h'.point = c.point ∧ h'.t = c.t ∧ h'.dist = c.dist := by
    intro k c hk
    apply nearestOne_of_firstMin f pl' q h' hn' k c
    rw [hseg', List.map_append, List.map_cons, List.map_cons]
    exact hk
  obtain ⟨le1, le2, hor⟩ := split_segment q x y s hs0 hs1
  obtain ⟨heq1, heq2⟩ := split_half_eq q x y s hs0 hs1
  rw [← hP] at le1 le2 hor heq1 heq2
  have nn : ∀ w : V3 K, 0 ≤ w.normSq := fun w => dot_self_nonneg w
  have h1 : (cand f q (x, y)).dist ≤ (cand f q (x, P)).dist := (hf _ _ (nn _) (nn _)).mpr le1
  have h2 : (cand f q (x, y)).dist ≤ (cand f q (P, y)).dist := (hf _ _ (nn _) (nn _)).mpr le2
  have p1 : (cand f q (x, P)).dist = (cand f q (x, y)).dist → (cand f q (x, P)).point = (cand f q (x, y)).point := by
    intro hd
    exact heq1 ((hf _ _ (nn _) (nn _)).mp (le_of_eq hd))
  have p2 : (cand f q (P, y)).dist = (cand f q (x, y)).dist → (cand f q (P, y)).point = (cand f q (x, y)).point := by
    intro hd
    exact heq2 ((hf _ _ (nn _) (nn _)).mp (le_of_eq hd))
  have h12 : (cand f q (x, P)).dist = (cand f q (x, y)).dist ∨ (cand f q (P, y)).dist = (cand f q (x, y)).dist := by
    rcases hor with h | h
    · left; show f _ = f _; rw [h]
    · right; show f _ = f _; rw [h]
  obtain ⟨s1, s2, s3, s4⟩ := hfm.split (pre.map (cand f q)) (post.map (cand f q)) (cand f q (x, y))
    (cand f q (x, P)) (cand f q (P, y)) h1 h2 h12
  rw [List.length_map] at s1 s2 s3 s4
  have hX : h.index = pre.length → (⟨h.point, h.t, h.dist⟩ : Cand K) = cand f q (x, y) := by
    intro he
    have g0 := (split_get_at (pre.map (cand f q)) (post.map (cand f q)) (cand f q (x, y)) (cand f q (x, P))
      (cand f q (P, y))).2.2
    rw [List.length_map, ← he] at g0
    exact Option.some.inj (hfm.1.symm.trans g0)
  rcases Nat.lt_trichotomy h.index pre.length with hlt | heq | hgt
  · obtain ⟨k1, k2, k3, k4⟩ := key _ _ (s1 hlt)
    exact ⟨k2, k4, fun _ => ⟨k1, k3⟩, fun he => absurd he (by omega), fun hg => absurd hg (by omega)⟩
  · have hc := hX heq
    have hcp : h.point = (cand f q (x, y)).point := congrArg Cand.point hc
    have hcd : h.dist = (cand f q (x, y)).dist := congrArg Cand.dist hc
    by_cases hd : (cand f q (x, P)).dist = (cand f q (x, y)).dist
    · obtain ⟨k1, k2, _, k4⟩ := key _ _ (s2 heq hd)
      refine ⟨by rw [k2, p1 hd, hcp], by rw [k4, hd, hcd], fun hl => absurd hl (by omega),
        fun _ => Or.inl (by rw [k1, heq]), fun hg => absurd hg (by omega)⟩
    · have hlt : (cand f q (x, y)).dist < (cand f q (x, P)).dist := lt_of_le_of_ne h1 (Ne.symm hd)
      have hd2 : (cand f q (P, y)).dist = (cand f q (x, y)).dist := by
        rcases h12 with h | h
        · exact absurd h hd
        · exact h
      obtain ⟨k1, k2, _, k4⟩ := key _ _ (s3 heq hlt)
      refine ⟨by rw [k2, p2 hd2, hcp], by rw [k4, hd2, hcd], fun hl => absurd hl (by omega),
        fun _ => Or.inr (by rw [k1, heq]), fun hg => absurd hg (by omega)⟩
  · obtain ⟨k1, k2, k3, k4⟩ := key _ _ (s4 hgt)
    exact ⟨k2, k4, fun hl => absurd hl (by omega), fun he => absurd he (by omega), fun _ => ⟨k1, k3⟩⟩

/-- the same for the vertex lists: a vertex inserted on the inner edge `x → y` at `x + s (y − x)` -/
theorem insert_preserves_nearest (f : K → K) (hf : ∀ x y : K, 0 ≤ x → 0 ≤ y → (f x ≤ f y ↔ x ≤ y))
    (p' s' : List (V3 K)) (x y : V3 K) (c : Bool) (s : K) (hs0 : 0 ≤ s) (hs1 : s ≤ 1)
    (q : V3 K) (h h' : Hit K) (hn : nearestOne f ⟨p' ++ x :: y :: s', c⟩ q = .ok h)
    (hn' : nearestOne f ⟨p' ++ x :: (x + V3.smul s (y - x)) :: y :: s', c⟩ q = .ok h') :
    h'.point = h.point ∧ h'.dist = h.dist ∧
    (h.index < p'.length → h'.index = h.index ∧ h'.t = h.t) ∧
    (h.index = p'.length → h'.index = p'.length ∨ h'.index = p'.length + 1) ∧
    (p'.length < h.index → h'.index = h.index + 1 ∧ h'.t = h.t) := by
  obtain ⟨pre, post, hl, h1, h2⟩ := segments_split_inner p' s' x y (x + V3.smul s (y - x)) c
  rw [← hl]
  exact split_preserves_nearest f hf _ _ pre post x y s hs0 hs1 h1 h2 q h h' hn hn'

/-- **forward, in terms of the original polyline** (inner edges): vertices `p' ++ [x] ++ m ++ s` with `m, s ≠ []`;
    the point nearest `a` lies on the edge leaving `x`, the point nearest `b` *on the original polyline* on the edge
    leaving the last vertex of `m`; neither is within `atol` of a vertex and `Nb` is not within `atol` of `Na`.
    Then `sliced_at_points(a, b) = Na, m, Nb`. -/
theorem sliced_at_points_forward_original (f : K → K) (hf : ∀ x y : K, 0 ≤ x → 0 ≤ y → (f x ≤ f y ↔ x ≤ y))
    (pl : Polyline K) (a b : V3 K) (atol : K) (ha hb : Hit K)
    (p' m s : List (V3 K)) (x : V3 K) (hv : pl.v = p' ++ [x] ++ m ++ s) (hm : m ≠ []) (hs : s ≠ [])
    (hna : nearestOne f pl a = .ok ha) (hia : ha.index = p'.length)
    (hnb : nearestOne f pl b = .ok hb) (hib : hb.index = p'.length + m.length)
    (hva : indexOfVertex pl.v ha.point atol = .error .ValueError)
    (hvb : indexOfVertex (insertBefore pl.v (p'.length + 1) ha.point) hb.point atol = .error .ValueError) :
    slicedAtPointsWith f pl a b atol = .ok ⟨ha.point :: m ++ [hb.point], false⟩ := by
  obtain ⟨v, c⟩ := pl
  simp only at hv hva hvb
  subst hv
  obtain ⟨y, m', rfl⟩ := List.exists_cons_of_ne_nil hm
  have hvv : p' ++ [x] ++ y :: m' ++ s = p' ++ x :: y :: (m' ++ s) := by simp
  -- the point nearest `a` is on the edge x → y
  obtain ⟨pre, post, hl, hs1, _⟩ := segments_split_inner p' (m' ++ s) x y x c
  rw [← hvv] at hs1
  have hAt : ∃ t, 0 ≤ t ∧ t ≤ 1 ∧ ha.point = x + V3.smul t (y - x) := by
    have hna' := hna
    unfold nearestOne at hna'
    cases hsg : (⟨p' ++ [x] ++ y :: m' ++ s, c⟩ : Polyline K).segments with
    | nil => rw [hsg] at hna'; cases hna'
    | cons s0 ss =>
      rw [hsg] at hna'
      injection hna' with hna'
      obtain ⟨sg, g1, g2, g3, g4, _, _⟩ := nearest_consistent f a s0 ss
      rw [hna', ← hsg, hs1, hia, ← hl, List.getElem?_append_right (le_refl _)] at g1
      simp at g1
      rw [hna'] at g2 g3 g4
      rw [← g1] at g2
      exact ⟨ha.t, g3, g4, g2⟩
  obtain ⟨t, ht0, ht1, hpt⟩ := hAt
  have eE : edgeEnd ⟨p' ++ [x] ++ y :: m' ++ s, c⟩ ha.index = p'.length + 1 := by
    rw [edgeEnd_inner _ _ _ (Or.inr (by simp; omega)), hia]
  have eW : insertBefore (p' ++ [x] ++ y :: m' ++ s) (p'.length + 1) ha.point
      = p' ++ x :: ha.point :: y :: (m' ++ s) := by
    have : p' ++ [x] ++ y :: m' ++ s = (p' ++ [x]) ++ (y :: (m' ++ s)) := by simp
    rw [this]
    have hl2 : p'.length + 1 = (p' ++ [x]).length := by simp
    rw [hl2, insertBefore_append]; simp
  -- the point nearest `b` on the working polyline
  have hex : ∃ hb', nearestOne f ⟨p' ++ x :: ha.point :: y :: (m' ++ s), c⟩ b = .ok hb' := by
    obtain ⟨pre2, post2, _, _, h2⟩ := segments_split_inner p' (m' ++ s) x y ha.point c
    unfold nearestOne
    rw [h2]
    cases pre2 <;> exact ⟨_, rfl⟩
  obtain ⟨hb', hnb'⟩ := hex
  have hnb0 : nearestOne f ⟨p' ++ x :: y :: (m' ++ s), c⟩ b = .ok hb := by rw [← hvv]; exact hnb
  have hnb1 := hnb'
  rw [hpt] at hnb1
  obtain ⟨q1, _, _, _, q5⟩ := insert_preserves_nearest f hf p' (m' ++ s) x y c t ht0 ht1 b hb hb' hnb0 hnb1
  have hidx : hb'.index = hb.index + 1 := (q5 (by rw [hib]; simp)).1
  have := sliced_at_points_forward f ⟨p' ++ [x] ++ y :: m' ++ s, c⟩ a b atol ha hb' (p' ++ [x]) (y :: m') s rfl hs
    (by simp [hia]) (by rw [hidx, hib]; simp; omega) hna hva
    (by rw [eE, eW]; exact hnb') (by rw [eE, q1]; exact hvb)
  rw [this, q1]

/-! ### aligned_along_subsegment -/

theorem flipped_flipped (pl : Polyline K) : flipped (flipped pl) = pl := by
  unfold flipped
  simp

/-- **open**: the polyline is flipped exactly when the position `(segment index, t)` of the point nearest `p2`
    is lexicographically before that of the point nearest `p1`; so in the returned orientation of the *same
    vertices* the sub-path is traversed from `p1`'s point to `p2`'s point -/
theorem aligned_open_spec [Sqrt K] (pl : Polyline K) (p1 p2 : V3 K) (atol : K) (h1 h2 : Hit K)
    (hopen : pl.closed = false) (hn1 : nearestOne sqrt pl p1 = .ok h1) (hn2 : nearestOne sqrt pl p2 = .ok h2) :
    alignedAlongSubsegment pl p1 p2 atol =
      .ok (if h2.index < h1.index ∨ (h2.index = h1.index ∧ h2.t < h1.t) then flipped pl else pl) := by
  unfold alignedAlongSubsegment
  rw [if_neg (by simp [hopen])]
  simp only [hn1, hn2]
  unfold flippedIf
  by_cases he : h1.index = h2.index
  · rw [if_pos he]
    by_cases ht : h2.t < h1.t
    · simp [he, ht]
    · simp [he, ht]
  · rw [if_neg he]
    by_cases hlt : h2.index < h1.index
    · simp [hlt]
    · have : ¬ (h2.index = h1.index) := fun h => he h.symm
      simp [hlt, this]

/-- **closed**: the polyline is flipped exactly when the sub-path from `p2`'s point to `p1`'s point is strictly
    shorter than the one from `p1`'s point to `p2`'s point (the comparison of the two `sliced_at_points` lengths;
    that these two sub-paths are the two ways round is the content of the `sliced_at_points_*` theorems) -/
theorem aligned_closed_spec [Sqrt K] (pl : Polyline K) (p1 p2 : V3 K) (atol : K) (s12 s21 : Polyline K)
    (hclosed : pl.closed = true) (h21 : slicedAtPoints pl p2 p1 atol = .ok s21)
    (h12 : slicedAtPoints pl p1 p2 atol = .ok s12) :
    alignedAlongSubsegment pl p1 p2 atol =
      .ok (if totalLength s21 < totalLength s12 then flipped pl else pl) := by
  unfold alignedAlongSubsegment
  rw [if_pos hclosed]
  simp only [h21, h12]
  unfold flippedIf
  by_cases h : totalLength s21 < totalLength s12 <;> simp [h]

end subpath


/-! ## the literal pieces of the source (regenerated by harness/translate/c07.py on every run) -/

section generated
variable {K : Type} [Field K] [LinearOrder K] [IsStrictOrderedRing K]

/-- the model's clamp is `np.clip(t, lo, hi)` with the bounds found in the source, and the source still wraps the
    quotient in `np.nan_to_num` (the `den = 0` branch of `clampedRatio`) -/
theorem gen_clip (t : K) :
    clip01 t = max ((PW.Gen.c07ClipLo : Int) : K) (min ((PW.Gen.c07ClipHi : Int) : K) t) ∧
    PW.Gen.c07NanToNum = true := by
  refine ⟨?_, by decide⟩
  have hlo : ((PW.Gen.c07ClipLo : Int) : K) = 0 := by simp [PW.Gen.c07ClipLo]
  have hhi : ((PW.Gen.c07ClipHi : Int) : K) = 1 := by simp [PW.Gen.c07ClipHi]
  rw [hlo, hhi]
  unfold clip01
  split_ifs with h1 h2
  · rw [min_eq_right (le_of_lt (lt_trans h1 zero_lt_one)), max_eq_left (le_of_lt h1)]
  · rw [min_eq_left (le_of_lt h2), max_eq_right zero_le_one]
  · rw [min_eq_right (not_lt.mp h2), max_eq_right (not_lt.mp h1)]

/-- `index_of_vertex`'s default tolerance is the `1e-08` the driver feeds to the model -/
theorem gen_atol : PW.Gen.c07AtolNum = 1 ∧ PW.Gen.c07AtolDen = 100000000 := by decide

/-- the flag logic of `nearest` in the source is the one of the model: same tuple-branch condition, same outputs
    appended in the same order inside it, bare points otherwise; and the reduction over segments is `argmin` -/
theorem gen_flag_logic :
    (∀ si sd st, PW.Gen.c07TupleCond si sd st = tupleCond si sd st) ∧
    PW.Gen.c07AppendOrder = ["ret_segment_indices", "ret_distances", "ret_t_values"] ∧
    PW.Gen.c07ElseBare = true ∧ PW.Gen.c07Reduction = "argmin" := by
  refine ⟨by decide, by decide, by decide, by decide⟩

end generated

/-! ## over ℝ: the Euclidean distance itself -/

section real

noncomputable instance : PW.Sqrt ℝ := ⟨Real.sqrt⟩

/-- Euclidean distance `|a − b|` -/
noncomputable def dist3 (a b : V3 ℝ) : ℝ := Real.sqrt ((a - b).normSq)

theorem sqrt_is_real_sqrt (x : ℝ) : PW.sqrt x = Real.sqrt x := rfl

/-- arg-min over distances = arg-min over squared distances: the code (which takes square roots first) reports
    the same segment, point and `t` as the sqrt-free twin, and the square root of its squared distance -/
theorem nearest_sqrt_eq_sq (q : V3 ℝ) (s : V3 ℝ × V3 ℝ) (ss : List (V3 ℝ × V3 ℝ)) :
    (hit Real.sqrt q s ss).index = (hit id q s ss).index ∧ (hit Real.sqrt q s ss).point = (hit id q s ss).point ∧
    (hit Real.sqrt q s ss).t = (hit id q s ss).t ∧ (hit Real.sqrt q s ss).dist = Real.sqrt (hit id q s ss).dist := by
  have hmap : ss.map (cand Real.sqrt q) = (ss.map (cand id q)).map fun c => ⟨c.point, c.t, Real.sqrt c.dist⟩ := by
    rw [List.map_map]; rfl
  have hc : cand Real.sqrt q s = ⟨(cand id q s).point, (cand id q s).t, Real.sqrt (cand id q s).dist⟩ := rfl
  have key := pickFrom_map Real.sqrt (ss.map (cand id q)) (cand id q s) 0 1 (by
    intro x hx y _
    rw [← List.map_cons] at hx
    obtain ⟨sx, _, rfl⟩ := List.mem_map.mp hx
    exact Real.sqrt_lt_sqrt_iff (dot_self_nonneg _))
  simp only [hit]
  rw [hmap, hc, key]
  exact ⟨rfl, rfl, rfl, rfl⟩

/-- **C07_nearest_opt** (ℝ).  `nearest` with every optional output, on a polyline with at least one segment:
    one point, index, distance and `t` come back; the index is a valid segment index; `point = start of the
    reported segment + t × its vector` with `0 ≤ t ≤ 1`; `distance = |query − point|`; the distance is `≤` the
    distance from the query to every point of every segment; and every earlier segment is strictly farther
    (first minimal index). -/
theorem C07_nearest_opt (pl : Polyline ℝ) (q : V3 ℝ) (r : Ret ℝ)
    (hr : nearest pl (.one q) true true true = .ok r) :
    ∃ p i d t sg, r.points = [p] ∧ r.indices = some [i] ∧ r.dists = some [d] ∧ r.ts = some [t] ∧
      pl.segments[i]? = some sg ∧ p = sg.1 + V3.smul t (sg.2 - sg.1) ∧ 0 ≤ t ∧ t ≤ 1 ∧ d = dist3 p q ∧
      (∀ sg' ∈ pl.segments, ∀ u : ℝ, 0 ≤ u → u ≤ 1 → d ≤ dist3 (sg'.1 + V3.smul u (sg'.2 - sg'.1)) q) ∧
      (∀ k sg', k < i → pl.segments[k]? = some sg' → d < dist3 (closestPoint q sg'.1 (sg'.2 - sg'.1)) q) := by
  unfold nearest nearestWith at hr
  cases hseg : pl.segments with
  | nil => rw [hseg] at hr; cases hr
  | cons s ss =>
    rw [hseg] at hr
    injection hr with hr
    subst hr
    obtain ⟨sg, h1, h2, h3, h4, _, h6⟩ := nearest_consistent Real.sqrt q s ss
    refine ⟨(hit Real.sqrt q s ss).point, (hit Real.sqrt q s ss).index, (hit Real.sqrt q s ss).dist,
      (hit Real.sqrt q s ss).t, sg, rfl, rfl, rfl, rfl, h1, h2, h3, h4, h6, ?_, ?_⟩
    · intro sg' hsg' u hu0 hu1
      exact nearest_opt_of_mono Real.sqrt (fun x y _ h => Real.sqrt_le_sqrt h) q s ss sg' hsg' u hu0 hu1
    · intro k sg' hk hsg'
      exact (nearest_first_minimal Real.sqrt q s ss).2 k sg' hk hsg'

/-- the same for a stack of queries, row by row (stacked = map) -/
theorem C07_nearest_opt_stacked (pl : Polyline ℝ) (qs : List (V3 ℝ)) (r : Ret ℝ)
    (hr : nearest pl (.many qs) true true true = .ok r) (j : Nat) (hj : j < qs.length) :
    ∃ p i d t sg, r.points[j]? = some p ∧ (r.indices.bind (·[j]?)) = some i ∧ (r.dists.bind (·[j]?)) = some d ∧
      (r.ts.bind (·[j]?)) = some t ∧
      pl.segments[i]? = some sg ∧ p = sg.1 + V3.smul t (sg.2 - sg.1) ∧ 0 ≤ t ∧ t ≤ 1 ∧ d = dist3 p qs[j] ∧
      (∀ sg' ∈ pl.segments, ∀ u : ℝ, 0 ≤ u → u ≤ 1 → d ≤ dist3 (sg'.1 + V3.smul u (sg'.2 - sg'.1)) qs[j]) := by
  unfold nearest nearestWith at hr
  cases hseg : pl.segments with
  | nil => rw [hseg] at hr; cases hr
  | cons s ss =>
    rw [hseg] at hr
    injection hr with hr
    subst hr
    obtain ⟨sg, h1, h2, h3, h4, _, h6⟩ := nearest_consistent Real.sqrt qs[j] s ss
    refine ⟨(hit Real.sqrt qs[j] s ss).point, (hit Real.sqrt qs[j] s ss).index, (hit Real.sqrt qs[j] s ss).dist,
      (hit Real.sqrt qs[j] s ss).t, sg, ?_, ?_, ?_, ?_, h1, h2, h3, h4, h6, ?_⟩
    · simp [assemble, tupleCond, Query.toList, List.getElem?_eq_getElem hj]; rfl
    · simp [assemble, tupleCond, Query.toList, List.getElem?_eq_getElem hj]; rfl
    · simp [assemble, tupleCond, Query.toList, List.getElem?_eq_getElem hj]; rfl
    · simp [assemble, tupleCond, Query.toList, List.getElem?_eq_getElem hj]; rfl
    · intro sg' hsg' u hu0 hu1
      exact nearest_opt_of_mono Real.sqrt (fun x y _ h => Real.sqrt_le_sqrt h) qs[j] s ss sg' hsg' u hu0 hu1

end real

/-- **defect witness** (closed term over ℚ): one segment, one query, `ret_t_values=True` alone — the model
    (which mirrors the code) returns the bare point and no `t` value -/
theorem C07_outputs_defect_witness :
    ∃ r, nearestWith (K := ℚ) id ⟨[⟨0, 0, 0⟩, ⟨1, 0, 0⟩], false⟩ (.one ⟨2, 1, 0⟩) false false true = .ok r ∧
      r.points = [⟨1, 0, 0⟩] ∧ r.tuple = false ∧ r.ts = none := by
  refine ⟨_, rfl, ?_, rfl, rfl⟩
  decide +kernel

/-- hence the full clause is false -/
theorem C07_outputs_statement_false : ¬ C07_outputs_statement ℚ id := by
  intro h
  have := (h ⟨[⟨0, 0, 0⟩, ⟨1, 0, 0⟩], false⟩ (.one ⟨2, 1, 0⟩) false false true _ rfl).2.2 rfl
  exact absurd this (by decide +kernel)

/-! ## non-vacuity: the hypotheses are satisfiable (concrete instances over ℚ, checked by the kernel) -/

/-- a lattice chain with a zero-length segment and an exact tie: the first minimal segment is reported -/
example : (nearestWith (K := ℚ) id ⟨[⟨0, 0, 0⟩, ⟨0, 0, 0⟩, ⟨2, 0, 0⟩, ⟨2, 2, 0⟩], false⟩
      (.many [⟨3, 1, 0⟩, ⟨1, 1, 0⟩]) true true true).map (fun r => (r.points, r.indices, r.dists, r.ts)) =
    .ok ([⟨2, 1, 0⟩, ⟨1, 0, 0⟩], some [2, 1], some [1, 1], some [1 / 2, 1 / 2]) := by decide +kernel

/-- an open square path, `a` below the first edge, `b` above the third: every hypothesis of
    `sliced_at_points_forward_original` holds (`p' = []`, `x = (0,0,0)`, `m = [(2,0,0), (2,2,0)]`,
    `s = [(0,2,0)]`) and the result is `Na, m, Nb` -/
example :
    let pl : Polyline ℚ := ⟨[⟨0, 0, 0⟩, ⟨2, 0, 0⟩, ⟨2, 2, 0⟩, ⟨0, 2, 0⟩], false⟩
    let atol : ℚ := 1 / 100000000
    (∃ ha hb, nearestOne id pl ⟨1, -1, 0⟩ = .ok ha ∧ ha.index = 0 ∧ nearestOne id pl ⟨1, 3, 0⟩ = .ok hb ∧
      hb.index = 0 + 2 ∧ indexOfVertex pl.v ha.point atol = .error .ValueError ∧
      indexOfVertex (insertBefore pl.v (0 + 1) ha.point) hb.point atol = .error .ValueError) ∧
    (slicedAtPointsWith id pl ⟨1, -1, 0⟩ ⟨1, 3, 0⟩ atol).map (·.v) =
      .ok [⟨1, 0, 0⟩, ⟨2, 0, 0⟩, ⟨2, 2, 0⟩, ⟨1, 2, 0⟩] := by
  refine ⟨⟨_, _, rfl, by decide +kernel, rfl, by decide +kernel, by decide +kernel, by decide +kernel⟩,
    by decide +kernel⟩

/-- a closed square, wrapping: from the closing edge over the first vertices -/
example : (slicedAtPointsWith (K := ℚ) id ⟨[⟨0, 0, 0⟩, ⟨2, 0, 0⟩, ⟨2, 2, 0⟩, ⟨0, 2, 0⟩], true⟩
      ⟨-1, 1, 0⟩ ⟨1, -1, 0⟩ (1 / 100000000)).map (·.v) = .ok [⟨0, 1, 0⟩, ⟨0, 0, 0⟩, ⟨1, 0, 0⟩] := by decide +kernel

end PW.C07
