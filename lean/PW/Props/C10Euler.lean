/-
  C10 (addendum) — Euler's rotation theorem for the project's concrete `M3 ℝ`, and the C10 inverse-conversion
  theorems restated for EVERY proper rotation (`Rᵀ R = I`, `det R = 1`), not only for rotations handed over in
  axis–angle form `rot(k, θ) = rodFormula (cos θ) (sin θ) k`.

  proved in full
    §1  `rotFacts_of`: from `Rᵀ R = I`, `det R = 1`: the cofactor identities (every row is the cross product of the
        other two, `adj R = Rᵀ`), `R Rᵀ = I`; `RotFacts.trace_bounds`: `−1 ≤ tr R ≤ 3`; `RotFacts.vee_sq`:
        `‖vee(R − Rᵀ)‖² = (3 − tr R)(1 + tr R)`; `RotFacts.sym_part`: `(1 + tr R)(R + Rᵀ − (tr R − 1) I) = vee veeᵀ`
    §2  the three cases: `rot_main_case` (`sin θ ≠ 0`: `k = vee(R − Rᵀ)/(2 sin θ)`), `rot_identity_case` (`tr R = 3 ⇒ R = I`),
        `rot_half_turn_case` (`R` symmetric, `tr R = −1` ⇒ `(R + I)/2 = k kᵀ`, `k` a normalised column of `(R + I)/2`
        with positive diagonal entry)
    §3  `euler_rotation`: every proper rotation is `rot(k, θ)` with `|k| = 1`, `0 ≤ θ ≤ π`
    §4  `roundtrip_mat_vec_mat_general_holds` (the `def` of C10.lean, for `0 < eps ≤ thr`), `inv_length_le_pi_general`,
        `snap_bound_general`, `inv_main_general`
  All polynomial certificates (cofactors of `linear_combination`) were produced with sympy.
-/
import PW.Props.C10

set_option linter.unusedSectionVars false
set_option linter.unusedVariables false

namespace PW.C10

open PW.Rod

/-! ## 1. polynomial facts about the entries of a proper rotation -/

/-- the entries `a b c / d e f / g h i` (rows) of a matrix with `Rᵀ R = I` and `det R = 1`, together with everything
    that follows polynomially: `R Rᵀ = I` and `adj R = Rᵀ` (each row is the cross product of the other two) -/
structure RotFacts (a b c d e f g h i : ℝ) : Prop where
  o00 : a * a + d * d + g * g = 1
  o01 : a * b + d * e + g * h = 0
  o02 : a * c + d * f + g * i = 0
  o11 : b * b + e * e + h * h = 1
  o12 : b * c + e * f + h * i = 0
  o22 : c * c + f * f + i * i = 1
  hD : a * (e * i - f * h) + b * (f * g - d * i) + c * (d * h - e * g) = 1
  c00 : a = e * i - f * h
  c01 : b = f * g - d * i
  c02 : c = d * h - e * g
  c10 : d = c * h - b * i
  c11 : e = a * i - c * g
  c12 : f = b * g - a * h
  c20 : g = b * f - c * e
  c21 : h = c * d - a * f
  c22 : i = a * e - b * d
  p00 : a * a + b * b + c * c = 1
  p01 : a * d + b * e + c * f = 0
  p02 : a * g + b * h + c * i = 0
  p11 : d * d + e * e + f * f = 1
  p12 : d * g + e * h + f * i = 0
  p22 : g * g + h * h + i * i = 1

/-- (a) orthogonality and `det = 1` give the cofactor identities and `R Rᵀ = I` -/
theorem rotFacts_of (a b c d e f g h i : ℝ)
    (hO : (⟨⟨a, b, c⟩, ⟨d, e, f⟩, ⟨g, h, i⟩⟩ : M3 ℝ).transpose.mul ⟨⟨a, b, c⟩, ⟨d, e, f⟩, ⟨g, h, i⟩⟩ = M3.one)
    (hD : (⟨⟨a, b, c⟩, ⟨d, e, f⟩, ⟨g, h, i⟩⟩ : M3 ℝ).det = 1) : RotFacts a b c d e f g h i := by
  simp only [M3.transpose, M3.mul, M3.one, M3.col0, M3.col1, M3.col2, V3.dot_def, M3.mk.injEq, V3.mk.injEq] at hO
  obtain ⟨⟨o00, o01, o02⟩, ⟨_, o11, o12⟩, ⟨_, _, o22⟩⟩ := hO
  simp only [M3.det, V3.dot_def, V3.cross_x, V3.cross_y, V3.cross_z] at hD
  have c00 : a = e * i - f * h := by
    linear_combination (-a) * hD + (e*i - f*h) * o00 + (-d*i + f*g) * o01 + (d*h - e*g) * o02
  have c10 : d = c * h - b * i := by
    linear_combination (-d) * hD + (-b*i + c*h) * o00 + (a*i - c*g) * o01 + (-a*h + b*g) * o02
  have c20 : g = b * f - c * e := by
    linear_combination (-g) * hD + (b*f - c*e) * o00 + (-a*f + c*d) * o01 + (a*e - b*d) * o02
  have c01 : b = f * g - d * i := by
    linear_combination (-b) * hD + (e*i - f*h) * o01 + (-d*i + f*g) * o11 + (d*h - e*g) * o12
  have c11 : e = a * i - c * g := by
    linear_combination (-e) * hD + (-b*i + c*h) * o01 + (a*i - c*g) * o11 + (-a*h + b*g) * o12
  have c21 : h = c * d - a * f := by
    linear_combination (-h) * hD + (b*f - c*e) * o01 + (-a*f + c*d) * o11 + (a*e - b*d) * o12
  have c02 : c = d * h - e * g := by
    linear_combination (-c) * hD + (e*i - f*h) * o02 + (-d*i + f*g) * o12 + (d*h - e*g) * o22
  have c12 : f = b * g - a * h := by
    linear_combination (-f) * hD + (-b*i + c*h) * o02 + (a*i - c*g) * o12 + (-a*h + b*g) * o22
  have c22 : i = a * e - b * d := by
    linear_combination (-i) * hD + (b*f - c*e) * o02 + (-a*f + c*d) * o12 + (a*e - b*d) * o22
  refine ⟨o00, o01, o02, o11, o12, o22, hD, c00, c01, c02, c10, c11, c12, c20, c21, c22, ?_, ?_, ?_, ?_, ?_, ?_⟩
  · linear_combination (a) * c00 + (b) * c01 + (c) * c02 + (1) * hD
  · linear_combination (a) * c10 + (b) * c11 + (c) * c12
  · linear_combination (a) * c20 + (b) * c21 + (c) * c22
  · linear_combination (d) * c10 + (e) * c11 + (f) * c12 + (1) * hD
  · linear_combination (d) * c20 + (e) * c21 + (f) * c22
  · linear_combination (g) * c20 + (h) * c21 + (i) * c22 + (1) * hD

namespace RotFacts
variable {a b c d e f g h i : ℝ}

/-- `‖vee(R − Rᵀ)‖² = (3 − tr R)(1 + tr R)` (`= 4 sin²θ`) -/
theorem vee_sq (F : RotFacts a b c d e f g h i) :
    (h - f) * (h - f) + (c - g) * (c - g) + (d - b) * (d - b) = (3 - (a + e + i)) * (1 + (a + e + i)) := by
  obtain ⟨o00, o01, o02, o11, o12, o22, hD, c00, c01, c02, c10, c11, c12, c20, c21, c22, p00, p01, p02, p11, p12, p22⟩ := F
  linear_combination (1) * o00 + (1) * o11 + (1) * o22 + (-2) * c00 + (-2) * c11 + (-2) * c22

/-- `tr R = 1 + 2 cos θ ∈ [−1, 3]` -/
theorem trace_bounds (F : RotFacts a b c d e f g h i) : -1 ≤ a + e + i ∧ a + e + i ≤ 3 := by
  have hv := F.vee_sq
  have ha : a ≤ 1 := by nlinarith [F.o00, mul_self_nonneg d, mul_self_nonneg g, mul_self_nonneg (a - 1)]
  have he : e ≤ 1 := by nlinarith [F.o11, mul_self_nonneg b, mul_self_nonneg h, mul_self_nonneg (e - 1)]
  have hi : i ≤ 1 := by nlinarith [F.o22, mul_self_nonneg c, mul_self_nonneg f, mul_self_nonneg (i - 1)]
  refine ⟨?_, by linarith⟩
  by_contra hlt
  have hlt := not_le.mp hlt
  have h1 : (3 - (a + e + i)) * (1 + (a + e + i)) < 0 := mul_neg_of_pos_of_neg (by linarith) (by linarith)
  nlinarith [mul_self_nonneg (h - f), mul_self_nonneg (c - g), mul_self_nonneg (d - b)]

/-- the symmetric part: `(1 + tr R)·(R + Rᵀ − (tr R − 1)·I) = vee(R − Rᵀ) vee(R − Rᵀ)ᵀ`, entry by entry -/
theorem sym_part (F : RotFacts a b c d e f g h i) :
    (1 + (a + e + i)) * (a + a - ((a + e + i) - 1)) = (h - f) * (h - f) ∧
    (1 + (a + e + i)) * (b + d) = (h - f) * (c - g) ∧
    (1 + (a + e + i)) * (c + g) = (h - f) * (d - b) ∧
    (1 + (a + e + i)) * (e + e - ((a + e + i) - 1)) = (c - g) * (c - g) ∧
    (1 + (a + e + i)) * (f + h) = (c - g) * (d - b) ∧
    (1 + (a + e + i)) * (i + i - ((a + e + i) - 1)) = (d - b) * (d - b) := by
  obtain ⟨o00, o01, o02, o11, o12, o22, hD, c00, c01, c02, c10, c11, c12, c20, c21, c22, p00, p01, p02, p11, p12, p22⟩ := F
  refine ⟨?_, ?_, ?_, ?_, ?_, ?_⟩
  · linear_combination (-1) * o11 + (-1) * o22 + (1) * p00 + (2) * c00
  · linear_combination (1) * o01 + (1) * p01 + (1) * c10 + (1) * c01
  · linear_combination (1) * o02 + (1) * p02 + (1) * c20 + (1) * c02
  · linear_combination (-1) * o00 + (-1) * o22 + (1) * p11 + (2) * c11
  · linear_combination (1) * o12 + (1) * p12 + (1) * c21 + (1) * c12
  · linear_combination (1) * o22 + (-1) * p00 + (-1) * p11 + (2) * c22

end RotFacts

/-! ## 2. the three cases -/

/-- main case `sin θ ≠ 0`: with `tr R = 1 + 2·co`, `si² = 1 − co²`, the axis is `vee(R − Rᵀ)/(2·si)` -/
theorem rot_main_case {a b c d e f g h i : ℝ} (F : RotFacts a b c d e f g h i) (co si : ℝ)
    (htr : a + e + i = 1 + 2 * co) (hs2 : si * si = 1 - co * co) (hs : si ≠ 0) :
    ∃ k : V3 ℝ, k.dot k = 1 ∧ (⟨⟨a, b, c⟩, ⟨d, e, f⟩, ⟨g, h, i⟩⟩ : M3 ℝ) = rodFormula co si k := by
  have h4 : 4 * (si * si) ≠ 0 := mul_ne_zero (by norm_num) (mul_ne_zero hs hs)
  obtain ⟨kx, hx⟩ : ∃ kx : ℝ, 2 * si * kx = h - f := ⟨(h - f) / (2 * si), by field_simp⟩
  obtain ⟨ky, hy⟩ : ∃ ky : ℝ, 2 * si * ky = c - g := ⟨(c - g) / (2 * si), by field_simp⟩
  obtain ⟨kz, hz⟩ : ∃ kz : ℝ, 2 * si * kz = d - b := ⟨(d - b) / (2 * si), by field_simp⟩
  have hv := F.vee_sq
  obtain ⟨s00, s01, s02, s11, s12, s22⟩ := F.sym_part
  rw [htr] at hv s00 s01 s02 s11 s12 s22
  have kxx : 4 * (si * si) * (kx * kx) = (h - f) * (h - f) := by linear_combination (2 * si * kx + (h - f)) * hx
  have kyy : 4 * (si * si) * (ky * ky) = (c - g) * (c - g) := by linear_combination (2 * si * ky + (c - g)) * hy
  have kzz : 4 * (si * si) * (kz * kz) = (d - b) * (d - b) := by linear_combination (2 * si * kz + (d - b)) * hz
  have kxy : 4 * (si * si) * (kx * ky) = (h - f) * (c - g) := by
    linear_combination (2 * si * ky) * hx + (h - f) * hy
  have kxz : 4 * (si * si) * (kx * kz) = (h - f) * (d - b) := by
    linear_combination (2 * si * kz) * hx + (h - f) * hz
  have kyz : 4 * (si * si) * (ky * kz) = (c - g) * (d - b) := by
    linear_combination (2 * si * kz) * hy + (c - g) * hz
  -- symmetric part: (1 − co)·kᵢkⱼ = (Rᵢⱼ + Rⱼᵢ)/2 − co·δᵢⱼ
  have q00 : (1 - co) * (kx * kx) = a - co := by
    apply mul_left_cancel₀ h4
    linear_combination (1 - co) * kxx - (1 - co) * s00 - 4 * (a - co) * hs2
  have q11 : (1 - co) * (ky * ky) = e - co := by
    apply mul_left_cancel₀ h4
    linear_combination (1 - co) * kyy - (1 - co) * s11 - 4 * (e - co) * hs2
  have q22 : (1 - co) * (kz * kz) = i - co := by
    apply mul_left_cancel₀ h4
    linear_combination (1 - co) * kzz - (1 - co) * s22 - 4 * (i - co) * hs2
  have q01 : (1 - co) * (kx * ky) = (b + d) / 2 := by
    apply mul_left_cancel₀ h4
    linear_combination (1 - co) * kxy - (1 - co) * s01 - 2 * (b + d) * hs2
  have q02 : (1 - co) * (kx * kz) = (c + g) / 2 := by
    apply mul_left_cancel₀ h4
    linear_combination (1 - co) * kxz - (1 - co) * s02 - 2 * (c + g) * hs2
  have q12 : (1 - co) * (ky * kz) = (f + h) / 2 := by
    apply mul_left_cancel₀ h4
    linear_combination (1 - co) * kyz - (1 - co) * s12 - 2 * (f + h) * hs2
  refine ⟨⟨kx, ky, kz⟩, ?_, ?_⟩
  · rw [V3.dot_def]
    apply mul_left_cancel₀ h4
    linear_combination kxx + kyy + kzz + hv - 4 * hs2
  · ext <;> rod_unfold
    · linear_combination (-1) * q00
    · linear_combination (-1) * q01 + (1 / 2) * hz
    · linear_combination (-1) * q02 - (1 / 2) * hy
    · linear_combination (-1) * q01 - (1 / 2) * hz
    · linear_combination (-1) * q11
    · linear_combination (-1) * q12 + (1 / 2) * hx
    · linear_combination (-1) * q02 + (1 / 2) * hy
    · linear_combination (-1) * q12 - (1 / 2) * hx
    · linear_combination (-1) * q22

/-- `tr R = 3` (`θ = 0`): the identity -/
theorem rot_identity_case {a b c d e f g h i : ℝ} (F : RotFacts a b c d e f g h i) (htr : a + e + i = 3) :
    (⟨⟨a, b, c⟩, ⟨d, e, f⟩, ⟨g, h, i⟩⟩ : M3 ℝ) = M3.one := by
  have ha : a ≤ 1 := by nlinarith [F.o00, mul_self_nonneg d, mul_self_nonneg g, mul_self_nonneg (a - 1)]
  have he : e ≤ 1 := by nlinarith [F.o11, mul_self_nonneg b, mul_self_nonneg h, mul_self_nonneg (e - 1)]
  have hi : i ≤ 1 := by nlinarith [F.o22, mul_self_nonneg c, mul_self_nonneg f, mul_self_nonneg (i - 1)]
  have a1 : a = 1 := by linarith
  have e1 : e = 1 := by linarith
  have i1 : i = 1 := by linarith
  have o00 := F.o00
  have o11 := F.o11
  have o22 := F.o22
  rw [a1] at o00
  rw [e1] at o11
  rw [i1] at o22
  have d0 : d = 0 := mul_self_eq_zero.mp (by nlinarith [mul_self_nonneg d, mul_self_nonneg g])
  have g0 : g = 0 := mul_self_eq_zero.mp (by nlinarith [mul_self_nonneg d, mul_self_nonneg g])
  have b0 : b = 0 := mul_self_eq_zero.mp (by nlinarith [mul_self_nonneg b, mul_self_nonneg h])
  have h0 : h = 0 := mul_self_eq_zero.mp (by nlinarith [mul_self_nonneg b, mul_self_nonneg h])
  have c0 : c = 0 := mul_self_eq_zero.mp (by nlinarith [mul_self_nonneg c, mul_self_nonneg f])
  have f0 : f = 0 := mul_self_eq_zero.mp (by nlinarith [mul_self_nonneg c, mul_self_nonneg f])
  rw [a1, e1, i1, d0, g0, b0, h0, c0, f0]
  rfl

/-- a symmetric matrix with trace −1 all of whose `(R + I)/2`-entries are `vᵢvⱼ/dd` for some `dd > 0` is the half-turn
    about `v/√dd` -/
theorem half_turn_of_col {a b c d e f g h i : ℝ} (v0 v1 v2 dd : ℝ) (hd : 0 < dd)
    (sy0 : h = f) (sy1 : c = g) (sy2 : d = b) (ht : a + e + i = -1)
    (m00 : v0 * v0 = dd * ((a + 1) / 2)) (m01 : v0 * v1 = dd * (b / 2)) (m02 : v0 * v2 = dd * (c / 2))
    (m11 : v1 * v1 = dd * ((e + 1) / 2)) (m12 : v1 * v2 = dd * (f / 2)) (m22 : v2 * v2 = dd * ((i + 1) / 2)) :
    ∃ k : V3 ℝ, k.dot k = 1 ∧ (⟨⟨a, b, c⟩, ⟨d, e, f⟩, ⟨g, h, i⟩⟩ : M3 ℝ) = rodFormula (-1) 0 k := by
  have hr : Real.sqrt dd * Real.sqrt dd = dd := Real.mul_self_sqrt hd.le
  have hr0 : Real.sqrt dd ≠ 0 := ne_of_gt (Real.sqrt_pos.mpr hd)
  have hd0 : dd ≠ 0 := ne_of_gt hd
  obtain ⟨kx, hx⟩ : ∃ kx : ℝ, Real.sqrt dd * kx = v0 := ⟨v0 / Real.sqrt dd, by field_simp⟩
  obtain ⟨ky, hy⟩ : ∃ ky : ℝ, Real.sqrt dd * ky = v1 := ⟨v1 / Real.sqrt dd, by field_simp⟩
  obtain ⟨kz, hz⟩ : ∃ kz : ℝ, Real.sqrt dd * kz = v2 := ⟨v2 / Real.sqrt dd, by field_simp⟩
  have kxx : dd * (kx * kx) = v0 * v0 := by
    linear_combination (-(kx * kx)) * hr + (Real.sqrt dd * kx + v0) * hx
  have kyy : dd * (ky * ky) = v1 * v1 := by
    linear_combination (-(ky * ky)) * hr + (Real.sqrt dd * ky + v1) * hy
  have kzz : dd * (kz * kz) = v2 * v2 := by
    linear_combination (-(kz * kz)) * hr + (Real.sqrt dd * kz + v2) * hz
  have kxy : dd * (kx * ky) = v0 * v1 := by
    linear_combination (-(kx * ky)) * hr + (Real.sqrt dd * ky) * hx + v0 * hy
  have kxz : dd * (kx * kz) = v0 * v2 := by
    linear_combination (-(kx * kz)) * hr + (Real.sqrt dd * kz) * hx + v0 * hz
  have kyz : dd * (ky * kz) = v1 * v2 := by
    linear_combination (-(ky * kz)) * hr + (Real.sqrt dd * kz) * hy + v1 * hz
  have q00 : kx * kx = (a + 1) / 2 := mul_left_cancel₀ hd0 (by rw [kxx, m00])
  have q11 : ky * ky = (e + 1) / 2 := mul_left_cancel₀ hd0 (by rw [kyy, m11])
  have q22 : kz * kz = (i + 1) / 2 := mul_left_cancel₀ hd0 (by rw [kzz, m22])
  have q01 : kx * ky = b / 2 := mul_left_cancel₀ hd0 (by rw [kxy, m01])
  have q02 : kx * kz = c / 2 := mul_left_cancel₀ hd0 (by rw [kxz, m02])
  have q12 : ky * kz = f / 2 := mul_left_cancel₀ hd0 (by rw [kyz, m12])
  refine ⟨⟨kx, ky, kz⟩, ?_, ?_⟩
  · rw [V3.dot_def]
    linear_combination q00 + q11 + q22 + (1 / 2) * ht
  · ext <;> rod_unfold
    · linear_combination (-2) * q00
    · linear_combination (-2) * q01
    · linear_combination (-2) * q02
    · linear_combination (-2) * q01 + sy2
    · linear_combination (-2) * q11
    · linear_combination (-2) * q12
    · linear_combination (-2) * q02 - sy1
    · linear_combination (-2) * q12 + sy0
    · linear_combination (-2) * q22

/-- `R` symmetric with `tr R = −1` (`θ = π`): `(R + I)/2` is the rank-one projector `k kᵀ`; `k` is the normalised column
    of `(R + I)/2` through a positive diagonal entry (one exists since the diagonal sums to 1) -/
theorem rot_half_turn_case {a b c d e f g h i : ℝ} (F : RotFacts a b c d e f g h i)
    (sy0 : h = f) (sy1 : c = g) (sy2 : d = b) (ht : a + e + i = -1) :
    ∃ k : V3 ℝ, k.dot k = 1 ∧ (⟨⟨a, b, c⟩, ⟨d, e, f⟩, ⟨g, h, i⟩⟩ : M3 ℝ) = rodFormula (-1) 0 k := by
  obtain ⟨o00, o01, o02, o11, o12, o22, hD, c00, c01, c02, c10, c11, c12, c20, c21, c22, p00, p01, p02, p11, p12, p22⟩ := F
  by_cases h0 : 0 < (a + 1) / 2
  · apply half_turn_of_col ((a + 1) / 2) (d / 2) (g / 2) ((a + 1) / 2) h0 sy0 sy1 sy2 ht
    · ring
    · linear_combination (1 / 4) * ((1) * sy2 + (1) * (a) * sy2)
    · linear_combination (1 / 4) * ((-1) * sy1 + (-1) * (a) * sy1)
    · linear_combination (1 / 4) * ((-1) * o11 + (1) * p11 + (1) * c22 + (1) * (f) * sy0 + (1) * (h) * sy0 + (-1) * (b) * sy2 + (-1) * ht)
    · linear_combination (1 / 4) * ((-1) * o12 + (1) * p12 + (-1) * c12 + (1) * (a) * sy0 + (-1) * (e) * sy0 + (1) * (i) * sy0 + (1) * (b) * sy1)
    · linear_combination (1 / 4) * ((1) * o00 + (1) * o11 + (-1) * p00 + (-1) * p11 + (1) * c11 + (-1) * (f) * sy0 + (-1) * (h) * sy0 + (1) * (c) * sy1 + (-1) * ht)
  by_cases h1 : 0 < (e + 1) / 2
  · apply half_turn_of_col (b / 2) ((e + 1) / 2) (h / 2) ((e + 1) / 2) h1 sy0 sy1 sy2 ht
    · linear_combination (1 / 4) * ((1) * c22 + (-1) * (b) * sy2 + (-1) * ht)
    · ring
    · linear_combination (1 / 4) * ((-1) * c20 + (1) * (b) * sy0 + (-1) * sy1)
    · ring
    · linear_combination (1 / 4) * ((1) * sy0 + (1) * (e) * sy0)
    · linear_combination (1 / 4) * ((1) * c00 + (1) * (h) * sy0 + (-1) * ht)
  have h2 : 0 < (i + 1) / 2 := by
    have := not_lt.mp h0
    have := not_lt.mp h1
    linarith
  apply half_turn_of_col (c / 2) (f / 2) ((i + 1) / 2) ((i + 1) / 2) h2 sy0 sy1 sy2 ht
  · linear_combination (1 / 4) * ((1) * c11 + (1) * (c) * sy1 + (-1) * ht)
  · linear_combination (1 / 4) * ((-1) * c10 + (-1) * (c) * sy0 + (1) * sy2)
  · ring
  · linear_combination (1 / 4) * ((1) * c00 + (-1) * (f) * sy0 + (-1) * ht)
  · ring
  · ring

/-! ## 3. Euler's rotation theorem -/

/-- **Euler's rotation theorem** on the project's concrete 3×3 matrices: every proper rotation (`Rᵀ R = I`, `det R = 1`)
    is Rodrigues' formula `rot(k, θ)` for a unit axis `k` and an angle `0 ≤ θ ≤ π`
    (`θ = arccos((tr R − 1)/2)`; `k = vee(R − Rᵀ)/(2 sin θ)` when `sin θ ≠ 0`). -/
theorem euler_rotation (R : M3 ℝ) (hO : R.transpose.mul R = M3.one) (hD : R.det = 1) :
    ∃ (k : V3 ℝ) (θ : ℝ), k.dot k = 1 ∧ 0 ≤ θ ∧ θ ≤ Real.pi ∧ R = rodFormula (Real.cos θ) (Real.sin θ) k := by
  obtain ⟨⟨a, b, c⟩, ⟨d, e, f⟩, ⟨g, h, i⟩⟩ := R
  have F := rotFacts_of a b c d e f g h i hO hD
  obtain ⟨hlo, hhi⟩ := F.trace_bounds
  have hc1 : -1 ≤ (a + e + i - 1) / 2 := by linarith
  have hc2 : (a + e + i - 1) / 2 ≤ 1 := by linarith
  have hcos : Real.cos (Real.arccos ((a + e + i - 1) / 2)) = (a + e + i - 1) / 2 := Real.cos_arccos hc1 hc2
  have hsq := cos_sin_sq (Real.arccos ((a + e + i - 1) / 2))
  rw [hcos] at hsq
  have hθ0 := Real.arccos_nonneg ((a + e + i - 1) / 2)
  have hθπ := Real.arccos_le_pi ((a + e + i - 1) / 2)
  by_cases hs : Real.sin (Real.arccos ((a + e + i - 1) / 2)) = 0
  · rw [hs] at hsq
    have hcc : ((a + e + i - 1) / 2 - 1) * ((a + e + i - 1) / 2 + 1) = 0 := by linear_combination hsq
    rcases mul_eq_zero.mp hcc with h1 | h1
    · -- the identity
      have htr : a + e + i = 3 := by linarith
      have hco : (a + e + i - 1) / 2 = 1 := by linarith
      refine ⟨⟨1, 0, 0⟩, Real.arccos ((a + e + i - 1) / 2), ?_, hθ0, hθπ, ?_⟩
      · rw [V3.dot_def]; norm_num
      · rw [hcos, hs, hco, rot_identity_case F htr]
        ext <;> rod_unfold <;> norm_num
    · -- a half-turn
      have htr : a + e + i = -1 := by linarith
      have hco : (a + e + i - 1) / 2 = -1 := by linarith
      have hv := F.vee_sq
      rw [htr] at hv
      have z0 : (h - f) * (h - f) = 0 := by
        nlinarith [mul_self_nonneg (h - f), mul_self_nonneg (c - g), mul_self_nonneg (d - b)]
      have z1 : (c - g) * (c - g) = 0 := by
        nlinarith [mul_self_nonneg (h - f), mul_self_nonneg (c - g), mul_self_nonneg (d - b)]
      have z2 : (d - b) * (d - b) = 0 := by
        nlinarith [mul_self_nonneg (h - f), mul_self_nonneg (c - g), mul_self_nonneg (d - b)]
      have sy0 : h = f := by have := mul_self_eq_zero.mp z0; linarith
      have sy1 : c = g := by have := mul_self_eq_zero.mp z1; linarith
      have sy2 : d = b := by have := mul_self_eq_zero.mp z2; linarith
      obtain ⟨k, hk, hR⟩ := rot_half_turn_case F sy0 sy1 sy2 htr
      refine ⟨k, Real.arccos ((a + e + i - 1) / 2), hk, hθ0, hθπ, ?_⟩
      rw [hcos, hs, hco]
      exact hR
  · obtain ⟨k, hk, hR⟩ := rot_main_case F ((a + e + i - 1) / 2) (Real.sin (Real.arccos ((a + e + i - 1) / 2)))
      (by ring) (by linear_combination hsq) hs
    refine ⟨k, Real.arccos ((a + e + i - 1) / 2), hk, hθ0, hθπ, ?_⟩
    rw [hcos]
    exact hR

/-- the converse (from C10.lean's `rod_orthogonal`, `rod_det_one`): the axis–angle form is exactly the set of proper
    rotations -/
theorem proper_iff_axis_angle (R : M3 ℝ) :
    (R.transpose.mul R = M3.one ∧ R.det = 1) ↔
      ∃ (k : V3 ℝ) (θ : ℝ), k.dot k = 1 ∧ 0 ≤ θ ∧ θ ≤ Real.pi ∧ R = rodFormula (Real.cos θ) (Real.sin θ) k := by
  constructor
  · rintro ⟨hO, hD⟩
    exact euler_rotation R hO hD
  · rintro ⟨k, θ, hk, _, _, rfl⟩
    exact ⟨(rod_orthogonal _ _ k (cos_sin_sq θ) hk).1, rod_det_one _ _ k (cos_sin_sq θ) hk⟩

/-! ## 4. the inverse-conversion theorems for every proper rotation -/

/-- `‖vee(R − Rᵀ)‖/2 = sin θ` on `rot(k, θ)`, `0 ≤ θ ≤ π` -/
theorem vee_norm_half (θ : ℝ) (k : V3 ℝ) (hk : k.dot k = 1) (h0 : 0 ≤ θ) (hπ : θ ≤ Real.pi) :
    V3.norm (⟨(rodFormula (Real.cos θ) (Real.sin θ) k).r2.y - (rodFormula (Real.cos θ) (Real.sin θ) k).r1.z,
      (rodFormula (Real.cos θ) (Real.sin θ) k).r0.z - (rodFormula (Real.cos θ) (Real.sin θ) k).r2.x,
      (rodFormula (Real.cos θ) (Real.sin θ) k).r1.x - (rodFormula (Real.cos θ) (Real.sin θ) k).r0.y⟩ : V3 ℝ) / 2 =
      Real.sin θ := by
  obtain ⟨e1, e2, e3, _⟩ := formula_parts (Real.cos θ) (Real.sin θ) k hk
  have hs0 : 0 ≤ Real.sin θ := Real.sin_nonneg_of_nonneg_of_le_pi h0 hπ
  rw [e1, e2, e3]
  have : (⟨2 * Real.sin θ * k.x, 2 * Real.sin θ * k.y, 2 * Real.sin θ * k.z⟩ : V3 ℝ) = V3.smul (2 * Real.sin θ) k := rfl
  rw [this, norm_smul_unit _ k (by linarith) hk]
  ring

/-- matrix → vector → matrix is the identity for EVERY proper rotation `R` whose antisymmetric part is at least the
    threshold (`‖vee(R − Rᵀ)‖/2 = sin θ ≥ thr`), provided `0 < eps ≤ thr` (the code's values `2⁻⁵²`, `1e-5` qualify).
    This is the statement `roundtrip_mat_vec_mat_general` of C10.lean, which was left unproved there for lack of
    Euler's rotation theorem.  The side condition `eps ≤ thr` is needed: for `thr ≤ sin θ ≤ θ < eps` the forward
    conversion takes its `theta < eps` shortcut and returns `I ≠ R`. -/
theorem roundtrip_mat_vec_mat_general_holds (eps thr : ℝ) (heps : 0 < eps) (hthr : eps ≤ thr) :
    roundtrip_mat_vec_mat_general eps thr := by
  intro R proj hO hD hproj hv
  obtain ⟨k, θ, hk, h0, hπ, rfl⟩ := euler_rotation R hO hD
  rw [vee_norm_half θ k hk h0 hπ] at hv
  have hspos : 0 < Real.sin θ := by linarith
  have hθ0 : 0 < θ := by
    rcases h0.lt_or_eq with h | h
    · exact h
    · rw [← h, Real.sin_zero] at hspos; exact absurd hspos (lt_irrefl _)
  have hθπ : θ < Real.pi := by
    rcases hπ.lt_or_eq with h | h
    · exact h
    · rw [h, Real.sin_pi] at hspos; exact absurd hspos (lt_irrefl _)
  have hle : Real.sin θ ≤ θ := Real.sin_le h0
  exact roundtrip_mat_vec_mat eps thr θ k proj hk heps (by linarith) hθπ hv hproj

/-- the main branch in general form: for every proper rotation with `‖vee(R − Rᵀ)‖/2 ≥ thr > 0` the returned vector is
    `θ·k` for an axis–angle pair of `R` with `0 < θ < π` -/
theorem inv_main_general (thr : ℝ) (hthr : 0 < thr) (R : M3 ℝ) (proj : M3 ℝ → M3 ℝ)
    (hO : R.transpose.mul R = M3.one) (hD : R.det = 1) (hproj : proj R = R)
    (hv : thr ≤ V3.norm (⟨R.r2.y - R.r1.z, R.r0.z - R.r2.x, R.r1.x - R.r0.y⟩ : V3 ℝ) / 2) :
    ∃ (k : V3 ℝ) (θ : ℝ), k.dot k = 1 ∧ 0 < θ ∧ θ < Real.pi ∧ R = rodFormula (Real.cos θ) (Real.sin θ) k ∧
      (rodriguesInverse thr proj R).w = V3.smul θ k := by
  obtain ⟨k, θ, hk, h0, hπ, rfl⟩ := euler_rotation R hO hD
  rw [vee_norm_half θ k hk h0 hπ] at hv
  have hspos : 0 < Real.sin θ := by linarith
  have hθ0 : 0 < θ := by
    rcases h0.lt_or_eq with h | h
    · exact h
    · rw [← h, Real.sin_zero] at hspos; exact absurd hspos (lt_irrefl _)
  have hθπ : θ < Real.pi := by
    rcases hπ.lt_or_eq with h | h
    · exact h
    · rw [h, Real.sin_pi] at hspos; exact absurd hspos (lt_irrefl _)
  exact ⟨k, θ, hk, hθ0, hθπ, rfl, inv_main thr θ k proj hk hθ0 hθπ hv hproj⟩

/-- for EVERY proper rotation the returned vector has length at most π, in every branch, and the division
    `theta / ‖r_out‖` of the half-turn branch is never by zero -/
theorem inv_length_le_pi_general (thr : ℝ) (hthr : 0 < thr) (R : M3 ℝ) (proj : M3 ℝ → M3 ℝ)
    (hO : R.transpose.mul R = M3.one) (hD : R.det = 1) (hproj : proj R = R) :
    0 < (halfTurnAxis R).norm ∧ (rodriguesInverse thr proj R).w.norm ≤ Real.pi := by
  obtain ⟨k, θ, hk, _, _, rfl⟩ := euler_rotation R hO hD
  exact inv_length_le_pi_rot thr θ k proj hk hthr hproj

/-- the quantitative snap clause for EVERY proper rotation: if the antisymmetric part is below the code's threshold
    (`‖vee(R − Rᵀ)‖/2 < 1e-5`, i.e. `R` is within `1e-5` rad of the identity or of a half-turn) the returned vector
    maps back to within `2.5e-5` of `R`, entrywise (any `0 < eps ≤ 1`; the code's is `2⁻⁵²`) -/
theorem snap_bound_general (eps : ℝ) (heps : 0 < eps) (heps1 : eps ≤ 1) (R : M3 ℝ) (proj : M3 ℝ → M3 ℝ)
    (hO : R.transpose.mul R = M3.one) (hD : R.det = 1) (hproj : proj R = R)
    (hv : V3.norm (⟨R.r2.y - R.r1.z, R.r0.z - R.r2.x, R.r1.x - R.r0.y⟩ : V3 ℝ) / 2 < 1 / 100000) :
    entriesWithin (rodriguesForward eps (rodriguesInverse (1 / 100000) proj R).w).R R (25 / 1000000) := by
  obtain ⟨k, θ, hk, h0, hπ, rfl⟩ := euler_rotation R hO hD
  rw [vee_norm_half θ k hk h0 hπ] at hv
  exact snap_bound_holds eps heps heps1 θ k proj hk h0 hπ hv hproj

/-- every proper rotation is covered by exactly one of the two previous theorems (at the code's constants): either the
    round trip is exact or it is within `2.5e-5` -/
theorem roundtrip_total_general (eps : ℝ) (heps : 0 < eps) (heps1 : eps ≤ 1 / 100000) (R : M3 ℝ) (proj : M3 ℝ → M3 ℝ)
    (hO : R.transpose.mul R = M3.one) (hD : R.det = 1) (hproj : proj R = R) :
    entriesWithin (rodriguesForward eps (rodriguesInverse (1 / 100000) proj R).w).R R (25 / 1000000) := by
  by_cases hv : V3.norm (⟨R.r2.y - R.r1.z, R.r0.z - R.r2.x, R.r1.x - R.r0.y⟩ : V3 ℝ) / 2 < 1 / 100000
  · exact snap_bound_general eps heps (by linarith) R proj hO hD hproj hv
  · rw [roundtrip_mat_vec_mat_general_holds eps (1 / 100000) heps heps1 R proj hO hD hproj (not_lt.mp hv)]
    unfold entriesWithin
    simp only [sub_self, abs_zero]
    norm_num

/-! ## 5. the hypotheses are satisfiable -/

/-- the quarter turn about `z`, given as an explicit matrix, is a proper rotation, hence of axis–angle form -/
example : ∃ (k : V3 ℝ) (θ : ℝ), k.dot k = 1 ∧ 0 ≤ θ ∧ θ ≤ Real.pi ∧
    (⟨⟨0, -1, 0⟩, ⟨1, 0, 0⟩, ⟨0, 0, 1⟩⟩ : M3 ℝ) = rodFormula (Real.cos θ) (Real.sin θ) k :=
  euler_rotation _ (by ext <;> rod_unfold <;> norm_num) (by rod_unfold; norm_num)

/-- … and so is one with all nine entries non-zero (the rotation by `π/3` about `(1,1,1)/√3`, the matrix
    `(1/3)·[[2, −1, 2], [2, 2, −1], [−1, 2, 2]]`), together with the side conditions of the general round trip at the
    code's constants -/
example : (∃ (k : V3 ℝ) (θ : ℝ), k.dot k = 1 ∧ 0 ≤ θ ∧ θ ≤ Real.pi ∧
    (⟨⟨2 / 3, -1 / 3, 2 / 3⟩, ⟨2 / 3, 2 / 3, -1 / 3⟩, ⟨-1 / 3, 2 / 3, 2 / 3⟩⟩ : M3 ℝ) =
      rodFormula (Real.cos θ) (Real.sin θ) k) ∧ (0 : ℝ) < 2⁻¹ ^ 52 ∧ (2⁻¹ ^ 52 : ℝ) ≤ 1 / 100000 :=
  ⟨euler_rotation _ (by ext <;> rod_unfold <;> norm_num) (by rod_unfold; norm_num), by positivity, by norm_num⟩

end PW.C10
