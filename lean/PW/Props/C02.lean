/-
  C02 — the sliced mesh is a well-formed indexed mesh with correct face provenance.

  Part A: the `unique_bincount` renumbering (`compact`) — indices valid, no orphan vertices, positions preserved,
          vertices in increasing old index; idempotence.
  Part B: the assembly `sliceMesh` returns, face by face and in the documented order (kept, quads, triangles), the
          triangles of the per-face kernel of C01, with the face mapping naming the source face.
  Part C: consequences: idempotence of slicing, independence of vertex numbering, empty results.
-/
import PW.Model.Slicing
import PW.Lemmas.Slicing
import PW.Lemmas.Compact
import PW.Lemmas.Assembly
import PW.Props.C01

set_option linter.unusedSectionVars false

namespace PW.C02

open PW.Slicing

variable {K : Type} [Field K] [LinearOrder K] [IsStrictOrderedRing K]

/-- all three indices of a face are below `n` -/
def FaceValid (n : Nat) (f : T3 Nat) : Prop := f.a < n ∧ f.b < n ∧ f.c < n

/-! ## A. compaction -/

theorem filterMap_valid (U : List Nat) (verts : List (V3 K)) (h : ∀ i ∈ U, i < verts.length) :
    U.filterMap (fun i => verts[i]?) = U.map (fun i => verts.getD i V3.zero) := by
  induction U with
  | nil => rfl
  | cons x xs ih =>
    have hx : x < verts.length := h x (by simp)
    simp only [List.filterMap_cons, List.getElem?_eq_getElem hx, List.map_cons, List.getD,
      Option.getD_some]
    rw [ih (fun i hi => h i (by simp [hi]))]
    simp [List.getD]

theorem compact_verts (verts : List (V3 K)) (faces : List (T3 Nat)) :
    (compact verts faces).1 =
      (uniqueIdx verts.length (usedP faces)).map (fun i => verts.getD i V3.zero) := by
  unfold compact
  simp only
  rw [unique_eq, filterMap_valid]
  intro i hi
  exact ((unique_mem _ _ _).mp hi).1

theorem compact_faces (verts : List (V3 K)) (faces : List (T3 Nat))
    (hv : ∀ f ∈ faces, FaceValid verts.length f) :
    (compact verts faces).2 = faces.map (fun f => f.map (rankOf (usedP faces))) := by
  unfold compact
  simp only
  apply List.map_congr_left
  intro f hf
  obtain ⟨ha, hb, hc⟩ := hv f hf
  simp only [T3.map]
  rw [rankIn_eq _ _ _ ha, rankIn_eq _ _ _ hb, rankIn_eq _ _ _ hc]

/-- **`unique_bincount` renumbering is correct** for every indexed mesh with valid indices:
    (1) every returned face indexes a returned vertex, (2) every returned vertex is used by a face,
    (3) every face keeps its three positions, in order, (4) the returned vertices are the used input vertices
    in increasing old index. -/
theorem C02_compact_spec (verts : List (V3 K)) (faces : List (T3 Nat))
    (hv : ∀ f ∈ faces, FaceValid verts.length f) :
    (∀ f ∈ (compact verts faces).2, FaceValid (compact verts faces).1.length f) ∧
    (∀ j < (compact verts faces).1.length, ∃ f ∈ (compact verts faces).2, f.a = j ∨ f.b = j ∨ f.c = j) ∧
    ((compact verts faces).2.map (facePos (compact verts faces).1) = faces.map (facePos verts)) ∧
    (∃ used : List Nat, used.Pairwise (· < ·) ∧
      (∀ i, i ∈ used ↔ (i < verts.length ∧ ∃ f ∈ faces, f.a = i ∨ f.b = i ∨ f.c = i)) ∧
      (compact verts faces).1 = used.map (fun i => verts.getD i V3.zero)) := by
  have hverts := compact_verts verts faces
  have hfaces := compact_faces verts faces hv
  have hlen : (compact verts faces).1.length = (uniqueIdx verts.length (usedP faces)).length := by rw [hverts]; simp
  have hget : ∀ i, i < verts.length → (usedP faces) i = true →
      (compact verts faces).1.getD (rankOf (usedP faces) i) V3.zero = verts.getD i V3.zero := by
    intro i hi hpi
    have h1 := unique_rank verts.length (usedP faces) i hi hpi
    have hlt := rank_lt verts.length (usedP faces) i hi hpi
    rw [hverts, List.getD_eq_getElem?_getD, List.getElem?_map, h1]
    rfl
  refine ⟨?_, ?_, ?_, ?_⟩
  · intro f' hf'
    rw [hfaces] at hf'
    obtain ⟨f, hf, rfl⟩ := List.mem_map.mp hf'
    obtain ⟨ha, hb, hc⟩ := hv f hf
    obtain ⟨pa, pb, pc⟩ := usedP_of_mem faces f hf
    rw [hlen]
    exact ⟨rank_lt verts.length (usedP faces) _ ha pa, rank_lt verts.length (usedP faces) _ hb pb, rank_lt verts.length (usedP faces) _ hc pc⟩
  · intro j hj
    rw [hlen] at hj
    have hmem : (uniqueIdx verts.length (usedP faces))[j] ∈ (uniqueIdx verts.length (usedP faces)) := List.getElem_mem hj
    obtain ⟨_, hpx⟩ := (unique_mem verts.length (usedP faces) _).mp hmem
    have hpx' := hpx
    simp only [usedP, List.any_eq_true, Bool.or_eq_true, beq_iff_eq] at hpx'
    obtain ⟨f, hf, hor⟩ := hpx'
    refine ⟨f.map (rankOf (usedP faces)), ?_, ?_⟩
    · rw [hfaces]; exact List.mem_map.mpr ⟨f, hf, rfl⟩
    · have hr := rank_of_unique verts.length (usedP faces) j hj
      simp only [T3.map]
      rcases hor with (h | h) | h
      · left; rw [h]; exact hr
      · right; left; rw [h]; exact hr
      · right; right; rw [h]; exact hr
  · rw [hfaces, List.map_map]
    apply List.map_congr_left
    intro f hf
    obtain ⟨ha, hb, hc⟩ := hv f hf
    obtain ⟨pa, pb, pc⟩ := usedP_of_mem faces f hf
    simp only [Function.comp, facePos, T3.map]
    rw [hget _ ha pa, hget _ hb pb, hget _ hc pc]
  · refine ⟨(uniqueIdx verts.length (usedP faces)), unique_sorted verts.length (usedP faces), ?_, hverts⟩
    intro i
    rw [unique_mem]
    simp only [usedP, List.any_eq_true, Bool.or_eq_true, beq_iff_eq]
    constructor
    · rintro ⟨hi, f, hf, hor⟩
      exact ⟨hi, f, hf, by rcases hor with (h | h) | h <;> simp [h]⟩
    · rintro ⟨hi, f, hf, hor⟩
      exact ⟨hi, f, hf, by rcases hor with h | h | h <;> simp [h]⟩


theorem compact_nil (verts : List (V3 K)) : compact verts [] = ([], []) := by
  unfold compact usedList
  simp

/-! ## B. the assembly returns the kernel's triangles, face by face -/

/-- the per-vertex signs the assembly computes -/
def vsigns (tol : K) (o n : V3 K) (verts : List (V3 K)) : List Int := verts.map fun v => vsign tol (offset o n v)

/-- the classified face list of the assembly: `(face number, face, kind)` -/
def kindsOf (tol : K) (o n : V3 K) (verts : List (V3 K)) (faces : List (T3 Nat)) (mask : List Bool) :
    List (Nat × T3 Nat × FaceKind) :=
  faces.zipIdx.map fun (f, i) =>
    (i, f, classifyFace (f.map fun j => (vsigns tol o n verts).getD j 0) (mask.getD i true))

def quadSel : Nat × T3 Nat × FaceKind → Option (Nat × T3 Nat × Nat)
  | (i, f, .quad c) => some (i, f, c)
  | _ => none
def triSel : Nat × T3 Nat × FaceKind → Option (Nat × T3 Nat × Nat)
  | (i, f, .tri c) => some (i, f, c)
  | _ => none
def isKeep : Nat × T3 Nat × FaceKind → Bool
  | (_, _, k) => k == .keep

/-- new vertices / faces / mapping, as the code builds them (before renumbering) -/
def newVertsOf (eps : K) (o n : V3 K) (verts : List (V3 K)) (quads tris : List (Nat × T3 Nat × Nat)) :
    List (V3 K) :=
  verts ++ quads.flatMap (fun e => [(intPoints eps o n (facePos verts e.2.1)).get (e.2.2 + 2),
                                     (intPoints eps o n (facePos verts e.2.1)).get e.2.2]) ++
    tris.flatMap (fun e => [(intPoints eps o n (facePos verts e.2.1)).get e.2.2,
                            (intPoints eps o n (facePos verts e.2.1)).get (e.2.2 + 2)])

def newFacesOf (n0 : Nat) (kept : List (Nat × T3 Nat × FaceKind)) (quads tris : List (Nat × T3 Nat × Nat)) :
    List (T3 Nat) :=
  kept.map (·.2.1) ++
    quadsToTris ((quads.zipIdx).map fun (e, j) =>
      (e.2.1.get (e.2.2 + 1), e.2.1.get (e.2.2 + 2), n0 + 2 * j, n0 + 2 * j + 1)) ++
    (tris.zipIdx).map fun (e, j) =>
      (⟨e.2.1.get e.2.2, (n0 + 2 * quads.length) + 2 * j, (n0 + 2 * quads.length) + 2 * j + 1⟩ : T3 Nat)

def newMappingOf (kept : List (Nat × T3 Nat × FaceKind)) (quads tris : List (Nat × T3 Nat × Nat)) : List Nat :=
  kept.map (·.1) ++ quads.flatMap (fun e => [e.1, e.1]) ++ tris.map (·.1)

/-- `sliceMesh` on a non-empty vertex list is: classify, build the new vertices and faces, renumber — the two early
    returns of the code (nothing cut and nothing kept / nothing cut) are special cases of the same formula. -/
theorem sliceMesh_unfold (tol eps : K) (verts : List (V3 K)) (faces : List (T3 Nat)) (o n : V3 K)
    (mask : List Bool) (hne : verts ≠ []) :
    let kinds := kindsOf tol o n verts faces mask
    let kept := kinds.filter isKeep
    let quads := kinds.filterMap quadSel
    let tris := kinds.filterMap triSel
    sliceMesh tol eps verts faces o n mask =
      ⟨(compact (newVertsOf eps o n verts quads tris) (newFacesOf verts.length kept quads tris)).1,
       (compact (newVertsOf eps o n verts quads tris) (newFacesOf verts.length kept quads tris)).2,
       newMappingOf kept quads tris⟩ := by
  intro kinds kept quads tris
  have hq : (kinds.filterMap fun (x : Nat × T3 Nat × FaceKind) =>
      match x with | (i, f, k) => match k with | .quad c => some (i, f, c) | _ => none) = quads := by
    apply List.filterMap_congr; rintro ⟨i, f, k⟩ _; cases k <;> rfl
  have ht : (kinds.filterMap fun (x : Nat × T3 Nat × FaceKind) =>
      match x with | (i, f, k) => match k with | .tri c => some (i, f, c) | _ => none) = tris := by
    apply List.filterMap_congr; rintro ⟨i, f, k⟩ _; cases k <;> rfl
  have hk : (kinds.filter fun (x : Nat × T3 Nat × FaceKind) => match x with | (_, _, k) => k == .keep) = kept := by
    apply List.filter_congr; rintro ⟨i, f, k⟩ _; rfl
  unfold sliceMesh
  have he : verts.isEmpty = false := by cases verts <;> simp_all
  simp only [he, Bool.false_eq_true, if_false]
  change (let kinds' := kinds; _) = _
  simp only [hq, ht, hk]
  by_cases hcut : quads.isEmpty && tris.isEmpty
  · simp only [hcut, if_true]
    have hq0 : quads = [] := by
      have := (Bool.and_eq_true _ _).mp hcut; exact List.isEmpty_iff.mp this.1
    have ht0 : tris = [] := by
      have := (Bool.and_eq_true _ _).mp hcut; exact List.isEmpty_iff.mp this.2
    have hnv : newVertsOf eps o n verts quads tris = verts := by simp [newVertsOf, hq0, ht0]
    have hnf : newFacesOf verts.length kept quads tris = kept.map (·.2.1) := by
      simp [newFacesOf, hq0, ht0, quadsToTris]
    have hnm : newMappingOf kept quads tris = kept.map (·.1) := by simp [newMappingOf, hq0, ht0]
    rw [hnv, hnf, hnm]
    by_cases hke : (kept.map (·.2.1)).isEmpty
    · simp only [hke, if_true]
      have : kept.map (·.2.1) = [] := List.isEmpty_iff.mp hke
      rw [this, compact_nil]
    · simp only [hke, Bool.false_eq_true, if_false]
  · simp only [hcut, Bool.false_eq_true, if_false]
    rfl

end PW.C02
