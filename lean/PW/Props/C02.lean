import PW.Model.Slicing
import PW.Gen.Slicer
namespace PW.C02
end PW.C02
