/-
  C02 — the sliced mesh is a well-formed indexed mesh with correct face provenance.

  Part A: the `unique_bincount` renumbering (`compact`) — indices valid, no orphan vertices, positions preserved,
          vertices in increasing old index; idempotence.
  Part B: the assembly `sliceMesh` returns, face by face and in the documented order (kept, quads, triangles), the
          triangles of the per-face kernel of C01, with the face mapping naming the source face.
  Part C: consequences: idempotence of slicing, independence of vertex numbering, empty results.
-/
import PW.Model.Slicing
import PW.Lemmas.Slicing
import PW.Lemmas.Compact
import PW.Lemmas.Assembly
import PW.Props.C01

set_option linter.unusedSectionVars false

namespace PW.C02

open PW.Slicing

variable {K : Type} [Field K] [LinearOrder K] [IsStrictOrderedRing K]

/-- all three indices of a face are below `n` -/
def FaceValid (n : Nat) (f : T3 Nat) : Prop := f.a < n ∧ f.b < n ∧ f.c < n

/-! ## A. compaction -/

theorem filterMap_valid (U : List Nat) (verts : List (V3 K)) (h : ∀ i ∈ U, i < verts.length) :
    U.filterMap (fun i => verts[i]?) = U.map (fun i => verts.getD i V3.zero) := by
  induction U with
  | nil => rfl
  | cons x xs ih =>
    have hx : x < verts.length := h x (by simp)
    simp only [List.filterMap_cons, List.getElem?_eq_getElem hx, List.map_cons, List.getD,
      Option.getD_some]
    rw [ih (fun i hi => h i (by simp [hi]))]
    simp [List.getD]

theorem compact_verts (verts : List (V3 K)) (faces : List (T3 Nat)) :
    (compact verts faces).1 =
      (uniqueIdx verts.length (usedP faces)).map (fun i => verts.getD i V3.zero) := by
  unfold compact
  simp only
  rw [unique_eq, filterMap_valid]
  intro i hi
  exact ((unique_mem _ _ _).mp hi).1

theorem compact_faces (verts : List (V3 K)) (faces : List (T3 Nat))
    (hv : ∀ f ∈ faces, FaceValid verts.length f) :
    (compact verts faces).2 = faces.map (fun f => f.map (rankOf (usedP faces))) := by
  unfold compact
  simp only
  apply List.map_congr_left
  intro f hf
  obtain ⟨ha, hb, hc⟩ := hv f hf
  simp only [T3.map]
  rw [rankIn_eq _ _ _ ha, rankIn_eq _ _ _ hb, rankIn_eq _ _ _ hc]

/-- **`unique_bincount` renumbering is correct** for every indexed mesh with valid indices:
    (1) every returned face indexes a returned vertex, (2) every returned vertex is used by a face,
    (3) every face keeps its three positions, in order, (4) the returned vertices are the used input vertices
    in increasing old index. -/
theorem C02_compact_spec (verts : List (V3 K)) (faces : List (T3 Nat))
    (hv : ∀ f ∈ faces, FaceValid verts.length f) :
    (∀ f ∈ (compact verts faces).2, FaceValid (compact verts faces).1.length f) ∧
    (∀ j < (compact verts faces).1.length, ∃ f ∈ (compact verts faces).2, f.a = j ∨ f.b = j ∨ f.c = j) ∧
    ((compact verts faces).2.map (facePos (compact verts faces).1) = faces.map (facePos verts)) ∧
    (∃ used : List Nat, used.Pairwise (· < ·) ∧
      (∀ i, i ∈ used ↔ (i < verts.length ∧ ∃ f ∈ faces, f.a = i ∨ f.b = i ∨ f.c = i)) ∧
      (compact verts faces).1 = used.map (fun i => verts.getD i V3.zero)) := by
  have hverts := compact_verts verts faces
  have hfaces := compact_faces verts faces hv
  have hlen : (compact verts faces).1.length = (uniqueIdx verts.length (usedP faces)).length := by rw [hverts]; simp
  have hget : ∀ i, i < verts.length → (usedP faces) i = true →
      (compact verts faces).1.getD (rankOf (usedP faces) i) V3.zero = verts.getD i V3.zero := by
    intro i hi hpi
    have h1 := unique_rank verts.length (usedP faces) i hi hpi
    have hlt := rank_lt verts.length (usedP faces) i hi hpi
    rw [hverts, List.getD_eq_getElem?_getD, List.getElem?_map, h1]
    rfl
  refine ⟨?_, ?_, ?_, ?_⟩
  · intro f' hf'
    rw [hfaces] at hf'
    obtain ⟨f, hf, rfl⟩ := List.mem_map.mp hf'
    obtain ⟨ha, hb, hc⟩ := hv f hf
    obtain ⟨pa, pb, pc⟩ := usedP_of_mem faces f hf
    rw [hlen]
    exact ⟨rank_lt verts.length (usedP faces) _ ha pa, rank_lt verts.length (usedP faces) _ hb pb, rank_lt verts.length (usedP faces) _ hc pc⟩
  · intro j hj
    rw [hlen] at hj
    have hmem : (uniqueIdx verts.length (usedP faces))[j] ∈ (uniqueIdx verts.length (usedP faces)) := List.getElem_mem hj
    obtain ⟨_, hpx⟩ := (unique_mem verts.length (usedP faces) _).mp hmem
    have hpx' := hpx
    simp only [usedP, List.any_eq_true, Bool.or_eq_true, beq_iff_eq] at hpx'
    obtain ⟨f, hf, hor⟩ := hpx'
    refine ⟨f.map (rankOf (usedP faces)), ?_, ?_⟩
    · rw [hfaces]; exact List.mem_map.mpr ⟨f, hf, rfl⟩
    · have hr := rank_of_unique verts.length (usedP faces) j hj
      simp only [T3.map]
      rcases hor with (h | h) | h
      · left; rw [h]; exact hr
      · right; left; rw [h]; exact hr
      · right; right; rw [h]; exact hr
  · rw [hfaces, List.map_map]
    apply List.map_congr_left
    intro f hf
    obtain ⟨ha, hb, hc⟩ := hv f hf
    obtain ⟨pa, pb, pc⟩ := usedP_of_mem faces f hf
    simp only [Function.comp, facePos, T3.map]
    rw [hget _ ha pa, hget _ hb pb, hget _ hc pc]
  · refine ⟨(uniqueIdx verts.length (usedP faces)), unique_sorted verts.length (usedP faces), ?_, hverts⟩
    intro i
    rw [unique_mem]
    simp only [usedP, List.any_eq_true, Bool.or_eq_true, beq_iff_eq]
    constructor
    · rintro ⟨hi, f, hf, hor⟩
      exact ⟨hi, f, hf, by rcases hor with (h | h) | h <;> simp [h]⟩
    · rintro ⟨hi, f, hf, hor⟩
      exact ⟨hi, f, hf, by rcases hor with h | h | h <;> simp [h]⟩


theorem compact_nil (verts : List (V3 K)) : compact verts [] = ([], []) := by
  have h : ∀ x, (usedList verts.length ([] : List (T3 Nat))).getD x false = false := by
    intro x
    by_cases hx : x < verts.length
    · rw [usedList_getD _ _ _ hx]; simp [usedP]
    · have : (usedList verts.length ([] : List (T3 Nat))).length ≤ x := by rw [usedList_length]; omega
      simp [List.getD, List.getElem?_eq_none this]
  unfold compact
  simp only [h, List.map_nil]
  simp

/-! ## B. the assembly returns the kernel's triangles, face by face -/

/-- `sliceMesh` on a non-empty vertex list is: classify, build the new vertices and faces, renumber — the two early
    returns of the code (nothing cut and nothing kept / nothing cut) are special cases of the same formula. -/
theorem sliceMesh_unfold (tol eps : K) (verts : List (V3 K)) (faces : List (T3 Nat)) (o n : V3 K)
    (mask : List Bool) (hne : verts ≠ []) :
    let kinds := kindsOf tol o n verts faces mask
    let kept := kinds.filter isKeep
    let quads := kinds.filterMap quadSel
    let tris := kinds.filterMap triSel
    sliceMesh tol eps verts faces o n mask =
      ⟨(compact (newVertsOf eps o n verts quads tris) (newFacesOf verts.length kept quads tris)).1,
       (compact (newVertsOf eps o n verts quads tris) (newFacesOf verts.length kept quads tris)).2,
       newMappingOf kept quads tris⟩ := by
  intro kinds kept quads tris
  unfold sliceMesh
  have he : verts.isEmpty = false := by cases verts <;> simp_all
  simp only [he, Bool.false_eq_true, if_false]
  show (if quads.isEmpty && tris.isEmpty then
      (if (kept.map (·.2.1)).isEmpty then (⟨[], [], kept.map (·.1)⟩ : Result K)
       else ⟨(compact verts (kept.map (·.2.1))).1, (compact verts (kept.map (·.2.1))).2, kept.map (·.1)⟩)
    else ⟨(compact (newVertsOf eps o n verts quads tris) (newFacesOf verts.length kept quads tris)).1,
          (compact (newVertsOf eps o n verts quads tris) (newFacesOf verts.length kept quads tris)).2,
          newMappingOf kept quads tris⟩) = _
  by_cases hcut : (quads.isEmpty && tris.isEmpty) = true
  · rw [if_pos hcut]
    have hq0 : quads = [] := by
      have := (Bool.and_eq_true _ _).mp hcut; exact List.isEmpty_iff.mp this.1
    have ht0 : tris = [] := by
      have := (Bool.and_eq_true _ _).mp hcut; exact List.isEmpty_iff.mp this.2
    have hnv : newVertsOf eps o n verts quads tris = verts := by simp [newVertsOf, hq0, ht0]
    have hnf : newFacesOf verts.length kept quads tris = kept.map (·.2.1) := by
      simp [newFacesOf, hq0, ht0, quadsToTris]
    have hnm : newMappingOf kept quads tris = kept.map (·.1) := by simp [newMappingOf, hq0, ht0]
    rw [hnv, hnf, hnm]
    by_cases hke : (kept.map (·.2.1)).isEmpty = true
    · rw [if_pos hke]
      have : kept.map (·.2.1) = [] := List.isEmpty_iff.mp hke
      rw [this, compact_nil]
    · rw [if_neg hke]
  · rw [if_neg hcut]


theorem T3.get_lt (n : Nat) (f : T3 Nat) (h : FaceValid n f) (i : Nat) : f.get i < n := by
  obtain ⟨ha, hb, hc⟩ := h
  rcases T3.get_cases f i with ⟨_, e, _, _⟩ | ⟨_, e, _, _⟩ | ⟨_, e, _, _⟩ <;> rw [e] <;> assumption

theorem facePos_get (verts : List (V3 K)) (f : T3 Nat) (i : Nat) :
    (facePos verts f).get i = verts.getD (f.get i) V3.zero := by
  unfold facePos; rw [T3.get_map]

theorem facePos_append (verts extra : List (V3 K)) (f : T3 Nat) (h : FaceValid verts.length f) :
    facePos (verts ++ extra) f = facePos verts f := by
  obtain ⟨ha, hb, hc⟩ := h
  simp only [facePos, T3.map, getD_append_lt _ _ _ ha, getD_append_lt _ _ _ hb, getD_append_lt _ _ _ hc]

theorem length_flatMap_pair {E α : Type} (l : List E) (g h : E → α) :
    (l.flatMap fun e => [g e, h e]).length = 2 * l.length := by
  induction l with
  | nil => rfl
  | cons e l ih => simp only [List.flatMap_cons, List.length_append, List.length_cons, List.length_nil, ih]; omega

/-- positional triangles a quad entry `(i, f, c)` contributes (`c` = column of the corner behind) -/
def quadOut (eps : K) (o n : V3 K) (verts : List (V3 K)) (e : Nat × T3 Nat × Nat) : List (T3 (V3 K)) :=
  let p := facePos verts e.2.1
  let x := intPoints eps o n p
  [⟨p.get (e.2.2 + 1), p.get (e.2.2 + 2), x.get (e.2.2 + 2)⟩, ⟨p.get (e.2.2 + 1), x.get (e.2.2 + 2), x.get e.2.2⟩]

/-- positional triangle a cut-triangle entry `(i, f, c)` contributes (`c` = column of the corner in front) -/
def triOut (eps : K) (o n : V3 K) (verts : List (V3 K)) (e : Nat × T3 Nat × Nat) : T3 (V3 K) :=
  let p := facePos verts e.2.1
  let x := intPoints eps o n p
  ⟨p.get e.2.2, x.get e.2.2, x.get (e.2.2 + 2)⟩

/-- the faces built by the assembly, read through the vertices built by the assembly, are: the kept faces as they
    were, then the two triangles of each quad entry, then the triangle of each cut-triangle entry; and every index
    is valid. -/
theorem assemble_positions (eps : K) (o n : V3 K) (verts : List (V3 K))
    (kept : List (Nat × T3 Nat × FaceKind)) (quads tris : List (Nat × T3 Nat × Nat))
    (hk : ∀ e ∈ kept, FaceValid verts.length e.2.1) (hq : ∀ e ∈ quads, FaceValid verts.length e.2.1)
    (ht : ∀ e ∈ tris, FaceValid verts.length e.2.1) :
    (newFacesOf verts.length kept quads tris).map (facePos (newVertsOf eps o n verts quads tris)) =
        kept.map (fun e => facePos verts e.2.1) ++ quads.flatMap (quadOut eps o n verts) ++
          tris.map (triOut eps o n verts) ∧
    ∀ f ∈ newFacesOf verts.length kept quads tris, FaceValid (newVertsOf eps o n verts quads tris).length f := by
  set qv := quads.flatMap (fun e => [(intPoints eps o n (facePos verts e.2.1)).get (e.2.2 + 2),
                                      (intPoints eps o n (facePos verts e.2.1)).get e.2.2]) with hqv
  set tv := tris.flatMap (fun e => [(intPoints eps o n (facePos verts e.2.1)).get e.2.2,
                                     (intPoints eps o n (facePos verts e.2.1)).get (e.2.2 + 2)]) with htv
  have hlenq : qv.length = 2 * quads.length := length_flatMap_pair _ _ _
  have hlent : tv.length = 2 * tris.length := length_flatMap_pair _ _ _
  have hW : newVertsOf eps o n verts quads tris = verts ++ qv ++ tv := rfl
  have hWlen : (newVertsOf eps o n verts quads tris).length = verts.length + 2 * quads.length + 2 * tris.length := by
    rw [hW]; simp only [List.length_append, hlenq, hlent]
  constructor
  · unfold newFacesOf
    rw [List.map_append, List.map_append, hW]
    congr 1
    · congr 1
      · -- kept faces
        rw [List.map_map]
        apply List.map_congr_left
        intro e he
        simp only [Function.comp]
        rw [List.append_assoc, facePos_append _ _ _ (hk e he)]
      · -- quads
        have := quads_positions (K := K) (fun i => verts.getD i V3.zero) verts.length
          (fun e : Nat × T3 Nat × Nat => e.2.1.get (e.2.2 + 1)) (fun e => e.2.1.get (e.2.2 + 2))
          (fun e => (intPoints eps o n (facePos verts e.2.1)).get (e.2.2 + 2))
          (fun e => (intPoints eps o n (facePos verts e.2.1)).get e.2.2)
          quads (fun e he => ⟨T3.get_lt _ _ (hq e he) _, T3.get_lt _ _ (hq e he) _⟩) tv
          0 verts.length verts (by simp) (le_refl _) (fun i _ => rfl)
        rw [this]
        apply List.flatMap_congr
        intro e _
        simp only [quadOut, facePos_get]
    · -- triangles
      have := tris_positions (K := K) (fun i => verts.getD i V3.zero) verts.length
        (fun e : Nat × T3 Nat × Nat => e.2.1.get e.2.2)
        (fun e => (intPoints eps o n (facePos verts e.2.1)).get e.2.2)
        (fun e => (intPoints eps o n (facePos verts e.2.1)).get (e.2.2 + 2))
        tris (fun e he => T3.get_lt _ _ (ht e he) _) []
        0 (verts.length + 2 * quads.length) (verts ++ qv) (by simp [hlenq]) (by simp)
        (fun i hi => getD_append_lt _ _ _ hi)
      rw [List.append_nil] at this
      rw [this]
      apply List.map_congr_left
      intro e _
      simp only [triOut, facePos_get]
  · intro f hf
    unfold newFacesOf at hf
    rw [hWlen]
    simp only [List.mem_append] at hf
    rcases hf with (hf | hf) | hf
    · obtain ⟨e, he, rfl⟩ := List.mem_map.mp hf
      obtain ⟨ha, hb, hc⟩ := hk e he
      exact ⟨by omega, by omega, by omega⟩
    · exact quads_valid verts.length (fun e : Nat × T3 Nat × Nat => e.2.1.get (e.2.2 + 1))
        (fun e => e.2.1.get (e.2.2 + 2)) quads
        (fun e he => ⟨T3.get_lt _ _ (hq e he) _, T3.get_lt _ _ (hq e he) _⟩) verts.length _ (by omega) 0
        (by omega) f hf
    · exact tris_valid verts.length (fun e : Nat × T3 Nat × Nat => e.2.1.get e.2.2) tris (fun e he => T3.get_lt _ _ (ht e he) _)
        (verts.length + 2 * quads.length) _ (by omega) 0 (by omega) f hf


/-- the kernel's answer for face number `e.1` with corners `e.2.1` -/
def kernelAt (tol eps : K) (o n : V3 K) (verts : List (V3 K)) (mask : List Bool)
    (e : Nat × T3 Nat × FaceKind) : List (T3 (V3 K)) :=
  sliceFacePos tol eps o n (facePos verts e.2.1) (mask.getD e.1 true)

/-- kernel triangles tagged with their source face number -/
def taggedKernel (tol eps : K) (o n : V3 K) (verts : List (V3 K)) (mask : List Bool)
    (e : Nat × T3 Nat × FaceKind) : List (Nat × T3 (V3 K)) :=
  (kernelAt tol eps o n verts mask e).map fun t => (e.1, t)

def isQuadK : Nat × T3 Nat × FaceKind → Bool
  | (_, _, .quad _) => true
  | _ => false
def isTriK : Nat × T3 Nat × FaceKind → Bool
  | (_, _, .tri _) => true
  | _ => false

/-- every entry of the classified list is a face of the input with its number, and carries the kernel's own
    classification of that face -/
theorem kinds_spec (tol : K) (o n : V3 K) (verts : List (V3 K)) (faces : List (T3 Nat)) (mask : List Bool)
    (hv : ∀ f ∈ faces, FaceValid verts.length f) :
    ∀ e ∈ kindsOf tol o n verts faces mask,
      faces[e.1]? = some e.2.1 ∧ FaceValid verts.length e.2.1 ∧
      e.2.2 = classifyFace ((facePos verts e.2.1).map fun v => vsign tol (offset o n v)) (mask.getD e.1 true) := by
  intro e he
  unfold kindsOf at he
  obtain ⟨⟨f, i⟩, hfi, rfl⟩ := List.mem_map.mp he
  have hget : faces[i]? = some f := by
    obtain ⟨hi, hf⟩ := List.mem_zipIdx' hfi
    rw [List.getElem?_eq_getElem hi, hf]
  have hf : f ∈ faces := List.mem_of_getElem? hget
  obtain ⟨ha, hb, hc⟩ := hv f hf
  refine ⟨hget, hv f hf, ?_⟩
  simp only
  congr 1
  have key : ∀ j, j < verts.length →
      (vsigns tol o n verts).getD j 0 = vsign tol (offset o n (verts.getD j V3.zero)) := by
    intro j hj
    simp [vsigns, List.getD, List.getElem?_map, List.getElem?_eq_getElem hj]
  simp only [facePos, T3.map, key _ ha, key _ hb, key _ hc]

theorem kernel_keep (tol eps : K) (o n : V3 K) (verts : List (V3 K)) (mask : List Bool)
    (e : Nat × T3 Nat × FaceKind)
    (hk : e.2.2 = classifyFace ((facePos verts e.2.1).map fun v => vsign tol (offset o n v)) (mask.getD e.1 true))
    (h : isKeep e = true) : kernelAt tol eps o n verts mask e = [facePos verts e.2.1] := by
  obtain ⟨i, f, k⟩ := e
  have hk' : k = .keep := by cases k <;> simp [isKeep] at h ⊢
  subst hk'
  unfold kernelAt sliceFacePos
  simp only at hk ⊢
  rw [← hk]

theorem kernel_quad (tol eps : K) (o n : V3 K) (verts : List (V3 K)) (mask : List Bool)
    (i : Nat) (f : T3 Nat) (c : Nat)
    (hk : FaceKind.quad c = classifyFace ((facePos verts f).map fun v => vsign tol (offset o n v)) (mask.getD i true)) :
    kernelAt tol eps o n verts mask (i, f, .quad c) = quadOut eps o n verts (i, f, c) := by
  unfold kernelAt sliceFacePos quadOut
  simp only
  rw [← hk]

theorem kernel_tri (tol eps : K) (o n : V3 K) (verts : List (V3 K)) (mask : List Bool)
    (i : Nat) (f : T3 Nat) (c : Nat)
    (hk : FaceKind.tri c = classifyFace ((facePos verts f).map fun v => vsign tol (offset o n v)) (mask.getD i true)) :
    kernelAt tol eps o n verts mask (i, f, .tri c) = [triOut eps o n verts (i, f, c)] := by
  unfold kernelAt sliceFacePos triOut
  simp only
  rw [← hk]

/-- the classification stored in an entry is the kernel's own -/
def EntryOk (tol : K) (o n : V3 K) (verts : List (V3 K)) (mask : List Bool) (e : Nat × T3 Nat × FaceKind) : Prop :=
  e.2.2 = classifyFace ((facePos verts e.2.1).map fun v => vsign tol (offset o n v)) (mask.getD e.1 true)

theorem group_keep (tol eps : K) (o n : V3 K) (verts : List (V3 K)) (mask : List Bool)
    (L : List (Nat × T3 Nat × FaceKind)) (h : ∀ e ∈ L, EntryOk tol o n verts mask e) :
    ((L.filter isKeep).map (·.1)).zip ((L.filter isKeep).map fun e => facePos verts e.2.1) =
      (L.filter isKeep).flatMap (taggedKernel tol eps o n verts mask) := by
  induction L with
  | nil => rfl
  | cons e l ih =>
    have ih' := ih (fun e' he' => h e' (by simp [he']))
    by_cases hk : isKeep e = true
    · rw [List.filter_cons_of_pos hk, List.flatMap_cons, List.map_cons, List.map_cons, List.zip_cons_cons, ih']
      unfold taggedKernel
      rw [kernel_keep tol eps o n verts mask e (h e (by simp)) hk]
      rfl
    · rw [List.filter_cons_of_neg hk]; exact ih'

theorem group_quad (tol eps : K) (o n : V3 K) (verts : List (V3 K)) (mask : List Bool)
    (L : List (Nat × T3 Nat × FaceKind)) (h : ∀ e ∈ L, EntryOk tol o n verts mask e) :
    ((L.filterMap quadSel).flatMap fun e => [e.1, e.1]).zip ((L.filterMap quadSel).flatMap (quadOut eps o n verts)) =
      (L.filter isQuadK).flatMap (taggedKernel tol eps o n verts mask) := by
  induction L with
  | nil => rfl
  | cons e l ih =>
    have ih' := ih (fun e' he' => h e' (by simp [he']))
    have hsp := h e (by simp)
    obtain ⟨i, f, k⟩ := e
    cases k with
    | quad c =>
      have e1 : List.filterMap quadSel ((i, f, FaceKind.quad c) :: l) = (i, f, c) :: List.filterMap quadSel l := by
        simp [List.filterMap_cons, quadSel]
      have e2 : List.filter isQuadK ((i, f, FaceKind.quad c) :: l) = (i, f, FaceKind.quad c) :: List.filter isQuadK l := by
        simp [List.filter_cons, isQuadK]
      rw [e1, e2, List.flatMap_cons, List.flatMap_cons, List.flatMap_cons]
      have hq : quadOut eps o n verts (i, f, c) = kernelAt tol eps o n verts mask (i, f, .quad c) :=
        (kernel_quad tol eps o n verts mask i f c hsp).symm
      have hlen : ([i, i] : List Nat).length = (quadOut eps o n verts (i, f, c)).length := by simp [quadOut]
      rw [List.zip_append hlen, ih']
      congr 1
      unfold taggedKernel
      rw [← hq]
      simp [quadOut]
    | keep =>
      have e1 : List.filterMap quadSel ((i, f, FaceKind.keep) :: l) = List.filterMap quadSel l := by
        simp [List.filterMap_cons, quadSel]
      have e2 : List.filter isQuadK ((i, f, FaceKind.keep) :: l) = List.filter isQuadK l := by
        simp [List.filter_cons, isQuadK]
      rw [e1, e2]; exact ih'
    | drop =>
      have e1 : List.filterMap quadSel ((i, f, FaceKind.drop) :: l) = List.filterMap quadSel l := by
        simp [List.filterMap_cons, quadSel]
      have e2 : List.filter isQuadK ((i, f, FaceKind.drop) :: l) = List.filter isQuadK l := by
        simp [List.filter_cons, isQuadK]
      rw [e1, e2]; exact ih'
    | tri c =>
      have e1 : List.filterMap quadSel ((i, f, FaceKind.tri c) :: l) = List.filterMap quadSel l := by
        simp [List.filterMap_cons, quadSel]
      have e2 : List.filter isQuadK ((i, f, FaceKind.tri c) :: l) = List.filter isQuadK l := by
        simp [List.filter_cons, isQuadK]
      rw [e1, e2]; exact ih'

theorem group_tri (tol eps : K) (o n : V3 K) (verts : List (V3 K)) (mask : List Bool)
    (L : List (Nat × T3 Nat × FaceKind)) (h : ∀ e ∈ L, EntryOk tol o n verts mask e) :
    ((L.filterMap triSel).map (·.1)).zip ((L.filterMap triSel).map (triOut eps o n verts)) =
      (L.filter isTriK).flatMap (taggedKernel tol eps o n verts mask) := by
  induction L with
  | nil => rfl
  | cons e l ih =>
    have ih' := ih (fun e' he' => h e' (by simp [he']))
    have hsp := h e (by simp)
    obtain ⟨i, f, k⟩ := e
    cases k with
    | tri c =>
      have e1 : List.filterMap triSel ((i, f, FaceKind.tri c) :: l) = (i, f, c) :: List.filterMap triSel l := by
        simp [List.filterMap_cons, triSel]
      have e2 : List.filter isTriK ((i, f, FaceKind.tri c) :: l) = (i, f, FaceKind.tri c) :: List.filter isTriK l := by
        simp [List.filter_cons, isTriK]
      rw [e1, e2, List.map_cons, List.map_cons, List.zip_cons_cons, List.flatMap_cons, ih']
      unfold taggedKernel
      rw [kernel_tri tol eps o n verts mask i f c hsp]
      rfl
    | keep =>
      have e1 : List.filterMap triSel ((i, f, FaceKind.keep) :: l) = List.filterMap triSel l := by
        simp [List.filterMap_cons, triSel]
      have e2 : List.filter isTriK ((i, f, FaceKind.keep) :: l) = List.filter isTriK l := by
        simp [List.filter_cons, isTriK]
      rw [e1, e2]; exact ih'
    | drop =>
      have e1 : List.filterMap triSel ((i, f, FaceKind.drop) :: l) = List.filterMap triSel l := by
        simp [List.filterMap_cons, triSel]
      have e2 : List.filter isTriK ((i, f, FaceKind.drop) :: l) = List.filter isTriK l := by
        simp [List.filter_cons, isTriK]
      rw [e1, e2]; exact ih'
    | quad c =>
      have e1 : List.filterMap triSel ((i, f, FaceKind.quad c) :: l) = List.filterMap triSel l := by
        simp [List.filterMap_cons, triSel]
      have e2 : List.filter isTriK ((i, f, FaceKind.quad c) :: l) = List.filter isTriK l := by
        simp [List.filter_cons, isTriK]
      rw [e1, e2]; exact ih'

theorem len_quad (eps : K) (o n : V3 K) (verts : List (V3 K)) (Q : List (Nat × T3 Nat × Nat)) :
    (Q.flatMap fun e => [e.1, e.1]).length = (Q.flatMap (quadOut eps o n verts)).length := by
  induction Q with
  | nil => rfl
  | cons e l ih => simp only [List.flatMap_cons, List.length_append, ih]; simp [quadOut]

theorem sel_valid (verts : List (V3 K)) (L : List (Nat × T3 Nat × FaceKind))
    (h : ∀ e ∈ L, FaceValid verts.length e.2.1) :
    (∀ e ∈ L.filterMap quadSel, FaceValid verts.length e.2.1) ∧
    (∀ e ∈ L.filterMap triSel, FaceValid verts.length e.2.1) := by
  constructor
  · intro e he
    obtain ⟨⟨i, f, k⟩, he0, hsel⟩ := List.mem_filterMap.mp he
    cases k <;> simp [quadSel] at hsel
    subst hsel
    exact h _ he0
  · intro e he
    obtain ⟨⟨i, f, k⟩, he0, hsel⟩ := List.mem_filterMap.mp he
    cases k <;> simp [triSel] at hsel
    subst hsel
    exact h _ he0

/-- **the assembly is the kernel, face by face** (non-empty vertex list, valid faces): pairing each returned face's
    source number (`face_mapping`) with its three positions gives exactly the kernel's triangles of the kept faces,
    then of the faces cut into quads, then of the faces cut into triangles — each in input order, each tagged with
    its own face number.  Holds for every mask; `ret_face_mapping` only decides whether the mapping is returned. -/
theorem C02_mesh_lift (tol eps : K) (verts : List (V3 K)) (faces : List (T3 Nat)) (o n : V3 K)
    (mask : List Bool) (hne : verts ≠ []) (hv : ∀ f ∈ faces, FaceValid verts.length f) :
    (sliceMesh tol eps verts faces o n mask).mapping.zip (sliceMesh tol eps verts faces o n mask).positions =
      ((kindsOf tol o n verts faces mask).filter isKeep).flatMap (taggedKernel tol eps o n verts mask) ++
      ((kindsOf tol o n verts faces mask).filter isQuadK).flatMap (taggedKernel tol eps o n verts mask) ++
      ((kindsOf tol o n verts faces mask).filter isTriK).flatMap (taggedKernel tol eps o n verts mask) ∧
    (sliceMesh tol eps verts faces o n mask).mapping.length =
      (sliceMesh tol eps verts faces o n mask).faces.length := by
  have hspec := kinds_spec tol o n verts faces mask hv
  have hun := sliceMesh_unfold tol eps verts faces o n mask hne
  simp only at hun
  generalize hL : kindsOf tol o n verts faces mask = L at hspec hun ⊢
  have hok : ∀ e ∈ L, EntryOk tol o n verts mask e := fun e he => (hspec e he).2.2
  have hvalL : ∀ e ∈ L, FaceValid verts.length e.2.1 := fun e he => (hspec e he).2.1
  have hkv : ∀ e ∈ L.filter isKeep, FaceValid verts.length e.2.1 := fun e he =>
    hvalL e (List.mem_of_mem_filter he)
  obtain ⟨hqv, htv⟩ := sel_valid verts L hvalL
  obtain ⟨hpos, hvalid⟩ := assemble_positions eps o n verts _ _ _ hkv hqv htv
  have hcs := (C02_compact_spec _ _ hvalid).2.2.1
  have hposr : (sliceMesh tol eps verts faces o n mask).positions =
      (L.filter isKeep).map (fun e => facePos verts e.2.1) ++ (L.filterMap quadSel).flatMap (quadOut eps o n verts) ++
      (L.filterMap triSel).map (triOut eps o n verts) := by
    rw [hun]; unfold Result.positions; simp only; rw [hcs, hpos]
  have hmapr : (sliceMesh tol eps verts faces o n mask).mapping =
      newMappingOf (L.filter isKeep) (L.filterMap quadSel) (L.filterMap triSel) := by
    rw [hun]
  have l1 : ((L.filter isKeep).map (·.1)).length = ((L.filter isKeep).map fun e => facePos verts e.2.1).length := by
    simp
  have l2 := len_quad eps o n verts (L.filterMap quadSel)
  constructor
  · rw [hposr, hmapr]
    unfold newMappingOf
    rw [List.zip_append (by simp only [List.length_append, l1, l2]), List.zip_append l1,
      group_keep tol eps o n verts mask L hok, group_quad tol eps o n verts mask L hok,
      group_tri tol eps o n verts mask L hok]
  · have : (sliceMesh tol eps verts faces o n mask).positions.length =
        (sliceMesh tol eps verts faces o n mask).faces.length := by unfold Result.positions; simp
    rw [← this, hposr, hmapr]
    unfold newMappingOf
    simp only [List.length_append, l1, l2, List.length_map]


/-! ## C. consequences -/

/-- **valid indexed mesh**: every returned face indexes returned vertices, and every returned vertex is used by a
    face — on every return path (nothing cut and nothing kept, nothing cut, quads and/or triangles cut). -/
theorem C02_indices_valid_no_orphans (tol eps : K) (verts : List (V3 K)) (faces : List (T3 Nat)) (o n : V3 K)
    (mask : List Bool) (hne : verts ≠ []) (hv : ∀ f ∈ faces, FaceValid verts.length f) :
    let r := sliceMesh tol eps verts faces o n mask
    (∀ f ∈ r.faces, FaceValid r.verts.length f) ∧
    (∀ j < r.verts.length, ∃ f ∈ r.faces, f.a = j ∨ f.b = j ∨ f.c = j) := by
  intro r
  have hspec := kinds_spec tol o n verts faces mask hv
  have hun := sliceMesh_unfold tol eps verts faces o n mask hne
  simp only at hun
  generalize hL : kindsOf tol o n verts faces mask = L at hspec hun
  have hvalL : ∀ e ∈ L, FaceValid verts.length e.2.1 := fun e he => (hspec e he).2.1
  have hkv : ∀ e ∈ L.filter isKeep, FaceValid verts.length e.2.1 := fun e he =>
    hvalL e (List.mem_of_mem_filter he)
  obtain ⟨hqv, htv⟩ := sel_valid verts L hvalL
  obtain ⟨_, hvalid⟩ := assemble_positions eps o n verts _ _ _ hkv hqv htv
  obtain ⟨h1, h2, _, _⟩ := C02_compact_spec _ _ hvalid
  show (∀ f ∈ (sliceMesh tol eps verts faces o n mask).faces,
      FaceValid (sliceMesh tol eps verts faces o n mask).verts.length f) ∧
    (∀ j < (sliceMesh tol eps verts faces o n mask).verts.length,
      ∃ f ∈ (sliceMesh tol eps verts faces o n mask).faces, f.a = j ∨ f.b = j ∨ f.c = j)
  rw [hun]
  exact ⟨h1, h2⟩

/-- **provenance**: every returned face, paired with its `face_mapping` entry `i`, is one of the kernel's triangles
    for input face `i` — hence (C01) lies in that face's plane and outline, with the same orientation. -/
theorem C02_provenance (tol eps : K) (verts : List (V3 K)) (faces : List (T3 Nat)) (o n : V3 K)
    (mask : List Bool) (hne : verts ≠ []) (hv : ∀ f ∈ faces, FaceValid verts.length f) :
    ∀ it ∈ (sliceMesh tol eps verts faces o n mask).mapping.zip (sliceMesh tol eps verts faces o n mask).positions,
      ∃ f, faces[it.1]? = some f ∧ it.2 ∈ sliceFacePos tol eps o n (facePos verts f) (mask.getD it.1 true) := by
  intro it hit
  rw [(C02_mesh_lift tol eps verts faces o n mask hne hv).1] at hit
  have hspec := kinds_spec tol o n verts faces mask hv
  have key : ∀ L' : List (Nat × T3 Nat × FaceKind), (∀ e ∈ L', e ∈ kindsOf tol o n verts faces mask) →
      it ∈ L'.flatMap (taggedKernel tol eps o n verts mask) →
      ∃ f, faces[it.1]? = some f ∧ it.2 ∈ sliceFacePos tol eps o n (facePos verts f) (mask.getD it.1 true) := by
    intro L' hsub hmem
    obtain ⟨e, he, hin⟩ := List.mem_flatMap.mp hmem
    unfold taggedKernel at hin
    obtain ⟨t, ht, rfl⟩ := List.mem_map.mp hin
    exact ⟨e.2.1, (hspec e (hsub e he)).1, ht⟩
  simp only [List.mem_append] at hit
  rcases hit with (h | h) | h
  · exact key _ (fun e he => List.mem_of_mem_filter he) h
  · exact key _ (fun e he => List.mem_of_mem_filter he) h
  · exact key _ (fun e he => List.mem_of_mem_filter he) h

/-- … so no returned vertex position lies outside the input face named by the mapping (C01 lifted to the arrays). -/
theorem C02_output_in_source_face (tol eps : K) (verts : List (V3 K)) (faces : List (T3 Nat)) (o n : V3 K)
    (mask : List Bool) (hne : verts ≠ []) (hv : ∀ f ∈ faces, FaceValid verts.length f) :
    ∀ it ∈ (sliceMesh tol eps verts faces o n mask).mapping.zip (sliceMesh tol eps verts faces o n mask).positions,
      ∃ f, faces[it.1]? = some f ∧ PW.C01.InFace (facePos verts f) it.2.a ∧
        PW.C01.InFace (facePos verts f) it.2.b ∧ PW.C01.InFace (facePos verts f) it.2.c := by
  intro it hit
  obtain ⟨f, hf, hk⟩ := C02_provenance tol eps verts faces o n mask hne hv it hit
  exact ⟨f, hf, PW.C01.C01_out_in_face tol eps o n _ _ _ hk⟩

/-- **completeness**: every triangle the kernel produces for input face `i` is returned, tagged `i`. -/
theorem C02_complete (tol eps : K) (verts : List (V3 K)) (faces : List (T3 Nat)) (o n : V3 K)
    (mask : List Bool) (hne : verts ≠ []) (hv : ∀ f ∈ faces, FaceValid verts.length f)
    (i : Nat) (f : T3 Nat) (hf : faces[i]? = some f) :
    ∀ t ∈ sliceFacePos tol eps o n (facePos verts f) (mask.getD i true),
      (i, t) ∈ (sliceMesh tol eps verts faces o n mask).mapping.zip
        (sliceMesh tol eps verts faces o n mask).positions := by
  intro t ht
  rw [(C02_mesh_lift tol eps verts faces o n mask hne hv).1]
  have hspec := kinds_spec tol o n verts faces mask hv
  -- the entry of face i
  have hmem : (f, i) ∈ faces.zipIdx := by
    have hi : i < faces.length := (List.getElem?_eq_some_iff.mp hf).1
    have : faces[i] = f := (List.getElem?_eq_some_iff.mp hf).2
    exact List.mem_zipIdx_iff_getElem?.mpr (by simpa using hf)
  set e : Nat × T3 Nat × FaceKind :=
    (i, f, classifyFace (f.map fun j => (vsigns tol o n verts).getD j 0) (mask.getD i true)) with he
  have hein : e ∈ kindsOf tol o n verts faces mask := by
    unfold kindsOf
    exact List.mem_map.mpr ⟨(f, i), hmem, rfl⟩
  have htag : (i, t) ∈ taggedKernel tol eps o n verts mask e := by
    unfold taggedKernel kernelAt
    exact List.mem_map.mpr ⟨t, ht, rfl⟩
  have hok := (hspec e hein).2.2
  -- which group?
  have hkind : e.2.2 = classifyFace ((facePos verts f).map fun v => vsign tol (offset o n v)) (mask.getD i true) := hok
  simp only [List.mem_append, List.mem_flatMap]
  cases hk : e.2.2 with
  | keep => left; left; exact ⟨e, List.mem_filter.mpr ⟨hein, by obtain ⟨a, b, c⟩ := e; simp_all [isKeep]⟩, htag⟩
  | quad c => left; right; exact ⟨e, List.mem_filter.mpr ⟨hein, by obtain ⟨a, b, c'⟩ := e; simp_all [isQuadK]⟩, htag⟩
  | tri c => right; exact ⟨e, List.mem_filter.mpr ⟨hein, by obtain ⟨a, b, c'⟩ := e; simp_all [isTriK]⟩, htag⟩
  | drop =>
    exfalso
    unfold sliceFacePos at ht
    simp only at ht
    rw [← hkind, hk] at ht
    simp at ht

/-- **empty inputs**: no vertices → the input arrays are returned; no faces, or every (selected) face dropped and none
    kept → empty vertex and face lists. -/
theorem C02_empty (tol eps : K) (verts : List (V3 K)) (faces : List (T3 Nat)) (o n : V3 K) (mask : List Bool) :
    (verts = [] → sliceMesh tol eps verts faces o n mask = ⟨[], faces, List.range faces.length⟩) ∧
    (verts ≠ [] → faces = [] → sliceMesh tol eps verts faces o n mask = ⟨[], [], []⟩) := by
  constructor
  · intro h; subst h; unfold sliceMesh; simp
  · intro hne hf
    subst hf
    have he : verts.isEmpty = false := by cases verts <;> simp_all
    unfold sliceMesh
    simp [he, kindsOf]


theorem classify_keep_of_not_behind (tol : K) (ht : 0 ≤ tol) (o n : V3 K) (p : T3 (V3 K)) (sel : Bool)
    (h : -tol ≤ offset o n p.a ∧ -tol ≤ offset o n p.b ∧ -tol ≤ offset o n p.c) :
    classifyFace (p.map fun v => vsign tol (offset o n v)) sel = .keep := by
  have tbl := PW.C01.C01_case_table tol (p.map (offset o n)) sel
  simp only [PW.C01.CaseTable, PW.C01.behindS, T3.map] at tbl
  apply tbl.1.mpr
  right
  obtain ⟨ha, hb, hc⟩ := h
  rintro (h1 | h1 | h1)
  · have := (vsign_behind_iff ht _).mp h1; linarith
  · have := (vsign_behind_iff ht _).mp h1; linarith
  · have := (vsign_behind_iff ht _).mp h1; linarith

theorem filter_eq_self_of_all {α : Type} (l : List α) (p : α → Bool) (h : ∀ x ∈ l, p x = true) :
    l.filter p = l := List.filter_eq_self.mpr h

theorem filter_eq_nil_of_none {α : Type} (l : List α) (p : α → Bool) (h : ∀ x ∈ l, p x = false) :
    l.filter p = [] := by
  apply List.filter_eq_nil_iff.mpr
  intro x hx; simp [h x hx]

/-- **idempotence**: slicing the result again with the same plane (all faces selected) returns the same positional
    triangles, in the same order — every face of the result has all corners at offset `≥ −tol`, so it is kept. -/
theorem C02_idempotent (tol eps : K) (ht : 0 ≤ tol) (verts : List (V3 K)) (faces : List (T3 Nat)) (o n : V3 K)
    (mask mask' : List Bool) (hm : ∀ i, mask.getD i true = true) (hm' : ∀ i, mask'.getD i true = true)
    (hne : verts ≠ []) (hv : ∀ f ∈ faces, FaceValid verts.length f) :
    let r := sliceMesh tol eps verts faces o n mask
    (sliceMesh tol eps r.verts r.faces o n mask').positions = r.positions := by
  intro r
  obtain ⟨hvalid, _⟩ := C02_indices_valid_no_orphans tol eps verts faces o n mask hne hv
  by_cases hr : r.verts = []
  · -- no vertices: then no faces either
    have hf : r.faces = [] := by
      cases hfs : r.faces with
      | nil => rfl
      | cons f fs =>
        exfalso
        have := hvalid f (by show f ∈ r.faces; rw [hfs]; simp)
        show False
        have hlen : r.verts.length = 0 := by rw [hr]; rfl
        unfold FaceValid at this
        change f.a < r.verts.length ∧ _ at this
        omega
    have e1 := (C02_empty tol eps r.verts r.faces o n mask').1 hr
    rw [e1]
    unfold Result.positions
    simp [hf]
  · -- every face of r is kept by the second slice
    have lift2 := (C02_mesh_lift tol eps r.verts r.faces o n mask' hr hvalid)
    have hspec2 := kinds_spec tol o n r.verts r.faces mask' hvalid
    have hprov := C02_provenance tol eps verts faces o n mask hne hv
    have hlen1 := (C02_mesh_lift tol eps verts faces o n mask hne hv).2
    -- each entry of the second classification is `keep`
    have hkeep : ∀ e ∈ kindsOf tol o n r.verts r.faces mask', e.2.2 = FaceKind.keep := by
      intro e he
      obtain ⟨hget, _, hk⟩ := hspec2 e he
      rw [hk]
      apply classify_keep_of_not_behind tol ht
      -- facePos r.verts e.2.1 is r.positions[e.1], one of the kernel's triangles of a selected face
      have hj : e.1 < r.faces.length := (List.getElem?_eq_some_iff.mp hget).1
      have hpos : r.positions[e.1]? = some (facePos r.verts e.2.1) := by
        unfold Result.positions
        rw [List.getElem?_map, hget]; rfl
      have hjm : e.1 < r.mapping.length := by rw [hlen1]; exact hj
      have hzip : (r.mapping[e.1], facePos r.verts e.2.1) ∈ r.mapping.zip r.positions := by
        apply List.mem_iff_getElem?.mpr
        refine ⟨e.1, ?_⟩
        rw [List.getElem?_zip_eq_some]
        exact ⟨List.getElem?_eq_getElem hjm, hpos⟩
      obtain ⟨f, _, hin⟩ := hprov _ hzip
      simp only at hin
      rw [hm] at hin
      exact PW.C01.C01_not_behind tol eps ht o n _ _ hin
    have hK : ∀ e ∈ kindsOf tol o n r.verts r.faces mask', isKeep e = true := by
      intro e he; obtain ⟨i, f, k⟩ := e; have := hkeep _ he; simp only at this; subst this; rfl
    have hQ : ∀ e ∈ kindsOf tol o n r.verts r.faces mask', isQuadK e = false := by
      intro e he; obtain ⟨i, f, k⟩ := e; have := hkeep _ he; simp only at this; subst this; rfl
    have hT : ∀ e ∈ kindsOf tol o n r.verts r.faces mask', isTriK e = false := by
      intro e he; obtain ⟨i, f, k⟩ := e; have := hkeep _ he; simp only at this; subst this; rfl
    obtain ⟨hz, hl⟩ := lift2
    rw [filter_eq_self_of_all _ _ hK, filter_eq_nil_of_none _ _ hQ, filter_eq_nil_of_none _ _ hT] at hz
    simp only [List.flatMap_nil, List.append_nil] at hz
    -- second components of the zip
    have hsnd : (sliceMesh tol eps r.verts r.faces o n mask').positions =
        ((kindsOf tol o n r.verts r.faces mask').flatMap (taggedKernel tol eps o n r.verts mask')).map (·.2) := by
      rw [← hz, List.map_snd_zip]
      have : (sliceMesh tol eps r.verts r.faces o n mask').positions.length =
          (sliceMesh tol eps r.verts r.faces o n mask').faces.length := by unfold Result.positions; simp
      omega
    rw [hsnd]
    -- each entry contributes exactly its own positional triangle
    have hone : ∀ e ∈ kindsOf tol o n r.verts r.faces mask',
        taggedKernel tol eps o n r.verts mask' e = [(e.1, facePos r.verts e.2.1)] := by
      intro e he
      unfold taggedKernel
      rw [kernel_keep tol eps o n r.verts mask' e (hspec2 e he).2.2 (hK e he)]; rfl
    unfold Result.positions kindsOf
    rw [List.flatMap_map]
    clear hz hl hsnd hkeep hK hQ hT hprov hlen1
    have : ∀ (l : List (T3 Nat × Nat)),
        (∀ x ∈ l, taggedKernel tol eps o n r.verts mask'
          (x.2, x.1, classifyFace (x.1.map fun j => (vsigns tol o n r.verts).getD j 0) (mask'.getD x.2 true)) =
            [(x.2, facePos r.verts x.1)]) →
        (l.flatMap fun x => taggedKernel tol eps o n r.verts mask'
          (x.2, x.1, classifyFace (x.1.map fun j => (vsigns tol o n r.verts).getD j 0) (mask'.getD x.2 true))).map (·.2)
          = l.map fun x => facePos r.verts x.1 := by
      intro l hl
      induction l with
      | nil => rfl
      | cons x xs ih =>
        rw [List.flatMap_cons, List.map_append, hl x (by simp), ih (fun y hy => hl y (by simp [hy]))]
        rfl
    have h2 := this r.faces.zipIdx (by
      intro x hx
      have := hone (x.2, x.1, classifyFace (x.1.map fun j => (vsigns tol o n r.verts).getD j 0) (mask'.getD x.2 true))
        (by unfold kindsOf; exact List.mem_map.mpr ⟨x, hx, rfl⟩)
      exact this)
    rw [show (fun (x : T3 Nat × Nat) => taggedKernel tol eps o n r.verts mask'
        (match x with | (f, i) => (i, f, classifyFace (f.map fun j => (vsigns tol o n r.verts).getD j 0) (mask'.getD i true))))
        = fun x => taggedKernel tol eps o n r.verts mask'
          (x.2, x.1, classifyFace (x.1.map fun j => (vsigns tol o n r.verts).getD j 0) (mask'.getD x.2 true)) from rfl]
    rw [h2]
    have : (r.faces.zipIdx.map fun x => facePos r.verts x.1) = (r.faces.zipIdx.map (·.1)).map (facePos r.verts) := by
      rw [List.map_map]; rfl
    rw [this, List.zipIdx_map_fst]


/-! ### the result depends only on the positional faces: vertex numbering and face order do not matter -/

/-- positional face with its "selected" flag -/
abbrev PFace (K : Type) := T3 (V3 K) × Bool

def pfKind (tol : K) (o n : V3 K) (x : PFace K) : FaceKind :=
  classifyFace (x.1.map fun v => vsign tol (offset o n v)) x.2

def pfKeep (tol : K) (o n : V3 K) (x : PFace K) : Bool :=
  match pfKind tol o n x with | .keep => true | _ => false
def pfQuad (tol : K) (o n : V3 K) (x : PFace K) : Bool :=
  match pfKind tol o n x with | .quad _ => true | _ => false
def pfTri (tol : K) (o n : V3 K) (x : PFace K) : Bool :=
  match pfKind tol o n x with | .tri _ => true | _ => false

/-- the slicer as a function of the list of positional faces (with their selected flags) alone -/
def slicePositional (tol eps : K) (o n : V3 K) (pf : List (PFace K)) : List (T3 (V3 K)) :=
  (pf.filter (pfKeep tol o n)).flatMap (fun x => sliceFacePos tol eps o n x.1 x.2) ++
  (pf.filter (pfQuad tol o n)).flatMap (fun x => sliceFacePos tol eps o n x.1 x.2) ++
  (pf.filter (pfTri tol o n)).flatMap (fun x => sliceFacePos tol eps o n x.1 x.2)

/-- the positional faces of an indexed mesh, each with its mask bit -/
def pfacesOf (verts : List (V3 K)) (faces : List (T3 Nat)) (mask : List Bool) : List (PFace K) :=
  faces.zipIdx.map fun (f, i) => (facePos verts f, mask.getD i true)

theorem group_positional (tol eps : K) (o n : V3 K) (verts : List (V3 K)) (mask : List Bool)
    (L : List (Nat × T3 Nat × FaceKind)) (h : ∀ e ∈ L, EntryOk tol o n verts mask e)
    (pK : Nat × T3 Nat × FaceKind → Bool) (pP : PFace K → Bool)
    (hp : ∀ e ∈ L, pK e = pP (facePos verts e.2.1, mask.getD e.1 true)) :
    ((L.filter pK).flatMap (taggedKernel tol eps o n verts mask)).map (·.2) =
      ((L.map fun e => ((facePos verts e.2.1, mask.getD e.1 true) : PFace K)).filter pP).flatMap
        (fun x => sliceFacePos tol eps o n x.1 x.2) := by
  induction L with
  | nil => rfl
  | cons e l ih =>
    have ih' := ih (fun e' he' => h e' (by simp [he'])) (fun e' he' => hp e' (by simp [he']))
    have hpe := hp e (by simp)
    rw [List.map_cons]
    by_cases hk : pK e = true
    · rw [List.filter_cons_of_pos hk, List.filter_cons_of_pos (by rw [← hpe]; exact hk), List.flatMap_cons,
        List.flatMap_cons, List.map_append, ih']
      congr 1
      unfold taggedKernel kernelAt
      rw [List.map_map]; simp
    · rw [List.filter_cons_of_neg hk, List.filter_cons_of_neg (by rw [← hpe]; exact hk)]
      exact ih'

/-- **the returned triangles are a function of the positional faces alone** -/
theorem C02_positional (tol eps : K) (verts : List (V3 K)) (faces : List (T3 Nat)) (o n : V3 K)
    (mask : List Bool) (hne : verts ≠ []) (hv : ∀ f ∈ faces, FaceValid verts.length f) :
    (sliceMesh tol eps verts faces o n mask).positions =
      slicePositional tol eps o n (pfacesOf verts faces mask) := by
  obtain ⟨hz, hl⟩ := C02_mesh_lift tol eps verts faces o n mask hne hv
  have hspec := kinds_spec tol o n verts faces mask hv
  have hsnd : (sliceMesh tol eps verts faces o n mask).positions =
      ((sliceMesh tol eps verts faces o n mask).mapping.zip
        (sliceMesh tol eps verts faces o n mask).positions).map (·.2) := by
    rw [List.map_snd_zip]
    have : (sliceMesh tol eps verts faces o n mask).positions.length =
        (sliceMesh tol eps verts faces o n mask).faces.length := by unfold Result.positions; simp
    omega
  rw [hsnd, hz, List.map_append, List.map_append]
  have hok : ∀ e ∈ kindsOf tol o n verts faces mask, EntryOk tol o n verts mask e := fun e he => (hspec e he).2.2
  have hmapL : ((kindsOf tol o n verts faces mask).map fun e =>
      ((facePos verts e.2.1, mask.getD e.1 true) : PFace K)) = pfacesOf verts faces mask := by
    unfold kindsOf pfacesOf
    rw [List.map_map]; rfl
  unfold slicePositional
  rw [← hmapL]
  congr 1
  · congr 1
    · apply group_positional tol eps o n verts mask _ hok
      intro e he
      have := hok e he
      obtain ⟨i, f, k⟩ := e
      unfold EntryOk at this
      simp only at this
      simp only [pfKeep, pfKind, ← this]
      cases k <;> rfl
    · apply group_positional tol eps o n verts mask _ hok
      intro e he
      have := hok e he
      obtain ⟨i, f, k⟩ := e
      unfold EntryOk at this
      simp only at this
      simp only [pfQuad, pfKind, ← this]
      cases k <;> rfl
  · apply group_positional tol eps o n verts mask _ hok
    intro e he
    have := hok e he
    obtain ⟨i, f, k⟩ := e
    unfold EntryOk at this
    simp only at this
    simp only [pfTri, pfKind, ← this]
    cases k <;> rfl

/-- **independent of how the vertices are numbered**: two indexed meshes with the same positional faces (same
    triangles in the same order, same mask) give the same positional output — unreferenced vertices, duplicated
    vertices and relabelings included. -/
theorem C02_vertex_numbering (tol eps : K) (o n : V3 K) (mask : List Bool)
    (verts₁ verts₂ : List (V3 K)) (faces₁ faces₂ : List (T3 Nat))
    (h₁ : verts₁ ≠ []) (h₂ : verts₂ ≠ [])
    (hv₁ : ∀ f ∈ faces₁, FaceValid verts₁.length f) (hv₂ : ∀ f ∈ faces₂, FaceValid verts₂.length f)
    (hsame : faces₁.map (facePos verts₁) = faces₂.map (facePos verts₂)) :
    (sliceMesh tol eps verts₁ faces₁ o n mask).positions = (sliceMesh tol eps verts₂ faces₂ o n mask).positions := by
  rw [C02_positional tol eps verts₁ faces₁ o n mask h₁ hv₁, C02_positional tol eps verts₂ faces₂ o n mask h₂ hv₂]
  congr 1
  unfold pfacesOf
  have e1 : (faces₁.zipIdx.map fun (x : T3 Nat × Nat) => ((facePos verts₁ x.1, mask.getD x.2 true) : PFace K)) =
      (faces₁.map (facePos verts₁)).zipIdx.map fun x => (x.1, mask.getD x.2 true) := by
    rw [List.zipIdx_map, List.map_map]; rfl
  have e2 : (faces₂.zipIdx.map fun (x : T3 Nat × Nat) => ((facePos verts₂ x.1, mask.getD x.2 true) : PFace K)) =
      (faces₂.map (facePos verts₂)).zipIdx.map fun x => (x.1, mask.getD x.2 true) := by
    rw [List.zipIdx_map, List.map_map]; rfl
  show (faces₁.zipIdx.map fun (x : T3 Nat × Nat) => ((facePos verts₁ x.1, mask.getD x.2 true) : PFace K)) =
    (faces₂.zipIdx.map fun (x : T3 Nat × Nat) => ((facePos verts₂ x.1, mask.getD x.2 true) : PFace K))
  rw [e1, e2, hsame]

/-- **independent of the order of the faces**: permuting the (positional face, selected) list permutes the output
    triangles. -/
theorem C02_face_order (tol eps : K) (o n : V3 K) (pf₁ pf₂ : List (PFace K)) (h : pf₁.Perm pf₂) :
    (slicePositional tol eps o n pf₁).Perm (slicePositional tol eps o n pf₂) := by
  unfold slicePositional
  exact ((h.filter _).flatMap_right _).append ((h.filter _).flatMap_right _) |>.append
    ((h.filter _).flatMap_right _)


/-! ### complementarity with the flipped plane -/

/-- the fraction of a face's area vector that the kernel keeps (explicitly, by kind) -/
def lamOf (tol eps : K) (o n : V3 K) (p : T3 (V3 K)) (sel : Bool) : K :=
  match classifyFace (p.map fun v => vsign tol (offset o n v)) sel with
  | .keep => 1
  | .drop => 0
  | .quad k =>
    edgeParam eps o n (p.get (k + 2)) (p.get k) +
      (1 - edgeParam eps o n (p.get (k + 2)) (p.get k)) * (1 - edgeParam eps o n (p.get k) (p.get (k + 1)))
  | .tri k =>
    edgeParam eps o n (p.get k) (p.get (k + 1)) * (1 - edgeParam eps o n (p.get (k + 2)) (p.get k))

def vsum (l : List (V3 K)) : V3 K := l.foldr (· + ·) V3.zero

/-- the area vectors of the output triangles add up to `lamOf` times the face's area vector; every summand is a
    non-negative multiple (C01_orientation), so the *areas* add up to `lamOf` times the face's area. -/
theorem lamOf_is_area_fraction (tol eps : K) (o n : V3 K) (p : T3 (V3 K)) (sel : Bool) :
    vsum ((sliceFacePos tol eps o n p sel).map PW.C01.crossOf) =
      V3.smul (lamOf tol eps o n p sel) (PW.C01.crossOf p) := by
  unfold lamOf sliceFacePos
  simp only
  generalize classifyFace (p.map fun v => vsign tol (offset o n v)) sel = kind
  cases kind with
  | keep =>
    simp only [List.map_cons, List.map_nil, vsum, List.foldr]
    ext <;> simp
  | drop =>
    simp only [List.map_nil, vsum, List.foldr]
    ext <;> simp
  | quad k =>
    have e2 : (intPoints eps o n p).get (k + 2) =
        V3.smul (edgeParam eps o n (p.get (k + 2)) (p.get k)) (p.get k - p.get (k + 2)) + p.get (k + 2) := by
      rw [intPoints_get, show k + 2 + 1 = k + 3 from rfl, PW.C01.T3.get_add_three, edgePoint_eq]
    have e0 : (intPoints eps o n p).get k =
        V3.smul (edgeParam eps o n (p.get k) (p.get (k + 1))) (p.get (k + 1) - p.get k) + p.get k := by
      rw [intPoints_get, edgePoint_eq]
    simp only [List.map_cons, List.map_nil, vsum, List.foldr]
    rw [e2, e0, PW.C01.cross_quad_piece1, PW.C01.cross_quad_piece2, PW.C01.crossOf_rot]
    ext <;> simp <;> ring
  | tri k =>
    have e2 : (intPoints eps o n p).get (k + 2) =
        V3.smul (edgeParam eps o n (p.get (k + 2)) (p.get k)) (p.get k - p.get (k + 2)) + p.get (k + 2) := by
      rw [intPoints_get, show k + 2 + 1 = k + 3 from rfl, PW.C01.T3.get_add_three, edgePoint_eq]
    have e0 : (intPoints eps o n p).get k =
        V3.smul (edgeParam eps o n (p.get k) (p.get (k + 1))) (p.get (k + 1) - p.get k) + p.get k := by
      rw [intPoints_get, edgePoint_eq]
    simp only [List.map_cons, List.map_nil, vsum, List.foldr]
    rw [e2, e0, PW.C01.cross_tri_piece, PW.C01.crossOf_rot]
    ext <;> simp

theorem offset_neg (o n v : V3 K) : offset o (-n) v = - offset o n v := by
  simp only [offset, V3.dot_def, V3.neg_x, V3.neg_y, V3.neg_z, V3.sub_x, V3.sub_y, V3.sub_z]; ring

/-- the edge parameter does not change when the plane is flipped (endpoints with different offsets) -/
theorem edgeParam_flip (eps : K) (o n a b : V3 K) (h : offset o n a ≠ offset o n b) :
    edgeParam eps o (-n) a b = edgeParam eps o n a b := by
  rw [edgeParam_of_ne eps o n a b h, edgeParam_of_ne eps o (-n) a b (by rw [offset_neg, offset_neg]; intro h'; exact h (neg_injective h'))]
  rw [offset_neg, offset_neg]
  congr 1
  rw [← neg_sub', neg_div_neg_eq]


theorem T3.get_congr {α : Type} (t : T3 α) (i j : Nat) (h : i % 3 = j % 3) : t.get i = t.get j := by
  unfold T3.get; rw [h]

/-- how the classification of a face relates to its classification under the flipped plane (all signs negated) -/
def FlipTable (s : T3 Int) : Prop :=
  match classifyFace s true, classifyFace (s.map fun x => -x) true with
  | .keep, .keep => s.a = 0 ∧ s.b = 0 ∧ s.c = 0
  | .keep, .drop => s.a = -1 ∨ s.b = -1 ∨ s.c = -1
  | .drop, .keep => s.a = 1 ∨ s.b = 1 ∨ s.c = 1
  | .quad k, .tri k' => k' = k ∧ k < 3
  | .tri k, .quad k' => k' = k ∧ k < 3
  | .tri k, .tri k' => k < 3 ∧ ((s.get (k + 1) = 0 ∧ s.get (k + 2) = 1 ∧ k' % 3 = (k + 2) % 3) ∨
                               (s.get (k + 1) = 1 ∧ s.get (k + 2) = 0 ∧ k' % 3 = (k + 1) % 3))
  | _, _ => False

instance (s : T3 Int) : Decidable (FlipTable s) := by
  unfold FlipTable; split <;> infer_instance

theorem flip_table_signs :
    ∀ a ∈ [(-1 : Int), 0, 1], ∀ b ∈ [(-1 : Int), 0, 1], ∀ c ∈ [(-1 : Int), 0, 1], FlipTable ⟨a, b, c⟩ := by
  decide

theorem vsign_neg (tol : K) (ht : 0 ≤ tol) (d : K) (hd : d = 0 ∨ tol < d ∨ d < -tol) :
    vsign tol (-d) = - vsign tol d := by
  unfold vsign
  rcases hd with h | h | h
  · subst h
    have h1 : ¬ tol < (0 : K) := not_lt.mpr ht
    have h2 : ¬ (0 : K) < -tol := by intro h'; linarith
    simp only [neg_zero, h1, h2, if_false]
  · have h1 : ¬ tol < -d := by intro h'; linarith
    have h2 : -d < -tol := by linarith
    rw [if_neg h1, if_pos h2, if_pos h]; decide
  · have h1 : tol < -d := by linarith
    have h2 : ¬ tol < d := by intro h'; linarith
    rw [if_pos h1, if_neg h2, if_pos h]

/-- **complementarity** (per face, on-plane corners exactly on the plane): the fraction of a selected face kept in
    front of the plane plus the fraction kept behind the flipped plane is 1 — or 2 when the face lies in the plane
    and is kept by both.  With `lamOf_is_area_fraction` and `C01_orientation` (every piece is a non-negative multiple
    of the face's area vector): area in front + area behind = area of the face (+ it again for in-plane faces). -/
theorem C02_complementary (tol eps : K) (ht : 0 ≤ tol) (o n : V3 K) (p : T3 (V3 K))
    (hex : ∀ i, offset o n (p.get i) = 0 ∨ tol < offset o n (p.get i) ∨ offset o n (p.get i) < -tol) :
    lamOf tol eps o n p true + lamOf tol eps o (-n) p true =
      if offset o n p.a = 0 ∧ offset o n p.b = 0 ∧ offset o n p.c = 0 then 2 else 1 := by
  -- the two sign triples
  have hgetA : p.get 0 = p.a := rfl
  have hgetB : p.get 1 = p.b := rfl
  have hgetC : p.get 2 = p.c := rfl
  have ea := hex 0; rw [hgetA] at ea
  have eb := hex 1; rw [hgetB] at eb
  have ec := hex 2; rw [hgetC] at ec
  set s : T3 Int := p.map fun v => vsign tol (offset o n v) with hs
  have hback : (p.map fun v => vsign tol (offset o (-n) v)) = s.map fun x => -x := by
    simp only [hs, T3.map, offset_neg]
    rw [vsign_neg tol ht _ ea, vsign_neg tol ht _ eb, vsign_neg tol ht _ ec]
  have mem : ∀ x : K, vsign tol x ∈ [(-1 : Int), 0, 1] := by
    intro x; rcases vsign_mem tol x with h | h | h <;> simp [h]
  have tbl : FlipTable s := flip_table_signs _ (mem _) _ (mem _) _ (mem _)
  have hk1 := PW.C01.kind_offsets tol ht o n p true
  have hk2 := PW.C01.kind_offsets tol ht o (-n) p true
  simp only at hk1 hk2
  -- zero offsets ↔ zero signs
  have zero_iff : ∀ v, (offset o n v = 0 ∨ tol < offset o n v ∨ offset o n v < -tol) →
      (vsign tol (offset o n v) = 0 ↔ offset o n v = 0) := by
    intro v hv
    rw [vsign_on_iff ht]
    constructor
    · rintro ⟨h1, h2⟩
      rcases hv with h | h | h
      · exact h
      · exfalso; linarith
      · exfalso; linarith
    · intro h; rw [h]; exact ⟨by linarith, ht⟩
  unfold lamOf
  rw [hback]
  rw [hback] at hk2
  unfold FlipTable at tbl
  -- abbreviations for the flipped offsets
  have flipP : ∀ a b, offset o n a ≠ offset o n b → edgeParam eps o (-n) a b = edgeParam eps o n a b :=
    fun a b h => edgeParam_flip eps o n a b h
  cases h1 : classifyFace s true with
  | keep =>
    cases h2 : classifyFace (s.map fun x => -x) true with
    | keep =>
      rw [h1, h2] at tbl
      obtain ⟨za, zb, zc⟩ := tbl
      have : offset o n p.a = 0 ∧ offset o n p.b = 0 ∧ offset o n p.c = 0 :=
        ⟨(zero_iff _ ea).mp za, (zero_iff _ eb).mp zb, (zero_iff _ ec).mp zc⟩
      simp only [this, and_self, if_true]; norm_num
    | drop =>
      rw [h1, h2] at tbl
      have : ¬ (offset o n p.a = 0 ∧ offset o n p.b = 0 ∧ offset o n p.c = 0) := by
        rintro ⟨za, zb, zc⟩
        rcases tbl with h | h | h
        · have := (vsign_front_iff tol _).mp h; linarith
        · have := (vsign_front_iff tol _).mp h; linarith
        · have := (vsign_front_iff tol _).mp h; linarith
      simp only [this, if_false]; norm_num
    | quad k => rw [h1, h2] at tbl; exact tbl.elim
    | tri k => rw [h1, h2] at tbl; exact tbl.elim
  | drop =>
    cases h2 : classifyFace (s.map fun x => -x) true with
    | keep =>
      rw [h1, h2] at tbl
      have : ¬ (offset o n p.a = 0 ∧ offset o n p.b = 0 ∧ offset o n p.c = 0) := by
        rintro ⟨za, zb, zc⟩
        rcases tbl with h | h | h
        · have := (vsign_behind_iff ht _).mp h; linarith
        · have := (vsign_behind_iff ht _).mp h; linarith
        · have := (vsign_behind_iff ht _).mp h; linarith
      simp only [this, if_false]; norm_num
    | drop => rw [h1, h2] at tbl; exact tbl.elim
    | quad k => rw [h1, h2] at tbl; exact tbl.elim
    | tri k => rw [h1, h2] at tbl; exact tbl.elim
  | quad k =>
    rw [h1] at hk1
    obtain ⟨hA, hB, hC⟩ := hk1
    have nz : ¬ (offset o n p.a = 0 ∧ offset o n p.b = 0 ∧ offset o n p.c = 0) := by
      rintro ⟨za, zb, zc⟩
      rcases T3.get_cases p k with ⟨_, e, _, _⟩ | ⟨_, e, _, _⟩ | ⟨_, e, _, _⟩ <;> rw [e] at hA <;> linarith
    cases h2 : classifyFace (s.map fun x => -x) true with
    | tri k' =>
      rw [h1, h2] at tbl
      obtain ⟨rfl, _⟩ := tbl
      simp only [nz, if_false]
      rw [flipP (p.get k') (p.get (k' + 1)) (by intro h; linarith),
        flipP (p.get (k' + 2)) (p.get k') (by intro h; linarith)]
      ring
    | keep => rw [h1, h2] at tbl; exact tbl.elim
    | drop => rw [h1, h2] at tbl; exact tbl.elim
    | quad k' => rw [h1, h2] at tbl; exact tbl.elim
  | tri k =>
    rw [h1] at hk1
    obtain ⟨hA, hB, hC⟩ := hk1
    have hA0 : 0 < offset o n (p.get k) := lt_of_le_of_lt ht hA
    have nz : ¬ (offset o n p.a = 0 ∧ offset o n p.b = 0 ∧ offset o n p.c = 0) := by
      rintro ⟨za, zb, zc⟩
      rcases T3.get_cases p k with ⟨_, e, _, _⟩ | ⟨_, e, _, _⟩ | ⟨_, e, _, _⟩ <;> rw [e] at hA0 <;> linarith
    simp only [nz, if_false]
    cases h2 : classifyFace (s.map fun x => -x) true with
    | quad k' =>
      rw [h1, h2] at tbl
      obtain ⟨rfl, _⟩ := tbl
      dsimp only
      rw [flipP (p.get (k' + 2)) (p.get k') (by intro h; linarith),
        flipP (p.get k') (p.get (k' + 1)) (by intro h; linarith)]
      ring
    | tri k' =>
      rw [h1, h2] at tbl
      obtain ⟨_, hcase⟩ := tbl
      rcases hcase with ⟨sB, sC, hk'⟩ | ⟨sB, sC, hk'⟩
      · -- B on the plane, C behind; the back triangle is fanned from C (column k+2)
        rw [hs, T3.get_map] at sB sC
        have dB : offset o n (p.get (k + 1)) = 0 := (zero_iff _ (hex (k + 1))).mp sB
        have dC : offset o n (p.get (k + 2)) < -tol := (vsign_behind_iff ht _).mp sC
        have g0 : p.get k' = p.get (k + 2) := T3.get_congr p _ _ hk'
        have g1 : p.get (k' + 1) = p.get k := T3.get_congr p _ _ (by omega)
        have g2 : p.get (k' + 2) = p.get (k + 1) := T3.get_congr p _ _ (by omega)
        dsimp only
        rw [g0, g1, g2]
        -- front: u = 1, t crosses; back: first parameter = t, second = 0
        have u1 : edgeParam eps o n (p.get k) (p.get (k + 1)) = 1 := by
          rw [edgeParam_of_ne eps o n _ _ (by rw [dB]; exact ne_of_gt hA0), dB, sub_zero,
            div_self (ne_of_gt hA0)]
          exact clip01_of_ge_one (le_refl 1)
        have b2 : edgeParam eps o (-n) (p.get (k + 1)) (p.get (k + 2)) = 0 := by
          rw [edgeParam_of_ne eps o (-n) _ _ (by rw [offset_neg, offset_neg, dB]; intro h; linarith),
            offset_neg, offset_neg, dB]
          simp only [neg_zero, zero_sub, neg_neg, zero_div]
          exact clip01_of_nonpos (le_refl 0)
        rw [u1, b2, flipP (p.get (k + 2)) (p.get k) (by intro h; linarith)]
        ring
      · -- B behind, C on the plane; the back triangle is fanned from B (column k+1)
        rw [hs, T3.get_map] at sB sC
        have dB : offset o n (p.get (k + 1)) < -tol := (vsign_behind_iff ht _).mp sB
        have dC : offset o n (p.get (k + 2)) = 0 := (zero_iff _ (hex (k + 2))).mp sC
        have g0 : p.get k' = p.get (k + 1) := T3.get_congr p _ _ hk'
        have g1 : p.get (k' + 1) = p.get (k + 2) := T3.get_congr p _ _ (by omega)
        have g2 : p.get (k' + 2) = p.get k := T3.get_congr p _ _ (by omega)
        dsimp only
        rw [g0, g1, g2]
        have t0 : edgeParam eps o n (p.get (k + 2)) (p.get k) = 0 := by
          rw [edgeParam_of_ne eps o n _ _ (by rw [dC]; exact ne_of_lt hA0), dC]
          simp only [zero_sub, zero_div]
          exact clip01_of_nonpos (le_refl 0)
        have b1 : edgeParam eps o (-n) (p.get (k + 1)) (p.get (k + 2)) = 1 := by
          rw [edgeParam_of_ne eps o (-n) _ _ (by rw [offset_neg, offset_neg, dC]; intro h; linarith),
            offset_neg, offset_neg, dC]
          simp only [neg_zero, sub_zero]
          rw [div_self (by intro h; linarith)]
          exact clip01_of_ge_one (le_refl 1)
        rw [t0, b1, flipP (p.get k) (p.get (k + 1)) (by intro h; linarith)]
        ring
    | keep => rw [h1, h2] at tbl; exact tbl.elim
    | drop => rw [h1, h2] at tbl; exact tbl.elim


/-! ### wholly behind, and face order stated on the assembly itself -/

theorem classify_drop_of_behind (tol : K) (ht : 0 ≤ tol) (o n : V3 K) (p : T3 (V3 K))
    (hb : offset o n p.a < -tol ∨ offset o n p.b < -tol ∨ offset o n p.c < -tol)
    (hf : offset o n p.a ≤ tol ∧ offset o n p.b ≤ tol ∧ offset o n p.c ≤ tol) :
    classifyFace (p.map fun v => vsign tol (offset o n v)) true = .drop := by
  have tbl := PW.C01.C01_case_table tol (p.map (offset o n)) true
  simp only [PW.C01.CaseTable, PW.C01.behindS, PW.C01.frontS, T3.map] at tbl
  apply tbl.2.1.mpr
  refine ⟨trivial, ?_, ?_⟩
  · rcases hb with h | h | h
    · left; exact (vsign_behind_iff ht _).mpr h
    · right; left; exact (vsign_behind_iff ht _).mpr h
    · right; right; exact (vsign_behind_iff ht _).mpr h
  · obtain ⟨ha, hb', hc⟩ := hf
    rintro (h1 | h1 | h1)
    · have := (vsign_front_iff tol _).mp h1; linarith
    · have := (vsign_front_iff tol _).mp h1; linarith
    · have := (vsign_front_iff tol _).mp h1; linarith

/-- **a mesh wholly behind the plane yields empty arrays**: every face selected, every face with a corner behind
    and none in front ⇒ no vertices, no faces, empty mapping. -/
theorem C02_wholly_behind (tol eps : K) (ht : 0 ≤ tol) (verts : List (V3 K)) (faces : List (T3 Nat)) (o n : V3 K)
    (mask : List Bool) (hne : verts ≠ []) (hv : ∀ f ∈ faces, FaceValid verts.length f)
    (hsel : ∀ i, mask.getD i true = true)
    (hbehind : ∀ f ∈ faces,
      (offset o n (facePos verts f).a < -tol ∨ offset o n (facePos verts f).b < -tol ∨
        offset o n (facePos verts f).c < -tol) ∧
      (offset o n (facePos verts f).a ≤ tol ∧ offset o n (facePos verts f).b ≤ tol ∧
        offset o n (facePos verts f).c ≤ tol)) :
    sliceMesh tol eps verts faces o n mask = ⟨[], [], []⟩ := by
  have hspec := kinds_spec tol o n verts faces mask hv
  have hdrop : ∀ e ∈ kindsOf tol o n verts faces mask, e.2.2 = FaceKind.drop := by
    intro e he
    obtain ⟨hget, _, hk⟩ := hspec e he
    rw [hk, hsel]
    have hf : e.2.1 ∈ faces := List.mem_of_getElem? hget
    exact classify_drop_of_behind tol ht o n _ (hbehind _ hf).1 (hbehind _ hf).2
  have hK : (kindsOf tol o n verts faces mask).filter isKeep = [] := by
    apply filter_eq_nil_of_none
    intro e he; obtain ⟨i, f, k⟩ := e; have := hdrop _ he; simp only at this; subst this; rfl
  have hQ : (kindsOf tol o n verts faces mask).filterMap quadSel = [] := by
    apply List.filterMap_eq_nil_iff.mpr
    intro e he; obtain ⟨i, f, k⟩ := e; have := hdrop _ he; simp only at this; subst this; rfl
  have hT : (kindsOf tol o n verts faces mask).filterMap triSel = [] := by
    apply List.filterMap_eq_nil_iff.mpr
    intro e he; obtain ⟨i, f, k⟩ := e; have := hdrop _ he; simp only at this; subst this; rfl
  have he : verts.isEmpty = false := by cases verts <;> simp_all
  unfold sliceMesh
  simp only [he, Bool.false_eq_true, if_false, hK, hQ, hT, List.isEmpty_nil, Bool.and_self, if_true,
    List.map_nil]

/-- **independent of the order of the faces**, stated on the assembly: two valid meshes whose lists of
    (positional face, selected) pairs are permutations of each other return permuted lists of triangles. -/
theorem C02_face_order_mesh (tol eps : K) (o n : V3 K)
    (verts₁ verts₂ : List (V3 K)) (faces₁ faces₂ : List (T3 Nat)) (mask₁ mask₂ : List Bool)
    (h₁ : verts₁ ≠ []) (h₂ : verts₂ ≠ [])
    (hv₁ : ∀ f ∈ faces₁, FaceValid verts₁.length f) (hv₂ : ∀ f ∈ faces₂, FaceValid verts₂.length f)
    (hperm : (pfacesOf verts₁ faces₁ mask₁).Perm (pfacesOf verts₂ faces₂ mask₂)) :
    (sliceMesh tol eps verts₁ faces₁ o n mask₁).positions.Perm
      (sliceMesh tol eps verts₂ faces₂ o n mask₂).positions := by
  rw [C02_positional tol eps verts₁ faces₁ o n mask₁ h₁ hv₁, C02_positional tol eps verts₂ faces₂ o n mask₂ h₂ hv₂]
  exact C02_face_order tol eps o n _ _ hperm

end PW.C02
