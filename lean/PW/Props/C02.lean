/-
  C02 — the sliced mesh is a well-formed indexed mesh with correct face provenance.

  Part A: the `unique_bincount` renumbering (`compact`) — indices valid, no orphan vertices, positions preserved,
          vertices in increasing old index; idempotence.
  Part B: the assembly `sliceMesh` returns, face by face and in the documented order (kept, quads, triangles), the
          triangles of the per-face kernel of C01, with the face mapping naming the source face.
  Part C: consequences: idempotence of slicing, independence of vertex numbering, empty results.
-/
import PW.Model.Slicing
import PW.Lemmas.Slicing
import PW.Lemmas.Compact
import PW.Lemmas.Assembly
import PW.Props.C01

set_option linter.unusedSectionVars false

namespace PW.C02

open PW.Slicing

variable {K : Type} [Field K] [LinearOrder K] [IsStrictOrderedRing K]

/-- all three indices of a face are below `n` -/
def FaceValid (n : Nat) (f : T3 Nat) : Prop := f.a < n ∧ f.b < n ∧ f.c < n

/-! ## A. compaction -/

theorem filterMap_valid (U : List Nat) (verts : List (V3 K)) (h : ∀ i ∈ U, i < verts.length) :
    U.filterMap (fun i => verts[i]?) = U.map (fun i => verts.getD i V3.zero) := by
  induction U with
  | nil => rfl
  | cons x xs ih =>
    have hx : x < verts.length := h x (by simp)
    simp only [List.filterMap_cons, List.getElem?_eq_getElem hx, List.map_cons, List.getD,
      Option.getD_some]
    rw [ih (fun i hi => h i (by simp [hi]))]
    simp [List.getD]

theorem compact_verts (verts : List (V3 K)) (faces : List (T3 Nat)) :
    (compact verts faces).1 =
      (uniqueIdx verts.length (usedP faces)).map (fun i => verts.getD i V3.zero) := by
  unfold compact
  simp only
  rw [unique_eq, filterMap_valid]
  intro i hi
  exact ((unique_mem _ _ _).mp hi).1

theorem compact_faces (verts : List (V3 K)) (faces : List (T3 Nat))
    (hv : ∀ f ∈ faces, FaceValid verts.length f) :
    (compact verts faces).2 = faces.map (fun f => f.map (rankOf (usedP faces))) := by
  unfold compact
  simp only
  apply List.map_congr_left
  intro f hf
  obtain ⟨ha, hb, hc⟩ := hv f hf
  simp only [T3.map]
  rw [rankIn_eq _ _ _ ha, rankIn_eq _ _ _ hb, rankIn_eq _ _ _ hc]

/-- **`unique_bincount` renumbering is correct** for every indexed mesh with valid indices:
    (1) every returned face indexes a returned vertex, (2) every returned vertex is used by a face,
    (3) every face keeps its three positions, in order, (4) the returned vertices are the used input vertices
    in increasing old index. -/
theorem C02_compact_spec (verts : List (V3 K)) (faces : List (T3 Nat))
    (hv : ∀ f ∈ faces, FaceValid verts.length f) :
    (∀ f ∈ (compact verts faces).2, FaceValid (compact verts faces).1.length f) ∧
    (∀ j < (compact verts faces).1.length, ∃ f ∈ (compact verts faces).2, f.a = j ∨ f.b = j ∨ f.c = j) ∧
    ((compact verts faces).2.map (facePos (compact verts faces).1) = faces.map (facePos verts)) ∧
    (∃ used : List Nat, used.Pairwise (· < ·) ∧
      (∀ i, i ∈ used ↔ (i < verts.length ∧ ∃ f ∈ faces, f.a = i ∨ f.b = i ∨ f.c = i)) ∧
      (compact verts faces).1 = used.map (fun i => verts.getD i V3.zero)) := by
  have hverts := compact_verts verts faces
  have hfaces := compact_faces verts faces hv
  have hlen : (compact verts faces).1.length = (uniqueIdx verts.length (usedP faces)).length := by rw [hverts]; simp
  have hget : ∀ i, i < verts.length → (usedP faces) i = true →
      (compact verts faces).1.getD (rankOf (usedP faces) i) V3.zero = verts.getD i V3.zero := by
    intro i hi hpi
    have h1 := unique_rank verts.length (usedP faces) i hi hpi
    have hlt := rank_lt verts.length (usedP faces) i hi hpi
    rw [hverts, List.getD_eq_getElem?_getD, List.getElem?_map, h1]
    rfl
  refine ⟨?_, ?_, ?_, ?_⟩
  · intro f' hf'
    rw [hfaces] at hf'
    obtain ⟨f, hf, rfl⟩ := List.mem_map.mp hf'
    obtain ⟨ha, hb, hc⟩ := hv f hf
    obtain ⟨pa, pb, pc⟩ := usedP_of_mem faces f hf
    rw [hlen]
    exact ⟨rank_lt verts.length (usedP faces) _ ha pa, rank_lt verts.length (usedP faces) _ hb pb, rank_lt verts.length (usedP faces) _ hc pc⟩
  · intro j hj
    rw [hlen] at hj
    have hmem : (uniqueIdx verts.length (usedP faces))[j] ∈ (uniqueIdx verts.length (usedP faces)) := List.getElem_mem hj
    obtain ⟨_, hpx⟩ := (unique_mem verts.length (usedP faces) _).mp hmem
    have hpx' := hpx
    simp only [usedP, List.any_eq_true, Bool.or_eq_true, beq_iff_eq] at hpx'
    obtain ⟨f, hf, hor⟩ := hpx'
    refine ⟨f.map (rankOf (usedP faces)), ?_, ?_⟩
    · rw [hfaces]; exact List.mem_map.mpr ⟨f, hf, rfl⟩
    · have hr := rank_of_unique verts.length (usedP faces) j hj
      simp only [T3.map]
      rcases hor with (h | h) | h
      · left; rw [h]; exact hr
      · right; left; rw [h]; exact hr
      · right; right; rw [h]; exact hr
  · rw [hfaces, List.map_map]
    apply List.map_congr_left
    intro f hf
    obtain ⟨ha, hb, hc⟩ := hv f hf
    obtain ⟨pa, pb, pc⟩ := usedP_of_mem faces f hf
    simp only [Function.comp, facePos, T3.map]
    rw [hget _ ha pa, hget _ hb pb, hget _ hc pc]
  · refine ⟨(uniqueIdx verts.length (usedP faces)), unique_sorted verts.length (usedP faces), ?_, hverts⟩
    intro i
    rw [unique_mem]
    simp only [usedP, List.any_eq_true, Bool.or_eq_true, beq_iff_eq]
    constructor
    · rintro ⟨hi, f, hf, hor⟩
      exact ⟨hi, f, hf, by rcases hor with (h | h) | h <;> simp [h]⟩
    · rintro ⟨hi, f, hf, hor⟩
      exact ⟨hi, f, hf, by rcases hor with h | h | h <;> simp [h]⟩


theorem compact_nil (verts : List (V3 K)) : compact verts [] = ([], []) := by
  have h : ∀ x, (usedList verts.length ([] : List (T3 Nat))).getD x false = false := by
    intro x
    by_cases hx : x < verts.length
    · rw [usedList_getD _ _ _ hx]; simp [usedP]
    · have : (usedList verts.length ([] : List (T3 Nat))).length ≤ x := by rw [usedList_length]; omega
      simp [List.getD, List.getElem?_eq_none this]
  unfold compact
  simp only [h, List.map_nil]
  simp

/-! ## B. the assembly returns the kernel's triangles, face by face -/

/-- `sliceMesh` on a non-empty vertex list is: classify, build the new vertices and faces, renumber — the two early
    returns of the code (nothing cut and nothing kept / nothing cut) are special cases of the same formula. -/
theorem sliceMesh_unfold (tol eps : K) (verts : List (V3 K)) (faces : List (T3 Nat)) (o n : V3 K)
    (mask : List Bool) (hne : verts ≠ []) :
    let kinds := kindsOf tol o n verts faces mask
    let kept := kinds.filter isKeep
    let quads := kinds.filterMap quadSel
    let tris := kinds.filterMap triSel
    sliceMesh tol eps verts faces o n mask =
      ⟨(compact (newVertsOf eps o n verts quads tris) (newFacesOf verts.length kept quads tris)).1,
       (compact (newVertsOf eps o n verts quads tris) (newFacesOf verts.length kept quads tris)).2,
       newMappingOf kept quads tris⟩ := by
  intro kinds kept quads tris
  unfold sliceMesh
  have he : verts.isEmpty = false := by cases verts <;> simp_all
  simp only [he, Bool.false_eq_true, if_false]
  show (if quads.isEmpty && tris.isEmpty then
      (if (kept.map (·.2.1)).isEmpty then (⟨[], [], kept.map (·.1)⟩ : Result K)
       else ⟨(compact verts (kept.map (·.2.1))).1, (compact verts (kept.map (·.2.1))).2, kept.map (·.1)⟩)
    else ⟨(compact (newVertsOf eps o n verts quads tris) (newFacesOf verts.length kept quads tris)).1,
          (compact (newVertsOf eps o n verts quads tris) (newFacesOf verts.length kept quads tris)).2,
          newMappingOf kept quads tris⟩) = _
  by_cases hcut : (quads.isEmpty && tris.isEmpty) = true
  · rw [if_pos hcut]
    have hq0 : quads = [] := by
      have := (Bool.and_eq_true _ _).mp hcut; exact List.isEmpty_iff.mp this.1
    have ht0 : tris = [] := by
      have := (Bool.and_eq_true _ _).mp hcut; exact List.isEmpty_iff.mp this.2
    have hnv : newVertsOf eps o n verts quads tris = verts := by simp [newVertsOf, hq0, ht0]
    have hnf : newFacesOf verts.length kept quads tris = kept.map (·.2.1) := by
      simp [newFacesOf, hq0, ht0, quadsToTris]
    have hnm : newMappingOf kept quads tris = kept.map (·.1) := by simp [newMappingOf, hq0, ht0]
    rw [hnv, hnf, hnm]
    by_cases hke : (kept.map (·.2.1)).isEmpty = true
    · rw [if_pos hke]
      have : kept.map (·.2.1) = [] := List.isEmpty_iff.mp hke
      rw [this, compact_nil]
    · rw [if_neg hke]
  · rw [if_neg hcut]


theorem T3.get_lt (n : Nat) (f : T3 Nat) (h : FaceValid n f) (i : Nat) : f.get i < n := by
  obtain ⟨ha, hb, hc⟩ := h
  rcases T3.get_cases f i with ⟨_, e, _, _⟩ | ⟨_, e, _, _⟩ | ⟨_, e, _, _⟩ <;> rw [e] <;> assumption

theorem facePos_get (verts : List (V3 K)) (f : T3 Nat) (i : Nat) :
    (facePos verts f).get i = verts.getD (f.get i) V3.zero := by
  unfold facePos; rw [T3.get_map]

theorem facePos_append (verts extra : List (V3 K)) (f : T3 Nat) (h : FaceValid verts.length f) :
    facePos (verts ++ extra) f = facePos verts f := by
  obtain ⟨ha, hb, hc⟩ := h
  simp only [facePos, T3.map, getD_append_lt _ _ _ ha, getD_append_lt _ _ _ hb, getD_append_lt _ _ _ hc]

theorem length_flatMap_pair {E α : Type} (l : List E) (g h : E → α) :
    (l.flatMap fun e => [g e, h e]).length = 2 * l.length := by
  induction l with
  | nil => rfl
  | cons e l ih => simp only [List.flatMap_cons, List.length_append, List.length_cons, List.length_nil, ih]; omega

/-- positional triangles a quad entry `(i, f, c)` contributes (`c` = column of the corner behind) -/
def quadOut (eps : K) (o n : V3 K) (verts : List (V3 K)) (e : Nat × T3 Nat × Nat) : List (T3 (V3 K)) :=
  let p := facePos verts e.2.1
  let x := intPoints eps o n p
  [⟨p.get (e.2.2 + 1), p.get (e.2.2 + 2), x.get (e.2.2 + 2)⟩, ⟨p.get (e.2.2 + 1), x.get (e.2.2 + 2), x.get e.2.2⟩]

/-- positional triangle a cut-triangle entry `(i, f, c)` contributes (`c` = column of the corner in front) -/
def triOut (eps : K) (o n : V3 K) (verts : List (V3 K)) (e : Nat × T3 Nat × Nat) : T3 (V3 K) :=
  let p := facePos verts e.2.1
  let x := intPoints eps o n p
  ⟨p.get e.2.2, x.get e.2.2, x.get (e.2.2 + 2)⟩

/-- the faces built by the assembly, read through the vertices built by the assembly, are: the kept faces as they
    were, then the two triangles of each quad entry, then the triangle of each cut-triangle entry; and every index
    is valid. -/
theorem assemble_positions (eps : K) (o n : V3 K) (verts : List (V3 K))
    (kept : List (Nat × T3 Nat × FaceKind)) (quads tris : List (Nat × T3 Nat × Nat))
    (hk : ∀ e ∈ kept, FaceValid verts.length e.2.1) (hq : ∀ e ∈ quads, FaceValid verts.length e.2.1)
    (ht : ∀ e ∈ tris, FaceValid verts.length e.2.1) :
    (newFacesOf verts.length kept quads tris).map (facePos (newVertsOf eps o n verts quads tris)) =
        kept.map (fun e => facePos verts e.2.1) ++ quads.flatMap (quadOut eps o n verts) ++
          tris.map (triOut eps o n verts) ∧
    ∀ f ∈ newFacesOf verts.length kept quads tris, FaceValid (newVertsOf eps o n verts quads tris).length f := by
  set qv := quads.flatMap (fun e => [(intPoints eps o n (facePos verts e.2.1)).get (e.2.2 + 2),
                                      (intPoints eps o n (facePos verts e.2.1)).get e.2.2]) with hqv
  set tv := tris.flatMap (fun e => [(intPoints eps o n (facePos verts e.2.1)).get e.2.2,
                                     (intPoints eps o n (facePos verts e.2.1)).get (e.2.2 + 2)]) with htv
  have hlenq : qv.length = 2 * quads.length := length_flatMap_pair _ _ _
  have hlent : tv.length = 2 * tris.length := length_flatMap_pair _ _ _
  have hW : newVertsOf eps o n verts quads tris = verts ++ qv ++ tv := rfl
  have hWlen : (newVertsOf eps o n verts quads tris).length = verts.length + 2 * quads.length + 2 * tris.length := by
    rw [hW]; simp only [List.length_append, hlenq, hlent]
  constructor
  · unfold newFacesOf
    rw [List.map_append, List.map_append, hW]
    congr 1
    · congr 1
      · -- kept faces
        rw [List.map_map]
        apply List.map_congr_left
        intro e he
        simp only [Function.comp]
        rw [List.append_assoc, facePos_append _ _ _ (hk e he)]
      · -- quads
        have := quads_positions (K := K) (fun i => verts.getD i V3.zero) verts.length
          (fun e : Nat × T3 Nat × Nat => e.2.1.get (e.2.2 + 1)) (fun e => e.2.1.get (e.2.2 + 2))
          (fun e => (intPoints eps o n (facePos verts e.2.1)).get (e.2.2 + 2))
          (fun e => (intPoints eps o n (facePos verts e.2.1)).get e.2.2)
          quads (fun e he => ⟨T3.get_lt _ _ (hq e he) _, T3.get_lt _ _ (hq e he) _⟩) tv
          0 verts.length verts (by simp) (le_refl _) (fun i _ => rfl)
        rw [this]
        apply List.flatMap_congr
        intro e _
        simp only [quadOut, facePos_get]
    · -- triangles
      have := tris_positions (K := K) (fun i => verts.getD i V3.zero) verts.length
        (fun e : Nat × T3 Nat × Nat => e.2.1.get e.2.2)
        (fun e => (intPoints eps o n (facePos verts e.2.1)).get e.2.2)
        (fun e => (intPoints eps o n (facePos verts e.2.1)).get (e.2.2 + 2))
        tris (fun e he => T3.get_lt _ _ (ht e he) _) []
        0 (verts.length + 2 * quads.length) (verts ++ qv) (by simp [hlenq]) (by simp)
        (fun i hi => getD_append_lt _ _ _ hi)
      rw [List.append_nil] at this
      rw [this]
      apply List.map_congr_left
      intro e _
      simp only [triOut, facePos_get]
  · intro f hf
    unfold newFacesOf at hf
    rw [hWlen]
    simp only [List.mem_append] at hf
    rcases hf with (hf | hf) | hf
    · obtain ⟨e, he, rfl⟩ := List.mem_map.mp hf
      obtain ⟨ha, hb, hc⟩ := hk e he
      exact ⟨by omega, by omega, by omega⟩
    · exact quads_valid verts.length (fun e : Nat × T3 Nat × Nat => e.2.1.get (e.2.2 + 1))
        (fun e => e.2.1.get (e.2.2 + 2)) quads
        (fun e he => ⟨T3.get_lt _ _ (hq e he) _, T3.get_lt _ _ (hq e he) _⟩) verts.length _ (by omega) 0
        (by omega) f hf
    · exact tris_valid verts.length (fun e : Nat × T3 Nat × Nat => e.2.1.get e.2.2) tris (fun e he => T3.get_lt _ _ (ht e he) _)
        (verts.length + 2 * quads.length) _ (by omega) 0 (by omega) f hf

end PW.C02
