/-
  C10 — Rodrigues conversions produce the stated rotation and invert each other.

  proved in full
    forward: proper rotation, axis fixed, right-handed angle, zero ↦ I, shortcut within eps + eps² (§2)
    inverse: main branch = θ·k and both round trips, identity, exact half-turns ±π·k (every axis), length ≤ π for every
      rotation (`inv_length_le_pi_rot`; the division by ‖r_out‖ is never by zero on a rotation, `axis_zero_iff`),
      the quantitative snap clause `snap_bound_holds` (2.5e-5 within 1e-5 rad of 0 or π): near-zero half
      `snap_bound_near_zero` (s + s²), near-π half `snap_bound_near_pi` (2.5·s; signs from the symmetric part always
      consistent: `axis_signs_recovered`) (§3)
    dispatch and shape errors (§4); the generated fragment equals the model, incl. the three sign tests (§6)
  partial / known finding
    Jacobians (§5): `jac_composition_partial` (J_fwd·J_inv = I₃ outside the snap branch); the clause as stated
      (`jac_composition_full`, half-turns included) is FALSE: `jac_composition_full_false` (zero inverse Jacobian in the
      half-turn snap branch, known finding jacobian/composition/snap-branch)
  proved in separate files (the full statements are the `def`s below)
    `jacobian_is_derivative` — PW/Props/C10Deriv.lean: `jacobian_is_derivative_holds` (all 27 partial derivatives as
      `HasDerivAt`, plus the directional form `forward_directional_derivative`)
    Euler's rotation theorem and `roundtrip_mat_vec_mat_general` — PW/Props/C10Euler.lean: `euler_rotation` (every proper
      rotation is `rodFormula (cos θ) (sin θ) k`, `0 ≤ θ ≤ π`), `roundtrip_mat_vec_mat_general_holds`,
      `inv_length_le_pi_general`, `snap_bound_general`, `roundtrip_total_general` — the theorems of §3 for every `R` with
      `RᵀR = I`, `det R = 1`, not only for matrices given in axis–angle form
-/
import PW.Model.Rodrigues
import PW.Lemmas.Rodrigues
import PW.Gen.Rodrigues
import Mathlib.Analysis.Real.Pi.Bounds

set_option linter.unusedSectionVars false

namespace PW.C10

open PW.Rod

/-! ## 1. algebraic cores: `R = c·I + (1−c)·k kᵀ + s·[k]×` over any field -/
section core
variable {K : Type} [Field K]

/-- Rodrigues' formula as an action on vectors (no hypotheses): `R v = c v + (1−c)(k·v) k + s (k × v)`. -/
theorem rod_action (c s : K) (k v : V3 K) :
    (rodFormula c s k).mulVec v =
      V3.smul c v + V3.smul ((1 - c) * k.dot v) k + V3.smul s (k.cross v) := by
  ext <;> rod_unfold <;> ring

/-- `Rᵀ R = I` and `R Rᵀ = I` -/
theorem rod_orthogonal (c s : K) (k : V3 K) (hcs : c * c + s * s = 1) (hk : k.dot k = 1) :
    (rodFormula c s k).transpose.mul (rodFormula c s k) = M3.one ∧
    (rodFormula c s k).mul (rodFormula c s k).transpose = M3.one := by
  rw [V3.dot_def] at hk
  constructor
  · ext <;> rod_unfold
    · linear_combination (c^2*k.x^2 - c^2 - 2*c*k.x^2 + k.x^2 + 1) * hk + (k.y^2 + k.z^2) * hcs
    · linear_combination (c^2*k.x*k.y - 2*c*k.x*k.y + k.x*k.y) * hk + (-k.x*k.y) * hcs
    · linear_combination (c^2*k.x*k.z - 2*c*k.x*k.z + k.x*k.z) * hk + (-k.x*k.z) * hcs
    · linear_combination (c^2*k.x*k.y - 2*c*k.x*k.y + k.x*k.y) * hk + (-k.x*k.y) * hcs
    · linear_combination (c^2*k.y^2 - 2*c*k.y^2 + k.y^2 + s^2) * hk + (1 - k.y^2) * hcs
    · linear_combination (c^2*k.y*k.z - 2*c*k.y*k.z + k.y*k.z) * hk + (-k.y*k.z) * hcs
    · linear_combination (c^2*k.x*k.z - 2*c*k.x*k.z + k.x*k.z) * hk + (-k.x*k.z) * hcs
    · linear_combination (c^2*k.y*k.z - 2*c*k.y*k.z + k.y*k.z) * hk + (-k.y*k.z) * hcs
    · linear_combination (c^2*k.z^2 - 2*c*k.z^2 + k.z^2 + s^2) * hk + (1 - k.z^2) * hcs
  · ext <;> rod_unfold
    · linear_combination (c^2*k.x^2 - c^2 - 2*c*k.x^2 + k.x^2 + 1) * hk + (k.y^2 + k.z^2) * hcs
    · linear_combination (c^2*k.x*k.y - 2*c*k.x*k.y + k.x*k.y) * hk + (-k.x*k.y) * hcs
    · linear_combination (c^2*k.x*k.z - 2*c*k.x*k.z + k.x*k.z) * hk + (-k.x*k.z) * hcs
    · linear_combination (c^2*k.x*k.y - 2*c*k.x*k.y + k.x*k.y) * hk + (-k.x*k.y) * hcs
    · linear_combination (c^2*k.y^2 - 2*c*k.y^2 + k.y^2 + s^2) * hk + (1 - k.y^2) * hcs
    · linear_combination (c^2*k.y*k.z - 2*c*k.y*k.z + k.y*k.z) * hk + (-k.y*k.z) * hcs
    · linear_combination (c^2*k.x*k.z - 2*c*k.x*k.z + k.x*k.z) * hk + (-k.x*k.z) * hcs
    · linear_combination (c^2*k.y*k.z - 2*c*k.y*k.z + k.y*k.z) * hk + (-k.y*k.z) * hcs
    · linear_combination (c^2*k.z^2 - 2*c*k.z^2 + k.z^2 + s^2) * hk + (1 - k.z^2) * hcs

/-- `det R = 1` -/
theorem rod_det_one (c s : K) (k : V3 K) (hcs : c * c + s * s = 1) (hk : k.dot k = 1) :
    (rodFormula c s k).det = 1 := by
  rw [V3.dot_def] at hk
  rod_unfold
  linear_combination (-c^3 + c^2 - c*k.x^2*s^2 - c*k.y^2*s^2 - c*k.z^2*s^2 + k.x^2*s^2 + k.y^2*s^2 + k.z^2*s^2 + s^2) * hk + (1) * hcs

/-- the axis is fixed: `R k = k` -/
theorem rod_fixes_axis (c s : K) (k : V3 K) (hk : k.dot k = 1) :
    (rodFormula c s k).mulVec k = k := by
  rw [V3.dot_def] at hk
  ext <;> rod_unfold
  · linear_combination (-c*k.x + k.x) * hk
  · linear_combination (-c*k.y + k.y) * hk
  · linear_combination (-c*k.z + k.z) * hk

/-- vectors perpendicular to the axis are turned by the angle in the right-handed sense:
    `R v = c·v + s·(k × v)` -/
theorem rod_rotates_perp (c s : K) (k v : V3 K) (hperp : k.dot v = 0) :
    (rodFormula c s k).mulVec v = V3.smul c v + V3.smul s (k.cross v) := by
  rw [rod_action, hperp]
  ext <;> simp only [V3.add_x, V3.add_y, V3.add_z, V3.smul_x, V3.smul_y, V3.smul_z] <;> ring

/-- certificate identity for the two analytic Jacobians: with `is = 1/s`, `it = 1/θ`, `hf = 1/2`, row `a` of the
    forward Jacobian (at `r = θ·k`) and column `b` of the inverse Jacobian (at `rot(k, θ)`) have Frobenius product
    `δ_ab`, i.e. `J_fwd (3×9) · J_inv (9×3) = I₃`. -/
theorem jac_composition_core (c s θ it is hf : K) (k : V3 K) (hk : k.dot k = 1) (his : s * is = 1) (hit : θ * it = 1)
    (hh : 2 * hf = 1) :
    let d1 := hf * (-(is * hf) * c * is) * (-is)
    let d2 := hf * (-is)
    let Jf := fun a => fwdJacRow c s it k a
    let Ji := fun b => invJacBlock θ (is * hf) d1 d2 (2 * s * k.get b) b
    frob (Jf 0) (Ji 0) = 1 ∧ frob (Jf 0) (Ji 1) = 0 ∧ frob (Jf 0) (Ji 2) = 0 ∧
    frob (Jf 1) (Ji 0) = 0 ∧ frob (Jf 1) (Ji 1) = 1 ∧ frob (Jf 1) (Ji 2) = 0 ∧
    frob (Jf 2) (Ji 0) = 0 ∧ frob (Jf 2) (Ji 1) = 0 ∧ frob (Jf 2) (Ji 2) = 1 := by
  rw [V3.dot_def] at hk
  obtain ⟨r0, r1, r2⟩ := drrt_forms k
  obtain ⟨x0, x1, x2⟩ := drx_forms (K := K)
  obtain ⟨v0, v1, v2⟩ := dvardR_forms (K := K)
  have h2 : (rodTwo : K) = 2 := by unfold rodTwo; norm_num
  intro d1 d2 Jf Ji
  refine ⟨?_, ?_, ?_, ?_, ?_, ?_, ?_, ?_, ?_⟩ <;>
    simp only [Jf, Ji, d1, d2, frob, fwdJacRow, invJacBlock, r0, r1, r2, x0, x1, x2, v0, v1, v2, h2, V3.get] <;>
    rod_unfold
  · linear_combination (4*c^2*hf^2*is^3*it*k.x^2*s*θ - 4*c*hf^2*is^3*it*k.x^2*s*θ + 2*c*hf^2*is^3*k.x^2*s^2*θ - 4*c*hf^2*is^3*s^2*θ - 4*c*hf^2*is^2*it*k.x^2*s + 2*c*hf*is*θ + 4*hf^2*is^2*it*k.x^2*s - 2*hf^2*is^2*k.x^2*s^2 + 4*hf^2*is^2*s^2 - 2*hf*is*it*s*θ) * hk + (2*c*hf*is^3*k.y^2*s^2*θ + 2*c*hf*is^3*k.z^2*s^2*θ - 2*c*hf*is^3*s^2*θ + c*is^3*k.y^2*s^2*θ + c*is^3*k.z^2*s^2*θ - c*is^3*s^2*θ - c*is*k.y^2*θ - c*is*k.z^2*θ + c*is*θ - 2*hf*is^2*k.y^2*s^2 - 2*hf*is^2*k.z^2*s^2 + 2*hf*is^2*s^2 - is^2*k.y^2*s^2 - is^2*k.z^2*s^2 + is^2*s^2 + is*it*k.y^2*s*θ + is*it*k.z^2*s*θ) * hh + (c*is^2*k.y^2*s*θ + c*is^2*k.z^2*s*θ - c*is^2*s*θ + c*is*k.y^2*θ + c*is*k.z^2*θ - c*is*θ - is*k.y^2*s - is*k.z^2*s + is*s + it*k.y^2*θ + it*k.z^2*θ - k.y^2 - k.z^2 + 1) * his + (k.y^2 + k.z^2) * hit
  · linear_combination (4*c^2*hf^2*is^3*it*k.x*k.y*s*θ - 4*c*hf^2*is^3*it*k.x*k.y*s*θ + 2*c*hf^2*is^3*k.x*k.y*s^2*θ - 4*c*hf^2*is^2*it*k.x*k.y*s + 4*hf^2*is^2*it*k.x*k.y*s - 2*hf^2*is^2*k.x*k.y*s^2) * hk + (-2*c*hf*is^3*k.x*k.y*s^2*θ - c*is^3*k.x*k.y*s^2*θ + c*is*k.x*k.y*θ + 2*hf*is^2*k.x*k.y*s^2 + is^2*k.x*k.y*s^2 - is*it*k.x*k.y*s*θ) * hh + (-c*is^2*k.x*k.y*s*θ - c*is*k.x*k.y*θ + is*k.x*k.y*s - it*k.x*k.y*θ + k.x*k.y) * his + (-k.x*k.y) * hit
  · linear_combination (4*c^2*hf^2*is^3*it*k.x*k.z*s*θ - 4*c*hf^2*is^3*it*k.x*k.z*s*θ + 2*c*hf^2*is^3*k.x*k.z*s^2*θ - 4*c*hf^2*is^2*it*k.x*k.z*s + 4*hf^2*is^2*it*k.x*k.z*s - 2*hf^2*is^2*k.x*k.z*s^2) * hk + (-2*c*hf*is^3*k.x*k.z*s^2*θ - c*is^3*k.x*k.z*s^2*θ + c*is*k.x*k.z*θ + 2*hf*is^2*k.x*k.z*s^2 + is^2*k.x*k.z*s^2 - is*it*k.x*k.z*s*θ) * hh + (-c*is^2*k.x*k.z*s*θ - c*is*k.x*k.z*θ + is*k.x*k.z*s - it*k.x*k.z*θ + k.x*k.z) * his + (-k.x*k.z) * hit
  · linear_combination (4*c^2*hf^2*is^3*it*k.x*k.y*s*θ - 4*c*hf^2*is^3*it*k.x*k.y*s*θ + 2*c*hf^2*is^3*k.x*k.y*s^2*θ - 4*c*hf^2*is^2*it*k.x*k.y*s + 4*hf^2*is^2*it*k.x*k.y*s - 2*hf^2*is^2*k.x*k.y*s^2) * hk + (-2*c*hf*is^3*k.x*k.y*s^2*θ - c*is^3*k.x*k.y*s^2*θ + c*is*k.x*k.y*θ + 2*hf*is^2*k.x*k.y*s^2 + is^2*k.x*k.y*s^2 - is*it*k.x*k.y*s*θ) * hh + (-c*is^2*k.x*k.y*s*θ - c*is*k.x*k.y*θ + is*k.x*k.y*s - it*k.x*k.y*θ + k.x*k.y) * his + (-k.x*k.y) * hit
  · linear_combination (4*c^2*hf^2*is^3*it*k.y^2*s*θ - 4*c*hf^2*is^3*it*k.y^2*s*θ + 2*c*hf^2*is^3*k.y^2*s^2*θ - 4*c*hf^2*is^2*it*k.y^2*s + 4*hf^2*is^2*it*k.y^2*s - 2*hf^2*is^2*k.y^2*s^2) * hk + (-2*c*hf*is^3*k.y^2*s^2*θ - c*is^3*k.y^2*s^2*θ + c*is*k.y^2*θ + 2*hf*is^2*k.y^2*s^2 + is^2*k.y^2*s^2 - is*it*k.y^2*s*θ + is*it*s*θ) * hh + (-c*is^2*k.y^2*s*θ - c*is*k.y^2*θ + is*k.y^2*s - it*k.y^2*θ + it*θ + k.y^2) * his + (1 - k.y^2) * hit
  · linear_combination (4*c^2*hf^2*is^3*it*k.y*k.z*s*θ - 4*c*hf^2*is^3*it*k.y*k.z*s*θ + 2*c*hf^2*is^3*k.y*k.z*s^2*θ - 4*c*hf^2*is^2*it*k.y*k.z*s + 4*hf^2*is^2*it*k.y*k.z*s - 2*hf^2*is^2*k.y*k.z*s^2) * hk + (-2*c*hf*is^3*k.y*k.z*s^2*θ - c*is^3*k.y*k.z*s^2*θ + c*is*k.y*k.z*θ + 2*hf*is^2*k.y*k.z*s^2 + is^2*k.y*k.z*s^2 - is*it*k.y*k.z*s*θ) * hh + (-c*is^2*k.y*k.z*s*θ - c*is*k.y*k.z*θ + is*k.y*k.z*s - it*k.y*k.z*θ + k.y*k.z) * his + (-k.y*k.z) * hit
  · linear_combination (4*c^2*hf^2*is^3*it*k.x*k.z*s*θ - 4*c*hf^2*is^3*it*k.x*k.z*s*θ + 2*c*hf^2*is^3*k.x*k.z*s^2*θ - 4*c*hf^2*is^2*it*k.x*k.z*s + 4*hf^2*is^2*it*k.x*k.z*s - 2*hf^2*is^2*k.x*k.z*s^2) * hk + (-2*c*hf*is^3*k.x*k.z*s^2*θ - c*is^3*k.x*k.z*s^2*θ + c*is*k.x*k.z*θ + 2*hf*is^2*k.x*k.z*s^2 + is^2*k.x*k.z*s^2 - is*it*k.x*k.z*s*θ) * hh + (-c*is^2*k.x*k.z*s*θ - c*is*k.x*k.z*θ + is*k.x*k.z*s - it*k.x*k.z*θ + k.x*k.z) * his + (-k.x*k.z) * hit
  · linear_combination (4*c^2*hf^2*is^3*it*k.y*k.z*s*θ - 4*c*hf^2*is^3*it*k.y*k.z*s*θ + 2*c*hf^2*is^3*k.y*k.z*s^2*θ - 4*c*hf^2*is^2*it*k.y*k.z*s + 4*hf^2*is^2*it*k.y*k.z*s - 2*hf^2*is^2*k.y*k.z*s^2) * hk + (-2*c*hf*is^3*k.y*k.z*s^2*θ - c*is^3*k.y*k.z*s^2*θ + c*is*k.y*k.z*θ + 2*hf*is^2*k.y*k.z*s^2 + is^2*k.y*k.z*s^2 - is*it*k.y*k.z*s*θ) * hh + (-c*is^2*k.y*k.z*s*θ - c*is*k.y*k.z*θ + is*k.y*k.z*s - it*k.y*k.z*θ + k.y*k.z) * his + (-k.y*k.z) * hit
  · linear_combination (4*c^2*hf^2*is^3*it*k.z^2*s*θ - 4*c*hf^2*is^3*it*k.z^2*s*θ + 2*c*hf^2*is^3*k.z^2*s^2*θ - 4*c*hf^2*is^2*it*k.z^2*s + 4*hf^2*is^2*it*k.z^2*s - 2*hf^2*is^2*k.z^2*s^2) * hk + (-2*c*hf*is^3*k.z^2*s^2*θ - c*is^3*k.z^2*s^2*θ + c*is*k.z^2*θ + 2*hf*is^2*k.z^2*s^2 + is^2*k.z^2*s^2 - is*it*k.z^2*s*θ + is*it*s*θ) * hh + (-c*is^2*k.z^2*s*θ - c*is*k.z^2*θ + is*k.z^2*s - it*k.z^2*θ + it*θ + k.z^2) * his + (1 - k.z^2) * hit

end core


/-! ## 2. the forward conversion `rodrigues_vector_to_rotation_matrix` over ℝ -/
section forward

/-- outside the `theta < eps` shortcut the result is Rodrigues' formula with `c = cos‖r‖`, `s = sin‖r‖`,
    `k = r/‖r‖` -/
theorem forward_eq_formula (eps : ℝ) (r : V3 ℝ) (heps : 0 < eps) (h : eps ≤ r.norm) :
    (rodriguesForward eps r).R =
      rodFormula (Real.cos r.norm) (Real.sin r.norm) (V3.smul (1 / r.norm) r) := by
  have hpos : 0 < r.norm := lt_of_lt_of_le heps h
  have hne : (r.norm == 0) = false := by simp [ne_of_gt hpos]
  unfold rodriguesForward
  simp only [if_neg (not_lt.mpr h), hne]
  rfl

/-- inside the shortcut (`‖r‖ < eps`, in particular `r = 0`) the result is the identity -/
theorem forward_shortcut (eps : ℝ) (r : V3 ℝ) (h : r.norm < eps) :
    (rodriguesForward eps r).R = M3.one := by
  unfold rodriguesForward
  simp only [if_pos h]

/-- `r = 0 ↦ I` -/
theorem rod_zero (eps : ℝ) (heps : 0 < eps) : (rodriguesForward eps (V3.zero : V3 ℝ)).R = M3.one :=
  forward_shortcut eps _ (by rw [norm_zero]; exact heps)

/-- for every rotation vector the result is a proper rotation: orthonormal with determinant +1 -/
theorem forward_proper (eps : ℝ) (heps : 0 < eps) (r : V3 ℝ) :
    (rodriguesForward eps r).R.transpose.mul (rodriguesForward eps r).R = M3.one ∧
    (rodriguesForward eps r).R.mul (rodriguesForward eps r).R.transpose = M3.one ∧
    (rodriguesForward eps r).R.det = 1 := by
  by_cases h : r.norm < eps
  · rw [forward_shortcut eps r h]; exact one_proper
  · have h' : eps ≤ r.norm := not_lt.mp h
    have hk := unit_normalized r (lt_of_lt_of_le heps h')
    rw [forward_eq_formula eps r heps h']
    exact ⟨(rod_orthogonal _ _ _ (cos_sin_sq _) hk).1, (rod_orthogonal _ _ _ (cos_sin_sq _) hk).2,
      rod_det_one _ _ _ (cos_sin_sq _) hk⟩

/-- the rotation fixes its axis: `R r = r` (hence `R (r/‖r‖) = r/‖r‖`) -/
theorem forward_fixes_axis (eps : ℝ) (heps : 0 < eps) (r : V3 ℝ) :
    (rodriguesForward eps r).R.mulVec r = r := by
  by_cases h : r.norm < eps
  · rw [forward_shortcut eps r h]; exact one_mulVec r
  · have h' : eps ≤ r.norm := not_lt.mp h
    have hpos := lt_of_lt_of_le heps h'
    have hk := unit_normalized r hpos
    rw [forward_eq_formula eps r heps h']
    have hr := smul_norm_normalized r hpos
    calc (rodFormula (Real.cos r.norm) (Real.sin r.norm) (V3.smul (1 / r.norm) r)).mulVec r
        = (rodFormula (Real.cos r.norm) (Real.sin r.norm) (V3.smul (1 / r.norm) r)).mulVec
            (V3.smul r.norm (V3.smul (1 / r.norm) r)) := by rw [hr]
      _ = V3.smul r.norm (V3.smul (1 / r.norm) r) := by rw [mulVec_smul, rod_fixes_axis _ _ _ hk]
      _ = r := hr

/-- vectors perpendicular to the axis are turned by the angle `‖r‖` in the right-handed sense:
    `R v = cos‖r‖ · v + sin‖r‖ · (r/‖r‖ × v)` -/
theorem forward_rotates_perp (eps : ℝ) (heps : 0 < eps) (r v : V3 ℝ) (h : eps ≤ r.norm) (hperp : r.dot v = 0) :
    (rodriguesForward eps r).R.mulVec v =
      V3.smul (Real.cos r.norm) v + V3.smul (Real.sin r.norm) ((V3.smul (1 / r.norm) r).cross v) := by
  rw [forward_eq_formula eps r heps h]
  apply rod_rotates_perp
  rw [V3.dot_def] at hperp ⊢
  simp only [V3.smul_x, V3.smul_y, V3.smul_z]
  linear_combination (1 / r.norm) * hperp

/-- in axis–angle terms: for a unit axis `k` and `θ ≥ eps`, `r = θ·k ↦ rot(k, θ)` -/
theorem forward_axis_angle (eps θ : ℝ) (k : V3 ℝ) (hk : k.dot k = 1) (heps : 0 < eps) (h : eps ≤ θ) :
    (rodriguesForward eps (V3.smul θ k)).R = rodFormula (Real.cos θ) (Real.sin θ) k := by
  have hθ : 0 < θ := lt_of_lt_of_le heps h
  have hn : (V3.smul θ k).norm = θ := norm_smul_unit θ k hθ.le hk
  rw [forward_eq_formula eps _ heps (by rw [hn]; exact h), hn]
  congr 1
  have h0' : θ ≠ 0 := ne_of_gt hθ
  ext <;> simp only [V3.smul_x, V3.smul_y, V3.smul_z] <;> field_simp

/-- inside the shortcut with `0 < ‖r‖ < eps ≤ 1` the returned identity differs from the true rotation
    `rot(r/‖r‖, ‖r‖)` by less than `eps + eps²` in every entry -/
theorem forward_shortcut_close (eps : ℝ) (r : V3 ℝ) (h0 : 0 < r.norm) (h : r.norm < eps) (h1 : eps ≤ 1) :
    entriesWithin (rodFormula (Real.cos r.norm) (Real.sin r.norm) (V3.smul (1 / r.norm) r))
      (rodriguesForward eps r).R (eps + eps * eps) := by
  rw [forward_shortcut eps r h]
  have hpi : r.norm < Real.pi / 2 := by linarith [Real.one_le_pi_div_two]
  have hc : 0 < Real.cos r.norm := Real.cos_pos_of_mem_Ioo ⟨by linarith, hpi⟩
  have hs0 : 0 ≤ Real.sin r.norm := Real.sin_nonneg_of_nonneg_of_le_pi h0.le (by linarith [Real.pi_pos])
  have hs : Real.sin r.norm < eps := lt_trans (Real.sin_lt h0) h
  have key := near_identity (Real.cos r.norm) (Real.sin r.norm) _ (unit_normalized r h0) (cos_sin_sq _) hc hs0
  have hb : Real.sin r.norm + Real.sin r.norm * Real.sin r.norm ≤ eps + eps * eps := by nlinarith
  unfold entriesWithin at key ⊢
  obtain ⟨k1, k2, k3, k4, k5, k6, k7, k8, k9⟩ := key
  exact ⟨k1.trans hb, k2.trans hb, k3.trans hb, k4.trans hb, k5.trans hb, k6.trans hb, k7.trans hb, k8.trans hb,
    k9.trans hb⟩

end forward


/-! ## 3. the inverse conversion `rotation_matrix_to_rodrigues_vector` over ℝ

`proj` is the SVD projection `R ↦ u·v`; its contract (trusted, residual checked by the harness) is that it is the
identity on proper rotations — here it enters as the hypothesis `proj R = R` for the rotation at hand.
A proper rotation is given in axis–angle form `rot(k, θ) = rodFormula (cos θ) (sin θ) k` with `|k| = 1`. -/
section inverse

/-- main branch: for `R = rot(k, θ)` with `0 < θ < π` and `sin θ ≥ thr` (the code's `1e-5`) the result is exactly `θ·k` -/
theorem inv_main (thr θ : ℝ) (k : V3 ℝ) (proj : M3 ℝ → M3 ℝ) (hk : k.dot k = 1) (h0 : 0 < θ) (hπ : θ < Real.pi)
    (hthr : thr ≤ Real.sin θ)
    (hproj : proj (rodFormula (Real.cos θ) (Real.sin θ) k) = rodFormula (Real.cos θ) (Real.sin θ) k) :
    (rodriguesInverse thr proj (rodFormula (Real.cos θ) (Real.sin θ) k)).w = V3.smul θ k := by
  unfold rodriguesInverse
  rw [hproj]
  obtain ⟨e1, e2, e3, e4⟩ := formula_parts (Real.cos θ) (Real.sin θ) k hk
  exact inv_core_of thr _ (Real.sin θ) (Real.cos θ) θ k e1 e2 e3 e4 hk (Real.sin_pos_of_pos_of_lt_pi h0 hπ)
    (Real.neg_one_le_cos θ) (Real.cos_le_one θ) (Real.arccos_cos h0.le hπ.le) hthr

/-- vector → matrix → vector is the identity for `eps ≤ ‖r‖ < π`, `sin‖r‖ ≥ thr` -/
theorem roundtrip_vec_mat_vec (eps thr : ℝ) (r : V3 ℝ) (proj : M3 ℝ → M3 ℝ) (heps : 0 < eps) (h1 : eps ≤ r.norm)
    (h2 : r.norm < Real.pi) (hthr : thr ≤ Real.sin r.norm)
    (hproj : proj (rodriguesForward eps r).R = (rodriguesForward eps r).R) :
    (rodriguesInverse thr proj (rodriguesForward eps r).R).w = r := by
  have hpos : 0 < r.norm := lt_of_lt_of_le heps h1
  rw [forward_eq_formula eps r heps h1] at hproj ⊢
  rw [inv_main thr r.norm _ proj (unit_normalized r hpos) hpos h2 hthr hproj]
  exact smul_norm_normalized r hpos

/-- matrix → vector → matrix is the identity for `R = rot(k, θ)`, `eps ≤ θ < π`, `sin θ ≥ thr` -/
theorem roundtrip_mat_vec_mat (eps thr θ : ℝ) (k : V3 ℝ) (proj : M3 ℝ → M3 ℝ) (hk : k.dot k = 1) (heps : 0 < eps)
    (h0 : eps ≤ θ) (hπ : θ < Real.pi) (hthr : thr ≤ Real.sin θ)
    (hproj : proj (rodFormula (Real.cos θ) (Real.sin θ) k) = rodFormula (Real.cos θ) (Real.sin θ) k) :
    (rodriguesForward eps (rodriguesInverse thr proj (rodFormula (Real.cos θ) (Real.sin θ) k)).w).R =
      rodFormula (Real.cos θ) (Real.sin θ) k := by
  have hθ : 0 < θ := lt_of_lt_of_le heps h0
  rw [inv_main thr θ k proj hk hθ hπ hthr hproj]
  have hn : (V3.smul θ k).norm = θ := norm_smul_unit θ k hθ.le hk
  rw [forward_eq_formula eps _ heps (by rw [hn]; exact h0), hn]
  congr 1
  have h0' : θ ≠ 0 := ne_of_gt hθ
  ext <;> simp only [V3.smul_x, V3.smul_y, V3.smul_z] <;> field_simp

/-- `R = I ↦ 0` -/
theorem inv_identity (thr : ℝ) (proj : M3 ℝ → M3 ℝ) (hthr : 0 < thr) (hproj : proj M3.one = M3.one) :
    (rodriguesInverse thr proj (M3.one : M3 ℝ)).w = V3.zero := by
  unfold rodriguesInverse
  rw [hproj]
  have hs : V3.norm (⟨(0 : ℝ) - 0, 0 - 0, 0 - 0⟩ : V3 ℝ) * PW.Sqrt.sqrt (rodQuarter : ℝ) = 0 := by
    rw [norm_def, V3.dot_def]; simp
  have hc : clip (((1 : ℝ) + 1 + 1 - 1) * rodHalf) (-1) 1 = 1 := by
    rw [rodHalf_eq, show ((1 : ℝ) + 1 + 1 - 1) * (1 / 2) = 1 by norm_num]
    exact clip_mem 1 (by norm_num) le_rfl
  unfold rodriguesInverseCore
  simp only [M3.one, hs, hc, if_pos hthr, if_pos (one_pos : (0 : ℝ) < 1)]

/-- exact half-turns `R = 2kkᵀ − I` (every axis direction and octant, zero components included):
    the result is `π·k` or `−π·k` -/
theorem inv_half_turn (thr : ℝ) (k : V3 ℝ) (proj : M3 ℝ → M3 ℝ) (hk : k.dot k = 1) (hthr : 0 < thr)
    (hproj : proj (rodFormula (-1) 0 k) = rodFormula (-1) 0 k) :
    (rodriguesInverse thr proj (rodFormula (-1) 0 k)).w = V3.smul Real.pi k ∨
    (rodriguesInverse thr proj (rodFormula (-1) 0 k)).w = V3.smul Real.pi (-k) := by
  unfold rodriguesInverse
  rw [hproj]
  obtain ⟨d0, d1, d2, o1, o2, o3, e1, e2, e3, htr⟩ := half_turn_entries k hk
  exact inv_core_half thr _ k e1 e2 e3 htr hk hthr (halfTurnAxis_of _ k d0 d1 d2 o1 o2 o3)

/-- … hence `w wᵀ = π² k kᵀ`, `‖w‖ = π`, and `w` maps back to `R` -/
theorem inv_half_turn_outer (eps thr : ℝ) (k : V3 ℝ) (proj : M3 ℝ → M3 ℝ) (hk : k.dot k = 1) (hthr : 0 < thr)
    (heps : 0 < eps) (hepi : eps ≤ Real.pi)
    (hproj : proj (rodFormula (-1) 0 k) = rodFormula (-1) 0 k) :
    outer (rodriguesInverse thr proj (rodFormula (-1) 0 k)).w = M3.smul (Real.pi * Real.pi) (outer k) ∧
    (rodriguesInverse thr proj (rodFormula (-1) 0 k)).w.norm = Real.pi ∧
    (rodriguesForward eps (rodriguesInverse thr proj (rodFormula (-1) 0 k)).w).R = rodFormula (-1) 0 k := by
  have hk' : (-k).dot (-k) = 1 := by
    rw [V3.dot_def] at hk ⊢; simp only [V3.neg_x, V3.neg_y, V3.neg_z]; linear_combination hk
  have hflip : rodFormula (-1) 0 (-k) = rodFormula (-1 : ℝ) 0 k := by
    ext <;> rod_unfold <;> ring
  rcases inv_half_turn thr k proj hk hthr hproj with h | h <;> rw [h]
  · refine ⟨?_, norm_smul_unit _ k Real.pi_pos.le hk, ?_⟩
    · ext <;> rod_unfold <;> ring
    · rw [forward_axis_angle eps Real.pi k hk heps hepi, Real.cos_pi, Real.sin_pi]
  · refine ⟨?_, norm_smul_unit _ (-k) Real.pi_pos.le hk', ?_⟩
    · ext <;> rod_unfold <;> ring
    · rw [forward_axis_angle eps Real.pi (-k) hk' heps hepi, Real.cos_pi, Real.sin_pi, hflip]

/-- the result has length at most π — for *every* matrix reaching the conversion (not only rotations) whose recovered
    axis `r_out` is not the zero vector: the half-turn branch normalises it (`theta /= np.linalg.norm(r_out)`), so the
    length is `θ = arccos c ≤ π`.  For a rotation the hypothesis always holds (`‖r_out‖² = 2 + cos θ ≥ 1`,
    `axis_norm_sq`; `inv_length_le_pi_rot`); `r_out = 0` is the case of `axis_zero_iff`. -/
theorem inv_length_le_pi (thr : ℝ) (p : M3 ℝ) (hthr : 0 < thr) (hv : 0 < (halfTurnAxis p).norm) :
    (rodriguesInverseCore thr p).w.norm ≤ Real.pi := by
  unfold rodriguesInverseCore
  simp only []
  split_ifs with h1 h2
  · rw [norm_zero]; exact Real.pi_pos.le
  · rw [norm_smul, acos_eq, abs_of_nonneg (div_nonneg (Real.arccos_nonneg _) hv.le),
      div_mul_cancel₀ _ (ne_of_gt hv)]
    exact Real.arccos_le_pi _
  · rw [norm_mul_right, sqrt_quarter, rodTwo_eq, acos_eq]
    rw [sqrt_quarter] at h1
    have hn : 0 < V3.norm (⟨p.r2.y - p.r1.z, p.r0.z - p.r2.x, p.r1.x - p.r0.y⟩ : V3 ℝ) := by
      have := not_lt.mp h1
      nlinarith [this, hthr]
    have hθ := Real.arccos_nonneg (clip ((p.r0.x + p.r1.y + p.r2.z - 1) * rodHalf) (-1) 1)
    rw [abs_of_nonneg (by positivity)]
    have : 1 / (2 * (V3.norm (⟨p.r2.y - p.r1.z, p.r0.z - p.r2.x, p.r1.x - p.r0.y⟩ : V3 ℝ) * (1 / 2))) *
        Real.arccos (clip ((p.r0.x + p.r1.y + p.r2.z - 1) * rodHalf) (-1) 1) *
        V3.norm (⟨p.r2.y - p.r1.z, p.r0.z - p.r2.x, p.r1.x - p.r0.y⟩ : V3 ℝ) =
        Real.arccos (clip ((p.r0.x + p.r1.y + p.r2.z - 1) * rodHalf) (-1) 1) := by
      field_simp
    rw [this]
    exact Real.arccos_le_pi _

/-- the squared length of the recovered axis on a rotation: `‖r_out‖² = Σ (R_ii + 1)/2 = 2 + cos θ` (not 1, unless
    `θ = π`) -/
theorem axis_norm_sq (c s : ℝ) (k : V3 ℝ) (hk : k.dot k = 1) (hc1 : -1 ≤ c) (hc2 : c ≤ 1) :
    (halfTurnAxis (rodFormula c s k)).norm * (halfTurnAxis (rodFormula c s k)).norm = 2 + c := by
  obtain ⟨q1, q2, q3⟩ := halfTurnAxis_sq (rodFormula c s k)
  obtain ⟨d1, d2, d3⟩ := formula_diag c s k hk hc1 hc2
  rw [d1] at q1; rw [d2] at q2; rw [d3] at q3
  rw [V3.dot_def] at hk
  rw [norm_mul_self, V3.dot_def]
  linear_combination q1 + q2 + q3 + (1 - (1 + c) / 2) * hk

/-- for every rotation `rot(k, θ)` (any real `θ`) the result has length at most π, in every branch: the division
    `theta / ‖r_out‖` of the half-turn branch is never by zero on a rotation -/
theorem inv_length_le_pi_rot (thr θ : ℝ) (k : V3 ℝ) (proj : M3 ℝ → M3 ℝ) (hk : k.dot k = 1) (hthr : 0 < thr)
    (hproj : proj (rodFormula (Real.cos θ) (Real.sin θ) k) = rodFormula (Real.cos θ) (Real.sin θ) k) :
    0 < (halfTurnAxis (rodFormula (Real.cos θ) (Real.sin θ) k)).norm ∧
    (rodriguesInverse thr proj (rodFormula (Real.cos θ) (Real.sin θ) k)).w.norm ≤ Real.pi := by
  have hN := axis_norm_sq (Real.cos θ) (Real.sin θ) k hk (Real.neg_one_le_cos θ) (Real.cos_le_one θ)
  have hpos : 0 < (halfTurnAxis (rodFormula (Real.cos θ) (Real.sin θ) k)).norm := by
    have h0 := norm_nonneg (halfTurnAxis (rodFormula (Real.cos θ) (Real.sin θ) k))
    have hc1 := Real.neg_one_le_cos θ
    rcases h0.lt_or_eq with h | h
    · exact h
    · rw [← h] at hN; linarith
  refine ⟨hpos, ?_⟩
  unfold rodriguesInverse
  rw [hproj]
  exact inv_length_le_pi thr _ hthr hpos

/-- the case `r_out = 0` of the half-turn branch, where the code divides `theta` by zero (NumPy: `nan` result): it
    needs every diagonal entry `≤ −1`, e.g. `−I`, which is not a rotation (trace of a rotation is `1 + 2cos θ ≥ −1`) -/
theorem axis_zero_iff (p : M3 ℝ) :
    (halfTurnAxis p).norm = 0 ↔ p.r0.x ≤ -1 ∧ p.r1.y ≤ -1 ∧ p.r2.z ≤ -1 := halfTurnAxis_norm_zero_iff p

/-- FULL-GENERALITY statement of "maps back to R" for an arbitrary proper rotation (proved in PW/Props/C10Euler.lean,
    `roundtrip_mat_vec_mat_general_holds`, for `0 < eps ≤ thr`): the theorems above take the rotation in axis–angle form
    `rot(k, θ)`; that every `R` with `RᵀR = I`, `det R = 1` is of that form with `0 ≤ θ ≤ π` is Euler's rotation theorem
    (`euler_rotation`, same file). The main-range condition is
    expressed through the antisymmetric part (`sin θ = ‖vee(R − Rᵀ)‖/2`). -/
def roundtrip_mat_vec_mat_general (eps thr : ℝ) : Prop :=
  ∀ (R : M3 ℝ) (proj : M3 ℝ → M3 ℝ), R.transpose.mul R = M3.one → R.det = 1 → proj R = R →
    thr ≤ V3.norm (⟨R.r2.y - R.r1.z, R.r0.z - R.r2.x, R.r1.x - R.r0.y⟩ : V3 ℝ) / 2 →
    (rodriguesForward eps (rodriguesInverse thr proj R).w).R = R

/-- the quantitative snap clause: for every rotation `rot(k, θ)`, `0 ≤ θ ≤ π`, whose `sin θ` is below the threshold,
    the returned vector maps back to within `2.5e-5` of the input, entrywise.  Proved for the code's threshold in
    `snap_bound_holds` (near-zero half: `snap_bound_near_zero`, near-π half: `snap_bound_near_pi`).  It was false
    before fix 9da4f71 (signs read off single entries: error `≈ 2.8·√(sin θ)` for axes with two small components). -/
def snap_bound (eps thr : ℝ) : Prop :=
  ∀ (θ : ℝ) (k : V3 ℝ) (proj : M3 ℝ → M3 ℝ), k.dot k = 1 → 0 ≤ θ → θ ≤ Real.pi → Real.sin θ < thr →
    proj (rodFormula (Real.cos θ) (Real.sin θ) k) = rodFormula (Real.cos θ) (Real.sin θ) k →
    entriesWithin (rodriguesForward eps (rodriguesInverse thr proj (rodFormula (Real.cos θ) (Real.sin θ) k)).w).R
      (rodFormula (Real.cos θ) (Real.sin θ) k) (25 / 1000000)

/-- the near-zero half of `snap_bound` (angles with `cos θ > 0`), with the sharper bound `s + s²`
    (`< 1.00001e-5` for `s < 1e-5`): the result is the zero vector, which maps back to the identity, which is within
    `sin θ + sin²θ` of the input. -/
theorem snap_bound_near_zero (eps thr θ : ℝ) (k : V3 ℝ) (proj : M3 ℝ → M3 ℝ) (hk : k.dot k = 1) (heps : 0 < eps)
    (hc : 0 < Real.cos θ) (hs0 : 0 ≤ Real.sin θ) (hs : Real.sin θ < thr)
    (hproj : proj (rodFormula (Real.cos θ) (Real.sin θ) k) = rodFormula (Real.cos θ) (Real.sin θ) k) :
    (rodriguesInverse thr proj (rodFormula (Real.cos θ) (Real.sin θ) k)).w = V3.zero ∧
    entriesWithin (rodFormula (Real.cos θ) (Real.sin θ) k)
      (rodriguesForward eps (rodriguesInverse thr proj (rodFormula (Real.cos θ) (Real.sin θ) k)).w).R
      (Real.sin θ + Real.sin θ * Real.sin θ) := by
  obtain ⟨e1, e2, e3, e4⟩ := formula_parts (Real.cos θ) (Real.sin θ) k hk
  have hw : (rodriguesInverse thr proj (rodFormula (Real.cos θ) (Real.sin θ) k)).w = V3.zero := by
    unfold rodriguesInverse
    rw [hproj]
    exact inv_core_zero thr _ (Real.sin θ) (Real.cos θ) k e1 e2 e3 e4 hk hs0 hc (Real.cos_le_one θ) hs
  refine ⟨hw, ?_⟩
  rw [hw, rod_zero eps heps]
  exact near_identity _ _ k hk (cos_sin_sq θ) hc hs0

/-- what the half-turn branch returns for `R = rot(k, θ)` with `cos θ ≤ 0`, `sin θ < thr`: the axis recovered from
    the diagonal, scaled to length `θ` (not `π`), which the forward conversion maps to `rot(v/‖v‖, θ)` -/
theorem near_pi_result (eps thr θ : ℝ) (k : V3 ℝ) (proj : M3 ℝ → M3 ℝ) (hk : k.dot k = 1) (heps : 0 < eps)
    (heps1 : eps ≤ 1) (h0 : 0 ≤ θ) (hπ : θ ≤ Real.pi) (hc : Real.cos θ ≤ 0) (hs : Real.sin θ < thr)
    (hproj : proj (rodFormula (Real.cos θ) (Real.sin θ) k) = rodFormula (Real.cos θ) (Real.sin θ) k) :
    let v := halfTurnAxis (rodFormula (Real.cos θ) (Real.sin θ) k)
    (rodriguesInverse thr proj (rodFormula (Real.cos θ) (Real.sin θ) k)).w = V3.smul (θ / v.norm) v ∧
    v.norm * v.norm = 2 + Real.cos θ ∧
    (rodriguesForward eps (rodriguesInverse thr proj (rodFormula (Real.cos θ) (Real.sin θ) k)).w).R =
      rodFormula (Real.cos θ) (Real.sin θ) (V3.smul (1 / v.norm) v) := by
  intro v
  have hs0 : 0 ≤ Real.sin θ := Real.sin_nonneg_of_nonneg_of_le_pi h0 hπ
  obtain ⟨e1, e2, e3, e4⟩ := formula_parts (Real.cos θ) (Real.sin θ) k hk
  have hw : (rodriguesInverse thr proj (rodFormula (Real.cos θ) (Real.sin θ) k)).w = V3.smul (θ / v.norm) v := by
    unfold rodriguesInverse
    rw [hproj]
    exact inv_core_near_pi thr _ (Real.sin θ) (Real.cos θ) θ k e1 e2 e3 e4 hk hs0 (Real.neg_one_le_cos θ) hc
      (Real.arccos_cos h0 hπ) hs
  obtain ⟨q1, q2, q3⟩ := halfTurnAxis_sq (rodFormula (Real.cos θ) (Real.sin θ) k)
  obtain ⟨d1, d2, d3⟩ := formula_diag (Real.cos θ) (Real.sin θ) k hk (Real.neg_one_le_cos θ) (Real.cos_le_one θ)
  rw [d1] at q1; rw [d2] at q2; rw [d3] at q3
  have hkd := hk
  rw [V3.dot_def] at hkd
  have hN : v.norm * v.norm = 2 + Real.cos θ := by
    rw [norm_mul_self, V3.dot_def]
    linear_combination q1 + q2 + q3 + (1 - (1 + Real.cos θ) / 2) * hkd
  have hNpos : 0 < v.norm := by
    have := norm_nonneg v
    have hc1 := Real.neg_one_le_cos θ
    rcases this.lt_or_eq with h | h
    · exact h
    · rw [← h] at hN; linarith
  refine ⟨hw, hN, ?_⟩
  have hθ : eps ≤ θ := by
    by_contra h
    have h := not_le.mp h
    have : 0 < Real.cos θ :=
      Real.cos_pos_of_mem_Ioo ⟨by linarith [Real.pi_pos], by linarith [Real.one_le_pi_div_two]⟩
    linarith
  have hsplit : V3.smul (θ / v.norm) v = V3.smul θ (V3.smul (1 / v.norm) v) := by
    ext <;> simp only [V3.smul_x, V3.smul_y, V3.smul_z] <;> ring
  rw [hw, hsplit]
  exact forward_axis_angle eps θ _ (unit_normalized v hNpos) heps hθ

/-- the sign fix-ups read the symmetric part `(R + Rᵀ)/2 = c·I + (1−c)·kkᵀ`, whose off-diagonal entries are
    `(1−c)kᵢkⱼ` with `1 − c ≥ 1`: the recovered axis always has the sign pattern of `k` or of `−k` (weakly — a zero
    component of `k` puts no condition), for every rotation with `cos θ < 1`. -/
theorem axis_signs_recovered (c s : ℝ) (k : V3 ℝ) (hk : k.dot k = 1) (hc1 : -1 ≤ c) (hc2 : c < 1) :
    ∃ σ : ℝ, (σ = 1 ∨ σ = -1) ∧ 0 ≤ σ * (halfTurnAxis (rodFormula c s k)).x * k.x ∧
      0 ≤ σ * (halfTurnAxis (rodFormula c s k)).y * k.y ∧ 0 ≤ σ * (halfTurnAxis (rodFormula c s k)).z * k.z := by
  apply halfTurnAxis_signs (rodFormula c s k) k (2 * (1 - c)) ((1 + c) / 2) (1 - (1 + c) / 2) (by linarith) (by linarith)
    (by linarith) <;> rod_unfold <;> ring

/-- the near-π half of `snap_bound` (`cos θ ≤ 0`, `0 ≤ sin θ < thr ≤ 1/100`): the returned vector `θ·v/‖v‖` (`v` the
    axis recovered from the diagonal, signs from the symmetric part) maps back to within `2.5·sin θ` (`< 2.5e-5` for the
    code's `thr = 1e-5`) of the input, entrywise.  The constant is nearly sharp: `√6·sin θ ≈ 2.449·sin θ` is attained
    when `−k` is recovered (`k.x < 0`), because the returned rotation is then `rot(−k, θ)`, not `rot(−k, 2π − θ)`. -/
theorem snap_bound_near_pi (eps thr θ : ℝ) (k : V3 ℝ) (proj : M3 ℝ → M3 ℝ) (hk : k.dot k = 1) (heps : 0 < eps)
    (heps1 : eps ≤ 1) (hthr : thr ≤ 1 / 100) (h0 : 0 ≤ θ) (hπ : θ ≤ Real.pi) (hc : Real.cos θ ≤ 0)
    (hs : Real.sin θ < thr)
    (hproj : proj (rodFormula (Real.cos θ) (Real.sin θ) k) = rodFormula (Real.cos θ) (Real.sin θ) k) :
    entriesWithin (rodriguesForward eps (rodriguesInverse thr proj (rodFormula (Real.cos θ) (Real.sin θ) k)).w).R
      (rodFormula (Real.cos θ) (Real.sin θ) k) (5 / 2 * Real.sin θ) := by
  have hs0 : 0 ≤ Real.sin θ := Real.sin_nonneg_of_nonneg_of_le_pi h0 hπ
  obtain ⟨_, _, hR⟩ := near_pi_result eps thr θ k proj hk heps heps1 h0 hπ hc hs hproj
  obtain ⟨q1, q2, q3⟩ := halfTurnAxis_sq (rodFormula (Real.cos θ) (Real.sin θ) k)
  obtain ⟨d1, d2, d3⟩ := formula_diag (Real.cos θ) (Real.sin θ) k hk (Real.neg_one_le_cos θ) (Real.cos_le_one θ)
  rw [d1] at q1; rw [d2] at q2; rw [d3] at q3
  obtain ⟨σ, hσ, hsx, hsy, hsz⟩ :=
    axis_signs_recovered (Real.cos θ) (Real.sin θ) k hk (Real.neg_one_le_cos θ) (by linarith)
  rw [hR]
  exact near_pi_entries (Real.cos θ) (Real.sin θ) σ k _ hk (cos_sin_sq θ) (Real.neg_one_le_cos θ) hc hs0
    (by linarith) q1 q2 q3 hσ hsx hsy hsz

/-- the quantitative snap clause, in full, at the code's threshold `1e-5` (any `0 < eps ≤ 1`, the code's is `2⁻⁵²`):
    every rotation `rot(k, θ)`, `0 ≤ θ ≤ π`, with `sin θ < 1e-5` — i.e. within `1e-5` rad of `0` or of `π` — is
    mapped to a vector that maps back to within `2.5e-5` of it, entrywise. -/
theorem snap_bound_holds (eps : ℝ) (heps : 0 < eps) (heps1 : eps ≤ 1) : snap_bound eps (1 / 100000) := by
  intro θ k proj hk h0 hπ hs hproj
  have hs0 : 0 ≤ Real.sin θ := Real.sin_nonneg_of_nonneg_of_le_pi h0 hπ
  by_cases hc : 0 < Real.cos θ
  · have h := (snap_bound_near_zero eps (1 / 100000) θ k proj hk heps hc hs0 hs hproj).2
    refine entriesWithin_mono (entriesWithin_symm h) ?_
    nlinarith
  · have h := snap_bound_near_pi eps (1 / 100000) θ k proj hk heps heps1 (by norm_num) h0 hπ (not_lt.mp hc) hs hproj
    exact entriesWithin_mono h (by linarith)

end inverse

/-! ## 4. shape dispatch of `cv2_rodrigues` (and the shape checks of the two conversions) -/
section dispatch

/-- three elements (any shape: `(3,)`, `3×1`, `1×3`, …) → the forward conversion of the flattened vector -/
theorem dispatch_vector (eps thr : ℝ) (proj : M3 ℝ → M3 ℝ) (a : NdArr ℝ) (h : a.data.length = 3) :
    ∃ x y z, a.data = [x, y, z] ∧
      cv2Rodrigues eps thr proj a = .ok (.mat (rodriguesForward eps ⟨x, y, z⟩)) ∧
      rodFwdArr eps a = .ok (rodriguesForward eps ⟨x, y, z⟩) := by
  match hd : a.data, h with
  | [x, y, z], _ =>
    refine ⟨x, y, z, rfl, ?_, ?_⟩
    · unfold cv2Rodrigues rodFwdArr; simp [hd]; rfl
    · unfold rodFwdArr; simp [hd]

/-- shape `(3,3)` → the inverse conversion -/
theorem dispatch_matrix (eps thr : ℝ) (proj : M3 ℝ → M3 ℝ) (a : NdArr ℝ) (a0 a1 a2 b0 b1 b2 c0 c1 c2 : ℝ)
    (hs : a.shape = [3, 3]) (hd : a.data = [a0, a1, a2, b0, b1, b2, c0, c1, c2]) :
    cv2Rodrigues eps thr proj a = .ok (.vec (rodriguesInverse thr proj ⟨⟨a0, a1, a2⟩, ⟨b0, b1, b2⟩, ⟨c0, c1, c2⟩⟩)) ∧
    rodInvArr thr proj a = .ok (rodriguesInverse thr proj ⟨⟨a0, a1, a2⟩, ⟨b0, b1, b2⟩, ⟨c0, c1, c2⟩⟩) := by
  constructor
  · unfold cv2Rodrigues rodInvArr; simp [hs, hd]; rfl
  · unfold rodInvArr; simp [hs, hd]

/-- every other shape is rejected with ValueError -/
theorem dispatch_reject (eps thr : ℝ) (proj : M3 ℝ → M3 ℝ) (a : NdArr ℝ) (h1 : a.data.length ≠ 3)
    (h2 : a.shape ≠ [3, 3]) : cv2Rodrigues eps thr proj a = .error .ValueError := by
  unfold cv2Rodrigues; simp [h1, h2]

/-- the two conversions reject inputs that are not 3 elements / not 3×3 with ValueError -/
theorem direct_reject (eps thr : ℝ) (proj : M3 ℝ → M3 ℝ) (a : NdArr ℝ) :
    (a.data.length ≠ 3 → rodFwdArr eps a = .error .ValueError) ∧
    (a.shape ≠ [3, 3] → rodInvArr thr proj a = .error .ValueError) := by
  constructor
  · intro h
    unfold rodFwdArr
    split
    · rename_i x y z hd; simp [hd] at h
    · rfl
  · intro h; unfold rodInvArr; simp [h]

end dispatch

/-! ## 5. Jacobians (partial — see `jacobian_is_derivative`) -/
section jacobian

/-- the forward Jacobian in axis–angle terms -/
theorem forward_jac_axis_angle (eps θ : ℝ) (k : V3 ℝ) (hk : k.dot k = 1) (heps : 0 < eps) (h : eps ≤ θ) :
    (rodriguesForward eps (V3.smul θ k)).jac =
      ⟨fwdJacRow (Real.cos θ) (Real.sin θ) (1 / θ) k 0, fwdJacRow (Real.cos θ) (Real.sin θ) (1 / θ) k 1,
       fwdJacRow (Real.cos θ) (Real.sin θ) (1 / θ) k 2⟩ := by
  have hθ : 0 < θ := lt_of_lt_of_le heps h
  have hn : (V3.smul θ k).norm = θ := norm_smul_unit θ k hθ.le hk
  have hne : (θ == 0) = false := by simp [ne_of_gt hθ]
  have hkk : V3.smul (1 / θ) (V3.smul θ k) = k := by
    have h0' : θ ≠ 0 := ne_of_gt hθ
    ext <;> simp only [V3.smul_x, V3.smul_y, V3.smul_z] <;> field_simp
  unfold rodriguesForward
  simp only [hn, if_neg (not_lt.mpr h), hne, cos_eq, sin_eq, Bool.false_eq_true, if_false, hkk]

/-- PARTIAL (see `jac_composition_full`, which is false): `J_fwd · J_inv = I₃`: the forward Jacobian (3×9, at
    `r = θ·k`) times the inverse Jacobian (9×3, at `rot(k, θ)`) is the 3×3 identity, for `eps ≤ θ < π`, `sin θ ≥ thr`,
    i.e. outside the snap branch. Entry `(a, b)` is the Frobenius product of block `a` of the forward with block `b` of
    the inverse Jacobian. -/
theorem jac_composition_partial (eps thr θ : ℝ) (k : V3 ℝ) (proj : M3 ℝ → M3 ℝ) (hk : k.dot k = 1) (heps : 0 < eps)
    (h0 : eps ≤ θ) (hπ : θ < Real.pi) (hthr : thr ≤ Real.sin θ)
    (hproj : proj (rodFormula (Real.cos θ) (Real.sin θ) k) = rodFormula (Real.cos θ) (Real.sin θ) k) :
    ∀ a b : Fin 3,
      frob ((rodriguesForward eps (V3.smul θ k)).jac.get a)
        ((rodriguesInverse thr proj (rodFormula (Real.cos θ) (Real.sin θ) k)).jac.get b) = if a = b then 1 else 0 := by
  have hθ : 0 < θ := lt_of_lt_of_le heps h0
  have hs : 0 < Real.sin θ := Real.sin_pos_of_pos_of_lt_pi hθ hπ
  have hs0 : Real.sin θ ≠ 0 := ne_of_gt hs
  have hθ0 : θ ≠ 0 := ne_of_gt hθ
  obtain ⟨e1, e2, e3, e4⟩ := formula_parts (Real.cos θ) (Real.sin θ) k hk
  have hJ := inv_core_jac_of thr _ (Real.sin θ) (Real.cos θ) θ k e1 e2 e3 e4 hk hs
    (Real.neg_one_le_cos θ) (Real.cos_le_one θ) (Real.arccos_cos hθ.le hπ.le) hthr
  have hF := forward_jac_axis_angle eps θ k hk heps h0
  have core := jac_composition_core (Real.cos θ) (Real.sin θ) θ (1 / θ) (1 / Real.sin θ) (1 / 2) k hk
    (by field_simp) (by field_simp) (by norm_num)
  simp only at core
  have a1 : 1 / Real.sin θ * (1 / 2) = 1 / (2 * Real.sin θ) := by field_simp
  have a2 : 1 / 2 * (-(1 / Real.sin θ * (1 / 2)) * Real.cos θ * (1 / Real.sin θ)) * (-(1 / Real.sin θ)) =
      1 / 2 * (-(1 / (2 * Real.sin θ)) * Real.cos θ / Real.sin θ) * (-1 / Real.sin θ) := by field_simp
  have a3 : 1 / 2 * (-(1 / Real.sin θ)) = 1 / 2 * (-1 / Real.sin θ) := by field_simp
  rw [a2, a3, a1] at core
  obtain ⟨c00, c01, c02, c10, c11, c12, c20, c21, c22⟩ := core
  unfold rodriguesInverse
  rw [hproj, hJ, hF]
  intro a b
  fin_cases a <;> fin_cases b <;> simp [J3.get, V3.get] at * <;> assumption

/-- the clause "its Jacobian composed with the forward Jacobian is the 3×3 identity" as the property states it: for
    every rotation `rot(k, θ)`, `eps ≤ θ ≤ π` — exact half-turns included.  FALSE for the code and the model
    (`jac_composition_full_false`): known finding `jacobian/composition/snap-branch`. -/
def jac_composition_full (eps thr : ℝ) : Prop :=
  ∀ (θ : ℝ) (k : V3 ℝ) (proj : M3 ℝ → M3 ℝ), k.dot k = 1 → eps ≤ θ → θ ≤ Real.pi →
    proj (rodFormula (Real.cos θ) (Real.sin θ) k) = rodFormula (Real.cos θ) (Real.sin θ) k →
    ∀ a b : Fin 3,
      frob ((rodriguesForward eps (V3.smul θ k)).jac.get a)
        ((rodriguesInverse thr proj (rodFormula (Real.cos θ) (Real.sin θ) k)).jac.get b) = if a = b then 1 else 0

/-- in the half-turn snap branch (`cos θ ≤ 0`, `sin θ < thr`, in particular every exact half-turn) the inverse
    conversion returns the all-zero Jacobian -/
theorem inv_jac_snap_half_zero (thr θ : ℝ) (k : V3 ℝ) (proj : M3 ℝ → M3 ℝ) (hk : k.dot k = 1)
    (hs0 : 0 ≤ Real.sin θ) (hc : Real.cos θ ≤ 0) (hs : Real.sin θ < thr)
    (hproj : proj (rodFormula (Real.cos θ) (Real.sin θ) k) = rodFormula (Real.cos θ) (Real.sin θ) k) :
    (rodriguesInverse thr proj (rodFormula (Real.cos θ) (Real.sin θ) k)).jac = zeroJac := by
  obtain ⟨e1, e2, e3, e4⟩ := formula_parts (Real.cos θ) (Real.sin θ) k hk
  unfold rodriguesInverse
  rw [hproj]
  exact inv_core_near_pi_jac thr _ (Real.sin θ) (Real.cos θ) k e1 e2 e3 e4 hk hs0 (Real.neg_one_le_cos θ) hc hs

/-- witness: for the half-turn about the z axis, `r = (0, 0, π)`, the model's inverse Jacobian is the zero array, so
    `J_fwd · J_inv` is the zero matrix and not `I₃` — `jac_composition_full` fails (for any `0 < thr`, `eps ≤ π`) -/
theorem jac_composition_full_false (eps thr : ℝ) (hthr : 0 < thr) (hepi : eps ≤ Real.pi) :
    ¬ jac_composition_full eps thr := by
  intro h
  have hk : (⟨0, 0, 1⟩ : V3 ℝ).dot ⟨0, 0, 1⟩ = 1 := by rw [V3.dot_def]; norm_num
  have h00 := h Real.pi ⟨0, 0, 1⟩ (fun m => m) hk hepi le_rfl rfl 0 0
  rw [inv_jac_snap_half_zero thr Real.pi ⟨0, 0, 1⟩ (fun m => m) hk (by rw [Real.sin_pi])
    (by rw [Real.cos_pi]; norm_num) (by rw [Real.sin_pi]; exact hthr) rfl, frob_zero] at h00
  norm_num at h00

/-- the Jacobian returned with the `theta < eps` shortcut consists of the three generators `[eᵢ]×`
    (the derivative of `r ↦ exp [r]×` at `r = 0`) -/
theorem forward_jac_shortcut (eps : ℝ) (r : V3 ℝ) (h : r.norm < eps) :
    (rodriguesForward eps r).jac = ⟨skew ⟨1, 0, 0⟩, skew ⟨0, 1, 0⟩, skew ⟨0, 0, 1⟩⟩ := by
  unfold rodriguesForward
  simp only [if_pos h, smallJacFwd_form, skew, neg_zero]

/-- FULL statement of "the Jacobian equals the derivative" (proved in PW/Props/C10Deriv.lean,
    `jacobian_is_derivative_holds`, for `0 ≤ eps`): block `i` of the returned Jacobian is the
    partial derivative of the returned matrix with respect to `rᵢ`, entry by entry (outside the shortcut). -/
def jacobian_is_derivative (eps : ℝ) : Prop :=
  ∀ (r : V3 ℝ), eps < r.norm → ∀ (i : Fin 3) (e : M3 ℝ → ℝ),
    e ∈ [fun m => m.r0.x, fun m => m.r0.y, fun m => m.r0.z, fun m => m.r1.x, fun m => m.r1.y, fun m => m.r1.z,
      fun m => m.r2.x, fun m => m.r2.y, fun m => m.r2.z] →
    HasDerivAt (fun t : ℝ => e (rodriguesForward eps
        (r + V3.smul t (⟨if i = 0 then 1 else 0, if i = 1 then 1 else 0, if i = 2 then 1 else 0⟩ : V3 ℝ))).R)
      (e ((rodriguesForward eps r).jac.get i)) 0

/-- PARTIAL (what is proved about the Jacobians): the shortcut Jacobian is the generator triple
    (`forward_jac_shortcut`), and the two analytic Jacobians are mutually inverse on the tangent level
    (`jac_composition_partial`: `J_fwd · J_inv = I₃` outside the snap branch). `jacobian_is_derivative` itself (a
    `HasDerivAt` statement through `sqrt`, `sin`, `cos` in three variables) is proved in PW/Props/C10Deriv.lean; the
    harness still checks it against central differences on the real code. -/
theorem jacobian_partial (eps thr θ : ℝ) (k : V3 ℝ) (proj : M3 ℝ → M3 ℝ) (hk : k.dot k = 1) (heps : 0 < eps)
    (h0 : eps ≤ θ) (hπ : θ < Real.pi) (hthr : thr ≤ Real.sin θ)
    (hproj : proj (rodFormula (Real.cos θ) (Real.sin θ) k) = rodFormula (Real.cos θ) (Real.sin θ) k) :
    (∀ r : V3 ℝ, r.norm < eps →
      (rodriguesForward eps r).jac = ⟨skew ⟨1, 0, 0⟩, skew ⟨0, 1, 0⟩, skew ⟨0, 0, 1⟩⟩) ∧
    (∀ a b : Fin 3,
      frob ((rodriguesForward eps (V3.smul θ k)).jac.get a)
        ((rodriguesInverse thr proj (rodFormula (Real.cos θ) (Real.sin θ) k)).jac.get b) = if a = b then 1 else 0) :=
  ⟨fun r h => forward_jac_shortcut eps r h, jac_composition_partial eps thr θ k proj hk heps h0 hπ hthr hproj⟩

end jacobian

/-! ## 6. the generated fragment (harness/translate/c10.py, from the current source) equals what the model uses -/
section gen

/-- thresholds `eps = 2⁻⁵²`, `1e-5` and the comparison operators of `theta < eps`, `s < 1e-5`, `c > 0` -/
theorem gen_constants :
    PW.Gen.rodEpsND = PW.rodEpsND ∧ PW.Gen.rodSinThreshND = PW.rodSinThreshND ∧
    PW.Gen.rodBranchOps = PW.rodBranchOps := by decide

/-- the three sign tests of the half-turn branch (`r[0,1] + r[1,0] < 0`, `r[0,2] + r[2,0] < 0`, `r[1,2] + r[2,1] > 0`):
    which matrix entries are summed and how the sum is compared with 0 -/
theorem gen_sign_tests : PW.Gen.rodSignTests = PW.rodSignTests := by decide

/-- the model's `halfTurnAxis` evaluates its sign tests through that table (`signTestVal p n` = the sum of the entries
    of test `n`): twice the symmetric part -/
theorem model_uses_sign_tests (p : M3 ℝ) :
    signTestVal p 0 = p.r0.y + p.r1.x ∧ signTestVal p 1 = p.r0.z + p.r2.x ∧ signTestVal p 2 = p.r1.z + p.r2.y :=
  signTestVal_forms p

/-- `_r_x_`, `rrt` and the structure of `r_out = c*I + c1*rrt + s*_r_x_`, `c1 = 1 − c` -/
theorem gen_formula_structure :
    PW.Gen.rodSkewPattern = PW.rodSkewPattern ∧ PW.Gen.rodRrtPattern = PW.rodRrtPattern ∧
    PW.Gen.rodROutTerms = PW.rodROutTerms ∧ PW.Gen.rodC1Def = PW.rodC1Def := by decide

/-- the Jacobian index patterns -/
theorem gen_jacobian_patterns :
    PW.Gen.rodDrxTable = PW.rodDrxTable ∧ PW.Gen.rodDrrtPattern = PW.rodDrrtPattern ∧
    PW.Gen.rodSmallJacFwdTable = PW.rodSmallJacFwdTable ∧ PW.Gen.rodDvardRInt = PW.rodDvardRInt ∧
    PW.Gen.rodDvardRSym = PW.rodDvardRSym ∧ PW.Gen.rodDvar2dvar = PW.rodDvar2dvar ∧
    PW.Gen.rodDomegadvar2 = PW.rodDomegadvar2 ∧ PW.Gen.rodSmallJacInvTable = PW.rodSmallJacInvTable := by decide

/-- the model's `skew`, `outer`, `rodFormula` are exactly the evaluations of those patterns (the Jacobian blocks
    `drx`, `drrt`, `dvardRBlock`, `smallJacFwd`, `smallJacInv` are *defined* through the tables) -/
theorem model_uses_patterns (c s : ℝ) (r : V3 ℝ) :
    skew r = m3OfFlat (fun j => patEntry r (PW.rodSkewPattern.getD j (0, 0))) ∧
    outer r = m3OfFlat (fun j => r.get (PW.rodRrtPattern.getD j (0, 0)).1 * r.get (PW.rodRrtPattern.getD j (0, 0)).2) ∧
    rodFormula c s r = M3.add (M3.add (M3.smul c M3.one) (M3.smul (1 - c) (outer r))) (M3.smul s (skew r)) :=
  ⟨rfl, rfl, rfl⟩

/-- the values the thresholds denote -/
theorem threshold_values :
    ((PW.rodEpsND.1 : ℝ) / PW.rodEpsND.2 = 2⁻¹ ^ 52) ∧ ((PW.rodSinThreshND.1 : ℝ) / PW.rodSinThreshND.2 = 1 / 100000) := by
  constructor <;> norm_num [PW.rodEpsND, PW.rodSinThreshND]

end gen

/-! ## 7. the hypotheses are satisfiable -/

/-- non-vacuity: the code's thresholds satisfy `0 < eps ≤ 1 ≤ π`, `0 < thr`; `k = (0, 3/5, 4/5)` is a unit axis,
    `θ = π/2` lies in the main range (`sin θ = 1 ≥ 1e-5`), and the identity projection satisfies the contract. -/
example : (0 : ℝ) < 2⁻¹ ^ 52 ∧ (2⁻¹ ^ 52 : ℝ) ≤ 1 ∧ (2⁻¹ ^ 52 : ℝ) ≤ Real.pi ∧ (0 : ℝ) < 1 / 100000 ∧
    (⟨0, 3 / 5, 4 / 5⟩ : V3 ℝ).dot ⟨0, 3 / 5, 4 / 5⟩ = 1 ∧
    (0 : ℝ) < Real.pi / 2 ∧ Real.pi / 2 < Real.pi ∧ (1 / 100000 : ℝ) ≤ Real.sin (Real.pi / 2) ∧
    (∀ R : M3 ℝ, (fun m : M3 ℝ => m) R = R) := by
  have hpi := Real.pi_gt_three
  refine ⟨by positivity, ?_, ?_, by norm_num, ?_, by positivity, by linarith, ?_, fun _ => rfl⟩
  · norm_num
  · have : (2⁻¹ ^ 52 : ℝ) ≤ 1 := by norm_num
    linarith
  · rw [V3.dot_def]; norm_num
  · rw [Real.sin_pi_div_two]; norm_num

/-- non-vacuity of the near-π half of the snap bound: `θ = π − 10⁻⁶` is a genuine (not exact) near-half-turn inside the
    snap zone: `0 ≤ θ ≤ π`, `cos θ ≤ 0`, `0 < sin θ < 1e-5` -/
example : (0 : ℝ) ≤ Real.pi - 1 / 1000000 ∧ Real.pi - 1 / 1000000 ≤ Real.pi ∧ Real.cos (Real.pi - 1 / 1000000) ≤ 0 ∧
    0 < Real.sin (Real.pi - 1 / 1000000) ∧ Real.sin (Real.pi - 1 / 1000000) < 1 / 100000 := by
  have hpi := Real.pi_gt_three
  have hx : (0 : ℝ) < 1 / 1000000 := by norm_num
  refine ⟨by linarith, by linarith, ?_, ?_, ?_⟩
  · rw [Real.cos_pi_sub]
    have := Real.cos_nonneg_of_mem_Icc (x := 1 / 1000000) ⟨by linarith, by linarith⟩
    linarith
  · rw [Real.sin_pi_sub]; exact Real.sin_pos_of_pos_of_lt_pi hx (by linarith)
  · rw [Real.sin_pi_sub]; have := Real.sin_lt hx; linarith

/-- non-vacuity of the forward theorems: `r = (0, 0, 2)` has `‖r‖ = 2 ≥ eps`, and `v = (1, 0, 0) ⟂ r` -/
example : (⟨0, 0, 2⟩ : V3 ℝ).norm = 2 ∧ (⟨0, 0, 2⟩ : V3 ℝ).dot ⟨1, 0, 0⟩ = 0 := by
  constructor
  · rw [norm_def, V3.dot_def]
    rw [show (0 : ℝ) * 0 + 0 * 0 + 2 * 2 = 2 * 2 by norm_num]
    exact Real.sqrt_mul_self (by norm_num)
  · rw [V3.dot_def]; norm_num

end PW.C10
