/-
  C04 — CoordinateManager converts points consistently between any two tagged frames.

  Property theorems only (helper lemmas: PW/Lemmas/CoordMgr.lean and the C03 lemma files).
  Over an arbitrary linearly ordered field `K`.

  A script is a list of `Op`s (tag_as, the delegating appenders, attribute assignment / read, do_transform);
  `run empty ops` is the manager after the script together with what every operation showed to the caller.
  `Good m`: every stored pair is an inverse pair of affine matrices — true after every script whose appending
  calls are `WellFormed` and `Affine` (`C04_good_of_history`, from C03's builder theorems).

  KNOWN FINDING (key `path-independent/non-affine-explicit-matrix`).  The delegating `append_transform` accepts
  every 4×4 matrix, also one whose last row is not 0 0 0 1, and points are converted by dropping `w` without
  dividing.  For scripts holding such an accepted, exactly invertible step the clauses "A → C equals A → B → C"
  and "round trips return the original points" are FALSE on the code and on this model (which mirrors it):
    * the full, unrestricted clauses are kept as `def C04_path_independent_full : Prop`, `def C04_round_trip_full : Prop`;
    * `C04_path_independent_defect_witness`, `C04_round_trip_defect_witness` prove their negation on the concrete script
      tag a; append_transform(M, M⁻¹) with M = I except last row (1 0 0 2); tag b; translate([1,0,0]); tag c; p = (1,0,0)
      (a→b→c gives (2,0,0), a→c gives (4,0,0); a→c→a gives (3,0,0) ≠ p);
    * the theorems below with a `Good m` / `cmd.Affine` hypothesis (`C04_do_transform_spec`, `C04_do_transform_documented`,
      `C04_path_independent(_history)`, `C04_round_trip`) are the **partial** versions: they hold whenever every explicit
      matrix has last row 0 0 0 1 (all builders do).  The invariant, `C04_append_stable`, `C04_retag_local`, the attribute
      protocol and the refusals need no such hypothesis.
-/
import PW.Lemmas.CoordMgr
import PW.Props.C03

set_option linter.unusedSectionVars false

namespace PW.C04

open PW.CT PW.CM

variable {K : Type} [Field K] [LinearOrder K] [IsStrictOrderedRing K]

/-! ### invariant: every tag points into the transform list -/

/-- every tag index is at most the number of transforms -/
def TagsInRange (m : State K) : Prop := ∀ n i, lookup m.tags n = some i → i ≤ m.steps.length

theorem tagsInRange_empty : TagsInRange (empty : State K) := by
  intro n i h
  simp [empty, lookup] at h

theorem tagsInRange_stepOp (m : State K) (op : Op K) (h : TagsInRange m) : TagsInRange (stepOp m op).1 := by
  intro n i hn
  rw [stepOp_steps, stepOp_tags] at *
  simp only [List.length_append]
  cases op with
  | tagAs x =>
    simp only [lookup_cons] at hn
    split_ifs at hn with hx
    · injection hn with hn; omega
    · have := h n i hn; omega
  | step cmd => have := h n i hn; omega
  | set x pts => have := h n i hn; omega
  | setBad x => have := h n i hn; omega
  | get x => have := h n i hn; omega
  | doT pts f t => have := h n i hn; omega

/-- **invariant**, by induction over the script: after any history every tag index is `≤ |steps|`. -/
theorem C04_invariant (ops : List (Op K)) (m : State K) (h : TagsInRange m) : TagsInRange (run m ops).1 := by
  induction ops generalizing m with
  | nil => exact h
  | cons op rest ih => exact ih _ (tagsInRange_stepOp m op h)

theorem C04_invariant_from_empty (ops : List (Op K)) : TagsInRange (run (empty : State K) ops).1 :=
  C04_invariant ops _ tagsInRange_empty

/-! ### do_transform -/

/-- every stored pair is an inverse pair of affine matrices -/
def Good (m : State K) : Prop := ∀ s ∈ m.steps, IsInvPair s ∧ IsAffine s.1 ∧ IsAffine s.2

/-- after a script whose appending calls are well formed, every stored pair is good (C03, builders). -/
theorem C04_good_of_history (ops : List (Op K)) (hw : ∀ cmd ∈ cmdsOf ops, cmd.WellFormed)
    (haff : ∀ cmd ∈ cmdsOf ops, cmd.Affine) : Good (run (empty : State K) ops).1 := by
  intro s hs
  rw [run_steps] at hs
  simp only [empty, List.nil_append, List.mem_map] at hs
  obtain ⟨cmd, hc, rfl⟩ := hs
  have := C03.mem_accepted hc
  exact ⟨C03.builder_inverse this.2 (hw cmd this.1), C03.builder_affine this.2 (haff cmd this.1)⟩

/-- `do_transform` written with the conversion matrix of the two tag positions. -/
theorem doTransform_conv (m : State K) (hr : TagsInRange m) (hg : Good m) (pts : Arg (V3 K)) {A B : String}
    {i j : Nat} (hi : lookup m.tags A = some i) (hj : lookup m.tags B = some j) :
    m.doTransform pts A B = .ok (pts.map fun p => applyTransform (convMatrix m.steps i j) p false) := by
  have hinv : ∀ s ∈ m.steps, IsInvPair s := fun s hs => (hg s hs).1
  have hil := hr A i hi
  have hjl := hr B j hj
  unfold State.doTransform
  simp only [hi, hj]
  split_ifs with h1 h2
  · subst h1
    rw [convMatrix_self hinv, arg_map_id (fun p => applyTransform_one p false)]
  · congr 1
    unfold Composite.call Composite.callPoint
    rw [transformMatrixFor_forward]
    unfold Composite.selected
    simp only
    rw [pySlice_nat _ hjl h2.le, fwdProd_extract hinv h2.le]
  · have h3 : j ≤ i := by omega
    congr 1
    unfold Composite.call Composite.callPoint
    rw [transformMatrixFor_reverse]
    unfold Composite.selected
    simp only
    rw [pySlice_nat _ hil h3, invProd_extract hinv h3]

/-- **do_transform spec**: points are pushed through exactly the transforms recorded between the two tags —
    forward, in order, if the target tag was made later; the inverses, last first, if earlier; unchanged if
    both tags mark the same position. -/
theorem C04_do_transform_spec (m : State K) (hr : TagsInRange m) (hg : Good m) (pts : Arg (V3 K)) {A B : String}
    {i j : Nat} (hi : lookup m.tags A = some i) (hj : lookup m.tags B = some j) :
    m.doTransform pts A B = .ok (
      if i = j then pts
      else if i < j then pts.map fun p => (m.steps.extract i j).foldl (fun q s => applyTransform s.1 q false) p
      else pts.map fun p => (m.steps.extract j i).reverse.foldl (fun q s => applyTransform s.2 q false) p) := by
  have hil := hr A i hi
  have hjl := hr B j hj
  unfold State.doTransform
  simp only [hi, hj]
  split_ifs with h1 h2
  · rfl
  · congr 1
    unfold Composite.call
    apply arg_map_congr
    intro p
    unfold Composite.callPoint
    rw [transformMatrixFor_forward]
    unfold Composite.selected
    simp only
    rw [pySlice_nat _ hjl h2.le, apply_fwdProd]
    exact fun s hs => (hg s (C03.mem_extract hs)).2.1
  · have h3 : j ≤ i := by omega
    congr 1
    unfold Composite.call
    apply arg_map_congr
    intro p
    unfold Composite.callPoint
    rw [transformMatrixFor_reverse]
    unfold Composite.selected
    simp only
    rw [pySlice_nat _ hil h3, apply_invProd]
    exact fun s hs => (hg s (C03.mem_extract hs)).2.2

/-- in terms of the *documented* step actions: after a script, the steps between two tag positions are
    the accepted appending calls number `i … j-1`, and converting applies their documented actions. -/
theorem C04_do_transform_documented (ops : List (Op K)) (haff : ∀ cmd ∈ cmdsOf ops, cmd.Affine)
    (pts : Arg (V3 K)) {A B : String} {i j : Nat}
    (hi : lookup (run (empty : State K) ops).1.tags A = some i)
    (hj : lookup (run (empty : State K) ops).1.tags B = some j) :
    (run (empty : State K) ops).1.doTransform pts A B = .ok (
      if i = j then pts
      else if i < j then
        pts.map fun p => ((acceptedCmds (cmdsOf ops)).extract i j).foldl (fun q cmd => cmd.action false q) p
      else
        pts.map fun p => ((acceptedCmds (cmdsOf ops)).extract j i).reverse.foldl (fun q cmd => cmd.invAction false q) p) := by
  have hr := C04_invariant_from_empty ops
  have hil := hr A i hi
  have hjl := hr B j hj
  have hst : (run (empty : State K) ops).1.steps = (Composite.exec [] (cmdsOf ops)).1 := by
    rw [run_steps, C03.C03_state]; simp [empty]
  have hlen : (run (empty : State K) ops).1.steps.length = (acceptedCmds (cmdsOf ops)).length := by
    rw [hst, C03.C03_state_length]
  unfold State.doTransform
  simp only [hi, hj]
  split_ifs with h1 h2
  · rfl
  · congr 1
    unfold Composite.call
    apply arg_map_congr
    intro p
    rw [hst]
    exact C03.C03_call_eq_fold (cmdsOf ops) haff h2.le (by omega) false p
  · have h3 : j ≤ i := by omega
    congr 1
    unfold Composite.call
    apply arg_map_congr
    intro p
    rw [hst]
    exact C03.C03_reverse_eq_fold (cmdsOf ops) haff h3 (by omega) false p

/-! ### path independence, round trip -/

/-- **path independence**: converting A → B and then B → C gives what A → C gives. -/
theorem C04_path_independent (m : State K) (hr : TagsInRange m) (hg : Good m) (pts : Arg (V3 K))
    {A B C : String} {i j k : Nat} (hi : lookup m.tags A = some i) (hj : lookup m.tags B = some j)
    (hk : lookup m.tags C = some k) :
    (m.doTransform pts A B >>= fun q => m.doTransform q B C) = m.doTransform pts A C := by
  rw [doTransform_conv m hr hg pts hi hj, doTransform_conv m hr hg pts hi hk]
  show m.doTransform _ B C = _
  rw [doTransform_conv m hr hg _ hj hk, arg_map_map]
  congr 1
  apply arg_map_congr
  intro p
  simp only [Function.comp]
  rw [← applyTransform_mul (isAffine_convMatrix (fun s hs => (hg s hs).2) i j),
    convMatrix_trans fun s hs => (hg s hs).1]

/-- **round trip**: A → B → A returns the original points. -/
theorem C04_round_trip (m : State K) (hr : TagsInRange m) (hg : Good m) (pts : Arg (V3 K))
    {A B : String} {i j : Nat} (hi : lookup m.tags A = some i) (hj : lookup m.tags B = some j) :
    (m.doTransform pts A B >>= fun q => m.doTransform q B A) = .ok pts := by
  rw [C04_path_independent m hr hg pts hi hj hi]
  unfold State.doTransform
  simp [hi]

/-- both, for the manager after any script whose appending calls are well formed (no further hypothesis:
    the invariant and the goodness of the stored pairs are theorems). -/
theorem C04_path_independent_history (ops : List (Op K)) (hw : ∀ cmd ∈ cmdsOf ops, cmd.WellFormed)
    (haff : ∀ cmd ∈ cmdsOf ops, cmd.Affine) (pts : Arg (V3 K)) {A B C : String} {i j k : Nat}
    (hi : lookup (run (empty : State K) ops).1.tags A = some i)
    (hj : lookup (run (empty : State K) ops).1.tags B = some j)
    (hk : lookup (run (empty : State K) ops).1.tags C = some k) :
    ((run (empty : State K) ops).1.doTransform pts A B >>= fun q => (run (empty : State K) ops).1.doTransform q B C) =
        (run (empty : State K) ops).1.doTransform pts A C ∧
      ((run (empty : State K) ops).1.doTransform pts A B >>= fun q => (run (empty : State K) ops).1.doTransform q B A) =
        .ok pts :=
  ⟨C04_path_independent _ (C04_invariant_from_empty ops) (C04_good_of_history ops hw haff) pts hi hj hk,
   C04_round_trip _ (C04_invariant_from_empty ops) (C04_good_of_history ops hw haff) pts hi hj⟩

/-! ### the unrestricted clauses and their defect witnesses (known finding `path-independent/non-affine-explicit-matrix`) -/

/-- the full clause "A → B → C equals A → C" for the manager after *any* script whose stored inverses are inverses
    (no affinity hypothesis).  False: `C04_path_independent_defect_witness`.  Partial: `C04_path_independent_history`. -/
def C04_path_independent_full : Prop :=
  ∀ (K : Type) [Field K] [LinearOrder K] [IsStrictOrderedRing K] (ops : List (Op K)),
    (∀ cmd ∈ cmdsOf ops, cmd.WellFormed) → ∀ (pts : Arg (V3 K)) (A B C : String) (i j k : Nat),
      lookup (run (empty : State K) ops).1.tags A = some i → lookup (run (empty : State K) ops).1.tags B = some j →
      lookup (run (empty : State K) ops).1.tags C = some k →
      ((run (empty : State K) ops).1.doTransform pts A B >>= fun q => (run (empty : State K) ops).1.doTransform q B C) =
        (run (empty : State K) ops).1.doTransform pts A C

/-- the full clause "A → B → A returns the original points", same quantification.
    False: `C04_round_trip_defect_witness`.  Partial: `C04_path_independent_history` (second part). -/
def C04_round_trip_full : Prop :=
  ∀ (K : Type) [Field K] [LinearOrder K] [IsStrictOrderedRing K] (ops : List (Op K)),
    (∀ cmd ∈ cmdsOf ops, cmd.WellFormed) → ∀ (pts : Arg (V3 K)) (A B : String) (i j : Nat),
      lookup (run (empty : State K) ops).1.tags A = some i → lookup (run (empty : State K) ops).1.tags B = some j →
      ((run (empty : State K) ops).1.doTransform pts A B >>= fun q => (run (empty : State K) ops).1.doTransform q B A) =
        .ok pts

/-- accepted, exactly invertible, non-affine: identity except for the last row `1 0 0 2` -/
def witnessMatrix : M4 ℚ := ⟨⟨1, 0, 0, 0⟩, ⟨0, 1, 0, 0⟩, ⟨0, 0, 1, 0⟩, ⟨1, 0, 0, 2⟩⟩
/-- its inverse -/
def witnessInverse : M4 ℚ := ⟨⟨1, 0, 0, 0⟩, ⟨0, 1, 0, 0⟩, ⟨0, 0, 1, 0⟩, ⟨-1 / 2, 0, 0, 1 / 2⟩⟩
/-- `tag_as a; append_transform(M, M⁻¹); tag_as b; translate([1,0,0]); tag_as c` -/
def witnessScript : List (Op ℚ) :=
  [.tagAs "a", .step (.appendTransform witnessMatrix witnessInverse), .tagAs "b", .step (.translate ⟨1, 0, 0⟩), .tagAs "c"]

theorem witnessScript_wellFormed : ∀ cmd ∈ cmdsOf witnessScript, cmd.WellFormed := by
  intro cmd hc
  simp only [witnessScript, cmdsOf, List.mem_cons, List.not_mem_nil, or_false] at hc
  rcases hc with rfl | rfl
  · constructor <;> simp only [m4_mul_def, m4_one_def] <;> ext <;>
      simp [witnessMatrix, witnessInverse, M4.mul, M4.one, V4.dot, M4.col0, M4.col1, M4.col2, M4.col3] <;> norm_num
  · trivial

/-- the transforms recorded by the witness script -/
def witnessSteps : Composite ℚ := [(witnessMatrix, witnessInverse), translationMatrix ⟨1, 0, 0⟩]

theorem witnessScript_state :
    (run (empty : State ℚ) witnessScript).1 = ⟨witnessSteps, [("c", 2), ("b", 1), ("a", 0)], none⟩ := rfl

theorem witness_slices :
    pySlice witnessSteps ((0 : Nat) : Int) ((1 : Nat) : Int) = [(witnessMatrix, witnessInverse)] ∧
      pySlice witnessSteps ((1 : Nat) : Int) ((2 : Nat) : Int) = [translationMatrix ⟨1, 0, 0⟩] ∧
      pySlice witnessSteps ((0 : Nat) : Int) ((2 : Nat) : Int) = witnessSteps := by
  refine ⟨?_, ?_, ?_⟩ <;> rw [pySlice_nat _ (by simp [witnessSteps]) (by simp)] <;> rfl

/-- concrete conversions of the point (1,0,0) in the witness script -/
theorem witness_values :
    (run (empty : State ℚ) witnessScript).1.doTransform (.one ⟨1, 0, 0⟩) "a" "b" = .ok (.one ⟨1, 0, 0⟩) ∧
      (run (empty : State ℚ) witnessScript).1.doTransform (.one ⟨1, 0, 0⟩) "b" "c" = .ok (.one ⟨2, 0, 0⟩) ∧
      (run (empty : State ℚ) witnessScript).1.doTransform (.one ⟨1, 0, 0⟩) "a" "c" = .ok (.one ⟨4, 0, 0⟩) ∧
      (run (empty : State ℚ) witnessScript).1.doTransform (.one ⟨4, 0, 0⟩) "c" "a" = .ok (.one ⟨3, 0, 0⟩) := by
  rw [witnessScript_state]
  have ha : lookup [("c", 2), ("b", 1), ("a", 0)] "a" = some 0 := rfl
  have hb : lookup [("c", 2), ("b", 1), ("a", 0)] "b" = some 1 := rfl
  have hc : lookup [("c", 2), ("b", 1), ("a", 0)] "c" = some 2 := rfl
  obtain ⟨s01, s12, s02⟩ := witness_slices
  refine ⟨?_, ?_, ?_, ?_⟩
  · simp only [State.doTransform, ha, hb]
    rw [if_neg (by decide), if_pos (by decide)]
    simp only [Composite.call, Arg.map, Composite.callPoint, Composite.transformMatrixFor, Composite.matrices,
      Composite.selected, s01]
    congr 2
    ext <;> simp [composeTransforms, applyTransform, witnessMatrix, M4.mulVec, V4.dot, V4.xyz]
  · simp only [State.doTransform, hb, hc]
    rw [if_neg (by decide), if_pos (by decide)]
    simp only [Composite.call, Arg.map, Composite.callPoint, Composite.transformMatrixFor, Composite.matrices,
      Composite.selected, s12]
    congr 2
    ext <;> simp [composeTransforms, applyTransform, translationMatrix, M4.mulVec, V4.dot, V4.xyz] <;> norm_num
  · simp only [State.doTransform, ha, hc]
    rw [if_neg (by decide), if_pos (by decide)]
    simp only [Composite.call, Arg.map, Composite.callPoint, Composite.transformMatrixFor, Composite.matrices,
      Composite.selected, s02]
    congr 2
    ext <;> simp [witnessSteps, composeTransforms, applyTransform, translationMatrix, witnessMatrix, M4.mul, M4.mulVec,
      V4.dot, V4.xyz, M4.col0, M4.col1, M4.col2, M4.col3] <;> norm_num
  · simp only [State.doTransform, ha, hc]
    rw [if_neg (by decide), if_neg (by decide)]
    simp only [Composite.call, Arg.map, Composite.callPoint, Composite.transformMatrixFor, Composite.matrices,
      Composite.selected, s02]
    congr 2
    ext <;> simp [witnessSteps, composeTransforms, applyTransform, translationMatrix, witnessInverse, M4.mul, M4.mulVec,
      V4.dot, V4.xyz, M4.col0, M4.col1, M4.col2, M4.col3] <;> norm_num

/-- **defect witness**: a → b → c differs from a → c when the step between a and b is an accepted, exactly
    invertible matrix whose last row is not 0 0 0 1. -/
theorem C04_path_independent_defect_witness : ¬ C04_path_independent_full := by
  intro hfull
  have h := hfull ℚ witnessScript witnessScript_wellFormed (.one ⟨1, 0, 0⟩) "a" "b" "c" 0 1 2
    (by rw [witnessScript_state]; rfl) (by rw [witnessScript_state]; rfl) (by rw [witnessScript_state]; rfl)
  rw [witness_values.1, witness_values.2.2.1] at h
  change (run (empty : State ℚ) witnessScript).1.doTransform (.one ⟨1, 0, 0⟩) "b" "c" = _ at h
  rw [witness_values.2.1] at h
  injection h with h
  injection h with h
  have := congrArg V3.x h
  norm_num at this

/-- **defect witness**: the round trip a → c → a does not return the original point. -/
theorem C04_round_trip_defect_witness : ¬ C04_round_trip_full := by
  intro hfull
  have h := hfull ℚ witnessScript witnessScript_wellFormed (.one ⟨1, 0, 0⟩) "a" "c" 0 2
    (by rw [witnessScript_state]; rfl) (by rw [witnessScript_state]; rfl)
  rw [witness_values.2.2.1] at h
  change (run (empty : State ℚ) witnessScript).1.doTransform (.one ⟨4, 0, 0⟩) "c" "a" = _ at h
  rw [witness_values.2.2.2] at h
  injection h with h
  injection h with h
  have := congrArg V3.x h
  norm_num at this

/-! ### stability under further transforms and tags; re-tagging is local -/

/-- the result of `do_transform` depends only on the two tag positions and the steps up to them. -/
theorem doTransform_stable (m m' : State K) (hr : TagsInRange m) (extra : Composite K)
    (hs : m'.steps = m.steps ++ extra) {A B : String} (hA : lookup m'.tags A = lookup m.tags A)
    (hB : lookup m'.tags B = lookup m.tags B) (pts : Arg (V3 K)) :
    m'.doTransform pts A B = m.doTransform pts A B := by
  unfold State.doTransform
  rw [hA, hB]
  cases hi : lookup m.tags A with
  | none => rfl
  | some i =>
    cases hj : lookup m.tags B with
    | none => rfl
    | some j =>
      have hil := hr A i hi
      have hjl := hr B j hj
      simp only
      split_ifs with h1 h2
      · rfl
      · congr 1
        unfold Composite.call Composite.callPoint Composite.transformMatrixFor Composite.matrices Composite.selected
        simp only
        rw [hs, pySlice_nat _ (by simp; omega) h2.le, pySlice_nat _ hjl h2.le, extract_append_of_le _ _ hjl]
      · have h3 : j ≤ i := by omega
        congr 1
        unfold Composite.call Composite.callPoint Composite.transformMatrixFor Composite.matrices Composite.selected
        simp only
        rw [hs, pySlice_nat _ (by simp; omega) h3, pySlice_nat _ hil h3, extract_append_of_le _ _ hil]

theorem lookup_stepOp_of_ne (m : State K) (op : Op K) (A : String) (h : op ≠ .tagAs A) :
    lookup (stepOp m op).1.tags A = lookup m.tags A := by
  rw [stepOp_tags]
  cases op with
  | tagAs x =>
    simp only [lookup_cons]
    have : x ≠ A := fun hx => h (by rw [hx])
    simp [this]
  | _ => rfl

theorem lookup_run_of_ne (m : State K) (ops : List (Op K)) (A : String) (h : ∀ op ∈ ops, op ≠ .tagAs A) :
    lookup (run m ops).1.tags A = lookup m.tags A := by
  induction ops generalizing m with
  | nil => rfl
  | cons op rest ih =>
    simp only [run]
    rw [ih _ fun o ho => h o (by simp [ho]), lookup_stepOp_of_ne m op A (h op (by simp))]

/-- **append-stable**: whatever happens afterwards — more transforms, new tag names, re-tagging of *other* names,
    assignments, reads — the conversion between two existing tags stays what it was. -/
theorem C04_append_stable (m : State K) (hr : TagsInRange m) (ops : List (Op K)) {A B : String}
    (hA : ∀ op ∈ ops, op ≠ .tagAs A) (hB : ∀ op ∈ ops, op ≠ .tagAs B) (pts : Arg (V3 K)) :
    (run m ops).1.doTransform pts A B = m.doTransform pts A B :=
  doTransform_stable m _ hr _ (run_steps m ops) (lookup_run_of_ne m ops A hA) (lookup_run_of_ne m ops B hB) pts

/-- **re-tagging is local**: `tag_as(n)` makes `n` name the current position and changes no other name,
    no transform and not the assigned points. -/
theorem C04_retag_local (m : State K) (n x : String) :
    lookup (m.tagAs n).tags x = (if n = x then some m.steps.length else lookup m.tags x) ∧
      (m.tagAs n).steps = m.steps ∧ (m.tagAs n).points = m.points :=
  ⟨rfl, rfl, rfl⟩

/-- the appenders only append (at most one pair), they never touch tags or points. -/
theorem C04_append_local (m : State K) (cmd : StepCmd K) :
    (stepOp m (.step cmd)).1.steps = m.steps ++ (if cmd.accepted then [cmd.stepOf] else []) ∧
      (stepOp m (.step cmd)).1.tags = m.tags ∧ (stepOp m (.step cmd)).1.points = m.points :=
  append_steps m cmd

/-! ### attribute protocol -/

/-- reading `cm.<name>` converts the assigned points from the tag they were assigned at. -/
theorem C04_getattr_spec (m : State K) {tag : String} {pts : List (V3 K)} (h : m.points = some (tag, pts))
    (name : String) : m.getattr name = m.doTransform (.many pts) tag name := by
  simp [State.getattr, h]

/-- assigning at a known tag stores the points with that tag and changes nothing else. -/
theorem C04_setattr_spec (m : State K) {name : String} {i : Nat} (h : lookup m.tags name = some i)
    (pts : List (V3 K)) :
    m.setattr name pts = .ok { m with points := some (name, pts) } := by
  simp [State.setattr, h]

/-- assign at A, read at B (script form): the read shows the assigned points converted from A to B. -/
theorem C04_assign_then_read (m : State K) {A : String} {i : Nat} (hA : lookup m.tags A = some i)
    (pts : List (V3 K)) (B : String) :
    (run m [.set A pts, .get B]).2 =
      [.none, match m.doTransform (.many pts) A B with | .ok a => .pts a | .error e => .err e] := by
  simp only [run, stepOp, C04_setattr_spec m hA pts, ofRes, ofPts, State.getattr]
  have : State.doTransform { m with points := some (A, pts) } (.many pts) A B = m.doTransform (.many pts) A B := rfl
  rw [this]
  cases m.doTransform (.many pts) A B <;> rfl

/-! ### refusals -/

/-- assigning to an unknown tag raises AttributeError (and only then, for well-shaped points), state unchanged. -/
theorem C04_error_setattr (m : State K) (name : String) (pts : List (V3 K)) :
    (m.setattr name pts = .error .AttributeError ↔ lookup m.tags name = none) ∧
      (lookup m.tags name = none → (stepOp m (.set name pts)) = (m, .err .AttributeError)) := by
  constructor
  · unfold State.setattr
    cases lookup m.tags name <;> simp
  · intro h
    simp [stepOp, State.setattr, h, ofRes]

/-- `do_transform` raises KeyError exactly when one of the two tags is unknown. -/
theorem C04_error_do_transform (m : State K) (pts : Arg (V3 K)) (A B : String) :
    m.doTransform pts A B = .error .KeyError ↔ (lookup m.tags A = none ∨ lookup m.tags B = none) := by
  unfold State.doTransform
  cases lookup m.tags A <;> cases lookup m.tags B <;> simp
  split_ifs <;> simp

/-- reading before any points were assigned raises ValueError, whatever the name. -/
theorem C04_error_read_before_assign (m : State K) (h : m.points = none) (name : String) :
    m.getattr name = .error .ValueError := by
  simp [State.getattr, h]

/-- nothing but an assignment sets the points: after a script without one, every read raises ValueError. -/
theorem C04_points_none (ops : List (Op K)) (m : State K) (h : m.points = none)
    (hno : ∀ op ∈ ops, ∀ n pts, op ≠ .set n pts) : (run m ops).1.points = none := by
  induction ops generalizing m with
  | nil => exact h
  | cons op rest ih =>
    simp only [run]
    have hp : (stepOp m op).1.points = none := by
      cases op with
      | tagAs x => exact h
      | step cmd => rw [(append_steps m cmd).2.2]; exact h
      | set n pts => exact absurd rfl (hno (.set n pts) (by simp) n pts)
      | setBad n =>
        simp only [stepOp, State.setattrBadShape]
        cases lookup m.tags n <;> simp [ofRes, h]
      | get n =>
        simp only [stepOp]
        cases m.getattr n <;> simp [ofPts, h]
      | doT pts f t =>
        simp only [stepOp]
        cases m.doTransform pts f t <;> simp [ofPts, h]
    exact ih _ hp fun o ho => hno o (by simp [ho])

theorem C04_error_read_before_assign_history (ops : List (Op K)) (hno : ∀ op ∈ ops, ∀ n pts, op ≠ .set n pts)
    (name : String) : (run (empty : State K) ops).1.getattr name = .error .ValueError :=
  C04_error_read_before_assign _ (C04_points_none ops _ rfl hno) name

/-! ### the hypotheses are satisfiable -/

example : ∃ ops : List (Op ℚ), (∀ cmd ∈ cmdsOf ops, cmd.WellFormed) ∧ (∀ cmd ∈ cmdsOf ops, cmd.Affine) ∧
    lookup (run (empty : State ℚ) ops).1.tags "a" = some 0 ∧ lookup (run (empty : State ℚ) ops).1.tags "b" = some 1 := by
  refine ⟨[.tagAs "a", .step (.translate ⟨1, 2, 3⟩), .tagAs "b"], ?_, ?_, ?_, ?_⟩
  · intro cmd hc
    simp only [cmdsOf, List.mem_cons, List.not_mem_nil, or_false] at hc
    subst hc; trivial
  · intro cmd hc
    simp only [cmdsOf, List.mem_cons, List.not_mem_nil, or_false] at hc
    subst hc; trivial
  · rfl
  · rfl

end PW.C04
