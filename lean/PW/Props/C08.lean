/-
  C08 — arc-length queries and refinement preserve the polyline's path.

  Property theorems only (helper lemmas live in PW/Lemmas/ArcLength.lean).  Statements that involve Euclidean
  lengths are over ℝ with `Real.sqrt` (`PW.ArcLength.instSqrtReal`); the index bookkeeping of the subdivision
  is proved for every linearly ordered field with a floor (`FloorRing`, `PW.ArcLength.fieldRounding`), lengths
  being whatever `Sqrt K` gives.

  proved in full
    1  lengths_def, segments_def, segments_count, total_def, centroid_def (+ zero total → ZeroDivisionError)
    2  point_along_ok / _out_of_range (stack = map of single, ValueError), point_along_spec (first segment with
       cum_i ≤ fL < cum_{i+1}), point_along_eq_arcPoint (= the declarative walk, all f ∈ [0,1]),
       point_along_zero, point_along_one (last vertex / first vertex again if closed), junction_match,
       point_along_lipschitz (|P(f) − P(g)| ≤ L·|f − g|: continuity on all of [0,1])
    3  subdivide_segment_spec (linspace, endpoint on/off) + TypeError/ValueError, subdivide_segments_spec,
       subdivide_segment_total_length, subdivide_segments_total_length (same straight path, length kept)
    4  subdivided_spec (positions of originals and inserts, closedness), edge_inserts_spec (a + (k/n)(b−a)),
       num_needed_least (n = ⌈len/max⌉ is the least n with len/n ≤ max), subdivide_iff_longer,
       subdivided_total_length
    5  with_segments_bisected: bisected_spec (vertex list = midpoints inserted before the end vertex of
       their segment, closedness, index maps as in with_insertions), bisected_originals, bisected_inserted (the
       reported rows hold the original vertices / the midpoints), bisected_length, bisected_total_length (total
       length unchanged: midpoint split, repeated indices = zero-length segments, rotation invariance of the
       closed length for the midpoint put in front of vertex 0), bisected_spec_full (all of it, ℝ)
-/
import PW.Model.ArcLength
import PW.Gen.ArcLen
import PW.Lemmas.Vec
import PW.Lemmas.ArcLength
import Mathlib.Tactic.Ring
import Mathlib.Tactic.Linarith
import Mathlib.Tactic.FieldSimp
import Mathlib.Tactic.Positivity
import Mathlib.Algebra.Order.Field.Basic
import Mathlib.Algebra.Order.Floor.Ring
import Mathlib.Analysis.Real.Sqrt
import Mathlib.Algebra.Order.Archimedean.Real.Basic

set_option linter.unusedSectionVars false
set_option linter.unusedVariables false

namespace PW.C08

open PW.ArcLength

/-! ## 1. lengths, total, centroid -/

/-- `segment_lengths` are the Euclidean lengths of the segments. -/
theorem lengths_def (p : Polyline ℝ) :
    segmentLengths p = p.segments.map fun s =>
      Real.sqrt ((s.2.x - s.1.x) ^ 2 + (s.2.y - s.1.y) ^ 2 + (s.2.z - s.1.z) ^ 2) := by
  unfold segmentLengths
  apply List.map_congr_left
  intro s _
  rw [dist_def]; congr 1; ring

/-- the segments are the consecutive vertex pairs, plus (last, first) when closed -/
theorem segments_def (p : Polyline ℝ) (i : Nat) (s : V3 ℝ × V3 ℝ) (h : p.segments[i]? = some s) :
    p.v[i]? = some s.1 ∧ p.v[if i + 1 < p.v.length then i + 1 else 0]? = some s.2 ∧
      (i + 1 < p.v.length ∨ p.closed = true) := by
  refine ⟨segments_getElem?_fst h, ?_⟩
  unfold Polyline.segments at h
  cases hv : p.v with
  | nil => rw [hv] at h; simp at h
  | cons a rest =>
    rw [hv] at h
    simp only at h
    have h2 := (List.getElem?_zip_eq_some.mp h).2
    have h1 := (List.getElem?_zip_eq_some.mp h).1
    have hi : i < rest.length + 1 := by
      have := (List.getElem?_eq_some_iff.mp h1).1; simpa using this
    by_cases hlt : i + 1 < (a :: rest).length
    · have hir : i < rest.length := by simpa using hlt
      simp only [hlt, if_true, true_or, and_true]
      cases hc : p.closed
      · rw [hc] at h2; simpa using h2
      · rw [hc] at h2
        simp only [if_true] at h2
        rw [List.getElem?_append_left hir] at h2
        simpa using h2
    · have hi' : i = rest.length := by simp at hlt; omega
      simp only [hlt, if_false, false_or]
      cases hc : p.closed
      · rw [hc] at h2
        simp only [Bool.false_eq_true, if_false] at h2
        rw [hi'] at h2; simp at h2
      · rw [hc] at h2
        simp only [if_true] at h2
        rw [hi', List.getElem?_append_right (le_refl _)] at h2
        simpa using h2

/-- the number of segments: `num_v` when closed, `num_v - 1` when open -/
theorem segments_count (p : Polyline ℝ) :
    p.segments.length = if p.closed then p.v.length else p.v.length - 1 := segments_length p

/-- `total_length` is their sum. -/
theorem total_def (p : Polyline ℝ) : totalLength p = (segmentLengths p).sum := totalLength_eq_sum p

/-- `path_centroid` is the length-weighted mean of the segment midpoints (total length ≠ 0). -/
theorem centroid_def (segs : List (V3 ℝ × V3 ℝ)) (hL : (segLens segs).sum ≠ 0) :
    pathCentroid segs = .ok
      ⟨(segs.map fun (s : V3 ℝ × V3 ℝ) => ArcLength.dist s.1 s.2 * ((s.1.x + s.2.x) / 2)).sum / (segLens segs).sum,
       (segs.map fun (s : V3 ℝ × V3 ℝ) => ArcLength.dist s.1 s.2 * ((s.1.y + s.2.y) / 2)).sum / (segLens segs).sum,
       (segs.map fun (s : V3 ℝ × V3 ℝ) => ArcLength.dist s.1 s.2 * ((s.1.z + s.2.z) / 2)).sum / (segLens segs).sum⟩ := by
  unfold pathCentroid
  simp only [sumK_eq_sum]
  have hL' : ¬ ((List.map (fun s : V3 ℝ × V3 ℝ => ArcLength.dist s.1 s.2) segs).sum == 0) = true := by
    simpa [segLens] using hL
  rw [if_neg hL']
  congr 1
  rw [zipWith_map_same]
  ext
  · simp [vsum_x, two_eq, segLens, Function.comp_def]
  · simp [vsum_y, two_eq, segLens, Function.comp_def]
  · simp [vsum_z, two_eq, segLens, Function.comp_def]

/-- with zero total length (or no segment) `np.average` raises `ZeroDivisionError`. -/
theorem centroid_zero_total (segs : List (V3 ℝ × V3 ℝ)) (hL : (segLens segs).sum = 0) :
    pathCentroid segs = .error .ZeroDivisionError := by
  unfold pathCentroid
  simp only [sumK_eq_sum]
  have hL' : ((List.map (fun s : V3 ℝ × V3 ℝ => ArcLength.dist s.1 s.2) segs).sum == 0) = true := by
    simpa [segLens] using hL
  rw [if_pos hL']

/-- `Polyline.path_centroid` is `path_centroid` of the polyline's segments. -/
theorem polyline_centroid_def (p : Polyline ℝ) : polylineCentroid p = pathCentroid p.segments := rfl


/-! ## 2. point_along_path -/

/-- arc length at vertex `k` (`np.cumsum([0, *lengths])[k]`) -/
noncomputable def cumAt (p : Polyline ℝ) (k : Nat) : ℝ := ((segmentLengths p).take k).sum

/-- valid fractions on a polyline with a segment: the stacked result is the row-by-row single result. -/
theorem point_along_ok (p : Polyline ℝ) (fs : List ℝ) (hne : p.segments ≠ [])
    (h : ∀ f ∈ fs, 0 ≤ f ∧ f ≤ 1) :
    pointAlongPath p fs = .ok (fs.map (pointAlongOne p)) := by
  unfold pointAlongPath
  have h1 : fs.any (fun f => decide (0 > f) || decide (f > 1)) = false := by
    rw [List.any_eq_false]
    intro f hf
    have := h f hf
    simp [not_lt.mpr this.1, not_lt.mpr this.2]
  have hlen : 0 < p.segments.length := List.length_pos_iff.mpr hne
  have h2 : p.v.isEmpty = false := by
    cases hv : p.v with
    | nil => unfold Polyline.segments at hlen; rw [hv] at hlen; simp at hlen
    | cons a r => rfl
  have h3 : (p.numE == 0) = false := by
    rw [← segments_length_eq_numE]; simp; omega
  simp [h1, h2, h3]

/-- a fraction outside [0, 1] is refused with `ValueError`. -/
theorem point_along_out_of_range (p : Polyline ℝ) (fs : List ℝ) (h : ∃ f ∈ fs, f < 0 ∨ 1 < f) :
    pointAlongPath p fs = .error .ValueError := by
  unfold pointAlongPath
  have h1 : fs.any (fun f => decide (0 > f) || decide (f > 1)) = true := by
    rw [List.any_eq_true]
    obtain ⟨f, hf, hor⟩ := h
    exact ⟨f, hf, by rcases hor with h | h <;> simp [h]⟩
  simp [h1]

/-- `point_along_spec`: for positive total length and `f ∈ [0, 1)` the result lies on the first segment `i`
    with `cum_i ≤ f·L < cum_{i+1}` (so zero-length segments are skipped), at arc length `f·L`. -/
theorem point_along_spec (p : Polyline ℝ) (f : ℝ) (hL : 0 < totalLength p) (h0 : 0 ≤ f) (h1 : f < 1) :
    ∃ i, ∃ hi : i < p.segments.length,
      cumAt p i ≤ f * totalLength p ∧ f * totalLength p < cumAt p (i + 1) ∧
      (∀ j, j < i → cumAt p (j + 1) ≤ f * totalLength p) ∧
      0 < ArcLength.dist (p.segments[i]).1 (p.segments[i]).2 ∧
      pointAlongOne p f = (p.segments[i]).1 +
        V3.smul ((f * totalLength p - cumAt p i) / ArcLength.dist (p.segments[i]).1 (p.segments[i]).2)
          ((p.segments[i]).2 - (p.segments[i]).1) := by
  obtain ⟨i, hi, hlo, hhi, hval⟩ := pointAlongOne_inner p f hL h0 h1
  rw [mul_comm] at hlo hhi
  refine ⟨i, hi, hlo, hhi, ?_, ?_, ?_⟩
  · intro j hj
    exact le_trans (take_sum_mono _ (segmentLengths_nonneg p) (by omega)) hlo
  · have hi' : i < (segmentLengths p).length := by rw [segmentLengths_length]; exact hi
    have := take_succ_sum (segmentLengths p) i hi'
    rw [segmentLengths_getElem p i hi] at this
    linarith
  · rw [hval, mul_comm]; rfl

/-- the hypotheses of `point_along_spec` are satisfiable -/
example : ∃ (p : Polyline ℝ) (f : ℝ), 0 < totalLength p ∧ 0 ≤ f ∧ f < 1 :=
  ⟨⟨[⟨0, 0, 0⟩, ⟨1, 0, 0⟩], false⟩, 1 / 2, by
    simp [totalLength, segmentLengths, Polyline.segments, sumK, ArcLength.dist, V3.norm, V3.normSq, V3.dot_def,
      Sqrt.sqrt], by norm_num, by norm_num⟩

/-- the model agrees with the declarative walk along the path for every `f ∈ [0, 1]`:
    `point_along_path(f)` is the point reached after travelling `f × total_length` from the first vertex. -/
theorem point_along_eq_arcPoint (p : Polyline ℝ) (f : ℝ) (e : V3 ℝ) (hne : p.segments ≠ [])
    (h0 : 0 ≤ f) (h1 : f ≤ 1) :
    pointAlongOne p f = arcPoint p.segments e (f * totalLength p) := by
  have hLnn : 0 ≤ totalLength p := by
    rw [totalLength_eq_sum]; exact List.sum_nonneg (segmentLengths_nonneg p)
  by_cases hend : totalLength p ≤ totalLength p * f
  · rw [pointAlongOne_end p f hend, arcPoint_end _ _ _ (by
      rw [← segmentLengths_eq_segLens, ← totalLength_eq_sum, mul_comm]; exact hend)]
    obtain ⟨s, hs⟩ : ∃ s, p.segments.getLast? = some s := by
      cases h : p.segments.getLast? with
      | none => simp at h; exact absurd h hne
      | some s => exact ⟨s, rfl⟩
    have hlast := segments_getLast_snd hs
    unfold endPoint
    rw [hs]
    simp only [Option.map_some, Option.getD_some]
    cases hc : p.closed
    · rw [hc] at hlast
      simp only [Bool.false_eq_true, if_false] at hlast ⊢
      apply pyGet_of_getElem?
      have hvne : p.v ≠ [] := by intro hv; rw [hv] at hlast; simp at hlast
      obtain ⟨n, hn⟩ : ∃ n, p.v.length = n + 1 := ⟨p.v.length - 1, by
        have := List.length_pos_iff.mpr hvne; omega⟩
      rw [hn, pyIdx_neg_one, ← hlast, List.getLast?_eq_getElem?, hn]; rfl
    · rw [hc] at hlast
      simp only [if_true] at hlast ⊢
      apply pyGet_of_getElem?
      rw [pyIdx_zero, ← hlast, List.head?_eq_getElem?]
  · have hL : 0 < totalLength p := by
      rcases hLnn.lt_or_eq with h | h
      · exact h
      · exfalso; apply hend; rw [← h]; simp
    have hf1 : f < 1 := by
      rcases h1.lt_or_eq with h | h
      · exact h
      · exfalso; apply hend; rw [h]; simp
    obtain ⟨i, hi, hlo, hhi, hval⟩ := pointAlongOne_inner p f hL h0 hf1
    rw [hval, mul_comm f]
    exact (arcPoint_index p.segments e _ i hi hlo hhi).symm

/-- `f = 0` gives the first vertex (for every polyline with a segment, in particular for positive length). -/
theorem point_along_zero (p : Polyline ℝ) (hne : p.segments ≠ []) :
    p.v.head? = some (pointAlongOne p 0) := by
  obtain ⟨s, hs⟩ : ∃ s, p.segments.head? = some s := by
    cases h : p.segments.head? with
    | none => simp at h; exact absurd h hne
    | some s => exact ⟨s, rfl⟩
  have hv := segments_head_fst hs
  rw [point_along_eq_arcPoint p 0 s.1 hne (le_refl _) zero_le_one, zero_mul,
    arcPoint_zero p.segments s.1 (segments_connected p) (by
      intro t ht; rw [hs] at ht; cases ht; rfl)]
  exact hv

/-- `f = 1` gives the end of the last segment: the last vertex, or the first vertex again if closed. -/
theorem point_along_one (p : Polyline ℝ) (hne : p.segments ≠ []) :
    (if p.closed then p.v.head? else p.v.getLast?) = some (pointAlongOne p 1) := by
  obtain ⟨s, hs⟩ : ∃ s, p.segments.getLast? = some s := by
    cases h : p.segments.getLast? with
    | none => simp at h; exact absurd h hne
    | some s => exact ⟨s, rfl⟩
  rw [point_along_eq_arcPoint p 1 s.2 hne zero_le_one (le_refl _), one_mul,
    arcPoint_end _ _ _ (by rw [← segmentLengths_eq_segLens, ← totalLength_eq_sum])]
  rw [segments_getLast_snd hs]
  unfold endPoint
  rw [hs]; rfl

/-- `junction_match`: at the arc length of every vertex `k` the path passes through that vertex — the start
    of segment `k`, which for a connected chain is the end of segment `k - 1`, i.e. the left limit of the
    piece before it (`point_along_spec` at `f·L → cum_k`).  Together with `point_along_spec` this makes
    `f ↦ point_along_path(f)` piecewise linear and continuous on `[0, 1]`. -/
theorem junction_match (p : Polyline ℝ) (hL : 0 < totalLength p) (k : Nat) (hk : k ≤ p.segments.length)
    (e : V3 ℝ) (he : p.v.head? = some e) :
    pointAlongOne p (cumAt p k / totalLength p) = vertexAt p.segments e k := by
  have hne : p.segments ≠ [] := by
    intro h; rw [totalLength_eq_sum, segmentLengths_eq_segLens, h] at hL; simp [segLens] at hL
  have hnn := segmentLengths_nonneg p
  have hc0 : 0 ≤ cumAt p k := take_sum_nonneg _ hnn k
  have hc1 : cumAt p k ≤ totalLength p := by
    rw [totalLength_eq_sum]; exact take_sum_le_sum _ hnn k
  have hstart : StartsAt p.segments e := by
    intro s hs
    have := segments_head_fst hs
    rw [he] at this; cases this; rfl
  rw [point_along_eq_arcPoint p _ e hne (div_nonneg hc0 hL.le) ((div_le_one hL).mpr hc1),
    div_mul_cancel₀ _ hL.ne']
  exact arcPoint_vertex p.segments e (segments_connected p) hstart k hk

/-- continuity, in the strong form of a Lipschitz bound: moving the fraction by `g - f` moves the point by at
    most `(g - f) × total_length` (Euclidean distance) — the result varies continuously with `f` on all of
    `[0, 1]`, including across zero-length segments and up to `f = 1`. -/
theorem point_along_lipschitz (p : Polyline ℝ) (hne : p.segments ≠ []) (f g : ℝ)
    (hf0 : 0 ≤ f) (hfg : f ≤ g) (hg1 : g ≤ 1) :
    ArcLength.dist (pointAlongOne p f) (pointAlongOne p g) ≤ totalLength p * (g - f) := by
  obtain ⟨s, hs⟩ : ∃ s, p.segments.head? = some s := by
    cases h : p.segments.head? with
    | none => simp at h; exact absurd h hne
    | some s => exact ⟨s, rfl⟩
  have hLnn : 0 ≤ totalLength p := by
    rw [totalLength_eq_sum]; exact List.sum_nonneg (segmentLengths_nonneg p)
  rw [point_along_eq_arcPoint p f s.1 hne hf0 (le_trans hfg hg1),
    point_along_eq_arcPoint p g s.1 hne (le_trans hf0 hfg) hg1]
  have := arcPoint_lipschitz p.segments s.1 (segments_connected p) (by
      intro t ht; rw [hs] at ht; cases ht; rfl) (f * totalLength p) (g * totalLength p)
      (mul_nonneg hf0 hLnn) (mul_le_mul_of_nonneg_right hfg hLnn)
  linarith

/-- consecutive segments share their vertex, so `vertexAt … (k+1)` is the end of segment `k`
    (the left limit in `junction_match`). -/
theorem vertexAt_succ_eq_segment_end (p : Polyline ℝ) (e : V3 ℝ) (k : Nat) (hk : k < p.segments.length) :
    vertexAt p.segments e (k + 1) = (p.segments[k]).2 := by
  have hc := segments_connected p
  generalize p.segments = segs at hc hk
  induction segs generalizing k e with
  | nil => simp at hk
  | cons s rest ih =>
    cases k with
    | zero =>
      cases rest with
      | nil => simp [vertexAt, endPoint]
      | cons t r => simp [vertexAt]; exact hc.1.symm
    | succ k =>
      have hk' : k < rest.length := by simpa using hk
      have hc' : Connected rest := by
        cases rest with
        | nil => simp at hk'
        | cons t r => exact hc.2
      have := ih s.2 k hc' hk'
      unfold vertexAt at this ⊢
      simp only [List.getElem?_cons_succ, List.getElem_cons_succ]
      rw [endPoint_cons]
      exact this


/-! ## 3. subdivide_segment, subdivide_segments -/

section Field
variable {K : Type} [Field K] [LinearOrder K] [IsStrictOrderedRing K]

/-- the interpolation the subdivision routines use, `(b - a)·t + a`, is `a + t·(b - a)` -/
theorem lerp_def (a b : V3 K) (t : K) : lerp a b t = a + V3.smul t (b - a) := by
  ext <;> simp [lerp_x, lerp_y, lerp_z] <;> ring

/-- a `num_points` which is not an `int` is refused with `TypeError`. -/
theorem subdivide_segment_type_error (num : Int) (endpoint shapesOk : Bool) (p1 p2 : V3 K) :
    subdivideSegment false num endpoint shapesOk p1 p2 = .error .TypeError := by
  simp [subdivideSegment]

/-- fewer than two points is refused with `ValueError`. -/
theorem subdivide_segment_value_error (num : Int) (h : num < 2) (endpoint shapesOk : Bool) (p1 p2 : V3 K) :
    subdivideSegment true num endpoint shapesOk p1 p2 = .error .ValueError := by
  simp [subdivideSegment, h]

/-- `subdivide_segment_spec`: `num` evenly spaced points `p1 + (k/div)(p2 - p1)`, `k = 0..num-1`, with
    `div = num - 1` (endpoint kept) or `num` (endpoint left out): `np.linspace(0, 1, num, endpoint)`. -/
theorem subdivide_segment_spec (num : Int) (hn : 2 ≤ num) (endpoint : Bool) (p1 p2 : V3 K) :
    subdivideSegment true num endpoint true p1 p2 = .ok ((List.range num.toNat).map fun (k : Nat) =>
      lerp p1 p2 ((k : K) / ((if endpoint then num.toNat - 1 else num.toNat : Nat) : K))) := by
  have h2 : ¬ num < 2 := not_lt.mpr hn
  have h3 : 2 ≤ num.toNat := by omega
  unfold subdivideSegment
  simp only [Bool.not_true, Bool.false_eq_true, if_false, h2]
  congr 1
  cases endpoint
  · rw [linspace01_open]; simp [List.map_map, Function.comp_def]
  · rw [linspace01_closed _ h3]; simp [List.map_map, Function.comp_def]

/-- endpoints which are not two 1-d arrays of the same shape are refused with `ValueError`
    (after the `num_points` checks). -/
theorem subdivide_segment_shape_error (num : Int) (hn : 2 ≤ num) (endpoint : Bool) (p1 p2 : V3 K) :
    subdivideSegment true num endpoint false p1 p2 = .error .ValueError := by
  have h2 : ¬ num < 2 := not_lt.mpr hn
  simp [subdivideSegment, h2]

/-- it starts at `p1`, … -/
theorem subdivide_segment_first (num : Int) (hn : 2 ≤ num) (endpoint : Bool) (p1 p2 : V3 K) :
    ∃ l, subdivideSegment true num endpoint true p1 p2 = .ok l ∧ l.length = num.toNat ∧ l[0]? = some p1 := by
  refine ⟨_, subdivide_segment_spec num hn endpoint p1 p2, by simp, ?_⟩
  have h3 : 0 < num.toNat := by omega
  rw [List.getElem?_map, List.getElem?_range h3]
  simp [lerp_zero]

/-- … and with `endpoint=True` ends at `p2`. -/
theorem subdivide_segment_last (num : Int) (hn : 2 ≤ num) (p1 p2 : V3 K) :
    ∃ l, subdivideSegment true num true true p1 p2 = .ok l ∧ l[num.toNat - 1]? = some p2 := by
  refine ⟨_, subdivide_segment_spec num hn true p1 p2, ?_⟩
  have h3 : num.toNat - 1 < num.toNat := by omega
  have h4 : ((num.toNat - 1 : Nat) : K) ≠ 0 := by
    have : 0 < num.toNat - 1 := by omega
    exact_mod_cast this.ne'
  rw [List.getElem?_map, List.getElem?_range h3]
  simp only [if_true, Option.map_some, div_self h4, lerp_one]

end Field

/-- `subdivide_segments_spec`: every segment `(v[i], v[i+1])` is replaced by the `num` evenly spaced points
    `v[i] + (k/num)(v[i+1] - v[i])`, `k = 0..num-1` (all equal to `v[i]` for a zero-length segment — no
    NaN), and the last vertex is kept at the end. -/
theorem subdivide_segments_spec (v : List (V3 ℝ)) (num : Nat) (last : V3 ℝ) (hl : v.getLast? = some last) :
    subdivideSegments true v num = .ok
      ((List.zip v v.tail).flatMap (fun s => (List.range num).map fun (k : Nat) =>
        lerp s.1 s.2 ((k : ℝ) / (num : ℝ))) ++ [last]) := by
  unfold subdivideSegments
  rw [hl]
  simp only [Bool.not_true, Bool.false_eq_true, if_false]
  congr 2
  apply List.flatMap_congr
  intro s _
  unfold subdivideOne
  simp only
  apply List.map_congr_left
  intro k hk
  have hnum : (num : ℝ) ≠ 0 := by
    have : 0 < num := by
      have := List.mem_range.mp hk; omega
    exact_mod_cast this.ne'
  by_cases h0 : V3.norm (s.2 - s.1) = 0
  · have hab : s.1 = s.2 := dist_eq_zero (a := s.1) (b := s.2) h0
    have hb : (V3.norm (s.2 - s.1) == 0) = true := by simp [h0]
    rw [if_pos hb]
    ext <;> simp [lerp_x, lerp_y, lerp_z, ← hab]
  · have hb : ¬ (V3.norm (s.2 - s.1) == 0) = true := by simpa using h0
    rw [if_neg hb]
    ext <;> simp [lerp_x, lerp_y, lerp_z, natK_eq_cast] <;> field_simp <;> ring

/-- no points: `v[-1]` raises `IndexError`. -/
theorem subdivide_segments_empty (num : Nat) :
    subdivideSegments true ([] : List (V3 ℝ)) num = .error .IndexError := rfl

/-- `v` which is not a 2-d array is refused with `ValueError`. -/
theorem subdivide_segments_shape_error (v : List (V3 ℝ)) (num : Nat) :
    subdivideSegments false v num = .error .ValueError := rfl


/-- `subdivide_segment` returns points of the same straight path: with `endpoint=True` the chain runs from `p1` to `p2`
    and has the segment's length; with `endpoint=False` it stops one step (`1/num` of the length) short of `p2`. -/
theorem subdivide_segment_total_length (num : Int) (hn : 2 ≤ num) (endpoint : Bool) (p1 p2 : V3 ℝ) :
    ∃ l, subdivideSegment true num endpoint true p1 p2 = .ok l ∧
      pathLen l = if endpoint then ArcLength.dist p1 p2
        else ArcLength.dist p1 p2 * ((num.toNat - 1 : Nat) : ℝ) / (num.toNat : ℝ) := by
  refine ⟨_, subdivide_segment_spec num hn endpoint p1 p2, ?_⟩
  obtain ⟨n, hn'⟩ : ∃ n, num.toNat = n + 2 := ⟨num.toNat - 2, by omega⟩
  rw [hn']
  cases endpoint
  · simp only [Bool.false_eq_true, if_false]
    rw [show n + 2 = (n + 1) + 1 from rfl, pathLen_even_params p1 p2 (n + 1) (n + 1 + 1) (by omega)]
    simp
  · simp only [if_true]
    rw [show n + 2 = (n + 1) + 1 from rfl, Nat.add_sub_cancel, pathLen_even_params p1 p2 (n + 1) (n + 1) (by omega)]
    have : ((n + 1 : Nat) : ℝ) ≠ 0 := by positivity
    field_simp

/-- `subdivide_segments` keeps the total length (and the first and last vertex): every segment is replaced by `num ≥ 1`
    evenly spaced points lying on it. -/
theorem subdivide_segments_total_length (v : List (V3 ℝ)) (num : Nat) (hnum : 0 < num) (r : List (V3 ℝ))
    (h : subdivideSegments true v num = .ok r) :
    pathLen r = pathLen v ∧ r.head? = v.head? ∧ r.getLast? = v.getLast? := by
  cases v with
  | nil => simp [subdivideSegments] at h
  | cons a rest =>
    have hl := getLast?_eq_lastOf a rest
    rw [subdivide_segments_spec (a :: rest) num _ hl] at h
    simp only [Except.ok.injEq, List.tail_cons] at h
    obtain ⟨T, hT, hlen⟩ := pathLen_subdivided_chain num hnum a rest
    rw [← h, hT]
    refine ⟨hlen, rfl, ?_⟩
    rw [← hT, hl]
    simp

/-! ## 4. subdivided_by_length -/

section Floor
variable {K : Type} [Field K] [LinearOrder K] [IsStrictOrderedRing K] [FloorRing K] [Sqrt K]
attribute [local instance] fieldRounding

/-- the number of parts of an edge is `⌈length / max_length⌉` … -/
theorem num_needed_def (len maxLen : K) : numNeeded len maxLen = ⌈len / maxLen⌉ := rfl

/-- … which is the least `m` with `length / m ≤ max_length`: `m` parts suffice iff `m ≥ ⌈length/max⌉`. -/
theorem num_needed_least (len maxLen : K) (hmax : 0 < maxLen) (m : Nat) (hm : 0 < m) :
    len / (m : K) ≤ maxLen ↔ numNeeded len maxLen ≤ (m : Int) := by
  have hm' : (0 : K) < (m : K) := by exact_mod_cast hm
  rw [num_needed_def, Int.ceil_le, div_le_iff₀ hm', div_le_iff₀ hmax]
  push_cast
  rw [mul_comm]

/-- an edge is cut iff it is longer than `max_length`. -/
theorem subdivide_iff_longer (len maxLen : K) (hmax : 0 < maxLen) :
    1 < numNeeded len maxLen ↔ maxLen < len := by
  rw [num_needed_def, Int.lt_ceil, lt_div_iff₀ hmax]
  simp

/-- the points inserted on one edge: a selected edge longer than `max_length` receives exactly
    `a + (k/n)(b - a)`, `k = 1..n-1`, `n = ⌈len/max⌉`; an unselected or short edge receives nothing. -/
theorem edge_inserts_spec (maxLen : K) (hmax : 0 < maxLen) (sel : Bool) (a b : V3 K) :
    edgeInserts maxLen sel a b =
      if sel = true ∧ maxLen < ArcLength.dist a b then
        (List.range ((numNeeded (ArcLength.dist a b) maxLen).toNat - 1)).map fun (k : Nat) =>
          lerp a b (((k + 1 : Nat) : K) / ((numNeeded (ArcLength.dist a b) maxLen).toNat : K))
      else [] := by
  unfold edgeInserts
  simp only [Bool.and_eq_true, decide_eq_true_eq, gt_iff_lt, subdivide_iff_longer _ _ hmax]
  split_ifs with h
  · exact open_points_drop_one a b _
  · rfl

/-- a mask of the wrong length is refused with `ValueError`. -/
theorem subdivided_wrong_mask (p : Polyline K) (maxLen : K) (m : List Bool) (h : m.length ≠ p.numE) :
    subdividedByLength p maxLen (some m) = .error .ValueError := by
  unfold subdividedByLength
  simp [h]

/-- the insert list of edge `i` is that of its own segment and mask entry. -/
theorem all_inserts_getElem (p : Polyline K) (maxLen : K) (m : List Bool) (i : Nat)
    (s : V3 K × V3 K) (sel : Bool) (hs : p.segments[i]? = some s) (hm : m[i]? = some sel) :
    (allInserts p maxLen m)[i]? = some (edgeInserts maxLen sel s.1 s.2) := by
  unfold allInserts
  rw [List.getElem?_zipWith, hs, hm]

/-- `subdivided_spec` (index bookkeeping, any ordered field with a floor).  With `ins_i` the insert list of the
    edge starting at vertex `i` (none for the last vertex of an open polyline):
    * the call succeeds, closedness is kept;
    * one index per original vertex; vertex `i` sits at `idx_i = i + Σ_{j<i} |ins_j|` of the result, so the
      original vertices stay in order (`idx_{i+1} = idx_i + 1 + |ins_i|`, the closing edge's points come last and
      move nothing);
    * the rows `idx_i + 1 … idx_i + |ins_i|` are exactly `ins_i`, in order; there are no other rows. -/
theorem subdivided_spec (p : Polyline K) (maxLen : K) (mask : Option (List Bool)) (m : List Bool)
    (hm : m = mask.getD (List.replicate p.numE true)) (hlen : m.length = p.numE) :
    ∃ q idx, subdividedByLength p maxLen mask = .ok (q, idx) ∧
      q.closed = p.closed ∧ idx.length = p.v.length ∧
      q.v.length = p.v.length + ((allInserts p maxLen m).map List.length).sum ∧
      ∀ i a, p.v[i]? = some a →
        idx[i]? = some (i + (((allInserts p maxLen m).map List.length).take i).sum) ∧
        q.v[i + (((allInserts p maxLen m).map List.length).take i).sum]? = some a ∧
        ∀ k, k < (((allInserts p maxLen m) ++ [[]]).getD i []).length →
          q.v[i + (((allInserts p maxLen m).map List.length).take i).sum + 1 + k]? =
            (((allInserts p maxLen m) ++ [[]]).getD i [])[k]? := by
  have hins : (allInserts p maxLen m).length = if p.closed then p.v.length else p.v.length - 1 := by
    unfold allInserts
    rw [List.length_zipWith, hlen, segments_length_eq_numE, numE_eq]; simp
  refine ⟨⟨interleave p.v (allInserts p maxLen m), p.closed⟩,
    subdividedIndices p.closed p.numV (allInserts p maxLen m), ?_, rfl, ?_, ?_, ?_⟩
  · unfold subdividedByLength
    simp only [← hm]
    have : ¬ (m.length != p.numE) = true := by simp [hlen]
    rw [if_neg this]
  · unfold subdividedIndices Polyline.numV
    simp only [List.length_zipWith, List.length_range, cumsumNat_length, List.length_cons]
    cases hc : p.closed <;> simp [hc] at hins ⊢ <;> omega
  · have hl : p.v.length = (allInserts p maxLen m).length + 1 ∨ p.v.length = (allInserts p maxLen m).length := by
      cases hc : p.closed <;> simp [hc] at hins
      · by_cases hv : p.v.length = 0
        · right; omega
        · left; omega
      · right; omega
    by_cases hv0 : p.v = []
    · have : allInserts p maxLen m = [] := by
        apply List.eq_nil_of_length_eq_zero; rw [hins, hv0]; simp
      simp [hv0, this, interleave]
    · rw [interleave_length p.v _ hl]
      congr 2
      apply List.take_of_length_le
      simp only [List.length_map]
      rcases hl with h | h <;> omega
  · intro i a ha
    have hi : i < p.v.length := (List.getElem?_eq_some_iff.mp ha).1
    have hle : p.v.length ≤ (allInserts p maxLen m).length + 1 := by
      cases hc : p.closed <;> simp [hc] at hins <;> omega
    refine ⟨subdividedIndices_getElem? p.closed p.numV _ i hi hins, ?_, ?_⟩
    · have := interleave_getElem? p.v (allInserts p maxLen m) i a ha hle 0 (by omega)
      simpa using this
    · intro k hk
      have := interleave_getElem? p.v (allInserts p maxLen m) i a ha hle (k + 1) (by omega)
      simp only [List.getElem?_cons_succ] at this
      rw [add_assoc _ 1 k, add_comm 1 k]
      exact this

end Floor

/-- the hypotheses of `subdivided_spec` are satisfiable (default mask on a closed triangle) -/
example : ∃ (p : Polyline ℝ) (m : List Bool),
    m = (none : Option (List Bool)).getD (List.replicate p.numE true) ∧ m.length = p.numE :=
  ⟨⟨[⟨0, 0, 0⟩, ⟨3, 0, 0⟩, ⟨3, 4, 0⟩], true⟩, [true, true, true], by simp [Polyline.numE, Polyline.edges, edgesFor, Polyline.numV], by
    simp [Polyline.numE, Polyline.edges, edgesFor, Polyline.numV]⟩

section RealFloor
attribute [local instance] fieldRounding

/-- `subdivided_by_length` keeps the total length (ℝ): every insert list lies straight and evenly spaced on its
    own edge, so the refined path is the same path. -/
theorem subdivided_total_length (p : Polyline ℝ) (maxLen : ℝ) (mask : Option (List Bool))
    (q : Polyline ℝ) (idx : List Nat) (h : subdividedByLength p maxLen mask = .ok (q, idx)) :
    totalLength q = totalLength p := by
  unfold subdividedByLength at h
  simp only at h
  split_ifs at h with hm
  have hm' : (mask.getD (List.replicate p.numE true)).length = p.numE := by simpa using hm
  simp only [Except.ok.injEq, Prod.mk.injEq] at h
  obtain ⟨hq, _⟩ := h
  rw [← hq, totalLength_eq_pathLen, totalLength_eq_pathLen]
  have hlen := allInserts_length p maxLen _ hm'
  rw [closeUp_interleave p.v p.closed _ hlen]
  by_cases hv0 : p.v = []
  · have : allInserts p maxLen (mask.getD (List.replicate p.numE true)) = [] := by
      apply List.eq_nil_of_length_eq_zero; rw [hlen, hv0]; simp
    simp [closeUp, hv0, this]
  · have hpos : 0 < p.v.length := List.length_pos_iff.mpr hv0
    apply pathLen_interleave
    · unfold closeUp
      simp only [List.length_append, hlen]
      cases hc : p.closed
      · simp; omega
      · simp; omega
    · exact straight_allInserts p maxLen _

end RealFloor


/-! ## 5. with_segments_bisected -/

section Bisect
variable {K : Type} [Field K] [LinearOrder K] [IsStrictOrderedRing K]

/-- what `with_segments_bisected` inserts: for every chosen segment `e` (a Python index, negative counts from
    the end) the midpoint of the segment, to go right before the segment's end vertex (`e + 1`, or vertex 0 for
    the closing segment of a closed polyline) -/
def bisectPairs (p : Polyline K) (segIdx : List Int) : List (Nat × V3 K) :=
  segIdx.map fun i =>
    let e := pyIdx p.numE i
    let s := p.segments.getD e (V3.zero, V3.zero)
    (if e + 1 < p.numV then e + 1 else 0,
      (⟨(s.1.x + s.2.x) / 2, (s.1.y + s.2.y) / 2, (s.1.z + s.2.z) / 2⟩ : V3 K))

/-- segment indices which are not one-dimensional (a single number, a 2-d array) are refused with
    `ValueError`. -/
theorem bisected_not_one_dim (p : Polyline K) (segIdx : List Int) :
    withSegmentsBisected false p segIdx = .error .ValueError := by
  simp [withSegmentsBisected]

/-- an index outside `[-num_e, num_e)` is refused with `IndexError`. -/
theorem bisected_bad_index (p : Polyline K) (segIdx : List Int)
    (h : ∃ i ∈ segIdx, i < -(p.numE : Int) ∨ (p.numE : Int) ≤ i) :
    withSegmentsBisected true p segIdx = .error .IndexError := by
  unfold withSegmentsBisected
  have : segIdx.all (pyIdxOk p.numE) = false := by
    rw [List.all_eq_false]
    obtain ⟨i, hi, hor⟩ := h
    refine ⟨i, hi, ?_⟩
    unfold pyIdxOk
    rcases hor with h | h
    · have : ¬ (-(p.numE : Int) ≤ i) := by omega
      simp [this]
    · have : ¬ (i < (p.numE : Int)) := by omega
      simp [this]
  simp [this]

/-- `bisected_spec` (result of the call; the total length is `bisected_total_length`, both together
    `bisected_spec_full`): for valid segment indices (any multiset, any order, also none) the result is the polyline
    with the same closedness whose vertex list has the midpoint of every chosen segment inserted right before
    that segment's end vertex (`insertBefore`: points carrying the same index keep the order given), returned
    with the index maps of `with_insertions`. -/
theorem bisected_spec (p : Polyline K) (segIdx : List Int)
    (h : ∀ i ∈ segIdx, -(p.numE : Int) ≤ i ∧ i < p.numE) :
    withSegmentsBisected true p segIdx = .ok
      (⟨insertBefore p.v (bisectPairs p segIdx), p.closed⟩,
       indicesOfOriginal p.numV ((bisectPairs p segIdx).map (·.1)),
       indicesOfInserted ((bisectPairs p segIdx).map (·.1))) := by
  unfold withSegmentsBisected
  have hall : segIdx.all (pyIdxOk p.numE) = true := by
    rw [List.all_eq_true]
    intro i hi
    have := h i hi
    simp [pyIdxOk, this.1, this.2]
  simp only [hall, Bool.not_true, Bool.false_eq_true, if_false]
  have hat : (segIdx.map (pyIdx p.numE)).map (fun e => (p.edges.getD e (0, 0)).2) =
      (bisectPairs p segIdx).map (·.1) := by
    unfold bisectPairs
    rw [List.map_map, List.map_map]
    apply List.map_congr_left
    intro i hi
    simp only [Function.comp_def]
    exact edges_getD_snd p _ (pyIdx_lt _ _ (h i hi))
  have hzip : List.zip ((segIdx.map (pyIdx p.numE)).map (fun e => (p.edges.getD e (0, 0)).2))
      ((segIdx.map (pyIdx p.numE)).map fun e =>
        let s := p.segments.getD e (V3.zero, V3.zero); V3.sdiv (s.1 + s.2) two) = bisectPairs p segIdx := by
    unfold bisectPairs
    rw [List.zip_map', List.map_map]
    apply List.map_congr_left
    intro i hi
    simp only [Function.comp_def]
    rw [edges_getD_snd p _ (pyIdx_lt _ _ (h i hi))]
    congr 1
    ext <;> simp [two_eq]
  rw [hzip, hat]

/-- the original vertices stay in order at the reported indices:
    vertex `i` is row `orig_i = i + #{inserted points with index ≤ i}` of the result. -/
theorem bisected_originals (p : Polyline K) (segIdx : List Int) (i : Nat) (hi : i < p.v.length) :
    (indicesOfOriginal p.numV ((bisectPairs p segIdx).map (·.1)))[i]? =
        some (i + (((bisectPairs p segIdx).map (·.1)).filter (· ≤ i)).length) ∧
      (insertBefore p.v (bisectPairs p segIdx))[i + (((bisectPairs p segIdx).map (·.1)).filter (· ≤ i)).length]? =
        p.v[i]? := by
  constructor
  · unfold indicesOfOriginal Polyline.numV
    rw [List.getElem?_map, List.getElem?_range hi]; rfl
  · have := insertBeforeFrom_original (bisectPairs p segIdx) p.v 0 i hi
    rw [cntRange_eq_filter_le, Nat.add_comm] at this
    exact this

/-- one row is added per chosen segment. -/
theorem bisected_length (p : Polyline K) (segIdx : List Int)
    (h : ∀ i ∈ segIdx, -(p.numE : Int) ≤ i ∧ i < p.numE) :
    (insertBefore p.v (bisectPairs p segIdx)).length = p.v.length + segIdx.length := by
  unfold insertBefore
  rw [insertBeforeFrom_length, cntRange_eq_filter_le]
  congr 1
  have : ((bisectPairs p segIdx).map (·.1)).filter (· ≤ p.v.length) = (bisectPairs p segIdx).map (·.1) := by
    rw [List.filter_eq_self]
    intro t ht
    unfold bisectPairs at ht
    simp only [List.map_map, List.mem_map, Function.comp_def] at ht
    obtain ⟨i, _, rfl⟩ := ht
    simp only [decide_eq_true_eq]
    unfold Polyline.numV
    split_ifs <;> omega
  rw [this]
  simp [bisectPairs]

/-- the rows reported for the inserted points hold the midpoints: row `ins_j` of the result is the midpoint of
    the `j`-th chosen segment. -/
theorem bisected_inserted (p : Polyline K) (segIdx : List Int) (j : Nat) (x : Nat × V3 K)
    (hj : (bisectPairs p segIdx)[j]? = some x) :
    (insertBefore p.v (bisectPairs p segIdx))[(indicesOfInserted ((bisectPairs p segIdx).map (·.1))).getD j 0]? =
      some x.2 := by
  apply insertBefore_inserted p.v (bisectPairs p segIdx) j x hj
  have hm : x ∈ bisectPairs p segIdx := List.mem_of_getElem? hj
  unfold bisectPairs at hm
  simp only [List.mem_map] at hm
  obtain ⟨i, _, rfl⟩ := hm
  simp only
  unfold Polyline.numV
  split_ifs <;> omega

end Bisect

/-! ### total length under with_segments_bisected (ℝ) -/

/-- every inserted pair is (index of the end vertex, midpoint) of an existing segment -/
theorem mem_bisectPairs (p : Polyline ℝ) (segIdx : List Int)
    (h : ∀ i ∈ segIdx, -(p.numE : Int) ≤ i ∧ i < p.numE) (t : Nat) (m : V3 ℝ)
    (hm : (t, m) ∈ bisectPairs p segIdx) :
    ∃ e s, p.segments[e]? = some s ∧ t = (if e + 1 < p.v.length then e + 1 else 0) ∧ m = midpoint s.1 s.2 := by
  unfold bisectPairs at hm
  obtain ⟨i, hi, heq⟩ := List.mem_map.mp hm
  simp only [Prod.mk.injEq] at heq
  have he : pyIdx p.numE i < p.segments.length := by
    rw [segments_length_eq_numE]; exact pyIdx_lt _ _ (h i hi)
  refine ⟨pyIdx p.numE i, p.segments[pyIdx p.numE i], List.getElem?_eq_getElem he, heq.1.symm, ?_⟩
  rw [← heq.2, List.getD_eq_getElem?_getD, List.getElem?_eq_getElem he]
  rfl

/-- `with_segments_bisected` leaves the total length unchanged: every midpoint lies on its own segment and
    splits it into two halves (`dist_split_midpoint`); a segment index given `k` times puts the same midpoint
    in `k` times, the `k - 1` extra segments have length zero (`pathLen_mid_block`); for a closed polyline the
    midpoint of the closing segment goes in front of vertex 0, which rotates the cyclic vertex list
    (`pathLen_rotate`). -/
theorem bisected_total_length (p : Polyline ℝ) (segIdx : List Int)
    (h : ∀ i ∈ segIdx, -(p.numE : Int) ≤ i ∧ i < p.numE) :
    totalLength ⟨insertBefore p.v (bisectPairs p segIdx), p.closed⟩ = totalLength p := by
  rw [totalLength_eq_pathLen, totalLength_eq_pathLen]
  unfold closeUp insertBefore
  simp only
  rw [insertBeforeFrom_eq_weave]
  have hF := mem_bisectPairs p segIdx h
  have hnE := numE_eq p
  cases hv : p.v with
  | nil =>
    have hempty : bisectPairs p segIdx = [] := by
      cases hb : bisectPairs p segIdx with
      | nil => rfl
      | cons x r =>
        exfalso
        obtain ⟨e, s, hs, _, _⟩ := hF x.1 x.2 (by rw [hb]; simp)
        have := (List.getElem?_eq_some_iff.mp hs).1
        rw [segments_length, hv] at this
        cases p.closed <;> simp at this
    rw [hempty]
    simp [weave, ptsAt]
  | cons x xs =>
    rw [hv] at hF
    -- nothing carries the index `num_v`
    have hn : ptsAt (bisectPairs p segIdx) (xs.length + 1) = [] := by
      apply ptsAt_eq_nil
      intro y hy
      obtain ⟨e, s, hs, ht, _⟩ := hF y.1 y.2 hy
      rw [ht]
      simp only [List.length_cons]
      split_ifs <;> omega
    -- the blocks 1 … num_v - 1 hold midpoints of their own segment
    have hs : StraightFrom (ptsAt (bisectPairs p segIdx)) 1 x xs := by
      apply straightFrom_of_mid
      intro k a b ha hb m hm
      obtain ⟨e, s, hs, ht, hmid⟩ := hF _ _ (mem_ptsAt hm)
      have hek : e = k := by
        simp only [List.length_cons] at ht
        split_ifs at ht <;> omega
      subst hek
      obtain ⟨h1, h2, _⟩ := segments_def p e s hs
      rw [hv] at h1 h2
      have hlt : e + 1 < (x :: xs).length := (List.getElem?_eq_some_iff.mp hb).1
      rw [if_pos hlt] at h2
      rw [ha] at h1; rw [hb] at h2
      cases h1; cases h2
      exact hmid
    cases hc : p.closed
    · -- open: nothing goes before vertex 0
      have h0 : ptsAt (bisectPairs p segIdx) 0 = [] := by
        apply ptsAt_eq_nil
        intro y hy
        obtain ⟨e, s, hs, ht, _⟩ := hF y.1 y.2 hy
        have he := (List.getElem?_eq_some_iff.mp hs).1
        rw [segments_length, hc, hv] at he
        simp only [Bool.false_eq_true, if_false, List.length_cons, Nat.add_sub_cancel] at he
        rw [ht]
        simp only [List.length_cons]
        split_ifs <;> omega
      simp only [Bool.false_eq_true, if_false, List.append_nil]
      exact pathLen_weave_open _ x xs h0 hn hs
    · -- closed: block 0 holds midpoints of the closing segment
      simp only [if_true]
      have h0 : pathLen (lastOf x xs :: ptsAt (bisectPairs p segIdx) 0 ++ [x]) = ArcLength.dist (lastOf x xs) x := by
        apply pathLen_mid_block
        intro m hm
        obtain ⟨e, s, hs, ht, hmid⟩ := hF _ _ (mem_ptsAt hm)
        have he := (List.getElem?_eq_some_iff.mp hs).1
        rw [segments_length, hc, hv] at he
        simp only [if_true, List.length_cons] at he
        have hek : e = xs.length := by
          simp only [List.length_cons] at ht
          split_ifs at ht <;> omega
        subst hek
        obtain ⟨h1, h2, _⟩ := segments_def p _ s hs
        rw [hv] at h1 h2
        have hnlt : ¬ (xs.length + 1 < (x :: xs).length) := by simp
        rw [if_neg hnlt] at h2
        rw [lastOf_getElem?] at h1
        simp only [List.getElem?_cons_zero] at h2
        rw [Option.some.inj h1, Option.some.inj h2]
        exact hmid
      have := pathLen_weave_closed _ x xs h0 hn hs
      simpa using this

/-- `bisected_spec`, full strength over ℝ: for valid segment indices (any multiset, any order, also none) the call
    succeeds; the result has the same closedness, its vertex list is the original one with the midpoint of every
    chosen segment inserted right before that segment's end vertex, the index maps are those of
    `with_insertions` (see `bisected_originals`, `bisected_inserted`, `bisected_length`), and the total length is
    unchanged. -/
theorem bisected_spec_full (p : Polyline ℝ) (segIdx : List Int)
    (h : ∀ i ∈ segIdx, -(p.numE : Int) ≤ i ∧ i < p.numE) :
    ∃ q orig new, withSegmentsBisected true p segIdx = .ok (q, orig, new) ∧
      q.v = insertBefore p.v (bisectPairs p segIdx) ∧ q.closed = p.closed ∧
      orig = indicesOfOriginal p.numV ((bisectPairs p segIdx).map (·.1)) ∧
      new = indicesOfInserted ((bisectPairs p segIdx).map (·.1)) ∧
      totalLength q = totalLength p :=
  ⟨_, _, _, bisected_spec p segIdx h, rfl, rfl, rfl, rfl, bisected_total_length p segIdx h⟩

/-- the hypotheses of `bisected_spec_full` are satisfiable (closed triangle; closing segment twice, by a negative
    index too, and the first segment) -/
example : ∃ (p : Polyline ℝ) (segIdx : List Int), segIdx ≠ [] ∧ ∀ i ∈ segIdx, -(p.numE : Int) ≤ i ∧ i < p.numE :=
  ⟨⟨[⟨0, 0, 0⟩, ⟨3, 0, 0⟩, ⟨3, 4, 0⟩], true⟩, [2, -1, 0], by simp, by
    simp [Polyline.numE, Polyline.edges, edgesFor, Polyline.numV]⟩

/-! ## what the model takes from the source

`harness/translate/c08.py` reads the comparison operators, index offsets, rounding function, slices and formulas of
`point_along_path`, `subdivided_by_length`, `with_segments_bisected`, `segment_lengths`, `total_length`
(`polliwog/polyline/_polyline_object.py`) and of `subdivide_segment`, `subdivide_segments`, `path_centroid`
(`polliwog/segment/_segment_functions.py`) out of the source text into `PW/Gen/ArcLen.lean` on every run (local names
replaced by what they were assigned; DESIRED, CUM, INDEX, NEEDED, ES, INSERTS, COUNTS, SRC, DIFFS, DISTS, UNIT are
structural labels).  The theorems below state that each generated value is the one the hand-written model
`PW/Model/ArcLength.lean` was written from — and, where the literal is a Lean literal of the model, that the model
computes with exactly the generated value — so that an edit of one of them in the source breaks a proof obligation. -/

section GenTies
variable {K : Type} [Field K] [LinearOrder K] [IsStrictOrderedRing K]

/-- `point_along_path` refuses a fraction `< 0` or `> 1` with `ValueError`: the model's `pointAlongPath` tests exactly
    the generated comparisons. -/
theorem gen_fraction_range [Sqrt K] :
    (PW.Gen.ArcLen.fracLowCmp = .lt ∧ PW.Gen.ArcLen.fracLowRhs = 0 ∧ PW.Gen.ArcLen.fracHighCmp = .gt ∧
      PW.Gen.ArcLen.fracHighRhs = 1 ∧ PW.Gen.ArcLen.fracRaises = "ValueError") ∧
    PW.Gen.ArcLen.fracCondSrc = "np.any(fraction_of_total < 0) or np.any(fraction_of_total > 1)" ∧
    ∀ (p : Polyline K) (fs : List K), pointAlongPath p fs =
      if fs.any (fun f => PW.Gen.ArcLen.fracLowCmp.test f ((PW.Gen.ArcLen.fracLowRhs : Int) : K) ||
                          PW.Gen.ArcLen.fracHighCmp.test f ((PW.Gen.ArcLen.fracHighRhs : Int) : K))
      then .error .ValueError
      else if p.v.isEmpty then .error .IndexError
      else if p.numE == 0 && !fs.isEmpty then .error .IndexError
      else .ok (fs.map (pointAlongOne p)) := by
  refine ⟨⟨by decide, by decide, by decide, by decide, rfl⟩, rfl, ?_⟩
  intro p fs
  unfold pointAlongPath
  simp [PW.Gen.Cmp.test, PW.Gen.ArcLen.fracLowCmp, PW.Gen.ArcLen.fracLowRhs, PW.Gen.ArcLen.fracHighCmp,
    PW.Gen.ArcLen.fracHighRhs]

/-- `point_along_path`: `desired = total_length * f`, `cumulative = cumsum([0, *lengths])`,
    `index = argmax(cumulative > desired) - 1`, the point on that segment, overwritten by the end of the path when
    `desired >= cumulative[-1]`: the model's `pointAlongOne` computes with exactly the generated operators / offsets. -/
theorem gen_point_along_path [Sqrt K] :
    (PW.Gen.ArcLen.desiredSrc = "fraction_of_total * self.total_length" ∧
      PW.Gen.ArcLen.cumSrc = "np.cumsum([0, *self.segment_lengths])" ∧ PW.Gen.ArcLen.cumStart = 0 ∧
      PW.Gen.ArcLen.searchCmp = .lt ∧ PW.Gen.ArcLen.searchLhs = "DESIRED" ∧
      PW.Gen.ArcLen.searchRhs = "CUM.reshape(-1, 1)" ∧
      PW.Gen.ArcLen.indexCoef = 1 ∧ PW.Gen.ArcLen.indexOffset = -1 ∧ PW.Gen.ArcLen.indexIsArgmax = some true ∧
      PW.Gen.ArcLen.endCmp = .le ∧ PW.Gen.ArcLen.endLhs = "CUM[-1]" ∧ PW.Gen.ArcLen.endRhs = "DESIRED") ∧
    PW.Gen.ArcLen.resultSrc =
      "(DESIRED - CUM[INDEX]).reshape(-1, 1) * vg.normalize(self.segment_vectors[INDEX]) + self.v[INDEX]" ∧
    PW.Gen.ArcLen.endValueSrc = "self.v[0] if self.is_closed else self.v[-1]" ∧
    ∀ (p : Polyline K) (f : K), pointAlongOne p f =
      (let desired := totalLength p * f
       let cum := cumFrom ((PW.Gen.ArcLen.cumStart : Int) : K) (segmentLengths p)
       let j := argmaxBool (cum.map fun c => PW.Gen.ArcLen.searchCmp.test desired c)
       let i : Int := PW.Gen.ArcLen.indexCoef * (j : Int) + PW.Gen.ArcLen.indexOffset
       let r := pyGet p.v i V3.zero +
         V3.smul (desired - pyGet cum i 0) (V3.normalize (pyGet p.segmentVectors i V3.zero))
       if PW.Gen.ArcLen.endCmp.test (pyGet cum (-1) 0) desired then
         (if p.closed then pyGet p.v 0 V3.zero else pyGet p.v (-1) V3.zero)
       else r) := by
  refine ⟨⟨rfl, rfl, by decide, by decide, rfl, rfl, by decide, by decide, by decide, by decide, rfl, rfl⟩, rfl, rfl, ?_⟩
  intro p f
  unfold pointAlongOne cumLengths
  simp [PW.Gen.Cmp.test, PW.Gen.ArcLen.cumStart, PW.Gen.ArcLen.searchCmp, PW.Gen.ArcLen.indexCoef,
    PW.Gen.ArcLen.indexOffset, PW.Gen.ArcLen.endCmp, sub_eq_add_neg]

end GenTies

section GenTiesFloor
variable {K : Type} [Field K] [LinearOrder K] [IsStrictOrderedRing K] [FloorRing K] [Sqrt K]
attribute [local instance] fieldRounding

/-- `subdivided_by_length`: an edge gets `np.ceil(length / max_length)` parts and is subdivided when selected and that
    number is `> 1`; the inserted points are `subdivide_segment(a, b, n, endpoint=False)[1:]`: the model's `numNeeded`
    and `edgeInserts` compute with exactly the generated operator, bound, flag and slice. -/
theorem gen_subdivide_rule :
    (PW.Gen.ArcLen.roundingFn = "np.ceil" ∧ PW.Gen.ArcLen.quotientSrc = "self.segment_lengths / max_length" ∧
      PW.Gen.ArcLen.subdivideCmp = .gt ∧ PW.Gen.ArcLen.subdivideRhs = 1 ∧ PW.Gen.ArcLen.insertEndpoint = some false ∧
      PW.Gen.ArcLen.insertDropFirst = 1) ∧
    PW.Gen.ArcLen.maskSrc =
      "NEEDED > 1 and (np.ones(self.num_e, dtype=bool) if edges_to_subdivide is None else edges_to_subdivide)" ∧
    PW.Gen.ArcLen.insertCallSrc =
      "subdivide_segment(self.v[self.e[old_e_index][0]], self.v[self.e[old_e_index][1]], int(NEEDED[old_e_index]), endpoint=False)[1:]" ∧
    PW.Gen.ArcLen.insertLoopSrc = "ES" ∧
    (∀ len maxLen : K, numNeeded len maxLen = ⌈len / maxLen⌉) ∧
    ∀ (maxLen : K) (sel : Bool) (a b : V3 K), edgeInserts maxLen sel a b =
      if sel && PW.Gen.ArcLen.subdivideCmp.test (numNeeded (ArcLength.dist a b) maxLen) PW.Gen.ArcLen.subdivideRhs then
        ((linspace01 (numNeeded (ArcLength.dist a b) maxLen).toNat (PW.Gen.ArcLen.insertEndpoint.getD true)).map
          (lerp a b)).drop PW.Gen.ArcLen.insertDropFirst
      else [] := by
  refine ⟨⟨rfl, rfl, by decide, by decide, by decide, by decide⟩, rfl, rfl, rfl, fun _ _ => rfl, ?_⟩
  intro maxLen sel a b
  rfl

end GenTiesFloor

/-- column `i` of a pair of end points (`segments[:, i]`) -/
def pairCol {α : Type} (s : α × α) (i : Int) : α := if i = 0 then s.1 else s.2

/-- [semantic + text] `subdivided_by_length`, assembly.  Semantic: the index offsets of the original vertices are the
    running sums of one leading `0` (`np.zeros(1)`) followed by the per-edge insert counts, leaving out the last edge
    (`[:-1]`) of a closed polyline: the model's `subdividedIndices` computes with exactly the generated number of leading
    zeros and slice bound.  Text only: `splitCoef/splitOffset` and the `…Src` strings — `np.vsplit(v, ES + 1)` chained
    with the insert lists is array plumbing; the model's `interleave` states its result (each vertex followed by the
    inserts of the edge that starts there) and is tied to it by the correspondence check. -/
theorem gen_subdivide_assembly :
    (PW.Gen.ArcLen.splitCoef = 1 ∧ PW.Gen.ArcLen.splitOffset = 1 ∧ PW.Gen.ArcLen.samePolyline = some true ∧
      PW.Gen.ArcLen.assemblySrc =
        "Polyline(is_closed=self.is_closed, v=_vcat(list(itertools.chain(*zip(np.vsplit(self.v, ES + 1), INSERTS + [np.empty((0, 3), dtype=self.POSITION_DTYPE)])))))" ∧
      PW.Gen.ArcLen.countsSrc = "_set(np.zeros(self.num_e, dtype=np.int64), _0[ES], [len(vs) for vs in INSERTS])" ∧
      PW.Gen.ArcLen.indicesSrc =
        "np.arange(self.num_v) + np.sum(np.tril(np.broadcast_to(_vcat([np.zeros(1, dtype=np.int64), COUNTS[:-1] if self.is_closed else COUNTS]), (self.num_v, self.num_v))), axis=1)") ∧
    (PW.Gen.ArcLen.leadingZeros = 1 ∧ PW.Gen.ArcLen.closedDropStop = -1) ∧
    ∀ {K : Type} (closed : Bool) (numV : Nat) (ins : List (List (V3 K))), subdividedIndices closed numV ins =
      (let counts := ins.map List.length
       let step := List.replicate PW.Gen.ArcLen.leadingZeros.toNat 0 ++
         (if closed then counts.take ((counts.length : Int) + PW.Gen.ArcLen.closedDropStop).toNat else counts)
       List.zipWith (· + ·) (List.range numV) (cumsumNat 0 step)) := by
  refine ⟨⟨by decide, by decide, by decide, rfl, rfl, rfl⟩, by decide, ?_⟩
  intro K closed numV ins
  have h : ∀ n : Nat, ((n : Int) + -1).toNat = n - 1 := by intro n; omega
  simp only [subdividedIndices, PW.Gen.ArcLen.leadingZeros, PW.Gen.ArcLen.closedDropStop, h, List.dropLast_eq_take]
  rfl

section GenTies2
variable {K : Type} [Field K] [LinearOrder K] [IsStrictOrderedRing K]

/-- `subdivide_segment`: `TypeError` unless `num_points` is an int, `ValueError` when `num_points < 2`, then
    `(p2 - p1) * np.linspace(0, 1, num, endpoint)[:, None] + p1`: the model's `subdivideSegment` tests exactly the
    generated comparison, and `linspace01` runs from the generated start to the generated stop. -/
theorem gen_subdivide_segment :
    (PW.Gen.ArcLen.numPointsTypeSrc = "not isinstance(num_points, int)" ∧ PW.Gen.ArcLen.numPointsCmp = .lt ∧
      PW.Gen.ArcLen.numPointsLhs = "num_points" ∧ PW.Gen.ArcLen.numPointsRhs = 2 ∧
      PW.Gen.ArcLen.numPointsRaises = ["TypeError", "ValueError"] ∧
      PW.Gen.ArcLen.linspaceStart = 0 ∧ PW.Gen.ArcLen.linspaceStop = 1) ∧
    PW.Gen.ArcLen.subdivideSegmentSrc = "(-p1 + p2) * LINSPACE[:, np.newaxis] + p1" ∧
    (∀ (isInt : Bool) (num : Int) (endpoint shapesOk : Bool) (p1 p2 : V3 K),
      subdivideSegment isInt num endpoint shapesOk p1 p2 =
        if !isInt then .error .TypeError
        else if PW.Gen.ArcLen.numPointsCmp.test num PW.Gen.ArcLen.numPointsRhs then .error .ValueError
        else if !shapesOk then .error .ValueError
        else .ok ((linspace01 num.toNat endpoint).map (lerp p1 p2))) ∧
    linspace01 (K := K) 2 true =
      [((PW.Gen.ArcLen.linspaceStart : Int) : K), ((PW.Gen.ArcLen.linspaceStop : Int) : K)] := by
  refine ⟨⟨rfl, by decide, rfl, by decide, by decide, by decide, by decide⟩, rfl, ?_, ?_⟩
  · intro isInt num endpoint shapesOk p1 p2
    unfold subdivideSegment
    simp [PW.Gen.Cmp.test, PW.Gen.ArcLen.numPointsCmp, PW.Gen.ArcLen.numPointsRhs]
  · simp [linspace01, natK, List.range_succ, PW.Gen.ArcLen.linspaceStart, PW.Gen.ArcLen.linspaceStop]

/-- `subdivide_segments`: `unitds = diffs / dists`, set to `0.0` where `dists == 0`; rows `v[i] + unit * (width * k)`;
    last row `v[-1]`: the model's `subdivideOne` tests exactly the generated comparison and stores the generated value. -/
theorem gen_subdivide_segments [Sqrt K] :
    (PW.Gen.ArcLen.zeroLenCmp = .eq ∧ PW.Gen.ArcLen.zeroLenRhs = 0 ∧ PW.Gen.ArcLen.zeroLenValue = 0) ∧
    (PW.Gen.ArcLen.srcSrc = "np.arange(len(v) - 1)" ∧ PW.Gen.ArcLen.diffsSrc = "v[SRC + 1] - v[SRC]" ∧
      PW.Gen.ArcLen.distsSrc = "np.sqrt(np.sum(np.square(DIFFS), axis=1))" ∧
      PW.Gen.ArcLen.unitSrc = "DIFFS / DISTS[:, np.newaxis]" ∧ PW.Gen.ArcLen.lastRowSrc = "v[-1]") ∧
    PW.Gen.ArcLen.filledSrc =
      "((DISTS / num_subdivisions)[:, np.newaxis] * np.arange(0, num_subdivisions)).flatten()[:, np.newaxis] * np.repeat(UNIT, num_subdivisions, axis=0) + np.repeat(v[:-1], num_subdivisions, axis=0)" ∧
    ∀ (num : Nat) (a b : V3 K), subdivideOne num a b =
      (let d := b - a
       let len := V3.norm d
       let unit := if PW.Gen.ArcLen.zeroLenCmp.test len ((PW.Gen.ArcLen.zeroLenRhs : Int) : K)
         then (⟨((PW.Gen.ArcLen.zeroLenValue : Int) : K), ((PW.Gen.ArcLen.zeroLenValue : Int) : K),
           ((PW.Gen.ArcLen.zeroLenValue : Int) : K)⟩ : V3 K) else V3.sdiv d len
       let width := len / natK num
       (List.range num).map fun k => a + V3.smul (width * natK k) unit) := by
  refine ⟨by decide, ⟨rfl, rfl, rfl, rfl, rfl⟩, rfl, ?_⟩
  intro num a b
  unfold subdivideOne
  simp [PW.Gen.Cmp.test, PW.Gen.ArcLen.zeroLenCmp, PW.Gen.ArcLen.zeroLenRhs, PW.Gen.ArcLen.zeroLenValue, V3.zero]

end GenTies2

section GenTies3
variable {K : Type} [Field K] [LinearOrder K] [IsStrictOrderedRing K] [Sqrt K]

/-- [semantic + text] lengths, centroid and `with_segments_bisected`.  Semantic: `segment_lengths` is the distance between
    columns 0 and 1 of `self.segments` and `path_centroid` weights by the distance between columns 0 and 1 of `segments`
    (the model's `segmentLengths`, `pathCentroid` take exactly the generated columns); `with_segments_bisected` refuses
    `np.ndim(segment_indices) != 1` with the generated class and inserts before column 1 of the selected edges (the
    model's `withSegmentsBisected`, `oneDim` being `ndim = 1`).  Text only: `np.sum`, `np.average(…, axis=…)`,
    `.mean(axis=1)` — reductions named by NumPy functions which the model writes out (`sumK`, `vsum`, `sdiv … two`). -/
theorem gen_lengths_centroid_bisect :
    (PW.Gen.ArcLen.segmentLengthsSrc = "vg.euclidean_distance(self.segments[:, 0], self.segments[:, 1])" ∧
      PW.Gen.ArcLen.totalLengthSrc = "np.sum(self.segment_lengths)" ∧
      PW.Gen.ArcLen.polylineCentroidSrc = "path_centroid(self.segments)" ∧
      PW.Gen.ArcLen.pathCentroidSrc =
        "np.average(np.average(segments, axis=1), axis=0, weights=vg.euclidean_distance(segments[:, 0], segments[:, 1]))" ∧
      PW.Gen.ArcLen.centroidAxes = [1, 0] ∧ PW.Gen.ArcLen.bisectMeanAxis = 1 ∧
      PW.Gen.ArcLen.bisectDimLhs = "np.ndim(segment_indices)" ∧
      PW.Gen.ArcLen.bisectSrc =
        "self.with_insertions(indices=self.e[segment_indices][:, 1], points=self.segments[segment_indices].mean(axis=1), ret_new_indices=ret_new_indices)") ∧
    (PW.Gen.ArcLen.lengthFromColumn = 0 ∧ PW.Gen.ArcLen.lengthToColumn = 1 ∧
      PW.Gen.ArcLen.centroidWeightFromColumn = 0 ∧ PW.Gen.ArcLen.centroidWeightToColumn = 1 ∧
      PW.Gen.ArcLen.bisectDimCmp = .ne ∧ PW.Gen.ArcLen.bisectDimRhs = 1 ∧ PW.Gen.ArcLen.bisectRaises = "ValueError" ∧
      PW.Gen.ArcLen.bisectEdgeColumn = 1) ∧
    (∀ p : Polyline K, segmentLengths p = p.segments.map fun s =>
      ArcLength.dist (pairCol s PW.Gen.ArcLen.lengthFromColumn) (pairCol s PW.Gen.ArcLen.lengthToColumn)) ∧
    (∀ segs : List (V3 K × V3 K), pathCentroid segs =
      (let lens := segs.map fun s => ArcLength.dist (pairCol s PW.Gen.ArcLen.centroidWeightFromColumn)
         (pairCol s PW.Gen.ArcLen.centroidWeightToColumn)
       let scl := sumK lens
       if scl == 0 then .error .ZeroDivisionError
       else .ok (V3.sdiv (vsum (List.zipWith (fun c w => V3.smul w c)
         (segs.map fun s => V3.sdiv (s.1 + s.2) two) lens)) scl))) ∧
    (∀ (ndim : Nat) (p : Polyline K) (segIdx : List Int),
      withSegmentsBisected (decide (ndim = 1)) p segIdx =
        if PW.Gen.ArcLen.bisectDimCmp.test (ndim : Int) PW.Gen.ArcLen.bisectDimRhs then
          .error (PW.Gen.errOfName PW.Gen.ArcLen.bisectRaises)
        else if !(segIdx.all (pyIdxOk p.numE)) then .error .IndexError
        else
          (let es := segIdx.map (pyIdx p.numE)
           let mids := es.map fun e => V3.sdiv ((p.segments.getD e (V3.zero, V3.zero)).1 +
             (p.segments.getD e (V3.zero, V3.zero)).2) two
           let at_ := es.map fun e => pairCol (p.edges.getD e (0, 0)) PW.Gen.ArcLen.bisectEdgeColumn
           .ok (⟨insertBefore p.v (List.zip at_ mids), p.closed⟩, indicesOfOriginal p.numV at_,
             indicesOfInserted at_))) := by
  refine ⟨⟨rfl, rfl, rfl, rfl, by decide, by decide, rfl, rfl⟩,
    ⟨by decide, by decide, by decide, by decide, by decide, by decide, rfl, by decide⟩, fun _ => rfl, fun _ => rfl, ?_⟩
  intro ndim p segIdx
  unfold withSegmentsBisected
  by_cases h : ndim = 1 <;>
    simp [h, PW.Gen.Cmp.test, PW.Gen.ArcLen.bisectDimCmp, PW.Gen.ArcLen.bisectDimRhs, PW.Gen.ArcLen.bisectRaises,
      PW.Gen.errOfName, PW.Gen.ArcLen.bisectEdgeColumn, pairCol]

end GenTies3

/-- [text] what the symbolic reader does not interpret, pinned to the source the model was written from: for every
    function read by `harness/translate/c08.py` its decorators, its parameter list with defaults, the statements whose
    effect is not modelled (imports, shape checks — any added in-place call, loop, `with`, `try`, `del`, … shows up here),
    and the number of other bindings of its name in the enclosing scope. -/
theorem gen_function_shapes :
    PW.Gen.ArcLen.functionShapes =
      [("Polyline.point_along_path", [], "self, fraction_of_total", ["importfrom from .._common.shape import columnize"], 0),
       ("Polyline.subdivided_by_length", [], "self, max_length, edges_to_subdivide=None, ret_indices=False", ["import import itertools", "importfrom from ..segment import subdivide_segment", "expr vg.shape.check(locals(), 'edges_to_subdivide', (self.num_e,))"], 0),
       ("Polyline.with_segments_bisected", [], "self, segment_indices, ret_new_indices=False", [], 0),
       ("Polyline.segment_lengths", ["property"], "self", [], 0),
       ("Polyline.total_length", ["property"], "self", [], 0),
       ("Polyline.path_centroid", ["property"], "self", ["importfrom from ..segment import path_centroid"], 0),
       ("subdivide_segment", [], "p1, p2, num_points, endpoint=True", ["expr vg.shape.check(locals(), 'p1', (-1,))", "expr vg.shape.check(locals(), 'p2', p1.shape)"], 0),
       ("subdivide_segments", [], "v, num_subdivisions=5", ["expr vg.shape.check(locals(), 'v', (-1, -1))"], 0),
       ("path_centroid", [], "segments", ["expr vg.shape.check(locals(), 'segments', (-1, 2, 3))"], 0)] := by rfl

end PW.C08
