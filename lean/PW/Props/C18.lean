/-
  C18 — Line projection is closest point; reported line intersections lie on both lines.

  Property theorems only (helper lemmas live in PW/Lemmas/Line.lean).  Theorems marked (K) hold for every
  linearly ordered field (hence ℚ and ℝ); theorems marked (ℝ) are about the faithful model with
  `Real.sqrt` (`vg.normalize`, `vg.magnitude`).
-/
import PW.Model.Line
import PW.Gen.LineFn
import PW.Lemmas.Vec
import PW.Lemmas.Line
import Mathlib.Tactic.Ring
import Mathlib.Tactic.LinearCombination
import Mathlib.Tactic.Linarith
import Mathlib.Tactic.FieldSimp
import Mathlib.Algebra.Order.Field.Basic
import Mathlib.Analysis.Real.Sqrt

set_option linter.unusedSectionVars false

namespace PW.C18

open PW.Lines

variable {K : Type} [Field K] [LinearOrder K] [IsStrictOrderedRing K]

/-! ## vocabulary -/

/-- `x` is on the line through `r` with direction `v` -/
def OnLineDir (r v x : V3 K) : Prop := ∃ t : K, x = r + V3.smul t v

/-- `x` is on the line through the two points `p`, `q` -/
def OnLine (p q x : V3 K) : Prop := ∃ t : K, x = p + V3.smul t (q - p)

/-- the two lines have exactly one common point, `X` -/
def MeetExactlyAt (p0 q0 p1 q1 X : V3 K) : Prop :=
  OnLine p0 q0 X ∧ OnLine p1 q1 X ∧ ∀ Y, OnLine p0 q0 Y → OnLine p1 q1 Y → Y = X

/-! ## projection (K): the normalisation-free form -/

/-- the projection is a point of the line -/
theorem project_alg_on_line (p r v : V3 K) : OnLineDir r v (projectAlg p r v) := ⟨_, rfl⟩

/-- the residual is perpendicular to the direction -/
theorem project_alg_residual_perp (p r v : V3 K) (hv : v.dot v ≠ 0) :
    (p - projectAlg p r v).dot v = 0 := by
  obtain ⟨t0, h0⟩ : ∃ t0, t0 = (p - r).dot v / v.dot v := ⟨_, rfl⟩
  have h1 : t0 * v.dot v = (p - r).dot v := by rw [h0]; field_simp
  unfold projectAlg
  rw [← h0]
  simp only [V3.dot_def, V3.sub_x, V3.sub_y, V3.sub_z, V3.add_x, V3.add_y, V3.add_z, V3.smul_x, V3.smul_y,
    V3.smul_z] at h1 ⊢
  linear_combination -h1

/-- hence it is the closest point of the line: every other point of the line is at least as far … -/
theorem project_alg_closest (p r v : V3 K) (hv : v.dot v ≠ 0) (t : K) :
    (p - projectAlg p r v).normSq ≤ (p - (r + V3.smul t v)).normSq := by
  obtain ⟨t0, h0⟩ : ∃ t0, t0 = (p - r).dot v / v.dot v := ⟨_, rfl⟩
  have h1 : t0 * v.dot v = (p - r).dot v := by rw [h0]; field_simp
  unfold projectAlg
  rw [← h0]
  have key : (p - (r + V3.smul t v)).normSq = (p - (r + V3.smul t0 v)).normSq + (t - t0) ^ 2 * v.dot v := by
    simp only [V3.normSq_def, V3.dot_def, V3.sub_x, V3.sub_y, V3.sub_z, V3.add_x, V3.add_y, V3.add_z,
      V3.smul_x, V3.smul_y, V3.smul_z] at h1 ⊢
    linear_combination (2 * (t - t0)) * h1
  rw [key]
  have := mul_nonneg (sq_nonneg (t - t0)) (dot_self_nonneg v)
  linarith

/-- … and strictly farther unless it is the projection itself. -/
theorem project_alg_closest_unique (p r v : V3 K) (hv : v.dot v ≠ 0) (t : K)
    (heq : (p - (r + V3.smul t v)).normSq = (p - projectAlg p r v).normSq) :
    r + V3.smul t v = projectAlg p r v := by
  obtain ⟨t0, h0⟩ : ∃ t0, t0 = (p - r).dot v / v.dot v := ⟨_, rfl⟩
  have h1 : t0 * v.dot v = (p - r).dot v := by rw [h0]; field_simp
  unfold projectAlg at heq ⊢
  rw [← h0] at heq ⊢
  have key : (p - (r + V3.smul t v)).normSq = (p - (r + V3.smul t0 v)).normSq + (t - t0) ^ 2 * v.dot v := by
    simp only [V3.normSq_def, V3.dot_def, V3.sub_x, V3.sub_y, V3.sub_z, V3.add_x, V3.add_y, V3.add_z,
      V3.smul_x, V3.smul_y, V3.smul_z] at h1 ⊢
    linear_combination (2 * (t - t0)) * h1
  rw [key] at heq
  have h2 : (t - t0) ^ 2 * v.dot v = 0 := by linarith
  have h3 : t - t0 = 0 := by
    rcases mul_eq_zero.mp h2 with h | h
    · exact pow_eq_zero_iff (two_ne_zero) |>.mp h
    · exact absurd h hv
  have h4 : t = t0 := sub_eq_zero.mp h3
  rw [h4]

/-! ## projection (ℝ): the code's form with `vg.normalize` -/

/-- over ℝ the code's `reference_point + vg.project(point - reference_point, onto=along)` is the
    normalisation-free form, for every non-zero direction of any length -/
theorem project_eq_alg (p r v : V3 ℝ) (hv : v.dot v ≠ 0) :
    projectPointToLine p r v = projectAlg p r v := by
  obtain ⟨n, hn⟩ : ∃ n, n = Real.sqrt (v.dot v) := ⟨_, rfl⟩
  have hnn : n * n = v.dot v := by rw [hn]; exact Real.mul_self_sqrt (dot_self_nonneg v)
  have hn0 : n ≠ 0 := by
    intro h; rw [h] at hnn; exact hv (by linarith)
  unfold projectPointToLine projectAlg vgProject scalarProjection V3.normalize V3.norm V3.normSq
  rw [sqrt_real_def, ← hn, ← hnn]
  ext <;> simp only [V3.dot_def, V3.add_x, V3.add_y, V3.add_z, V3.smul_x, V3.smul_y, V3.smul_z,
    V3.sdiv_x, V3.sdiv_y, V3.sdiv_z, V3.sub_x, V3.sub_y, V3.sub_z] <;> field_simp

/-- **project_to_line_spec** (ℝ): for a direction of any non-zero length the returned point lies on the line,
    the residual is perpendicular to the direction, and no point of the line is closer to the query
    (and the closest point is unique). -/
theorem project_to_line_spec (p r v : V3 ℝ) (hv : v ≠ V3.zero) :
    OnLineDir r v (projectPointToLine p r v) ∧
    (p - projectPointToLine p r v).dot v = 0 ∧
    (∀ t : ℝ, (p - projectPointToLine p r v).norm ≤ (p - (r + V3.smul t v)).norm) ∧
    (∀ t : ℝ, (p - (r + V3.smul t v)).norm = (p - projectPointToLine p r v).norm →
      r + V3.smul t v = projectPointToLine p r v) := by
  have hv' : v.dot v ≠ 0 := fun h => hv ((dot_self_eq_zero_iff v).mp h)
  rw [project_eq_alg p r v hv']
  refine ⟨project_alg_on_line p r v, project_alg_residual_perp p r v hv', ?_, ?_⟩
  · intro t
    unfold V3.norm
    rw [sqrt_real_def, sqrt_real_def]
    exact Real.sqrt_le_sqrt (project_alg_closest p r v hv' t)
  · intro t h
    apply project_alg_closest_unique p r v hv' t
    unfold V3.norm at h
    rw [sqrt_real_def, sqrt_real_def] at h
    have h1 : 0 ≤ (p - (r + V3.smul t v)).normSq := dot_self_nonneg _
    have h2 : 0 ≤ (p - projectAlg p r v).normSq := dot_self_nonneg _
    exact (Real.sqrt_inj h1 h2).mp h

/-! ## stacked forms: single point, many points against one line, one point against many lines, pairwise -/

section stacked
variable {R : Type} [Field R] [LinearOrder R] [IsStrictOrderedRing R] [Sqrt R]

/-- a single point against a single line -/
theorem project_single (p r v : V3 R) :
    projectPointToLineArgs (.one p) (.one r) (.one v) = .ok (.one (projectPointToLine p r v)) := by
  simp [projectPointToLineArgs, projectShapesOk, shapeMatches, Arg.shape]

/-- many points against one line: row `i` of the result is the single-point function of row `i` -/
theorem project_many_one (ps : List (V3 R)) (r v : V3 R) :
    projectPointToLineArgs (.many ps) (.one r) (.one v)
      = .ok (.many (ps.map fun p => projectPointToLine p r v)) := by
  simp [projectPointToLineArgs, projectShapesOk, shapeMatches, Arg.shape]

/-- points and lines paired row by row (equal counts): row `i` of the result is the single function of rows `i` -/
theorem project_pairwise (ps rs vs : List (V3 R)) (h1 : ps.length = rs.length) (h2 : rs.length = vs.length) :
    ∃ out : List (V3 R), projectPointToLineArgs (.many ps) (.many rs) (.many vs) = .ok (.many out) ∧
      out.length = ps.length ∧
      ∀ (i : Nat) (p r v : V3 R), ps[i]? = some p → rs[i]? = some r → vs[i]? = some v →
        out[i]? = some (projectPointToLine p r v) := by
  refine ⟨zipWith3 projectPointToLine ps rs vs, ?_, zipWith3_length _ _ _ _ h1 h2, ?_⟩
  · simp [projectPointToLineArgs, projectShapesOk, shapeMatches, Arg.shape, h1, h2]
  · intro i p r v hp hr hv
    exact zipWith3_getElem? _ _ _ _ i p r v hp hr hv

/-- one point against a stack of lines -/
theorem project_one_many (p : V3 R) (rs vs : List (V3 R)) (h : rs.length = vs.length) :
    projectPointToLineArgs (.one p) (.many rs) (.many vs)
      = .ok (.many (List.zipWith (fun r v => projectPointToLine p r v) rs vs)) := by
  simp [projectPointToLineArgs, projectShapesOk, shapeMatches, Arg.shape, h]

/-- the call is refused (ValueError) exactly when one of the three shape checks fails -/
theorem project_args_error_iff (pts refs vecs : Arg (V3 R)) :
    (∃ e, projectPointToLineArgs pts refs vecs = .error e) ↔
      projectShapesOk pts.shape refs.shape vecs.shape = false := by
  constructor
  · rintro ⟨e, h⟩
    by_contra hok
    simp only [Bool.not_eq_false] at hok
    unfold projectPointToLineArgs at h
    rw [hok] at h
    cases pts <;> cases refs <;> cases vecs <;>
      simp_all [projectShapesOk, shapeMatches, Arg.shape]
  · intro h
    refine ⟨.ValueError, ?_⟩
    unfold projectPointToLineArgs
    simp [h]

end stacked

/-! ## the Line object -/

/-- `Line(point, along)` raises ValueError exactly when every component of `along` is within `atol` of 0 … -/
theorem line_mk_error_iff (atol : K) (p a : V3 K) :
    Line.mk? atol p a = .error .ValueError ↔ |a.x| ≤ atol ∧ |a.y| ≤ atol ∧ |a.z| ≤ atol := by
  unfold Line.mk? almostZero
  simp only [absK_eq_abs]
  split_ifs with h
  · simp only [Bool.and_eq_true, decide_eq_true_eq] at h
    simp [h.1.1, h.1.2, h.2]
  · simp only [Bool.and_eq_true, decide_eq_true_eq] at h
    constructor
    · intro h'; cases h'
    · rintro ⟨h1, h2, h3⟩; exact absurd ⟨⟨h1, h2⟩, h3⟩ h

/-- … in particular **Line rejects a zero direction** (for the default `atol = 1e-8`, or any `atol ≥ 0`) … -/
theorem line_rejects_zero (atol : K) (hat : 0 ≤ atol) (p : V3 K) :
    Line.mk? atol p V3.zero = .error .ValueError := by
  rw [line_mk_error_iff]
  simp [hat]

/-- the full statement "Line rejects *exactly* the zero direction" — kept visible as a `def`; it is FALSE of the
    code for the default `atol = 1e-8` (known finding `line/tiny-direction-rejected`, witness below): what the code
    does is `line_mk_error_iff` (every direction with all |components| ≤ atol is refused). -/
def LineRejectsExactlyZero (atol : K) : Prop :=
  ∀ p a : V3 K, Line.mk? atol p a = .error .ValueError ↔ a = V3.zero

/-- **defect witness**: with `atol = 1e-8` the model (like the code) refuses the direction `(1e-9, 0, 0)` although
    it is not the zero vector. -/
theorem line_tiny_direction_defect_witness :
    Line.mk? (1 / 100000000 : ℚ) ⟨0, 0, 0⟩ ⟨1 / 1000000000, 0, 0⟩ = .error .ValueError ∧
    (⟨1 / 1000000000, 0, 0⟩ : V3 ℚ) ≠ V3.zero := by
  constructor
  · rw [line_mk_error_iff]
    refine ⟨?_, ?_, ?_⟩ <;> simp only [abs_zero] <;> norm_num [abs_of_pos]
  · intro h
    have := congrArg V3.x h
    simp only [V3.zero_x] at this
    norm_num at this

/-- hence the full statement fails for the default tolerance -/
theorem line_rejects_exactly_zero_fails : ¬ LineRejectsExactlyZero (1 / 100000000 : ℚ) := by
  intro h
  obtain ⟨h1, h2⟩ := line_tiny_direction_defect_witness
  exact h2 ((h _ _).mp h1)

/-- … and an accepted line stores the point and the direction unchanged, and its direction is not zero. -/
theorem line_mk_ok (atol : K) (hat : 0 ≤ atol) (p a : V3 K) (l : Line K) (h : Line.mk? atol p a = .ok l) :
    l.ref = p ∧ l.along = a ∧ a ≠ V3.zero ∧ l.referencePoints = (p, p + a) := by
  have hne : a ≠ V3.zero := by
    rintro rfl
    rw [line_rejects_zero atol hat p] at h
    cases h
  unfold Line.mk? at h
  split_ifs at h
  cases h
  exact ⟨rfl, rfl, hne, rfl⟩

/-- `Line.from_points(p1, p2)` is the line through `p1` with direction `p2 − p1`; its reference points are
    `p1` and `p2`; coincident points are rejected. -/
theorem line_from_points (atol : K) (hat : 0 ≤ atol) (p1 p2 : V3 K) :
    Line.fromPoints atol p1 p1 = .error .ValueError ∧
    ∀ l, Line.fromPoints atol p1 p2 = .ok l →
      l.ref = p1 ∧ l.along = p2 - p1 ∧ p1 ≠ p2 ∧ l.referencePoints = (p1, p2) := by
  constructor
  · unfold Line.fromPoints
    have : p1 - p1 = (V3.zero : V3 K) := by ext <;> simp
    rw [this]
    exact line_rejects_zero atol hat p1
  · intro l h
    obtain ⟨h1, h2, h3, h4⟩ := line_mk_ok atol hat p1 (p2 - p1) l h
    refine ⟨h1, h2, ?_, ?_⟩
    · intro h'; apply h3; rw [h']; ext <;> simp
    · rw [h4]
      congr 1
      ext <;> simp

/-- `Line.project` is `project_point_to_line` with the stored point and direction, for one point or a stack
    (so `project_to_line_spec` applies to it row by row). -/
theorem line_project_def {R : Type} [Field R] [LinearOrder R] [IsStrictOrderedRing R] [Sqrt R]
    (l : Line R) (p : V3 R) (ps : List (V3 R)) :
    l.project (.one p) = .ok (.one (projectPointToLine p l.ref l.along)) ∧
    l.project (.many ps) = .ok (.many (ps.map fun p => projectPointToLine p l.ref l.along)) :=
  ⟨project_single p l.ref l.along, project_many_one ps l.ref l.along⟩

/-- `Line.intersect_line` is `intersect_lines` on the two pairs of reference points. -/
theorem line_intersect_line_def {R : Type} [Field R] [LinearOrder R] [IsStrictOrderedRing R] [Sqrt R]
    (l m : Line R) :
    l.intersectLine m = intersectLines l.ref (l.ref + l.along) m.ref (m.ref + m.along) := rfl

/-! ## 3-D intersection (K): the closed form -/

/-- `k = f × e` and `h = f × g` of the code (`e = p0 − q0`, `f = p1 − q1`, `g = p0 − p1`) -/
def kVec (p0 q0 p1 q1 : V3 K) : V3 K := (p1 - q1).cross (p0 - q0)
def hVec (p0 p1 q1 : V3 K) : V3 K := (p1 - q1).cross (p0 - p1)

open Classical in
/-- decision structure of the closed form, with the tests as propositions; the `h = 0` branch is the general
    formula with `h·k = 0`, and the repeated `p0 == q1` of the second shortcut is dead. -/
theorem spec_normal_form (p0 q0 p1 q1 : V3 K) :
    intersectLinesSpec p0 q0 p1 q1 =
      if p0 = p1 ∨ p0 = q1 then some p0
      else if q0 = p1 then some q0
      else if (kVec p0 q0 p1 q1).dot (kVec p0 q0 p1 q1) = 0 then none
      else if (p0 - p1).dot (kVec p0 q0 p1 q1) ≠ 0 then none
      else some (p0 - V3.smul ((hVec p0 p1 q1).dot (kVec p0 q0 p1 q1) /
                               (kVec p0 q0 p1 q1).dot (kVec p0 q0 p1 q1)) (p0 - q0)) := by
  unfold intersectLinesSpec kVec hVec
  simp only [Bool.or_eq_true, v3beq_iff, beq_iff_eq, Bool.not_eq_true', beq_eq_false_iff_ne, ne_eq]
  by_cases h1 : p0 = p1 ∨ p0 = q1
  · simp only [h1, if_true]
  · simp only [h1, if_false]
    have h1' : ¬ p0 = q1 := fun h => h1 (Or.inr h)
    simp only [h1', or_false]
    by_cases h2 : q0 = p1
    · simp only [h2, if_true]
    · simp only [h2, if_false]
      by_cases h3 : ((p1 - q1).cross (p0 - q0)).dot ((p1 - q1).cross (p0 - q0)) = 0
      · simp only [h3, if_true]
      · simp only [h3, if_false]
        by_cases h4 : ((p1 - q1).cross (p0 - p1)).dot ((p1 - q1).cross (p0 - p1)) = 0
        · simp only [h4, if_true]
          obtain ⟨hx, hy, hz⟩ := dot_self_eq_zero h4
          have hhk : ((p1 - q1).cross (p0 - p1)).dot ((p1 - q1).cross (p0 - q0)) = 0 := by
            rw [V3.dot_def, hx, hy, hz]; ring
          have hgk : (p0 - p1).dot ((p1 - q1).cross (p0 - q0)) = 0 := by
            simp only [V3.cross_x, V3.cross_y, V3.cross_z, V3.sub_x, V3.sub_y, V3.sub_z] at hx hy hz
            simp only [V3.dot_def, V3.cross_x, V3.cross_y, V3.cross_z, V3.sub_x, V3.sub_y, V3.sub_z]
            linear_combination (-(p0.x - q0.x)) * hx - (p0.y - q0.y) * hy - (p0.z - q0.z) * hz
          simp only [hgk, not_true_eq_false, if_false, hhk, zero_div]
          congr 1
          ext <;> simp
        · simp only [h4, if_false]

theorem onLine_of_cross_zero (p1 q1 x : V3 K) (hf : (p1 - q1).dot (p1 - q1) ≠ 0)
    (hx : (x - p1).cross (p1 - q1) = V3.zero) : OnLine p1 q1 x := by
  have h := eq_smul_of_cross_zero hf hx
  refine ⟨-((x - p1).dot (p1 - q1) / (p1 - q1).dot (p1 - q1)), ?_⟩
  have hx' := congrArg V3.x h
  have hy' := congrArg V3.y h
  have hz' := congrArg V3.z h
  simp only [V3.sub_x, V3.sub_y, V3.sub_z, V3.smul_x, V3.smul_y, V3.smul_z] at hx' hy' hz'
  ext <;> simp only [V3.add_x, V3.add_y, V3.add_z, V3.sub_x, V3.sub_y, V3.sub_z, V3.smul_x, V3.smul_y, V3.smul_z]
  · linear_combination hx'
  · linear_combination hy'
  · linear_combination hz'

theorem onLine_left (p q : V3 K) : OnLine p q p := ⟨0, by ext <;> simp⟩
theorem onLine_right (p q : V3 K) : OnLine p q q := ⟨1, by ext <;> simp⟩

/-- **soundness** (K): a point returned by the closed form lies on both lines — for all inputs. -/
theorem spec_sound (p0 q0 p1 q1 X : V3 K) (h : intersectLinesSpec p0 q0 p1 q1 = some X) :
    OnLine p0 q0 X ∧ OnLine p1 q1 X := by
  rw [spec_normal_form] at h
  split_ifs at h with h1 h2 h3 h4
  · cases h
    rcases h1 with h1 | h1
    · exact ⟨onLine_left _ _, h1 ▸ onLine_left _ _⟩
    · exact ⟨onLine_left _ _, h1 ▸ onLine_right _ _⟩
  · cases h
    exact ⟨onLine_right _ _, h2 ▸ onLine_left _ _⟩
  · -- general position: X = p0 − α e
    simp only [ne_eq, not_not] at h4
    cases h
    have hpar := h_parallel_k (p1 - q1) (p0 - p1) (p0 - q0) h3 h4
    have hf : (p1 - q1).dot (p1 - q1) ≠ 0 := fun hf => h3 (cross_zero_left_dot _ _ hf)
    refine ⟨⟨(hVec p0 p1 q1).dot (kVec p0 q0 p1 q1) / (kVec p0 q0 p1 q1).dot (kVec p0 q0 p1 q1), ?_⟩, ?_⟩
    · ext <;> simp only [V3.add_x, V3.add_y, V3.add_z, V3.sub_x, V3.sub_y, V3.sub_z, V3.smul_x, V3.smul_y,
        V3.smul_z] <;> ring
    · apply onLine_of_cross_zero _ _ _ hf
      have hx' := congrArg V3.x hpar
      have hy' := congrArg V3.y hpar
      have hz' := congrArg V3.z hpar
      unfold kVec hVec
      obtain ⟨a, ha⟩ : ∃ a, a = ((p1 - q1).cross (p0 - p1)).dot ((p1 - q1).cross (p0 - q0)) /
          ((p1 - q1).cross (p0 - q0)).dot ((p1 - q1).cross (p0 - q0)) := ⟨_, rfl⟩
      rw [← ha] at hx' hy' hz' ⊢
      simp only [V3.cross_x, V3.cross_y, V3.cross_z, V3.sub_x, V3.sub_y, V3.sub_z, V3.smul_x, V3.smul_y,
        V3.smul_z] at hx' hy' hz'
      ext <;> simp only [V3.cross_x, V3.cross_y, V3.cross_z, V3.sub_x, V3.sub_y, V3.sub_z, V3.smul_x,
        V3.smul_y, V3.smul_z, V3.zero_x, V3.zero_y, V3.zero_z]
      · linear_combination -hx'
      · linear_combination -hy'
      · linear_combination -hz'

/-- if the lines have a common point they are coplanar: `g · k = 0` -/
theorem coplanar_of_common_point (p0 q0 p1 q1 X : V3 K) (h0 : OnLine p0 q0 X) (h1 : OnLine p1 q1 X) :
    (p0 - p1).dot (kVec p0 q0 p1 q1) = 0 := by
  obtain ⟨s, hs⟩ := h0
  obtain ⟨t, ht⟩ := h1
  have hx := congrArg V3.x (hs.symm.trans ht)
  have hy := congrArg V3.y (hs.symm.trans ht)
  have hz := congrArg V3.z (hs.symm.trans ht)
  unfold kVec
  simp only [V3.add_x, V3.add_y, V3.add_z, V3.sub_x, V3.sub_y, V3.sub_z, V3.smul_x, V3.smul_y, V3.smul_z]
    at hx hy hz
  simp only [V3.dot_def, V3.cross_x, V3.cross_y, V3.cross_z, V3.sub_x, V3.sub_y, V3.sub_z]
  linear_combination
    ((p1.y - q1.y) * (p0.z - q0.z) - (p1.z - q1.z) * (p0.y - q0.y)) * hx +
    ((p1.z - q1.z) * (p0.x - q0.x) - (p1.x - q1.x) * (p0.z - q0.z)) * hy +
    ((p1.x - q1.x) * (p0.y - q0.y) - (p1.y - q1.y) * (p0.x - q0.x)) * hz

/-- two proper lines with parallel directions and a common point have a second common point -/
theorem second_common_point (p0 q0 p1 q1 X : V3 K) (hne0 : p0 ≠ q0)
    (hk : (kVec p0 q0 p1 q1).dot (kVec p0 q0 p1 q1) = 0)
    (h0 : OnLine p0 q0 X) (h1 : OnLine p1 q1 X) :
    OnLine p0 q0 (X + (p1 - q1)) ∧ OnLine p1 q1 (X + (p1 - q1)) := by
  have he : (p0 - q0).dot (p0 - q0) ≠ 0 := sub_dot_self_ne_zero hne0
  have hk0 : (p1 - q1).cross (p0 - q0) = V3.zero := (dot_self_eq_zero_iff _).mp hk
  have hpar := eq_smul_of_cross_zero he hk0
  obtain ⟨c, hc⟩ : ∃ c, c = (p1 - q1).dot (p0 - q0) / (p0 - q0).dot (p0 - q0) := ⟨_, rfl⟩
  rw [← hc] at hpar
  obtain ⟨s, hs⟩ := h0
  obtain ⟨t, ht⟩ := h1
  have hx := congrArg V3.x hpar
  have hy := congrArg V3.y hpar
  have hz := congrArg V3.z hpar
  simp only [V3.sub_x, V3.sub_y, V3.sub_z, V3.smul_x, V3.smul_y, V3.smul_z] at hx hy hz
  constructor
  · refine ⟨s - c, ?_⟩
    rw [hs]
    ext <;> simp only [V3.add_x, V3.add_y, V3.add_z, V3.sub_x, V3.sub_y, V3.sub_z, V3.smul_x, V3.smul_y,
      V3.smul_z]
    · linear_combination hx
    · linear_combination hy
    · linear_combination hz
  · refine ⟨t - 1, ?_⟩
    rw [ht]
    ext <;> simp only [V3.add_x, V3.add_y, V3.add_z, V3.sub_x, V3.sub_y, V3.sub_z, V3.smul_x, V3.smul_y,
      V3.smul_z] <;> ring

/-- **completeness** (K): if two proper lines meet in exactly one point, the closed form returns that point —
    with no hypothesis on how the four defining points lie relative to it or to each other (any of them may
    be the intersection point, `p0` may lie on line 1, points of different lines may coincide, …). -/
theorem spec_complete (p0 q0 p1 q1 X : V3 K) (hne0 : p0 ≠ q0) (hne1 : p1 ≠ q1)
    (hX : MeetExactlyAt p0 q0 p1 q1 X) : intersectLinesSpec p0 q0 p1 q1 = some X := by
  obtain ⟨h0, h1, huniq⟩ := hX
  cases hres : intersectLinesSpec p0 q0 p1 q1 with
  | some P =>
    obtain ⟨hP0, hP1⟩ := spec_sound p0 q0 p1 q1 P hres
    rw [huniq P hP0 hP1]
  | none =>
    exfalso
    rw [spec_normal_form] at hres
    split_ifs at hres with c1 c2 c3 c4
    · -- parallel directions and a common point: a second common point contradicts uniqueness
      obtain ⟨hY0, hY1⟩ := second_common_point p0 q0 p1 q1 X hne0 c3 h0 h1
      have hYX := huniq _ hY0 hY1
      apply hne1
      have hx := congrArg V3.x hYX
      have hy := congrArg V3.y hYX
      have hz := congrArg V3.z hYX
      simp only [V3.add_x, V3.add_y, V3.add_z, V3.sub_x, V3.sub_y, V3.sub_z] at hx hy hz
      ext
      · linear_combination hx
      · linear_combination hy
      · linear_combination hz
    · exact c4 (coplanar_of_common_point p0 q0 p1 q1 X h0 h1)

/-- **None** (K): lines without a common point — parallel and distinct, or skew — give `None`. -/
theorem spec_none_of_disjoint (p0 q0 p1 q1 : V3 K)
    (hdis : ¬ ∃ X, OnLine p0 q0 X ∧ OnLine p1 q1 X) : intersectLinesSpec p0 q0 p1 q1 = none := by
  cases hres : intersectLinesSpec p0 q0 p1 q1 with
  | none => rfl
  | some P => exact absurd ⟨P, spec_sound p0 q0 p1 q1 P hres⟩ hdis

/-- conversely `None` is returned only for parallel directions (`k = 0`: parallel or collinear lines, or a
    degenerate line) or non-coplanar lines (`g·k ≠ 0`: skew), and never when one of the shortcuts applies. -/
theorem spec_none_iff (p0 q0 p1 q1 : V3 K) :
    intersectLinesSpec p0 q0 p1 q1 = none ↔
      (¬ (p0 = p1 ∨ p0 = q1) ∧ q0 ≠ p1) ∧
      (kVec p0 q0 p1 q1 = V3.zero ∨ (p0 - p1).dot (kVec p0 q0 p1 q1) ≠ 0) := by
  rw [spec_normal_form, ← dot_self_eq_zero_iff]
  split_ifs with c1 c2 c3 c4 <;> simp_all

/-! ## 3-D intersection (ℝ): the code's form with `|h|/|k|` and the sign of `h·k` -/

/-- **intersect_lines_exact** (ℝ): the faithful model of `intersect_lines` — shortcuts, `|h|`, `|k|` by square
    roots, the `g·k != 0` coplanarity test, the step `|h|/|k|·e` with the sign taken from `h·k` — equals the
    sqrt-free closed form on every input. -/
theorem intersect_lines_exact (p0 q0 p1 q1 : V3 ℝ) :
    intersectLines p0 q0 p1 q1 = intersectLinesSpec p0 q0 p1 q1 := by
  unfold intersectLines intersectLinesSpec
  simp only [norm_beq_zero]
  split_ifs with c1 c2 c3 c4 c5 c6
  · rfl
  · rfl
  · rfl
  · rfl
  · rfl
  · congr 1
    simp only [beq_iff_eq, Bool.not_eq_true', beq_eq_false_iff_ne, ne_eq, not_not] at c3 c5
    have c5' : (p0 - p1).dot ((p1 - q1).cross (p0 - q0)) = 0 := by simpa using c5
    have := step_eq _ _ (p0 - q0) p0 c3 (h_parallel_k (p1 - q1) (p0 - p1) (p0 - q0) c3 c5')
    rw [if_pos c6] at this
    exact this
  · congr 1
    simp only [beq_iff_eq, Bool.not_eq_true', beq_eq_false_iff_ne, ne_eq, not_not] at c3 c5
    have c5' : (p0 - p1).dot ((p1 - q1).cross (p0 - q0)) = 0 := by simpa using c5
    have := step_eq _ _ (p0 - q0) p0 c3 (h_parallel_k (p1 - q1) (p0 - p1) (p0 - q0) c3 c5')
    rw [if_neg c6] at this
    exact this

/-- **soundness** (ℝ, the code's form): whenever `intersect_lines` returns a point, it lies on both lines. -/
theorem intersect_lines_sound (p0 q0 p1 q1 X : V3 ℝ) (h : intersectLines p0 q0 p1 q1 = some X) :
    OnLine p0 q0 X ∧ OnLine p1 q1 X :=
  spec_sound p0 q0 p1 q1 X (intersect_lines_exact p0 q0 p1 q1 ▸ h)

/-- **completeness** (ℝ, the code's form): two proper lines meeting in exactly one point — whichever of the
    four defining points coincide with it or with each other — get that point. -/
theorem intersect_lines_complete (p0 q0 p1 q1 X : V3 ℝ) (hne0 : p0 ≠ q0) (hne1 : p1 ≠ q1)
    (hX : MeetExactlyAt p0 q0 p1 q1 X) : intersectLines p0 q0 p1 q1 = some X := by
  rw [intersect_lines_exact]; exact spec_complete p0 q0 p1 q1 X hne0 hne1 hX

/-- **None** (ℝ, the code's form): parallel distinct lines and skew lines give `None`. -/
theorem intersect_lines_none_of_disjoint (p0 q0 p1 q1 : V3 ℝ)
    (hdis : ¬ ∃ X, OnLine p0 q0 X ∧ OnLine p1 q1 X) : intersectLines p0 q0 p1 q1 = none := by
  rw [intersect_lines_exact]; exact spec_none_of_disjoint p0 q0 p1 q1 hdis

/-- `Line.intersect_line`: the same three statements for two `Line` objects (reference point + direction). -/
theorem line_intersect_line_spec (l m : Line ℝ) (hl : l.along ≠ V3.zero) (hm : m.along ≠ V3.zero) :
    (∀ X, l.intersectLine m = some X →
        OnLineDir l.ref l.along X ∧ OnLineDir m.ref m.along X) ∧
    (∀ X, OnLineDir l.ref l.along X → OnLineDir m.ref m.along X →
        (∀ Y, OnLineDir l.ref l.along Y → OnLineDir m.ref m.along Y → Y = X) →
        l.intersectLine m = some X) ∧
    ((¬ ∃ X, OnLineDir l.ref l.along X ∧ OnLineDir m.ref m.along X) → l.intersectLine m = none) := by
  have conv : ∀ (r a x : V3 ℝ), OnLine r (r + a) x ↔ OnLineDir r a x := by
    intro r a x
    have e : r + a - r = a := by ext <;> simp
    unfold OnLine OnLineDir
    rw [e]
  have ne : ∀ (r a : V3 ℝ), a ≠ V3.zero → r ≠ r + a := by
    intro r a ha h
    apply ha
    have hx := congrArg V3.x h
    have hy := congrArg V3.y h
    have hz := congrArg V3.z h
    simp only [V3.add_x, V3.add_y, V3.add_z] at hx hy hz
    ext <;> simp only [V3.zero_x, V3.zero_y, V3.zero_z] <;> linarith
  rw [line_intersect_line_def]
  refine ⟨?_, ?_, ?_⟩
  · intro X h
    have := intersect_lines_sound _ _ _ _ X h
    exact ⟨(conv _ _ _).mp this.1, (conv _ _ _).mp this.2⟩
  · intro X h0 h1 hu
    apply intersect_lines_complete _ _ _ _ X (ne _ _ hl) (ne _ _ hm)
    refine ⟨(conv _ _ _).mpr h0, (conv _ _ _).mpr h1, ?_⟩
    intro Y hY0 hY1
    exact hu Y ((conv _ _ _).mp hY0) ((conv _ _ _).mp hY1)
  · intro hdis
    apply intersect_lines_none_of_disjoint
    rintro ⟨X, h0, h1⟩
    exact hdis ⟨X, (conv _ _ _).mp h0, (conv _ _ _).mp h1⟩

/-! ## 2-D intersection (K) -/

/-- `x` is on the 2-D line through `p` and `q` -/
def OnLine2 (p q x : V2 K) : Prop := ∃ t : K, x.x = p.x + t * (q.x - p.x) ∧ x.y = p.y + t * (q.y - p.y)

def MeetExactlyAt2 (p0 q0 p1 q1 X : V2 K) : Prop :=
  OnLine2 p0 q0 X ∧ OnLine2 p1 q1 X ∧ ∀ Y, OnLine2 p0 q0 Y → OnLine2 p1 q1 Y → Y = X

/-- the determinant the code tests (`a[0][0]*a[1][1] - a[0][1]*a[1][0]`) is the cross product of the two
    direction vectors -/
theorem det_eq_cross (p0 q0 p1 q1 : V2 K) :
    (system2d p0 q0 p1 q1).1.det = (q0.x - p0.x) * (q1.y - p1.y) - (q0.y - p0.y) * (q1.x - p1.x) := by
  simp only [system2d, M2.det]; ring

/-- the linear system says: `x` is on both lines (cross-product form) -/
theorem system2d_iff (p0 q0 p1 q1 x : V2 K) :
    (system2d p0 q0 p1 q1).1.mulVec x = (system2d p0 q0 p1 q1).2 ↔
      (q0.x - p0.x) * (x.y - p0.y) - (q0.y - p0.y) * (x.x - p0.x) = 0 ∧
      (q1.x - p1.x) * (x.y - p1.y) - (q1.y - p1.y) * (x.x - p1.x) = 0 := by
  simp only [system2d, M2.mulVec]
  constructor
  · intro h
    have h1 := congrArg V2.x h
    have h2 := congrArg V2.y h
    simp only at h1 h2
    exact ⟨by linear_combination h1, by linear_combination h2⟩
  · rintro ⟨h1, h2⟩
    ext
    · simp only; linear_combination h1
    · simp only; linear_combination h2

theorem onLine2_of_cross (p q x : V2 K) (hpq : p ≠ q)
    (h : (q.x - p.x) * (x.y - p.y) - (q.y - p.y) * (x.x - p.x) = 0) : OnLine2 p q x := by
  have hdd : (q.x - p.x) * (q.x - p.x) + (q.y - p.y) * (q.y - p.y) ≠ 0 := by
    intro h0
    have h1 := mul_self_nonneg (q.x - p.x)
    have h2 := mul_self_nonneg (q.y - p.y)
    have hx : q.x - p.x = 0 := mul_self_eq_zero.mp (by linarith)
    have hy : q.y - p.y = 0 := mul_self_eq_zero.mp (by linarith)
    exact hpq (V2.ext (by linarith) (by linarith))
  obtain ⟨t, ht⟩ : ∃ t, t = ((x.x - p.x) * (q.x - p.x) + (x.y - p.y) * (q.y - p.y)) /
      ((q.x - p.x) * (q.x - p.x) + (q.y - p.y) * (q.y - p.y)) := ⟨_, rfl⟩
  have ht' : t * ((q.x - p.x) * (q.x - p.x) + (q.y - p.y) * (q.y - p.y)) =
      (x.x - p.x) * (q.x - p.x) + (x.y - p.y) * (q.y - p.y) := by rw [ht]; exact div_mul_cancel₀ _ hdd
  refine ⟨t, ?_, ?_⟩
  · apply mul_right_cancel₀ hdd
    linear_combination (-(q.y - p.y)) * h - (q.x - p.x) * ht'
  · apply mul_right_cancel₀ hdd
    linear_combination (q.x - p.x) * h - (q.y - p.y) * ht'

theorem cross_of_onLine2 (p q x : V2 K) (h : OnLine2 p q x) :
    (q.x - p.x) * (x.y - p.y) - (q.y - p.y) * (x.x - p.x) = 0 := by
  obtain ⟨t, h1, h2⟩ := h
  rw [h1, h2]; ring

/-- Cramer's rule satisfies the contract assumed of `np.linalg.solve` … -/
theorem cramer_solves (a : M2 K) (b : V2 K) (hd : a.det ≠ 0) :
    ∃ x, cramer a b = some x ∧ a.mulVec x = b := by
  refine ⟨_, rfl, ?_⟩
  unfold M2.mulVec
  ext
  · simp only; field_simp; simp only [M2.det]; ring
  · simp only; field_simp; simp only [M2.det]; ring

/-- … a non-singular 2×2 system has only one solution … -/
theorem solve_unique (a : M2 K) (b x y : V2 K) (hd : a.det ≠ 0) (hx : a.mulVec x = b) (hy : a.mulVec y = b) :
    x = y := by
  have h1 := congrArg V2.x (hx.trans hy.symm)
  have h2 := congrArg V2.y (hx.trans hy.symm)
  simp only [M2.mulVec] at h1 h2
  unfold M2.det at hd
  ext
  · apply mul_left_cancel₀ hd
    linear_combination a.a11 * h1 - a.a01 * h2
  · apply mul_left_cancel₀ hd
    linear_combination a.a00 * h2 - a.a10 * h1

/-- the contract under which `np.linalg.solve` enters the model: for a non-singular matrix it returns a
    solution of the system (it may do anything, including raising, for a singular one) -/
def SolveContract (solve : M2 K → V2 K → Option (V2 K)) : Prop :=
  ∀ a b, a.det ≠ 0 → ∃ x, solve a b = some x ∧ a.mulVec x = b

/-- … so `intersect_2d_lines` with any solver meeting the contract is the Cramer model. -/
theorem intersect2d_with_contract (solve : M2 K → V2 K → Option (V2 K)) (hc : SolveContract solve)
    (p0 q0 p1 q1 : V2 K) : intersect2dWith solve p0 q0 p1 q1 = intersect2d p0 q0 p1 q1 := by
  unfold intersect2d intersect2dWith
  simp only [beq_iff_eq]
  split_ifs with h
  · rfl
  · obtain ⟨x, hx, hxs⟩ := hc _ (system2d p0 q0 p1 q1).2 h
    obtain ⟨y, hy, hys⟩ := cramer_solves _ (system2d p0 q0 p1 q1).2 h
    rw [hx, hy, solve_unique _ _ x y h hxs hys]

/-- **None iff det = 0** (K): `intersect_2d_lines` returns None exactly when the directions are parallel
    (including a degenerate line) — no parallel pair slips through to the solver. -/
theorem intersect2d_none_iff (p0 q0 p1 q1 : V2 K) :
    intersect2d p0 q0 p1 q1 = none ↔
      (q0.x - p0.x) * (q1.y - p1.y) - (q0.y - p0.y) * (q1.x - p1.x) = 0 := by
  rw [← det_eq_cross]
  unfold intersect2d intersect2dWith
  simp only [beq_iff_eq]
  split_ifs with h
  · simp [h]
  · simp [h, cramer]

/-- **soundness** (K): a returned point lies on both lines. -/
theorem intersect2d_sound (p0 q0 p1 q1 X : V2 K) (h : intersect2d p0 q0 p1 q1 = some X) :
    OnLine2 p0 q0 X ∧ OnLine2 p1 q1 X := by
  unfold intersect2d intersect2dWith at h
  simp only [beq_iff_eq] at h
  split_ifs at h with hd
  obtain ⟨y, hy, hys⟩ := cramer_solves _ (system2d p0 q0 p1 q1).2 hd
  rw [hy] at h
  rw [← Option.some.inj h]
  obtain ⟨c0, c1⟩ := (system2d_iff p0 q0 p1 q1 y).mp hys
  rw [det_eq_cross] at hd
  have hne0 : p0 ≠ q0 := by
    rintro rfl; apply hd; ring
  have hne1 : p1 ≠ q1 := by
    rintro rfl; apply hd; ring
  exact ⟨onLine2_of_cross p0 q0 y hne0 c0, onLine2_of_cross p1 q1 y hne1 c1⟩

/-- **completeness** (K): two proper lines meeting in exactly one point get that point (unique point iff
    `det ≠ 0`). -/
theorem intersect2d_complete (p0 q0 p1 q1 X : V2 K) (hne0 : p0 ≠ q0) (hne1 : p1 ≠ q1)
    (hX : MeetExactlyAt2 p0 q0 p1 q1 X) : intersect2d p0 q0 p1 q1 = some X := by
  obtain ⟨h0, h1, huniq⟩ := hX
  cases hres : intersect2d p0 q0 p1 q1 with
  | some P =>
    obtain ⟨hP0, hP1⟩ := intersect2d_sound p0 q0 p1 q1 P hres
    rw [huniq P hP0 hP1]
  | none =>
    exfalso
    have hd := (intersect2d_none_iff p0 q0 p1 q1).mp hres
    -- Y = X + (q1 − p1) is a second common point
    have hY1 : OnLine2 p1 q1 ⟨X.x + (q1.x - p1.x), X.y + (q1.y - p1.y)⟩ := by
      obtain ⟨t, h1x, h1y⟩ := h1
      exact ⟨t + 1, by simp only; rw [h1x]; ring, by simp only; rw [h1y]; ring⟩
    have hY0 : OnLine2 p0 q0 ⟨X.x + (q1.x - p1.x), X.y + (q1.y - p1.y)⟩ := by
      apply onLine2_of_cross p0 q0 _ hne0
      have c := cross_of_onLine2 p0 q0 X h0
      simp only
      linear_combination c + hd
    have hYX := huniq _ hY0 hY1
    have hx := congrArg V2.x hYX
    have hy := congrArg V2.y hYX
    simp only at hx hy
    exact hne1 (V2.ext (by linarith) (by linarith))

/-- **None** (K): lines without a common point (parallel and distinct) give `None`. -/
theorem intersect2d_none_of_disjoint (p0 q0 p1 q1 : V2 K)
    (hdis : ¬ ∃ X, OnLine2 p0 q0 X ∧ OnLine2 p1 q1 X) : intersect2d p0 q0 p1 q1 = none := by
  cases hres : intersect2d p0 q0 p1 q1 with
  | none => rfl
  | some P => exact absurd ⟨P, intersect2d_sound p0 q0 p1 q1 P hres⟩ hdis

/-- **intersect_2d_spec** (K, Cramer), the three clauses together: `None` iff `det = 0`; a returned point is on
    both lines; the unique common point of two proper lines is returned. -/
theorem intersect_2d_spec (p0 q0 p1 q1 : V2 K) :
    (intersect2d p0 q0 p1 q1 = none ↔ (system2d p0 q0 p1 q1).1.det = 0) ∧
    (∀ X, intersect2d p0 q0 p1 q1 = some X → OnLine2 p0 q0 X ∧ OnLine2 p1 q1 X) ∧
    (∀ X, p0 ≠ q0 → p1 ≠ q1 → MeetExactlyAt2 p0 q0 p1 q1 X → intersect2d p0 q0 p1 q1 = some X) :=
  ⟨by rw [det_eq_cross]; exact intersect2d_none_iff p0 q0 p1 q1,
   fun X => intersect2d_sound p0 q0 p1 q1 X,
   fun X h0 h1 h => intersect2d_complete p0 q0 p1 q1 X h0 h1 h⟩

/-! ## shape checks of the intersection routines -/

/-- `intersect_lines` / `intersect_2d_lines` accept exactly four `(d,)` arrays -/
theorem point_shapes_ok_iff (d : Nat) (s0 s1 s2 s3 : List Nat) :
    pointShapesOk d s0 s1 s2 s3 = true ↔ s0 = [d] ∧ s1 = [d] ∧ s2 = [d] ∧ s3 = [d] := by
  have key : ∀ s : List Nat, shapeMatches s [some d] = true ↔ s = [d] := by
    intro s
    match s with
    | [] => simp [shapeMatches]
    | [a] => simp [shapeMatches]
    | a :: b :: t => simp [shapeMatches]
  unfold pointShapesOk
  simp only [Bool.and_eq_true, key]
  tauto

/-! ## non-vacuity -/

/-- the hypotheses are satisfiable and the conclusions non-trivial: concrete lines over ℚ, with `p0` on
    line 1 away from its defining points (the pattern the pre-fix code missed), a skew pair, a parallel
    pair, and the 2-D analogue; the closed form and the Line constructor evaluated on them. -/
example :
    (intersectLinesSpec (K := ℚ) ⟨-1, -2, -1⟩ ⟨2, 0, -1⟩ ⟨-1, -2, 0⟩ ⟨-1, -2, 1⟩).map V3.toList = some [-1, -2, -1] ∧
    (intersectLinesSpec (K := ℚ) ⟨-2, 2, -1⟩ ⟨2, -2, -1⟩ ⟨1, -1, -1⟩ ⟨2, 0, 2⟩).map V3.toList = some [1, -1, -1] ∧
    (intersectLinesSpec (K := ℚ) ⟨0, 0, 0⟩ ⟨1, 0, 0⟩ ⟨0, 1, 1⟩ ⟨0, 2, 1⟩).map V3.toList = none ∧
    (intersectLinesSpec (K := ℚ) ⟨0, 0, 0⟩ ⟨1, 0, 0⟩ ⟨0, 1, 0⟩ ⟨1, 1, 0⟩).map V3.toList = none ∧
    (intersect2d (K := ℚ) ⟨0, 0⟩ ⟨1, 1⟩ ⟨1, 0⟩ ⟨0, 1⟩).map (fun v => [v.x, v.y]) = some [1/2, 1/2] ∧
    (intersect2d (K := ℚ) ⟨-4, 4⟩ ⟨-1, 1⟩ ⟨1, -2⟩ ⟨-4, 3⟩).map (fun v => [v.x, v.y]) = none ∧
    (projectAlg (K := ℚ) ⟨1, 2, 3⟩ ⟨0, 0, 0⟩ ⟨0, 0, 2⟩).toList = [0, 0, 3] ∧
    (Line.mk? (1 / 100000000 : ℚ) ⟨0, 0, 0⟩ ⟨0, 0, 0⟩).toBool = false ∧
    (Line.mk? (1 / 100000000 : ℚ) ⟨0, 0, 0⟩ ⟨0, 1, 0⟩).toBool = true := by
  decide +kernel

example : MeetExactlyAt (K := ℚ) ⟨0, 0, 0⟩ ⟨1, 0, 0⟩ ⟨0, -1, 0⟩ ⟨0, 1, 0⟩ ⟨0, 0, 0⟩ := by
  refine ⟨⟨0, by ext <;> simp⟩, ⟨1 / 2, by ext <;> norm_num⟩, ?_⟩
  rintro Y ⟨s, hs⟩ ⟨t, ht⟩
  have hx := congrArg V3.x (hs.symm.trans ht)
  have hy := congrArg V3.y (hs.symm.trans ht)
  simp at hx hy
  rw [hs]
  ext <;> simp [hx]

example : SolveContract (K := ℚ) cramer := fun a b hd => cramer_solves a b hd

example : MeetExactlyAt2 (K := ℚ) ⟨0, 0⟩ ⟨1, 0⟩ ⟨0, -1⟩ ⟨0, 1⟩ ⟨0, 0⟩ := by
  refine ⟨⟨0, by norm_num⟩, ⟨1 / 2, by norm_num⟩, ?_⟩
  rintro Y ⟨s, hs1, hs2⟩ ⟨t, ht1, ht2⟩
  ext
  · simp only; rw [ht1]; norm_num
  · simp only; rw [hs2]; norm_num

/-! ## what the model takes from the source

`harness/translate/c18.py` reads the shortcut comparisons, the degeneracy tests, the sign rule, the determinant test and
the formulas of `intersect_lines`, `intersect_2d_lines` (`polliwog/line/_line_intersect.py`), `project_point_to_line`
(`polliwog/line/_line_functions.py`) and of `Line` (`polliwog/line/_line_object.py`) out of the source text into
`PW/Gen/LineFn.lean` on every run (local names replaced by what they were assigned; E = p0 - q0, F = p1 - q1,
G = p0 - p1, H = np.cross(F, G), K = np.cross(F, E), A, B are structural labels).  The theorems below state that each
generated value is the one the hand-written model `PW/Model/Line.lean` was written from — and, where the literal is a
Lean literal of the model, that the model computes with exactly the generated value — so that an edit of one of them in
the source breaks a proof obligation here. -/

/-- [text; semantic through `gen_intersect_lines`] the two shortcuts of `intersect_lines`: `p0` when `p0 == p1` or
    `p0 == q1`; `q0` when `q0 == p1` or (sic) `p0 == q1`.  `gen_intersect_lines` evaluates these generated pairs,
    operators and results inside the restated model function. -/
theorem gen_shortcuts :
    PW.Gen.LineFn.shortcutP0Pairs = ["p0 p1", "p0 q1"] ∧ PW.Gen.LineFn.shortcutP0Ops = [.eq, .eq] ∧
    PW.Gen.LineFn.shortcutP0Result = "p0" ∧
    PW.Gen.LineFn.shortcutQ0Pairs = ["p0 q1", "p1 q0"] ∧ PW.Gen.LineFn.shortcutQ0Ops = [.eq, .eq] ∧
    PW.Gen.LineFn.shortcutQ0Result = "q0" ∧
    PW.Gen.LineFn.shortcutP0PairList = [("p0", "p1"), ("p0", "q1")] ∧
    PW.Gen.LineFn.shortcutQ0PairList = [("p0", "q1"), ("p1", "q0")] := by decide

/-- the auxiliary vectors of `intersect_lines`: `e = p0 - q0`, `f = p1 - q1`, `g = p0 - p1`, `h = cross(f, g)`,
    `k = cross(f, e)`, and the general result `p0 + sign * (|h| / |k| * e)` (operands in the translator's normal order). -/
theorem gen_intersect_vectors :
    PW.Gen.LineFn.eSrc = "p0 - q0" ∧ PW.Gen.LineFn.fSrc = "p1 - q1" ∧ PW.Gen.LineFn.gSrc = "p0 - p1" ∧
    PW.Gen.LineFn.hSrc = "np.cross(F, G)" ∧ PW.Gen.LineFn.kSrc = "np.cross(F, E)" ∧ PW.Gen.LineFn.sameF = some true ∧
    PW.Gen.LineFn.resultSrc =
      "(-1 if np.dot(H, K) > 0 else 1) * E * (vg.magnitude(H) / vg.magnitude(K)) + p0" :=
  ⟨rfl, rfl, rfl, rfl, rfl, by decide, rfl⟩

section GenTies
variable {R : Type} [Field R] [LinearOrder R] [IsStrictOrderedRing R] [Sqrt R]

/-- the point an argument name of `intersect_lines` stands for -/
def pointOfName (p0 q0 p1 q1 : V3 R) (s : String) : Option (V3 R) :=
  if s = "p0" then some p0 else if s = "q0" then some q0 else if s = "p1" then some p1
  else if s = "q1" then some q1 else none

/-- what a `return <name>` of `intersect_lines` returns -/
def resultOfName (p0 q0 p1 q1 : V3 R) (s : String) : Option (Option (V3 R)) :=
  if s = "None" then some none else (pointOfName p0 q0 p1 q1 s).map some

/-- `np.all(x == y) or …` over the generated pairs and operators -/
def pairsHold (pt : String → Option (V3 R)) (pairs : List (String × String)) (ops : List PW.Gen.Cmp) : Bool :=
  (pairs.zip ops).any fun po =>
    match pt po.1.1, pt po.1.2 with
    | some x, some y => (match po.2 with | .eq => v3beq x y | .ne => !v3beq x y | _ => false)
    | _, _ => false

/-- [semantic] the whole of `intersect_lines`: the two shortcuts (generated pairs of arguments, operators, returned
    argument), the tests `k_ == 0` (None), `h_ == 0` (p0), `np.dot(g, k) != 0` (None) with their returned values, and the
    sign rule `-1 if np.dot(h, k) > 0 else +1`: the model's `intersectLines` IS the function obtained from the generated
    pairs, comparisons, bounds, results and signs.  (`resultOfName`, `pointOfName`: names ↔ arguments, by hand.) -/
theorem gen_intersect_lines :
    (PW.Gen.LineFn.kZeroCmp = .eq ∧ PW.Gen.LineFn.kZeroLhs = "vg.magnitude(K)" ∧ PW.Gen.LineFn.kZeroRhs = 0 ∧
      PW.Gen.LineFn.kZeroResult = "None") ∧
    (PW.Gen.LineFn.hZeroCmp = .eq ∧ PW.Gen.LineFn.hZeroLhs = "vg.magnitude(H)" ∧ PW.Gen.LineFn.hZeroRhs = 0 ∧
      PW.Gen.LineFn.hZeroResult = "p0") ∧
    (PW.Gen.LineFn.skewCmp = .ne ∧ PW.Gen.LineFn.skewLhs = "np.dot(G, K)" ∧ PW.Gen.LineFn.skewRhs = 0 ∧
      PW.Gen.LineFn.skewResult = "None") ∧
    (PW.Gen.LineFn.signCmp = .gt ∧ PW.Gen.LineFn.signLhs = "np.dot(H, K)" ∧ PW.Gen.LineFn.signRhs = 0 ∧
      PW.Gen.LineFn.signThen = -1 ∧ PW.Gen.LineFn.signElse = 1) ∧
    ∀ (p0 q0 p1 q1 : V3 R), some (intersectLines p0 q0 p1 q1) =
      (let pt := pointOfName p0 q0 p1 q1
       let res := resultOfName p0 q0 p1 q1
       let e := p0 - q0
       let f := p1 - q1
       if pairsHold pt PW.Gen.LineFn.shortcutP0PairList PW.Gen.LineFn.shortcutP0Ops then
         res PW.Gen.LineFn.shortcutP0Result
       else if pairsHold pt PW.Gen.LineFn.shortcutQ0PairList PW.Gen.LineFn.shortcutQ0Ops then
         res PW.Gen.LineFn.shortcutQ0Result
       else
         let g := p0 - p1
         let h := f.cross g
         let k := f.cross e
         if PW.Gen.LineFn.kZeroCmp.test k.norm ((PW.Gen.LineFn.kZeroRhs : Int) : R) then
           res PW.Gen.LineFn.kZeroResult
         else if PW.Gen.LineFn.hZeroCmp.test h.norm ((PW.Gen.LineFn.hZeroRhs : Int) : R) then
           res PW.Gen.LineFn.hZeroResult
         else if PW.Gen.LineFn.skewCmp.test (g.dot k) ((PW.Gen.LineFn.skewRhs : Int) : R) then
           res PW.Gen.LineFn.skewResult
         else
           let sign : R :=
             if PW.Gen.LineFn.signCmp.test (h.dot k) ((PW.Gen.LineFn.signRhs : Int) : R)
             then ((PW.Gen.LineFn.signThen : Int) : R) else ((PW.Gen.LineFn.signElse : Int) : R)
           some (some (p0 + V3.smul sign (V3.smul (h.norm / k.norm) e)))) := by
  refine ⟨⟨by decide, rfl, by decide, rfl⟩, ⟨by decide, rfl, by decide, rfl⟩, ⟨by decide, rfl, by decide, rfl⟩,
    ⟨by decide, rfl, by decide, by decide, by decide⟩, ?_⟩
  intro p0 q0 p1 q1
  have hc : v3beq p1 q0 = v3beq q0 p1 := by
    rw [Bool.eq_iff_iff, v3beq_iff, v3beq_iff]
    exact eq_comm
  have ho : (p0 = q1 ∨ q0 = p1) = (q0 = p1 ∨ p0 = q1) := propext Or.comm
  unfold intersectLines
  simp only [pairsHold, pointOfName, resultOfName, PW.Gen.LineFn.shortcutP0PairList, PW.Gen.LineFn.shortcutP0Ops,
    PW.Gen.LineFn.shortcutP0Result, PW.Gen.LineFn.shortcutQ0PairList, PW.Gen.LineFn.shortcutQ0Ops,
    PW.Gen.LineFn.shortcutQ0Result, PW.Gen.LineFn.kZeroResult, PW.Gen.LineFn.hZeroResult, PW.Gen.LineFn.skewResult,
    List.zip_cons_cons, List.zip_nil_right, List.any_cons, List.any_nil, String.reduceEq, if_true, if_false,
    Bool.or_false, hc, Option.map_some]
  simp [PW.Gen.Cmp.test, PW.Gen.LineFn.kZeroCmp, PW.Gen.LineFn.kZeroRhs, PW.Gen.LineFn.hZeroCmp,
    PW.Gen.LineFn.hZeroRhs, PW.Gen.LineFn.skewCmp, PW.Gen.LineFn.skewRhs, PW.Gen.LineFn.signCmp,
    PW.Gen.LineFn.signRhs, PW.Gen.LineFn.signThen, PW.Gen.LineFn.signElse]
  simp only [ho]
  split_ifs <;> rfl

end GenTies

/-- `intersect_2d_lines`: the system `a x = b` (rows `[-dy, dx]`, right-hand sides `p[1] * dx - dy * p[0]`), `None` when
    `a[0][0] * a[1][1] - a[0][1] * a[1][0] == 0`, else `np.linalg.solve(a, b)` (`None` if that raises): the model's
    `intersect2dWith` tests exactly the generated comparison on `M2.det`. -/
theorem gen_intersect_2d :
    (PW.Gen.LineFn.detCmp = .eq ∧ PW.Gen.LineFn.detSrc = "A[0][0] * A[1][1] - A[0][1] * A[1][0]" ∧
      PW.Gen.LineFn.detRhs = 0 ∧ PW.Gen.LineFn.detResult = "None" ∧ PW.Gen.LineFn.solveSrc = "np.linalg.solve(A, B)" ∧
      PW.Gen.LineFn.solveFailureResult = "None") ∧
    PW.Gen.LineFn.matrixSrc =
      "np.array([[p0[1] - q0[1], -p0[0] + q0[0]], [p1[1] - q1[1], -p1[0] + q1[0]]])" ∧
    PW.Gen.LineFn.rhsSrc =
      "np.array([(-p0[0] + q0[0]) * p0[1] - (-p0[1] + q0[1]) * p0[0], (-p1[0] + q1[0]) * p1[1] - (-p1[1] + q1[1]) * p1[0]])" ∧
    (∀ (solve : M2 K → V2 K → Option (V2 K)) (p0 q0 p1 q1 : V2 K), intersect2dWith solve p0 q0 p1 q1 =
      if PW.Gen.LineFn.detCmp.test (system2d p0 q0 p1 q1).1.det ((PW.Gen.LineFn.detRhs : Int) : K) then none
      else solve (system2d p0 q0 p1 q1).1 (system2d p0 q0 p1 q1).2) ∧
    ∀ (p0 q0 p1 q1 : V2 K), (system2d p0 q0 p1 q1).1 =
        ⟨p0.y - q0.y, -p0.x + q0.x, p1.y - q1.y, -p1.x + q1.x⟩ ∧
      (system2d p0 q0 p1 q1).2 =
        ⟨(-p0.x + q0.x) * p0.y - (-p0.y + q0.y) * p0.x, (-p1.x + q1.x) * p1.y - (-p1.y + q1.y) * p1.x⟩ := by
  refine ⟨⟨by decide, rfl, by decide, rfl, rfl, rfl⟩, rfl, rfl, ?_, ?_⟩
  · intro solve p0 q0 p1 q1
    simp [intersect2dWith, PW.Gen.Cmp.test, PW.Gen.LineFn.detCmp, PW.Gen.LineFn.detRhs]
  · intro p0 q0 p1 q1
    constructor
    · simp only [system2d]
      congr 1 <;> ring
    · simp only [system2d]
      congr 1 <;> ring

/-- `Line(point, along)` refuses `vg.almost_zero(along)` with `ValueError` and stores its arguments unchanged;
    `from_points`, `reference_points`, `intersect_line`, `project` and `project_point_to_line` are the expressions the
    model's `Line.mk?`, `fromPoints`, `referencePoints`, `intersectLine`, `project`, `projectPointToLine` were written
    from. -/
theorem gen_line_object :
    (PW.Gen.LineFn.ctorRefusesWhen = "vg.almost_zero(along)" ∧ PW.Gen.LineFn.ctorRaises = "ValueError" ∧
      PW.Gen.LineFn.ctorStores =
        ["self.reference_point = point", "self.along = along", "self.assume_normalized = assume_normalized"]) ∧
    PW.Gen.LineFn.fromPointsSrc = "cls(along=-p1 + p2, point=p1)" ∧
    PW.Gen.LineFn.referencePointsSrc = "(self.reference_point, self.along + self.reference_point)" ∧
    PW.Gen.LineFn.intersectLineSrc = "intersect_lines(*self.reference_points + other.reference_points)" ∧
    PW.Gen.LineFn.projectMethodSrc =
      "project_point_to_line(points=points, reference_points_of_lines=self.reference_point, vectors_along_lines=self.along)" ∧
    PW.Gen.LineFn.projectSrc =
      "reference_points_of_lines + vg.project(points - reference_points_of_lines, onto=vectors_along_lines)" ∧
    (∀ (atol : K) (point along : V3 K), Line.mk? atol point along =
      if almostZero atol along then .error .ValueError else .ok ⟨point, along⟩) ∧
    (∀ l : Line K, l.referencePoints = (l.ref, l.ref + l.along)) :=
  ⟨⟨rfl, rfl, by decide⟩, rfl, rfl, rfl, rfl, rfl, fun _ _ _ => rfl, fun _ => rfl⟩

/-- [text] what the symbolic reader does not interpret, pinned to the source the model was written from: for every
    function read by `harness/translate/c18.py` its decorators, its parameter list with defaults, the statements whose
    effect is not modelled (shape checks, imports, the attribute stores of `Line.__init__`, the `try` of
    `intersect_2d_lines` — any added in-place call, loop, `with`, `del`, … shows up here), and the number of other bindings
    of its name in the enclosing scope. -/
theorem gen_function_shapes :
    PW.Gen.LineFn.functionShapes =
      [("intersect_lines", [], "p0, q0, p1, q1", ["expr vg.shape.check(locals(), 'p0', (3,))", "expr vg.shape.check(locals(), 'p1', (3,))", "expr vg.shape.check(locals(), 'q0', (3,))", "expr vg.shape.check(locals(), 'q1', (3,))"], 0),
       ("intersect_2d_lines", [], "p0, q0, p1, q1", ["expr vg.shape.check(locals(), 'p0', (2,))", "expr vg.shape.check(locals(), 'p1', (2,))", "expr vg.shape.check(locals(), 'q0', (2,))", "expr vg.shape.check(locals(), 'q1', (2,))", "try"], 0),
       ("project_point_to_line", [], "points, reference_points_of_lines, vectors_along_lines", ["expr check_shape_any(reference_points_of_lines, (3,), (-1 if check_shape_any(points, (3,), (-1, 3), name='points') is None else check_shape_any(points, (3,), (-1, 3), name='points'), 3), name='reference_points_of_lines')", "expr vg.shape.check(locals(), 'vectors_along_lines', reference_points_of_lines.shape)"], 0),
       ("Line.__init__", [], "self, point, along, assume_normalized=False", ["expr vg.shape.check(locals(), 'along', (3,))", "expr vg.shape.check(locals(), 'point', (3,))", "store self.reference_point = point", "store self.along = along", "store self.assume_normalized = assume_normalized"], 0),
       ("Line.from_points", ["classmethod"], "cls, p1, p2", ["expr vg.shape.check(locals(), 'p1', (3,))", "expr vg.shape.check(locals(), 'p2', (3,))"], 0),
       ("Line.reference_points", ["property"], "self", [], 0),
       ("Line.intersect_line", [], "self, other", ["importfrom from ._line_intersect import intersect_lines"], 0),
       ("Line.project", [], "self, points", ["importfrom from ._line_functions import project_point_to_line"], 0)] := by rfl

end PW.C18
