/-
  C11 — rotation and affine matrix builders act as documented and invert exactly.

  Property theorems only (helper lemmas live in PW/Lemmas/C11*.lean).
  Part 1 (any linearly ordered field `K`, hence ℚ and ℝ): the four `transform_matrix_for_*` builders,
  `apply_transform`, `compose_transforms`.
  Part 2 (ℝ, with `Real.sqrt`, `Real.sin`, `Real.cos`, `Real.arccos`): `euler`, `rotation_from_up_and_look`.

  KNOWN FINDING (compose/order/non-affine, see known_findings.json and lean/witnesses/C11.json).  The property states
  the composition-order clause for *all* 4×4 matrices:
      `compose_order_full`            the unrestricted statement, kept as a `def … : Prop` — it is FALSE for the code;
      `compose_order`, `compose_order_list`
                                      its `_partial` form: proved under the hypothesis that the first matrix (every
                                      matrix of the list) is affine, i.e. has last row (0,0,0,1);
      `compose_order_affine_needed`, `compose_order_defect_witness`
                                      the defect witness: A = diag(1,1,1,2), B = translation (1,0,0), p = 0 gives
                                      (2,0,0) ≠ (1,0,0), hence `¬ compose_order_full ℚ`.
  The cause is that `apply_transform` drops the fourth coordinate without dividing by it; the code is not repaired.
  All theorems are about exact arithmetic (ℝ or an ordered field); see the note at `up_look_raises_iff` for what that
  means for nearly collinear floating-point inputs.
-/
import PW.Model.Affine
import PW.Model.Rotation
import PW.Gen.EulerAffine
import PW.Lemmas.Vec
import PW.Lemmas.C11
import PW.Lemmas.C11Real
import Mathlib.Tactic.Ring
import Mathlib.Tactic.LinearCombination
import Mathlib.Tactic.Linarith
import Mathlib.Tactic.FieldSimp
import Mathlib.Algebra.Order.Field.Basic

set_option linter.unusedSectionVars false

namespace PW.C11

/-! ## Part 1 — affine builders, apply, compose (every linearly ordered field) -/

section K
variable {K : Type} [Field K] [LinearOrder K] [IsStrictOrderedRing K]

/-! ### transform_matrix_for_rotation -/

/-- 4×4, last row `(0,0,0,1)`, no translation column: both returned matrices are homogeneous rotations,
    the first is the 3×3 argument padded (`_convert_33_to_44`), the second its transpose. -/
theorem rotation_4x4 (r : M3 K) :
    (rotationMatrix r).1 = M4.ofM3 r ∧ (rotationMatrix r).2 = M4.ofM3 r.transpose ∧
    IsAffine (rotationMatrix r).1 ∧ IsAffine (rotationMatrix r).2 := by
  refine ⟨rfl, rfl, rfl, rfl⟩

/-- it rotates about the origin: points and vectors are both sent to `R·p` (the origin stays fixed). -/
theorem rotation_action (r : M3 K) (p : V3 K) (asVector : Bool) :
    applyTransform (rotationMatrix r).1 p asVector = r.mulVec p ∧
    applyTransform (rotationMatrix r).2 p asVector = r.transpose.mulVec p := by
  constructor <;> (ext <;> cases asVector <;> simp [applyTransform, rotationMatrix] <;> mat_simp <;> ring)

/-- with `ret_inverse_matrix` the second matrix undoes the first in either order, for every rotation matrix
    (`RᵀR = 1`, `det R = 1`; the determinant is not needed). -/
theorem rotation_inverse (r : M3 K) (h : IsRotation r) :
    (rotationMatrix r).1.mul (rotationMatrix r).2 = M4.one ∧
    (rotationMatrix r).2.mul (rotationMatrix r).1 = M4.one := by
  have h1 : r.transpose.mul r = M3.one := h.1
  have h2 : r.mul r.transpose = M3.one := mul_transpose_of_transpose_mul r h1
  simp only [rotationMatrix, ofM3_transpose]
  rw [← ofM3_mul, ← ofM3_mul, h1, h2]
  exact ⟨ofM3_one, ofM3_one⟩

/-! ### transform_matrix_for_translation -/

theorem translation_4x4 (v : V3 K) :
    IsAffine (translationMatrix v).1 ∧ IsAffine (translationMatrix v).2 ∧
    (translationMatrix v).1.col3 = ⟨v.x, v.y, v.z, 1⟩ ∧
    (translationMatrix v).2 = (translationMatrix (-v)).1 := by
  refine ⟨rfl, rfl, rfl, rfl⟩

/-- it adds the vector to points and leaves vectors (`w = 0`) alone. -/
theorem translation_action (v p : V3 K) :
    applyTransform (translationMatrix v).1 p = p + v ∧
    applyTransform (translationMatrix v).1 p true = p ∧
    applyTransform (translationMatrix v).2 p = p - v := by
  refine ⟨?_, ?_, ?_⟩ <;> (ext <;> simp [applyTransform, translationMatrix] <;> mat_simp <;> ring)

theorem translation_inverse (v : V3 K) :
    (translationMatrix v).1.mul (translationMatrix v).2 = M4.one ∧
    (translationMatrix v).2.mul (translationMatrix v).1 = M4.one := by
  constructor <;> (ext <;> simp only [translationMatrix] <;> mat_simp <;> ring)

/-! ### transform_matrix_for_non_uniform_scale / _uniform_scale -/

/-- the `raise` decision logic: a zero factor is always rejected, a negative one unless `allow_flipping`;
    nothing else is rejected and the only exception class is `ValueError`. -/
theorem scale_raises_iff (x y z : K) (allowFlipping : Bool) :
    (∃ e, nonUniformScaleMatrix x y z allowFlipping = .error e) ↔
      (x = 0 ∨ y = 0 ∨ z = 0) ∨ (allowFlipping = false ∧ (x < 0 ∨ y < 0 ∨ z < 0)) := by
  unfold nonUniformScaleMatrix
  split_ifs with h1 h2
  · simp only [Bool.or_eq_true, beq_iff_eq] at h1
    constructor
    · intro _; left; tauto
    · intro _; exact ⟨_, rfl⟩
  · simp only [Bool.and_eq_true, Bool.not_eq_true', Bool.or_eq_true, decide_eq_true_eq] at h2
    constructor
    · intro _; right; exact ⟨h2.1, by tauto⟩
    · intro _; exact ⟨_, rfl⟩
  · simp only [Bool.or_eq_true, beq_iff_eq, not_or] at h1
    simp only [Bool.and_eq_true, Bool.not_eq_true', Bool.or_eq_true, decide_eq_true_eq, not_and] at h2
    constructor
    · rintro ⟨e, he⟩; cases he
    · rintro (h | ⟨ha, hn⟩)
      · tauto
      · exact (h2 ha (by tauto)).elim

theorem scale_error_is_ValueError (x y z : K) (allowFlipping : Bool) (e : Err)
    (h : nonUniformScaleMatrix x y z allowFlipping = .error e) : e = .ValueError := by
  unfold nonUniformScaleMatrix at h
  split_ifs at h <;> cases h <;> rfl

/-- accepted factors give the diagonal matrix and the diagonal matrix of reciprocals. -/
theorem scale_ok (x y z : K) (allowFlipping : Bool) (hx : x ≠ 0) (hy : y ≠ 0) (hz : z ≠ 0)
    (hpos : allowFlipping = true ∨ (0 < x ∧ 0 < y ∧ 0 < z)) :
    nonUniformScaleMatrix x y z allowFlipping = .ok (diag4 x y z, diag4 (1 / x) (1 / y) (1 / z)) := by
  unfold nonUniformScaleMatrix
  have h1 : (x == 0 || y == 0 || z == 0) = false := by simp [hx, hy, hz]
  have h2 : (!allowFlipping && (decide (x < 0) || decide (y < 0) || decide (z < 0))) = false := by
    rcases hpos with h | ⟨h1, h2, h3⟩
    · simp [h]
    · simp [not_lt.mpr h1.le, not_lt.mpr h2.le, not_lt.mpr h3.le]
  simp [h1, h2]

/-- shape / last row / action: each coordinate is multiplied by its factor (points and vectors alike). -/
theorem scale_4x4 (x y z : K) (p : V3 K) (asVector : Bool) :
    IsAffine (diag4 x y z) ∧ applyTransform (diag4 x y z) p asVector = ⟨x * p.x, y * p.y, z * p.z⟩ := by
  refine ⟨rfl, ?_⟩
  ext <;> cases asVector <;> simp [applyTransform, diag4] <;> mat_simp <;> ring

/-- the returned inverse undoes the forward matrix in either order (all non-zero factors, negative included). -/
theorem scale_inverse (x y z : K) (hx : x ≠ 0) (hy : y ≠ 0) (hz : z ≠ 0) :
    (diag4 x y z).mul (diag4 (1 / x) (1 / y) (1 / z)) = M4.one ∧
    (diag4 (1 / x) (1 / y) (1 / z)).mul (diag4 x y z) = M4.one := by
  constructor <;> (ext <;> simp only [diag4] <;> mat_simp <;> field_simp <;> ring)

/-- the uniform builder is the non-uniform one with three equal factors — same matrices, same rejections. -/
theorem uniform_scale_eq (s : K) (allowFlipping : Bool) :
    uniformScaleMatrix s allowFlipping = nonUniformScaleMatrix s s s allowFlipping := by
  unfold uniformScaleMatrix nonUniformScaleMatrix
  by_cases h0 : s = 0
  · simp [h0]
  · by_cases hn : s < 0 <;> cases allowFlipping <;> simp [h0, hn]

/-! ### apply_transform -/

/-- `w = 1`: `p ↦ M₃ₓ₃·p + t` (first three rows; no division by the fourth coordinate). -/
theorem apply_point (m : M4 K) (p : V3 K) :
    applyTransform m p false =
      ⟨m.r0.x * p.x + m.r0.y * p.y + m.r0.z * p.z + m.r0.w,
       m.r1.x * p.x + m.r1.y * p.y + m.r1.z * p.z + m.r1.w,
       m.r2.x * p.x + m.r2.y * p.y + m.r2.z * p.z + m.r2.w⟩ := by
  ext <;> simp [applyTransform] <;> mat_simp <;> ring

/-- `w = 0` (`treat_input_as_vector`): the translation column is ignored. -/
theorem apply_vector (m : M4 K) (p : V3 K) :
    applyTransform m p true =
      ⟨m.r0.x * p.x + m.r0.y * p.y + m.r0.z * p.z,
       m.r1.x * p.x + m.r1.y * p.y + m.r1.z * p.z,
       m.r2.x * p.x + m.r2.y * p.y + m.r2.z * p.z⟩ := by
  ext <;> simp [applyTransform] <;> mat_simp <;> ring

/-- a stack is transformed row by row, `discard_z_coord` keeps the first two coordinates of the same result. -/
theorem apply_stack (m : M4 K) (ps : List (V3 K)) (asVector : Bool) (i : Nat) (h : i < ps.length) :
    (applyTransformMany m ps asVector).length = ps.length ∧
    (applyTransformMany m ps asVector)[i]? = some (applyTransform m ps[i] asVector) := by
  simp [applyTransformMany, List.getElem?_eq_getElem h]

theorem apply_discard_z (m : M4 K) (p : V3 K) (asVector : Bool) :
    applyTransformOut m p false asVector =
      [(applyTransform m p asVector).x, (applyTransform m p asVector).y, (applyTransform m p asVector).z] ∧
    applyTransformOut m p true asVector = [(applyTransform m p asVector).x, (applyTransform m p asVector).y] :=
  ⟨rfl, rfl⟩

/-! ### compose_transforms -/

theorem compose_nil_identity (p : V3 K) (asVector : Bool) :
    composeTransforms ([] : List (M4 K)) = M4.one ∧ applyTransform (M4.one : M4 K) p asVector = p := by
  refine ⟨rfl, ?_⟩
  ext <;> cases asVector <;> simp [applyTransform] <;> mat_simp <;> ring

/-- matrix level: `compose_transforms(t₁,…,tₙ, t) = t · compose_transforms(t₁,…,tₙ)`; two arguments: `B·A`. -/
theorem compose_matrix (ts : List (M4 K)) (t a b : M4 K) :
    composeTransforms (ts ++ [t]) = t.mul (composeTransforms ts) ∧ composeTransforms [a, b] = b.mul a ∧
    composeTransforms [a] = a :=
  ⟨compose_append_singleton ts t, rfl, rfl⟩

/-- the composition-order clause exactly as the property states it, for ALL 4×4 matrices: applying
    `compose(A, B)` to `p` equals applying `B` to the result of applying `A` to `p`.  This full statement is FALSE for
    the code (`compose_order_defect_witness`); what holds is the affine form `compose_order` / `compose_order_list`. -/
def compose_order_full (K : Type) [Field K] [LinearOrder K] [IsStrictOrderedRing K] : Prop :=
  ∀ (a b : M4 K) (p : V3 K) (asVector : Bool),
    applyTransform (composeTransforms [a, b]) p asVector =
      applyTransform b (applyTransform a p asVector) asVector

/-- (`_partial` form of `compose_order_full`: affine first matrix.)
    left to right: applying `compose(A, B)` to `p` is applying `B` to the result of applying `A` to `p`
    (for an affine `A`; `apply_transform` drops the fourth coordinate without dividing). -/
theorem compose_order (a b : M4 K) (ha : IsAffine a) (p : V3 K) (asVector : Bool) :
    applyTransform (composeTransforms [a, b]) p asVector =
      applyTransform b (applyTransform a p asVector) asVector :=
  apply_mul b a ha p asVector

/-- (`_partial` form of `compose_order_full` for lists: every matrix affine.)
    any finite list: the composite applies the listed transforms one after the other, first to last. -/
theorem compose_order_list (ts : List (M4 K)) (h : ∀ t ∈ ts, IsAffine t) (p : V3 K) (asVector : Bool) :
    applyTransform (composeTransforms ts) p asVector =
      ts.foldl (fun q t => applyTransform t q asVector) p ∧ IsAffine (composeTransforms ts) :=
  apply_compose_list ts h p asVector

/-- the affine hypothesis of `compose_order` cannot be dropped: `apply_transform` discards the fourth coordinate
    without dividing, so for a projective first factor (`A = diag(1,1,1,2)`, `B` = translation by `(1,0,0)`,
    `p = 0`) the composite sends `p` to `(2,0,0)` but `B` after `A` sends it to `(1,0,0)`. -/
theorem compose_order_affine_needed :
    ∃ (a b : M4 ℚ) (p : V3 ℚ), ¬ IsAffine a ∧
      applyTransform (composeTransforms [a, b]) p ≠ applyTransform b (applyTransform a p) := by
  refine ⟨⟨⟨1, 0, 0, 0⟩, ⟨0, 1, 0, 0⟩, ⟨0, 0, 1, 0⟩, ⟨0, 0, 0, 2⟩⟩, (translationMatrix ⟨1, 0, 0⟩).1, ⟨0, 0, 0⟩, ?_, ?_⟩
  · intro h
    have := congrArg V4.w h
    norm_num at this
  · intro h
    have := congrArg V3.x h
    simp [compose_pair, applyTransform, translationMatrix] at this
    revert this
    mat_simp
    norm_num

/-- defect witness: the unrestricted composition-order clause of the property is false (over ℚ, hence for the
    code on exactly representable inputs: `apply_transform(compose_transforms(A, B))(0) = (2,0,0)` but
    `apply_transform(B)(apply_transform(A)(0)) = (1,0,0)`). -/
theorem compose_order_defect_witness : ¬ compose_order_full ℚ := by
  intro h
  obtain ⟨a, b, p, -, hne⟩ := compose_order_affine_needed
  exact hne (h a b p false)

/-! ### Part 0 — what the translator read from the source is what the model uses

(these obligations are the ones a source edit breaks; the generated file is PW/Gen/EulerAffine.lean) -/

/-- `euler`: the three literal matrices, left multiplication, `cos`/`sin` of the angle, start at the identity,
    `zip(xyz, order)`, degrees through `np.radians`. -/
theorem gen_euler (c s : K) :
    Gen.eulerElems c s = [("x", elemRotCS .x c s), ("y", elemRotCS .y c s), ("z", elemRotCS .z c s)] ∧
    Gen.eulerLeftMultiplies = true ∧ Gen.eulerCosSin = true ∧ Gen.eulerStartsAtIdentity = true ∧
    Gen.eulerZipsAnglesWithOrder = true ∧ Gen.eulerDegreesViaRadians = true ∧
    Gen.eulerReturnsAccumulator = true := by
  refine ⟨?_, rfl, rfl, rfl, rfl, rfl, rfl⟩
  simp only [Gen.eulerElems, elemRotCS, natLit_eq, Nat.cast_zero, Nat.cast_one]

/-- `rotation_from_up_and_look`: the statements read from the source (three norm guards raising `ValueError`,
    `y = up/‖up‖`, `z = look − (look·y) y` normalised, `x = y × z`, rows `[x, y, z]`) are the model. -/
theorem gen_up_look [Sqrt K] (up look : V3 K) :
    Gen.upLookRows up look =
      (match rotationFromUpAndLook up look with
        | .ok R => .ok [R.r0, R.r1, R.r2]
        | .error e => .error e.name) ∧
    Gen.upLookConvertsToFloat64 = true := by
  refine ⟨?_, rfl⟩
  cases h1 : (V3.norm up == 0)
  case true =>
    rw [uplook_exit1 up look h1]
    simp only [Gen.upLookRows, Gen.natLit, h1, if_true]; rfl
  case false =>
    cases h2 : (V3.norm look == 0)
    case true =>
      rw [uplook_exit2 up look h1 h2]
      simp only [Gen.upLookRows, Gen.natLit, h1, h2, if_true, Bool.false_eq_true, if_false]; rfl
    case false =>
      cases h3 : (V3.norm (uplookZ0 up look) == 0)
      case true =>
        rw [uplook_exit3 up look h1 h2 h3]
        unfold uplookZ0 at h3
        simp only [Gen.upLookRows, Gen.natLit, h1, h2, h3, if_true, Bool.false_eq_true, if_false]; rfl
      case false =>
        rw [uplook_exit4 up look h1 h2 h3]
        unfold uplookZ0 at h3 ⊢
        simp only [Gen.upLookRows, Gen.natLit, h1, h2, h3, Bool.false_eq_true, if_false]

/-- the `raise` guards of the two scale builders are the model's rejection conditions (all `ValueError`), the
    factors go on the diagonal in the order x, y, z, the inverse has the reciprocals, and the uniform builder
    forwards `(s, s, s, allow_flipping, ret_inverse_matrix)` (so it rejects when its own guards or the forwarded
    call's guards fire). -/
theorem gen_scale (x y z : K) (allowFlipping : Bool) :
    (((Gen.nonUniformScaleGuards x y z allowFlipping).any (·.1) = true) ↔
      ∃ e, nonUniformScaleMatrix x y z allowFlipping = .error e) ∧
    ((((Gen.uniformScaleGuards x allowFlipping).any (·.1) ||
        (Gen.nonUniformScaleGuards x x x allowFlipping).any (·.1)) = true) ↔
      ∃ e, uniformScaleMatrix x allowFlipping = .error e) ∧
    (∀ g ∈ Gen.nonUniformScaleGuards x y z allowFlipping ++ Gen.uniformScaleGuards x allowFlipping,
      g.2 = "ValueError") ∧
    Gen.nonUniformScaleOrder = ["x_factor", "y_factor", "z_factor"] ∧
    Gen.nonUniformScaleForwardEntry x = some x ∧ Gen.nonUniformScaleInverseEntry x = some (1 / x) ∧
    Gen.uniformScaleForwards = ["scale_factor", "scale_factor", "scale_factor", "allow_flipping=allow_flipping",
      "ret_inverse_matrix=ret_inverse_matrix"] := by
  refine ⟨?_, ?_, ?_, rfl, rfl, ?_, rfl⟩
  · rw [scale_raises_iff]
    simp only [Gen.nonUniformScaleGuards, natLit_eq, Nat.cast_zero, List.any_cons, List.any_nil, Bool.or_false,
      Bool.or_eq_true, Bool.and_eq_true, Bool.not_eq_true', beq_iff_eq, decide_eq_true_eq]
    tauto
  · rw [uniform_scale_eq, scale_raises_iff]
    simp only [Gen.uniformScaleGuards, Gen.nonUniformScaleGuards, natLit_eq, Nat.cast_zero, List.any_cons,
      List.any_nil, Bool.or_false,
      Bool.or_eq_true, Bool.and_eq_true, Bool.not_eq_true', beq_iff_eq, decide_eq_true_eq]
    tauto
  · intro g hg
    simp only [Gen.nonUniformScaleGuards, Gen.uniformScaleGuards, List.cons_append, List.nil_append,
      List.mem_cons, List.not_mem_nil, or_false] at hg
    rcases hg with rfl | rfl | rfl | rfl <;> rfl
  · simp only [Gen.nonUniformScaleInverseEntry, natLit_eq, Nat.cast_one]

/-- translation column / its negation, rotation inverse = transpose, 3×3 → 4×4 padding, the homogeneous
    coordinate of `apply_transform`, and `compose_transforms = reduce(np.dot, reversed(...))` with the identity
    for no arguments. -/
theorem gen_affine_apply_compose (t : K) (asVector : Bool) :
    Gen.translationForwardEntry t = some t ∧ Gen.translationInverseEntry t = some (-t) ∧
    Gen.rotationInverseIsTranspose = true ∧ Gen.convertPadsAndSetsCorner = true ∧
    Gen.applyHomogeneousCoordinate asVector = some (if asVector then (0 : K) else 1) ∧
    Gen.applyMultipliesFromLeft = true ∧
    Gen.composeReducesDotOverReversed = true ∧ Gen.composeEmptyIsIdentity = true := by
  refine ⟨rfl, rfl, rfl, rfl, ?_, rfl, rfl, rfl⟩
  simp only [Gen.applyHomogeneousCoordinate, natLit_eq, Nat.cast_zero, Nat.cast_one]

/-- non-vacuity: concrete factors, a translation and a rotation about z by 90°. -/
example :
    IsRotation (⟨⟨0, -1, 0⟩, ⟨1, 0, 0⟩, ⟨0, 0, 1⟩⟩ : M3 ℚ) ∧
    nonUniformScaleMatrix (2 : ℚ) (-1) 3 true = .ok (diag4 2 (-1) 3, diag4 (1 / 2) (1 / -1) (1 / 3)) ∧
    nonUniformScaleMatrix (2 : ℚ) (-1) 3 false = .error .ValueError ∧
    applyTransform (composeTransforms [(translationMatrix (⟨1, 0, 0⟩ : V3 ℚ)).1,
      (rotationMatrix (⟨⟨0, -1, 0⟩, ⟨1, 0, 0⟩, ⟨0, 0, 1⟩⟩ : M3 ℚ)).1]) ⟨0, 0, 0⟩ = ⟨0, 1, 0⟩ := by
  refine ⟨⟨?_, ?_⟩, ?_, ?_, ?_⟩
  · ext <;> mat_simp <;> norm_num
  · mat_simp; norm_num
  · exact scale_ok 2 (-1) 3 true (by norm_num) (by norm_num) (by norm_num) (Or.inl rfl)
  · norm_num [nonUniformScaleMatrix]
  · rw [compose_order _ _ (translation_4x4 _).1]
    ext <;> simp [applyTransform, translationMatrix, rotationMatrix] <;> mat_simp <;> norm_num

end K

/-! ## Part 2 — euler and rotation_from_up_and_look over ℝ -/

section R

/-! ### euler -/

/-- each elementary matrix is a proper rotation … -/
theorem elem_rotation_proper (a : EulerAxis) (θ : ℝ) : IsRotation (elemRot a θ) := by
  apply elemRotCS_rotation
  rw [cos_real, sin_real]
  have := Real.cos_sq_add_sin_sq θ
  linear_combination this

/-- … namely the right-handed rotation by `θ` about its axis: the axis is fixed and the other two basis vectors
    turn from the next axis towards the one after it (x: y→z, y: z→x, z: x→y). -/
theorem elem_rotation_right_handed (θ : ℝ) :
    (elemRot .x θ).mulVec ⟨1, 0, 0⟩ = ⟨1, 0, 0⟩ ∧
    (elemRot .x θ).mulVec ⟨0, 1, 0⟩ = ⟨0, Real.cos θ, Real.sin θ⟩ ∧
    (elemRot .x θ).mulVec ⟨0, 0, 1⟩ = ⟨0, -Real.sin θ, Real.cos θ⟩ ∧
    (elemRot .y θ).mulVec ⟨0, 1, 0⟩ = ⟨0, 1, 0⟩ ∧
    (elemRot .y θ).mulVec ⟨0, 0, 1⟩ = ⟨Real.sin θ, 0, Real.cos θ⟩ ∧
    (elemRot .y θ).mulVec ⟨1, 0, 0⟩ = ⟨Real.cos θ, 0, -Real.sin θ⟩ ∧
    (elemRot .z θ).mulVec ⟨0, 0, 1⟩ = ⟨0, 0, 1⟩ ∧
    (elemRot .z θ).mulVec ⟨1, 0, 0⟩ = ⟨Real.cos θ, Real.sin θ, 0⟩ ∧
    (elemRot .z θ).mulVec ⟨0, 1, 0⟩ = ⟨-Real.sin θ, Real.cos θ, 0⟩ := by
  refine ⟨?_, ?_, ?_, ?_, ?_, ?_, ?_, ?_, ?_⟩ <;>
    (ext <;> simp only [elemRot, elemRotCS, cos_real, sin_real] <;> mat_simp <;> ring)

/-- the loop of `euler` is a left-multiplying fold of elementary rotations over `zip(xyz, order)` -/
theorem euler_is_fold (angles : List ℝ) (order : List EulerAxis) :
    eulerRad angles order = (angles.zip order).foldl (fun r p => (elemRot p.2 p.1).mul r) M3.one := by
  unfold eulerRad
  congr 1
  funext r p
  exact eulerStepCS_eq r p.2 _ _

/-- `euler` returns a proper rotation, for every list of angles, every axis order and both units. -/
theorem euler_proper (angles : List ℝ) (order : List EulerAxis) (deg : Bool) :
    IsRotation (euler angles order deg) := by
  unfold euler
  rw [euler_is_fold]
  exact foldl_mul_rotation (fun p : ℝ × EulerAxis => elemRot p.2 p.1) (fun p => elem_rotation_proper p.2 p.1) _ _
    rotation_one

/-- product order: applying `euler(xyz, order)` to a vector is applying the listed axis rotations one after
    the other in the given order (the first listed axis acts first, i.e. is the rightmost factor). -/
theorem euler_order (angles : List ℝ) (order : List EulerAxis) (v : V3 ℝ) :
    (eulerRad angles order).mulVec v =
      (angles.zip order).foldl (fun v p => (elemRot p.2 p.1).mulVec v) v := by
  rw [euler_is_fold]
  exact foldl_mul_mulVec (fun p : ℝ × EulerAxis => elemRot p.2 p.1) _ v

/-- the familiar three-angle form: `euler([a, b, c], "pqr") = E_r(c) · E_q(b) · E_p(a)`. -/
theorem euler_three (a b c : ℝ) (p q r : EulerAxis) :
    eulerRad [a, b, c] [p, q, r] = (elemRot r c).mul ((elemRot q b).mul (elemRot p a)) := by
  rw [euler_is_fold]
  simp only [List.zip_cons_cons, List.zip_nil_right, List.foldl_cons, List.foldl_nil]
  rw [M3.mul_one]

/-- degrees and radians agree: `units="deg"` is `units="rad"` on `θ·π/180`. -/
theorem euler_units (angles : List ℝ) (order : List EulerAxis) :
    euler angles order true = euler (angles.map fun θ => θ * (Real.pi / 180)) order false ∧
    ∀ θ : ℝ, npRadians θ = θ * (Real.pi / 180) := by
  have hr : ∀ θ : ℝ, npRadians θ = θ * (Real.pi / 180) := by
    intro θ
    simp only [npRadians, eulerPi, acos_real, Real.arccos_neg_one]
  refine ⟨?_, hr⟩
  simp only [euler, if_true, Bool.false_eq_true, if_false]
  congr 1
  exact List.map_congr_left (fun θ _ => hr θ)

/-! ### rotation_from_up_and_look -/

/-- the `raise` decision logic: rejected exactly for a zero `up`, a zero `look`, or collinear `up`, `look`;
    the exception is a `ValueError`.

    Limitation (exact arithmetic): this is a statement over ℝ.  In floating point the third guard tests
    `‖look − (look·y) y‖ == 0` on rounded values, so for collinear inputs whose unit vector is not exactly
    representable (e.g. `up = (1,1,1)`, `look = (3,3,3)`) the residual is a tiny non-zero vector, no `ValueError` is
    raised and a singular (det 0) matrix is returned.  Such inputs are outside the property's quantifier (directions
    differing by more than 1e-6 rad); the generators keep that margin (float stream: angle ≥ 2e-6 rad; exactly
    collinear pairs only along a coordinate axis, where the float arithmetic is exact), so the correspondence check
    compares the collinear `raise` only where model and code provably agree. -/
theorem up_look_raises_iff (up look : V3 ℝ) :
    rotationFromUpAndLook up look = .error .ValueError ↔
      (up = V3.zero ∨ look = V3.zero ∨ up.cross look = V3.zero) := by
  by_cases hu : up = V3.zero
  · rw [uplook_exit1 up look ((norm_beq_zero up).mpr hu)]; simp [hu]
  have hu' := (norm_beq_zero_false up).mpr hu
  by_cases hl : look = V3.zero
  · rw [uplook_exit2 up look hu' ((norm_beq_zero look).mpr hl)]; simp [hl]
  have hl' := (norm_beq_zero_false look).mpr hl
  obtain ⟨hup, hy⟩ := normalize_spec up hu
  have hn : up.norm ≠ 0 := (norm_pos up hu).ne'
  have key : (uplookZ0 up look).normSq * (up.norm * up.norm) = (up.cross look).normSq :=
    z0_normSq up look (V3.sdiv up up.norm) up.norm hup hy
  have hcz : uplookZ0 up look = V3.zero ↔ up.cross look = V3.zero := by
    rw [← normSq_eq_zero_iff, ← normSq_eq_zero_iff (up.cross look), ← key]
    constructor
    · intro h; rw [h, zero_mul]
    · intro h
      rcases mul_eq_zero.mp h with h | h
      · exact h
      · exact absurd h (mul_ne_zero hn hn)
  by_cases hc : up.cross look = V3.zero
  · rw [uplook_exit3 up look hu' hl' ((norm_beq_zero _).mpr (hcz.mpr hc))]; simp [hc]
  · rw [uplook_exit4 up look hu' hl' ((norm_beq_zero_false _).mpr (fun h => hc (hcz.mp h)))]
    simp [hu, hl, hc]

theorem up_look_error_is_ValueError (up look : V3 ℝ) (e : Err)
    (h : rotationFromUpAndLook up look = .error e) : e = .ValueError := by
  by_cases h1 : (up.norm == 0) = true
  · rw [uplook_exit1 up look h1] at h; cases h; rfl
  rw [Bool.not_eq_true] at h1
  by_cases h2 : (look.norm == 0) = true
  · rw [uplook_exit2 up look h1 h2] at h; cases h; rfl
  rw [Bool.not_eq_true] at h2
  by_cases h3 : ((uplookZ0 up look).norm == 0) = true
  · rw [uplook_exit3 up look h1 h2 h3] at h; cases h; rfl
  rw [Bool.not_eq_true] at h3
  rw [uplook_exit4 up look h1 h2 h3] at h; cases h

/-- for non-zero, non-collinear `up`, `look`: the result is a proper rotation taking `up` to `+y` (at its
    length) and `look` into the y–z half-plane with positive `z`. -/
theorem up_look_spec (up look : V3 ℝ) (hu : up ≠ V3.zero) (hl : look ≠ V3.zero)
    (hc : up.cross look ≠ V3.zero) :
    ∃ R, rotationFromUpAndLook up look = .ok R ∧ IsRotation R ∧
      R.mulVec up = ⟨0, up.norm, 0⟩ ∧ (R.mulVec look).x = 0 ∧ 0 < (R.mulVec look).z := by
  have hu' := (norm_beq_zero_false up).mpr hu
  have hl' := (norm_beq_zero_false look).mpr hl
  obtain ⟨hup, hy⟩ := normalize_spec up hu
  have hn : up.norm ≠ 0 := (norm_pos up hu).ne'
  have key : (uplookZ0 up look).normSq * (up.norm * up.norm) = (up.cross look).normSq :=
    z0_normSq up look (V3.sdiv up up.norm) up.norm hup hy
  have hz0 : uplookZ0 up look ≠ V3.zero := by
    intro h
    apply hc
    rw [← normSq_eq_zero_iff, ← key, (normSq_eq_zero_iff _).mpr h, zero_mul]
  obtain ⟨hzv, hz⟩ := normalize_spec _ hz0
  have hm := norm_pos _ hz0
  obtain ⟨hyz, h1, h2⟩ := uplook_frame up look _ _ _ _ hup hy hz hzv hm.ne'
  refine ⟨_, uplook_exit4 up look hu' hl' ((norm_beq_zero_false _).mpr hz0), frame_yz _ _ hy hz hyz, h1, ?_, ?_⟩
  · rw [h2]
  · rw [h2]; exact hm

/-- hypotheses are satisfiable: `up = 2y`, `look = (0,1,3)` gives the identity frame. -/
example : (⟨0, 2, 0⟩ : V3 ℝ) ≠ V3.zero ∧ (⟨0, 1, 3⟩ : V3 ℝ) ≠ V3.zero ∧
    (⟨0, 2, 0⟩ : V3 ℝ).cross ⟨0, 1, 3⟩ ≠ V3.zero := by
  refine ⟨?_, ?_, ?_⟩ <;> intro h <;> have := V3.ext_iff.mp h <;> norm_num [V3.zero, V3.cross] at this

end R

end PW.C11
