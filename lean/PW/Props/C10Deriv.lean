/-
  C10Deriv — the Jacobian returned by `rodrigues_vector_to_rotation_matrix(r, calculate_jacobian=True)` IS the
  derivative of the returned rotation matrix with respect to the rotation vector (outside the `theta < eps` shortcut).

  proved in full
    `jacobian_is_derivative_holds`: `PW.C10.jacobian_is_derivative eps` for every `0 ≤ eps` (the code's is `2⁻⁵²`):
      for every `r` with `eps < ‖r‖`, every coordinate direction `i` and each of the 9 matrix entries, the
      `t`-derivative at `0` of the entry of `(rodriguesForward eps (r + t·eᵢ)).R` exists and equals the entry of block `i`
      of `(rodriguesForward eps r).jac`.
    `forward_directional_derivative` (stronger): along ANY direction `d` the matrix is entrywise differentiable with
      derivative `d.x·J₀ + d.y·J₁ + d.z·J₂` (`J` the model's Jacobian blocks) — i.e. the returned 3×9 array is the full
      differential.
    `jacobian_is_derivative_neg_eps_false`: the hypothesis `0 ≤ eps` cannot be dropped from the statement as written:
      for `eps < 0` the statement also covers `r = 0` (`eps < ‖0‖`), where the model takes `itheta = 1`, `k = 0` and returns
      the zero Jacobian, while the derivative of `R₂₁` along `e₀` is `1`.  (Not reachable in the code: `eps` is
      `np.finfo(np.double).eps > 0`.)
  route: near `t = 0` the norm stays above `eps` (continuity), so the result is given by the main-branch closed formula
    (`forward_main`); that formula is differentiated along the curve by the product/chain rules
    (`PW.Lemmas.RodDeriv.rod_curve_deriv`, through `√`, `cos`, `sin`, `1/θ`); the resulting expression `rodDiff r d`
    equals the model's Jacobian formula by a field identity (`rodDiff_eq_jac`; no trigonometric identity is needed).
-/
import PW.Props.C10
import PW.Lemmas.RodDeriv

set_option linter.unusedSectionVars false

namespace PW.C10

open PW.Rod Filter Topology

/-- outside the shortcut (`eps < ‖r‖`, `0 ≤ eps`) the model returns the closed formulas: Rodrigues' formula and the
    three analytic Jacobian rows, with `c = cos‖r‖`, `s = sin‖r‖`, `itheta = 1/‖r‖`, `k = r/‖r‖` -/
theorem forward_main (eps : ℝ) (heps : 0 ≤ eps) (r : V3 ℝ) (h : eps < r.norm) :
    rodriguesForward eps r =
      ⟨rodFormula (Real.cos r.norm) (Real.sin r.norm) (V3.smul (1 / r.norm) r),
       ⟨fwdJacRow (Real.cos r.norm) (Real.sin r.norm) (1 / r.norm) (V3.smul (1 / r.norm) r) 0,
        fwdJacRow (Real.cos r.norm) (Real.sin r.norm) (1 / r.norm) (V3.smul (1 / r.norm) r) 1,
        fwdJacRow (Real.cos r.norm) (Real.sin r.norm) (1 / r.norm) (V3.smul (1 / r.norm) r) 2⟩⟩ := by
  have hpos : 0 < r.norm := lt_of_le_of_lt heps h
  have hne : (r.norm == 0) = false := by simp [ne_of_gt hpos]
  unfold rodriguesForward
  simp only [if_neg (not_lt.mpr h.le), hne]
  rfl

/-- the Jacobian blocks combined along a direction `d`: `d.x·J₀ + d.y·J₁ + d.z·J₂` -/
def dirJac (J : J3 ℝ) (d : V3 ℝ) : M3 ℝ :=
  M3.add (M3.add (M3.smul d.x (J.get 0)) (M3.smul d.y (J.get 1))) (M3.smul d.z (J.get 2))

/-- along a coordinate direction the combination is the block itself -/
theorem dirJac_basis (J : J3 ℝ) (i : Fin 3) :
    dirJac J (⟨if i = 0 then 1 else 0, if i = 1 then 1 else 0, if i = 2 then 1 else 0⟩ : V3 ℝ) = J.get i := by
  fin_cases i <;> ext <;> simp [dirJac, J3.get, M3.add, M3.smul]

/-- the field identity: the product/chain-rule derivative of Rodrigues' formula at `r` (`θ = ‖r‖ ≠ 0`) in direction
    `d` equals the model's Jacobian rows combined along `d` -/
theorem rodDiff_eq_jac (r d : V3 ℝ) (hpos : 0 < r.norm) :
    rodDiff r d =
      dirJac ⟨fwdJacRow (Real.cos r.norm) (Real.sin r.norm) (1 / r.norm) (V3.smul (1 / r.norm) r) 0,
        fwdJacRow (Real.cos r.norm) (Real.sin r.norm) (1 / r.norm) (V3.smul (1 / r.norm) r) 1,
        fwdJacRow (Real.cos r.norm) (Real.sin r.norm) (1 / r.norm) (V3.smul (1 / r.norm) r) 2⟩ d := by
  have h0 : r.norm ≠ 0 := ne_of_gt hpos
  obtain ⟨r0, r1, r2⟩ := drrt_forms (V3.smul (1 / r.norm) r)
  obtain ⟨x0, x1, x2⟩ := drx_forms (K := ℝ)
  unfold rodDiff dirJac
  simp only [J3.get, fwdJacRow, r0, r1, r2, x0, x1, x2, rodTwo_eq, V3.get, douter, m3Zero, V3.dot_def]
  clear r0 r1 r2 x0 x1 x2
  generalize r.norm = θ at *
  generalize Real.cos θ = c
  generalize Real.sin θ = s
  ext <;> rod_unfold <;> simp only [V3.zero_x, V3.zero_y, V3.zero_z] <;> field_simp <;> ring

/-- the matrix is entrywise differentiable along every line `t ↦ r + t·d` through a point outside the shortcut, and
    the derivative is the returned Jacobian applied to `d` — the returned 3×9 array is the differential of `r ↦ R` -/
theorem forward_directional_derivative (eps : ℝ) (heps : 0 ≤ eps) (r : V3 ℝ) (hr : eps < r.norm) (d : V3 ℝ) :
    DerivM (fun t => (rodriguesForward eps (r + V3.smul t d)).R) (dirJac (rodriguesForward eps r).jac d) := by
  have hpos : 0 < r.norm := lt_of_le_of_lt heps hr
  have hp := derivV_line r d
  have hp0 := line_zero r d
  have hpos' : 0 < ((fun t => r + V3.smul t d) 0).norm := by simpa only [hp0] using hpos
  have hθ := norm_curve_deriv hp hpos'
  have hev : ∀ᶠ t in 𝓝 (0 : ℝ), eps < (r + V3.smul t d).norm := by
    have hc := hθ.continuousAt
    have hlt : eps < (fun t => (r + V3.smul t d).norm) 0 := by simpa only [hp0] using hr
    exact hc.eventually (lt_mem_nhds hlt)
  have hD := rod_curve_deriv hp hpos'
  simp only [hp0] at hD
  rw [forward_main eps heps r hr]
  refine (hD.congr_deriv (rodDiff_eq_jac r d hpos)).congr_of_eventuallyEq ?_
  exact hev.mono fun t ht => by rw [forward_main eps heps _ ht]

/-- C10, Jacobian clause, in full: block `i` of the returned Jacobian is the partial derivative of the returned matrix
    with respect to `rᵢ`, entry by entry, at every `r` outside the shortcut. -/
theorem jacobian_is_derivative_holds (eps : ℝ) (heps : 0 ≤ eps) : jacobian_is_derivative eps := by
  intro r hr i e he
  have hD := forward_directional_derivative eps heps r hr
    (⟨if i = 0 then 1 else 0, if i = 1 then 1 else 0, if i = 2 then 1 else 0⟩ : V3 ℝ)
  rw [dirJac_basis] at hD
  exact hD.entry e he

/-- the hypothesis `0 ≤ eps` is needed for the statement as written: with `eps < 0` it also covers `r = 0`, where the
    model divides by `itheta = 1` (the `theta == 0` guard), gets `k = 0` and returns the all-zero Jacobian, whereas
    `t ↦ R₂₁(t·e₀) = sin t` has derivative `1` at `0`. -/
theorem jacobian_is_derivative_neg_eps_false (eps : ℝ) (heps : eps < 0) : ¬ jacobian_is_derivative eps := by
  intro h
  have hn0 : (V3.zero : V3 ℝ).norm = 0 := norm_zero
  have h1 := h V3.zero (by rw [hn0]; exact heps) 0 (fun m => m.r2.y) (by simp)
  -- the model's Jacobian entry at r = 0 is 0
  have hJ : ((rodriguesForward eps (V3.zero : V3 ℝ)).jac.get ((0 : Fin 3) : ℕ)).r2.y = 0 := by
    obtain ⟨r0, _, _⟩ := drrt_forms (V3.smul (1 : ℝ) (V3.zero : V3 ℝ))
    obtain ⟨x0, _, _⟩ := drx_forms (K := ℝ)
    unfold rodriguesForward
    simp only [hn0, if_neg (not_lt.mpr heps.le), beq_self_eq_true, if_true, cos_eq, sin_eq, Real.cos_zero,
      Real.sin_zero, Fin.val_zero, J3.get, fwdJacRow, r0, x0, V3.get]
    rod_unfold
    simp
  rw [hJ] at h1
  -- the actual function near 0 is `sin |t|·(t/|t|) = sin t`
  have hfun : ∀ t : ℝ, (fun m : M3 ℝ => m.r2.y) (rodriguesForward eps
      ((V3.zero : V3 ℝ) + V3.smul t (⟨if (0 : Fin 3) = 0 then 1 else 0, if (0 : Fin 3) = 1 then 1 else 0,
        if (0 : Fin 3) = 2 then 1 else 0⟩ : V3 ℝ))).R = Real.sin t := by
    intro t
    have hv : (V3.zero : V3 ℝ) + V3.smul t (⟨if (0 : Fin 3) = 0 then 1 else 0, if (0 : Fin 3) = 1 then 1 else 0,
        if (0 : Fin 3) = 2 then 1 else 0⟩ : V3 ℝ) = ⟨t, 0, 0⟩ := by
      ext <;> simp
    rw [hv]
    have hn : (⟨t, 0, 0⟩ : V3 ℝ).norm = |t| := by
      rw [norm_def, V3.dot_def]
      simp only [mul_zero, add_zero]
      exact Real.sqrt_mul_self_eq_abs t
    rcases eq_or_ne t 0 with rfl | ht
    · unfold rodriguesForward
      simp only [hn, abs_zero, if_neg (not_lt.mpr heps.le), beq_self_eq_true, if_true, cos_eq, sin_eq, Real.cos_zero,
        Real.sin_zero]
      rod_unfold
      simp
    · have hpos : 0 < |t| := abs_pos.mpr ht
      have hne : (|t| == 0) = false := by simp [ht]
      unfold rodriguesForward
      simp only [hn, if_neg (not_lt.mpr (le_of_lt (lt_trans heps hpos))), hne, cos_eq, sin_eq]
      rod_unfold
      simp only [Bool.false_eq_true, if_false]
      rcases abs_cases t with ⟨ha, _⟩ | ⟨ha, _⟩
      · rw [ha]; field_simp; ring
      · rw [ha, Real.sin_neg]; field_simp; ring
  have h2 : HasDerivAt (fun t : ℝ => Real.sin t) 0 0 := by
    refine h1.congr_of_eventuallyEq ?_
    exact Filter.Eventually.of_forall fun t => (hfun t).symm
  have h3 := (Real.hasDerivAt_sin 0).unique h2
  rw [Real.cos_zero] at h3
  exact one_ne_zero h3

/-- non-vacuity: the code's `eps = 2⁻⁵²` is non-negative and `r = (0, 0, 1)` lies outside the shortcut (`‖r‖ = 1`) -/
example : (0 : ℝ) ≤ 2⁻¹ ^ 52 ∧ (2⁻¹ ^ 52 : ℝ) < (⟨0, 0, 1⟩ : V3 ℝ).norm := by
  have hn : (⟨0, 0, 1⟩ : V3 ℝ).norm = 1 := by
    rw [norm_def, V3.dot_def]
    norm_num
  rw [hn]
  constructor
  · positivity
  · norm_num

end PW.C10
