/-
  C02 (continued) — complementarity at the level of the returned arrays, in areas (over ℝ):
  area kept in front + area kept behind the flipped plane = input area + area of the faces lying in the plane.
-/
import PW.Props.C02
import Mathlib.Analysis.SpecialFunctions.Pow.Real

set_option linter.unusedSectionVars false

namespace PW.C02

open PW.Slicing PW.C01

/-- twice the area of a positional triangle: `‖(b − a) × (c − a)‖` -/
noncomputable def area2 (t : T3 (V3 ℝ)) : ℝ := Real.sqrt (V3.normSq (crossOf t))

/-- twice the total area of a list of triangles -/
noncomputable def totalArea2 (l : List (T3 (V3 ℝ))) : ℝ := (l.map area2).sum

theorem area2_of_smul (l : ℝ) (hl : 0 ≤ l) (t p : T3 (V3 ℝ)) (h : crossOf t = V3.smul l (crossOf p)) :
    area2 t = l * area2 p := by
  unfold area2
  rw [h]
  have : V3.normSq (V3.smul l (crossOf p)) = l ^ 2 * V3.normSq (crossOf p) := by
    simp only [V3.normSq_def, V3.smul_x, V3.smul_y, V3.smul_z]; ring
  rw [this, Real.sqrt_mul (sq_nonneg l), Real.sqrt_sq hl]

/-- per face: the areas of the output triangles add up to `lamOf` times the face's area -/
theorem face_area (tol eps : ℝ) (o n : V3 ℝ) (p : T3 (V3 ℝ)) (sel : Bool) :
    totalArea2 (sliceFacePos tol eps o n p sel) = lamOf tol eps o n p sel * area2 p := by
  unfold totalArea2 lamOf sliceFacePos
  simp only
  generalize classifyFace (p.map fun v => vsign tol (offset o n v)) sel = kind
  cases kind with
  | keep => simp
  | drop => simp
  | quad k =>
    dsimp only
    obtain ⟨t0, t1⟩ := edgeParam_mem eps o n (p.get (k + 2)) (p.get k)
    obtain ⟨u0, u1⟩ := edgeParam_mem eps o n (p.get k) (p.get (k + 1))
    have hrot := crossOf_rot p k
    have e2 : (intPoints eps o n p).get (k + 2) =
        V3.smul (edgeParam eps o n (p.get (k + 2)) (p.get k)) (p.get k - p.get (k + 2)) + p.get (k + 2) := by
      rw [intPoints_get, show k + 2 + 1 = k + 3 from rfl, PW.C01.T3.get_add_three, edgePoint_eq]
    have e0 : (intPoints eps o n p).get k =
        V3.smul (edgeParam eps o n (p.get k) (p.get (k + 1))) (p.get (k + 1) - p.get k) + p.get k := by
      rw [intPoints_get, edgePoint_eq]
    generalize edgeParam eps o n (p.get (k + 2)) (p.get k) = t at *
    generalize edgeParam eps o n (p.get k) (p.get (k + 1)) = u at *
    have a1 : area2 ⟨p.get (k + 1), p.get (k + 2), V3.smul t (p.get k - p.get (k + 2)) + p.get (k + 2)⟩ =
        t * area2 p :=
      area2_of_smul t t0 _ p (by rw [cross_quad_piece1, hrot])
    have a2 : area2 ⟨p.get (k + 1), V3.smul t (p.get k - p.get (k + 2)) + p.get (k + 2),
        V3.smul u (p.get (k + 1) - p.get k) + p.get k⟩ = ((1 - t) * (1 - u)) * area2 p :=
      area2_of_smul ((1 - t) * (1 - u)) (mul_nonneg (by linarith) (by linarith)) _ p
        (by rw [cross_quad_piece2, hrot])
    simp only [List.map_cons, List.map_nil, List.sum_cons, List.sum_nil, add_zero]
    rw [e2, e0, a1, a2]
    ring
  | tri k =>
    dsimp only
    obtain ⟨t0, t1⟩ := edgeParam_mem eps o n (p.get (k + 2)) (p.get k)
    obtain ⟨u0, u1⟩ := edgeParam_mem eps o n (p.get k) (p.get (k + 1))
    have hrot := crossOf_rot p k
    have e2 : (intPoints eps o n p).get (k + 2) =
        V3.smul (edgeParam eps o n (p.get (k + 2)) (p.get k)) (p.get k - p.get (k + 2)) + p.get (k + 2) := by
      rw [intPoints_get, show k + 2 + 1 = k + 3 from rfl, PW.C01.T3.get_add_three, edgePoint_eq]
    have e0 : (intPoints eps o n p).get k =
        V3.smul (edgeParam eps o n (p.get k) (p.get (k + 1))) (p.get (k + 1) - p.get k) + p.get k := by
      rw [intPoints_get, edgePoint_eq]
    generalize edgeParam eps o n (p.get (k + 2)) (p.get k) = t at *
    generalize edgeParam eps o n (p.get k) (p.get (k + 1)) = u at *
    have a1 : area2 ⟨p.get k, V3.smul u (p.get (k + 1) - p.get k) + p.get k,
        V3.smul t (p.get k - p.get (k + 2)) + p.get (k + 2)⟩ = (u * (1 - t)) * area2 p :=
      area2_of_smul (u * (1 - t)) (mul_nonneg u0 (by linarith)) _ p (by rw [cross_tri_piece, hrot])
    simp only [List.map_cons, List.map_nil, List.sum_cons, List.sum_nil, add_zero]
    rw [e2, e0, a1]

theorem totalArea2_append (a b : List (T3 (V3 ℝ))) : totalArea2 (a ++ b) = totalArea2 a + totalArea2 b := by
  unfold totalArea2; rw [List.map_append, List.sum_append]

theorem lamOf_drop (tol eps : ℝ) (o n : V3 ℝ) (x : PFace ℝ) (h : pfKind tol o n x = .drop) :
    lamOf tol eps o n x.1 x.2 = 0 := by
  unfold lamOf; unfold pfKind at h; rw [h]

/-- the area of everything the slicer returns for a list of positional faces is the sum of the per-face kept areas -/
theorem slicePositional_area (tol eps : ℝ) (o n : V3 ℝ) (pf : List (PFace ℝ)) :
    totalArea2 (slicePositional tol eps o n pf) =
      (pf.map fun x => lamOf tol eps o n x.1 x.2 * area2 x.1).sum := by
  unfold slicePositional
  rw [totalArea2_append, totalArea2_append]
  induction pf with
  | nil => simp [totalArea2]
  | cons x l ih =>
    rw [List.map_cons, List.sum_cons, ← ih]
    have hx := face_area tol eps o n x.1 x.2
    cases hk : pfKind tol o n x with
    | keep =>
      have a : pfKeep tol o n x = true := by simp [pfKeep, hk]
      have b : pfQuad tol o n x = false := by simp [pfQuad, hk]
      have c : pfTri tol o n x = false := by simp [pfTri, hk]
      rw [List.filter_cons_of_pos a, List.filter_cons_of_neg (by simp [b]), List.filter_cons_of_neg (by simp [c]),
        List.flatMap_cons, totalArea2_append, hx]
      ring
    | quad k =>
      have a : pfKeep tol o n x = false := by simp [pfKeep, hk]
      have b : pfQuad tol o n x = true := by simp [pfQuad, hk]
      have c : pfTri tol o n x = false := by simp [pfTri, hk]
      rw [List.filter_cons_of_neg (by simp [a]), List.filter_cons_of_pos b, List.filter_cons_of_neg (by simp [c]),
        List.flatMap_cons, totalArea2_append, hx]
      ring
    | tri k =>
      have a : pfKeep tol o n x = false := by simp [pfKeep, hk]
      have b : pfQuad tol o n x = false := by simp [pfQuad, hk]
      have c : pfTri tol o n x = true := by simp [pfTri, hk]
      rw [List.filter_cons_of_neg (by simp [a]), List.filter_cons_of_neg (by simp [b]), List.filter_cons_of_pos c,
        List.flatMap_cons, totalArea2_append, hx]
      ring
    | drop =>
      have a : pfKeep tol o n x = false := by simp [pfKeep, hk]
      have b : pfQuad tol o n x = false := by simp [pfQuad, hk]
      have c : pfTri tol o n x = false := by simp [pfTri, hk]
      rw [List.filter_cons_of_neg (by simp [a]), List.filter_cons_of_neg (by simp [b]), List.filter_cons_of_neg (by simp [c]),
        lamOf_drop tol eps o n x hk]
      ring

/-- a face lies in the plane: all three corners at offset exactly 0 -/
def InPlane (o n : V3 ℝ) (p : T3 (V3 ℝ)) : Prop :=
  offset o n p.a = 0 ∧ offset o n p.b = 0 ∧ offset o n p.c = 0

noncomputable instance (o n : V3 ℝ) (p : T3 (V3 ℝ)) : Decidable (InPlane o n p) := Classical.propDecidable _

/-- **complementarity of the returned meshes** (every face selected, every corner either exactly on the plane or
    farther from it than the tolerance): the area kept in front plus the area kept behind the flipped plane equals
    the input area plus the area of the faces lying in the plane (kept by both). -/
theorem C02_area_complementary (tol eps : ℝ) (ht : 0 ≤ tol) (verts : List (V3 ℝ)) (faces : List (T3 Nat))
    (o n : V3 ℝ) (mask : List Bool) (hne : verts ≠ []) (hv : ∀ f ∈ faces, FaceValid verts.length f)
    (hsel : ∀ i, mask.getD i true = true)
    (hex : ∀ f ∈ faces, ∀ i, offset o n ((facePos verts f).get i) = 0 ∨ tol < offset o n ((facePos verts f).get i) ∨
      offset o n ((facePos verts f).get i) < -tol) :
    totalArea2 (sliceMesh tol eps verts faces o n mask).positions +
      totalArea2 (sliceMesh tol eps verts faces o (-n) mask).positions =
    (faces.map fun f => area2 (facePos verts f)).sum +
      ((faces.filter fun f => decide (InPlane o n (facePos verts f))).map fun f => area2 (facePos verts f)).sum := by
  rw [C02_positional tol eps verts faces o n mask hne hv, C02_positional tol eps verts faces o (-n) mask hne hv,
    slicePositional_area, slicePositional_area]
  unfold pfacesOf
  rw [List.map_map, List.map_map]
  -- per face
  have key : ∀ (l : List (T3 Nat × Nat)), (∀ x ∈ l, x.1 ∈ faces) →
      (l.map ((fun x : PFace ℝ => lamOf tol eps o n x.1 x.2 * area2 x.1) ∘
          fun (x : T3 Nat × Nat) => ((facePos verts x.1, mask.getD x.2 true) : PFace ℝ))).sum +
      (l.map ((fun x : PFace ℝ => lamOf tol eps o (-n) x.1 x.2 * area2 x.1) ∘
          fun (x : T3 Nat × Nat) => ((facePos verts x.1, mask.getD x.2 true) : PFace ℝ))).sum =
      ((l.map (·.1)).map fun f => area2 (facePos verts f)).sum +
        (((l.map (·.1)).filter fun f => decide (InPlane o n (facePos verts f))).map
          fun f => area2 (facePos verts f)).sum := by
    intro l hl
    induction l with
    | nil => simp
    | cons x xs ih =>
      have ih' := ih (fun y hy => hl y (by simp [hy]))
      have hf : x.1 ∈ faces := hl x (by simp)
      have hc := C02_complementary tol eps ht o n (facePos verts x.1) (hex x.1 hf)
      simp only [List.map_cons, List.sum_cons, Function.comp, hsel] at ih' ⊢
      by_cases hin : InPlane o n (facePos verts x.1)
      · have hin' : offset o n (facePos verts x.1).a = 0 ∧ offset o n (facePos verts x.1).b = 0 ∧
            offset o n (facePos verts x.1).c = 0 := hin
        rw [if_pos hin'] at hc
        rw [List.filter_cons_of_pos (by simpa using hin), List.map_cons, List.sum_cons]
        have : lamOf tol eps o (-n) (facePos verts x.1) true = 2 - lamOf tol eps o n (facePos verts x.1) true := by
          linarith
        rw [this]
        linarith
      · have hin' : ¬ (offset o n (facePos verts x.1).a = 0 ∧ offset o n (facePos verts x.1).b = 0 ∧
            offset o n (facePos verts x.1).c = 0) := hin
        rw [if_neg hin'] at hc
        rw [List.filter_cons_of_neg (by simpa using hin)]
        have : lamOf tol eps o (-n) (facePos verts x.1) true = 1 - lamOf tol eps o n (facePos verts x.1) true := by
          linarith
        rw [this]
        linarith
  have := key faces.zipIdx (fun x hx => (List.mem_zipIdx' hx).2 ▸ List.getElem_mem _)
  rw [List.zipIdx_map_fst] at this
  exact this

end PW.C02
