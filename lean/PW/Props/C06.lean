/-
  C06 — Slicing a polyline by a plane keeps exactly the run in front, or refuses.

  Property theorems only (the list bookkeeping lemmas live in PW/Lemmas/SliceByPlane.lean).  Everything is over an
  arbitrary linearly ordered field `K` (hence ℚ and ℝ at once).  `d p = pl.signedDistance p`; *front* = `0 < d p`
  (`np.sign(d) == 1`), *on* = `d p = 0`, *behind* = `d p < 0`.  The plane normal need not have unit length for any
  statement here.

  Model (PW/Model/SliceByPlane.lean):
    `slicedByPlane pl ⟨vs, closed⟩`   Polyline(vs, closed).sliced_by_plane(pl)  — code-shaped: roll + append for a closed
                                       polyline, then transition indices / vsplit components / component signs / the
                                       three raises / prepend + append with the local `intersection_with_plane` (= `crossing`)
    `sliceOpenRuns pl vs`             slice_open_polyline_by_plane(vs, pl)
    `sliceSpec pl closed vs`          the specification (function), `OpenSlice` / `ClosedSlice` the specification (relation)
-/
import PW.Model.SliceByPlane
import PW.Gen.PolySlice
import PW.Lemmas.Vec
import PW.Lemmas.SliceByPlane
import Mathlib.Tactic.Ring
import Mathlib.Tactic.Linarith
import Mathlib.Tactic.FieldSimp
import Mathlib.Algebra.Order.Field.Basic
import Mathlib.Algebra.Order.Field.Rat
import Mathlib.Tactic.NormNum

set_option linter.unusedSectionVars false
set_option linter.unusedVariables false

namespace PW.C06

variable {K : Type} [Field K] [LinearOrder K] [IsStrictOrderedRing K]

open Plane SBP

/-! ### signs -/

theorem front_iff (pl : Plane K) (p : V3 K) : isFront pl.sign p = true ↔ 0 < pl.signedDistance p := by
  unfold isFront Plane.sign sgn
  split_ifs with h1 h2 <;> simp_all

theorem sign_zero_iff (pl : Plane K) (p : V3 K) : pl.sign p = 0 ↔ pl.signedDistance p = 0 := by
  unfold Plane.sign sgn
  split_ifs with h1 h2
  · simp; exact ne_of_gt h1
  · simp; exact ne_of_lt h2
  · simp; exact le_antisymm (not_lt.mp h1) (not_lt.mp h2)

/-- a vertex that is neither in front nor on the plane is behind it -/
theorem behind_of_not_front_not_on (pl : Plane K) (p : V3 K) (h1 : isFront pl.sign p = false) (h0 : pl.sign p ≠ 0) :
    pl.signedDistance p < 0 := by
  have hf : ¬ 0 < pl.signedDistance p := by
    intro h; rw [(front_iff pl p).mpr h] at h1; cases h1
  rcases lt_trichotomy (pl.signedDistance p) 0 with h | h | h
  · exact h
  · exact absurd ((sign_zero_iff pl p).mpr h) h0
  · exact absurd h hf

/-! ### the crossing point -/

/-- signed distance is affine along a segment -/
theorem signedDistance_along (pl : Plane K) (a b : V3 K) (t : K) :
    pl.signedDistance (a + V3.smul t (b - a)) =
      pl.signedDistance a + t * (pl.signedDistance b - pl.signedDistance a) := by
  simp only [signedDistance, signedDistanceEq, equation, eqNormal, eqOffset, V3.dot_def, V3.add_x, V3.add_y, V3.add_z,
    V3.smul_x, V3.smul_y, V3.smul_z, V3.sub_x, V3.sub_y, V3.sub_z]
  ring

/-- the parameter `d_a / (d_a − d_b)` lies strictly inside `(0, 1)` whenever the end points are strictly on
    opposite sides — in either direction of travel -/
theorem crossing_in_unit (x y : K) (h : (x < 0 ∧ 0 < y) ∨ (0 < x ∧ y < 0)) :
    0 < x / (x - y) ∧ x / (x - y) < 1 := by
  rcases h with ⟨hx, hy⟩ | ⟨hx, hy⟩
  · have hd : x - y < 0 := by linarith
    refine ⟨div_pos_of_neg_of_neg hx hd, ?_⟩
    rw [div_lt_one_of_neg hd]; linarith
  · have hd : 0 < x - y := by linarith
    refine ⟨div_pos hx hd, ?_⟩
    rw [div_lt_one hd]; linarith

/-- … so the crossing point of the specification lies on the plane -/
theorem crossing_on_plane (pl : Plane K) (a b : V3 K) (h : pl.signedDistance a ≠ pl.signedDistance b) :
    pl.signedDistance ((crossing pl) a b) = 0 := by
  unfold crossing
  rw [signedDistance_along]
  have hd : pl.signedDistance a - pl.signedDistance b ≠ 0 := sub_ne_zero.mpr h
  field_simp
  ring

/-- the crossing point does not depend on the direction of travel -/
theorem crossing_symm (pl : Plane K) (a b : V3 K) (h : pl.signedDistance a ≠ pl.signedDistance b) :
    (crossing pl) a b = (crossing pl) b a := by
  have hd : pl.signedDistance a - pl.signedDistance b ≠ 0 := sub_ne_zero.mpr h
  have hd' : pl.signedDistance b - pl.signedDistance a ≠ 0 := sub_ne_zero.mpr (Ne.symm h)
  unfold crossing
  ext <;> simp only [V3.add_x, V3.add_y, V3.add_z, V3.smul_x, V3.smul_y, V3.smul_z, V3.sub_x, V3.sub_y, V3.sub_z] <;>
    field_simp <;> ring

/-- numerator `(ref − a)·n = d(ref) − d(a) = −d(a)` and denominator `(b − a)·n = d(b) − d(a)` of `t` in
    `intersect_segment_with_plane`, as called by the slicer -/
theorem signedDistance_ref (pl : Plane K) : pl.signedDistance pl.ref = 0 := by
  simp only [signedDistance, signedDistanceEq, equation, eqNormal, eqOffset, V3.dot_def]
  ring
theorem isect_den (pl : Plane K) (a b : V3 K) : (b - a).dot pl.n = pl.signedDistance b - pl.signedDistance a := by
  simp only [signedDistance, signedDistanceEq, equation, eqNormal, eqOffset, V3.dot_def, V3.sub_x, V3.sub_y, V3.sub_z]
  ring

/-- The library's `intersect_segment_with_plane` (used by the slicer before /repo f9870c4, no longer since): in exact
    arithmetic, on a segment whose end points are strictly on opposite sides, it takes the in-range branch (`t` is neither
    `< 0` nor `> 1`, the denominator is not zero) and returns the same crossing point.  Under rounding its independently
    computed `t` can fall outside `[0,1]` for an end point within rounding error of the plane (NaN row) — which is why the
    slicer now interpolates with the signed distances that decided the signs (`crossing`). -/
theorem crossSeg_eq_crossing (pl : Plane K) (a b : V3 K)
    (h : (pl.signedDistance a < 0 ∧ 0 < pl.signedDistance b) ∨ (0 < pl.signedDistance a ∧ pl.signedDistance b < 0)) :
    (crossSeg pl) a b = some ((crossing pl) a b) := by
  obtain ⟨h0, h1⟩ := crossing_in_unit _ _ h
  have hden : pl.signedDistance b - pl.signedDistance a < 0 ∨ 0 < pl.signedDistance b - pl.signedDistance a := by
    rcases h with ⟨hx, hy⟩ | ⟨hx, hy⟩
    · right; linarith
    · left; linarith
  have ht : -pl.signedDistance a / (pl.signedDistance b - pl.signedDistance a) =
      pl.signedDistance a / (pl.signedDistance a - pl.signedDistance b) := by
    rw [← neg_div_neg_eq, neg_neg, neg_sub]
  unfold crossSeg intersectSegmentWithPlane crossing
  simp only [isect_den, signedDistance_ref, zero_sub, hden, if_true, ht]
  have : ¬ (pl.signedDistance a / (pl.signedDistance a - pl.signedDistance b) < 0 ∨
      1 < pl.signedDistance a / (pl.signedDistance a - pl.signedDistance b)) := by
    rintro (h2 | h2)
    · exact absurd h2 (not_lt.mpr (le_of_lt h0))
    · exact absurd h2 (not_lt.mpr (le_of_lt h1))
  simp only [this, if_false]

/-! ### model = specification -/

/-- what `Polyline.sliced_by_plane` returns when the specification yields `r`: the same rows as an open polyline, or
    the same exception -/
def lift (r : Res (List (V3 K))) : Res (List (V3 K) × Bool) :=
  match r with
  | .ok v => .ok (v, false)
  | .error e => .error e

theorem liftRes_id (r : Res (List (V3 K))) : liftRes id r = lift r := by
  cases r <;> simp [liftRes, lift]

/-- **C06, refinement.**  For every plane and every vertex list (0…n vertices, repeats allowed), open or closed:
    the code-shaped model of `Polyline.sliced_by_plane` equals the specification — same rows, same exception class. -/
theorem C06_spec (pl : Plane K) (closed : Bool) (vs : List (V3 K)) :
    slicedByPlane pl ⟨vs, closed⟩ = lift (sliceSpec pl closed vs) := by
  rw [← liftRes_id]
  exact slicedByPlaneG_eq_spec pl.sign id (crossing pl) (crossing pl) id id (fun _ => rfl)
    (fun _ _ _ _ _ => rfl) (fun _ _ _ _ _ => rfl) closed vs

theorem C06_open_spec (pl : Plane K) (vs : List (V3 K)) :
    slicedByPlane pl ⟨vs, false⟩ = lift (sliceSpec pl false vs) := C06_spec pl false vs

/-- closed polylines: via the roll + append reduction (`span_working_closed`, `cycG_rotl`) -/
theorem C06_closed_spec (pl : Plane K) (vs : List (V3 K)) :
    slicedByPlane pl ⟨vs, true⟩ = lift (sliceSpec pl true vs) := C06_spec pl true vs

/-- the function `slice_open_polyline_by_plane` itself -/
theorem C06_open_function_spec (pl : Plane K) (vs : List (V3 K)) :
    sliceOpenRuns pl vs = sliceSpec pl false vs := by
  unfold sliceOpenRuns sliceSpec sliceSpecG
  rw [sliceOpenRunsG_eq_span]
  simp

/-- The same kernel run on observed signs / signed distances (`slice.given`, used for inputs within rounding error of
    the plane) refines the same specification, read with those signs … -/
theorem C06_given_spec (closed : Bool) (gs : List (GivenVertex K)) :
    slicedByPlaneGiven closed gs =
      lift (sliceSpecG GivenVertex.sign GivenVertex.crossing GivenVertex.v closed gs) := by
  rw [← liftRes_id]
  exact slicedByPlaneG_eq_spec GivenVertex.sign id GivenVertex.crossing GivenVertex.crossing GivenVertex.v
    GivenVertex.v (fun _ => rfl) (fun _ _ _ _ _ => rfl) (fun _ _ _ _ _ => rfl) closed gs

/-- … and when the observed values are the ones the model computes, it *is* `Polyline.sliced_by_plane`. -/
theorem C06_given_consistent (pl : Plane K) (closed : Bool) (vs : List (V3 K)) :
    slicedByPlaneGiven closed (vs.map (annotate pl)) = slicedByPlane pl ⟨vs, closed⟩ := by
  rw [C06_given_spec, C06_spec, sliceSpecG_natural]
  rfl

/-- the code-shaped slicer (transition indices, `vsplit`, component signs) and its span-shaped twin
    (`takeWhile`/`dropWhile`) are the same function -/
theorem C06_runs_eq_span (pl : Plane K) (vs : List (V3 K)) : sliceOpenRuns pl vs = sliceOpenSpan pl vs :=
  sliceOpenRunsG_eq_span pl.sign (crossing pl) id vs

theorem C06_runs_eq_span_polyline (pl : Plane K) (p : Polyline K) : slicedByPlaneSpan pl p = slicedByPlane pl p :=
  slicedByPlaneSpanG_eq pl.sign (crossing pl) id p.closed p.v

/-! ### the specification function computes the declarative relation -/

/-- `sliceSpec` returns `out` exactly when `out` is *the* slice in the declarative sense: open — `vs = pre ++ run ++ post`,
    `run` a non-empty stretch of front vertices, nothing else in front, not everything in front; closed — a rotation of
    `vs` is `run ++ rest` with both non-empty, `run` in front, nothing of `rest` in front.  In both cases
    `out = entry? ++ run ++ exit?` with the neighbouring vertex itself when it is on the plane and the crossing point
    `a + (d_a/(d_a − d_b))(b − a)` otherwise. -/
theorem C06_spec_ok_iff (pl : Plane K) (closed : Bool) (vs out : List (V3 K)) :
    sliceSpec pl closed vs = .ok out ↔ SliceRel pl.sign (crossing pl) id closed vs out :=
  sliceSpecG_ok_iff pl.sign (crossing pl) id closed vs out

/-- … and in particular the slice is unique -/
theorem C06_slice_unique (pl : Plane K) (closed : Bool) (vs out out' : List (V3 K))
    (h : SliceRel pl.sign (crossing pl) id closed vs out) (h' : SliceRel pl.sign (crossing pl) id closed vs out') :
    out = out' := by
  rw [← C06_spec_ok_iff] at h h'
  rw [h] at h'
  cases h'; rfl

/-! ### the error decision logic -/

/-- the only exception ever raised is `ValueError` -/
theorem C06_error_is_ValueError (pl : Plane K) (p : Polyline K) (e : Err) (h : slicedByPlane pl p = .error e) :
    e = .ValueError := by
  obtain ⟨vs, closed⟩ := p
  rw [C06_spec] at h
  unfold lift at h
  cases hs : sliceSpec pl closed vs with
  | ok v => rw [hs] at h; cases h
  | error e' =>
    rw [hs] at h
    cases h
    exact sliceSpecG_error_class pl.sign (crossing pl) id closed vs _ hs

/-- it refuses exactly when there is no slice in the declarative sense: no single run in front with something left over -/
theorem C06_refuses_iff (pl : Plane K) (closed : Bool) (vs : List (V3 K)) :
    slicedByPlane pl ⟨vs, closed⟩ = .error .ValueError ↔ ¬ ∃ out, SliceRel pl.sign (crossing pl) id closed vs out := by
  rw [C06_spec, ← sliceSpecG_error_iff]
  unfold lift sliceSpec
  cases sliceSpecG pl.sign (crossing pl) id closed vs with
  | ok v => simp
  | error e => simp

theorem C06_refuses_no_vertices (pl : Plane K) (closed : Bool) :
    slicedByPlane pl ⟨[], closed⟩ = .error .ValueError := by
  cases closed <;> rfl

theorem C06_refuses_no_front (pl : Plane K) (closed : Bool) (vs : List (V3 K))
    (h : ∀ p ∈ vs, pl.signedDistance p ≤ 0) : slicedByPlane pl ⟨vs, closed⟩ = .error .ValueError := by
  rw [C06_refuses_iff]
  have hnf : ∀ p ∈ vs, isFront pl.sign p = false := by
    intro p hp
    cases hf : isFront pl.sign p with
    | false => rfl
    | true => exact absurd ((front_iff pl p).mp hf) (not_lt.mpr (h p hp))
  rintro ⟨out, hout⟩
  unfold SliceRel at hout
  cases closed with
  | false =>
    simp only [Bool.false_eq_true, if_false] at hout
    obtain ⟨pre, run, post, first, last, rfl, hfirst, _, _, hrun, _⟩ := hout
    have hm : first ∈ run := List.mem_of_mem_head? hfirst
    have := hnf first (by simp [hm])
    rw [hrun first hm] at this; cases this
  | true =>
    simp only [if_true] at hout
    obtain ⟨A, B, run, rest, first, last, nbIn, nbOut, rfl, hrot, hfirst, _, _, _, hrun, _⟩ := hout
    have hm : first ∈ run := List.mem_of_mem_head? hfirst
    have hm2 : first ∈ B ++ A := by rw [hrot]; simp [hm]
    have := hnf first (by simp only [List.mem_append] at hm2 ⊢; exact hm2.symm)
    rw [hrun first hm] at this; cases this

theorem C06_refuses_all_front (pl : Plane K) (closed : Bool) (vs : List (V3 K))
    (h : ∀ p ∈ vs, 0 < pl.signedDistance p) : slicedByPlane pl ⟨vs, closed⟩ = .error .ValueError := by
  rw [C06_refuses_iff]
  have haf : ∀ p ∈ vs, isFront pl.sign p = true := fun p hp => (front_iff pl p).mpr (h p hp)
  rintro ⟨out, hout⟩
  unfold SliceRel at hout
  cases closed with
  | false =>
    simp only [Bool.false_eq_true, if_false] at hout
    obtain ⟨pre, run, post, first, last, rfl, _, _, hpre, _, hpost, hne, _⟩ := hout
    rcases hne with hne | hne
    · cases pre with
      | nil => exact hne rfl
      | cons x _ =>
        have := haf x (by simp)
        rw [hpre x (by simp)] at this; cases this
    · cases post with
      | nil => exact hne rfl
      | cons x _ =>
        have := haf x (by simp)
        rw [hpost x (by simp)] at this; cases this
  | true =>
    simp only [if_true] at hout
    obtain ⟨A, B, run, rest, first, last, nbIn, nbOut, rfl, hrot, _, _, _, hnbOut, _, hrest, _⟩ := hout
    have hm : nbOut ∈ rest := List.mem_of_mem_head? hnbOut
    have hm2 : nbOut ∈ B ++ A := by rw [hrot]; simp [hm]
    have := haf nbOut (by simp only [List.mem_append] at hm2 ⊢; exact hm2.symm)
    rw [hrest nbOut hm] at this; cases this

/-- open polyline with two runs in front (front … not-front … front, in path order) -/
theorem C06_refuses_two_runs_open (pl : Plane K) (A B : List (V3 K)) (n : V3 K)
    (hn : pl.signedDistance n ≤ 0) (hA : ∃ p ∈ A, 0 < pl.signedDistance p) (hB : ∃ p ∈ B, 0 < pl.signedDistance p) :
    slicedByPlane pl ⟨A ++ n :: B, false⟩ = .error .ValueError := by
  have hn' : isFront pl.sign n = false := by
    cases hf : isFront pl.sign n with
    | false => rfl
    | true => exact absurd ((front_iff pl n).mp hf) (not_lt.mpr hn)
  rw [C06_spec]
  have : sliceSpec pl false (A ++ n :: B) = .error .ValueError := by
    unfold sliceSpec sliceSpecG
    simp only [Bool.false_eq_true, if_false]
    exact span_two_runs pl.sign (crossing pl) id A n B hn'
      (by obtain ⟨p, hp, h⟩ := hA; exact ⟨p, hp, (front_iff pl p).mpr h⟩)
      (by obtain ⟨p, hp, h⟩ := hB; exact ⟨p, hp, (front_iff pl p).mpr h⟩)
  rw [this]; rfl

/-- closed polyline with two runs in front: two vertices `x`, `y` not in front, a front vertex strictly between them
    and another one on the other side of the cycle -/
theorem C06_refuses_two_runs_closed (pl : Plane K) (P X Y : List (V3 K)) (x y : V3 K)
    (hx : pl.signedDistance x ≤ 0) (hy : pl.signedDistance y ≤ 0)
    (hX : ∃ p ∈ X, 0 < pl.signedDistance p) (hY : ∃ p ∈ Y ++ P, 0 < pl.signedDistance p) :
    slicedByPlane pl ⟨P ++ x :: X ++ y :: Y, true⟩ = .error .ValueError := by
  have nf : ∀ p, pl.signedDistance p ≤ 0 → isFront pl.sign p = false := by
    intro p hp
    cases hf : isFront pl.sign p with
    | false => rfl
    | true => exact absurd ((front_iff pl p).mp hf) (not_lt.mpr hp)
  rw [C06_spec]
  have : sliceSpec pl true (P ++ x :: X ++ y :: Y) = .error .ValueError := by
    unfold sliceSpec sliceSpecG
    simp only [if_true]
    exact specClosed_two_runs pl.sign (crossing pl) id P x X y Y (nf x hx) (nf y hy)
      (by obtain ⟨p, hp, h⟩ := hX; exact ⟨p, hp, (front_iff pl p).mpr h⟩)
      (by obtain ⟨p, hp, h⟩ := hY; exact ⟨p, hp, (front_iff pl p).mpr h⟩)
  rw [this]; rfl

/-! ### what is returned -/

/-- a successful call returns the rows of the specification as an *open* polyline -/
theorem C06_model_ok (pl : Plane K) (closed : Bool) (vs : List (V3 K)) (rows : List (V3 K)) (c : Bool)
    (h : slicedByPlane pl ⟨vs, closed⟩ = .ok (rows, c)) :
    sliceSpec pl closed vs = .ok rows ∧ c = false := by
  rw [C06_spec] at h
  unfold lift at h
  cases hs : sliceSpec pl closed vs with
  | error e => rw [hs] at h; cases h
  | ok out =>
    rw [hs] at h
    cases h
    exact ⟨rfl, rfl⟩

theorem C06_is_open (pl : Plane K) (p : Polyline K) (rows : List (V3 K)) (c : Bool)
    (h : slicedByPlane pl p = .ok (rows, c)) : c = false := by
  obtain ⟨vs, closed⟩ := p
  exact (C06_model_ok pl closed vs rows c h).2

/-- **The added rows lie on the segment they come from** (so their coordinates are between those of two input vertices:
    finite whenever the input is): the entry row is `nb + t (first − nb)` with `0 ≤ t < 1`, the exit row is
    `last + t (nb − last)` with `0 < t ≤ 1`; `t = 0` resp. `1` is the neighbour itself (on the plane), otherwise `t` is the
    crossing parameter `d_a/(d_a − d_b)`, strictly inside `(0,1)`. -/
theorem entryPt_on_segment (pl : Plane K) (nb first : V3 K) (hnb : isFront pl.sign nb = false)
    (hf : isFront pl.sign first = true) :
    ∃ t, 0 ≤ t ∧ t < 1 ∧ entryPt pl.sign (crossing pl) id nb first = nb + V3.smul t (first - nb) := by
  unfold entryPt
  split_ifs with h0
  · refine ⟨0, le_refl _, zero_lt_one, ?_⟩
    ext <;> simp [V3.add_x, V3.add_y, V3.add_z, V3.smul_x, V3.smul_y, V3.smul_z]
  · have h1 := behind_of_not_front_not_on pl nb hnb h0
    have h2 := (front_iff pl first).mp hf
    obtain ⟨ht0, ht1⟩ := crossing_in_unit _ _ (Or.inl ⟨h1, h2⟩)
    exact ⟨_, le_of_lt ht0, ht1, rfl⟩

theorem exitPt_on_segment (pl : Plane K) (last nb : V3 K) (hl : isFront pl.sign last = true)
    (hnb : isFront pl.sign nb = false) :
    ∃ t, 0 < t ∧ t ≤ 1 ∧ exitPt pl.sign (crossing pl) id last nb = last + V3.smul t (nb - last) := by
  unfold exitPt
  split_ifs with h0
  · refine ⟨1, zero_lt_one, le_refl _, ?_⟩
    ext <;> simp [V3.add_x, V3.add_y, V3.add_z, V3.smul_x, V3.smul_y, V3.smul_z, V3.sub_x, V3.sub_y, V3.sub_z]
  · have h1 := behind_of_not_front_not_on pl nb hnb h0
    have h2 := (front_iff pl last).mp hl
    obtain ⟨ht0, ht1⟩ := crossing_in_unit _ _ (Or.inr ⟨h2, h1⟩)
    exact ⟨_, ht0, le_of_lt ht1, rfl⟩

/-- the row added at an end of the run lies on the plane -/
theorem entryPt_on_plane (pl : Plane K) (nb first : V3 K) (hnb : isFront pl.sign nb = false)
    (hf : isFront pl.sign first = true) : pl.signedDistance (entryPt pl.sign (crossing pl) id nb first) = 0 := by
  unfold entryPt
  split_ifs with h0
  · exact (sign_zero_iff pl nb).mp h0
  · have h1 := behind_of_not_front_not_on pl nb hnb h0
    have h2 := (front_iff pl first).mp hf
    exact crossing_on_plane pl nb first (by intro h; rw [h] at h1; exact absurd h2 (not_lt.mpr (le_of_lt h1)))

theorem exitPt_on_plane (pl : Plane K) (last nb : V3 K) (hl : isFront pl.sign last = true)
    (hnb : isFront pl.sign nb = false) : pl.signedDistance (exitPt pl.sign (crossing pl) id last nb) = 0 := by
  unfold exitPt
  split_ifs with h0
  · exact (sign_zero_iff pl nb).mp h0
  · have h1 := behind_of_not_front_not_on pl nb hnb h0
    have h2 := (front_iff pl last).mp hl
    exact crossing_on_plane pl last nb (by intro h; rw [h] at h2; exact absurd h2 (not_lt.mpr (le_of_lt h1)))

/-- **Shape of the result.**  `out = entry ++ run ++ exit` where `entry` and `exit` have at most one row, every row of
    them lies on the plane, `run` is non-empty, strictly in front, and is a *contiguous sublist of the input* — of `vs`
    for an open polyline, of `vs ++ vs` (i.e. cyclically contiguous) for a closed one — so the interior vertices are the
    original vertices themselves (bit-identical), in path order. -/
theorem C06_interior_identical (pl : Plane K) (closed : Bool) (vs out : List (V3 K))
    (h : sliceSpec pl closed vs = .ok out) :
    ∃ entry run exit, out = entry ++ run ++ exit ∧ entry.length ≤ 1 ∧ exit.length ≤ 1 ∧ run ≠ [] ∧
      (∀ p ∈ run, 0 < pl.signedDistance p) ∧ (∀ p ∈ entry ++ exit, pl.signedDistance p = 0) ∧
      run <:+: (if closed then vs ++ vs else vs) := by
  rw [C06_spec_ok_iff] at h
  unfold SliceRel at h
  cases closed with
  | false =>
    simp only [Bool.false_eq_true, if_false] at h ⊢
    obtain ⟨pre, run, post, first, last, rfl, hfirst, hlast, hpre, hrun, hpost, hne, rfl⟩ := h
    have hfm : first ∈ run := List.mem_of_mem_head? hfirst
    have hlm : last ∈ run := List.mem_of_getLast? hlast
    refine ⟨entryRows pl.sign (crossing pl) id pre first, run, exitRows pl.sign (crossing pl) id last post, by simp, ?_, ?_,
      ?_, ?_, ?_, List.infix_append pre run post⟩
    · unfold entryRows; split <;> simp
    · unfold exitRows; split <;> simp
    · intro h0; subst h0; simp at hfirst
    · intro p hp; exact (front_iff pl p).mp (hrun p hp)
    · intro p hp
      rcases List.mem_append.mp hp with hp | hp
      · unfold entryRows at hp
        split at hp
        · rename_i nb hnb
          simp at hp; subst hp
          exact entryPt_on_plane pl nb first (hpre nb (List.mem_of_getLast? hnb)) (hrun first hfm)
        · simp at hp
      · unfold exitRows at hp
        split at hp
        · rename_i nb hnb
          simp at hp; subst hp
          exact exitPt_on_plane pl last nb (hrun last hlm) (hpost nb (List.mem_of_mem_head? hnb))
        · simp at hp
  | true =>
    simp only [if_true] at h ⊢
    obtain ⟨A, B, run, rest, first, last, nbIn, nbOut, rfl, hrot, hfirst, hlast, hnbIn, hnbOut, hrun, hrest, rfl⟩ := h
    have hfm : first ∈ run := List.mem_of_mem_head? hfirst
    have hlm : last ∈ run := List.mem_of_getLast? hlast
    refine ⟨[entryPt pl.sign (crossing pl) id nbIn first], run, [exitPt pl.sign (crossing pl) id last nbOut], by simp, by simp,
      by simp, ?_, ?_, ?_, ?_⟩
    · intro h0; subst h0; simp at hfirst
    · intro p hp; exact (front_iff pl p).mp (hrun p hp)
    · intro p hp
      simp only [List.cons_append, List.nil_append, List.mem_cons, List.not_mem_nil, or_false] at hp
      rcases hp with rfl | rfl
      · exact entryPt_on_plane pl nbIn first (hrest nbIn (List.mem_of_getLast? hnbIn)) (hrun first hfm)
      · exact exitPt_on_plane pl last nbOut (hrun last hlm) (hrest nbOut (List.mem_of_mem_head? hnbOut))
    · refine ⟨A, rest ++ B, ?_⟩
      have : A ++ B ++ (A ++ B) = A ++ (B ++ A) ++ B := by simp
      rw [this, hrot]; simp

/-- no returned point is behind the plane -/
theorem C06_not_behind (pl : Plane K) (closed : Bool) (vs out : List (V3 K))
    (h : sliceSpec pl closed vs = .ok out) : ∀ p ∈ out, 0 ≤ pl.signedDistance p := by
  obtain ⟨entry, run, exit, rfl, _, _, _, hrun, hends, _⟩ := C06_interior_identical pl closed vs out h
  intro p hp
  simp only [List.mem_append] at hp
  rcases hp with (hp | hp) | hp
  · exact le_of_eq (hends p (by simp [hp])).symm
  · exact le_of_lt (hrun p hp)
  · exact le_of_eq (hends p (by simp [hp])).symm

/-! ### the hypotheses are satisfiable: a closed unit square cut by the plane `x = 1/2`; the run in front wraps
around the end of the vertex list, both ends are crossings -/

example :
    slicedByPlane (K := ℚ) ⟨⟨1/2, 0, 0⟩, ⟨1, 0, 0⟩⟩ ⟨[⟨1, 0, 0⟩, ⟨0, 0, 0⟩, ⟨0, 1, 0⟩, ⟨1, 1, 0⟩], true⟩
      = .ok ([⟨1/2, 1, 0⟩, ⟨1, 1, 0⟩, ⟨1, 0, 0⟩, ⟨1/2, 0, 0⟩], false) := by
  have key : sliceSpec (K := ℚ) ⟨⟨1/2, 0, 0⟩, ⟨1, 0, 0⟩⟩ true [⟨1, 0, 0⟩, ⟨0, 0, 0⟩, ⟨0, 1, 0⟩, ⟨1, 1, 0⟩]
      = .ok [⟨1/2, 1, 0⟩, ⟨1, 1, 0⟩, ⟨1, 0, 0⟩, ⟨1/2, 0, 0⟩] := by
    rw [C06_spec_ok_iff]
    unfold SliceRel
    simp only [if_true]
    have d : ∀ p : V3 ℚ, (⟨⟨1/2, 0, 0⟩, ⟨1, 0, 0⟩⟩ : Plane ℚ).signedDistance p = p.x - 1/2 := by
      intro p
      simp only [signedDistance, signedDistanceEq, equation, eqNormal, eqOffset, V3.dot_def]
      ring
    have fr : ∀ p : V3 ℚ, 1/2 < p.x → isFront (⟨⟨1/2, 0, 0⟩, ⟨1, 0, 0⟩⟩ : Plane ℚ).sign p = true := by
      intro p hp; rw [front_iff, d]; linarith
    have nf : ∀ p : V3 ℚ, p.x < 1/2 → isFront (⟨⟨1/2, 0, 0⟩, ⟨1, 0, 0⟩⟩ : Plane ℚ).sign p = false := by
      intro p hp
      cases hf : isFront (⟨⟨1/2, 0, 0⟩, ⟨1, 0, 0⟩⟩ : Plane ℚ).sign p with
      | false => rfl
      | true => rw [front_iff, d] at hf; linarith
    have n0 : ∀ p : V3 ℚ, p.x < 1/2 → (⟨⟨1/2, 0, 0⟩, ⟨1, 0, 0⟩⟩ : Plane ℚ).sign p ≠ 0 := by
      intro p hp h0; rw [sign_zero_iff, d] at h0; linarith
    refine ⟨[⟨1, 0, 0⟩, ⟨0, 0, 0⟩, ⟨0, 1, 0⟩], [⟨1, 1, 0⟩], [⟨1, 1, 0⟩, ⟨1, 0, 0⟩], [⟨0, 0, 0⟩, ⟨0, 1, 0⟩],
      ⟨1, 1, 0⟩, ⟨1, 0, 0⟩, ⟨0, 1, 0⟩, ⟨0, 0, 0⟩, rfl, rfl, rfl, rfl, rfl, rfl, ?_, ?_, ?_⟩
    · intro p hp
      simp only [List.mem_cons, List.not_mem_nil, or_false] at hp
      rcases hp with rfl | rfl <;> exact fr _ (by norm_num)
    · intro p hp
      simp only [List.mem_cons, List.not_mem_nil, or_false] at hp
      rcases hp with rfl | rfl <;> exact nf _ (by norm_num)
    · have e1 : entryPt (⟨⟨1/2, 0, 0⟩, ⟨1, 0, 0⟩⟩ : Plane ℚ).sign (crossing (⟨⟨1/2, 0, 0⟩, ⟨1, 0, 0⟩⟩ : Plane ℚ)) id
          ⟨0, 1, 0⟩ ⟨1, 1, 0⟩ = ⟨1/2, 1, 0⟩ := by
        unfold entryPt
        rw [if_neg (n0 _ (by norm_num))]
        unfold crossing
        ext <;> simp only [d, V3.add_x, V3.add_y, V3.add_z, V3.smul_x, V3.smul_y, V3.smul_z, V3.sub_x, V3.sub_y,
          V3.sub_z] <;> norm_num
      have e2 : exitPt (⟨⟨1/2, 0, 0⟩, ⟨1, 0, 0⟩⟩ : Plane ℚ).sign (crossing (⟨⟨1/2, 0, 0⟩, ⟨1, 0, 0⟩⟩ : Plane ℚ)) id
          ⟨1, 0, 0⟩ ⟨0, 0, 0⟩ = ⟨1/2, 0, 0⟩ := by
        unfold exitPt
        rw [if_neg (n0 _ (by norm_num))]
        unfold crossing
        ext <;> simp only [d, V3.add_x, V3.add_y, V3.add_z, V3.smul_x, V3.smul_y, V3.smul_z, V3.sub_x, V3.sub_y,
          V3.sub_z] <;> norm_num
      rw [e1, e2]
      rfl
  rw [C06_spec, key]
  rfl

/-! ## what the model takes from the source

`harness/translate/c06.py` reads the sign tests, index offsets, NaN rules and refusal conditions of
`slice_open_polyline_by_plane`, of the closed branch of `Polyline.sliced_by_plane` and of
`intersect_segment_with_plane` out of the source text into `PW/Gen/PolySlice.lean` on every run (local names replaced
by what they were assigned; the large sub-expressions abbreviated by the structural labels SIGNS, TP, COMPONENTS,
CSIGNS, CIF, C, FRONT, VIF, VNF, ROLL, ROLLED, WORKING, T).  The theorems below state that each generated value is the
one the hand-written model `PW/Model/SliceByPlane.lean` was written from — and, where the literal is a Lean literal of
the model, that the model computes with exactly the generated value — so that an edit of one of them in the source
breaks a proof obligation here. -/

/-- the sign tests: transitions are `signs[:-1] != signs[1:]`, a component is in front when its sign `== 1`:
    the model's `transitionPoints` and `isFront` are these generated operators. -/
theorem gen_sign_tests :
    PW.Gen.PolySlice.signsSrc = "np.sign(plane.signed_distance(vertices))" ∧
    PW.Gen.PolySlice.transitionCmp = .ne ∧ PW.Gen.PolySlice.transitionOperands = ["SIGNS[1:]", "SIGNS[:-1]"] ∧
    PW.Gen.PolySlice.frontCmp = .eq ∧ PW.Gen.PolySlice.frontSign = 1 ∧
    (∀ signs : List Int, transitionPoints signs =
      nonzeroFrom 0 (List.zipWith (fun a b => PW.Gen.PolySlice.transitionCmp.test a b) signs signs.tail)) ∧
    (∀ {α : Type} (sg : α → Int) (a : α),
      isFront sg a = PW.Gen.PolySlice.frontCmp.test (sg a) PW.Gen.PolySlice.frontSign) := by
  refine ⟨rfl, by decide, by decide, by decide, by decide, ?_, ?_⟩
  · intro signs
    have h : (fun a b : Int => PW.Gen.PolySlice.transitionCmp.test a b) = (fun a b => a != b) := by
      funext a b
      rw [Bool.eq_iff_iff]
      simp [PW.Gen.Cmp.test, PW.Gen.PolySlice.transitionCmp]
    rw [h]
    rfl
  · intro α sg a
    rw [Bool.eq_iff_iff]
    simp [isFront, PW.Gen.Cmp.test, PW.Gen.PolySlice.frontCmp, PW.Gen.PolySlice.frontSign]

/-- `slice_open_polyline_by_plane` written out with every literal, operator, offset, index, refusal (order, tested
    quantity, class) and argument order *as generated from the source*; `gen_open_slicer` proves it is the model's
    `sliceOpenRunsG`.  `CIF` / `COMPONENTS` name the list whose length a refusal tests; `neighbour` / `run` name the two
    arguments of the crossing helper. -/
def genSliceOpenRuns {α β : Type} (sg : α → Int) (cross : α → α → β) (keep : α → β) (vs : List α) : Res (List β) :=
  if PW.Gen.PolySlice.emptyCmp.test (vs.length : Int) PW.Gen.PolySlice.emptyRhs then
    .error (PW.Gen.errOfName PW.Gen.PolySlice.emptyRaises) else
  let signs := vs.map sg
  let tp := nonzeroFrom 0 (List.zipWith (fun a b => PW.Gen.PolySlice.transitionCmp.test a b) signs signs.tail)
  let cutsSplit := tp.map fun (t : Nat) => (PW.Gen.PolySlice.splitCoef * (t : Int) + PW.Gen.PolySlice.splitOffset).toNat
  let cutsSign := tp.map fun (t : Nat) => (PW.Gen.PolySlice.signIndexCoef * (t : Int) + PW.Gen.PolySlice.signIndexOffset).toNat
  let components := vsplitFrom 0 vs cutsSplit
  let componentSigns := (PW.Gen.PolySlice.signIndexFirst.toNat :: cutsSign).map fun i => signs.getD i 0
  let cif := nonzeroFrom 0 (componentSigns.map fun s => PW.Gen.PolySlice.frontCmp.test s PW.Gen.PolySlice.frontSign)
  let lenOf : String → Int := fun s =>
    if s = "CIF" then (cif.length : Int) else if s = "COMPONENTS" then (components.length : Int) else -1
  let raised : Nat → Err := fun i => PW.Gen.errOfName (PW.Gen.PolySlice.refusalRaises.getD i "")
  if PW.Gen.PolySlice.noneInFrontCmp.test (lenOf PW.Gen.PolySlice.noneInFrontOf) PW.Gen.PolySlice.noneInFrontRhs then
    .error (raised 0)
  else if PW.Gen.PolySlice.tooManyCmp.test (lenOf PW.Gen.PolySlice.tooManyOf) PW.Gen.PolySlice.tooManyRhs then
    .error (raised 1)
  else if PW.Gen.PolySlice.allInFrontCmp.test (lenOf PW.Gen.PolySlice.allInFrontOf) PW.Gen.PolySlice.allInFrontRhs then
    .error (raised 2)
  else
    match cif with
    | [c] =>
      let vertsInFront := components.getD c []
      match PW.Gen.pyGet? vertsInFront PW.Gen.PolySlice.prependRunIndex,
            PW.Gen.pyGet? vertsInFront PW.Gen.PolySlice.appendRunIndex with
      | some first, some last =>
        let pick : String → α → α → Option α := fun s nb run =>
          if s = "neighbour" then some nb else if s = "run" then some run else none
        let crossOf : List String → α → α → Res (List β) := fun order nb run =>
          match pick (order.getD 0 "") nb run, pick (order.getD 1 "") nb run with
          | some x, some y => .ok [cross x y]
          | _, _ => .error .Other
        let prepend : Res (List β) :=
          if PW.Gen.PolySlice.prependGuardCmp.test ((c : Int) + PW.Gen.PolySlice.prependGuardOffset)
              PW.Gen.PolySlice.prependGuardRhs then
            match PW.Gen.pyGet? (components.getD ((c : Int) + PW.Gen.PolySlice.prependCompOffset).toNat [])
                PW.Gen.PolySlice.prependRowIndex with
            | some adjacent =>
              if PW.Gen.PolySlice.prependOnPlaneCmp.test
                  (componentSigns.getD ((c : Int) + PW.Gen.PolySlice.prependSignOffset).toNat 0)
                  PW.Gen.PolySlice.prependOnPlaneRhs then .ok [keep adjacent]
              else crossOf PW.Gen.PolySlice.prependCrossOrder adjacent first
            | none => .error .IndexError
          else .ok (List.replicate PW.Gen.PolySlice.prependEmptyRows.toNat (keep first))
        let append : Res (List β) :=
          if PW.Gen.PolySlice.appendGuardCmp.test ((c : Int) + PW.Gen.PolySlice.appendGuardOffset)
              (components.length : Int) then
            match PW.Gen.pyGet? (components.getD ((c : Int) + PW.Gen.PolySlice.appendCompOffset).toNat [])
                PW.Gen.PolySlice.appendRowIndex with
            | some adjacent =>
              if PW.Gen.PolySlice.appendOnPlaneCmp.test
                  (componentSigns.getD ((c : Int) + PW.Gen.PolySlice.appendSignOffset).toNat 0)
                  PW.Gen.PolySlice.appendOnPlaneRhs then .ok [keep adjacent]
              else crossOf PW.Gen.PolySlice.appendCrossOrder adjacent last
            | none => .error .IndexError
          else .ok (List.replicate PW.Gen.PolySlice.appendEmptyRows.toNat (keep last))
        match prepend, append with
        | .ok pre, .ok app => .ok (pre ++ vertsInFront.map keep ++ app)
        | .error e, _ => .error e
        | _, .error e => .error e
      | _, _ => .error .IndexError
    | _ => .error .Other

theorem pyGet?_zero {α : Type} (l : List α) : PW.Gen.pyGet? l 0 = l.head? := by
  cases l <;> simp [PW.Gen.pyGet?]

theorem pyGet?_neg_one {α : Type} (l : List α) : PW.Gen.pyGet? l (-1) = l.getLast? := by
  rw [List.getLast?_eq_getElem?]
  cases l <;> simp [PW.Gen.pyGet?]

/-- [semantic] the whole open slicer: the model's `sliceOpenRunsG` IS the function obtained from the generated literals —
    the `num_v == 0` refusal, the transition test, the `+ 1` split and sign-index offsets and the leading `0`, the
    `== 1` front test, the three refusals in the source's order (tested list, operator, bound, class), the run
    `COMPONENTS[C]`, and in the prepend / append blocks the guards (`C > 0`, `C + 1 < len(COMPONENTS)`), the neighbour
    (`COMPONENTS[C ∓ 1][-1 | 0]`), the on-plane test (`CSIGNS[C ∓ 1] == 0`), the argument order of the crossing helper
    and the run end it uses (`FRONT[0]`, `FRONT[-1]`), and the empty row blocks (`np.zeros((0, 3))`).
    This is what ties `gen_cut_offsets`, `gen_refusals` and `gen_run_ends` to the model. -/
theorem gen_open_slicer {α β : Type} (sg : α → Int) (cross : α → α → β) (keep : α → β) (vs : List α) :
    sliceOpenRunsG sg cross keep vs = genSliceOpenRuns sg cross keep vs := by
  have hT : (fun a b : Int => PW.Gen.PolySlice.transitionCmp.test a b) = (fun a b => a != b) := by
    funext a b
    rw [Bool.eq_iff_iff]
    simp [PW.Gen.Cmp.test, PW.Gen.PolySlice.transitionCmp]
  have hF : (fun s : Int => PW.Gen.PolySlice.frontCmp.test s PW.Gen.PolySlice.frontSign) = (· == 1) := by
    funext s
    rw [Bool.eq_iff_iff]
    simp [PW.Gen.Cmp.test, PW.Gen.PolySlice.frontCmp, PW.Gen.PolySlice.frontSign]
  have hS : (fun t : Nat => (PW.Gen.PolySlice.splitCoef * (t : Int) + PW.Gen.PolySlice.splitOffset).toNat) = (· + 1) := by
    funext t
    simp only [PW.Gen.PolySlice.splitCoef, PW.Gen.PolySlice.splitOffset]
    omega
  have hI : (fun t : Nat => (PW.Gen.PolySlice.signIndexCoef * (t : Int) + PW.Gen.PolySlice.signIndexOffset).toNat)
      = (· + 1) := by
    funext t
    simp only [PW.Gen.PolySlice.signIndexCoef, PW.Gen.PolySlice.signIndexOffset]
    omega
  have e1 : ∀ c : Nat, ((c : Int) + -1).toNat = c - 1 := by intro c; omega
  have e2 : ∀ c : Nat, ((c : Int) + 1).toNat = c + 1 := by intro c; omega
  unfold genSliceOpenRuns sliceOpenRunsG
  simp only [hT, hF, hS, hI, transitionPoints]
  simp only [PW.Gen.PolySlice.emptyCmp, PW.Gen.PolySlice.emptyRhs, PW.Gen.PolySlice.emptyRaises,
    PW.Gen.PolySlice.signIndexFirst, PW.Gen.PolySlice.noneInFrontCmp, PW.Gen.PolySlice.noneInFrontOf,
    PW.Gen.PolySlice.noneInFrontRhs, PW.Gen.PolySlice.tooManyCmp, PW.Gen.PolySlice.tooManyOf,
    PW.Gen.PolySlice.tooManyRhs, PW.Gen.PolySlice.allInFrontCmp, PW.Gen.PolySlice.allInFrontOf,
    PW.Gen.PolySlice.allInFrontRhs, PW.Gen.PolySlice.refusalRaises, PW.Gen.PolySlice.prependRunIndex,
    PW.Gen.PolySlice.appendRunIndex, PW.Gen.PolySlice.prependGuardCmp, PW.Gen.PolySlice.prependGuardOffset,
    PW.Gen.PolySlice.prependGuardRhs, PW.Gen.PolySlice.prependCompOffset, PW.Gen.PolySlice.prependRowIndex,
    PW.Gen.PolySlice.prependOnPlaneCmp, PW.Gen.PolySlice.prependSignOffset, PW.Gen.PolySlice.prependOnPlaneRhs,
    PW.Gen.PolySlice.prependCrossOrder, PW.Gen.PolySlice.prependEmptyRows, PW.Gen.PolySlice.appendGuardCmp,
    PW.Gen.PolySlice.appendGuardOffset, PW.Gen.PolySlice.appendCompOffset, PW.Gen.PolySlice.appendRowIndex,
    PW.Gen.PolySlice.appendOnPlaneCmp, PW.Gen.PolySlice.appendSignOffset, PW.Gen.PolySlice.appendOnPlaneRhs,
    PW.Gen.PolySlice.appendCrossOrder, PW.Gen.PolySlice.appendEmptyRows, PW.Gen.errOfName, PW.Gen.Cmp.test,
    pyGet?_zero, pyGet?_neg_one, e1, e2]
  simp only [Int.toNat_zero, String.reduceEq, if_true, if_false, List.getD_cons_zero, List.getD_cons_succ,
    decide_eq_true_eq, Int.natCast_eq_zero, ite_true, ite_false, reduceIte]
  split
  · rfl
  · split
    · rename_i heq
      simp only [heq, List.length_nil]
      rw [if_pos (by simp)]
    · rename_i heq
      simp only [heq, List.length_cons]
      rw [if_neg (by omega), if_pos (by omega)]
    · rename_i c heq
      simp only [heq, List.length_cons, List.length_nil]
      rw [if_neg (by omega), if_neg (by omega)]
      have hlt : ∀ n : Nat, ((n : Int) < 2) = (n < 2) := by intro n; apply propext; omega
      have h0 : ∀ n : Nat, (0 < (n : Int) + 0) = (n > 0) := by intro n; apply propext; omega
      have h1 : ∀ n m : Nat, ((n : Int) + 1 < (m : Int)) = (n + 1 < m) := by intro n m; apply propext; omega
      simp only [hlt, h0, h1, beq_iff_eq, List.getD_cons_zero, List.getD_cons_succ, String.reduceEq, if_true, if_false,
        ite_true, ite_false, Int.toNat_zero, List.replicate_zero, gt_iff_lt]
      rfl

/-- [text; semantic through `gen_open_slicer`] the index offsets: the polyline is split at `transition_points + 1`, the
    sign of a component is read at `0` and at `transition_points + 1`. -/
theorem gen_cut_offsets :
    PW.Gen.PolySlice.splitCoef = 1 ∧ PW.Gen.PolySlice.splitOffset = 1 ∧ PW.Gen.PolySlice.signIndexFirst = 0 ∧
    PW.Gen.PolySlice.signIndexCoef = 1 ∧ PW.Gen.PolySlice.signIndexOffset = 1 ∧
    PW.Gen.PolySlice.sameTransitionPoints = some true := by decide

/-- [text; semantic through `gen_open_slicer`] the refusals, in the code's order: no vertices (`num_v == 0`);
    `len(components_in_front) == 0`; `> 1`; `len(components) < 2` — all `ValueError`. -/
theorem gen_refusals :
    (PW.Gen.PolySlice.emptyCmp = .eq ∧ PW.Gen.PolySlice.emptyRhs = 0 ∧ PW.Gen.PolySlice.emptyRaises = "ValueError") ∧
    (PW.Gen.PolySlice.noneInFrontCmp = .eq ∧ PW.Gen.PolySlice.noneInFrontRhs = 0 ∧ PW.Gen.PolySlice.noneInFrontOf = "CIF") ∧
    (PW.Gen.PolySlice.tooManyCmp = .gt ∧ PW.Gen.PolySlice.tooManyRhs = 1 ∧ PW.Gen.PolySlice.tooManyOf = "CIF") ∧
    (PW.Gen.PolySlice.allInFrontCmp = .lt ∧ PW.Gen.PolySlice.allInFrontRhs = 2 ∧
      PW.Gen.PolySlice.allInFrontOf = "COMPONENTS") ∧
    PW.Gen.PolySlice.sameComponentsInFront = some true ∧
    PW.Gen.PolySlice.refusalRaises = ["ValueError", "ValueError", "ValueError"] := by
  refine ⟨⟨by decide, by decide, rfl⟩, ⟨by decide, by decide, rfl⟩, ⟨by decide, by decide, rfl⟩,
    ⟨by decide, by decide, rfl⟩, by decide, by decide⟩

/-- [text; semantic through `gen_open_slicer`] the kept run and the rows put before / after it, as normalised text and
    as the structured pieces `gen_open_slicer` computes with. -/
theorem gen_run_ends :
    (PW.Gen.PolySlice.runSrc = "COMPONENTS[C]" ∧ PW.Gen.PolySlice.runIsTheOneInFront = some true ∧
      PW.Gen.PolySlice.prependSrc =
        "(COMPONENTS[C - 1][-1] if CSIGNS[C - 1] == 0 else CROSSING(COMPONENTS[C - 1][-1], FRONT[0])) if C > 0 else np.zeros((0, 3))" ∧
      PW.Gen.PolySlice.appendSrc =
        "(COMPONENTS[C + 1][0] if CSIGNS[C + 1] == 0 else CROSSING(FRONT[-1], COMPONENTS[C + 1][0])) if C + 1 < len(COMPONENTS) else np.zeros((0, 3))") ∧
    (PW.Gen.PolySlice.prependGuardCmp = .gt ∧ PW.Gen.PolySlice.prependGuardOffset = 0 ∧
      PW.Gen.PolySlice.prependGuardRhs = 0 ∧ PW.Gen.PolySlice.prependCompOffset = -1 ∧
      PW.Gen.PolySlice.prependRowIndex = -1 ∧ PW.Gen.PolySlice.prependOnPlaneCmp = .eq ∧
      PW.Gen.PolySlice.prependSignOffset = -1 ∧ PW.Gen.PolySlice.prependOnPlaneRhs = 0 ∧
      PW.Gen.PolySlice.prependCrossOrder = ["neighbour", "run"] ∧ PW.Gen.PolySlice.prependRunIndex = 0 ∧
      PW.Gen.PolySlice.prependEmptyRows = 0) ∧
    (PW.Gen.PolySlice.appendGuardCmp = .lt ∧ PW.Gen.PolySlice.appendGuardOffset = 1 ∧
      PW.Gen.PolySlice.appendCompOffset = 1 ∧ PW.Gen.PolySlice.appendRowIndex = 0 ∧
      PW.Gen.PolySlice.appendOnPlaneCmp = .eq ∧ PW.Gen.PolySlice.appendSignOffset = 1 ∧
      PW.Gen.PolySlice.appendOnPlaneRhs = 0 ∧ PW.Gen.PolySlice.appendCrossOrder = ["run", "neighbour"] ∧
      PW.Gen.PolySlice.appendRunIndex = -1 ∧ PW.Gen.PolySlice.appendEmptyRows = 0) :=
  ⟨⟨rfl, by decide, rfl, rfl⟩, by decide, by decide⟩

/-- the local helper `intersection_with_plane(start, end)`: `(d_s, d_e) = plane.signed_distance([start, end])`,
    `start + d_s / (d_s - d_e) * (end - start)`: the model's `crossing` divides by exactly the generated combination
    of the two signed distances. -/
theorem gen_crossing :
    PW.Gen.PolySlice.crossingDistancesSrc = "plane.signed_distance(np.array([START, END]))" ∧
    PW.Gen.PolySlice.crossingSrc = "(END - START) * (D_START / (D_START - D_END)) + START" ∧
    PW.Gen.PolySlice.crossingNumeratorIsStart = some true ∧ PW.Gen.PolySlice.crossingDenStartCoef = 1 ∧
    PW.Gen.PolySlice.crossingDenEndCoef = -1 ∧
    ∀ (pl : Plane K) (a b : V3 K), crossing pl a b =
      a + V3.smul (pl.signedDistance a /
        (((PW.Gen.PolySlice.crossingDenStartCoef : Int) : K) * pl.signedDistance a +
         ((PW.Gen.PolySlice.crossingDenEndCoef : Int) : K) * pl.signedDistance b)) (b - a) := by
  refine ⟨rfl, rfl, by decide, by decide, by decide, ?_⟩
  intro pl a b
  have h : ((PW.Gen.PolySlice.crossingDenStartCoef : Int) : K) * pl.signedDistance a +
      ((PW.Gen.PolySlice.crossingDenEndCoef : Int) : K) * pl.signedDistance b =
      pl.signedDistance a - pl.signedDistance b := by
    simp only [PW.Gen.PolySlice.crossingDenStartCoef, PW.Gen.PolySlice.crossingDenEndCoef]
    push_cast
    ring
  rw [h]
  rfl

/-- the roll of the closed branch: `-vertices_not_in_front[-1]` when the last vertex is in front (`== 1`, set `!= 1`),
    `-vertices_in_front[0] + 1` otherwise (set `== 1`), `0` when the set is empty: the model's `closedRoll` computes with
    exactly the generated operators, coefficients and offsets. -/
theorem gen_closed_roll :
    (PW.Gen.PolySlice.lastFrontCmp = .eq ∧ PW.Gen.PolySlice.lastFrontLhs = "SIGNS[-1]" ∧
      PW.Gen.PolySlice.rollBackIndex = -1 ∧ PW.Gen.PolySlice.rollFrontIndex = 0 ∧
      PW.Gen.PolySlice.rollBackLenCmp = .gt ∧ PW.Gen.PolySlice.rollBackLenRhs = 0 ∧
      PW.Gen.PolySlice.rollFrontLenCmp = .gt ∧ PW.Gen.PolySlice.rollFrontLenRhs = 0 ∧
      PW.Gen.PolySlice.rollBackConsistent = some true ∧ PW.Gen.PolySlice.rollFrontConsistent = some true) ∧
    PW.Gen.PolySlice.rollSrc =
      "(-VNF[-1] if len(VNF) > 0 else 0) if SIGNS[-1] == 1 else -VIF[0] + 1 if len(VIF) > 0 else 0" ∧
    ∀ signs : List Int, closedRoll signs =
      if signs.getLast? == some PW.Gen.PolySlice.lastFrontRhs then
        match lastTrue? (signs.map fun s => PW.Gen.PolySlice.rollBackSetCmp.test s PW.Gen.PolySlice.rollBackSetRhs) with
        | some k => PW.Gen.PolySlice.rollBackCoef * (k : Int) + PW.Gen.PolySlice.rollBackOffset
        | none => PW.Gen.PolySlice.rollBackElse
      else
        match firstTrue? (signs.map fun s => PW.Gen.PolySlice.rollFrontSetCmp.test s PW.Gen.PolySlice.rollFrontSetRhs) with
        | some f => PW.Gen.PolySlice.rollFrontCoef * (f : Int) + PW.Gen.PolySlice.rollFrontOffset
        | none => PW.Gen.PolySlice.rollFrontElse := by
  refine ⟨by decide, rfl, ?_⟩
  intro signs
  have h1 : (fun s : Int => PW.Gen.PolySlice.rollBackSetCmp.test s PW.Gen.PolySlice.rollBackSetRhs) = (· != 1) := by
    funext s
    rw [Bool.eq_iff_iff]
    simp [PW.Gen.Cmp.test, PW.Gen.PolySlice.rollBackSetCmp, PW.Gen.PolySlice.rollBackSetRhs]
  have h2 : (fun s : Int => PW.Gen.PolySlice.rollFrontSetCmp.test s PW.Gen.PolySlice.rollFrontSetRhs) = (· == 1) := by
    funext s
    rw [Bool.eq_iff_iff]
    simp [PW.Gen.Cmp.test, PW.Gen.PolySlice.rollFrontSetCmp, PW.Gen.PolySlice.rollFrontSetRhs]
  rw [h1, h2]
  unfold closedRoll
  simp only [PW.Gen.PolySlice.lastFrontRhs, PW.Gen.PolySlice.rollBackCoef, PW.Gen.PolySlice.rollBackOffset,
    PW.Gen.PolySlice.rollBackElse, PW.Gen.PolySlice.rollFrontCoef, PW.Gen.PolySlice.rollFrontOffset,
    PW.Gen.PolySlice.rollFrontElse, neg_one_mul, add_zero]
  rfl

/-- [semantic + text] what the closed branch hands to the open slicer.  Semantic: the model's `workingVertices` takes the
    closed branch exactly when `closed` and `num_v > 1` (generated operator and bound), and repeats the first
    `repeatStop` rows of the rolled list at its end; `slicedByPlaneG` returns the open slicer's rows with the generated
    `is_closed` flag.  Text only: the `…Src` strings (record) and `rollAxis` (`axis=0`: rows — lists have no axis). -/
theorem gen_working_vertices :
    (PW.Gen.PolySlice.closedSignsSrc = "np.sign(plane.signed_distance(self.v))" ∧
      PW.Gen.PolySlice.rolledSrc = "np.roll(self.v, ROLL, axis=0)" ∧
      PW.Gen.PolySlice.workingSrc = "_vcat([ROLLED, ROLLED[:1]]) if self.is_closed and self.num_v > 1 else self.v" ∧
      PW.Gen.PolySlice.closedGuardSrc = "self.is_closed and self.num_v > 1" ∧
      PW.Gen.PolySlice.resultSrc = "Polyline(is_closed=False, v=slice_open_polyline_by_plane(WORKING, plane))" ∧
      PW.Gen.PolySlice.closedGuardLhs = "self.num_v" ∧ PW.Gen.PolySlice.rollAxis = 0) ∧
    (∀ {α : Type} (sg : α → Int) (closed : Bool) (vs : List α), workingVertices sg closed vs =
      if closed && PW.Gen.PolySlice.closedGuardCmp.test (vs.length : Int) PW.Gen.PolySlice.closedGuardRhs then
        npRoll vs (closedRoll (vs.map sg)) ++
          (npRoll vs (closedRoll (vs.map sg))).take PW.Gen.PolySlice.repeatStop.toNat
      else vs) ∧
    (∀ {α β : Type} (sg : α → Int) (cross : α → α → β) (keep : α → β) (closed : Bool) (vs : List α),
      slicedByPlaneG sg cross keep closed vs =
        match sliceOpenRunsG sg cross keep (workingVertices sg closed vs) with
        | .ok v => .ok (v, PW.Gen.PolySlice.resultIsClosed.getD true)
        | .error e => .error e) := by
  refine ⟨⟨rfl, rfl, rfl, rfl, rfl, rfl, by decide⟩, ?_, ?_⟩
  · intro α sg closed vs
    simp [workingVertices, PW.Gen.Cmp.test, PW.Gen.PolySlice.closedGuardCmp, PW.Gen.PolySlice.closedGuardRhs,
      PW.Gen.PolySlice.repeatStop]
  · intro α β sg cross keep closed vs
    rfl

/-- `intersect_segment_with_plane`: `T = nan_to_num(dot(q − start, n) / dot(vec, n))`, point `start + T * vec`, row set
    to NaN when `T < 0` or `T > 1`: for a non-zero denominator the model's `intersectSegmentWithPlane` is exactly this
    with the generated operators and bounds. -/
theorem gen_nan_rules :
    (PW.Gen.PolySlice.nanLowCmp = .lt ∧ PW.Gen.PolySlice.nanLowRhs = 0 ∧ PW.Gen.PolySlice.nanHighCmp = .gt ∧
      PW.Gen.PolySlice.nanHighRhs = 1 ∧ PW.Gen.PolySlice.nanRulesOk = some true) ∧
    PW.Gen.PolySlice.paramSrc =
      "np.nan_to_num(vg.dot(points_on_plane - start_points, plane_normals) / vg.dot(segment_vectors, plane_normals))" ∧
    PW.Gen.PolySlice.pointSrc = "T.reshape(-1, 1) * segment_vectors + start_points" ∧
    ∀ (start segv ref n : V3 K), segv.dot n ≠ 0 →
      intersectSegmentWithPlane start segv ref n =
        if PW.Gen.PolySlice.nanLowCmp.test ((ref - start).dot n / segv.dot n) ((PW.Gen.PolySlice.nanLowRhs : Int) : K) ||
            PW.Gen.PolySlice.nanHighCmp.test ((ref - start).dot n / segv.dot n) ((PW.Gen.PolySlice.nanHighRhs : Int) : K)
        then none else some (start + V3.smul ((ref - start).dot n / segv.dot n) segv) := by
  refine ⟨by decide, rfl, rfl, ?_⟩
  intro start segv ref n h
  unfold intersectSegmentWithPlane
  have hden : segv.dot n < 0 ∨ 0 < segv.dot n := lt_or_gt_of_ne h
  simp only [if_pos hden]
  simp [PW.Gen.Cmp.test, PW.Gen.PolySlice.nanLowCmp, PW.Gen.PolySlice.nanLowRhs, PW.Gen.PolySlice.nanHighCmp,
    PW.Gen.PolySlice.nanHighRhs]

/-- [text] what the symbolic reader does not interpret, pinned to the source the model was written from: for every
    function read by `harness/translate/c06.py` (and the local crossing helper, found by structure) its decorators, its
    parameter list with defaults, the statements whose effect is not modelled (imports, shape checks, the `def` of the
    local helper — any added in-place call, loop, `with`, `try`, `del`, … shows up here), and the number of other
    bindings of its name in the enclosing scope. -/
theorem gen_function_shapes :
    PW.Gen.PolySlice.functionShapes =
      [("slice_open_polyline_by_plane", [], "vertices, plane", ["importfrom from .. import Plane", "def"], 0),
       ("slice_open_polyline_by_plane.<local helper>", [], "2 positional", [], 0),
       ("Polyline.sliced_by_plane", [], "self, plane", ["importfrom from ._slice_by_plane import slice_open_polyline_by_plane"], 0),
       ("intersect_segment_with_plane", [], "start_points, segment_vectors, points_on_plane, plane_normals", ["expr vg.shape.check(locals(), 'plane_normals', start_points.shape)", "expr vg.shape.check(locals(), 'points_on_plane', start_points.shape)", "expr vg.shape.check(locals(), 'segment_vectors', start_points.shape)"], 0)] := by rfl

end PW.C06
