/-
  C17 — Box is the tight axis-aligned bound; cloud extent and percentile are exact.

  Property theorems only (helpers in PW/Lemmas/Box.lean, PW/Lemmas/Pointcloud.lean).  `K` is an arbitrary linearly
  ordered field; `extent` and `percentile` (square roots) are over ℝ.  The `gen_*` theorems tie the formulas
  regenerated from polliwog/box/_box_object.py (PW/Gen/BoxFormulas.lean) to the model: editing a formula or a
  table entry in the source breaks one of them.
-/
import PW.Model.Box
import PW.Model.Pointcloud
import PW.Gen.BoxFormulas
import PW.Lemmas.Vec
import PW.Lemmas.Box
import PW.Lemmas.Pointcloud
import PW.Lemmas.RealNormC16C17
import Mathlib.Tactic.Ring
import Mathlib.Tactic.CasesM
import Mathlib.Tactic.Linarith
import Mathlib.Tactic.Positivity
import Mathlib.Tactic.FieldSimp
import Mathlib.Tactic.LinearCombination
import Mathlib.Tactic.NormNum
import Mathlib.Algebra.Order.Field.Basic
import Mathlib.Analysis.Real.Sqrt

set_option linter.unusedSectionVars false
set_option linter.unusedTactic false
set_option linter.unusedSimpArgs false

namespace PW.C17

open PW.Box

/-- closes what `simp` leaves of a componentwise equality: conjunctions of ring identities -/
macro "split_ring" : tactic => `(tactic| all_goals ((try constructorm* _ ∧ _) <;> ring))

section field
variable {K : Type} [Field K] [LinearOrder K] [IsStrictOrderedRing K]

/-! ## the generated formulas are the model's -/

theorem gen_scalars (o s : V3 K) :
    Gen.BoxF.minX o s = (Box.mk o s).minX ∧ Gen.BoxF.minY o s = (Box.mk o s).minY ∧
    Gen.BoxF.minZ o s = (Box.mk o s).minZ ∧ Gen.BoxF.maxX o s = (Box.mk o s).maxX ∧
    Gen.BoxF.maxY o s = (Box.mk o s).maxY ∧ Gen.BoxF.maxZ o s = (Box.mk o s).maxZ ∧
    Gen.BoxF.midX o s = (Box.mk o s).midX ∧ Gen.BoxF.midY o s = (Box.mk o s).midY ∧
    Gen.BoxF.midZ o s = (Box.mk o s).midZ ∧ Gen.BoxF.width o s = (Box.mk o s).width ∧
    Gen.BoxF.height o s = (Box.mk o s).height ∧ Gen.BoxF.depth o s = (Box.mk o s).depth ∧
    Gen.BoxF.volume o s = (Box.mk o s).volume ∧ Gen.BoxF.surfaceArea o s = (Box.mk o s).surfaceArea := by
  refine ⟨?_, ?_, ?_, ?_, ?_, ?_, ?_, ?_, ?_, ?_, ?_, ?_, ?_, ?_⟩ <;>
    simp [Gen.BoxF.minX, Gen.BoxF.minY, Gen.BoxF.minZ, Gen.BoxF.maxX, Gen.BoxF.maxY, Gen.BoxF.maxZ,
      Gen.BoxF.midX, Gen.BoxF.midY, Gen.BoxF.midZ, Gen.BoxF.width, Gen.BoxF.height, Gen.BoxF.depth,
      Gen.BoxF.volume, Gen.BoxF.surfaceArea, minX, minY, minZ, maxX, maxY, maxZ, midX, midY, midZ, width, height,
      depth, volume, surfaceArea, two] <;> ring

theorem gen_points (o s : V3 K) :
    Gen.BoxF.centerPoint o s = (Box.mk o s).centerPoint ∧ Gen.BoxF.floorPoint o s = (Box.mk o s).floorPoint := by
  constructor <;> ext <;> simp [Gen.BoxF.centerPoint, Gen.BoxF.floorPoint, centerPoint, floorPoint, half] <;> ring

theorem gen_ranges (o s : V3 K) : Gen.BoxF.ranges o s = (Box.mk o s).ranges := by
  simp only [Gen.BoxF.ranges, ranges, minK, maxK]

theorem gen_v (o s : V3 K) : Gen.BoxF.v o s = (Box.mk o s).v := by
  simp [Gen.BoxF.v, Box.v, V3.ext_iff]
  split_ring

theorem gen_planes (o s : V3 K) :
    Gen.BoxF.planes o s = (Box.mk o s).planes.map fun p => (p.ref, p.n) := by
  simp [Gen.BoxF.planes, planes, minXPlane, minYPlane, minZPlane, maxXPlane, maxYPlane, maxZPlane, centerPoint,
    minX, minY, minZ, maxX, maxY, maxZ, half, V3.ext_iff]
  split_ring

theorem gen_contains (o s p : V3 K) (atol : K) :
    Gen.BoxF.contains o s p atol = (Box.mk o s).containsTol p atol ∧
    (Gen.BoxF.containsDefaultAtol : K) = 0 ∧
    (Box.mk o s).contains p none = (Box.mk o s).containsTol p 0 ∧
    (Box.mk o s).contains p (some atol) = (Box.mk o s).containsTol p atol := by
  refine ⟨?_, rfl, rfl, rfl⟩
  simp only [Gen.BoxF.contains, containsTol]

theorem gen_ctor (o s : V3 K) :
    (Gen.BoxF.ctorRejects s = true ↔ Box.mk? o s = .error .ValueError) ∧
    (Gen.BoxF.ctorRejects s = false ↔ Box.mk? o s = .ok ⟨o, s⟩) ∧ Gen.BoxF.ctorError = "ValueError" := by
  refine ⟨?_, ?_, by decide⟩
  · simp only [Gen.BoxF.ctorRejects, Box.mk?, Bool.or_eq_true, decide_eq_true_eq, or_assoc]
    split_ifs with h <;> simp [h]
  · simp only [Gen.BoxF.ctorRejects, Box.mk?, Bool.or_eq_false_iff, decide_eq_false_iff_not]
    split_ifs with h
    · simp only [reduceCtorEq, iff_false]; tauto
    · simp only [iff_true]; tauto

/-- `from_points` hands `np.min(points, axis=0)` and `np.ptp(points, axis=0)` to the constructor and raises
    ValueError on an empty stack; `Polyline.bounding_box` has the modelled shape -/
theorem gen_from_points :
    Gen.BoxF.fromPointsOps = ["np.min", "np.ptp"] ∧ Gen.BoxF.fromPointsGuard = ["k == 0", "ValueError"] ∧
    Gen.BoxF.boundingBoxOk = true := by decide

/-! ## constructor -/

/-- a negative size is rejected with ValueError; everything else is accepted unchanged -/
theorem ctor_spec (o s : V3 K) :
    (s.x < 0 ∨ s.y < 0 ∨ s.z < 0 → Box.mk? o s = .error .ValueError) ∧
    (0 ≤ s.x ∧ 0 ≤ s.y ∧ 0 ≤ s.z → Box.mk? o s = .ok ⟨o, s⟩) := by
  unfold Box.mk?
  constructor
  · intro h; rw [if_pos h]
  · rintro ⟨h1, h2, h3⟩
    rw [if_neg]
    rintro (h | h | h) <;> linarith

/-! ## from_points is the tight bound -/

/-- **from_points_tight**: for a non-empty stack the box exists; its origin is the per-axis minimum, origin+size
    the per-axis maximum (both attained), and every input point is contained -/
theorem from_points_tight (p : V3 K) (ps : List (V3 K)) :
    ∃ b, Box.fromPoints (p :: ps) = .ok b ∧
      IsMinOf (·.x) b.origin.x (p :: ps) ∧ IsMinOf (·.y) b.origin.y (p :: ps) ∧ IsMinOf (·.z) b.origin.z (p :: ps) ∧
      IsMaxOf (·.x) (b.origin.x + b.size.x) (p :: ps) ∧ IsMaxOf (·.y) (b.origin.y + b.size.y) (p :: ps) ∧
      IsMaxOf (·.z) (b.origin.z + b.size.z) (p :: ps) ∧
      ∀ q ∈ p :: ps, b.contains q = true := by
  have mnx := isMinOf_fold (·.x) p ps
  have mny := isMinOf_fold (·.y) p ps
  have mnz := isMinOf_fold (·.z) p ps
  have mxx := isMaxOf_fold (·.x) p ps
  have mxy := isMaxOf_fold (·.y) p ps
  have mxz := isMaxOf_fold (·.z) p ps
  rw [← colMin_x] at mnx; rw [← colMin_y] at mny; rw [← colMin_z] at mnz
  rw [← colMax_x] at mxx; rw [← colMax_y] at mxy; rw [← colMax_z] at mxz
  have ex : (colMin p ps).x + (colMax p ps - colMin p ps).x = (colMax p ps).x := by simp
  have ey : (colMin p ps).y + (colMax p ps - colMin p ps).y = (colMax p ps).y := by simp
  have ez : (colMin p ps).z + (colMax p ps - colMin p ps).z = (colMax p ps).z := by simp
  have sx : 0 ≤ (colMax p ps - colMin p ps).x := by
    have := mnx.1 p List.mem_cons_self; have := mxx.1 p List.mem_cons_self; simp only [V3.sub_x]; linarith
  have sy : 0 ≤ (colMax p ps - colMin p ps).y := by
    have := mny.1 p List.mem_cons_self; have := mxy.1 p List.mem_cons_self; simp only [V3.sub_y]; linarith
  have sz : 0 ≤ (colMax p ps - colMin p ps).z := by
    have := mnz.1 p List.mem_cons_self; have := mxz.1 p List.mem_cons_self; simp only [V3.sub_z]; linarith
  refine ⟨⟨colMin p ps, colMax p ps - colMin p ps⟩, ?_, mnx, mny, mnz, ?_, ?_, ?_, ?_⟩
  · exact (ctor_spec _ _).2 ⟨sx, sy, sz⟩
  · rw [ex]; exact mxx
  · rw [ey]; exact mxy
  · rw [ez]; exact mxz
  · intro q hq
    simp only [Box.contains, Box.containsTol, Option.getD_none, sub_zero, add_zero, ex, ey, ez,
      Bool.and_eq_true, decide_eq_true_eq]
    exact ⟨⟨⟨mnx.1 q hq, mxx.1 q hq⟩, ⟨mny.1 q hq, mxy.1 q hq⟩⟩, ⟨mnz.1 q hq, mxz.1 q hq⟩⟩

/-- an empty stack is rejected with ValueError -/
theorem from_points_empty : Box.fromPoints ([] : List (V3 K)) = .error .ValueError := rfl

/-- `Polyline.bounding_box`: `None` exactly for a polyline without vertices, otherwise `Box.from_points(v)` -/
theorem bounding_box_spec (pl : Polyline K) :
    (pl.v = [] → Box.boundingBox pl = .ok none) ∧
    (pl.v ≠ [] → ∃ b, Box.fromPoints pl.v = .ok b ∧ Box.boundingBox pl = .ok (some b)) := by
  unfold Box.boundingBox
  constructor
  · intro h; rw [h]
  · intro h
    match hv : pl.v with
    | [] => exact absurd hv h
    | q :: qs =>
      obtain ⟨b, hb, _⟩ := from_points_tight q qs
      exact ⟨b, hb, by simp [hb, Except.map]⟩

/-! ## derived quantities -/

/-- all accessors in terms of origin and size (non-negative size for `ranges`) -/
theorem accessors_spec (b : Box K) :
    b.maxX - b.minX = b.width ∧ b.maxY - b.minY = b.height ∧ b.maxZ - b.minZ = b.depth ∧
    b.midX = (b.minX + b.maxX) / 2 ∧ b.midY = (b.minY + b.maxY) / 2 ∧ b.midZ = (b.minZ + b.maxZ) / 2 ∧
    b.centerPoint = ⟨b.midX, b.midY, b.midZ⟩ ∧ b.floorPoint = ⟨b.midX, b.minY, b.midZ⟩ ∧
    b.volume = b.width * b.height * b.depth ∧
    b.surfaceArea = 2 * (b.width * b.height + b.height * b.depth + b.width * b.depth) := by
  refine ⟨?_, ?_, ?_, ?_, ?_, ?_, ?_, ?_, ?_, ?_⟩ <;>
    (try ext) <;>
    simp [minX, minY, minZ, maxX, maxY, maxZ, midX, midY, midZ, width, height, depth, centerPoint, floorPoint,
      volume, surfaceArea, two, half] <;> ring

theorem ranges_spec (b : Box K) (hx : 0 ≤ b.size.x) (hy : 0 ≤ b.size.y) (hz : 0 ≤ b.size.z) :
    b.ranges = [(b.minX, b.maxX), (b.minY, b.maxY), (b.minZ, b.maxZ)] := by
  simp only [ranges, minK_eq_min, maxK_eq_max, minX, minY, minZ, maxX, maxY, maxZ]
  rw [min_eq_left (by linarith), min_eq_left (by linarith), min_eq_left (by linarith),
    max_eq_right (by linarith), max_eq_right (by linarith), max_eq_right (by linarith)]

/-- the corner table lists the eight combinations of minimum / maximum coordinates (each exactly once, at the
    documented position) -/
theorem corners_spec (b : Box K) :
    b.v = [⟨b.minX, b.minY, b.minZ⟩, ⟨b.maxX, b.minY, b.minZ⟩, ⟨b.minX, b.maxY, b.minZ⟩, ⟨b.minX, b.minY, b.maxZ⟩,
           ⟨b.maxX, b.maxY, b.minZ⟩, ⟨b.minX, b.maxY, b.maxZ⟩, ⟨b.maxX, b.minY, b.maxZ⟩, ⟨b.maxX, b.maxY, b.maxZ⟩] := by
  simp [Box.v, minX, minY, minZ, maxX, maxY, maxZ, V3.ext_iff]

/-! ## face planes -/

/-- **planes_inward**: each of the six planes has a unit axis normal, its reference point is the centre of its
    face (so it passes through the face), the box centre is at signed distance `size/2 ≥ 0` (the normal points
    inward) and every corner of the box is on its non-negative side -/
theorem planes_inward (b : Box K) (hx : 0 ≤ b.size.x) (hy : 0 ≤ b.size.y) (hz : 0 ≤ b.size.z) :
    (∀ pl ∈ b.planes, pl.n.dot pl.n = 1) ∧
    b.planes.map (·.ref) =
      [⟨b.minX, b.midY, b.midZ⟩, ⟨b.midX, b.minY, b.midZ⟩, ⟨b.midX, b.midY, b.minZ⟩,
       ⟨b.maxX, b.midY, b.midZ⟩, ⟨b.midX, b.maxY, b.midZ⟩, ⟨b.midX, b.midY, b.maxZ⟩] ∧
    b.planes.map (fun pl => pl.signedDistance b.centerPoint) =
      [b.size.x / 2, b.size.y / 2, b.size.z / 2, b.size.x / 2, b.size.y / 2, b.size.z / 2] ∧
    (∀ pl ∈ b.planes, ∀ c ∈ b.v, 0 ≤ pl.signedDistance c) := by
  refine ⟨?_, ?_, ?_, ?_⟩
  · simp [planes, minXPlane, minYPlane, minZPlane, maxXPlane, maxYPlane, maxZPlane, V3.dot_def]
  · simp [planes, minXPlane, minYPlane, minZPlane, maxXPlane, maxYPlane, maxZPlane, centerPoint, midX, midY, midZ,
      half, two, V3.ext_iff]
    split_ring
  · simp [planes, minXPlane, minYPlane, minZPlane, maxXPlane, maxYPlane, maxZPlane, centerPoint, minX, minY, minZ,
      maxX, maxY, maxZ, half, Plane.signedDistance, signedDistanceEq, Plane.equation, eqNormal, eqOffset,
      V3.dot_def]
    split_ring
  · simp [planes, minXPlane, minYPlane, minZPlane, maxXPlane, maxYPlane, maxZPlane, centerPoint, minX, minY, minZ,
      maxX, maxY, maxZ, half, Plane.signedDistance, signedDistanceEq, Plane.equation, eqNormal, eqOffset,
      V3.dot_def, Box.v]
    constructorm* _ ∧ _ <;> linarith

/-- the signed distances of a point to the six planes -/
theorem plane_distances (b : Box K) (p : V3 K) :
    b.planes.map (fun pl => pl.signedDistance p) =
      [p.x - b.minX, p.y - b.minY, p.z - b.minZ, b.maxX - p.x, b.maxY - p.y, b.maxZ - p.z] := by
  simp [planes, minXPlane, minYPlane, minZPlane, maxXPlane, maxYPlane, maxZPlane, centerPoint, minX, minY, minZ,
    maxX, maxY, maxZ, half, Plane.signedDistance, signedDistanceEq, Plane.equation, eqNormal, eqOffset, V3.dot_def]
  split_ring

/-- **contains_iff_planes**: `contains(p, atol)` is true exactly when `p` is within `atol` of the inner side of all
    six face planes -/
theorem contains_iff_planes (b : Box K) (p : V3 K) (atol : K) :
    b.contains p (some atol) = true ↔ ∀ pl ∈ b.planes, -atol ≤ pl.signedDistance p := by
  have h := plane_distances b p
  have : (∀ pl ∈ b.planes, -atol ≤ pl.signedDistance p) ↔
      ∀ d ∈ b.planes.map (fun pl => pl.signedDistance p), -atol ≤ d := by simp
  rw [this, h]
  simp only [Box.contains, Box.containsTol, Option.getD_some, Bool.and_eq_true, decide_eq_true_eq, List.mem_cons,
    List.not_mem_nil, or_false, forall_eq_or_imp, forall_eq, minX, minY, minZ, maxX, maxY, maxZ]
  constructor
  · rintro ⟨⟨⟨a1, a2⟩, ⟨a3, a4⟩⟩, ⟨a5, a6⟩⟩
    exact ⟨by linarith, by linarith, by linarith, by linarith, by linarith, by linarith⟩
  · rintro ⟨a1, a2, a3, a4, a5, a6⟩
    exact ⟨⟨⟨by linarith, by linarith⟩, ⟨by linarith, by linarith⟩⟩, ⟨by linarith, by linarith⟩⟩

/-- without `atol` the test is the closed box -/
theorem contains_default (b : Box K) (p : V3 K) :
    b.contains p = true ↔ (b.minX ≤ p.x ∧ p.x ≤ b.maxX) ∧ (b.minY ≤ p.y ∧ p.y ≤ b.maxY) ∧ (b.minZ ≤ p.z ∧ p.z ≤ b.maxZ) := by
  simp [Box.contains, Box.containsTol, minX, minY, minZ, maxX, maxY, maxZ, and_assoc]

/-- non-vacuity -/
example : ∃ b : Box ℚ, Box.fromPoints [⟨1, 5, 2⟩, ⟨0, 7, 2⟩, ⟨3, 6, 2⟩] = .ok b ∧ b.origin = ⟨0, 5, 2⟩ ∧
    b.size = ⟨3, 2, 0⟩ ∧ b.contains ⟨3, 7, 2⟩ = true ∧ b.contains ⟨3, 7, 3⟩ = false ∧
    b.contains ⟨3, 7, 3⟩ (some 1) = true :=
  ⟨⟨⟨0, 5, 2⟩, ⟨3, 2, 0⟩⟩,
   by norm_num [Box.fromPoints, Box.mk?, colMin, colMax, minK, maxK, V3.ext_iff], rfl, rfl, by decide +kernel, by decide +kernel, by decide +kernel⟩

end field

/-! ## pointcloud.extent and percentile (over ℝ) -/

open PW.RealNorm PW.Pointcloud

/-- fewer than two points → ValueError -/
theorem extent_too_few (pts : List (V3 ℝ)) (h : pts.length < 2) : extent pts = .error .ValueError := by
  unfold extent; rw [if_pos h]

/-- **extent_spec**: with at least two points `extent` returns `(d, i, j)` where `d` is the distance between
    points `i` and `j` and no two points of the cloud are farther apart -/
theorem extent_spec (pts : List (V3 ℝ)) (h2 : 2 ≤ pts.length) :
    ∃ d i j, extent pts = .ok (d, i, j) ∧
      (∃ p q, pts[i]? = some p ∧ pts[j]? = some q ∧ d = dist q p) ∧
      ∀ p ∈ pts, ∀ q ∈ pts, dist p q ≤ d := by
  have h0 : Inv pts 0 ((-1 : ℝ), none) := ⟨fun a p ha => absurd ha (Nat.not_lt_zero a), rfl, rfl⟩
  have hinv := loop_inv pts pts 0 (-1, none) (by simp) h0
  unfold extent
  rw [if_neg (by omega)]
  rcases hl : loop pts 0 (-1, none) pts with ⟨d, _ | ⟨i, j⟩⟩
  · rw [hl] at hinv
    obtain ⟨_, _, hk⟩ := hinv
    omega
  · rw [hl] at hinv
    obtain ⟨hub, p, q, hp, hq, hd⟩ := hinv
    refine ⟨d, i, j, rfl, ⟨p, q, hp, hq, hd⟩, ?_⟩
    intro a ha b hb
    obtain ⟨k, hk, hkb⟩ := List.getElem_of_mem hb
    exact hub k b (by omega) (by rw [List.getElem?_eq_getElem hk, hkb]) a ha

/-- the returned indices are those of the first probe attaining the maximum: used only to compare indices with
    the implementation; the property asks for *a* pair attaining the maximum, which `extent_spec` gives -/
theorem extent_without_indices (pts : List (V3 ℝ)) (h2 : 2 ≤ pts.length) :
    ∃ d, (extent pts).map (·.1) = .ok d ∧ ∀ p ∈ pts, ∀ q ∈ pts, dist p q ≤ d := by
  obtain ⟨d, i, j, he, _, hub⟩ := extent_spec pts h2
  exact ⟨d, by rw [he]; rfl, hub⟩

theorem axis_ne_zero (tol : ℝ) (htol : 0 ≤ tol) (axis : V3 ℝ) (h : almostZero tol axis = false) :
    axis ≠ V3.zero := by
  intro e
  rw [e] at h
  simp [almostZero, Pointcloud.absK, V3.zero, htol] at h

theorem percentile_rejects_aux (tol : ℝ) (pts : List (V3 ℝ)) (n : ℝ) (axis : V3 ℝ) (c : ℝ) :
    (pts = [] → Pointcloud.percentile tol pts n axis c = .error .ValueError) ∧
    (almostZero tol axis = true → Pointcloud.percentile tol pts n axis c = .error .ValueError) := by
  unfold Pointcloud.percentile
  constructor
  · intro h; rw [h]; simp
  · intro h; rw [h]; split_ifs <;> simp_all

/-- what `percentile` has to deliver for a cloud, an axis and the percentile value `c` of the coordinates (as
    supplied by `np.percentile`): the result is `reject(centroid, â) + c·â` with `â` the unit axis, so its coordinate
    along the axis is `c` and it lies on the line through the centroid along the axis -/
def PercentileOk (tol : ℝ) (pts : List (V3 ℝ)) (n : ℝ) (axis : V3 ℝ) (c : ℝ) : Prop :=
  ∃ r a, Pointcloud.percentile tol pts n axis c = .ok r ∧ a.dot a = 1 ∧
    axis = V3.smul (V3.norm axis) a ∧ 0 < V3.norm axis ∧
    r = (centroid n pts - V3.smul ((centroid n pts).dot a) a) + V3.smul c a ∧
    r.dot a = c ∧
    r - centroid n pts = V3.smul (c - (centroid n pts).dot a) a

/-- the clause of C17 at full strength: every non-empty cloud and **every non-zero axis** (with the tolerance
    `1e-8` the code passes to `vg.almost_zero`).  Not a theorem: see `percentile_tiny_axis_defect_witness`. -/
def percentile_spec_full : Prop :=
  ∀ (pts : List (V3 ℝ)) (n : ℝ) (axis : V3 ℝ) (c : ℝ), pts ≠ [] → axis ≠ V3.zero →
    PercentileOk (1e-8) pts n axis c

/-- **percentile_spec_partial**: the clause for every axis that is not *almost* zero (some component larger than
    `tol` in absolute value).  What is missing for the full clause: non-zero axes with all components within `tol`
    of 0, which the code (and the model) refuses. -/
theorem percentile_spec_partial (tol : ℝ) (htol : 0 ≤ tol) (pts : List (V3 ℝ)) (hne : pts ≠ []) (n : ℝ)
    (axis : V3 ℝ) (hax : almostZero tol axis = false) (c : ℝ) : PercentileOk tol pts n axis c := by
  have hz := axis_ne_zero tol htol axis hax
  obtain ⟨hm, h1, _, hn1, h5⟩ := unit_facts axis hz
  set a := V3.normalize axis with ha
  have hlen : ¬ pts.length < 1 := by
    cases pts with
    | nil => exact absurd rfl hne
    | cons _ _ => simp
  have hr : Pointcloud.percentile tol pts n axis c
      = .ok ((centroid n pts - V3.smul ((centroid n pts).dot a) a) + V3.smul c a) := by
    unfold Pointcloud.percentile
    rw [if_neg hlen, hax]
    simp only [Bool.false_eq_true, if_false, reject, ← ha, normalize_unit a hn1]
  refine ⟨_, a, hr, h1, h5, hm, rfl, ?_, ?_⟩
  · simp only [V3.dot_def, V3.add_x, V3.add_y, V3.add_z, V3.sub_x, V3.sub_y, V3.sub_z, V3.smul_x, V3.smul_y,
      V3.smul_z] at h1 ⊢
    linear_combination (c - ((centroid n pts).x * a.x + (centroid n pts).y * a.y + (centroid n pts).z * a.z)) * h1
  · ext <;> simp only [V3.add_x, V3.add_y, V3.add_z, V3.sub_x, V3.sub_y, V3.sub_z, V3.smul_x, V3.smul_y,
      V3.smul_z] <;> ring

/-- the model (as the code) refuses the non-zero axis `(1e-9, 0, 0)` -/
theorem percentile_tiny_axis_refused (pts : List (V3 ℝ)) (n c : ℝ) :
    Pointcloud.percentile (1e-8) pts n ⟨1e-9, 0, 0⟩ c = .error .ValueError := by
  have h : almostZero (1e-8 : ℝ) ⟨1e-9, 0, 0⟩ = true := by
    simp only [almostZero, Pointcloud.absK, Bool.and_eq_true, decide_eq_true_eq]
    norm_num
  exact (percentile_rejects_aux (1e-8) pts n ⟨1e-9, 0, 0⟩ c).2 h

/-- **defect witness**: the full clause fails on the one-point cloud `{0}` and the non-zero axis `(1e-9, 0, 0)` -/
theorem percentile_tiny_axis_defect_witness : ¬ percentile_spec_full := by
  intro h
  have hax : (⟨1e-9, 0, 0⟩ : V3 ℝ) ≠ V3.zero := by
    intro e
    have := congrArg V3.x e
    simp only [V3.zero] at this
    norm_num at this
  obtain ⟨r, a, hr, _⟩ := h [⟨0, 0, 0⟩] 1 ⟨1e-9, 0, 0⟩ 0 (by simp) hax
  rw [percentile_tiny_axis_refused] at hr
  cases hr

/-- an (almost) zero axis and an empty cloud are rejected with ValueError -/
theorem percentile_rejects (tol : ℝ) (pts : List (V3 ℝ)) (n : ℝ) (axis : V3 ℝ) (c : ℝ) :
    (pts = [] → Pointcloud.percentile tol pts n axis c = .error .ValueError) ∧
    (almostZero tol axis = true → Pointcloud.percentile tol pts n axis c = .error .ValueError) :=
  percentile_rejects_aux tol pts n axis c

/-- non-vacuity: two points one unit apart -/
example : (2 : ℕ) ≤ ([⟨0, 0, 0⟩, ⟨1, 0, 0⟩] : List (V3 ℝ)).length := by simp

/-- non-vacuity of `percentile_spec_partial`: the axis `(1, 0, 0)` is not almost zero for `tol = 1e-8` -/
example : almostZero (1e-8 : ℝ) ⟨1, 0, 0⟩ = false := by
  simp only [almostZero, Pointcloud.absK, Bool.and_eq_false_iff, decide_eq_false_iff_not]
  left; left; norm_num

end PW.C17
