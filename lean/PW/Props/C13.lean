/-
  C13 — Plane constructors yield the plane they describe, with a real unit normal.

  Property theorems only (helper lemmas live in PW/Lemmas/PlaneCtor.lean).  Statements about norms, unit vectors
  and angles are over ℝ (`Real.sqrt`, `Real.cos`, `Real.sin`, `Real.arccos`); purely algebraic facts are over an
  arbitrary ordered field.  A NaN vector of the code is `none` in the model; `Plane.mkOpt?` is the constructor
  applied to such a possibly-NaN normal.
-/
import PW.Model.PlaneCtor
import PW.Gen.PlaneConsts
import PW.Lemmas.Vec
import PW.Lemmas.PlaneCtor
import PW.Lemmas.PlaneFit
import PW.Lemmas.PlaneTilt

set_option linter.unusedSectionVars false
set_option linter.unusedVariables false

namespace PW.C13

open PC Plane

/-! ### the constructor -/

/-- `Plane(reference_point, normal, direction_decimals)` accepts the normal iff `|‖n‖ − 1| ≤ 10⁻ᵈ`
    (d = `direction_decimals`, default `DEFAULT_DIRECTION_DECIMALS`), stores both arguments unchanged, and
    raises ValueError otherwise. -/
theorem ctor_validates (ref n : V3 ℝ) (d : Option Nat) :
    (|Real.sqrt n.normSq - 1| ≤ (1 / 10 : ℝ) ^ (d.getD defaultDirectionDecimals) →
        Plane.mk? ref n d = .ok ⟨ref, n⟩) ∧
    (¬ |Real.sqrt n.normSq - 1| ≤ (1 / 10 : ℝ) ^ (d.getD defaultDirectionDecimals) →
        Plane.mk? ref n d = .error .ValueError) := by
  rw [mk?_eq]
  constructor <;> intro h
  · rw [if_pos h]
  · rw [if_neg h]

/-- whatever the constructor returns is the pair of its arguments, and the only error is ValueError -/
theorem ctor_result (ref n : V3 ℝ) (d : Option Nat) :
    Plane.mk? ref n d = .ok ⟨ref, n⟩ ∨ Plane.mk? ref n d = .error .ValueError := by
  rw [mk?_eq]; split_ifs <;> simp

/-- a NaN normal (`none`) is always rejected -/
theorem ctor_rejects_nan (ref : V3 ℝ) (d : Option Nat) : Plane.mkOpt? ref none d = .error .ValueError := rfl

/-- the default number of decimals and the literal base of the tolerance are the ones in the source -/
theorem gen_ctor_constants :
    Gen.planeDefaultDirectionDecimals = defaultDirectionDecimals ∧
    Gen.planeDefaultPositionDecimals = defaultPositionDecimals ∧
    Gen.planeCtorAtolBase = (1, 10) ∧ Gen.planeCtorValidationShape = true ∧
    Gen.planeCtorRaises = "ValueError" := by
  decide

/-! ### from_point_and_normal -/

/-- for a non-zero normal the result is a plane through `reference_point` whose normal is the unit vector
    `n / ‖n‖` (a positive multiple of `n`) -/
theorem from_point_and_normal_unit (ref n : V3 ℝ) (d : Option Nat) (hn : n ≠ V3.zero) :
    ∃ pl, Plane.fromPointAndNormal ref n d = .ok pl ∧ pl.ref = ref ∧ pl.n.normSq = 1 ∧
      pl.n = V3.smul (1 / Real.sqrt n.normSq) n ∧ 0 < 1 / Real.sqrt n.normSq := by
  refine ⟨⟨ref, n.sdiv n.norm⟩, ?_, rfl, normSq_sdiv_norm n hn, sdiv_eq_smul _ _, ?_⟩
  · unfold Plane.fromPointAndNormal
    rw [normalize?_of_ne_zero n hn]
    exact mk?_of_unit _ _ _ (normSq_sdiv_norm n hn)
  · exact one_div_pos.mpr ((norm_pos_iff n).mpr hn)

/-- the zero normal normalises to NaN and is rejected with ValueError -/
theorem from_point_and_normal_zero (ref : V3 ℝ) (d : Option Nat) :
    Plane.fromPointAndNormal ref V3.zero d = .error .ValueError := by
  unfold Plane.fromPointAndNormal
  rw [normalize?_zero _ rfl]; rfl

/-! ### from_points -/

/-- for non-collinear points: the plane passes through p1, p2, p3; its normal is the unit vector
    `c/‖c‖` with `c = (p2−p1)×(p3−p1)`, i.e. it points to the side from which p1→p2→p3 is counter-clockwise -/
theorem from_points_spec (p1 p2 p3 : V3 ℝ) (h : (p2 - p1).cross (p3 - p1) ≠ V3.zero) :
    ∃ pl, Plane.fromPoints p1 p2 p3 = .ok pl ∧ pl.ref = p1 ∧
      pl.signedDistance p1 = 0 ∧ pl.signedDistance p2 = 0 ∧ pl.signedDistance p3 = 0 ∧
      pl.n.normSq = 1 ∧
      pl.n = V3.smul (1 / Real.sqrt ((p2 - p1).cross (p3 - p1)).normSq) ((p2 - p1).cross (p3 - p1)) ∧
      0 < pl.n.dot ((p2 - p1).cross (p3 - p1)) := by
  set c := (p2 - p1).cross (p3 - p1) with hc
  have hpos : 0 < c.norm := (norm_pos_iff c).mpr h
  refine ⟨⟨p1, c.sdiv c.norm⟩, ?_, rfl, ?_, ?_, ?_, normSq_sdiv_norm c h, sdiv_eq_smul _ _, ?_⟩
  · unfold Plane.fromPoints surfaceNormal triCross
    simp only [if_true]
    rw [← hc, normalize?_of_ne_zero c h]
    exact mk?_of_unit _ _ _ (normSq_sdiv_norm c h)
  · rw [sd_mk]; simp [V3.dot_def]
  · rw [sd_mk, dot_sdiv_right, dot_comm, hc, cross_dot_left, zero_div]
  · rw [sd_mk, dot_sdiv_right, dot_comm, hc, cross_dot_right, zero_div]
  · rw [dot_sdiv_left]
    exact div_pos (normSq_pos_of_ne_zero c h) hpos

/-- collinear (or coincident) points: the normal is NaN and the constructor raises ValueError -/
theorem from_points_collinear (p1 p2 p3 : V3 ℝ) (h : (p2 - p1).cross (p3 - p1) = V3.zero) :
    Plane.fromPoints p1 p2 p3 = .error .ValueError ∧
    surfaceNormal true ⟨p1, p2, p3⟩ = none ∧ planeEquationFromPoints ⟨p1, p2, p3⟩ = none := by
  have hs : surfaceNormal true ⟨p1, p2, p3⟩ = none := by
    unfold surfaceNormal triCross
    simp only [if_true]
    exact normalize?_zero _ h
  refine ⟨?_, hs, ?_⟩
  · unfold Plane.fromPoints; rw [hs]; rfl
  · unfold planeEquationFromPoints; rw [hs]; rfl

/-! ### from_points_and_vector -/

/-- if `p2 − p1` is not parallel to `vector`: the plane contains p1 and p2, is parallel to `vector`
    (`n·vector = 0`) and has a unit normal -/
theorem from_points_and_vector_spec (p1 p2 v : V3 ℝ) (d : Option Nat) (h : (p2 - p1).cross v ≠ V3.zero) :
    ∃ pl, Plane.fromPointsAndVector p1 p2 v d = .ok pl ∧ pl.ref = p1 ∧
      pl.signedDistance p1 = 0 ∧ pl.signedDistance p2 = 0 ∧ pl.n.dot v = 0 ∧ pl.n.normSq = 1 := by
  set c := (p2 - p1).cross v with hc
  refine ⟨⟨p1, c.sdiv c.norm⟩, ?_, rfl, ?_, ?_, ?_, normSq_sdiv_norm c h⟩
  · unfold Plane.fromPointsAndVector Plane.fromPointAndNormal
    rw [← hc, normalize?_of_ne_zero c h]
    exact mk?_of_unit _ _ _ (normSq_sdiv_norm c h)
  · rw [sd_mk]; simp [V3.dot_def]
  · rw [sd_mk, dot_sdiv_right, dot_comm, hc, cross_dot_left, zero_div]
  · rw [dot_sdiv_left, hc, cross_dot_right, zero_div]

/-- `p2 − p1` parallel to `vector` (or `p1 = p2`, or `vector = 0`): ValueError -/
theorem from_points_and_vector_parallel (p1 p2 v : V3 ℝ) (d : Option Nat) (h : (p2 - p1).cross v = V3.zero) :
    Plane.fromPointsAndVector p1 p2 v d = .error .ValueError := by
  unfold Plane.fromPointsAndVector Plane.fromPointAndNormal
  rw [normalize?_zero _ h]; rfl

/-! ### module-level functions -/

/-- `plane_normal_from_points`, `plane_equation_from_points` and `normal_and_offset_from_plane_equations` agree
    with `from_points` on every triple for which `from_points` returns a plane … -/
theorem functions_agree (p1 p2 p3 : V3 ℝ) (pl : Plane ℝ) (h : Plane.fromPoints p1 p2 p3 = .ok pl) :
    surfaceNormal true ⟨p1, p2, p3⟩ = some pl.n ∧
    planeEquationFromPoints ⟨p1, p2, p3⟩ = some pl.equation ∧
    normalAndOffset pl.equation = (pl.n, -(p1.dot pl.n)) ∧ pl.ref = p1 := by
  unfold Plane.fromPoints at h
  cases hs : surfaceNormal true ⟨p1, p2, p3⟩ with
  | none => rw [hs] at h; simp [Plane.mkOpt?] at h
  | some n =>
    rw [hs] at h
    simp only [Plane.mkOpt?] at h
    rcases ctor_result p1 n none with h' | h' <;> rw [h'] at h
    · injection h with h
      subst h
      refine ⟨rfl, ?_, rfl, rfl⟩
      unfold planeEquationFromPoints; rw [hs]; rfl
    · simp at h

/-- … and on the others (`from_points` raises) they return NaN rows -/
theorem functions_agree_error (p1 p2 p3 : V3 ℝ) (e : Err) (h : Plane.fromPoints p1 p2 p3 = .error e) :
    e = .ValueError ∧ surfaceNormal true ⟨p1, p2, p3⟩ = none ∧ planeEquationFromPoints ⟨p1, p2, p3⟩ = none := by
  by_cases hc : (p2 - p1).cross (p3 - p1) = V3.zero
  · obtain ⟨h1, h2, h3⟩ := from_points_collinear p1 p2 p3 hc
    rw [h1] at h; injection h with h
    exact ⟨h.symm, h2, h3⟩
  · obtain ⟨pl, h1, _⟩ := from_points_spec p1 p2 p3 hc
    rw [h1] at h; simp at h

/-- `normalize=False` returns the cross product itself -/
theorem surface_normal_raw (t : Tri ℝ) : surfaceNormal false t = some ((t.p2 - t.p1).cross (t.p3 - t.p1)) := rfl

/-- the stacked forms are the single forms row by row -/
theorem functions_stacked_rowwise (ts : List (Tri ℝ)) (es : List (V4 ℝ)) (nz : Bool) (i : Nat) :
    (ts.map (surfaceNormal nz))[i]? = (ts[i]?).map (surfaceNormal nz) ∧
    (ts.map planeEquationFromPoints)[i]? = (ts[i]?).map planeEquationFromPoints ∧
    (es.map normalAndOffset)[i]? = (es[i]?).map normalAndOffset := by
  simp [List.getElem?_map]

/-! ### fit_from_points -/

/-- algebraic core, over every ordered field: under the eigen-solver's contract the normal chosen by
    `fit_from_points` (cross product of the eigenvectors of the two largest eigenvalues) is a unit vector and
    minimises the sum of squared distances `Σ((pᵢ − c)·m)²` over all unit vectors `m` (c = centroid). -/
theorem fit_normal_optimal {K : Type} [Field K] [LinearOrder K] [IsStrictOrderedRing K]
    (pts : List (V3 K)) (ev : V3 K) (E : M3 K) (hk : 2 ≤ pts.length)
    (hc : EigenContract (covMatrix pts) ev E) :
    (fitNormal ev E).normSq = 1 ∧
    ∀ m : V3 K, m.normSq = 1 →
      sumSqDist pts (centroid pts) (fitNormal ev E) ≤ sumSqDist pts (centroid pts) m := by
  obtain ⟨a, b, c, ha, hb, hc3, hab, hac, hbc, hfn, l0, l1⟩ := fitNormal_cases ev E
  obtain ⟨ho, he⟩ := hc
  have R := fun (m : V3 K) (hm : m.normSq = 1) =>
    rayleigh (covMatrix pts) (E.colN a) (E.colN b) (E.colN c) (ev.get a) (ev.get b) (ev.get c)
      (by rw [ho a a ha ha, if_pos rfl]) (by rw [ho b b hb hb, if_pos rfl]) (by rw [ho c c hc3 hc3, if_pos rfl])
      (by rw [ho a b ha hb, if_neg hab]) (by rw [ho a c ha hc3, if_neg hac]) (by rw [ho b c hb hc3, if_neg hbc])
      (he a ha) (he b hb) (he c hc3) l0 l1 m hm
  rw [hfn]
  refine ⟨(R ⟨1, 0, 0⟩ (by simp [V3.normSq_def])).1, fun m hm => ?_⟩
  obtain ⟨_, h2, h3⟩ := R m hm
  have hq : quad (covMatrix pts) ((E.colN a).cross (E.colN b)) ≤ quad (covMatrix pts) m := h2 ▸ h3
  rw [quad_cov, quad_cov] at hq
  have hlen : (2 : K) ≤ (pts.length : K) := by exact_mod_cast hk
  have fpos : (0 : K) < 1 / (natCast pts.length - 1) := by
    rw [natCast_eq]; apply one_div_pos.mpr; linarith
  exact le_of_mul_le_mul_right hq fpos

/-- `fit_from_points` on at least two points, given eigenpairs satisfying the contract of the symmetric
    eigen-solver for the covariance matrix: a plane is returned (the constructor's unit-length validation passes);
    it passes through the centroid; its normal is a real unit vector; and no plane through the centroid has a
    smaller sum of squared distances to the points. -/
theorem fit_spec (pts : List (V3 ℝ)) (ev : V3 ℝ) (E : M3 ℝ) (hk : 2 ≤ pts.length)
    (hc : EigenContract (covMatrix pts) ev E) :
    ∃ pl, Plane.fitFromPoints pts ev E = .ok pl ∧ pl.ref = centroid pts ∧
      pl.signedDistance (centroid pts) = 0 ∧ pl.n.normSq = 1 ∧
      ∀ m : V3 ℝ, m.normSq = 1 → sumSqDist pts pl.ref pl.n ≤ sumSqDist pts pl.ref m := by
  obtain ⟨hu, hopt⟩ := fit_normal_optimal pts ev E hk hc
  refine ⟨⟨centroid pts, fitNormal ev E⟩, ?_, rfl, ?_, hu, hopt⟩
  · unfold Plane.fitFromPoints
    rw [if_neg (by omega)]
    exact mk?_of_unit _ _ _ hu
  · rw [sd_mk]; simp [V3.dot_def]

/-- fewer than two points: the covariance is undefined and the eigen-solver raises LinAlgError -/
theorem fit_too_few_points (pts : List (V3 ℝ)) (ev : V3 ℝ) (E : M3 ℝ) (hk : pts.length < 2) :
    Plane.fitFromPoints pts ev E = .error .LinAlgError := by
  unfold Plane.fitFromPoints; rw [if_pos hk]

/-- the contract is satisfiable: four points in the plane z = 0 with the eigenpairs NumPy returns for them -/
example :
    let pts : List (V3 ℚ) := [⟨0, 0, 0⟩, ⟨1, 0, 0⟩, ⟨0, 1, 0⟩, ⟨1, 1, 0⟩]
    EigenContract (covMatrix pts) ⟨0, 1 / 3, 1 / 3⟩ ⟨⟨0, 0, 1⟩, ⟨0, 1, 0⟩, ⟨1, 0, 0⟩⟩ ∧
      fitNormal (⟨0, 1 / 3, 1 / 3⟩ : V3 ℚ) ⟨⟨0, 0, 1⟩, ⟨0, 1, 0⟩, ⟨1, 0, 0⟩⟩ = ⟨0, 0, 1⟩ := by
  refine ⟨⟨?_, ?_⟩, ?_⟩
  · intro i j hi hj
    have hi' : i = 0 ∨ i = 1 ∨ i = 2 := by omega
    have hj' : j = 0 ∨ j = 1 ∨ j = 2 := by omega
    rcases hi' with rfl | rfl | rfl <;> rcases hj' with rfl | rfl | rfl <;>
      norm_num [M3.colN, M3.col0, M3.col1, M3.col2, V3.dot_def]
  · intro j hj
    have hj' : j = 0 ∨ j = 1 ∨ j = 2 := by omega
    rcases hj' with rfl | rfl | rfl <;>
      norm_num [covMatrix, centroid, vsum, natCast, scatterEntry, ksum, M3.mulVec, V3.dot_def, M3.colN, M3.col0,
        M3.col1, M3.col2, V3.smul, V3.sdiv, V3.get, V3.zero, V3.ext_iff]
  · norm_num [fitNormal, argsort, insertIdx, V3.toList, List.range, List.range.loop, M3.colN, M3.col0, M3.col1,
      M3.col2, V3.cross, V3.ext_iff]

/-! ### tilted -/

/-- `plane.tilted(new_point, coplanar_point)` for a plane with a unit normal, a `coplanar_point` on it, and a
    `new_point` off the rotation axis (its projection onto the old plane is not `coplanar_point`): a plane is
    returned, with a unit normal, through both `coplanar_point` and `new_point`. -/
theorem tilted_spec (pl : Plane ℝ) (newPoint coplanar : V3 ℝ) (hn : pl.n.normSq = 1)
    (hcp : pl.signedDistance coplanar = 0) (hoff : pl.projectPoint newPoint ≠ coplanar) :
    ∃ pl', pl.tilted newPoint coplanar = .ok pl' ∧ pl'.ref = coplanar ∧ pl'.n.normSq = 1 ∧
      pl'.signedDistance coplanar = 0 ∧ pl'.signedDistance newPoint = 0 := by
  obtain ⟨n', h1, h2, h3⟩ := tilted_eval pl newPoint coplanar hn hcp hoff
  refine ⟨⟨coplanar, n'⟩, h1, rfl, h2, ?_, ?_⟩
  · rw [sd_mk]; simp [V3.dot_def]
  · rw [sd_mk, dot_comm]; exact h3

/-- a new point on the rotation axis (it projects onto `coplanar_point`): the axis is NaN and the constructor
    raises ValueError -/
theorem tilted_on_axis (pl : Plane ℝ) (newPoint coplanar : V3 ℝ) (h : pl.projectPoint newPoint = coplanar) :
    pl.tilted newPoint coplanar = .error .ValueError := by
  unfold Plane.tilted
  simp only
  have : (pl.projectPoint newPoint - coplanar).cross pl.n = V3.zero := by
    rw [h]; ext <;> simp
  rw [normalize?_zero _ this]

/-- the hypotheses of `tilted_spec` are satisfiable: the xy-plane tilted about the y-axis through (1, 0, 1) -/
example : let pl : Plane ℝ := ⟨V3.zero, ⟨0, 0, 1⟩⟩
    pl.n.normSq = 1 ∧ pl.signedDistance V3.zero = 0 ∧ pl.projectPoint ⟨1, 0, 1⟩ ≠ V3.zero := by
  refine ⟨by simp [V3.normSq_def], by rw [sd_mk]; simp [V3.dot_def], ?_⟩
  intro h
  have := congrArg V3.x h
  simp [projectPoint_eq, sd_mk, V3.dot_def] at this

/-! ### Plane.xy, Plane.xz, Plane.yz -/

/-- the three constants are built by the constructor from the vectors found in the source … -/
theorem gen_plane_constants :
    (Plane.xy? : Res (Plane ℝ)) = Plane.mk? (Gen.planeXY (K := ℝ)).1 (Gen.planeXY (K := ℝ)).2 none ∧
    (Plane.xz? : Res (Plane ℝ)) = Plane.mk? (Gen.planeXZ (K := ℝ)).1 (Gen.planeXZ (K := ℝ)).2 none ∧
    (Plane.yz? : Res (Plane ℝ)) = Plane.mk? (Gen.planeYZ (K := ℝ)).1 (Gen.planeYZ (K := ℝ)).2 none :=
  ⟨rfl, rfl, rfl⟩

/-- … the constructor accepts them, and they are the coordinate planes through the origin: the signed distance of
    a point is its z (resp. y, x) coordinate -/
theorem xy_xz_yz :
    (∃ pl : Plane ℝ, Plane.xy? = .ok pl ∧ pl.ref = V3.zero ∧ pl.n.normSq = 1 ∧ ∀ p, pl.signedDistance p = p.z) ∧
    (∃ pl : Plane ℝ, Plane.xz? = .ok pl ∧ pl.ref = V3.zero ∧ pl.n.normSq = 1 ∧ ∀ p, pl.signedDistance p = p.y) ∧
    (∃ pl : Plane ℝ, Plane.yz? = .ok pl ∧ pl.ref = V3.zero ∧ pl.n.normSq = 1 ∧ ∀ p, pl.signedDistance p = p.x) := by
  refine ⟨⟨⟨V3.zero, ⟨0, 0, 1⟩⟩, ?_, rfl, ?_, ?_⟩, ⟨⟨V3.zero, ⟨0, 1, 0⟩⟩, ?_, rfl, ?_, ?_⟩,
    ⟨⟨V3.zero, ⟨1, 0, 0⟩⟩, ?_, rfl, ?_, ?_⟩⟩
  all_goals first
    | exact mk?_of_unit _ _ _ (by simp [V3.normSq_def])
    | simp [V3.normSq_def]
    | (intro p; rw [sd_mk]; simp [V3.dot_def])

/-- non-vacuity: a non-collinear lattice triple, a non-zero normal, a non-parallel (p2 − p1, vector) -/
example : ((⟨1, 0, 0⟩ - ⟨0, 0, 0⟩ : V3 ℝ)).cross (⟨0, 1, 0⟩ - ⟨0, 0, 0⟩) ≠ V3.zero ∧ (⟨0, 3, 4⟩ : V3 ℝ) ≠ V3.zero := by
  constructor <;> intro h
  · have := congrArg V3.z h; simp at this
  · have := congrArg V3.y h; simp at this

end PW.C13
