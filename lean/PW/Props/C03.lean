/-
  C03 — CompositeTransform applies its steps in order and reverse undoes them.

  Property theorems only (helper lemmas: PW/Lemmas/Composite.lean, PW/Lemmas/CompositeSpec.lean).
  Everything is over an arbitrary linearly ordered field `K` (hence ℚ and ℝ at once).

  KNOWN FINDING (key `roundtrip/non-affine-explicit-matrix`).  `append_transform` accepts every 4×4 matrix, also
  one whose last row is not 0 0 0 1, and `apply_transform` drops `w` without dividing.  For such an accepted,
  exactly invertible step the clauses "call = the steps' 3-D actions one after another" and "reverse undoes"
  are FALSE on the code and on this model (which mirrors it).  Therefore:
    * the full, unrestricted clauses are kept as `def C03_call_eq_fold_full : Prop`, `def C03_reverse_roundtrip_full : Prop`;
    * `C03_call_eq_fold_defect_witness`, `C03_reverse_roundtrip_defect_witness` prove their negation on the concrete
      input  a = I with a[3,0] = 1;  append_transform(a); translate([1,0,0]);  p = (1,0,0)  (call gives (3,0,0),
      step by step gives (2,0,0); reverse of (3,0,0) gives (2,0,0) ≠ p);
    * the theorems below that carry `cmd.Affine` hypotheses (`C03_call_eq_fold`, `C03_reverse_eq_fold`,
      `C03_reverse_roundtrip(_history)`, `C03_vector_mode`, `apply_compose`) are the **partial** versions of those
      clauses: they hold for every history whose explicit matrices have last row 0 0 0 1 (all builders do, `builder_affine`).
    The matrix clauses (`C03_matrix_inverse`, `C03_matrix_eq_fold`, `apply_compose_homogeneous`) need no such hypothesis.

  Vocabulary (PW.Lemmas.CompositeSpec):
    `cmd.build`       the (forward, inverse) pair an appending call stores, or the exception it raises
    `cmd.action av p` the *documented* effect of the step on the point `p` (`av`: treat as vector)
    `cmd.invAction`   the documented effect of undoing it
    `acceptedCmds h`  the calls of the history `h` that did not raise, in order
    `cmd.Affine`      explicit matrices have last row 0 0 0 1
    `cmd.WellFormed`  the stored inverse of an explicit matrix is its inverse (hypothesis for a user supplied
                      `reverse`, contract of `np.linalg.inv`); rotation matrices are orthogonal
  The object after the history `h` is `(Composite.exec [] h).1`; what the calls returned is `(Composite.exec [] h).2`.
-/
import PW.Lemmas.CompositeSpec
import PW.Lemmas.CompositeMatrix

set_option linter.unusedSectionVars false

namespace PW.C03

open PW.CT

variable {K : Type} [Field K] [LinearOrder K] [IsStrictOrderedRing K]

/-! ### 1. composing then applying = applying one after another -/

/-- homogeneous form, for arbitrary 4×4 matrices: `compose(A₁…Aₙ)·v = Aₙ·(…·(A₁·v))`. -/
theorem apply_compose_homogeneous (ts : List (M4 K)) (v : V4 K) :
    (composeTransforms ts).mulVec v = ts.foldl (fun q t => t.mulVec q) v := by
  induction ts generalizing v with
  | nil => simp [composeTransforms_nil, mulVec_one]
  | cons t ts ih => rw [composeTransforms_cons, mulVec_mul, List.foldl_cons, ih]

/-- points and vectors, for affine matrices (last row 0 0 0 1):
    `apply (compose [A₁…Aₙ]) p = apply Aₙ (… apply A₁ p)`. -/
theorem apply_compose (ts : List (M4 K)) (h : ∀ t ∈ ts, IsAffine t) (p : V3 K) (av : Bool) :
    applyTransform (composeTransforms ts) p av = ts.foldl (fun q t => applyTransform t q av) p := by
  induction ts generalizing p with
  | nil => simp [composeTransforms_nil, applyTransform_one]
  | cons t ts ih =>
    rw [composeTransforms_cons, applyTransform_mul (h t (by simp)), List.foldl_cons]
    exact ih (fun x hx => h x (by simp [hx])) _

/-- vectors (`w = 0`): it is enough that the last rows start with `0 0 0`. -/
theorem apply_compose_vector (ts : List (M4 K)) (h : ∀ t ∈ ts, t.r3.x = 0 ∧ t.r3.y = 0 ∧ t.r3.z = 0) (p : V3 K) :
    applyTransform (composeTransforms ts) p true = ts.foldl (fun q t => applyTransform t q true) p := by
  induction ts generalizing p with
  | nil => simp [composeTransforms_nil, applyTransform_one]
  | cons t ts ih =>
    have ht := h t (by simp)
    rw [composeTransforms_cons, applyTransform_mul_vector ht.1 ht.2.1 ht.2.2, List.foldl_cons]
    exact ih (fun x hx => h x (by simp [hx])) _

/-- The code drops `w` without dividing, so for a *non-affine* explicit matrix the 3-D step-by-step reading
    differs from the composed one (recorded, not a violation: every builder is affine by `builder_affine`,
    and the homogeneous reading `apply_compose_homogeneous` holds for every matrix). -/
theorem non_affine_witness :
    ∃ (a b : M4 ℚ) (p : V3 ℚ),
      applyTransform (composeTransforms [a, b]) p false ≠ applyTransform b (applyTransform a p false) false := by
  refine ⟨⟨⟨1, 0, 0, 0⟩, ⟨0, 1, 0, 0⟩, ⟨0, 0, 1, 0⟩, ⟨1, 0, 0, 1⟩⟩, (translationMatrix ⟨1, 0, 0⟩).1, ⟨1, 0, 0⟩, ?_⟩
  intro h
  have := congrArg V3.x h
  simp [composeTransforms, applyTransform, translationMatrix, M4.mul, M4.mulVec, V4.dot, V4.xyz,
    M4.col0, M4.col1, M4.col2, M4.col3] at this

/-! ### 2. the builders -/

/-- every appended pair is affine (explicit matrices: when the given matrices are). -/
theorem builder_affine {cmd : StepCmd K} {s : Step K} (hb : cmd.build = .ok s) (ha : cmd.Affine) :
    IsAffine s.1 ∧ IsAffine s.2 := by
  cases cmd with
  | appendTransform f i => simp only [StepCmd.build] at hb; injection hb with hb; subst hb; exact ha
  | appendTransformAuto f i =>
    cases i with
    | ok i => simp only [StepCmd.build] at hb; injection hb with hb; subst hb; exact ha
    | error e => simp [StepCmd.build] at hb
  | uniformScale x a =>
    obtain ⟨_, _, rfl⟩ := uniformScaleMatrix_ok hb; exact ⟨isAffine_diag4 _ _ _, isAffine_diag4 _ _ _⟩
  | nonUniformScale x y z a =>
    obtain ⟨_, _, _, _, rfl⟩ := nonUniformScaleMatrix_ok hb; exact ⟨isAffine_diag4 _ _ _, isAffine_diag4 _ _ _⟩
  | convertUnits x =>
    obtain ⟨_, _, rfl⟩ := uniformScaleMatrix_ok hb; exact ⟨isAffine_diag4 _ _ _, isAffine_diag4 _ _ _⟩
  | flip d =>
    simp only [StepCmd.build] at hb
    split_ifs at hb <;>
      (obtain ⟨_, _, _, _, rfl⟩ := nonUniformScaleMatrix_ok hb; exact ⟨isAffine_diag4 _ _ _, isAffine_diag4 _ _ _⟩)
  | translate v => simp only [StepCmd.build] at hb; injection hb with hb; subst hb; exact isAffine_translation v
  | rotate r => simp only [StepCmd.build] at hb; injection hb with hb; subst hb; exact ⟨rfl, rfl⟩
  | reorient r =>
    cases r with
    | ok r => simp only [StepCmd.build] at hb; injection hb with hb; subst hb; exact ⟨rfl, rfl⟩
    | error e => simp [StepCmd.build] at hb

/-- the forward matrix of every appended pair acts on points / vectors as the method documents:
    scale multiplies, flip negates one coordinate, translate adds (and leaves vectors alone), rotate
    multiplies by the 3×3 matrix, an explicit matrix multiplies in homogeneous coordinates. -/
theorem builder_action {cmd : StepCmd K} {s : Step K} (hb : cmd.build = .ok s) (p : V3 K) (av : Bool) :
    applyTransform s.1 p av = cmd.action av p := by
  cases cmd with
  | appendTransform f i => simp only [StepCmd.build] at hb; injection hb with hb; subst hb; rfl
  | appendTransformAuto f i =>
    cases i with
    | ok i => simp only [StepCmd.build] at hb; injection hb with hb; subst hb; rfl
    | error e => simp [StepCmd.build] at hb
  | uniformScale x a =>
    obtain ⟨_, _, rfl⟩ := uniformScaleMatrix_ok hb; rw [apply_diag4]; rfl
  | nonUniformScale x y z a =>
    obtain ⟨_, _, _, _, rfl⟩ := nonUniformScaleMatrix_ok hb; rw [apply_diag4]; rfl
  | convertUnits x =>
    obtain ⟨_, _, rfl⟩ := uniformScaleMatrix_ok hb; rw [apply_diag4]; rfl
  | flip d =>
    simp only [StepCmd.build] at hb
    split_ifs at hb with h0 h1 h2
    · obtain ⟨_, _, _, _, rfl⟩ := nonUniformScaleMatrix_ok hb
      rw [apply_diag4]; simp [StepCmd.action, h0]
    · obtain ⟨_, _, _, _, rfl⟩ := nonUniformScaleMatrix_ok hb
      rw [apply_diag4]; simp [StepCmd.action, h1]
    · obtain ⟨_, _, _, _, rfl⟩ := nonUniformScaleMatrix_ok hb
      rw [apply_diag4]; simp [StepCmd.action, h0, h1]
  | translate v => simp only [StepCmd.build] at hb; injection hb with hb; subst hb; exact apply_translation v p av
  | rotate r => simp only [StepCmd.build] at hb; injection hb with hb; subst hb; exact apply_ofM3 r p av
  | reorient r =>
    cases r with
    | ok r => simp only [StepCmd.build] at hb; injection hb with hb; subst hb; exact apply_ofM3 r p av
    | error e => simp [StepCmd.build] at hb

/-- the stored inverse matrix acts as the documented undoing: divide, negate, subtract, multiply by `Rᵀ`. -/
theorem builder_inv_action {cmd : StepCmd K} {s : Step K} (hb : cmd.build = .ok s) (p : V3 K) (av : Bool) :
    applyTransform s.2 p av = cmd.invAction av p := by
  cases cmd with
  | appendTransform f i => simp only [StepCmd.build] at hb; injection hb with hb; subst hb; rfl
  | appendTransformAuto f i =>
    cases i with
    | ok i => simp only [StepCmd.build] at hb; injection hb with hb; subst hb; rfl
    | error e => simp [StepCmd.build] at hb
  | uniformScale x a =>
    obtain ⟨_, _, rfl⟩ := uniformScaleMatrix_ok hb; rw [apply_diag4]
    ext <;> simp [StepCmd.invAction, V3.sdiv] <;> ring
  | nonUniformScale x y z a =>
    obtain ⟨_, _, _, _, rfl⟩ := nonUniformScaleMatrix_ok hb; rw [apply_diag4]
    ext <;> simp [StepCmd.invAction] <;> ring
  | convertUnits x =>
    obtain ⟨_, _, rfl⟩ := uniformScaleMatrix_ok hb; rw [apply_diag4]
    ext <;> simp [StepCmd.invAction, V3.sdiv] <;> ring
  | flip d =>
    simp only [StepCmd.build] at hb
    split_ifs at hb with h0 h1 h2
    · obtain ⟨_, _, _, _, rfl⟩ := nonUniformScaleMatrix_ok hb
      rw [apply_diag4]; simp [StepCmd.invAction, h0]
    · obtain ⟨_, _, _, _, rfl⟩ := nonUniformScaleMatrix_ok hb
      rw [apply_diag4]; simp [StepCmd.invAction, h1]
    · obtain ⟨_, _, _, _, rfl⟩ := nonUniformScaleMatrix_ok hb
      rw [apply_diag4]; simp [StepCmd.invAction, h0, h1]
  | translate v => simp only [StepCmd.build] at hb; injection hb with hb; subst hb; exact apply_translation_inv v p av
  | rotate r =>
    simp only [StepCmd.build] at hb; injection hb with hb; subst hb
    exact apply_ofM3 r.transpose p av
  | reorient r =>
    cases r with
    | ok r =>
      simp only [StepCmd.build] at hb; injection hb with hb; subst hb
      exact apply_ofM3 r.transpose p av
    | error e => simp [StepCmd.build] at hb

/-- the second matrix of every appended pair is a two-sided inverse of the first: unconditionally for
    translate / scale / flip / unit conversion (an accepted scale factor is non-zero), for rotations given
    `R Rᵀ = Rᵀ R = 1`, for explicit matrices given that the supplied (or numerically computed) matrix is an inverse. -/
theorem builder_inverse {cmd : StepCmd K} {s : Step K} (hb : cmd.build = .ok s) (hw : cmd.WellFormed) :
    IsInvPair s := by
  cases cmd with
  | appendTransform f i => simp only [StepCmd.build] at hb; injection hb with hb; subst hb; exact hw
  | appendTransformAuto f i =>
    cases i with
    | ok i => simp only [StepCmd.build] at hb; injection hb with hb; subst hb; exact hw
    | error e => simp [StepCmd.build] at hb
  | uniformScale x a =>
    obtain ⟨h, _, rfl⟩ := uniformScaleMatrix_ok hb; exact isInvPair_diag4 h h h
  | nonUniformScale x y z a =>
    obtain ⟨hx, hy, hz, _, rfl⟩ := nonUniformScaleMatrix_ok hb; exact isInvPair_diag4 hx hy hz
  | convertUnits x =>
    obtain ⟨h, _, rfl⟩ := uniformScaleMatrix_ok hb; exact isInvPair_diag4 h h h
  | flip d =>
    simp only [StepCmd.build] at hb
    split_ifs at hb <;>
      (obtain ⟨hx, hy, hz, _, rfl⟩ := nonUniformScaleMatrix_ok hb; exact isInvPair_diag4 hx hy hz)
  | translate v => simp only [StepCmd.build] at hb; injection hb with hb; subst hb; exact isInvPair_translation v
  | rotate r => simp only [StepCmd.build] at hb; injection hb with hb; subst hb; exact isInvPair_rotation hw.1 hw.2
  | reorient r =>
    cases r with
    | ok r => simp only [StepCmd.build] at hb; injection hb with hb; subst hb; exact isInvPair_rotation hw.1 hw.2
    | error e => simp [StepCmd.build] at hb

/-- one-sided hypotheses are enough: `forward * reverse = 1` for explicit matrices, `R Rᵀ = 1` for rotations
    (over a field a one-sided inverse of a square matrix is two-sided). -/
def LeftWellFormed : StepCmd K → Prop
  | .appendTransform f i => f * i = 1
  | .appendTransformAuto f (.ok i) => f * i = 1
  | .rotate r => M3.mul r r.transpose = M3.one
  | .reorient (.ok r) => M3.mul r r.transpose = M3.one
  | _ => True

theorem wellFormed_of_left {cmd : StepCmd K} (h : LeftWellFormed cmd) : cmd.WellFormed := by
  cases cmd with
  | appendTransform f i => exact ⟨h, m4_mul_eq_one_comm h⟩
  | appendTransformAuto f i =>
    cases i with
    | ok i => exact ⟨h, m4_mul_eq_one_comm h⟩
    | error e => trivial
  | rotate r => exact ⟨h, m3_mul_eq_one_comm h⟩
  | reorient r =>
    cases r with
    | ok r => exact ⟨h, m3_mul_eq_one_comm h⟩
    | error e => trivial
  | _ => trivial

/-- rotation: `(R₄, R₄ᵀ)` is an inverse pair given `R Rᵀ = 1`. -/
theorem builder_inverse_rotation {r : M3 K} (h : M3.mul r r.transpose = M3.one) : IsInvPair (rotationMatrix r) :=
  isInvPair_rotation h (m3_mul_eq_one_comm h)

/-- explicit matrix: if the forward matrix is affine and the stored matrix is a (one-sided) inverse, the stored
    matrix is affine too. -/
theorem builder_explicit_inverse_affine {f i : M4 K} (hf : IsAffine f) (h : f * i = 1) : IsAffine i :=
  hf.of_mul_eq_one h

/-- an accepted scale factor is non-zero, and positive unless `allow_flipping` -/
theorem builder_scale_accepts {x y z : K} {a : Bool} :
    (StepCmd.nonUniformScale x y z a).accepted = true ↔
      x ≠ 0 ∧ y ≠ 0 ∧ z ≠ 0 ∧ (a = false → 0 < x ∧ 0 < y ∧ 0 < z) := by
  constructor
  · intro h
    unfold StepCmd.accepted at h
    cases hb : (StepCmd.nonUniformScale x y z a).build with
    | ok s => have := nonUniformScaleMatrix_ok (by simpa [StepCmd.build] using hb); exact ⟨this.1, this.2.1, this.2.2.1, this.2.2.2.1⟩
    | error e => simp [hb] at h
  · rintro ⟨hx, hy, hz, ha⟩
    have h1 : ¬ ((x == 0 || y == 0 || z == 0) = true) := by simp [hx, hy, hz]
    have h2 : ¬ ((!a && (decide (x < 0) || decide (y < 0) || decide (z < 0))) = true) := by
      cases a with
      | true => simp
      | false =>
        obtain ⟨px, py, pz⟩ := ha rfl
        simp [not_lt.mpr px.le, not_lt.mpr py.le, not_lt.mpr pz.le]
    have hb : (StepCmd.nonUniformScale x y z a).build = .ok (diag4 x y z, diag4 (1 / x) (1 / y) (1 / z)) := by
      show nonUniformScaleMatrix x y z a = _
      unfold nonUniformScaleMatrix
      rw [if_neg h1, if_neg h2]
    simp [StepCmd.accepted, hb]

/-! ### 3. the call is the left fold of the documented step actions over `steps[start:stop]` -/

theorem mem_accepted {h : List (StepCmd K)} {cmd : StepCmd K} (hc : cmd ∈ acceptedCmds h) :
    cmd ∈ h ∧ cmd.build = .ok cmd.stepOf := by
  unfold acceptedCmds at hc
  rw [List.mem_filter] at hc
  refine ⟨hc.1, ?_⟩
  have h2 := hc.2
  unfold StepCmd.accepted at h2
  unfold StepCmd.stepOf
  cases hb : cmd.build with
  | ok s => rfl
  | error e => simp [hb] at h2

/-- the object holds one pair per accepted call. -/
theorem C03_state (h : List (StepCmd K)) :
    (Composite.exec [] h).1 = (acceptedCmds h).map StepCmd.stepOf := by
  simpa using exec_fst ([] : Composite K) h

theorem C03_state_length (h : List (StepCmd K)) :
    (Composite.exec [] h).1.length = (acceptedCmds h).length := by
  simp [C03_state]

theorem mem_extract {α : Type} {l : List α} {i j : Nat} {x : α} (hx : x ∈ l.extract i j) : x ∈ l := by
  rw [List.extract_eq_take_drop] at hx
  exact List.mem_of_mem_drop (List.mem_of_mem_take hx)

theorem selected_range (h : List (StepCmd K)) {start stop : Nat} (hs : start ≤ stop)
    (he : stop ≤ (acceptedCmds h).length) :
    (Composite.exec [] h).1.selected (some ((start : Int), (stop : Int))) =
      ((acceptedCmds h).extract start stop).map StepCmd.stepOf := by
  unfold Composite.selected
  simp only
  rw [pySlice_nat _ (by rw [C03_state_length]; exact he) hs, C03_state]
  simp [List.extract_eq_take_drop, List.map_take, List.map_drop]

/-- **call = fold**: for every history, every `0 ≤ start ≤ stop ≤ len` and every point, calling the object
    with `from_range=(start, stop)` equals applying the documented action of each accepted step of
    `steps[start:stop]`, one after another, in the order appended. -/
theorem C03_call_eq_fold (h : List (StepCmd K)) (haff : ∀ cmd ∈ h, cmd.Affine) {start stop : Nat}
    (hs : start ≤ stop) (he : stop ≤ (acceptedCmds h).length) (av : Bool) (p : V3 K) :
    (Composite.exec [] h).1.callPoint (some ((start : Int), (stop : Int))) false av p =
      ((acceptedCmds h).extract start stop).foldl (fun q cmd => cmd.action av q) p := by
  unfold Composite.callPoint
  rw [transformMatrixFor_forward, selected_range h hs he, apply_fwdProd, List.foldl_map]
  · apply foldl_congr_mem
    intro cmd hc q
    exact builder_action (mem_accepted (mem_extract hc)).2 q av
  · intro s hsm
    rw [List.mem_map] at hsm
    obtain ⟨cmd, hc, rfl⟩ := hsm
    have := mem_accepted (mem_extract hc)
    exact (builder_affine this.2 (haff cmd this.1)).1

/-- the same for `reverse=True`: the documented undoing of each step of `steps[start:stop]`, last step first. -/
theorem C03_reverse_eq_fold (h : List (StepCmd K)) (haff : ∀ cmd ∈ h, cmd.Affine) {start stop : Nat}
    (hs : start ≤ stop) (he : stop ≤ (acceptedCmds h).length) (av : Bool) (p : V3 K) :
    (Composite.exec [] h).1.callPoint (some ((start : Int), (stop : Int))) true av p =
      ((acceptedCmds h).extract start stop).reverse.foldl (fun q cmd => cmd.invAction av q) p := by
  unfold Composite.callPoint
  rw [transformMatrixFor_reverse, selected_range h hs he, apply_invProd, ← List.map_reverse, List.foldl_map]
  · apply foldl_congr_mem
    intro cmd hc q
    exact builder_inv_action (mem_accepted (mem_extract (List.mem_reverse.mp hc))).2 q av
  · intro s hsm
    rw [List.mem_map] at hsm
    obtain ⟨cmd, hc, rfl⟩ := hsm
    have := mem_accepted (mem_extract hc)
    exact (builder_affine this.2 (haff cmd this.1)).2

/-- `from_range=None` selects every step. -/
theorem C03_call_all (h : List (StepCmd K)) (rev av : Bool) (p : V3 K) :
    (Composite.exec [] h).1.callPoint none rev av p =
      (Composite.exec [] h).1.callPoint (some ((0 : Nat), ((acceptedCmds h).length : Nat))) rev av p := by
  unfold Composite.callPoint Composite.transformMatrixFor Composite.matrices Composite.selected
  simp only
  rw [pySlice_nat _ (by rw [C03_state_length]) (Nat.zero_le _), ← C03_state_length, extract_full]

/-- the matrix itself, in homogeneous form and without any affinity assumption: its action on a
    homogeneous 4-vector is the forward matrices of `steps[start:stop]` applied in order. -/
theorem C03_matrix_eq_fold (c : Composite K) {start stop : Nat} (hs : start ≤ stop) (he : stop ≤ c.length)
    (v : V4 K) :
    (c.transformMatrixFor (some ((start : Int), (stop : Int))) false).mulVec v =
      (c.extract start stop).foldl (fun q s => s.1.mulVec q) v := by
  rw [transformMatrixFor_forward, mulVec_fwdProd]
  unfold Composite.selected
  simp only
  rw [pySlice_nat _ he hs]

/-! ### 4. reverse -/

theorem mem_pySlice {α : Type} {l : List α} {a b : Int} {x : α} (hx : x ∈ pySlice l a b) : x ∈ l := by
  unfold pySlice at hx
  exact List.mem_of_mem_drop (List.mem_of_mem_take hx)

theorem mem_selected {c : Composite K} {r : Option (Int × Int)} {s : Step K} (hs : s ∈ c.selected r) : s ∈ c := by
  unfold Composite.selected at hs
  cases r with
  | none => exact hs
  | some ab => exact mem_pySlice hs

/-- `reverse=True` composes the stored inverses of the selected steps, last step first. -/
theorem C03_reverse_matrices (c : Composite K) (r : Option (Int × Int)) :
    c.matrices r true = ((c.selected r).map (·.2)).reverse ∧ c.matrices r false = (c.selected r).map (·.1) := by
  simp [Composite.matrices, List.map_reverse]

/-- `transform_matrix_for(range, reverse=True)` is the matrix inverse of `transform_matrix_for(range)`,
    for every range (any Python slice), given each stored pair is an inverse pair. -/
theorem C03_matrix_inverse (c : Composite K) (hinv : ∀ s ∈ c, IsInvPair s) (r : Option (Int × Int)) :
    c.transformMatrixFor r true * c.transformMatrixFor r false = 1 ∧
      c.transformMatrixFor r false * c.transformMatrixFor r true = 1 := by
  rw [transformMatrixFor_forward, transformMatrixFor_reverse]
  have h : ∀ s ∈ c.selected r, IsInvPair s := fun s hs => hinv s (mem_selected hs)
  exact ⟨invProd_mul_fwdProd h, fwdProd_mul_invProd h⟩

/-- the pairs stored after a history of well-formed calls are inverse pairs and affine. -/
theorem C03_history_pairs (h : List (StepCmd K)) (hw : ∀ cmd ∈ h, cmd.WellFormed) (haff : ∀ cmd ∈ h, cmd.Affine) :
    ∀ s ∈ (Composite.exec [] h).1, IsInvPair s ∧ IsAffine s.1 ∧ IsAffine s.2 := by
  intro s hs
  rw [C03_state, List.mem_map] at hs
  obtain ⟨cmd, hc, rfl⟩ := hs
  have := mem_accepted hc
  exact ⟨builder_inverse this.2 (hw cmd this.1), builder_affine this.2 (haff cmd this.1)⟩

theorem C03_matrix_inverse_history (h : List (StepCmd K)) (hw : ∀ cmd ∈ h, cmd.WellFormed)
    (haff : ∀ cmd ∈ h, cmd.Affine) (r : Option (Int × Int)) :
    (Composite.exec [] h).1.transformMatrixFor r true * (Composite.exec [] h).1.transformMatrixFor r false = 1 ∧
      (Composite.exec [] h).1.transformMatrixFor r false * (Composite.exec [] h).1.transformMatrixFor r true = 1 :=
  C03_matrix_inverse _ (fun s hs => (C03_history_pairs h hw haff s hs).1) r

/-- calling with `reverse=True` on the result of the forward call returns the original point (and the
    other way round), for every range, for points and for vectors. -/
theorem C03_reverse_roundtrip (c : Composite K) (hinv : ∀ s ∈ c, IsInvPair s)
    (haff : ∀ s ∈ c, IsAffine s.1 ∧ IsAffine s.2) (r : Option (Int × Int)) (av : Bool) (p : V3 K) :
    c.callPoint r true av (c.callPoint r false av p) = p ∧
      c.callPoint r false av (c.callPoint r true av p) = p := by
  unfold Composite.callPoint
  have hf : IsAffine (c.transformMatrixFor r false) := by
    rw [transformMatrixFor_forward]
    exact isAffine_fwdProd fun s hs => (haff s (mem_selected hs)).1
  have hr : IsAffine (c.transformMatrixFor r true) := by
    rw [transformMatrixFor_reverse]
    exact isAffine_invProd fun s hs => (haff s (mem_selected hs)).2
  have hm := C03_matrix_inverse c hinv r
  constructor
  · rw [← applyTransform_mul hf, hm.1, applyTransform_one]
  · rw [← applyTransform_mul hr, hm.2, applyTransform_one]

theorem C03_reverse_roundtrip_history (h : List (StepCmd K)) (hw : ∀ cmd ∈ h, cmd.WellFormed)
    (haff : ∀ cmd ∈ h, cmd.Affine) (r : Option (Int × Int)) (av : Bool) (p : V3 K) :
    (Composite.exec [] h).1.callPoint r true av ((Composite.exec [] h).1.callPoint r false av p) = p ∧
      (Composite.exec [] h).1.callPoint r false av ((Composite.exec [] h).1.callPoint r true av p) = p :=
  C03_reverse_roundtrip _ (fun s hs => (C03_history_pairs h hw haff s hs).1)
    (fun s hs => (C03_history_pairs h hw haff s hs).2) r av p

/-! ### the unrestricted clauses and their defect witnesses (known finding `roundtrip/non-affine-explicit-matrix`) -/

/-- the full clause "call = documented step actions applied one after another", for *every* accepted history
    (no affinity hypothesis).  False: `C03_call_eq_fold_defect_witness`.  Partial version: `C03_call_eq_fold`. -/
def C03_call_eq_fold_full : Prop :=
  ∀ (K : Type) [Field K] [LinearOrder K] [IsStrictOrderedRing K] (h : List (StepCmd K)) (start stop : Nat),
    start ≤ stop → stop ≤ (acceptedCmds h).length → ∀ (av : Bool) (p : V3 K),
      (Composite.exec [] h).1.callPoint (some ((start : Int), (stop : Int))) false av p =
        ((acceptedCmds h).extract start stop).foldl (fun q cmd => cmd.action av q) p

/-- the full clause "reverse=True on the result returns the original points", for every history whose stored
    inverses are inverses (no affinity hypothesis).  False: `C03_reverse_roundtrip_defect_witness`.
    Partial version: `C03_reverse_roundtrip_history`. -/
def C03_reverse_roundtrip_full : Prop :=
  ∀ (K : Type) [Field K] [LinearOrder K] [IsStrictOrderedRing K] (h : List (StepCmd K)),
    (∀ cmd ∈ h, cmd.WellFormed) → ∀ (r : Option (Int × Int)) (av : Bool) (p : V3 K),
      (Composite.exec [] h).1.callPoint r true av ((Composite.exec [] h).1.callPoint r false av p) = p

/-- the accepted, exactly invertible, non-affine matrix of the witness: identity with entry [3,0] = 1 -/
def witnessMatrix : M4 ℚ := ⟨⟨1, 0, 0, 0⟩, ⟨0, 1, 0, 0⟩, ⟨0, 0, 1, 0⟩, ⟨1, 0, 0, 1⟩⟩
/-- its inverse -/
def witnessInverse : M4 ℚ := ⟨⟨1, 0, 0, 0⟩, ⟨0, 1, 0, 0⟩, ⟨0, 0, 1, 0⟩, ⟨-1, 0, 0, 1⟩⟩
/-- `append_transform(a, a⁻¹); translate([1,0,0])` -/
def witnessHistory : List (StepCmd ℚ) := [.appendTransform witnessMatrix witnessInverse, .translate ⟨1, 0, 0⟩]

theorem witnessHistory_wellFormed : ∀ cmd ∈ witnessHistory, cmd.WellFormed := by
  intro cmd hc
  simp only [witnessHistory, List.mem_cons, List.not_mem_nil, or_false] at hc
  rcases hc with rfl | rfl
  · constructor <;> simp only [m4_mul_def, m4_one_def] <;> ext <;>
      simp [witnessMatrix, witnessInverse, M4.mul, M4.one, V4.dot, M4.col0, M4.col1, M4.col2, M4.col3]
  · trivial

theorem witnessHistory_state :
    (Composite.exec [] witnessHistory).1 = [(witnessMatrix, witnessInverse), translationMatrix ⟨1, 0, 0⟩] := rfl

/-- concrete values: the call sends (1,0,0) to (3,0,0); step by step it is (2,0,0); the reverse call sends
    (3,0,0) to (2,0,0). -/
theorem witness_values :
    (Composite.exec [] witnessHistory).1.callPoint none false false ⟨1, 0, 0⟩ = ⟨3, 0, 0⟩ ∧
      (Composite.exec [] witnessHistory).1.callPoint none true false ⟨3, 0, 0⟩ = ⟨2, 0, 0⟩ ∧
      (acceptedCmds witnessHistory).foldl (fun q cmd => cmd.action false q) (⟨1, 0, 0⟩ : V3 ℚ) = ⟨2, 0, 0⟩ := by
  rw [witnessHistory_state]
  refine ⟨?_, ?_, ?_⟩
  · ext <;> simp [Composite.callPoint, Composite.transformMatrixFor, Composite.matrices, Composite.selected,
      composeTransforms, applyTransform, translationMatrix, witnessMatrix, M4.mul, M4.mulVec, V4.dot, V4.xyz,
      M4.col0, M4.col1, M4.col2, M4.col3] <;> norm_num
  · ext <;> simp [Composite.callPoint, Composite.transformMatrixFor, Composite.matrices, Composite.selected,
      composeTransforms, applyTransform, translationMatrix, witnessInverse, M4.mul, M4.mulVec, V4.dot, V4.xyz,
      M4.col0, M4.col1, M4.col2, M4.col3] <;> norm_num
  · have h1 : acceptedCmds witnessHistory = witnessHistory := rfl
    rw [h1]
    ext <;> simp [witnessHistory, StepCmd.action, applyTransform, witnessMatrix, M4.mulVec, V4.dot, V4.xyz] <;> norm_num

/-- **defect witness**: the reverse call does not undo the forward call for an accepted, exactly invertible
    explicit matrix whose last row is not 0 0 0 1. -/
theorem C03_reverse_roundtrip_defect_witness : ¬ C03_reverse_roundtrip_full := by
  intro hfull
  have h := hfull ℚ witnessHistory witnessHistory_wellFormed none false ⟨1, 0, 0⟩
  rw [witness_values.1, witness_values.2.1] at h
  have := congrArg V3.x h
  norm_num at this

/-- **defect witness**: for the same history the call is not the step-by-step 3-D action. -/
theorem C03_call_eq_fold_defect_witness : ¬ C03_call_eq_fold_full := by
  intro hfull
  have hl : (acceptedCmds witnessHistory).length = 2 := rfl
  have h := hfull ℚ witnessHistory 0 2 (by norm_num) (by rw [hl]) false ⟨1, 0, 0⟩
  rw [← hl, ← C03_call_all witnessHistory false false, witness_values.1, extract_full, witness_values.2.2] at h
  have := congrArg V3.x h
  norm_num at this

/-! ### 5. vector mode, stacks, discard_z, returned indices -/

/-- is the call a `translate`? -/
def isTranslate : StepCmd K → Bool
  | .translate _ => true
  | _ => false

theorem C03_vector_translate_id (v p : V3 K) : (StepCmd.translate v).action true p = p := rfl

/-- with `treat_input_as_vector=True` translations have no effect: folding the documented actions over any
    list of steps gives the same vector as folding over the list with its translations removed. -/
theorem C03_vector_mode_fold (l : List (StepCmd K)) (p : V3 K) :
    l.foldl (fun q cmd => cmd.action true q) p =
      (l.filter fun cmd => !isTranslate cmd).foldl (fun q cmd => cmd.action true q) p := by
  induction l generalizing p with
  | nil => rfl
  | cons cmd t ih =>
    cases cmd with
    | translate v =>
      rw [List.foldl_cons, C03_vector_translate_id, List.filter_cons]
      simp only [isTranslate, Bool.not_true, Bool.false_eq_true, if_false]
      exact ih p
    | _ =>
      rw [List.foldl_cons, List.filter_cons]
      simp only [isTranslate, Bool.not_false, if_true, List.foldl_cons]
      exact ih _

/-- history form: the object built from the history without its `translate` calls transforms vectors the same way. -/
theorem C03_vector_mode (h : List (StepCmd K)) (haff : ∀ cmd ∈ h, cmd.Affine) (p : V3 K) :
    (Composite.exec [] h).1.callPoint none false true p =
      (Composite.exec [] (h.filter fun cmd => !isTranslate cmd)).1.callPoint none false true p := by
  have haff' : ∀ cmd ∈ h.filter (fun cmd => !isTranslate cmd), cmd.Affine :=
    fun cmd hc => haff cmd (List.mem_filter.mp hc).1
  rw [C03_call_all h, C03_call_all _,
    C03_call_eq_fold h haff (Nat.zero_le _) (le_refl _), C03_call_eq_fold _ haff' (Nat.zero_le _) (le_refl _),
    extract_full, extract_full, C03_vector_mode_fold]
  congr 1
  simp only [acceptedCmds, List.filter_filter]
  congr 1
  funext cmd
  exact Bool.and_comm _ _

/-- a stack of points gives, row by row, what the single-point call gives. -/
theorem C03_stack_is_map (c : Composite K) (l : List (V3 K)) (r : Option (Int × Int)) (rev av : Bool) :
    c.call (.many l) r rev av = .many (l.map fun p => c.callPoint r rev av p) ∧
      ∀ p, c.call (.one p) r rev av = .one (c.callPoint r rev av p) :=
  ⟨rfl, fun _ => rfl⟩

/-- `discard_z_coord=True` only drops the third coordinate. -/
theorem C03_discard_z (c : Composite K) (pts : Arg (V3 K)) (r : Option (Int × Int)) (rev av : Bool) :
    c.callDiscardZ pts r rev av = (c.call pts r rev av).map fun p => (p.x, p.y) := rfl

/-- every appending call that does not raise returns the old length, and adds exactly one pair at that index. -/
theorem C03_append_returns_index (c : Composite K) (cmd : StepCmd K) {c' : Composite K} {i : Nat}
    (h : c.step cmd = .ok (c', i)) :
    i = c.length ∧ c'.length = c.length + 1 ∧ c' = c ++ [cmd.stepOf] ∧ c'.extract i (i + 1) = [cmd.stepOf] := by
  rw [step_eq_build] at h
  cases hb : cmd.build with
  | error e => simp [hb] at h
  | ok s =>
    simp only [hb] at h
    injection h with h
    injection h with h1 h2
    have hs : cmd.stepOf = s := by simp [StepCmd.stepOf, hb]
    subst h1 h2
    refine ⟨rfl, by simp, by rw [hs], ?_⟩
    rw [hs]
    simp [List.extract_eq_take_drop]

/-- a refused call leaves the object unchanged. -/
theorem C03_refused_unchanged (c : Composite K) (cmd : StepCmd K) (rest : List (StepCmd K)) {e : Err}
    (h : c.step cmd = .error e) : (c.exec (cmd :: rest)).1 = (c.exec rest).1 := by
  simp [Composite.exec, h]

theorem expectedReturns_getElem? (n : Nat) (h : List (StepCmd K)) (k : Nat) (hk : k < h.length) :
    (expectedReturns n h)[k]? = some (match h[k].build with
      | .ok _ => .ok (n + (acceptedCmds (h.take k)).length)
      | .error e => .error e) := by
  induction h generalizing n k with
  | nil => simp at hk
  | cons cmd rest ih =>
    cases k with
    | zero =>
      unfold expectedReturns
      cases hb : cmd.build <;> simp [hb, acceptedCmds]
    | succ k =>
      have hk' : k < rest.length := by simpa using hk
      unfold expectedReturns
      cases hb : cmd.build with
      | ok s =>
        simp only [List.getElem?_cons_succ, ih (n + 1) k hk', List.getElem_cons_succ, List.take_succ_cons,
          acceptedCmds, List.filter_cons, StepCmd.accepted, hb]
        simp only [if_true, List.length_cons]
        cases rest[k].build <;> simp; omega
      | error e =>
        simp only [List.getElem?_cons_succ, ih n k hk', List.getElem_cons_succ, List.take_succ_cons,
          acceptedCmds, List.filter_cons, StepCmd.accepted, hb]
        simp

/-- over a whole history: the k-th call returns the number of calls accepted before it (or raises). -/
theorem C03_history_returns (h : List (StepCmd K)) (k : Nat) (hk : k < h.length) :
    (Composite.exec [] h).2[k]? = some (match h[k].build with
      | .ok _ => .ok (acceptedCmds (h.take k)).length
      | .error e => .error e) := by
  rw [exec_snd, expectedReturns_getElem? _ _ _ hk]
  simp

/-- index ranges built from returned values select exactly those steps: if the history is
    `before ++ mid ++ after`, the range from (what the first accepted call of `mid` returned) to
    (what its last accepted call returned) + 1 selects exactly the pairs appended by `mid`. -/
theorem C03_range_selects (before mid after : List (StepCmd K)) :
    pySlice (Composite.exec [] (before ++ mid ++ after)).1
        ((acceptedCmds before).length : Nat) (((acceptedCmds before).length + (acceptedCmds mid).length : Nat)) =
      (acceptedCmds mid).map StepCmd.stepOf := by
  have hlen : (Composite.exec [] (before ++ mid ++ after)).1.length =
      (acceptedCmds before).length + (acceptedCmds mid).length + (acceptedCmds after).length := by
    simp [C03_state, acceptedCmds, List.filter_append]
    omega
  rw [pySlice_nat _ (by omega) (by omega), C03_state]
  simp [acceptedCmds, List.filter_append, List.extract_eq_take_drop]

/-! ### the hypotheses are satisfiable -/

example : ∃ h : List (StepCmd ℚ), (∀ cmd ∈ h, cmd.Affine) ∧ (∀ cmd ∈ h, cmd.WellFormed) ∧
    (acceptedCmds h).length = 3 := by
  refine ⟨[.translate ⟨1, 2, 3⟩, .uniformScale 2 false, .rotate M3.one], ?_, ?_, ?_⟩
  · intro cmd hc
    simp only [List.mem_cons, List.not_mem_nil, or_false] at hc
    rcases hc with rfl | rfl | rfl <;> trivial
  · intro cmd hc
    simp only [List.mem_cons, List.not_mem_nil, or_false] at hc
    rcases hc with rfl | rfl | rfl
    · trivial
    · trivial
    · constructor <;> (ext <;> simp [M3.mul, M3.one, M3.transpose, M3.col0, M3.col1, M3.col2, V3.dot])
  · have h1 : (StepCmd.translate (⟨1, 2, 3⟩ : V3 ℚ)).accepted = true := rfl
    have h2 : (StepCmd.uniformScale (2 : ℚ) false).accepted = true := by
      have : ¬ ((2 : ℚ) < 0) := by norm_num
      simp [StepCmd.accepted, StepCmd.build, uniformScaleMatrix, nonUniformScaleMatrix, this]
    have h3 : (StepCmd.rotate (M3.one : M3 ℚ)).accepted = true := rfl
    simp [acceptedCmds, h1, h2, h3]

end PW.C03
