/-
  C20 — every operation is pure, elementwise over stacks, and strict about shapes.

  Clause 1 (shape strictness) — PROOF, by G.  `PW.Gen.sig_*` (lean/PW/Gen/Signatures.lean) is, for every public
  callable, the ordered list of shape-validation calls the translator finds in its source.  Below, per callable,
  the DOCUMENTED forms (written by hand from the docstrings: the single form, the stacked form, which arguments
  share `k`) are the right-hand side of a theorem

      accepts Gen.sig_<callable> [(argument, value)…]  ↔  the values are one of the documented forms

  for ALL argument values: `None`, a Python scalar, an ndarray of any rank and any dimensions.  A removed or
  loosened check changes the generated signature and breaks that callable's theorem.  The proofs split each
  argument by rank (0, 1, 2, 3, ≥ 4 — no pattern in polliwog is longer than 3), evaluate the signature, and
  leave linear arithmetic over the dimensions to `omega`.
  `accepts` is "the validation prefix raises nothing"; by `checkValue_error`/`checkShapeAny_two_error` the only
  thing it raises on an ndarray is `ValueError`.

  Clause 2 (elementwise over stacks) — structural PROOF + tie.  In the model a stacked result is `map`/`zipWith`
  of the single one (PW.Model.Stacked); the theorems below say so row by row, for the empty stack, and for
  stacks of unequal length.  That the vectorised NumPy code equals this map is the correspondence check
  (harness/props/c20.py, oracle key `stack-is-map/<callable>`).

  Clause 3 (purity) — PARTIAL PROOF on an alias abstraction + runtime monitor.  `PW.Gen.allFx`
        (lean/PW/Gen/Effects.lean, regenerated from the source by harness/translate/c20fx.py) is every public callable
        and every helper it reaches, abstracted into the alias language of lean/PW/Model/Effects.lean.
        `PW.Effects.sound` (lean/PW/Lemmas/Effects.lean) proves the abstract interpreter sound for that language's
        concrete semantics; `gen_summaries_stable` states the callee summaries used are a fixed point;
        `gen_argument_writes` lists — from the generated programs — the only public callables the interpreter sees
        writing through a parameter (the documented builders of CompositeTransform / CoordinateManager, attribute
        assignment on a CoordinateManager, and the class-level validator cache of validate / deserialize), and
        `public_callables_leave_arguments_unchanged` concludes that every other public callable leaves the memory of
        all its arguments (and of `self`), and the module-level / closure state that outlives the call (the last
        pseudo-parameter of every program), unchanged in every execution of its abstract program.  NOT covered by the
        theorem: that the Python source behaves like its abstract program (which expressions return views, which
        NumPy calls work in place, loops unrolled a fixed number of times, no writes through module globals /
        closures of other modules) — that is the translator's trusted abstraction; determinism ("calling it again
        gives the same result") stays with the runtime monitor in harness/props/c20.py.

  NOT COVERED by a full shape theorem (and why):
    transform.rodrigues_vector_to_rotation_matrix, transform.cv2_rodrigues
        the code accepts every array with exactly 3 elements (`r.flatten()` / `r.size == 3`), not only the documented
        (3,), (3,1), (1,3): `_partial` theorem = the actual acceptance set, `_defect_witness`, full statement kept
        as a `def … : Prop` and refuted (`_full_fails`).  Known finding (OpenCV-compatible on purpose).
    transform.world_to_view            `up` has no check of its own (vg.cross / np.array raise ValueError): `_partial`
    Plane.from_point_and_normal        `normal` goes through vg.normalize before the constructor's check: `_partial`
    Polyline.apex                      validated only inside vg.apex: no signature, no theorem (oracle only)
    callables without array arguments (view_to_orthographic_projection, viewport_transform,
        transform_matrix_for_(non_)uniform_scale, edges_for, Polyline.rounded/serialize/flipped/flipped_if/rolled/
        sliced_at_indices/join/intersect_plane/sliced_by_plane, Plane.rounded/serialize/flipped/flipped_if,
        Line.intersect_line, CompositeTransform.uniform_scale/non_uniform_scale/flip/convert_units/
        transform_matrix_for, CoordinateManager.tag_as and the scalar wrappers, validate/deserialize (C19)):
        nothing to state; they are exercised by the purity/determinism monitor only.
    compose_transforms (not in `polliwog.transform.__all__`): its check sits in a `for` loop over `*transforms`.
-/
import PW.Model.Shape
import PW.Model.Plane
import PW.Model.Stacked
import PW.Lemmas.Shape
import PW.Gen.Signatures
import PW.Gen.Effects
import PW.Lemmas.Effects
import Mathlib.Data.List.Forall2

set_option linter.unusedVariables false
set_option linter.unnecessarySeqFocus false
set_option linter.style.nameCheck false
set_option linter.unusedSectionVars false

namespace PW.C20

open PW PW.Shape

/-! ## the helpers (`vg.shape.check_value`, `check_value_any`, `check_shape_any`, both `columnize`s) -/

/-- `check_value` core: the shape matches a pattern iff the ranks agree and every non-wildcard dimension is
    the stated one. -/
theorem matchDims_length (p : Pat) (s : Shape) (h : matchDims p s = true) : s.length = p.length := by
  induction p generalizing s with
  | nil => cases s <;> simp_all [matchDims]
  | cons d p ih =>
    cases s with
    | nil => cases d <;> simp [matchDims] at h
    | cons n s =>
      cases d with
      | dim m => simp [matchDims] at h; simp [ih s h.2]
      | wild => simp [matchDims] at h; simp [ih s h]

theorem matchDims_iff (p : Pat) (s : Shape) :
    matchDims p s = true ↔ List.Forall₂ (fun d n => d = Dim.wild ∨ d = Dim.dim n) p s := by
  induction p generalizing s with
  | nil => cases s <;> simp [matchDims]
  | cons d p ih =>
    cases s with
    | nil => cases d <;> simp [matchDims]
    | cons n s =>
      cases d with
      | dim m =>
        simp only [matchDims, Bool.and_eq_true, beq_iff_eq, ih, List.forall₂_cons, reduceCtorEq, Dim.dim.injEq, false_or]
        constructor
        · rintro ⟨h1, h2⟩; exact ⟨h1.symm, h2⟩
        · rintro ⟨h1, h2⟩; exact ⟨h1.symm, h2⟩
      | wild => simp [matchDims, ih]

/-- `check_value_iff`: `check_value(arr, shape)` returns (the wildcard binding) exactly for an ndarray whose
    shape matches; everything else — `None`, objects without `.shape`, a wrong rank, a wrong dimension — is
    a `ValueError`, never a broadcast and never another exception class. -/
theorem checkValue_iff (a : Arg) (p : Pat) (r : Ret) :
    checkValue a p = .ok r ↔ ∃ s, a = .arr s ∧ matchDims p s = true ∧ r = retOf (wildDims p s) := by
  cases a with
  | absent => simp [checkValue]
  | number => simp [checkValue]
  | arr s =>
    simp only [checkValue, Arg.arr.injEq, exists_eq_left']
    split
    · rename_i h
      simp only [Except.ok.injEq, h, true_and]
      exact eq_comm
    · rename_i h
      simp [h]

theorem checkValue_error (a : Arg) (p : Pat) (e : Err) : checkValue a p = .error e → e = .ValueError := by
  cases a <;> simp [checkValue]
  · intro h; exact h.symm
  · intro h; exact h.symm
  · split <;> simp
    intro h; exact h.symm

/-- the wildcard binding has one entry per wildcard of the pattern -/
theorem wildDims_length (p : Pat) (s : Shape) (h : matchDims p s = true) :
    (wildDims p s).length = (p.filter (· = Dim.wild)).length := by
  induction p generalizing s with
  | nil => cases s <;> simp [wildDims]
  | cons d p ih =>
    cases s with
    | nil => cases d <;> simp [matchDims] at h
    | cons n s =>
      cases d with
      | dim m =>
        simp [matchDims] at h
        simp [wildDims, ih s h.2]
      | wild =>
        simp [matchDims] at h
        simp [wildDims, ih s h]

/-- `check_shape_any` / `check_value_any` succeed iff one of the alternatives matches (and return the binding of
    the first that does). -/
theorem firstMatch_isSome_iff (a : Arg) (ps : List Pat) :
    (firstMatch a ps).isSome = true ↔ ∃ p ∈ ps, ∃ s, a = .arr s ∧ matchDims p s = true := by
  induction ps with
  | nil => simp [firstMatch]
  | cons p ps ih =>
    simp only [firstMatch, List.mem_cons, exists_eq_or_imp]
    cases h : checkValue a p with
    | ok r =>
      simp only [Option.isSome_some, true_iff]
      left
      obtain ⟨s, hs, hm, _⟩ := (checkValue_iff a p r).mp h
      exact ⟨s, hs, hm⟩
    | error e =>
      simp only [ih]
      constructor
      · intro h'; exact Or.inr h'
      · rintro (⟨s, hs, hm⟩ | h')
        · have := (checkValue_iff a p (retOf (wildDims p s))).mpr ⟨s, hs, hm, rfl⟩
          rw [h] at this; cases this
        · exact h'

theorem checkShapeAny_two (a : Arg) (p q : Pat) (s : Shape) :
    (∃ r, checkShapeAny (.arr s) [p, q] = .ok r) ↔ (matchDims p s = true ∨ matchDims q s = true) := by
  simp only [checkShapeAny, firstMatch, checkValue]
  by_cases hp : matchDims p s = true <;> by_cases hq : matchDims q s = true <;> simp [hp, hq]

/-- with the two alternatives every polliwog caller passes, a failing `check_shape_any` on an ndarray is a
    `ValueError` -/
theorem checkShapeAny_two_error (p q : Pat) (s : Shape) (e : Err) :
    checkShapeAny (.arr s) [p, q] = .error e → e = .ValueError := by
  simp only [checkShapeAny, firstMatch, checkValue]
  by_cases hp : matchDims p s = true <;> by_cases hq : matchDims q s = true <;> simp [hp, hq]
  intro h; exact h.symm

/-- the two `columnize`s (polliwog's and vg's) agree on ndarrays for every pattern of rank ≥ 2 -/
theorem columnize_agree (s : Shape) (p : Pat) (h : 2 ≤ p.length) :
    columnizePW (.arr s) p = columnizeVG (.arr s) p := by
  have h1 : ¬ p.length = 1 := by omega
  have h2 : ¬ p.length < 2 := by omega
  simp only [columnizePW, columnizeVG, h1, h2, if_false]
  by_cases hl : s.length = p.length
  · have : matchDims p.tail s = false := by
      cases hm : matchDims p.tail s
      · rfl
      · have := matchDims_length p.tail s hm
        simp at this; omega
    simp [hl, this]
  · have : matchDims p s = false := by
      cases hm : matchDims p s
      · rfl
      · have := matchDims_length p s hm
        omega
    simp [hl, this]

/-- `columnize(arr, (-1, d…))` accepts exactly the stacked form `(k, d…)` (left as is, `is_columnized`) and the
    single form `(d…)` (reshaped to one row); everything else is a `ValueError`. -/
theorem columnizePW_iff (s : Shape) (t : Pat) (ht : t ≠ []) (c : Columnized) :
    columnizePW (.arr s) (.wild :: t) = .ok c ↔
      (∃ k s', s = k :: s' ∧ matchDims t s' = true ∧ c = ⟨s, true⟩) ∨ (matchDims t s = true ∧ c = ⟨1 :: s, false⟩) := by
  have h1 : ¬ (Dim.wild :: t).length = 1 := by
    cases t with
    | nil => exact absurd rfl ht
    | cons _ _ => simp
  simp only [columnizePW, h1, if_false, List.tail_cons, reshapeOk, reshapeTo]
  by_cases hl : s.length = (Dim.wild :: t).length
  · have hne : matchDims t s = false := by
      cases hm : matchDims t s
      · rfl
      · have := matchDims_length t s hm
        simp at hl; omega
    cases s with
    | nil => simp at hl
    | cons k s' =>
      simp only [hl, if_true, matchDims, hne]
      by_cases hm : matchDims t s' = true
      · simp only [hm, if_true, Except.ok.injEq]
        constructor
        · intro h; exact Or.inl ⟨k, s', rfl, hm, h.symm⟩
        · rintro (⟨_, _, _, _, hc⟩ | ⟨hf, _⟩)
          · exact hc.symm
          · cases hf
      · simp only [hm]
        constructor
        · intro h; cases h
        · rintro (⟨k', s'', hs, hm', _⟩ | ⟨hf, _⟩)
          · cases hs; exact absurd hm' hm
          · cases hf
  · have hne : ∀ k s', s = k :: s' → matchDims t s' = false := by
      rintro k s' rfl
      cases hm : matchDims t s'
      · rfl
      · have := matchDims_length t s' hm
        simp at hl; omega
    simp only [hl, if_false]
    by_cases hm : matchDims t s = true
    · simp only [hm, if_true, Except.ok.injEq]
      constructor
      · intro h; exact Or.inr ⟨trivial, h.symm⟩
      · rintro (⟨k', s'', hs, hm', _⟩ | ⟨_, hc⟩)
        · rw [hne k' s'' hs] at hm'; cases hm'
        · exact hc.symm
    · simp only [hm]
      constructor
      · intro h; cases h
      · rintro (⟨k', s'', hs, hm', _⟩ | ⟨hf, _⟩)
        · rw [hne k' s'' hs] at hm'; cases hm'
        · cases hf

/-! ### the continuation-passing forms used by `run` are the helpers -/

theorem checkAnyK_eq (a : Arg) (ps : List Pat) (k : Ret → Res Unit) :
    checkAnyK a ps k = match firstMatch a ps with
      | some r => k r
      | none => .error .ValueError := by
  induction ps with
  | nil => simp [checkAnyK, firstMatch]
  | cons p ps ih =>
    cases a with
    | absent => simp [checkAnyK, firstMatch, checkValue, ih]
    | number => simp [checkAnyK, firstMatch, checkValue, ih]
    | arr s =>
      simp only [checkAnyK, firstMatch, checkValue]
      by_cases hm : matchDims p s = true
      · simp [hm]
      · simp [hm, ih]

theorem columnizePWK_eq (a : Arg) (p : Pat) (k : Res Unit) :
    columnizePWK a p k = match columnizePW a p with
      | .ok _ => k
      | .error e => .error e := by
  unfold columnizePWK columnizePW
  cases a <;> simp <;> (repeat' split) <;> simp_all

theorem columnizeVGK_eq (a : Arg) (p : Pat) (k : Res Unit) :
    columnizeVGK a p k = match columnizeVG a p with
      | .ok _ => k
      | .error e => .error e := by
  unfold columnizeVGK columnizeVG
  cases a <;> simp <;> (repeat' split) <;> simp_all

/-! ## per-callable theorems: generated signature ⇔ documented forms -/

/-- `plane.plane_normal_from_points(points)` -/
theorem plane_plane_normal_from_points (points : Arg) :
    accepts Gen.sig_plane_plane_normal_from_points [("points", points)] ↔
      (points = .arr [3, 3]) ∨
      (∃ k, points = .arr [k, 3, 3]) := by
  unfold Gen.sig_plane_plane_normal_from_points
  shape_cases points

/-- `plane.plane_equation_from_points(points)` -/
theorem plane_plane_equation_from_points (points : Arg) :
    accepts Gen.sig_plane_plane_equation_from_points [("points", points)] ↔
      (points = .arr [3, 3]) ∨
      (∃ k, points = .arr [k, 3, 3]) := by
  unfold Gen.sig_plane_plane_equation_from_points
  shape_cases points

/-- `plane.normal_and_offset_from_plane_equations(plane_equations)` -/
theorem plane_normal_and_offset_from_plane_equations (plane_equations : Arg) :
    accepts Gen.sig_plane_normal_and_offset_from_plane_equations [("plane_equations", plane_equations)] ↔
      (plane_equations = .arr [4]) ∨
      (∃ k, plane_equations = .arr [k, 4]) := by
  unfold Gen.sig_plane_normal_and_offset_from_plane_equations
  shape_cases plane_equations

/-- `plane.signed_distance_to_plane(points, plane_equations)` -/
theorem plane_signed_distance_to_plane (points plane_equations : Arg) :
    accepts Gen.sig_plane_signed_distance_to_plane [("points", points), ("plane_equations", plane_equations)] ↔
      (points = .arr [3] ∧ plane_equations = .arr [4]) ∨
      (∃ k, points = .arr [k, 3] ∧ plane_equations = .arr [4]) ∨
      (∃ k, points = .arr [k, 3] ∧ plane_equations = .arr [k, 4]) ∨
      (∃ k, points = .arr [3] ∧ plane_equations = .arr [k, 4]) := by
  unfold Gen.sig_plane_signed_distance_to_plane
  shape_cases points <;> shape_cases plane_equations

/-- `plane.project_point_to_plane(points, plane_equations)` -/
theorem plane_project_point_to_plane (points plane_equations : Arg) :
    accepts Gen.sig_plane_project_point_to_plane [("points", points), ("plane_equations", plane_equations)] ↔
      (points = .arr [3] ∧ plane_equations = .arr [4]) ∨
      (∃ k, points = .arr [k, 3] ∧ plane_equations = .arr [4]) ∨
      (∃ k, points = .arr [k, 3] ∧ plane_equations = .arr [k, 4]) ∨
      (∃ k, points = .arr [3] ∧ plane_equations = .arr [k, 4]) := by
  unfold Gen.sig_plane_project_point_to_plane
  shape_cases points <;> shape_cases plane_equations

/-- `plane.mirror_point_across_plane(points, plane_equations)` -/
theorem plane_mirror_point_across_plane (points plane_equations : Arg) :
    accepts Gen.sig_plane_mirror_point_across_plane [("points", points), ("plane_equations", plane_equations)] ↔
      (points = .arr [3] ∧ plane_equations = .arr [4]) ∨
      (∃ k, points = .arr [k, 3] ∧ plane_equations = .arr [4]) ∨
      (∃ k, points = .arr [k, 3] ∧ plane_equations = .arr [k, 4]) ∨
      (∃ k, points = .arr [3] ∧ plane_equations = .arr [k, 4]) := by
  unfold Gen.sig_plane_mirror_point_across_plane
  shape_cases points <;> shape_cases plane_equations

/-- `plane.intersect_segment_with_plane(start_points, segment_vectors, points_on_plane, plane_normals)` -/
theorem plane_intersect_segment_with_plane (start_points segment_vectors points_on_plane plane_normals : Arg) :
    accepts Gen.sig_plane_intersect_segment_with_plane [("start_points", start_points), ("segment_vectors", segment_vectors), ("points_on_plane", points_on_plane), ("plane_normals", plane_normals)] ↔
      (start_points = .arr [3] ∧ segment_vectors = .arr [3] ∧ points_on_plane = .arr [3] ∧ plane_normals = .arr [3]) ∨
      (∃ k, start_points = .arr [k, 3] ∧ segment_vectors = .arr [k, 3] ∧ points_on_plane = .arr [k, 3] ∧ plane_normals = .arr [k, 3]) := by
  unfold Gen.sig_plane_intersect_segment_with_plane
  shape_cases start_points <;> shape_cases segment_vectors <;> shape_cases points_on_plane <;> shape_cases plane_normals

/-- `plane.slice_triangles_by_plane(vertices, faces, plane_reference_point, plane_normal, faces_to_slice)` -/
theorem plane_slice_triangles_by_plane (vertices faces plane_reference_point plane_normal faces_to_slice : Arg) :
    accepts Gen.sig_plane_slice_triangles_by_plane [("vertices", vertices), ("faces", faces), ("plane_reference_point", plane_reference_point), ("plane_normal", plane_normal), ("faces_to_slice", faces_to_slice)] ↔
      (∃ n m, vertices = .arr [n, 3] ∧ faces = .arr [m, 3] ∧ plane_reference_point = .arr [3] ∧ plane_normal = .arr [3] ∧ faces_to_slice = .absent) ∨
      (∃ n m, vertices = .arr [n, 3] ∧ faces = .arr [m, 3] ∧ plane_reference_point = .arr [3] ∧ plane_normal = .arr [3] ∧ faces_to_slice = .arr [m]) := by
  unfold Gen.sig_plane_slice_triangles_by_plane
  shape_cases vertices <;> shape_cases faces <;> shape_cases plane_reference_point <;> shape_cases plane_normal <;> shape_cases faces_to_slice

/-- `line.intersect_lines(p0, q0, p1, q1)` -/
theorem line_intersect_lines (p0 q0 p1 q1 : Arg) :
    accepts Gen.sig_line_intersect_lines [("p0", p0), ("q0", q0), ("p1", p1), ("q1", q1)] ↔
      (p0 = .arr [3] ∧ q0 = .arr [3] ∧ p1 = .arr [3] ∧ q1 = .arr [3]) := by
  unfold Gen.sig_line_intersect_lines
  shape_cases p0 <;> shape_cases q0 <;> shape_cases p1 <;> shape_cases q1

/-- `line.intersect_2d_lines(p0, q0, p1, q1)` -/
theorem line_intersect_2d_lines (p0 q0 p1 q1 : Arg) :
    accepts Gen.sig_line_intersect_2d_lines [("p0", p0), ("q0", q0), ("p1", p1), ("q1", q1)] ↔
      (p0 = .arr [2] ∧ q0 = .arr [2] ∧ p1 = .arr [2] ∧ q1 = .arr [2]) := by
  unfold Gen.sig_line_intersect_2d_lines
  shape_cases p0 <;> shape_cases q0 <;> shape_cases p1 <;> shape_cases q1

/-- `line.project_point_to_line(points, reference_points_of_lines, vectors_along_lines)` -/
theorem line_project_point_to_line (points reference_points_of_lines vectors_along_lines : Arg) :
    accepts Gen.sig_line_project_point_to_line [("points", points), ("reference_points_of_lines", reference_points_of_lines), ("vectors_along_lines", vectors_along_lines)] ↔
      (points = .arr [3] ∧ reference_points_of_lines = .arr [3] ∧ vectors_along_lines = .arr [3]) ∨
      (∃ k, points = .arr [k, 3] ∧ reference_points_of_lines = .arr [3] ∧ vectors_along_lines = .arr [3]) ∨
      (∃ k, points = .arr [k, 3] ∧ reference_points_of_lines = .arr [k, 3] ∧ vectors_along_lines = .arr [k, 3]) ∨
      (∃ k, points = .arr [3] ∧ reference_points_of_lines = .arr [k, 3] ∧ vectors_along_lines = .arr [k, 3]) := by
  unfold Gen.sig_line_project_point_to_line
  shape_cases points <;> shape_cases reference_points_of_lines <;> shape_cases vectors_along_lines

/-- `line.coplanar_points_are_on_same_side_of_line(a, b, p1, p2)` -/
theorem line_coplanar_points_are_on_same_side_of_line (a b p1 p2 : Arg) :
    accepts Gen.sig_line_coplanar_points_are_on_same_side_of_line [("a", a), ("b", b), ("p1", p1), ("p2", p2)] ↔
      (a = .arr [3] ∧ b = .arr [3] ∧ p1 = .arr [3] ∧ p2 = .arr [3]) ∨
      (∃ k, a = .arr [k, 3] ∧ b = .arr [k, 3] ∧ p1 = .arr [k, 3] ∧ p2 = .arr [k, 3]) := by
  unfold Gen.sig_line_coplanar_points_are_on_same_side_of_line
  shape_cases a <;> shape_cases b <;> shape_cases p1 <;> shape_cases p2

/-- `segment.closest_point_of_line_segment(points, start_points, segment_vectors)` -/
theorem segment_closest_point_of_line_segment (points start_points segment_vectors : Arg) :
    accepts Gen.sig_segment_closest_point_of_line_segment [("points", points), ("start_points", start_points), ("segment_vectors", segment_vectors)] ↔
      (∃ k, points = .arr [k, 3] ∧ start_points = .arr [k, 3] ∧ segment_vectors = .arr [k, 3]) := by
  unfold Gen.sig_segment_closest_point_of_line_segment
  shape_cases points <;> shape_cases start_points <;> shape_cases segment_vectors

/-- `segment.is_point_on_line_segment(query_points, start_points, segment_vectors)` -/
theorem segment_is_point_on_line_segment (query_points start_points segment_vectors : Arg) :
    accepts Gen.sig_segment_is_point_on_line_segment [("query_points", query_points), ("start_points", start_points), ("segment_vectors", segment_vectors)] ↔
      (∃ k, query_points = .arr [k, 3] ∧ start_points = .arr [k, 3] ∧ segment_vectors = .arr [k, 3]) := by
  unfold Gen.sig_segment_is_point_on_line_segment
  shape_cases query_points <;> shape_cases start_points <;> shape_cases segment_vectors

/-- `segment.path_centroid(segments)` -/
theorem segment_path_centroid (segments : Arg) :
    accepts Gen.sig_segment_path_centroid [("segments", segments)] ↔
      (∃ k, segments = .arr [k, 2, 3]) := by
  unfold Gen.sig_segment_path_centroid
  shape_cases segments

/-- `segment.subdivide_segment(p1, p2)` two points in n-space, as vectors of equal length -/
theorem segment_subdivide_segment (p1 p2 : Arg) :
    accepts Gen.sig_segment_subdivide_segment [("p1", p1), ("p2", p2)] ↔
      (∃ n, p1 = .arr [n] ∧ p2 = .arr [n]) := by
  unfold Gen.sig_segment_subdivide_segment
  shape_cases p1 <;> shape_cases p2

/-- `segment.subdivide_segments(v)` 'v: V x N np.array of points in N-space' -/
theorem segment_subdivide_segments (v : Arg) :
    accepts Gen.sig_segment_subdivide_segments [("v", v)] ↔
      (∃ m n, v = .arr [m, n]) := by
  unfold Gen.sig_segment_subdivide_segments
  shape_cases v

/-- `tri.edges_of_faces(faces)` -/
theorem tri_edges_of_faces (faces : Arg) :
    accepts Gen.sig_tri_edges_of_faces [("faces", faces)] ↔
      (∃ k, faces = .arr [k, 3]) := by
  unfold Gen.sig_tri_edges_of_faces
  shape_cases faces

/-- `tri.surface_normals(points)` -/
theorem tri_surface_normals (points : Arg) :
    accepts Gen.sig_tri_surface_normals [("points", points)] ↔
      (points = .arr [3, 3]) ∨
      (∃ k, points = .arr [k, 3, 3]) := by
  unfold Gen.sig_tri_surface_normals
  shape_cases points

/-- `tri.surface_area(vertices_of_tris)` -/
theorem tri_surface_area (vertices_of_tris : Arg) :
    accepts Gen.sig_tri_surface_area [("vertices_of_tris", vertices_of_tris)] ↔
      (vertices_of_tris = .arr [3, 3]) ∨
      (∃ k, vertices_of_tris = .arr [k, 3, 3]) := by
  unfold Gen.sig_tri_surface_area
  shape_cases vertices_of_tris

/-- `tri.tri_contains_coplanar_point(a, b, c, point)` -/
theorem tri_tri_contains_coplanar_point (a b c point : Arg) :
    accepts Gen.sig_tri_tri_contains_coplanar_point [("a", a), ("b", b), ("c", c), ("point", point)] ↔
      (a = .arr [3] ∧ b = .arr [3] ∧ c = .arr [3] ∧ point = .arr [3]) ∨
      (∃ k, a = .arr [k, 3] ∧ b = .arr [k, 3] ∧ c = .arr [k, 3] ∧ point = .arr [k, 3]) := by
  unfold Gen.sig_tri_tri_contains_coplanar_point
  shape_cases a <;> shape_cases b <;> shape_cases c <;> shape_cases point

/-- `tri.barycentric_coordinates_of_points(vertices_of_tris, points)` -/
theorem tri_barycentric_coordinates_of_points (vertices_of_tris points : Arg) :
    accepts Gen.sig_tri_barycentric_coordinates_of_points [("vertices_of_tris", vertices_of_tris), ("points", points)] ↔
      (∃ k, vertices_of_tris = .arr [k, 3, 3] ∧ points = .arr [k, 3]) := by
  unfold Gen.sig_tri_barycentric_coordinates_of_points
  shape_cases vertices_of_tris <;> shape_cases points

/-- `tri.sample(vertices_of_tris, weights)` -/
theorem tri_sample (vertices_of_tris weights : Arg) :
    accepts Gen.sig_tri_sample [("vertices_of_tris", vertices_of_tris), ("weights", weights)] ↔
      (∃ k, vertices_of_tris = .arr [k, 3, 3] ∧ weights = .absent) ∨
      (∃ k, vertices_of_tris = .arr [k, 3, 3] ∧ weights = .arr [k]) := by
  unfold Gen.sig_tri_sample
  shape_cases vertices_of_tris <;> shape_cases weights

/-- `tri.quads_to_tris(quads)` -/
theorem tri_quads_to_tris (quads : Arg) :
    accepts Gen.sig_tri_quads_to_tris [("quads", quads)] ↔
      (∃ k, quads = .arr [k, 4]) := by
  unfold Gen.sig_tri_quads_to_tris
  shape_cases quads

/-- `transform.apply_transform(transform)` -/
theorem transform_apply_transform (transform : Arg) :
    accepts Gen.sig_transform_apply_transform [("transform", transform)] ↔
      (transform = .arr [4, 4]) := by
  unfold Gen.sig_transform_apply_transform
  shape_cases transform

/-- `transform.apply_transform.apply(points)` -/
theorem transform_apply_transform_apply (points : Arg) :
    accepts Gen.sig_transform_apply_transform_apply [("points", points)] ↔
      (points = .arr [3]) ∨
      (∃ k, points = .arr [k, 3]) := by
  unfold Gen.sig_transform_apply_transform_apply
  shape_cases points

/-- `transform.rotation_matrix_to_rodrigues_vector(r)` -/
theorem transform_rotation_matrix_to_rodrigues_vector (r : Arg) :
    accepts Gen.sig_transform_rotation_matrix_to_rodrigues_vector [("r", r)] ↔
      (r = .arr [3, 3]) := by
  unfold Gen.sig_transform_rotation_matrix_to_rodrigues_vector
  shape_cases r

/-- `transform.rotation_from_up_and_look(up, look)` -/
theorem transform_rotation_from_up_and_look (up look : Arg) :
    accepts Gen.sig_transform_rotation_from_up_and_look [("up", up), ("look", look)] ↔
      (up = .arr [3] ∧ look = .arr [3]) := by
  unfold Gen.sig_transform_rotation_from_up_and_look
  shape_cases up <;> shape_cases look

/-- `transform.world_to_canvas_orthographic_projection(position, target)` -/
theorem transform_world_to_canvas_orthographic_projection (position target : Arg) :
    accepts Gen.sig_transform_world_to_canvas_orthographic_projection [("position", position), ("target", target)] ↔
      (position = .arr [3] ∧ target = .arr [3]) := by
  unfold Gen.sig_transform_world_to_canvas_orthographic_projection
  shape_cases position <;> shape_cases target

/-- `transform.transform_matrix_for_rotation(rotation)` -/
theorem transform_transform_matrix_for_rotation (rotation : Arg) :
    accepts Gen.sig_transform_transform_matrix_for_rotation [("rotation", rotation)] ↔
      (rotation = .arr [3, 3]) ∨
      (rotation = .arr [3]) := by
  unfold Gen.sig_transform_transform_matrix_for_rotation
  shape_cases rotation

/-- `transform.transform_matrix_for_translation(translation)` -/
theorem transform_transform_matrix_for_translation (translation : Arg) :
    accepts Gen.sig_transform_transform_matrix_for_translation [("translation", translation)] ↔
      (translation = .arr [3]) := by
  unfold Gen.sig_transform_transform_matrix_for_translation
  shape_cases translation

/-- `shapes.rectangular_prism(origin, size)` -/
theorem shapes_rectangular_prism (origin size : Arg) :
    accepts Gen.sig_shapes_rectangular_prism [("origin", origin), ("size", size)] ↔
      (origin = .arr [3] ∧ size = .arr [3]) := by
  unfold Gen.sig_shapes_rectangular_prism
  shape_cases origin <;> shape_cases size

/-- `shapes.cube(origin)` -/
theorem shapes_cube (origin : Arg) :
    accepts Gen.sig_shapes_cube [("origin", origin)] ↔
      (origin = .arr [3]) := by
  unfold Gen.sig_shapes_cube
  shape_cases origin

/-- `shapes.triangular_prism(p1, p2, p3)` -/
theorem shapes_triangular_prism (p1 p2 p3 : Arg) :
    accepts Gen.sig_shapes_triangular_prism [("p1", p1), ("p2", p2), ("p3", p3)] ↔
      (p1 = .arr [3] ∧ p2 = .arr [3] ∧ p3 = .arr [3]) := by
  unfold Gen.sig_shapes_triangular_prism
  shape_cases p1 <;> shape_cases p2 <;> shape_cases p3

/-- `pointcloud.extent(points)` -/
theorem pointcloud_extent (points : Arg) :
    accepts Gen.sig_pointcloud_extent [("points", points)] ↔
      (∃ k, 2 ≤ k ∧ points = .arr [k, 3]) := by
  unfold Gen.sig_pointcloud_extent
  shape_cases points

/-- `pointcloud.percentile(points, axis)` -/
theorem pointcloud_percentile (points axis : Arg) :
    accepts Gen.sig_pointcloud_percentile [("points", points), ("axis", axis)] ↔
      (∃ k, 1 ≤ k ∧ points = .arr [k, 3] ∧ axis = .arr [3]) := by
  unfold Gen.sig_pointcloud_percentile
  shape_cases points <;> shape_cases axis

/-- `polyline.inflection_points(points, rise_axis, run_axis)` np.gradient needs two points: (0,3)/(1,3) pass the shape checks and fail in NumPy with ValueError -/
theorem polyline_inflection_points (points rise_axis run_axis : Arg) :
    accepts Gen.sig_polyline_inflection_points [("points", points), ("rise_axis", rise_axis), ("run_axis", run_axis)] ↔
      (∃ k, points = .arr [k, 3] ∧ rise_axis = .arr [3] ∧ run_axis = .arr [3]) := by
  unfold Gen.sig_polyline_inflection_points
  shape_cases points <;> shape_cases rise_axis <;> shape_cases run_axis

/-- `polyline.point_of_max_acceleration(points, rise_axis, run_axis)` -/
theorem polyline_point_of_max_acceleration (points rise_axis run_axis : Arg) :
    accepts Gen.sig_polyline_point_of_max_acceleration [("points", points), ("rise_axis", rise_axis), ("run_axis", run_axis)] ↔
      (∃ k, 2 ≤ k ∧ points = .arr [k, 3] ∧ rise_axis = .arr [3] ∧ run_axis = .arr [3]) := by
  unfold Gen.sig_polyline_point_of_max_acceleration
  shape_cases points <;> shape_cases rise_axis <;> shape_cases run_axis

/-- `Plane.__init__(reference_point, normal)` -/
theorem Plane___init__ (reference_point normal : Arg) :
    accepts Gen.sig_Plane___init__ [("reference_point", reference_point), ("normal", normal)] ↔
      (reference_point = .arr [3] ∧ normal = .arr [3]) := by
  unfold Gen.sig_Plane___init__
  shape_cases reference_point <;> shape_cases normal

/-- `Plane.from_points(p1, p2, p3)` -/
theorem Plane_from_points (p1 p2 p3 : Arg) :
    accepts Gen.sig_Plane_from_points [("p1", p1), ("p2", p2), ("p3", p3)] ↔
      (p1 = .arr [3] ∧ p2 = .arr [3] ∧ p3 = .arr [3]) := by
  unfold Gen.sig_Plane_from_points
  shape_cases p1 <;> shape_cases p2 <;> shape_cases p3

/-- `Plane.from_points_and_vector(p1, p2, vector)` -/
theorem Plane_from_points_and_vector (p1 p2 vector : Arg) :
    accepts Gen.sig_Plane_from_points_and_vector [("p1", p1), ("p2", p2), ("vector", vector)] ↔
      (p1 = .arr [3] ∧ p2 = .arr [3] ∧ vector = .arr [3]) := by
  unfold Gen.sig_Plane_from_points_and_vector
  shape_cases p1 <;> shape_cases p2 <;> shape_cases vector

/-- `Plane.fit_from_points(points)` -/
theorem Plane_fit_from_points (points : Arg) :
    accepts Gen.sig_Plane_fit_from_points [("points", points)] ↔
      (∃ k, points = .arr [k, 3]) := by
  unfold Gen.sig_Plane_fit_from_points
  shape_cases points

/-- `Plane.sign(points)` -/
theorem Plane_sign (points : Arg) :
    accepts Gen.sig_Plane_sign [("points", points)] ↔
      (points = .arr [3]) ∨
      (∃ k, points = .arr [k, 3]) := by
  unfold Gen.sig_Plane_sign
  shape_cases points

/-- `Plane.signed_distance(points)` -/
theorem Plane_signed_distance (points : Arg) :
    accepts Gen.sig_Plane_signed_distance [("points", points)] ↔
      (points = .arr [3]) ∨
      (∃ k, points = .arr [k, 3]) := by
  unfold Gen.sig_Plane_signed_distance
  shape_cases points

/-- `Plane.distance(points)` -/
theorem Plane_distance (points : Arg) :
    accepts Gen.sig_Plane_distance [("points", points)] ↔
      (points = .arr [3]) ∨
      (∃ k, points = .arr [k, 3]) := by
  unfold Gen.sig_Plane_distance
  shape_cases points

/-- `Plane.project_point(points)` -/
theorem Plane_project_point (points : Arg) :
    accepts Gen.sig_Plane_project_point [("points", points)] ↔
      (points = .arr [3]) ∨
      (∃ k, points = .arr [k, 3]) := by
  unfold Gen.sig_Plane_project_point
  shape_cases points

/-- `Plane.mirror_point(points)` -/
theorem Plane_mirror_point (points : Arg) :
    accepts Gen.sig_Plane_mirror_point [("points", points)] ↔
      (points = .arr [3]) ∨
      (∃ k, points = .arr [k, 3]) := by
  unfold Gen.sig_Plane_mirror_point
  shape_cases points

/-- `Plane.points_in_front(points)` -/
theorem Plane_points_in_front (points : Arg) :
    accepts Gen.sig_Plane_points_in_front [("points", points)] ↔
      (∃ k, points = .arr [k, 3]) := by
  unfold Gen.sig_Plane_points_in_front
  shape_cases points

/-- `Plane.points_on_or_in_front(points)` -/
theorem Plane_points_on_or_in_front (points : Arg) :
    accepts Gen.sig_Plane_points_on_or_in_front [("points", points)] ↔
      (∃ k, points = .arr [k, 3]) := by
  unfold Gen.sig_Plane_points_on_or_in_front
  shape_cases points

/-- `Plane.line_xsection(pt, ray)` -/
theorem Plane_line_xsection (pt ray : Arg) :
    accepts Gen.sig_Plane_line_xsection [("pt", pt), ("ray", ray)] ↔
      (pt = .arr [3] ∧ ray = .arr [3]) := by
  unfold Gen.sig_Plane_line_xsection
  shape_cases pt <;> shape_cases ray

/-- `Plane.line_segment_xsection(a, b)` -/
theorem Plane_line_segment_xsection (a b : Arg) :
    accepts Gen.sig_Plane_line_segment_xsection [("a", a), ("b", b)] ↔
      (a = .arr [3] ∧ b = .arr [3]) := by
  unfold Gen.sig_Plane_line_segment_xsection
  shape_cases a <;> shape_cases b

/-- `Plane.line_xsections(pts, rays)` -/
theorem Plane_line_xsections (pts rays : Arg) :
    accepts Gen.sig_Plane_line_xsections [("pts", pts), ("rays", rays)] ↔
      (∃ k, pts = .arr [k, 3] ∧ rays = .arr [k, 3]) := by
  unfold Gen.sig_Plane_line_xsections
  shape_cases pts <;> shape_cases rays

/-- `Plane.line_segment_xsections(a, b)` -/
theorem Plane_line_segment_xsections (a b : Arg) :
    accepts Gen.sig_Plane_line_segment_xsections [("a", a), ("b", b)] ↔
      (∃ k, a = .arr [k, 3] ∧ b = .arr [k, 3]) := by
  unfold Gen.sig_Plane_line_segment_xsections
  shape_cases a <;> shape_cases b

/-- `Plane.tilted(new_point, coplanar_point)` -/
theorem Plane_tilted (new_point coplanar_point : Arg) :
    accepts Gen.sig_Plane_tilted [("new_point", new_point), ("coplanar_point", coplanar_point)] ↔
      (new_point = .arr [3] ∧ coplanar_point = .arr [3]) := by
  unfold Gen.sig_Plane_tilted
  shape_cases new_point <;> shape_cases coplanar_point

/-- `Box.__init__(origin, size)` -/
theorem Box___init__ (origin size : Arg) :
    accepts Gen.sig_Box___init__ [("origin", origin), ("size", size)] ↔
      (origin = .arr [3] ∧ size = .arr [3]) := by
  unfold Gen.sig_Box___init__
  shape_cases origin <;> shape_cases size

/-- `Box.from_points(points)` -/
theorem Box_from_points (points : Arg) :
    accepts Gen.sig_Box_from_points [("points", points)] ↔
      (∃ k, 1 ≤ k ∧ points = .arr [k, 3]) := by
  unfold Gen.sig_Box_from_points
  shape_cases points

/-- `Box.contains(point)` -/
theorem Box_contains (point : Arg) :
    accepts Gen.sig_Box_contains [("point", point)] ↔
      (point = .arr [3]) := by
  unfold Gen.sig_Box_contains
  shape_cases point

/-- `Line.__init__(point, along)` -/
theorem Line___init__ (point along : Arg) :
    accepts Gen.sig_Line___init__ [("point", point), ("along", along)] ↔
      (point = .arr [3] ∧ along = .arr [3]) := by
  unfold Gen.sig_Line___init__
  shape_cases point <;> shape_cases along

/-- `Line.from_points(p1, p2)` -/
theorem Line_from_points (p1 p2 : Arg) :
    accepts Gen.sig_Line_from_points [("p1", p1), ("p2", p2)] ↔
      (p1 = .arr [3] ∧ p2 = .arr [3]) := by
  unfold Gen.sig_Line_from_points
  shape_cases p1 <;> shape_cases p2

/-- `Line.project(points)` -/
theorem Line_project (points : Arg) :
    accepts Gen.sig_Line_project [("points", points)] ↔
      (points = .arr [3]) ∨
      (∃ k, points = .arr [k, 3]) := by
  unfold Gen.sig_Line_project
  shape_cases points

/-- `Polyline.__init__(v)` -/
theorem Polyline___init__ (v : Arg) :
    accepts Gen.sig_Polyline___init__ [("v", v)] ↔
      (∃ k, v = .arr [k, 3]) := by
  unfold Gen.sig_Polyline___init__
  shape_cases v

/-- `Polyline.index_of_vertex(point)` -/
theorem Polyline_index_of_vertex (point : Arg) :
    accepts Gen.sig_Polyline_index_of_vertex [("point", point)] ↔
      (point = .arr [3]) := by
  unfold Gen.sig_Polyline_index_of_vertex
  shape_cases point

/-- `Polyline.with_insertions(points, indices)` -/
theorem Polyline_with_insertions (points indices : Arg) :
    accepts Gen.sig_Polyline_with_insertions [("points", points), ("indices", indices)] ↔
      (∃ k, points = .arr [k, 3] ∧ indices = .arr [k]) := by
  unfold Gen.sig_Polyline_with_insertions
  shape_cases points <;> shape_cases indices

/-- `Polyline.aligned_with(vector)` -/
theorem Polyline_aligned_with (vector : Arg) :
    accepts Gen.sig_Polyline_aligned_with [("vector", vector)] ↔
      (vector = .arr [3]) := by
  unfold Gen.sig_Polyline_aligned_with
  shape_cases vector

/-- `Polyline.aligned_along_subsegment(p1, p2)` -/
theorem Polyline_aligned_along_subsegment (p1 p2 : Arg) :
    accepts Gen.sig_Polyline_aligned_along_subsegment [("p1", p1), ("p2", p2)] ↔
      (p1 = .arr [3] ∧ p2 = .arr [3]) := by
  unfold Gen.sig_Polyline_aligned_along_subsegment
  shape_cases p1 <;> shape_cases p2

/-- `Polyline.subdivided_by_length(edges_to_subdivide)` -/
theorem Polyline_subdivided_by_length (num_e : Nat) (edges_to_subdivide : Arg) :
    accepts Gen.sig_Polyline_subdivided_by_length [("edges_to_subdivide", edges_to_subdivide)] [("self.num_e", .one num_e)] ↔
      (edges_to_subdivide = .absent) ∨
      (edges_to_subdivide = .arr [num_e]) := by
  unfold Gen.sig_Polyline_subdivided_by_length
  shape_cases edges_to_subdivide

/-- `Polyline.with_segments_bisected(segment_indices)` a one-dimensional array (or list) of segment indices -/
theorem Polyline_with_segments_bisected (segment_indices : Arg) :
    accepts Gen.sig_Polyline_with_segments_bisected [("segment_indices", segment_indices)] ↔
      (∃ k, segment_indices = .arr [k]) := by
  unfold Gen.sig_Polyline_with_segments_bisected
  shape_cases segment_indices

/-- `Polyline.nearest(points)` -/
theorem Polyline_nearest (points : Arg) :
    accepts Gen.sig_Polyline_nearest [("points", points)] ↔
      (points = .arr [3]) ∨
      (∃ k, points = .arr [k, 3]) := by
  unfold Gen.sig_Polyline_nearest
  shape_cases points

/-- `Polyline.sliced_at_points(start_point, end_point)` -/
theorem Polyline_sliced_at_points (start_point end_point : Arg) :
    accepts Gen.sig_Polyline_sliced_at_points [("start_point", start_point), ("end_point", end_point)] ↔
      (start_point = .arr [3] ∧ end_point = .arr [3]) := by
  unfold Gen.sig_Polyline_sliced_at_points
  shape_cases start_point <;> shape_cases end_point

/-- `Polyline.sectioned(section_breakpoints)` -/
theorem Polyline_sectioned (section_breakpoints : Arg) :
    accepts Gen.sig_Polyline_sectioned [("section_breakpoints", section_breakpoints)] ↔
      (∃ k, section_breakpoints = .arr [k]) := by
  unfold Gen.sig_Polyline_sectioned
  shape_cases section_breakpoints

/-- `Polyline.point_along_path(fraction_of_total)` -/
theorem Polyline_point_along_path (fraction_of_total : Arg) :
    accepts Gen.sig_Polyline_point_along_path [("fraction_of_total", fraction_of_total)] ↔
      (fraction_of_total = .number) ∨
      (∃ k, fraction_of_total = .arr [k]) := by
  unfold Gen.sig_Polyline_point_along_path
  shape_cases fraction_of_total

/-- `CompositeTransform.__call__(points)` -/
theorem CompositeTransform___call__ (points : Arg) :
    accepts Gen.sig_CompositeTransform___call__ [("points", points)] ↔
      (points = .arr [3]) ∨
      (∃ k, points = .arr [k, 3]) := by
  unfold Gen.sig_CompositeTransform___call__
  shape_cases points

/-- `CompositeTransform.append_transform(forward, reverse)` -/
theorem CompositeTransform_append_transform (forward reverse : Arg) :
    accepts Gen.sig_CompositeTransform_append_transform [("forward", forward), ("reverse", reverse)] ↔
      (forward = .arr [4, 4] ∧ reverse = .absent) ∨
      (forward = .arr [4, 4] ∧ reverse = .arr [4, 4]) := by
  unfold Gen.sig_CompositeTransform_append_transform
  shape_cases forward <;> shape_cases reverse

/-- `CompositeTransform.translate(translation)` -/
theorem CompositeTransform_translate (translation : Arg) :
    accepts Gen.sig_CompositeTransform_translate [("translation", translation)] ↔
      (translation = .arr [3]) := by
  unfold Gen.sig_CompositeTransform_translate
  shape_cases translation

/-- `CompositeTransform.reorient(up, look)` -/
theorem CompositeTransform_reorient (up look : Arg) :
    accepts Gen.sig_CompositeTransform_reorient [("up", up), ("look", look)] ↔
      (up = .arr [3] ∧ look = .arr [3]) := by
  unfold Gen.sig_CompositeTransform_reorient
  shape_cases up <;> shape_cases look

/-- `CompositeTransform.rotate(rotation)` -/
theorem CompositeTransform_rotate (rotation : Arg) :
    accepts Gen.sig_CompositeTransform_rotate [("rotation", rotation)] ↔
      (rotation = .arr [3, 3]) ∨
      (rotation = .arr [3]) := by
  unfold Gen.sig_CompositeTransform_rotate
  shape_cases rotation

/-- `CoordinateManager.__setattr__(points)` -/
theorem CoordinateManager___setattr__ (points : Arg) :
    accepts Gen.sig_CoordinateManager___setattr__ [("points", points)] ↔
      (∃ k, points = .arr [k, 3]) := by
  unfold Gen.sig_CoordinateManager___setattr__
  shape_cases points

/-- `CoordinateManager.translate(translation)` -/
theorem CoordinateManager_translate (translation : Arg) :
    accepts Gen.sig_CoordinateManager_translate [("translation", translation)] ↔
      (translation = .arr [3]) := by
  unfold Gen.sig_CoordinateManager_translate
  shape_cases translation

/-- `CoordinateManager.rotate(rotation)` -/
theorem CoordinateManager_rotate (rotation : Arg) :
    accepts Gen.sig_CoordinateManager_rotate [("rotation", rotation)] ↔
      (rotation = .arr [3, 3]) ∨
      (rotation = .arr [3]) := by
  unfold Gen.sig_CoordinateManager_rotate
  shape_cases rotation

/-- `CoordinateManager.reorient(up, look)` -/
theorem CoordinateManager_reorient (up look : Arg) :
    accepts Gen.sig_CoordinateManager_reorient [("up", up), ("look", look)] ↔
      (up = .arr [3] ∧ look = .arr [3]) := by
  unfold Gen.sig_CoordinateManager_reorient
  shape_cases up <;> shape_cases look

/-- `CoordinateManager.append_transform(forward, reverse)` -/
theorem CoordinateManager_append_transform (forward reverse : Arg) :
    accepts Gen.sig_CoordinateManager_append_transform [("forward", forward), ("reverse", reverse)] ↔
      (forward = .arr [4, 4] ∧ reverse = .absent) ∨
      (forward = .arr [4, 4] ∧ reverse = .arr [4, 4]) := by
  unfold Gen.sig_CoordinateManager_append_transform
  shape_cases forward <;> shape_cases reverse

/-- `transform.euler(xyz)`: a sequence of angles `(n,)`, or one angle as a scalar — a Python number or a 0-d
    array (`np.atleast_1d`).  `None` is not an array argument; `np.asarray(None, float64)` makes it the scalar
    `nan`, which the check lets through like any other scalar. -/
theorem transform_euler (xyz : Arg) :
    accepts Gen.sig_transform_euler [("xyz", xyz)] ↔
      (∃ n, xyz = .arr [n]) ∨ xyz = .number ∨ xyz = .arr [] ∨ xyz = .absent := by
  unfold Gen.sig_transform_euler
  shape_cases xyz

/-- `CoordinateManager.do_transform(points, from_tag, to_tag)`: whatever the two tags are (same position: the
    explicit check; forward / reverse: through `CompositeTransform.__call__`), a point or a stack of points. -/
theorem CoordinateManager_do_transform (points : Arg) (same forward : Bool) :
    accepts Gen.sig_CoordinateManager_do_transform [("points", points)] []
        [("from_index==to_index", same), ("from_index<to_index", forward)] ↔
      (points = .arr [3]) ∨ (∃ k, points = .arr [k, 3]) := by
  unfold Gen.sig_CoordinateManager_do_transform
  cases same <;> cases forward <;> shape_cases points

/-! ### partial: callables whose own checks do not cover every argument -/

/-- what the explicit checks of `world_to_view` guarantee (`up` is left to vg.cross) -/
theorem transform_world_to_view_partial (position target up : Arg) :
    accepts Gen.sig_transform_world_to_view [("position", position), ("target", target), ("up", up)] ↔
      position = .arr [3] ∧ target = .arr [3] := by
  unfold Gen.sig_transform_world_to_view
  shape_cases position <;> shape_cases target

/-- the full statement (not provable from the source's own checks: `up` is not among them) -/
def transform_world_to_view_full : Prop :=
  ∀ position target up : Arg,
    accepts Gen.sig_transform_world_to_view [("position", position), ("target", target), ("up", up)] ↔
      position = .arr [3] ∧ target = .arr [3] ∧ up = .arr [3]

/-- what the explicit checks of `Plane.from_point_and_normal` guarantee (`normal` is normalised by vg first) -/
theorem Plane_from_point_and_normal_partial (reference_point normal : Arg) :
    accepts Gen.sig_Plane_from_point_and_normal [("reference_point", reference_point), ("normal", normal)] ↔
      reference_point = .arr [3] := by
  unfold Gen.sig_Plane_from_point_and_normal
  shape_cases reference_point

def Plane_from_point_and_normal_full : Prop :=
  ∀ reference_point normal : Arg,
    accepts Gen.sig_Plane_from_point_and_normal [("reference_point", reference_point), ("normal", normal)] ↔
      reference_point = .arr [3] ∧ normal = .arr [3]

/-! ### known finding: Rodrigues vectors are accepted by element count -/

/-- documented: "a 3x1 or 1x3 Rodrigues vector" (and the plain 3-vector) -/
def rodriguesDocumented (r : Arg) : Prop := r = .arr [3] ∨ r = .arr [3, 1] ∨ r = .arr [1, 3]

def transform_rodrigues_vector_to_rotation_matrix_full : Prop :=
  ∀ r : Arg, accepts Gen.sig_transform_rodrigues_vector_to_rotation_matrix [("r", r)] ↔ rodriguesDocumented r

/-- the actual acceptance set: every array with exactly three elements -/
theorem transform_rodrigues_vector_to_rotation_matrix_partial (r : Arg) :
    accepts Gen.sig_transform_rodrigues_vector_to_rotation_matrix [("r", r)] ↔ ∃ s, r = .arr s ∧ prod s = 3 := by
  unfold Gen.sig_transform_rodrigues_vector_to_rotation_matrix
  cases r <;> shape_simp

/-- every documented form is accepted -/
theorem transform_rodrigues_vector_to_rotation_matrix_documented_accepted (r : Arg) (h : rodriguesDocumented r) :
    accepts Gen.sig_transform_rodrigues_vector_to_rotation_matrix [("r", r)] := by
  rcases h with rfl | rfl | rfl <;> decide

theorem transform_rodrigues_vector_to_rotation_matrix_defect_witness :
    accepts Gen.sig_transform_rodrigues_vector_to_rotation_matrix [("r", .arr [1, 1, 3])] ∧
      ¬ rodriguesDocumented (.arr [1, 1, 3]) := by
  refine ⟨by decide, ?_⟩
  unfold rodriguesDocumented
  simp

theorem transform_rodrigues_vector_to_rotation_matrix_full_fails :
    ¬ transform_rodrigues_vector_to_rotation_matrix_full := by
  intro h
  exact transform_rodrigues_vector_to_rotation_matrix_defect_witness.2
    ((h _).mp transform_rodrigues_vector_to_rotation_matrix_defect_witness.1)

def transform_cv2_rodrigues_full : Prop :=
  ∀ r : Arg, accepts Gen.sig_transform_cv2_rodrigues [("r", r)] ↔ (rodriguesDocumented r ∨ r = .arr [3, 3])

theorem transform_cv2_rodrigues_partial (r : Arg) :
    accepts Gen.sig_transform_cv2_rodrigues [("r", r)] ↔ ∃ s, r = .arr s ∧ (prod s = 3 ∨ s = [3, 3]) := by
  unfold Gen.sig_transform_cv2_rodrigues
  cases r <;> shape_simp

theorem transform_cv2_rodrigues_documented_accepted (r : Arg) (h : rodriguesDocumented r ∨ r = .arr [3, 3]) :
    accepts Gen.sig_transform_cv2_rodrigues [("r", r)] := by
  rcases h with (rfl | rfl | rfl) | rfl <;> decide

theorem transform_cv2_rodrigues_defect_witness :
    accepts Gen.sig_transform_cv2_rodrigues [("r", .arr [1, 1, 3])] ∧
      ¬ (rodriguesDocumented (.arr [1, 1, 3]) ∨ Arg.arr [1, 1, 3] = .arr [3, 3]) := by
  refine ⟨by decide, ?_⟩
  unfold rodriguesDocumented
  simp

theorem transform_cv2_rodrigues_full_fails : ¬ transform_cv2_rodrigues_full := by
  intro h
  exact transform_cv2_rodrigues_defect_witness.2 ((h _).mp transform_cv2_rodrigues_defect_witness.1)

/-! ### the table the model driver looks callables up in holds exactly these signatures -/

/-- (callable name, signature) for every theorem above -/
def covered : List (String × Sig) := [
  ("plane.plane_normal_from_points", Gen.sig_plane_plane_normal_from_points),
  ("plane.plane_equation_from_points", Gen.sig_plane_plane_equation_from_points),
  ("plane.normal_and_offset_from_plane_equations", Gen.sig_plane_normal_and_offset_from_plane_equations),
  ("plane.signed_distance_to_plane", Gen.sig_plane_signed_distance_to_plane),
  ("plane.project_point_to_plane", Gen.sig_plane_project_point_to_plane),
  ("plane.mirror_point_across_plane", Gen.sig_plane_mirror_point_across_plane),
  ("plane.intersect_segment_with_plane", Gen.sig_plane_intersect_segment_with_plane),
  ("plane.slice_triangles_by_plane", Gen.sig_plane_slice_triangles_by_plane),
  ("line.intersect_lines", Gen.sig_line_intersect_lines),
  ("line.intersect_2d_lines", Gen.sig_line_intersect_2d_lines),
  ("line.project_point_to_line", Gen.sig_line_project_point_to_line),
  ("line.coplanar_points_are_on_same_side_of_line", Gen.sig_line_coplanar_points_are_on_same_side_of_line),
  ("segment.closest_point_of_line_segment", Gen.sig_segment_closest_point_of_line_segment),
  ("segment.is_point_on_line_segment", Gen.sig_segment_is_point_on_line_segment),
  ("segment.path_centroid", Gen.sig_segment_path_centroid),
  ("segment.subdivide_segment", Gen.sig_segment_subdivide_segment),
  ("segment.subdivide_segments", Gen.sig_segment_subdivide_segments),
  ("tri.edges_of_faces", Gen.sig_tri_edges_of_faces),
  ("tri.surface_normals", Gen.sig_tri_surface_normals),
  ("tri.surface_area", Gen.sig_tri_surface_area),
  ("tri.tri_contains_coplanar_point", Gen.sig_tri_tri_contains_coplanar_point),
  ("tri.barycentric_coordinates_of_points", Gen.sig_tri_barycentric_coordinates_of_points),
  ("tri.sample", Gen.sig_tri_sample),
  ("tri.quads_to_tris", Gen.sig_tri_quads_to_tris),
  ("transform.apply_transform", Gen.sig_transform_apply_transform),
  ("transform.apply_transform.apply", Gen.sig_transform_apply_transform_apply),
  ("transform.rotation_matrix_to_rodrigues_vector", Gen.sig_transform_rotation_matrix_to_rodrigues_vector),
  ("transform.rotation_from_up_and_look", Gen.sig_transform_rotation_from_up_and_look),
  ("transform.world_to_canvas_orthographic_projection", Gen.sig_transform_world_to_canvas_orthographic_projection),
  ("transform.transform_matrix_for_rotation", Gen.sig_transform_transform_matrix_for_rotation),
  ("transform.transform_matrix_for_translation", Gen.sig_transform_transform_matrix_for_translation),
  ("shapes.rectangular_prism", Gen.sig_shapes_rectangular_prism),
  ("shapes.cube", Gen.sig_shapes_cube),
  ("shapes.triangular_prism", Gen.sig_shapes_triangular_prism),
  ("pointcloud.extent", Gen.sig_pointcloud_extent),
  ("pointcloud.percentile", Gen.sig_pointcloud_percentile),
  ("polyline.inflection_points", Gen.sig_polyline_inflection_points),
  ("polyline.point_of_max_acceleration", Gen.sig_polyline_point_of_max_acceleration),
  ("Plane.__init__", Gen.sig_Plane___init__),
  ("Plane.from_points", Gen.sig_Plane_from_points),
  ("Plane.from_points_and_vector", Gen.sig_Plane_from_points_and_vector),
  ("Plane.fit_from_points", Gen.sig_Plane_fit_from_points),
  ("Plane.sign", Gen.sig_Plane_sign),
  ("Plane.signed_distance", Gen.sig_Plane_signed_distance),
  ("Plane.distance", Gen.sig_Plane_distance),
  ("Plane.project_point", Gen.sig_Plane_project_point),
  ("Plane.mirror_point", Gen.sig_Plane_mirror_point),
  ("Plane.points_in_front", Gen.sig_Plane_points_in_front),
  ("Plane.points_on_or_in_front", Gen.sig_Plane_points_on_or_in_front),
  ("Plane.line_xsection", Gen.sig_Plane_line_xsection),
  ("Plane.line_segment_xsection", Gen.sig_Plane_line_segment_xsection),
  ("Plane.line_xsections", Gen.sig_Plane_line_xsections),
  ("Plane.line_segment_xsections", Gen.sig_Plane_line_segment_xsections),
  ("Plane.tilted", Gen.sig_Plane_tilted),
  ("Box.__init__", Gen.sig_Box___init__),
  ("Box.from_points", Gen.sig_Box_from_points),
  ("Box.contains", Gen.sig_Box_contains),
  ("Line.__init__", Gen.sig_Line___init__),
  ("Line.from_points", Gen.sig_Line_from_points),
  ("Line.project", Gen.sig_Line_project),
  ("Polyline.__init__", Gen.sig_Polyline___init__),
  ("Polyline.index_of_vertex", Gen.sig_Polyline_index_of_vertex),
  ("Polyline.with_insertions", Gen.sig_Polyline_with_insertions),
  ("Polyline.aligned_with", Gen.sig_Polyline_aligned_with),
  ("Polyline.aligned_along_subsegment", Gen.sig_Polyline_aligned_along_subsegment),
  ("Polyline.subdivided_by_length", Gen.sig_Polyline_subdivided_by_length),
  ("Polyline.with_segments_bisected", Gen.sig_Polyline_with_segments_bisected),
  ("Polyline.nearest", Gen.sig_Polyline_nearest),
  ("Polyline.sliced_at_points", Gen.sig_Polyline_sliced_at_points),
  ("Polyline.sectioned", Gen.sig_Polyline_sectioned),
  ("Polyline.point_along_path", Gen.sig_Polyline_point_along_path),
  ("CompositeTransform.__call__", Gen.sig_CompositeTransform___call__),
  ("CompositeTransform.append_transform", Gen.sig_CompositeTransform_append_transform),
  ("CompositeTransform.translate", Gen.sig_CompositeTransform_translate),
  ("CompositeTransform.reorient", Gen.sig_CompositeTransform_reorient),
  ("CompositeTransform.rotate", Gen.sig_CompositeTransform_rotate),
  ("CoordinateManager.__setattr__", Gen.sig_CoordinateManager___setattr__),
  ("CoordinateManager.translate", Gen.sig_CoordinateManager_translate),
  ("CoordinateManager.rotate", Gen.sig_CoordinateManager_rotate),
  ("CoordinateManager.reorient", Gen.sig_CoordinateManager_reorient),
  ("CoordinateManager.append_transform", Gen.sig_CoordinateManager_append_transform),
  ("transform.euler", Gen.sig_transform_euler),
  ("CoordinateManager.do_transform", Gen.sig_CoordinateManager_do_transform),
  ("transform.world_to_view", Gen.sig_transform_world_to_view),
  ("Plane.from_point_and_normal", Gen.sig_Plane_from_point_and_normal),
  ("transform.rodrigues_vector_to_rotation_matrix", Gen.sig_transform_rodrigues_vector_to_rotation_matrix),
  ("transform.cv2_rodrigues", Gen.sig_transform_cv2_rodrigues)
]

/-- every covered callable is still a public callable of the source, and the driver's table maps its name to
    the signature the theorem is about -/
theorem covered_in_table : covered.all (fun ns => Gen.allSigs.lookup ns.1 == some ns.2) = true := by
  decide +kernel

/-! ## clause 2: the stacked result is the row-by-row result -/

/-- generic: row `i` of a mapped stack is the function applied to row `i` -/
theorem map_getElem {α β : Type} (f : α → β) (l : List α) (i : Nat) (h : i < l.length) :
    (l.map f)[i]? = some (f l[i]) := by
  simp [List.getElem?_map, List.getElem?_eq_getElem h]

theorem zipWith_getElem {α β γ : Type} (f : α → β → γ) (as : List α) (bs : List β) (i : Nat)
    (h : i < as.length) (h' : i < bs.length) :
    (List.zipWith f as bs)[i]? = some (f as[i] bs[i]) := by
  simp [List.getElem?_zipWith, List.getElem?_eq_getElem h, List.getElem?_eq_getElem h']

section stacks
variable {α β γ : Type} (f : α → β → γ)

/-- k items against one: row `i` of the result is the single result for row `i`; the result has k rows -/
theorem stacked_many_one (as : List α) (b : β) :
    ∃ r, Stk.zip f (.many as) (.one b) = .ok (.many r) ∧ r.length = as.length ∧
      ∀ i (h : i < as.length), r[i]? = some (f as[i] b) :=
  ⟨as.map fun a => f a b, rfl, by simp, fun i h => map_getElem _ as i h⟩

/-- k items against k items, pairwise -/
theorem stacked_many_many (as : List α) (bs : List β) (hl : as.length = bs.length) :
    ∃ r, Stk.zip f (.many as) (.many bs) = .ok (.many r) ∧ r.length = as.length ∧
      ∀ i (h : i < as.length), r[i]? = some (f as[i] (bs[i]'(hl ▸ h))) := by
  refine ⟨List.zipWith f as bs, by simp [Stk.zip, hl], by simp [hl], fun i h => ?_⟩
  exact zipWith_getElem f as bs i h (hl ▸ h)

/-- one item against k (the vg idiom `(-1 if k is None else k, 4)`) -/
theorem stacked_one_many (a : α) (bs : List β) :
    ∃ r, Stk.zip f (.one a) (.many bs) = .ok (.many r) ∧ r.length = bs.length ∧
      ∀ i (h : i < bs.length), r[i]? = some (f a bs[i]) :=
  ⟨bs.map fun b => f a b, rfl, by simp, fun i h => map_getElem _ bs i h⟩

/-- one against one is the single result -/
theorem stacked_one_one (a : α) (b : β) : Stk.zip f (.one a) (.one b) = .ok (.one (f a b)) := rfl

/-- an empty stack gives an empty result -/
theorem stacked_empty (b : β) :
    Stk.zip f (.many []) (.one b) = .ok (.many []) ∧
    Stk.zip f (.many ([] : List α)) (.many ([] : List β)) = .ok (.many []) := ⟨rfl, rfl⟩

/-- stacks of different lengths are rejected with ValueError, never broadcast -/
theorem stacked_length_mismatch (as : List α) (bs : List β) (hl : as.length ≠ bs.length) :
    Stk.zip f (.many as) (.many bs) = .error .ValueError := by
  simp [Stk.zip, hl]

/-- a stack of one row and the single item give the same row -/
theorem stacked_singleton (a : α) (b : β) :
    Stk.zip f (.many [a]) (.one b) = .ok (.many [f a b]) := rfl

end stacks

/-- one-argument operations (`Plane.signed_distance`, `sign`, `distance`, `project_point`, `mirror_point`,
    `apply_transform(…)(points)`, `Line.project`, `Polyline.nearest`, `surface_normals`, …) -/
theorem stacked_map {α β : Type} (f : α → β) (as : List α) :
    ∃ r, Stk.map f (.many as) = .many r ∧ r.length = as.length ∧
      ∀ i (h : i < as.length), r[i]? = some (f as[i]) :=
  ⟨as.map f, rfl, by simp, fun i h => map_getElem f as i h⟩

theorem stacked_map_empty {α β : Type} (f : α → β) : Stk.map f (.many []) = .many [] := rfl

section plane
variable {K : Type} [Add K] [Sub K] [Mul K] [Div K] [Neg K] [OfNat K 0] [OfNat K 1]
  [LT K] [LE K] [DecidableLT K] [DecidableLE K]

/-- the plane functions of PW.Model.Plane on stacks are row by row the single-point functions
    (same statement as `PW.C05.stacked_equations_rowwise`, for all three and all combinations) -/
theorem plane_functions_rowwise (ps : List (V3 K)) (es : List (V4 K)) (hl : ps.length = es.length) (i : Nat)
    (h : i < ps.length) :
    (∃ r, signedDistanceStk (.many ps) (.many es) = .ok (.many r) ∧ r[i]? = some (signedDistanceEq ps[i] (es[i]'(hl ▸ h)))) ∧
    (∃ r, projectPointStk (.many ps) (.many es) = .ok (.many r) ∧ r[i]? = some (projectPointToPlane ps[i] (es[i]'(hl ▸ h)))) ∧
    (∃ r, mirrorPointStk (.many ps) (.many es) = .ok (.many r) ∧ r[i]? = some (mirrorPointAcrossPlane ps[i] (es[i]'(hl ▸ h)))) := by
  refine ⟨?_, ?_, ?_⟩
  · obtain ⟨r, hr, _, hi⟩ := stacked_many_many signedDistanceEq ps es hl; exact ⟨r, hr, hi i h⟩
  · obtain ⟨r, hr, _, hi⟩ := stacked_many_many projectPointToPlane ps es hl; exact ⟨r, hr, hi i h⟩
  · obtain ⟨r, hr, _, hi⟩ := stacked_many_many mirrorPointAcrossPlane ps es hl; exact ⟨r, hr, hi i h⟩

theorem plane_methods_rowwise (pl : Plane K) (ps : List (V3 K)) (i : Nat) (h : i < ps.length) :
    (∃ r, pl.signedDistanceStk (.many ps) = .many r ∧ r[i]? = some (pl.signedDistance ps[i])) ∧
    (∃ r, pl.signStk (.many ps) = .many r ∧ r[i]? = some (pl.sign ps[i])) ∧
    (∃ r, pl.distanceStk (.many ps) = .many r ∧ r[i]? = some (pl.distance ps[i])) ∧
    (∃ r, pl.projectPointStk (.many ps) = .many r ∧ r[i]? = some (pl.projectPoint ps[i])) ∧
    (∃ r, pl.mirrorPointStk (.many ps) = .many r ∧ r[i]? = some (pl.mirrorPoint ps[i])) :=
  ⟨⟨_, rfl, map_getElem _ ps i h⟩, ⟨_, rfl, map_getElem _ ps i h⟩, ⟨_, rfl, map_getElem _ ps i h⟩,
   ⟨_, rfl, map_getElem _ ps i h⟩, ⟨_, rfl, map_getElem _ ps i h⟩⟩

end plane

/-! ## purity: no public callable writes through an argument (alias abstraction generated from the source) -/

section effects
open PW.Effects

/-- callee summaries: six rounds from the empty table -/
def fxTable : Table := iterate Gen.allFx 6

/-- the table is a fixed point of the summary computation: every callee's summary is what its own body yields
under the table (assume / guarantee) -/
theorem gen_summaries_stable : round Gen.allFx fxTable = fxTable := by decide +kernel

/-- the public callables through which some parameter is written, with the parameter positions -/
def publicWrites : List (String × List Nat) :=
  Gen.publicFx.filterMap fun p => if wOf fxTable p.2 = [] then none else some (p.1, wOf fxTable p.2)

/-- Generated from the source: exactly these public callables write through a parameter — all of them through
parameter 0 (`self` / `cls`): the step builders of CompositeTransform and their CoordinateManager twins, `tag_as`,
attribute assignment on a CoordinateManager (whose new value, parameter 1, becomes reachable from `self`), and
`validate` / `deserialize`, which fill the class-level validator cache.  In particular no public callable writes
through its last pseudo-parameter, the module-level / closure state that outlives the call (a memo of the last
arguments, a scratch buffer kept in a closure, a `global` counter would).  A source edit that stores into an
argument (`points[...] = `, `np.f(.., out=points)`, `points.sort()`, a helper that does so, a view of the argument
that is later written) changes this list and breaks the theorem. -/
theorem gen_argument_writes : publicWrites =
  [("Polyline.validate", [0]), ("Polyline.deserialize", [0]), ("Plane.validate", [0]), ("Plane.deserialize", [0]),
   ("CompositeTransform.append_transform", [0]), ("CompositeTransform.uniform_scale", [0]),
   ("CompositeTransform.non_uniform_scale", [0]), ("CompositeTransform.convert_units", [0]),
   ("CompositeTransform.flip", [0]), ("CompositeTransform.translate", [0]), ("CompositeTransform.reorient", [0]),
   ("CompositeTransform.rotate", [0]), ("CoordinateManager.append_transform", [0]),
   ("CoordinateManager.uniform_scale", [0]), ("CoordinateManager.non_uniform_scale", [0]),
   ("CoordinateManager.convert_units", [0]), ("CoordinateManager.flip", [0]), ("CoordinateManager.translate", [0]),
   ("CoordinateManager.reorient", [0]), ("CoordinateManager.rotate", [0]), ("CoordinateManager.tag_as", [0]),
   ("CoordinateManager.__setattr__", [0, 1])] := by decide +kernel

/-- no untranslated statement in any abstracted callable (an unreadable statement counts as writing everything, so
this is implied by `gen_argument_writes` for public callables; stated for the helpers too) -/
theorem gen_no_unknown_statement :
    (Gen.allFx.all fun f => f.body.all fun st => match st with | .unknown _ => false | _ => true) = true := by
  decide +kernel

/-- **Purity, on the abstraction.**  A public callable that is not in the list of `gen_argument_writes` leaves the
memory of every argument, and of the object it is called on, unchanged: in every execution of its abstract program
(branches taken or not, stopping at any point, callees behaving within the summaries of `fxTable`, which
`gen_summaries_stable` shows to be what their own bodies yield). -/
theorem public_callables_leave_arguments_unchanged
    (name : String) (id : Nat) (hp : (name, id) ∈ Gen.publicFx) (hn : name ∉ publicWrites.map (·.1))
    (f : Fn) (hf : Gen.allFx[id]? = some f) (h0 : Nat → Nat) (c : CState)
    (hex : ExecList f.nparams (wOf fxTable) (rOf fxTable) (initC f.nparams h0) f.body c) :
    ∀ o, o < f.nparams → c.heap o = h0 o := by
  have hw : wOf fxTable id = [] := by
    by_contra hne
    apply hn
    simp only [publicWrites, List.map_filterMap, List.mem_filterMap]
    exact ⟨(name, id), hp, by simp [hne]⟩
  have hst := gen_summaries_stable
  have hrow : (round Gen.allFx fxTable)[id]? = some (analyse (wOf fxTable) (rOf fxTable) f) := by
    simp [round, List.getElem?_map, hf]
  rw [hst] at hrow
  have : (analyse (wOf fxTable) (rOf fxTable) f).1 = [] := by
    have : wOf fxTable id = (analyse (wOf fxTable) (rOf fxTable) f).1 := by
      simp [wOf, List.getD, hrow]
    rw [← this]; exact hw
  exact pure_of_analyse_nil _ _ f this h0 c hex


/-- what the result of a public callable may share memory with (parameter positions), from the summary table -/
def retOf (nm : String) : Option (List Nat) := (Gen.publicFx.lookup nm).map (rOf fxTable)

/-- Generated from the source: an object built by `Polyline(...)` or `Plane(...)` reaches no memory of the
constructor's arguments (only itself, position 0: the constructors copy what they are given — C09's "independent of
the array it was built from", C13's "arrays/copies"), whereas `Box` and `Line` keep their arguments as they come
(documented public attributes).  A constructor that starts to keep an argument by reference (`np.asarray` instead of
`np.array`, a view) changes the first two lists. -/
theorem gen_copying_constructors :
    retOf "Polyline.__init__" = some [0] ∧ retOf "Plane.__init__" = some [0] ∧
    retOf "Box.__init__" = some [0, 1, 2] ∧ retOf "Line.__init__" = some [0, 1, 2, 3] := by decide +kernel

/-- in every generated program the variable collecting the returned values is only ever added to -/
theorem gen_return_vars_only_grow : (Gen.allFx.all fun f => NoMust f.retVar f.body) = true := by decide +kernel

/-- **Results, on the abstraction.**  What a public callable hands back shares memory with an argument only at the
parameter positions its summary lists: in every execution of its abstract program, an argument region reachable
from the returned value belongs to one of those parameters. -/
theorem results_share_memory_only_as_listed
    (name : String) (id : Nat) (_hp : (name, id) ∈ Gen.publicFx)
    (f : Fn) (hf : Gen.allFx[id]? = some f) (h0 : Nat → Nat) (c : CState)
    (hex : ExecList f.nparams (wOf fxTable) (rOf fxTable) (initC f.nparams h0) f.body c) :
    ∀ o, o ∈ c.env f.retVar → o < f.nparams → o ∈ rOf fxTable id := by
  have hmem : f ∈ Gen.allFx := List.mem_of_getElem? hf
  have hb : NoMust f.retVar f.body = true := by
    have := gen_return_vars_only_grow
    rw [List.all_eq_true] at this
    exact this f hmem
  have hst := gen_summaries_stable
  have hrow : (round Gen.allFx fxTable)[id]? = some (analyse (wOf fxTable) (rOf fxTable) f) := by
    simp [round, List.getElem?_map, hf]
  rw [hst] at hrow
  have hr : rOf fxTable id = (analyse (wOf fxTable) (rOf fxTable) f).2 := by
    simp [rOf, List.getD, hrow]
  intro o ho hn
  rw [hr]
  exact sound_reach f _ _ hb h0 c hex o ho hn

/-- non-vacuity: `Plane.signed_distance` is a public callable outside the list, with a program to execute -/
example : (Gen.publicFx.any fun p => p.1 == "Plane.signed_distance" && !(publicWrites.map (·.1)).contains p.1
    && (Gen.allFx[p.2]?).isSome) = true := by
  decide +kernel

/-- the interpreter does see a write when there is one: `v = points; v[0] = 1` and `np.negative(d, out=view of points)` -/
example : (analyse (fun _ => []) (fun _ => [])
    { name := "t", nparams := 1, retVar := 9, body := [.bind true 1 (.alias [0]), .write 1 "v[0] = 1"] }).1 = [0] := by
  decide
example : (analyse (fun f => if f = 7 then [1] else []) (fun _ => [])
    { name := "t", nparams := 2, retVar := 9, body := [.bind false 2 (.alias [1]), .call 7 [[], [2]]] }).1 = [1] := by
  decide

end effects

/-! ## non-vacuity -/

example : accepts Gen.sig_plane_signed_distance_to_plane [("points", .arr [5, 3]), ("plane_equations", .arr [5, 4])] := by decide
example : ¬ accepts Gen.sig_plane_signed_distance_to_plane [("points", .arr [5, 3]), ("plane_equations", .arr [4, 4])] := by decide
example : ¬ accepts Gen.sig_Plane_line_segment_xsections [("a", .arr [2, 3]), ("b", .arr [3])] := by decide
example : accepts Gen.sig_Polyline_point_along_path [("fraction_of_total", .number)] := by decide
example : checkValue (.arr [4, 3]) [.wild, .dim 3] = .ok (.one 4) := by decide
example : Stk.zip (fun (a b : Nat) => a + b) (.many [1, 2]) (.many [10, 20]) = .ok (.many [11, 22]) := rfl

end PW.C20
