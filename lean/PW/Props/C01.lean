/-
  C01 — Mesh slicing returns exactly the part of the surface in front of the plane.

  Property theorems about the per-face kernel `PW.Slicing.sliceFacePos` (what one input face contributes to the
  output).  PW/Props/C02.lean proves that the array-level assembly `sliceMesh` returns exactly the kernel's
  triangles, face by face, so these laws hold for the arrays `slice_triangles_by_plane` returns.

  Conventions: `d(v) = n·(v − o)` (the offset the code computes, in units of |n|); `tol ≥ 0` is the merge
  tolerance; *front* `d > tol`, *behind* `d < −tol`, *on* otherwise.  Everything is over an arbitrary linearly
  ordered field `K` and holds for every `eps` (the zero-denominator replacement), every plane (`n = 0` included)
  and every face (degenerate ones included), unless a hypothesis says otherwise.
-/
import PW.Model.Slicing
import PW.Gen.Slicer
import PW.Lemmas.Slicing

set_option linter.unusedSectionVars false

namespace PW.C01

open PW.Slicing

variable {K : Type} [Field K] [LinearOrder K] [IsStrictOrderedRing K]

/-! ## 0. what the model takes from the source (regenerated on every run) -/

/-- the merge tolerance is the `1e-8` the property names; front ↦ −1, behind ↦ +1; zero denominators ↦ `1e-12`. -/
theorem C01_tol_value :
    PW.Gen.Slicer.tolMerge = (1 : Rat) / 100000000 ∧ PW.Gen.Slicer.denomGuard = (1 : Rat) / 1000000000000 ∧
    PW.Gen.Slicer.signBehind = 1 ∧ PW.Gen.Slicer.signFront = -1 := by
  exact ⟨rfl, rfl, rfl, rfl⟩

/-- the model's `vsign` uses exactly the generated sign values -/
theorem C01_sign_convention (tol d : K) :
    (tol < d → vsign tol d = PW.Gen.Slicer.signFront) ∧
    (¬ tol < d → d < -tol → vsign tol d = PW.Gen.Slicer.signBehind) := by
  unfold vsign
  constructor
  · intro h; rw [if_pos h]; decide
  · intro h1 h2; rw [if_neg h1, if_pos h2]; decide

/-- the `% 3` column offsets, the `quads_to_tris` split and the case predicates / edge-parameter expression of the
    source are the ones the model `sliceFacePos` / `classifyFace` / `edgePoint` was written from. -/
theorem C01_tables :
    PW.Gen.Slicer.quadVertOffsets = [1, 2] ∧ PW.Gen.Slicer.quadPointOffsets = [2, 0] ∧
    PW.Gen.Slicer.triPointOffsets = [0, 2] ∧
    PW.Gen.Slicer.quadsToTrisEven = [0, 1, 2] ∧ PW.Gen.Slicer.quadsToTrisOdd = [0, 2, 3] ∧
    PW.Gen.Slicer.onedgeSrc = "and(mask; np.abs(signs_sum) <= 1; signs_asum >= 2)" ∧
    PW.Gen.Slicer.insideSrc = "or(signs_sum == -signs_asum; ~mask)" ∧
    PW.Gen.Slicer.onedgeQuadSrc = "and(onedge; signs_sum < 0).nonzero()[0]" ∧
    PW.Gen.Slicer.onedgeTriSrc = "and(onedge; signs_sum >= 0).nonzero()[0]" ∧
    PW.Gen.Slicer.distSrc = "np.clip(np.divide(num, denom), 0.0, 1.0)" := by
  refine ⟨by decide, by decide, by decide, by decide, by decide, by decide, by decide, by decide, by decide, by decide⟩

/-! ## 1. the case table -/

def isCut : FaceKind → Bool
  | .quad _ => true
  | .tri _ => true
  | _ => false

/-- some corner behind / in front, in the slicer's sign convention -/
abbrev behindS (s : T3 Int) : Prop := s.a = 1 ∨ s.b = 1 ∨ s.c = 1
abbrev frontS (s : T3 Int) : Prop := s.a = -1 ∨ s.b = -1 ∨ s.c = -1

/-- what the column stored in a cut kind means -/
def kindSpec (s : T3 Int) : FaceKind → Prop
  | .quad k => k < 3 ∧ s.get k = 1 ∧ s.get (k + 1) = -1 ∧ s.get (k + 2) = -1
  | .tri k => k < 3 ∧ s.get k = -1 ∧ s.get (k + 1) ≠ -1 ∧ s.get (k + 2) ≠ -1 ∧
      (s.get (k + 1) = 1 ∨ s.get (k + 2) = 1)
  | _ => True

instance (s : T3 Int) (k : FaceKind) : Decidable (kindSpec s k) := by
  cases k <;> unfold kindSpec <;> infer_instance

/-- the four clauses of the case table for one sign pattern -/
def CaseTable (s : T3 Int) (sel : Bool) : Prop :=
  (classifyFace s sel = .keep ↔ (sel = false ∨ ¬ behindS s)) ∧
  (classifyFace s sel = .drop ↔ (sel = true ∧ behindS s ∧ ¬ frontS s)) ∧
  (isCut (classifyFace s sel) = true ↔ (sel = true ∧ behindS s ∧ frontS s)) ∧
  kindSpec s (classifyFace s sel)

instance (s : T3 Int) (sel : Bool) : Decidable (CaseTable s sel) := by
  unfold CaseTable; infer_instance

/-- all 27 sign patterns, selected or not: a face is *kept* iff unselected or no corner behind; *dropped* iff
    selected, some corner behind, none in front; otherwise *cut* — into a quad when exactly one corner is behind
    and the other two in front (column = the behind corner), else into a triangle (column = the unique front
    corner, at least one other corner behind). -/
theorem C01_case_table_signs :
    ∀ a ∈ [(-1 : Int), 0, 1], ∀ b ∈ [(-1 : Int), 0, 1], ∀ c ∈ [(-1 : Int), 0, 1], ∀ sel ∈ [true, false],
      CaseTable ⟨a, b, c⟩ sel := by
  decide

/-- the same, for the signs of actual plane offsets. -/
theorem C01_case_table (tol : K) (d : T3 K) (sel : Bool) : CaseTable (d.map (vsign tol)) sel := by
  have mem : ∀ x : K, vsign tol x ∈ [(-1 : Int), 0, 1] := by
    intro x; rcases vsign_mem tol x with h | h | h <;> simp [h]
  have hs : ∀ sel : Bool, sel ∈ [true, false] := by intro b; cases b <;> simp
  exact C01_case_table_signs _ (mem d.a) _ (mem d.b) _ (mem d.c) sel (hs sel)

/-! ## 2. what the kernel returns in each case -/

/-- faces wholly on or in front of the plane, and faces excluded by `faces_to_slice`, are returned with their
    original three corners, in order; selected faces with a corner behind and none in front are dropped. -/
theorem C01_kept_and_dropped (tol eps : K) (ht : 0 ≤ tol) (o n : V3 K) (p : T3 (V3 K)) (sel : Bool) :
    let d := fun v => offset o n v
    ((sel = false ∨ (-tol ≤ d p.a ∧ -tol ≤ d p.b ∧ -tol ≤ d p.c)) → sliceFacePos tol eps o n p sel = [p]) ∧
    ((sel = true ∧ (d p.a < -tol ∨ d p.b < -tol ∨ d p.c < -tol) ∧ d p.a ≤ tol ∧ d p.b ≤ tol ∧ d p.c ≤ tol) →
      sliceFacePos tol eps o n p sel = []) := by
  intro d
  have tbl := C01_case_table tol (p.map d) sel
  simp only [CaseTable, behindS, frontS, T3.map] at tbl
  obtain ⟨hk, hd, _, _⟩ := tbl
  constructor
  · intro h
    have : classifyFace (p.map fun v => vsign tol (offset o n v)) sel = .keep := by
      apply hk.mpr
      rcases h with h | ⟨ha, hb, hc⟩
      · left; exact h
      · right
        rintro (h1 | h1 | h1)
        · have := (vsign_behind_iff ht _).mp h1; linarith
        · have := (vsign_behind_iff ht _).mp h1; linarith
        · have := (vsign_behind_iff ht _).mp h1; linarith
    unfold sliceFacePos
    simp only [this]
  · rintro ⟨hs, hb, ha1, hb1, hc1⟩
    have : classifyFace (p.map fun v => vsign tol (offset o n v)) sel = .drop := by
      apply hd.mpr
      refine ⟨hs, ?_, ?_⟩
      · rcases hb with h | h | h
        · left; exact (vsign_behind_iff ht _).mpr h
        · right; left; exact (vsign_behind_iff ht _).mpr h
        · right; right; exact (vsign_behind_iff ht _).mpr h
      · rintro (h1 | h1 | h1)
        · have := (vsign_front_iff tol _).mp h1; linarith
        · have := (vsign_front_iff tol _).mp h1; linarith
        · have := (vsign_front_iff tol _).mp h1; linarith
    unfold sliceFacePos
    simp only [this]

/-! ## 3. no output vertex lies outside the input face it came from -/

/-- `q` is a convex combination of the corners of `p` -/
def InFace (p : T3 (V3 K)) (q : V3 K) : Prop :=
  ∃ α β γ : K, 0 ≤ α ∧ 0 ≤ β ∧ 0 ≤ γ ∧ α + β + γ = 1 ∧
    q = V3.smul α p.a + V3.smul β p.b + V3.smul γ p.c

theorem inFace_get (p : T3 (V3 K)) (i : Nat) : InFace p (p.get i) := by
  rcases T3.get_cases p i with ⟨_, h, _, _⟩ | ⟨_, h, _, _⟩ | ⟨_, h, _, _⟩ <;> rw [h]
  · exact ⟨1, 0, 0, by norm_num, by norm_num, by norm_num, by norm_num, by ext <;> simp⟩
  · exact ⟨0, 1, 0, by norm_num, by norm_num, by norm_num, by norm_num, by ext <;> simp⟩
  · exact ⟨0, 0, 1, by norm_num, by norm_num, by norm_num, by norm_num, by ext <;> simp⟩

theorem inFace_edge (eps : K) (o n : V3 K) (p : T3 (V3 K)) (i : Nat) :
    InFace p ((intPoints eps o n p).get i) := by
  rw [intPoints_get, edgePoint_eq]
  obtain ⟨h0, h1⟩ := edgeParam_mem eps o n (p.get i) (p.get (i + 1))
  generalize edgeParam eps o n (p.get i) (p.get (i + 1)) = t at h0 h1
  rcases T3.get_cases p i with ⟨_, ha, hb, _⟩ | ⟨_, ha, hb, _⟩ | ⟨_, ha, hb, _⟩ <;> rw [ha, hb]
  · exact ⟨1 - t, t, 0, by linarith, h0, le_refl 0, by ring, by ext <;> simp <;> ring⟩
  · exact ⟨0, 1 - t, t, le_refl 0, by linarith, h0, by ring, by ext <;> simp <;> ring⟩
  · exact ⟨t, 0, 1 - t, h0, le_refl 0, by linarith, by ring, by ext <;> simp <;> ring⟩

/-- **no output vertex lies outside the input face it came from** — for every face, plane, tolerance, mask. -/
theorem C01_out_in_face (tol eps : K) (o n : V3 K) (p : T3 (V3 K)) (sel : Bool) :
    ∀ t ∈ sliceFacePos tol eps o n p sel, InFace p t.a ∧ InFace p t.b ∧ InFace p t.c := by
  intro t ht
  unfold sliceFacePos at ht
  simp only at ht
  split at ht
  · simp only [List.mem_singleton] at ht
    rw [ht]
    exact ⟨inFace_get p 0, inFace_get p 1, inFace_get p 2⟩
  · simp at ht
  · simp only [List.mem_cons, List.not_mem_nil, or_false] at ht
    rcases ht with rfl | rfl
    · exact ⟨inFace_get p _, inFace_get p _, inFace_edge eps o n p _⟩
    · exact ⟨inFace_get p _, inFace_edge eps o n p _, inFace_edge eps o n p _⟩
  · simp only [List.mem_singleton] at ht
    rw [ht]
    exact ⟨inFace_get p _, inFace_edge eps o n p _, inFace_edge eps o n p _⟩


/-! ## 4. no output vertex lies behind the plane by more than the tolerance -/

theorem T3.get_add_three {α : Type} (t : T3 α) (i : Nat) : t.get (i + 3) = t.get i := by
  unfold T3.get
  have : (i + 3) % 3 = i % 3 := by omega
  rw [this]

/-- an edge used by a cut joins a corner in front (`0 < dF`) with a corner of smaller offset `dY`; whichever way it
    is traversed, the new vertex has offset `max dY 0`: it is *on the plane* when `Y` is behind it, and it *is* `Y`
    when `Y` is within tolerance on the front side (the clamp). -/
theorem edge_offset_FY (eps : K) (o n F Y : V3 K) (hF : 0 < offset o n F) (hY : offset o n Y < offset o n F) :
    offset o n (edgePoint eps o n F Y) = max (offset o n Y) 0 := by
  rw [edgePoint_eq, offset_lerp, edgeParam_of_ne eps o n F Y (ne_of_gt hY)]
  rcases lt_or_ge (offset o n Y) 0 with h | h
  · obtain ⟨e, _, _, hz⟩ := edgeParam_cross (da := offset o n F) (db := offset o n Y) (Or.inl ⟨hF, h⟩)
    rw [e, hz, max_eq_right h.le]
  · rw [edgeParam_to_on hF h hY, max_eq_left h]; ring

theorem edge_offset_YF (eps : K) (o n F Y : V3 K) (hF : 0 < offset o n F) (hY : offset o n Y < offset o n F) :
    offset o n (edgePoint eps o n Y F) = max (offset o n Y) 0 := by
  rw [edgePoint_eq, offset_lerp, edgeParam_of_ne eps o n Y F (ne_of_lt hY)]
  rcases lt_or_ge (offset o n Y) 0 with h | h
  · obtain ⟨e, _, _, hz⟩ := edgeParam_cross (da := offset o n Y) (db := offset o n F) (Or.inr ⟨h, hF⟩)
    rw [e, hz, max_eq_right h.le]
  · rw [edgeParam_from_on h hY, max_eq_left h]; ring

/-- sign facts of a face, read off the classification -/
theorem kind_offsets (tol : K) (ht : 0 ≤ tol) (o n : V3 K) (p : T3 (V3 K)) (sel : Bool) :
    let d := fun v => offset o n v
    match classifyFace (p.map fun v => vsign tol (offset o n v)) sel with
    | .quad k => d (p.get k) < -tol ∧ tol < d (p.get (k + 1)) ∧ tol < d (p.get (k + 2))
    | .tri k => tol < d (p.get k) ∧ d (p.get (k + 1)) ≤ tol ∧ d (p.get (k + 2)) ≤ tol
    | .keep => sel = false ∨ (-tol ≤ d p.a ∧ -tol ≤ d p.b ∧ -tol ≤ d p.c)
    | .drop => True := by
  intro d
  have tbl := C01_case_table tol (p.map d) sel
  have hmap : (p.map d).map (vsign tol) = p.map fun v => vsign tol (offset o n v) := rfl
  rw [hmap] at tbl
  obtain ⟨hk, _, _, hspec⟩ := tbl
  split
  · rename_i k hq
    rw [hq] at hspec
    obtain ⟨_, h0, h1, h2⟩ := hspec
    rw [T3.get_map] at h0 h1 h2
    exact ⟨(vsign_behind_iff ht _).mp h0, (vsign_front_iff tol _).mp h1, (vsign_front_iff tol _).mp h2⟩
  · rename_i k hq
    rw [hq] at hspec
    obtain ⟨_, h0, h1, h2, _⟩ := hspec
    rw [T3.get_map] at h0 h1 h2
    refine ⟨(vsign_front_iff tol _).mp h0, ?_, ?_⟩
    · by_contra hc; exact h1 ((vsign_front_iff tol _).mpr (not_le.mp hc))
    · by_contra hc; exact h2 ((vsign_front_iff tol _).mpr (not_le.mp hc))
  · rename_i hq
    rcases hk.mp hq with h | h
    · left; exact h
    · right
      simp only [behindS, T3.map, not_or] at h
      obtain ⟨ha, hb, hc⟩ := h
      refine ⟨?_, ?_, ?_⟩
      · by_contra hx; exact ha ((vsign_behind_iff ht _).mpr (not_le.mp hx))
      · by_contra hx; exact hb ((vsign_behind_iff ht _).mpr (not_le.mp hx))
      · by_contra hx; exact hc ((vsign_behind_iff ht _).mpr (not_le.mp hx))
  · trivial

/-- **no output vertex of a selected face lies behind the plane by more than the tolerance**; the vertices of a
    *cut* face are all on the non-negative side, and its new vertices have offset in `[0, tol]`. -/
theorem C01_not_behind (tol eps : K) (ht : 0 ≤ tol) (o n : V3 K) (p : T3 (V3 K)) :
    ∀ t ∈ sliceFacePos tol eps o n p true,
      -tol ≤ offset o n t.a ∧ -tol ≤ offset o n t.b ∧ -tol ≤ offset o n t.c := by
  intro t hmem
  have hk := kind_offsets tol ht o n p true
  unfold sliceFacePos at hmem
  simp only at hk hmem
  split at hmem
  · rename_i hq
    rw [hq] at hk
    simp only [List.mem_singleton] at hmem
    rw [hmem]
    rcases hk with h | h
    · exact absurd h (by decide)
    · exact h
  · simp at hmem
  · rename_i k hq
    rw [hq] at hk
    obtain ⟨hA, hB, hC⟩ := hk
    have hB0 : 0 < offset o n (p.get (k + 1)) := lt_of_le_of_lt ht hB
    have hC0 : 0 < offset o n (p.get (k + 2)) := lt_of_le_of_lt ht hC
    have hA0 : offset o n (p.get k) < 0 := by linarith
    have x2 : offset o n ((intPoints eps o n p).get (k + 2)) = max (offset o n (p.get k)) 0 := by
      rw [intPoints_get, show k + 2 + 1 = k + 3 from rfl, T3.get_add_three]
      exact edge_offset_FY eps o n _ _ hC0 (by linarith)
    have x0 : offset o n ((intPoints eps o n p).get k) = max (offset o n (p.get k)) 0 := by
      rw [intPoints_get]
      exact edge_offset_YF eps o n _ _ hB0 (by linarith)
    have hm : max (offset o n (p.get k)) 0 = 0 := max_eq_right hA0.le
    simp only [List.mem_cons, List.not_mem_nil, or_false] at hmem
    rcases hmem with rfl | rfl
    · refine ⟨by linarith, by linarith, ?_⟩
      simp only; rw [x2, hm]; linarith
    · refine ⟨by linarith, ?_, ?_⟩
      · simp only; rw [x2, hm]; linarith
      · simp only; rw [x0, hm]; linarith
  · rename_i k hq
    rw [hq] at hk
    obtain ⟨hA, hB, hC⟩ := hk
    have hA0 : 0 < offset o n (p.get k) := lt_of_le_of_lt ht hA
    have x0 : offset o n ((intPoints eps o n p).get k) = max (offset o n (p.get (k + 1))) 0 := by
      rw [intPoints_get]
      exact edge_offset_FY eps o n _ _ hA0 (by linarith)
    have x2 : offset o n ((intPoints eps o n p).get (k + 2)) = max (offset o n (p.get (k + 2))) 0 := by
      rw [intPoints_get, show k + 2 + 1 = k + 3 from rfl, T3.get_add_three]
      exact edge_offset_YF eps o n _ _ hA0 (by linarith)
    simp only [List.mem_singleton] at hmem
    rw [hmem]
    refine ⟨by linarith, ?_, ?_⟩
    · simp only; rw [x0]; have := le_max_right (offset o n (p.get (k + 1))) 0; linarith
    · simp only; rw [x2]; have := le_max_right (offset o n (p.get (k + 2))) 0; linarith


/-! ## 5. same orientation, and the pieces do not overlap (area bookkeeping) -/

/-- `(b − a) × (c − a)`: twice the area vector of a positional triangle -/
def crossOf (t : T3 (V3 K)) : V3 K := V3.cross (t.b - t.a) (t.c - t.a)

theorem crossOf_rot (p : T3 (V3 K)) (k : Nat) :
    crossOf ⟨p.get k, p.get (k + 1), p.get (k + 2)⟩ = crossOf p := by
  rcases T3.get_cases p k with ⟨_, h0, h1, h2⟩ | ⟨_, h0, h1, h2⟩ | ⟨_, h0, h1, h2⟩ <;>
    rw [h0, h1, h2] <;> unfold crossOf <;> ext <;> simp <;> ring

/-- cut triangle `(A, A + r(B−A), C + t(A−C))` -/
theorem cross_tri_piece (A B C : V3 K) (r t : K) :
    crossOf ⟨A, V3.smul r (B - A) + A, V3.smul t (A - C) + C⟩ = V3.smul (r * (1 - t)) (crossOf ⟨A, B, C⟩) := by
  unfold crossOf; ext <;> simp <;> ring

/-- first half of a cut quad `(B, C, C + t(A−C))` -/
theorem cross_quad_piece1 (A B C : V3 K) (t : K) :
    crossOf ⟨B, C, V3.smul t (A - C) + C⟩ = V3.smul t (crossOf ⟨A, B, C⟩) := by
  unfold crossOf; ext <;> simp <;> ring

/-- second half of a cut quad `(B, C + t(A−C), A + u(B−A))` -/
theorem cross_quad_piece2 (A B C : V3 K) (t u : K) :
    crossOf ⟨B, V3.smul t (A - C) + C, V3.smul u (B - A) + A⟩ =
      V3.smul ((1 - t) * (1 - u)) (crossOf ⟨A, B, C⟩) := by
  unfold crossOf; ext <;> simp <;> ring

/-- **same orientation**: every output triangle's area vector is a non-negative multiple `λ` of the input face's,
    and the multiples add up to at most 1 (the pieces do not overlap: their areas add up to no more than the face). -/
theorem C01_orientation (tol eps : K) (o n : V3 K) (p : T3 (V3 K)) (sel : Bool) :
    ∃ lams : List K, lams.length = (sliceFacePos tol eps o n p sel).length ∧
      (∀ l ∈ lams, 0 ≤ l) ∧ lams.sum ≤ 1 ∧
      List.Forall₂ (fun t l => crossOf t = V3.smul l (crossOf p)) (sliceFacePos tol eps o n p sel) lams := by
  unfold sliceFacePos
  simp only
  split
  · exact ⟨[1], rfl, by simp, by simp, by
      refine List.Forall₂.cons ?_ List.Forall₂.nil
      ext <;> simp⟩
  · exact ⟨[], rfl, by simp, by simp, List.Forall₂.nil⟩
  · rename_i k _
    -- A = behind corner, quad (B, C, X_CA, X_AB)
    set A := p.get k
    set B := p.get (k + 1)
    set C := p.get (k + 2)
    have e2 : (intPoints eps o n p).get (k + 2) = V3.smul (edgeParam eps o n C A) (A - C) + C := by
      rw [intPoints_get, show k + 2 + 1 = k + 3 from rfl, T3.get_add_three, edgePoint_eq]
    have e0 : (intPoints eps o n p).get k = V3.smul (edgeParam eps o n A B) (B - A) + A := by
      rw [intPoints_get, edgePoint_eq]
    obtain ⟨t0, t1⟩ := edgeParam_mem eps o n C A
    obtain ⟨u0, u1⟩ := edgeParam_mem eps o n A B
    generalize edgeParam eps o n C A = t at *
    generalize edgeParam eps o n A B = u at *
    have hrot : crossOf ⟨A, B, C⟩ = crossOf p := crossOf_rot p k
    refine ⟨[t, (1 - t) * (1 - u)], rfl, ?_, ?_, ?_⟩
    · intro l hl
      simp only [List.mem_cons, List.not_mem_nil, or_false] at hl
      rcases hl with rfl | rfl
      · exact t0
      · exact mul_nonneg (by linarith) (by linarith)
    · simp only [List.sum_cons, List.sum_nil, add_zero]
      nlinarith
    · refine List.Forall₂.cons ?_ (List.Forall₂.cons ?_ List.Forall₂.nil)
      · rw [e2, cross_quad_piece1, hrot]
      · rw [e2, e0, cross_quad_piece2, hrot]
  · rename_i k _
    set A := p.get k
    set B := p.get (k + 1)
    set C := p.get (k + 2)
    have e2 : (intPoints eps o n p).get (k + 2) = V3.smul (edgeParam eps o n C A) (A - C) + C := by
      rw [intPoints_get, show k + 2 + 1 = k + 3 from rfl, T3.get_add_three, edgePoint_eq]
    have e0 : (intPoints eps o n p).get k = V3.smul (edgeParam eps o n A B) (B - A) + A := by
      rw [intPoints_get, edgePoint_eq]
    obtain ⟨t0, t1⟩ := edgeParam_mem eps o n C A
    obtain ⟨u0, u1⟩ := edgeParam_mem eps o n A B
    generalize edgeParam eps o n C A = t at *
    generalize edgeParam eps o n A B = u at *
    have hrot : crossOf ⟨A, B, C⟩ = crossOf p := crossOf_rot p k
    refine ⟨[u * (1 - t)], rfl, ?_, ?_, ?_⟩
    · intro l hl
      simp only [List.mem_singleton] at hl
      rw [hl]; exact mul_nonneg u0 (by linarith)
    · simp only [List.sum_cons, List.sum_nil, add_zero]
      nlinarith
    · refine List.Forall₂.cons ?_ List.Forall₂.nil
      rw [e2, e0, cross_tri_piece, hrot]


/-! ## 6. the output triangles tile the face clipped to the half-space -/

theorem offset_combine (o n A B C : V3 K) (a b c : K) (h : a + b + c = 1) :
    offset o n (V3.smul a A + V3.smul b B + V3.smul c C) =
      a * offset o n A + b * offset o n B + c * offset o n C := by
  simp only [offset, V3.dot_def, V3.add_x, V3.add_y, V3.add_z, V3.sub_x, V3.sub_y, V3.sub_z,
    V3.smul_x, V3.smul_y, V3.smul_z]
  linear_combination (n.x * o.x + n.y * o.y + n.z * o.z) * h

theorem combine_tri (A B C : V3 K) (a b c r t : K) :
    V3.smul a A + V3.smul b (V3.smul r (B - A) + A) + V3.smul c (V3.smul t (A - C) + C) =
      V3.smul (a + b * (1 - r) + c * t) A + V3.smul (b * r) B + V3.smul (c * (1 - t)) C := by
  ext <;> simp <;> ring

theorem combine_quad1 (A B C : V3 K) (b c w t : K) :
    V3.smul b B + V3.smul c C + V3.smul w (V3.smul t (A - C) + C) =
      V3.smul (w * t) A + V3.smul b B + V3.smul (c + w * (1 - t)) C := by
  ext <;> simp <;> ring

theorem combine_quad2 (A B C : V3 K) (b w z t u : K) :
    V3.smul b B + V3.smul w (V3.smul t (A - C) + C) + V3.smul z (V3.smul u (B - A) + A) =
      V3.smul (w * t + z * (1 - u)) A + V3.smul (b + z * u) B + V3.smul (w * (1 - t)) C := by
  ext <;> simp <;> ring

/-- membership in the face does not depend on which corner is listed first -/
theorem inFace_rot (p : T3 (V3 K)) (k : Nat) (x : V3 K) :
    InFace ⟨p.get k, p.get (k + 1), p.get (k + 2)⟩ x ↔ InFace p x := by
  rcases T3.get_cases p k with ⟨_, h0, h1, h2⟩ | ⟨_, h0, h1, h2⟩ | ⟨_, h0, h1, h2⟩ <;> rw [h0, h1, h2]
  · constructor
    · rintro ⟨a, b, c, ha, hb, hc, hs, rfl⟩
      exact ⟨c, a, b, hc, ha, hb, by linarith, by ext <;> simp <;> ring⟩
    · rintro ⟨a, b, c, ha, hb, hc, hs, rfl⟩
      exact ⟨b, c, a, hb, hc, ha, by linarith, by ext <;> simp <;> ring⟩
  · constructor
    · rintro ⟨a, b, c, ha, hb, hc, hs, rfl⟩
      exact ⟨b, c, a, hb, hc, ha, by linarith, by ext <;> simp <;> ring⟩
    · rintro ⟨a, b, c, ha, hb, hc, hs, rfl⟩
      exact ⟨c, a, b, hc, ha, hb, by linarith, by ext <;> simp <;> ring⟩

/-- a convex combination of points of the face is a point of the face -/
theorem inFace_trans (p t : T3 (V3 K)) (x : V3 K) (ha : InFace p t.a) (hb : InFace p t.b) (hc : InFace p t.c)
    (hx : InFace t x) : InFace p x := by
  obtain ⟨a1, a2, a3, h1, h2, h3, hs, ea⟩ := ha
  obtain ⟨b1, b2, b3, i1, i2, i3, is, eb⟩ := hb
  obtain ⟨c1, c2, c3, j1, j2, j3, js, ec⟩ := hc
  obtain ⟨u, v, w, hu, hv, hw, huvw, ex⟩ := hx
  refine ⟨u * a1 + v * b1 + w * c1, u * a2 + v * b2 + w * c2, u * a3 + v * b3 + w * c3,
    by positivity, by positivity, by positivity, ?_, ?_⟩
  · linear_combination u * hs + v * is + w * js + huvw
  · rw [ex, ea, eb, ec]; ext <;> simp <;> ring

/-- **triangle case** (one corner `A` in front, the others not): the cut triangle is exactly the set of points
    `αA + βB + γC` of the face with `α·d_A + β·min(d_B,0) + γ·min(d_C,0) ≥ 0`. -/
theorem C01_tiling_tri (tol eps : K) (ht : 0 ≤ tol) (o n : V3 K) (p : T3 (V3 K)) (k : Nat)
    (hk : classifyFace (p.map fun v => vsign tol (offset o n v)) true = .tri k) (x : V3 K) :
    let A := p.get k; let B := p.get (k + 1); let C := p.get (k + 2)
    (∃ t ∈ sliceFacePos tol eps o n p true, InFace t x) ↔
      ∃ α β γ : K, 0 ≤ α ∧ 0 ≤ β ∧ 0 ≤ γ ∧ α + β + γ = 1 ∧
        x = V3.smul α A + V3.smul β B + V3.smul γ C ∧
        0 ≤ α * offset o n A + β * min (offset o n B) 0 + γ * min (offset o n C) 0 := by
  intro A B C
  have hko := kind_offsets tol ht o n p true
  simp only at hko
  rw [hk] at hko
  obtain ⟨hA, hB, hC⟩ := hko
  have hA0 : 0 < offset o n A := lt_of_le_of_lt ht hA
  have hBA : offset o n B < offset o n A := lt_of_le_of_lt hB hA
  have hCA : offset o n C < offset o n A := lt_of_le_of_lt hC hA
  have hout : sliceFacePos tol eps o n p true =
      [⟨A, V3.smul (edgeParam eps o n A B) (B - A) + A, V3.smul (edgeParam eps o n C A) (A - C) + C⟩] := by
    unfold sliceFacePos
    simp only [hk]
    rw [intPoints_get, intPoints_get, show k + 2 + 1 = k + 3 from rfl, T3.get_add_three, edgePoint_eq,
      edgePoint_eq]
  have hr : edgeParam eps o n A B = offset o n A / (offset o n A - min (offset o n B) 0) := by
    rw [edgeParam_of_ne eps o n A B (ne_of_gt hBA)]; exact param_FY hA0 hBA
  have htt : edgeParam eps o n C A = min (offset o n C) 0 / (min (offset o n C) 0 - offset o n A) := by
    rw [edgeParam_of_ne eps o n C A (ne_of_lt hCA)]; exact param_YF hA0 hCA
  obtain ⟨r0, r1⟩ := edgeParam_mem eps o n A B
  obtain ⟨t0, t1⟩ := edgeParam_mem eps o n C A
  rw [hout]
  simp only [List.mem_singleton, exists_eq_left]
  constructor
  · rintro ⟨a, b, c, ha, hb, hc, hs, ex⟩
    simp only at ex
    rw [combine_tri] at ex
    have hα : 0 ≤ a + b * (1 - edgeParam eps o n A B) + c * edgeParam eps o n C A := by
      have : 0 ≤ b * (1 - edgeParam eps o n A B) := mul_nonneg hb (by linarith)
      have : 0 ≤ c * edgeParam eps o n C A := mul_nonneg hc t0
      linarith
    have hβ : 0 ≤ b * edgeParam eps o n A B := mul_nonneg hb r0
    have hγ : 0 ≤ c * (1 - edgeParam eps o n C A) := mul_nonneg hc (by linarith)
    refine ⟨_, _, _, hα, hβ, hγ, by ring_nf; linarith, ex, ?_⟩
    have key := (tri_case_tiles (offset o n A) (min (offset o n B) 0) (min (offset o n C) 0) _ _ _ hA0
      (min_le_right _ _) (min_le_right _ _) hα hβ hγ (by ring_nf; linarith)).mp
    apply key
    rw [← hr, ← htt]
    exact ⟨a, b, c, ha, hb, hc, hs, rfl, rfl, rfl⟩
  · rintro ⟨α, β, γ, hα, hβ, hγ, hs, ex, hd⟩
    have key := (tri_case_tiles (offset o n A) (min (offset o n B) 0) (min (offset o n C) 0) α β γ hA0
      (min_le_right _ _) (min_le_right _ _) hα hβ hγ hs).mpr hd
    rw [← hr, ← htt] at key
    obtain ⟨a, b, c, ha, hb, hc, habc, e1, e2, e3⟩ := key
    refine ⟨a, b, c, ha, hb, hc, habc, ?_⟩
    simp only
    rw [combine_tri, ex, e1, e2, e3]

/-- **quad case** (one corner `A` behind, the other two in front): the two output triangles together are exactly
    the set of points of the face with non-negative offset. -/
theorem C01_tiling_quad (tol eps : K) (ht : 0 ≤ tol) (o n : V3 K) (p : T3 (V3 K)) (k : Nat)
    (hk : classifyFace (p.map fun v => vsign tol (offset o n v)) true = .quad k) (x : V3 K) :
    let A := p.get k; let B := p.get (k + 1); let C := p.get (k + 2)
    (∃ t ∈ sliceFacePos tol eps o n p true, InFace t x) ↔
      ∃ α β γ : K, 0 ≤ α ∧ 0 ≤ β ∧ 0 ≤ γ ∧ α + β + γ = 1 ∧
        x = V3.smul α A + V3.smul β B + V3.smul γ C ∧
        0 ≤ α * offset o n A + β * offset o n B + γ * offset o n C := by
  intro A B C
  have hko := kind_offsets tol ht o n p true
  simp only at hko
  rw [hk] at hko
  obtain ⟨hA, hB, hC⟩ := hko
  have hA0 : offset o n A < 0 := by linarith
  have hB0 : 0 < offset o n B := lt_of_le_of_lt ht hB
  have hC0 : 0 < offset o n C := lt_of_le_of_lt ht hC
  have hout : sliceFacePos tol eps o n p true =
      [⟨B, C, V3.smul (edgeParam eps o n C A) (A - C) + C⟩,
       ⟨B, V3.smul (edgeParam eps o n C A) (A - C) + C, V3.smul (edgeParam eps o n A B) (B - A) + A⟩] := by
    unfold sliceFacePos
    simp only [hk]
    rw [intPoints_get, intPoints_get, show k + 2 + 1 = k + 3 from rfl, T3.get_add_three, edgePoint_eq,
      edgePoint_eq]
  have htt : edgeParam eps o n C A = offset o n C / (offset o n C - offset o n A) := by
    rw [edgeParam_of_ne eps o n C A (by intro h; linarith)]
    exact (edgeParam_cross (Or.inl ⟨hC0, hA0⟩)).1
  have hu : edgeParam eps o n A B = offset o n A / (offset o n A - offset o n B) := by
    rw [edgeParam_of_ne eps o n A B (by intro h; linarith)]
    exact (edgeParam_cross (Or.inr ⟨hA0, hB0⟩)).1
  obtain ⟨t0, t1⟩ := edgeParam_mem eps o n C A
  obtain ⟨u0, u1⟩ := edgeParam_mem eps o n A B
  rw [hout]
  simp only [List.mem_cons, List.not_mem_nil, or_false, exists_eq_or_imp, exists_eq_left]
  constructor
  · rintro (⟨b, c, w, hb, hc, hw, hs, ex⟩ | ⟨b, w, z, hb, hw, hz, hs, ex⟩)
    · simp only at ex
      rw [combine_quad1] at ex
      have hα : 0 ≤ w * edgeParam eps o n C A := mul_nonneg hw t0
      have hγ : 0 ≤ c + w * (1 - edgeParam eps o n C A) := by
        have : 0 ≤ w * (1 - edgeParam eps o n C A) := mul_nonneg hw (by linarith)
        linarith
      refine ⟨_, _, _, hα, hb, hγ, by ring_nf; linarith, ex, ?_⟩
      apply (quad_case_tiles (offset o n A) (offset o n B) (offset o n C) _ _ _ hA0 hB0 hC0 hα hb hγ
        (by ring_nf; linarith)).mp
      left
      rw [← htt]
      exact ⟨b, c, w, hb, hc, hw, hs, rfl, rfl, rfl⟩
    · simp only at ex
      rw [combine_quad2] at ex
      have hα : 0 ≤ w * edgeParam eps o n C A + z * (1 - edgeParam eps o n A B) := by
        have : 0 ≤ w * edgeParam eps o n C A := mul_nonneg hw t0
        have : 0 ≤ z * (1 - edgeParam eps o n A B) := mul_nonneg hz (by linarith)
        linarith
      have hβ : 0 ≤ b + z * edgeParam eps o n A B := by
        have : 0 ≤ z * edgeParam eps o n A B := mul_nonneg hz u0
        linarith
      have hγ : 0 ≤ w * (1 - edgeParam eps o n C A) := mul_nonneg hw (by linarith)
      refine ⟨_, _, _, hα, hβ, hγ, by ring_nf; linarith, ex, ?_⟩
      apply (quad_case_tiles (offset o n A) (offset o n B) (offset o n C) _ _ _ hA0 hB0 hC0 hα hβ hγ
        (by ring_nf; linarith)).mp
      right
      rw [← htt, ← hu]
      exact ⟨b, w, z, hb, hw, hz, hs, rfl, rfl, rfl⟩
  · rintro ⟨α, β, γ, hα, hβ, hγ, hs, ex, hd⟩
    have key := (quad_case_tiles (offset o n A) (offset o n B) (offset o n C) α β γ hA0 hB0 hC0 hα hβ hγ
      hs).mpr hd
    rw [← htt, ← hu] at key
    rcases key with ⟨b, c, w, hb, hc, hw, hsum, e1, e2, e3⟩ | ⟨b, w, z, hb, hw, hz, hsum, e1, e2, e3⟩
    · left
      refine ⟨b, c, w, hb, hc, hw, hsum, ?_⟩
      simp only
      rw [combine_quad1, ex, e1, e2, e3]
    · right
      refine ⟨b, w, z, hb, hw, hz, hsum, ?_⟩
      simp only
      rw [combine_quad2, ex, e1, e2, e3]


/-- every point of every output triangle is a point of the input face, and (selected faces) not behind the plane
    by more than the tolerance. -/
theorem C01_within_halfspace (tol eps : K) (ht : 0 ≤ tol) (o n : V3 K) (p : T3 (V3 K)) :
    ∀ t ∈ sliceFacePos tol eps o n p true, ∀ x, InFace t x → InFace p x ∧ -tol ≤ offset o n x := by
  intro t ht' x hx
  obtain ⟨fa, fb, fc⟩ := C01_out_in_face tol eps o n p true t ht'
  obtain ⟨da, db, dc⟩ := C01_not_behind tol eps ht o n p t ht'
  refine ⟨inFace_trans p t x fa fb fc hx, ?_⟩
  obtain ⟨a, b, c, ha, hb, hc, hs, rfl⟩ := hx
  rw [offset_combine o n _ _ _ a b c hs]
  nlinarith [mul_nonneg ha (by linarith : (0:K) ≤ offset o n t.a + tol),
    mul_nonneg hb (by linarith : (0:K) ≤ offset o n t.b + tol),
    mul_nonneg hc (by linarith : (0:K) ≤ offset o n t.c + tol)]

/-- **the output covers everything in front**: every point of a selected face whose offset exceeds the tolerance
    lies in one of the output triangles.  Together with `C01_within_halfspace`:
    `{x ∈ face | d(x) > tol} ⊆ ⋃ outputs ⊆ {x ∈ face | d(x) ≥ −tol}`. -/
theorem C01_covers_front (tol eps : K) (ht : 0 ≤ tol) (o n : V3 K) (p : T3 (V3 K)) (x : V3 K)
    (hx : InFace p x) (hd : tol < offset o n x) :
    ∃ t ∈ sliceFacePos tol eps o n p true, InFace t x := by
  have hko := kind_offsets tol ht o n p true
  simp only at hko
  cases hkind : classifyFace (p.map fun v => vsign tol (offset o n v)) true with
  | keep =>
    refine ⟨p, ?_, hx⟩
    unfold sliceFacePos; simp only [hkind, List.mem_singleton]
  | drop =>
    exfalso
    have tbl := C01_case_table tol (p.map (offset o n)) true
    have hmap : (p.map (offset o n)).map (vsign tol) = p.map fun v => vsign tol (offset o n v) := rfl
    rw [hmap] at tbl
    obtain ⟨_, hdrop, _, _⟩ := tbl
    obtain ⟨_, _, hnf⟩ := hdrop.mp hkind
    simp only [frontS, T3.map, not_or] at hnf
    obtain ⟨na, nb, nc⟩ := hnf
    have ha : offset o n p.a ≤ tol := by by_contra h; exact na ((vsign_front_iff tol _).mpr (not_le.mp h))
    have hb : offset o n p.b ≤ tol := by by_contra h; exact nb ((vsign_front_iff tol _).mpr (not_le.mp h))
    have hc : offset o n p.c ≤ tol := by by_contra h; exact nc ((vsign_front_iff tol _).mpr (not_le.mp h))
    obtain ⟨a, b, c, h0a, h0b, h0c, hs, rfl⟩ := hx
    rw [offset_combine o n _ _ _ a b c hs] at hd
    nlinarith [mul_nonneg h0a (by linarith : (0:K) ≤ tol - offset o n p.a),
      mul_nonneg h0b (by linarith : (0:K) ≤ tol - offset o n p.b),
      mul_nonneg h0c (by linarith : (0:K) ≤ tol - offset o n p.c)]
  | quad k =>
    obtain ⟨α, β, γ, hα, hβ, hγ, hs, rfl⟩ := (inFace_rot p k x).mpr hx
    apply (C01_tiling_quad tol eps ht o n p k hkind _).mpr
    refine ⟨α, β, γ, hα, hβ, hγ, hs, rfl, ?_⟩
    rw [offset_combine o n _ _ _ α β γ hs] at hd
    linarith
  | tri k =>
    rw [hkind] at hko
    obtain ⟨hA, hB, hC⟩ := hko
    obtain ⟨α, β, γ, hα, hβ, hγ, hs, rfl⟩ := (inFace_rot p k x).mpr hx
    apply (C01_tiling_tri tol eps ht o n p k hkind _).mpr
    refine ⟨α, β, γ, hα, hβ, hγ, hs, rfl, ?_⟩
    rw [offset_combine o n _ _ _ α β γ hs] at hd
    -- capping an on-corner's offset at 0 lowers it by at most `tol`
    have cB : offset o n (p.get (k + 1)) - tol ≤ min (offset o n (p.get (k + 1))) 0 := by
      apply le_min <;> linarith
    have cC : offset o n (p.get (k + 2)) - tol ≤ min (offset o n (p.get (k + 2))) 0 := by
      apply le_min <;> linarith
    have hβ1 : β ≤ 1 := by linarith
    nlinarith [mul_le_mul_of_nonneg_left cB hβ, mul_le_mul_of_nonneg_left cC hγ, mul_nonneg hα ht]

/-- **exact tiling**: when every corner that is not in front has offset `≤ 0` (in particular when the on-plane
    corners are exactly on the plane, and always for `tol = 0`), the output triangles of a cut face are exactly the
    points of the face with non-negative offset: the face clipped to the half-space. -/
theorem C01_tiling_exact (tol eps : K) (ht : 0 ≤ tol) (o n : V3 K) (p : T3 (V3 K))
    (hcut : isCut (classifyFace (p.map fun v => vsign tol (offset o n v)) true) = true)
    (hon : ∀ i, offset o n (p.get i) ≤ tol → offset o n (p.get i) ≤ 0) (x : V3 K) :
    (∃ t ∈ sliceFacePos tol eps o n p true, InFace t x) ↔ (InFace p x ∧ 0 ≤ offset o n x) := by
  have hko := kind_offsets tol ht o n p true
  simp only at hko
  cases hkind : classifyFace (p.map fun v => vsign tol (offset o n v)) true with
  | keep => rw [hkind] at hcut; simp [isCut] at hcut
  | drop => rw [hkind] at hcut; simp [isCut] at hcut
  | quad k =>
    have hq := C01_tiling_quad tol eps ht o n p k hkind x
    simp only at hq
    rw [hq]
    constructor
    · rintro ⟨α, β, γ, hα, hβ, hγ, hs, rfl, hd⟩
      refine ⟨(inFace_rot p k _).mp ⟨α, β, γ, hα, hβ, hγ, hs, rfl⟩, ?_⟩
      rw [offset_combine o n _ _ _ α β γ hs]; exact hd
    · rintro ⟨hx, hd⟩
      obtain ⟨α, β, γ, hα, hβ, hγ, hs, rfl⟩ := (inFace_rot p k x).mpr hx
      refine ⟨α, β, γ, hα, hβ, hγ, hs, rfl, ?_⟩
      rw [offset_combine o n _ _ _ α β γ hs] at hd; exact hd
  | tri k =>
    rw [hkind] at hko
    obtain ⟨hA, hB, hC⟩ := hko
    have mB : min (offset o n (p.get (k + 1))) 0 = offset o n (p.get (k + 1)) := min_eq_left (hon _ hB)
    have mC : min (offset o n (p.get (k + 2))) 0 = offset o n (p.get (k + 2)) := min_eq_left (hon _ hC)
    have hq := C01_tiling_tri tol eps ht o n p k hkind x
    simp only at hq
    rw [hq]
    simp only [mB, mC]
    constructor
    · rintro ⟨α, β, γ, hα, hβ, hγ, hs, rfl, hd⟩
      refine ⟨(inFace_rot p k _).mp ⟨α, β, γ, hα, hβ, hγ, hs, rfl⟩, ?_⟩
      rw [offset_combine o n _ _ _ α β γ hs]; exact hd
    · rintro ⟨hx, hd⟩
      obtain ⟨α, β, γ, hα, hβ, hγ, hs, rfl⟩ := (inFace_rot p k x).mpr hx
      refine ⟨α, β, γ, hα, hβ, hγ, hs, rfl, ?_⟩
      rw [offset_combine o n _ _ _ α β γ hs] at hd; exact hd

/-! ## 7. non-vacuity: a concrete face of each kind -/

example : sliceFacePos (K := ℚ) (1/100000000) (1/1000000000000) ⟨0,0,0⟩ ⟨0,0,1⟩
    ⟨⟨0,0,1⟩, ⟨1,0,-1⟩, ⟨0,1,-1⟩⟩ true = [⟨⟨0,0,1⟩, ⟨1/2,0,0⟩, ⟨0,1/2,0⟩⟩] := by
  decide +kernel

example : (sliceFacePos (K := ℚ) (1/100000000) (1/1000000000000) ⟨0,0,0⟩ ⟨0,0,1⟩
    ⟨⟨0,0,-1⟩, ⟨1,0,1⟩, ⟨0,1,1⟩⟩ true).length = 2 := by
  decide +kernel

end PW.C01
