import PW.Model.Slicing
import PW.Gen.Slicer
namespace PW.C01
end PW.C01
