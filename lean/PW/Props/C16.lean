/-
  C16 — tessellated prisms are closed, outward-facing and of the right size.

  Property theorems only (helpers in PW/Lemmas/Shapes.lean).  `K` is an arbitrary linearly ordered field
  (hence ℚ and ℝ at once); the statements that need lengths (areas, the unit normal of the triangular prism)
  are over ℝ with `Real.sqrt`.  The `gen_*` theorems tie the tables regenerated from the source
  (PW/Gen/ShapeTables.lean) to the model the other theorems speak about: editing a table entry in
  polliwog/shapes/_shapes.py or polliwog/tri/quad_faces.py breaks one of them.
-/
import PW.Model.Shapes
import PW.Gen.ShapeTables
import PW.Lemmas.Vec
import PW.Lemmas.Shapes
import PW.Lemmas.RealNormC16C17
import Mathlib.Tactic.Ring
import Mathlib.Tactic.CasesM
import Mathlib.Tactic.Linarith
import Mathlib.Tactic.Positivity
import Mathlib.Tactic.FieldSimp
import Mathlib.Tactic.LinearCombination
import Mathlib.Algebra.Order.Field.Basic
import Mathlib.Analysis.Real.Sqrt

set_option linter.unusedSectionVars false
set_option linter.unusedTactic false

namespace PW.C16

open PW.Shapes

/-- closes what `simp` leaves of a componentwise equality: conjunctions of ring identities -/
macro "split_ring" : tactic => `(tactic| all_goals ((try constructorm* _ ∧ _) <;> ring))

/-! ## the generated tables are the model's tables -/

section field
variable {K : Type} [Field K] [LinearOrder K] [IsStrictOrderedRing K]

theorem gen_rect_vertices (o s : V3 K) : Gen.ShapeT.rectVertices o s = rectVertices o s := by
  simp [Gen.ShapeT.rectVertices, rectVertices, V3.ext_iff]
  split_ring

theorem gen_rect_quads : Gen.ShapeT.rectQuads = rectQuads := by decide

/-- `quads_to_tris` as written in the source (its two strided assignments) applied to the source's quad table
    yields the model's 12 faces -/
theorem gen_quads_to_tris :
    applyPicks Gen.ShapeT.quadsToTrisPicks Gen.ShapeT.rectQuads = some rectFaces ∧
    applyPicks Gen.ShapeT.quadsToTrisPicks rectQuads = some (quadsToTris rectQuads) := by decide

theorem gen_cube (o : V3 K) (sz : K) :
    Gen.ShapeT.cubeVertices o sz = rectVertices o ⟨sz, sz, sz⟩ ∧ Gen.ShapeT.cubeQuads = rectQuads := by
  refine ⟨?_, by decide⟩
  simp [Gen.ShapeT.cubeVertices, rectVertices, V3.ext_iff]
  split_ring

theorem gen_tri_vertices (p1 p2 p3 n : V3 K) (h : K) :
    Gen.ShapeT.triPrismVertices p1 p2 p3 n h = triVertices p1 p2 p3 n h := by
  simp [Gen.ShapeT.triPrismVertices, triVertices, V3.ext_iff]
  split_ring

theorem gen_tri_faces : Gen.ShapeT.triPrismFaces = triFaces := by decide

/-- the `isinstance(…, float)` guards and `_maybe_flatten` are as modelled (`PyNum.asFloat`, `maybeFlatten`) -/
theorem gen_guards :
    Gen.ShapeT.cubeGuards = [["size", "float", "ValueError"]] ∧
    Gen.ShapeT.triPrismGuards = [["height", "float", "ValueError"]] ∧
    Gen.ShapeT.maybeFlattenOk = true := by decide

/-! ## closed, consistently oriented -/

/-- every directed edge occurs exactly once and its reverse exactly once (so every edge is used by exactly two
    faces, once in each direction); all indices valid, every vertex used; 12 / 8 faces — checked on the tables
    regenerated from the source -/
theorem closed_oriented :
    (∃ fs, applyPicks Gen.ShapeT.quadsToTrisPicks Gen.ShapeT.rectQuads = some fs ∧
      closedOriented fs = true ∧ indexesAll 8 fs = true ∧ fs.length = 12) ∧
    closedOriented Gen.ShapeT.triPrismFaces = true ∧ indexesAll 6 Gen.ShapeT.triPrismFaces = true ∧
    Gen.ShapeT.triPrismFaces.length = 8 := by
  refine ⟨⟨rectFaces, gen_quads_to_tris.1, ?_, ?_, ?_⟩, ?_, ?_, ?_⟩ <;> decide

/-- the same about the model's tables -/
theorem closed_oriented_model :
    closedOriented rectFaces = true ∧ closedOriented triFaces = true ∧ indexesAll 8 rectFaces = true ∧
    indexesAll 6 triFaces = true ∧ rectFaces.length = 12 ∧ triFaces.length = 8 := by decide

/-- what `closedOriented` means -/
theorem closed_oriented_iff (fs : List Tri) :
    closedOriented fs = true ↔
      ∀ e ∈ directedEdges fs, (directedEdges fs).count e = 1 ∧ (directedEdges fs).count (e.2, e.1) = 1 ∧ e.1 ≠ e.2 := by
  simp [closedOriented, and_assoc]

/-! ## rectangular prism: extent, volume, orientation -/

/-- 8 distinct vertices, `origin` and `origin + size` among them, every coordinate of every vertex is the
    minimum or the maximum along its axis: the prism spans exactly `origin … origin + size` -/
theorem rect_extent (o s : V3 K) (hx : 0 < s.x) (hy : 0 < s.y) (hz : 0 < s.z) :
    (rectVertices o s).length = 8 ∧ (rectVertices o s).Nodup ∧
    o ∈ rectVertices o s ∧ (o + s) ∈ rectVertices o s ∧
    ∀ v ∈ rectVertices o s, (v.x = o.x ∨ v.x = o.x + s.x) ∧ (v.y = o.y ∨ v.y = o.y + s.y) ∧
      (v.z = o.z ∨ v.z = o.z + s.z) := by
  have hx' := hx.ne'
  have hy' := hy.ne'
  have hz' := hz.ne'
  refine ⟨rfl, ?_, ?_, ?_, ?_⟩
  · simp [rectVertices, V3.ext_iff, hx', hy', hz']
  · simp [rectVertices]
  · simp [rectVertices, V3.ext_iff]
  · simp [rectVertices]

/-- hence the per-axis minimum is `origin` and the per-axis maximum `origin + size` -/
theorem rect_bounds (o s : V3 K) (hx : 0 < s.x) (hy : 0 < s.y) (hz : 0 < s.z) :
    ∀ v ∈ rectVertices o s, (o.x ≤ v.x ∧ v.x ≤ o.x + s.x) ∧ (o.y ≤ v.y ∧ v.y ≤ o.y + s.y) ∧
      (o.z ≤ v.z ∧ v.z ≤ o.z + s.z) := by
  intro v hv
  obtain ⟨h1, h2, h3⟩ := (rect_extent o s hx hy hz).2.2.2.2 v hv
  refine ⟨?_, ?_, ?_⟩
  · rcases h1 with h | h <;> rw [h] <;> constructor <;> linarith
  · rcases h2 with h | h <;> rw [h] <;> constructor <;> linarith
  · rcases h3 with h | h <;> rw [h] <;> constructor <;> linarith

/-- enclosed signed volume `Σ det / 6 = sx·sy·sz` (any sizes) -/
theorem rect_volume (o s : V3 K) :
    sixVolume (rectVertices o s) rectFaces = 6 * (s.x * s.y * s.z) := by
  simp [sixVolume, rectFaces, rectQuads, quadsToTris, rectVertices, det3, V3.dot_def]
  ring

/-- the area-weighted normals of the 12 faces -/
theorem rect_normals (o s : V3 K) :
    rectFaces.map (faceNormal (rectVertices o s)) =
      [⟨0, -(s.x * s.z), 0⟩, ⟨0, -(s.x * s.z), 0⟩, ⟨0, s.x * s.z, 0⟩, ⟨0, s.x * s.z, 0⟩,
       ⟨0, 0, -(s.x * s.y)⟩, ⟨0, 0, -(s.x * s.y)⟩, ⟨s.y * s.z, 0, 0⟩, ⟨s.y * s.z, 0, 0⟩,
       ⟨0, 0, s.x * s.y⟩, ⟨0, 0, s.x * s.y⟩, ⟨-(s.y * s.z), 0, 0⟩, ⟨-(s.y * s.z), 0, 0⟩] := by
  simp [rectFaces, rectQuads, quadsToTris, rectVertices, faceNormal, V3.ext_iff]
  split_ring

/-- the box centre -/
def rectCentre (o s : V3 K) : V3 K := o + V3.smul (1 / 2) s

/-- every face normal points away from the centre (positive sizes) -/
theorem rect_outward (o s : V3 K) (hx : 0 < s.x) (hy : 0 < s.y) (hz : 0 < s.z) :
    ∀ f ∈ rectFaces,
      0 < (faceNormal (rectVertices o s) f).dot (vget (rectVertices o s) f.1 - rectCentre o s) := by
  have key : ∀ f ∈ rectFaces,
      (faceNormal (rectVertices o s) f).dot (vget (rectVertices o s) f.1 - rectCentre o s)
        = s.x * s.y * s.z / 2 := by
    simp [rectFaces, rectQuads, quadsToTris, rectVertices, faceNormal, rectCentre, V3.dot_def]
    split_ring
  intro f hf
  rw [key f hf]
  positivity

/-! ## cube, flattening, argument validation -/

/-- `cube(origin, size)` is `rectangular_prism(origin, (size, size, size))` -/
theorem cube_eq_rect (origin : ArrArg K) (sz : K) (u : Bool) :
    cube origin (.float sz) u = rectPrism origin ⟨some [3], [sz, sz, sz]⟩ u := by
  unfold cube
  cases h : origin.asV3 <;> simp [PyNum.asFloat, rectPrism, h, bind, Except.bind]

theorem cube_vertices (o : V3 K) (sz : K) :
    cube ⟨some [3], [o.x, o.y, o.z]⟩ (.float sz) true = .ok (.indexed (rectVertices o ⟨sz, sz, sz⟩) rectFaces) := by
  rfl

/-- the flattened return value is `vertices[faces]` of the indexed one -/
theorem flatten_spec (vs : List (V3 K)) (fs : List Tri) :
    maybeFlatten vs fs false = .flat (flatten vs fs) ∧ maybeFlatten vs fs true = .indexed vs fs ∧
    flatten vs fs = fs.map fun f => (vget vs f.1, vget vs f.2.1, vget vs f.2.2) := ⟨rfl, rfl, rfl⟩

theorem rect_flat_of_indexed (o s : V3 K) :
    rectPrismV o s true = .indexed (rectVertices o s) rectFaces ∧
    rectPrismV o s false = .flat (flatten (rectVertices o s) rectFaces) := ⟨rfl, rfl⟩

/-- on arguments of the documented types the three functions are the validated-argument forms -/
theorem prism_args_ok [Sqrt K] (tol : K) (o s p1 p2 p3 : V3 K) (sz h : K) (u : Bool) :
    rectPrism ⟨some [3], [o.x, o.y, o.z]⟩ ⟨some [3], [s.x, s.y, s.z]⟩ u = .ok (rectPrismV o s u) ∧
    cube ⟨some [3], [o.x, o.y, o.z]⟩ (.float sz) u = .ok (rectPrismV o ⟨sz, sz, sz⟩ u) ∧
    triPrism tol ⟨some [3], [p1.x, p1.y, p1.z]⟩ ⟨some [3], [p2.x, p2.y, p2.z]⟩ ⟨some [3], [p3.x, p3.y, p3.z]⟩
      (.float h) u = triPrismV tol p1 p2 p3 h u := ⟨rfl, rfl, rfl⟩

/-- a non-float `size` is rejected with ValueError (whatever the other arguments) -/
theorem cube_rejects_non_float (origin : ArrArg K) (x : K) (u : Bool) :
    cube origin (.other x) u = .error .ValueError := by
  unfold cube ArrArg.asV3
  split <;> rfl

/-- errors of `rectangular_prism`: exactly when an argument is not an ndarray of shape (3,), and then ValueError -/
theorem rect_error_iff (origin size : ArrArg K) (u : Bool) :
    (∃ e, rectPrism origin size u = .error e) ↔ (¬ ∃ v, origin.asV3 = .ok v) ∨ (¬ ∃ v, size.asV3 = .ok v) := by
  unfold rectPrism
  cases h1 : origin.asV3 <;> cases h2 : size.asV3 <;> simp [bind, Except.bind, pure, Except.pure]

theorem as_v3_error (a : ArrArg K) (e : Err) (h : a.asV3 = .error e) : e = .ValueError := by
  unfold ArrArg.asV3 at h
  split at h
  · cases h
  · cases h; rfl

/-- a non-float `height` is rejected with ValueError (whatever the other arguments) -/
theorem tri_rejects_non_float [Sqrt K] (tol : K) (p1 p2 p3 : ArrArg K) (x : K) (u : Bool) :
    triPrism tol p1 p2 p3 (.other x) u = .error .ValueError := by
  unfold triPrism
  cases h1 : p1.asV3 with
  | error e => rw [as_v3_error p1 e h1]; rfl
  | ok a =>
    cases h2 : p2.asV3 with
    | error e => rw [as_v3_error p2 e h2]; rfl
    | ok b =>
      cases h3 : p3.asV3 with
      | error e => rw [as_v3_error p3 e h3]; rfl
      | ok c => rfl

end field

/-! ## triangular prism (general normal `n`: polynomial identities over any field) -/

section field2
variable {K : Type} [Field K] [LinearOrder K] [IsStrictOrderedRing K]

/-- cross product of the base triangle's edges (twice its area vector) -/
def baseCross (p1 p2 p3 : V3 K) : V3 K := V3.cross (p2 - p1) (p3 - p1)

/-- centroid of the prism: centroid of the base moved half way along `-n` -/
def triCentre (p1 p2 p3 n : V3 K) (h : K) : V3 K :=
  V3.smul (1 / 3) (p1 + p2 + p3) + V3.smul (h / 2) (-n)

/-- the first base is `(p1, p2, p3)`, the second is it shifted by `-h·n` -/
theorem tri_vertices_spec (p1 p2 p3 n : V3 K) (h : K) :
    triVertices p1 p2 p3 n h =
      [p1, p2, p3, p1 - V3.smul h n, p2 - V3.smul h n, p3 - V3.smul h n] := by
  simp [triVertices, V3.ext_iff]
  split_ring

/-- six times the enclosed signed volume is `6 · ((c·n)/2) · h` for any offset direction `n` -/
theorem tri_volume_general (p1 p2 p3 n : V3 K) (h : K) :
    sixVolume (triVertices p1 p2 p3 n h) triFaces = 6 * ((baseCross p1 p2 p3).dot n / 2 * h) := by
  simp [sixVolume, triFaces, triVertices, det3, V3.dot_def, baseCross]
  ring

/-- every face normal points away from the centroid as soon as `h > 0` and `n` is on the side of `c` -/
theorem tri_outward_general (p1 p2 p3 n : V3 K) (h : K) (hh : 0 < h) (hn : 0 < (baseCross p1 p2 p3).dot n) :
    ∀ f ∈ triFaces, 0 < (faceNormal (triVertices p1 p2 p3 n h) f).dot
      (vget (triVertices p1 p2 p3 n h) f.1 - triCentre p1 p2 p3 n h) := by
  have key : ∀ f ∈ triFaces, (faceNormal (triVertices p1 p2 p3 n h) f).dot
      (vget (triVertices p1 p2 p3 n h) f.1 - triCentre p1 p2 p3 n h)
      = (if f = (0, 1, 2) ∨ f = (5, 4, 3) then 1 / 2 else 1 / 3) * (h * (baseCross p1 p2 p3).dot n) := by
    simp [triFaces, triVertices, faceNormal, triCentre, V3.dot_def, baseCross]
    split_ring
  intro f hf
  rw [key f hf]
  split_ifs <;> positivity

/-- squared length of the two kinds of side-face normals for a unit `n` orthogonal to the edge `e` -/
theorem side_normSq (n e : V3 K) (h : K) (hnn : n.dot n = 1) (hne : n.dot e = 0) :
    V3.normSq (V3.cross (V3.smul h (-n)) (e + V3.smul h (-n))) = (h * h) * V3.normSq e ∧
    V3.normSq (V3.cross (e + V3.smul h (-n)) e) = (h * h) * V3.normSq e := by
  simp only [V3.normSq_def, V3.dot_def, V3.cross_x, V3.cross_y, V3.cross_z, V3.smul_x, V3.smul_y, V3.smul_z,
    V3.neg_x, V3.neg_y, V3.neg_z, V3.add_x, V3.add_y, V3.add_z] at *
  constructor
  · linear_combination (h * h * (e.x * e.x + e.y * e.y + e.z * e.z)) * hnn
      - (h * h * (n.x * e.x + n.y * e.y + n.z * e.z)) * hne
  · linear_combination (h * h * (e.x * e.x + e.y * e.y + e.z * e.z)) * hnn
      - (h * h * (n.x * e.x + n.y * e.y + n.z * e.z)) * hne

end field2

/-! ## over ℝ: the unit normal, base area, total area -/

open PW.RealNorm

/-- `Plane.from_points` succeeds on a non-collinear triangle and yields the unit normal `c/‖c‖` -/
theorem base_normal_ok (tol : ℝ) (htol : 0 ≤ tol) (p1 p2 p3 : V3 ℝ) (hc : baseCross p1 p2 p3 ≠ V3.zero) :
    basePlaneNormal tol p1 p2 p3 = .ok (V3.normalize (baseCross p1 p2 p3)) := by
  obtain ⟨hm, _, _, h1, _⟩ := unit_facts _ hc
  unfold basePlaneNormal
  simp only [baseCross] at hm h1 ⊢
  rw [if_pos hm]
  simp only [planeNormal, almostUnit, h1, absK]
  simp [htol]

/-- collinear base points (zero cross product) are rejected with ValueError -/
theorem tri_collinear_rejected (tol : ℝ) (p1 p2 p3 : V3 ℝ) (h : ℝ) (u : Bool)
    (hc : baseCross p1 p2 p3 = V3.zero) : triPrismV tol p1 p2 p3 h u = .error .ValueError := by
  unfold triPrismV basePlaneNormal
  simp only [baseCross] at hc
  rw [hc]
  have : ¬ (0 : ℝ) < V3.norm (V3.zero : V3 ℝ) := by
    rw [norm_real]; simp [V3.zero]
  simp [this, bind, Except.bind]

/-- **tri_prism_spec**: for a non-collinear base the prism has 6 vertices — the given triangle and its copy
    shifted by `-height · n̂`, `n̂` the unit counter-clockwise normal — and the 8 faces of the table -/
theorem tri_prism_spec (tol : ℝ) (htol : 0 ≤ tol) (p1 p2 p3 : V3 ℝ) (h : ℝ) (u : Bool)
    (hc : baseCross p1 p2 p3 ≠ V3.zero) :
    ∃ n : V3 ℝ, n.dot n = 1 ∧ 0 < V3.norm (baseCross p1 p2 p3) ∧
      baseCross p1 p2 p3 = V3.smul (V3.norm (baseCross p1 p2 p3)) n ∧
      triPrismV tol p1 p2 p3 h u = .ok (maybeFlatten
        [p1, p2, p3, p1 - V3.smul h n, p2 - V3.smul h n, p3 - V3.smul h n] triFaces u) := by
  obtain ⟨hm, h1, _, _, h5⟩ := unit_facts _ hc
  refine ⟨V3.normalize (baseCross p1 p2 p3), h1, hm, h5, ?_⟩
  unfold triPrismV
  rw [base_normal_ok tol htol p1 p2 p3 hc, ← tri_vertices_spec]
  rfl

/-- **tri_volume**: enclosed signed volume = base area × height (base area = `‖c‖/2`) -/
theorem tri_volume (tol : ℝ) (htol : 0 ≤ tol) (p1 p2 p3 : V3 ℝ) (h : ℝ)
    (hc : baseCross p1 p2 p3 ≠ V3.zero) :
    ∃ vs, triPrismV tol p1 p2 p3 h true = .ok (.indexed vs triFaces) ∧
      sixVolume vs triFaces = 6 * (V3.norm (baseCross p1 p2 p3) / 2 * h) := by
  obtain ⟨_, _, h3, _, _⟩ := unit_facts _ hc
  refine ⟨triVertices p1 p2 p3 (V3.normalize (baseCross p1 p2 p3)) h, ?_, ?_⟩
  · unfold triPrismV
    rw [base_normal_ok tol htol p1 p2 p3 hc]
    rfl
  · rw [tri_volume_general, h3]

/-- **tri_outward**: with a positive height every face normal points away from the prism's centroid; in
    particular the given triangle, counter-clockwise, faces away from the body: the prism extends behind it -/
theorem tri_outward (tol : ℝ) (htol : 0 ≤ tol) (p1 p2 p3 : V3 ℝ) (h : ℝ) (hh : 0 < h)
    (hc : baseCross p1 p2 p3 ≠ V3.zero) :
    ∃ vs n, triPrismV tol p1 p2 p3 h true = .ok (.indexed vs triFaces) ∧
      ∀ f ∈ triFaces, 0 < (faceNormal vs f).dot (vget vs f.1 - triCentre p1 p2 p3 n h) := by
  obtain ⟨hm, _, h3, _, _⟩ := unit_facts _ hc
  refine ⟨triVertices p1 p2 p3 (V3.normalize (baseCross p1 p2 p3)) h, V3.normalize (baseCross p1 p2 p3), ?_, ?_⟩
  · unfold triPrismV
    rw [base_normal_ok tol htol p1 p2 p3 hc]
    rfl
  · exact tri_outward_general p1 p2 p3 _ h hh (by rw [h3]; exact hm)

/-! ### areas -/

theorem norm_axis_x (a : ℝ) : V3.norm (⟨a, 0, 0⟩ : V3 ℝ) = |a| := by
  rw [norm_real]; simp [Real.sqrt_mul_self_eq_abs]
theorem norm_axis_y (a : ℝ) : V3.norm (⟨0, a, 0⟩ : V3 ℝ) = |a| := by
  rw [norm_real]; simp [Real.sqrt_mul_self_eq_abs]
theorem norm_axis_z (a : ℝ) : V3.norm (⟨0, 0, a⟩ : V3 ℝ) = |a| := by
  rw [norm_real]; simp [Real.sqrt_mul_self_eq_abs]

theorem two_total_area_map (vs : List (V3 ℝ)) (fs : List Tri) :
    twoTotalArea vs fs = ((fs.map (faceNormal vs)).map V3.norm).sum := by
  unfold twoTotalArea twoArea
  induction fs with
  | nil => rfl
  | cons f fs ih => simp [List.foldr, ih]

/-- **rect_area**: total area (twice it, as a sum of cross-product lengths) = `2(sx·sy + sy·sz + sx·sz)` -/
theorem rect_area (o s : V3 ℝ) (hx : 0 < s.x) (hy : 0 < s.y) (hz : 0 < s.z) :
    twoTotalArea (rectVertices o s) rectFaces = 2 * (2 * (s.x * s.y + s.y * s.z + s.x * s.z)) := by
  rw [two_total_area_map, rect_normals]
  have h1 : |s.x * s.z| = s.x * s.z := abs_of_pos (by positivity)
  have h2 : |s.x * s.y| = s.x * s.y := abs_of_pos (by positivity)
  have h3 : |s.y * s.z| = s.y * s.z := abs_of_pos (by positivity)
  simp only [List.map, List.sum_cons, List.sum_nil, norm_axis_x, norm_axis_y, norm_axis_z, abs_neg, h1, h2, h3]
  ring

theorem norm_of_normSq (v e : V3 ℝ) (h : ℝ) (hh : 0 ≤ h) (H : V3.normSq v = (h * h) * V3.normSq e) :
    V3.norm v = h * V3.norm e := by
  show Real.sqrt (V3.normSq v) = h * Real.sqrt (V3.normSq e)
  rw [H, Real.sqrt_mul (mul_self_nonneg h), Real.sqrt_mul_self hh]

/-- the area-weighted normals of the 8 faces of the triangular prism -/
theorem tri_normals {K : Type} [Field K] (p1 p2 p3 n : V3 K) (h : K) :
    triFaces.map (faceNormal (triVertices p1 p2 p3 n h)) =
      [baseCross p1 p2 p3,
       V3.cross (V3.smul h (-n)) ((p2 - p1) + V3.smul h (-n)), V3.cross ((p2 - p1) + V3.smul h (-n)) (p2 - p1),
       V3.cross (V3.smul h (-n)) ((p3 - p2) + V3.smul h (-n)), V3.cross ((p3 - p2) + V3.smul h (-n)) (p3 - p2),
       V3.cross (V3.smul h (-n)) ((p1 - p3) + V3.smul h (-n)), V3.cross ((p1 - p3) + V3.smul h (-n)) (p1 - p3),
       V3.cross (p2 - p3) (p1 - p3)] := by
  simp [triFaces, triVertices, faceNormal, baseCross, V3.ext_iff]
  split_ring

/-- **tri_area**: total area = 2 · base area + height · perimeter (stated for twice the area; `h ≥ 0`) -/
theorem tri_area (tol : ℝ) (htol : 0 ≤ tol) (p1 p2 p3 : V3 ℝ) (h : ℝ) (hh : 0 ≤ h)
    (hc : baseCross p1 p2 p3 ≠ V3.zero) :
    ∃ vs, triPrismV tol p1 p2 p3 h true = .ok (.indexed vs triFaces) ∧
      twoTotalArea vs triFaces = 2 * V3.norm (baseCross p1 p2 p3) +
        2 * (h * (V3.norm (p2 - p1) + V3.norm (p3 - p2) + V3.norm (p1 - p3))) := by
  obtain ⟨hm, h1, _, _, h5⟩ := unit_facts _ hc
  set n := V3.normalize (baseCross p1 p2 p3) with hn
  refine ⟨triVertices p1 p2 p3 n h, ?_, ?_⟩
  · unfold triPrismV
    rw [base_normal_ok tol htol p1 p2 p3 hc]
    rfl
  · -- n is orthogonal to the three edges
    have hx := congrArg V3.x h5
    have hy := congrArg V3.y h5
    have hz := congrArg V3.z h5
    simp only [V3.smul_x, V3.smul_y, V3.smul_z] at hx hy hz
    have hne := hm.ne'
    have o12 : n.dot (p2 - p1) = 0 := by
      have : V3.norm (baseCross p1 p2 p3) * n.dot (p2 - p1) = 0 := by
        simp only [V3.dot_def]
        have e : V3.norm (baseCross p1 p2 p3) * (n.x * (p2 - p1).x + n.y * (p2 - p1).y + n.z * (p2 - p1).z)
            = (baseCross p1 p2 p3).x * (p2 - p1).x + (baseCross p1 p2 p3).y * (p2 - p1).y
              + (baseCross p1 p2 p3).z * (p2 - p1).z := by rw [hx, hy, hz]; ring
        rw [e]; simp [baseCross]; ring
      exact (mul_eq_zero.mp this).resolve_left hne
    have o13 : n.dot (p3 - p1) = 0 := by
      have : V3.norm (baseCross p1 p2 p3) * n.dot (p3 - p1) = 0 := by
        simp only [V3.dot_def]
        have e : V3.norm (baseCross p1 p2 p3) * (n.x * (p3 - p1).x + n.y * (p3 - p1).y + n.z * (p3 - p1).z)
            = (baseCross p1 p2 p3).x * (p3 - p1).x + (baseCross p1 p2 p3).y * (p3 - p1).y
              + (baseCross p1 p2 p3).z * (p3 - p1).z := by rw [hx, hy, hz]; ring
        rw [e]; simp [baseCross]; ring
      exact (mul_eq_zero.mp this).resolve_left hne
    have o23 : n.dot (p3 - p2) = 0 := by
      simp only [V3.dot_def, V3.sub_x, V3.sub_y, V3.sub_z] at o12 o13 ⊢; linarith
    have o31 : n.dot (p1 - p3) = 0 := by
      simp only [V3.dot_def, V3.sub_x, V3.sub_y, V3.sub_z] at o12 o13 ⊢; linarith
    have a12 := side_normSq n (p2 - p1) h h1 o12
    have a23 := side_normSq n (p3 - p2) h h1 o23
    have a31 := side_normSq n (p1 - p3) h h1 o31
    have top : V3.norm (V3.cross (p2 - p3) (p1 - p3)) = V3.norm (baseCross p1 p2 p3) := by
      show Real.sqrt _ = Real.sqrt _
      congr 1
      simp [V3.normSq_def, V3.dot_def, baseCross]; ring
    rw [two_total_area_map, tri_normals]
    simp only [List.map, List.sum_cons, List.sum_nil, top,
      norm_of_normSq _ _ h hh a12.1, norm_of_normSq _ _ h hh a12.2,
      norm_of_normSq _ _ h hh a23.1, norm_of_normSq _ _ h hh a23.2,
      norm_of_normSq _ _ h hh a31.1, norm_of_normSq _ _ h hh a31.2]
    ring

/-! ## non-vacuity -/

example : (0 : ℚ) < (⟨1, 2, 3⟩ : V3 ℚ).x ∧ sixVolume (rectVertices (⟨0, 0, 0⟩ : V3 ℚ) ⟨1, 2, 3⟩) rectFaces = 36 := by
  decide +kernel

example : baseCross (⟨0, 0, 0⟩ : V3 ℝ) ⟨1, 0, 0⟩ ⟨0, 1, 0⟩ ≠ V3.zero := by
  intro h
  have := congrArg V3.z h
  simp [baseCross, V3.zero] at this

end PW.C16
