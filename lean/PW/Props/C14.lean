/-
  C14 — plane–segment and plane–line intersection routines agree on the crossing point.

  Property theorems only (helper lemmas live in PW/Lemmas/PlaneXsect.lean).  Every theorem is over an arbitrary
  linearly ordered field `K` (hence ℚ and ℝ at once).  `d p = pl.signedDistance p = (p − ref)·n`; no theorem needs
  the normal to have unit length (the crossing point does not depend on the scaling of the normal).

  Python ↔ model: see PW/Model/PlaneXsect.lean.  `none` stands for `None` (single forms), for a NaN row flagged
  invalid (stacked forms of the Plane methods), for a NaN row (`intersect_segment_with_plane`, and the rows of
  `Polyline.intersect_plane`); "no entry" is absence from the list `Polyline.intersectPlane` returns.
-/
import PW.Model.PlaneXsect
import PW.Gen.Xsect
import PW.Lemmas.Vec
import PW.Lemmas.PlaneXsect
import Mathlib.Tactic.Ring
import Mathlib.Tactic.LinearCombination
import Mathlib.Tactic.Linarith
import Mathlib.Tactic.FieldSimp
import Mathlib.Tactic.Tauto
import Mathlib.Algebra.Order.Field.Basic

set_option linter.unusedSectionVars false

namespace PW.C14

variable {K : Type} [Field K] [LinearOrder K] [IsStrictOrderedRing K]

open Plane Xsect XsectLemmas

/-- end points strictly on opposite sides -/
abbrev Opposite (da db : K) : Prop := (da < 0 ∧ 0 < db) ∨ (0 < da ∧ db < 0)
/-- end points strictly on the same side -/
abbrev SameSide (da db : K) : Prop := (0 < da ∧ 0 < db) ∨ (da < 0 ∧ db < 0)

/-- the closed form all four routines are compared with: `a + (d_a / (d_a − d_b)) (b − a)` -/
def crossing (pl : Plane K) (a b : V3 K) : V3 K :=
  a + V3.smul (pl.signedDistance a / (pl.signedDistance a - pl.signedDistance b)) (b - a)

/-! ## the coordinate-wise bounds test -/

/-- For `b ≠ a` the coordinate-wise out-of-bounds test of `line_segment_xsection(s)` applied to the point
    `p (b − a) + a` of the carrying line rejects iff the line parameter is outside `[0,1]`.  Coordinates in which
    `a` and `b` agree (axis-parallel segments) never trigger it: there `pt_c = a_c = b_c`. -/
theorem bounds_iff_param (a b : V3 K) (p : K) (h : a ≠ b) :
    outOfBounds (V3.smul p (b - a) + a) a b = true ↔ (p < 0 ∨ 1 < p) := by
  rw [outOfBounds_iff]
  simp only [V3.add_x, V3.add_y, V3.add_z, V3.smul_x, V3.smul_y, V3.smul_z, V3.sub_x, V3.sub_y, V3.sub_z]
  rw [coord_gt, coord_gt, coord_gt, coord_lt, coord_lt, coord_lt]
  have hne := exists_coord_ne h
  constructor
  · rintro ((hc | hc | hc) | (hc | hc | hc))
    · exact coord_imp _ _ (Or.inl hc)
    · exact coord_imp _ _ (Or.inl hc)
    · exact coord_imp _ _ (Or.inl hc)
    · exact coord_imp _ _ (Or.inr hc)
    · exact coord_imp _ _ (Or.inr hc)
    · exact coord_imp _ _ (Or.inr hc)
  · intro hp
    rcases hne with hx | hy | hz
    · rcases coord_cases p _ hx hp with hc | hc
      · exact Or.inl (Or.inl hc)
      · exact Or.inr (Or.inl hc)
    · rcases coord_cases p _ hy hp with hc | hc
      · exact Or.inl (Or.inr (Or.inl hc))
      · exact Or.inr (Or.inr (Or.inl hc))
    · rcases coord_cases p _ hz hp with hc | hc
      · exact Or.inl (Or.inr (Or.inr hc))
      · exact Or.inr (Or.inr (Or.inr hc))

/-- a degenerate segment (`a = b`) is never out of bounds — it is rejected earlier, by `denom == 0`. -/
theorem bounds_degenerate (a : V3 K) (p : K) : outOfBounds (V3.smul p (a - a) + a) a a = false := by
  unfold Xsect.outOfBounds
  simp

/-! ## `line_xsection` -/

theorem lineXsection_of_ne (pl : Plane K) (pt ray : V3 K) (h : ray.dot pl.n ≠ 0) :
    pl.lineXsection pt ray = some (V3.smul ((pl.ref - pt).dot pl.n / ray.dot pl.n) ray + pt) := by
  simp only [lineXsection, beq_iff_eq, if_neg h]

/-- `line_xsection`: for a line not parallel to the plane the result is the unique point of the line
    `{s·ray + pt}` on the plane; for a parallel line (`ray·n = 0`, which includes the zero ray) it is `None`. -/
theorem line_xsection_spec (pl : Plane K) (pt ray : V3 K) :
    (ray.dot pl.n ≠ 0 →
      ∃ s, pl.lineXsection pt ray = some (V3.smul s ray + pt) ∧
        pl.signedDistance (V3.smul s ray + pt) = 0 ∧
        ∀ s', pl.signedDistance (V3.smul s' ray + pt) = 0 → s' = s) ∧
    (ray.dot pl.n = 0 → pl.lineXsection pt ray = none) := by
  constructor
  · intro h
    refine ⟨(pl.ref - pt).dot pl.n / ray.dot pl.n, lineXsection_of_ne pl pt ray h, ?_, ?_⟩
    · rw [sd_line, num_eq, div_mul_cancel₀ _ h]; ring
    · intro s' hs'
      rw [sd_line] at hs'
      rw [num_eq, eq_div_iff h]
      linarith
  · intro h
    simp only [lineXsection, beq_iff_eq, if_pos h]

/-- a line parallel to the plane has constant signed distance: it lies in the plane or misses it — either way
    there is no *unique* intersection point, which is what `None` reports. -/
theorem parallel_line_constant (pl : Plane K) (pt ray : V3 K) (h : ray.dot pl.n = 0) (s : K) :
    pl.signedDistance (V3.smul s ray + pt) = pl.signedDistance pt := by
  rw [sd_line, h]; ring

/-! ## the segment routines in terms of the parameter `d_a / (d_a − d_b)` -/

theorem lineSegmentXsection_of_ne (pl : Plane K) (a b : V3 K)
    (hne : pl.signedDistance a ≠ pl.signedDistance b) :
    pl.lineSegmentXsection a b =
      (let P := V3.smul (pl.signedDistance a / (pl.signedDistance a - pl.signedDistance b)) (b - a) + a
       if outOfBounds P a b then none else some P) := by
  have hden : (b - a).dot pl.n ≠ 0 := by rw [denom_eq]; exact sub_ne_zero.mpr hne.symm
  unfold lineSegmentXsection
  rw [lineXsection_of_ne pl a (b - a) hden, num_eq, denom_eq, param_eq]

theorem lineSegmentXsection_parallel (pl : Plane K) (a b : V3 K)
    (h : pl.signedDistance a = pl.signedDistance b) : pl.lineSegmentXsection a b = none := by
  have hden : (b - a).dot pl.n = 0 := by rw [denom_eq, h]; ring
  simp only [lineSegmentXsection, lineXsection, beq_iff_eq, if_pos hden]

theorem isp_of_ne (pl : Plane K) (big : K) (a b : V3 K) (hne : pl.signedDistance a ≠ pl.signedDistance b) :
    intersectSegmentWithPlane big a (b - a) pl.ref pl.n =
      segmentRow (pl.signedDistance a / (pl.signedDistance a - pl.signedDistance b)) a (b - a) := by
  have hden : pl.signedDistance b - pl.signedDistance a ≠ 0 := sub_ne_zero.mpr hne.symm
  simp only [intersectSegmentWithPlane, nanToNumDiv, denom_eq, sd_ref, zero_sub, beq_iff_eq, if_neg hden, param_eq]

/-- `nan_to_num(±inf) = ±big` fails the range test whatever the sign of the infinity (i.e. of the zero
    denominator, which the model does not track). -/
theorem inf_sign_irrelevant (big : K) (hbig : 1 < big) (s v : V3 K) :
    segmentRow big s v = none ∧ segmentRow (-big) s v = none := by
  constructor
  · have h0 : ¬ big < 0 := by intro h; linarith
    simp only [segmentRow, if_neg h0, if_pos hbig]
  · have h0 : -big < 0 := by linarith
    simp only [segmentRow, if_pos h0]

/-- parallel segment off the plane: `x/0 = ±inf ↦ ±big`, row set to NaN. -/
theorem isp_parallel_off (pl : Plane K) (big : K) (hbig : 1 < big) (a b : V3 K)
    (h : pl.signedDistance a = pl.signedDistance b) (h0 : pl.signedDistance a ≠ 0) :
    intersectSegmentWithPlane big a (b - a) pl.ref pl.n = none := by
  have hden : pl.signedDistance b - pl.signedDistance a = 0 := by rw [h]; ring
  have hnum : - pl.signedDistance a ≠ 0 := neg_ne_zero.mpr h0
  simp only [intersectSegmentWithPlane, nanToNumDiv, denom_eq, sd_ref, zero_sub, beq_iff_eq, if_pos hden, if_neg hnum]
  split_ifs
  · exact (inf_sign_irrelevant big hbig a (b - a)).1
  · exact (inf_sign_irrelevant big hbig a (b - a)).2

/-- parallel segment in the plane (both end points on it, including `a = b` on the plane):
    `0/0 = nan ↦ 0.0`, so `intersect_segment_with_plane` returns the start point. -/
theorem isp_both_on_plane (pl : Plane K) (big : K) (a b : V3 K)
    (ha : pl.signedDistance a = 0) (hb : pl.signedDistance b = 0) :
    intersectSegmentWithPlane big a (b - a) pl.ref pl.n = some a := by
  have hden : pl.signedDistance b - pl.signedDistance a = 0 := by rw [ha, hb]; ring
  have hnum : - pl.signedDistance a = 0 := by rw [ha]; ring
  have h0 : ¬ (0 : K) < 0 := lt_irrefl 0
  have h1 : ¬ (1 : K) < 0 := by intro h; linarith [zero_lt_one (α := K)]
  simp only [intersectSegmentWithPlane, nanToNumDiv, denom_eq, sd_ref, zero_sub, beq_iff_eq, if_pos hden, if_pos hnum,
    segmentRow, if_neg h0, if_neg h1]
  congr 1
  ext <;> simp

/-! ## one edge of `Polyline.intersect_plane` -/

theorem edge_opposite {da db : K} (h : Opposite da db) (a b : V3 K) :
    edgeSelected da db = true ∧
    edgePoint da db a b = some (a + V3.smul (da / (da - db)) (b - a)) := by
  rcases h with ⟨ha, hb⟩ | ⟨ha, hb⟩
  · refine ⟨by simp [edgeSelected, sgn_neg ha, sgn_pos hb], ?_⟩
    have hs : -da + db ≠ 0 := by intro hc; linarith
    have hd : da - db ≠ 0 := by intro hc; linarith
    have hb' : ¬ db < 0 := not_lt.mpr hb.le
    simp only [edgePoint, absK, if_pos ha, if_neg hb', beq_iff_eq, if_neg hs]
    congr 1
    ext <;> simp only [V3.add_x, V3.add_y, V3.add_z, V3.smul_x, V3.smul_y, V3.smul_z, V3.sub_x, V3.sub_y,
      V3.sub_z] <;> field_simp <;> ring
  · refine ⟨by simp [edgeSelected, sgn_neg hb, sgn_pos ha], ?_⟩
    have hs : da + -db ≠ 0 := by intro hc; linarith
    have hd : da - db ≠ 0 := by intro hc; linarith
    have ha' : ¬ da < 0 := not_lt.mpr ha.le
    simp only [edgePoint, absK, if_neg ha', if_pos hb, beq_iff_eq, if_neg hs]
    congr 1
    ext <;> simp only [V3.add_x, V3.add_y, V3.add_z, V3.smul_x, V3.smul_y, V3.smul_z, V3.sub_x, V3.sub_y,
      V3.sub_z] <;> field_simp <;> ring

theorem edge_same_side {da db : K} (h : SameSide da db) : edgeSelected da db = false := by
  rcases h with ⟨ha, hb⟩ | ⟨ha, hb⟩
  · simp [edgeSelected, sgn_pos ha, sgn_pos hb]
  · simp [edgeSelected, sgn_neg ha, sgn_neg hb]

/-- the case the code's TODO is about, exactly one end point on the plane: the edge *is* selected and its row
    is that end point (so a vertex on the plane between two off-plane neighbours is reported once per incident
    edge, i.e. twice, also when the polyline only touches the plane there). -/
theorem edge_start_on_plane {db : K} (hb : db ≠ 0) (a b : V3 K) :
    edgeSelected 0 db = true ∧ edgePoint 0 db a b = some a := by
  have h0 : ¬ (0 : K) < 0 := lt_irrefl 0
  rcases lt_or_gt_of_ne hb with hb' | hb'
  · refine ⟨by simp [edgeSelected, sgn_neg hb', sgn_zero], ?_⟩
    have hs : (0 : K) + -db ≠ 0 := by intro hc; linarith
    simp only [edgePoint, absK, if_neg h0, if_pos hb', beq_iff_eq, if_neg hs]
    congr 1
    ext <;> simp only [V3.add_x, V3.add_y, V3.add_z, V3.smul_x, V3.smul_y, V3.smul_z] <;> field_simp <;> ring
  · refine ⟨by simp [edgeSelected, sgn_pos hb', sgn_zero], ?_⟩
    have hs : (0 : K) + db ≠ 0 := by intro hc; linarith
    have hb'' : ¬ db < 0 := not_lt.mpr hb'.le
    simp only [edgePoint, absK, if_neg h0, if_neg hb'', beq_iff_eq, if_neg hs]
    congr 1
    ext <;> simp only [V3.add_x, V3.add_y, V3.add_z, V3.smul_x, V3.smul_y, V3.smul_z] <;> field_simp <;> ring

theorem edge_end_on_plane {da : K} (ha : da ≠ 0) (a b : V3 K) :
    edgeSelected da 0 = true ∧ edgePoint da 0 a b = some b := by
  have h0 : ¬ (0 : K) < 0 := lt_irrefl 0
  rcases lt_or_gt_of_ne ha with ha' | ha'
  · refine ⟨by simp [edgeSelected, sgn_neg ha', sgn_zero], ?_⟩
    have hs : -da + (0 : K) ≠ 0 := by intro hc; linarith
    simp only [edgePoint, absK, if_neg h0, if_pos ha', beq_iff_eq, if_neg hs]
    congr 1
    ext <;> simp only [V3.add_x, V3.add_y, V3.add_z, V3.smul_x, V3.smul_y, V3.smul_z] <;> field_simp <;> ring
  · refine ⟨by simp [edgeSelected, sgn_pos ha', sgn_zero], ?_⟩
    have hs : da + (0 : K) ≠ 0 := by intro hc; linarith
    have ha'' : ¬ da < 0 := not_lt.mpr ha'.le
    simp only [edgePoint, absK, if_neg h0, if_neg ha'', beq_iff_eq, if_neg hs]
    congr 1
    ext <;> simp only [V3.add_x, V3.add_y, V3.add_z, V3.smul_x, V3.smul_y, V3.smul_z] <;> field_simp <;> ring

/-- both end points on the plane: the edge is selected and its row is NaN (`0/0`). -/
theorem edge_both_on_plane (a b : V3 K) :
    edgeSelected (0 : K) 0 = true ∧ edgePoint (0 : K) 0 a b = none := by
  refine ⟨by simp [edgeSelected, sgn_zero], ?_⟩
  simp [edgePoint, absK]

/-! ## `Polyline.intersect_plane` as a whole -/

/-- the index `i` under which an entry is reported is the row of `self.e`: segment `i` joins `v[e[i][0]]` and
    `v[e[i][1]]`. -/
theorem segment_index_is_edge_index (p : Polyline K) (i : Nat) (a b : V3 K) :
    p.segments[i]? = some (a, b) ↔
      ∃ j k, p.edges[i]? = some (j, k) ∧ p.v[j]? = some a ∧ p.v[k]? = some b :=
  segments_getElem p i a b

/-- exactly the selected edges are reported, each with its own row … -/
theorem intersect_plane_mem_iff (p : Polyline K) (pl : Plane K) (i : Nat) (r : Option (V3 K)) :
    (i, r) ∈ p.intersectPlane pl ↔
      ∃ a b, p.segments[i]? = some (a, b) ∧
        edgeSelected (pl.signedDistance a) (pl.signedDistance b) = true ∧
        r = edgePoint (pl.signedDistance a) (pl.signedDistance b) a b := by
  unfold Polyline.intersectPlane
  rw [mem_intersectPlaneFrom]
  constructor
  · rintro ⟨k, a, b, hk, hj, hs, hr⟩
    have : i = k := by omega
    subst this
    exact ⟨a, b, hk, hs, hr⟩
  · rintro ⟨a, b, hk, hs, hr⟩
    exact ⟨i, a, b, hk, by omega, hs, hr⟩

/-- … in ascending order of edge index, hence at most one entry per edge. -/
theorem intersect_plane_indices_ascending (p : Polyline K) (pl : Plane K) :
    (p.intersectPlane pl).Pairwise (fun e f => e.1 < f.1) :=
  intersectPlaneFrom_sorted pl p.segments 0

theorem intersect_plane_one_entry_per_edge (p : Polyline K) (pl : Plane K) (i : Nat) (r r' : Option (V3 K))
    (h : (i, r) ∈ p.intersectPlane pl) (h' : (i, r') ∈ p.intersectPlane pl) : r = r' := by
  obtain ⟨a, b, hk, _, hr⟩ := (intersect_plane_mem_iff p pl i r).mp h
  obtain ⟨a', b', hk', _, hr'⟩ := (intersect_plane_mem_iff p pl i r').mp h'
  rw [hk] at hk'
  simp only [Option.some.injEq, Prod.mk.injEq] at hk'
  obtain ⟨rfl, rfl⟩ := hk'
  rw [hr, hr']

/-! ## the crossing point -/

theorem opposite_ne {da db : K} (h : Opposite da db) : da ≠ db := by
  rcases h with ⟨ha, hb⟩ | ⟨ha, hb⟩ <;> intro hc <;> linarith

/-- the closed form lies on the plane, strictly inside the segment, and is the only point of the carrying
    line (a fortiori of the segment) with signed distance 0. -/
theorem crossing_unique (pl : Plane K) (a b : V3 K)
    (h : Opposite (pl.signedDistance a) (pl.signedDistance b)) :
    pl.signedDistance (crossing pl a b) = 0 ∧
    (∃ t, 0 < t ∧ t < 1 ∧ crossing pl a b = a + V3.smul t (b - a)) ∧
    (∀ t, pl.signedDistance (a + V3.smul t (b - a)) = 0 → a + V3.smul t (b - a) = crossing pl a b) := by
  have hne := opposite_ne h
  have hd : pl.signedDistance a - pl.signedDistance b ≠ 0 := sub_ne_zero.mpr hne
  refine ⟨?_, ⟨_, (param_pos_lt_one h).1, (param_pos_lt_one h).2, rfl⟩, ?_⟩
  · unfold crossing
    rw [sd_segment]
    field_simp
    ring
  · intro t ht
    rw [sd_segment] at ht
    have : t = pl.signedDistance a / (pl.signedDistance a - pl.signedDistance b) := by
      rw [eq_div_iff hd]; linarith
    rw [this]; rfl

/-! ## C14: the four routines agree -/

theorem segment_agree (pl : Plane K) (a b : V3 K)
    (h : Opposite (pl.signedDistance a) (pl.signedDistance b)) :
    pl.lineSegmentXsection a b = some (crossing pl a b) := by
  have hne := opposite_ne h
  have hab := ne_of_sd_ne pl hne
  rw [lineSegmentXsection_of_ne pl a b hne]
  have hp := param_pos_lt_one h
  have hoob : outOfBounds (V3.smul (pl.signedDistance a / (pl.signedDistance a - pl.signedDistance b)) (b - a) + a) a b
      = false := by
    rw [Bool.eq_false_iff]
    intro hc
    rw [bounds_iff_param _ _ _ hab] at hc
    rcases hc with hc | hc <;> linarith
  simp only [hoob, Bool.false_eq_true, if_false]
  congr 1
  unfold crossing
  ext <;> simp only [V3.add_x, V3.add_y, V3.add_z] <;> ring

theorem isp_agree (pl : Plane K) (big : K) (a b : V3 K)
    (h : Opposite (pl.signedDistance a) (pl.signedDistance b)) :
    intersectSegmentWithPlane big a (b - a) pl.ref pl.n = some (crossing pl a b) := by
  rw [isp_of_ne pl big a b (opposite_ne h)]
  have hp := param_pos_lt_one h
  simp only [segmentRow, if_neg (not_lt.mpr hp.1.le), if_neg (not_lt.mpr hp.2.le)]
  rfl

/-- **C14, opposite sides.** For an edge `(a, b)` (edge number `i`) of a polyline whose end points lie strictly
    on opposite sides of the plane, `line_segment_xsection`, `intersect_segment_with_plane` and
    `Polyline.intersect_plane` all return the same point `a + (d_a/(d_a − d_b))(b − a)`; the polyline reports it
    under the edge's own index, once; and that point is the unique point of the segment at signed distance 0.
    (`line_segment_xsections` is `map` of the single form: `stacked_segments_rowwise`; edge indices ascending:
    `intersect_plane_indices_ascending`.) -/
theorem C14_agree (p : Polyline K) (pl : Plane K) (big : K) (i : Nat) (a b : V3 K)
    (hseg : p.segments[i]? = some (a, b))
    (h : Opposite (pl.signedDistance a) (pl.signedDistance b)) :
    pl.lineSegmentXsection a b = some (crossing pl a b) ∧
    intersectSegmentWithPlane big a (b - a) pl.ref pl.n = some (crossing pl a b) ∧
    (i, some (crossing pl a b)) ∈ p.intersectPlane pl ∧
    (∀ r, (i, r) ∈ p.intersectPlane pl → r = some (crossing pl a b)) ∧
    pl.signedDistance (crossing pl a b) = 0 ∧
    (∃ t, 0 < t ∧ t < 1 ∧ crossing pl a b = a + V3.smul t (b - a)) ∧
    (∀ t, pl.signedDistance (a + V3.smul t (b - a)) = 0 → a + V3.smul t (b - a) = crossing pl a b) := by
  have he := edge_opposite h a b
  have hmem : (i, some (crossing pl a b)) ∈ p.intersectPlane pl :=
    (intersect_plane_mem_iff p pl i _).mpr ⟨a, b, hseg, he.1, he.2.symm⟩
  obtain ⟨h1, h2, h3⟩ := crossing_unique pl a b h
  exact ⟨segment_agree pl a b h, isp_agree pl big a b h, hmem,
    fun r hr => intersect_plane_one_entry_per_edge p pl i r _ hr hmem, h1, h2, h3⟩

/-- **C14, same side.** End points strictly on the same side: `None` / NaN row / no entry. -/
theorem C14_same_side (p : Polyline K) (pl : Plane K) (big : K) (hbig : 1 < big) (i : Nat) (a b : V3 K)
    (hseg : p.segments[i]? = some (a, b))
    (h : SameSide (pl.signedDistance a) (pl.signedDistance b)) :
    pl.lineSegmentXsection a b = none ∧
    intersectSegmentWithPlane big a (b - a) pl.ref pl.n = none ∧
    (∀ r, (i, r) ∉ p.intersectPlane pl) := by
  have h0 : pl.signedDistance a ≠ 0 := by
    rcases h with ⟨ha, _⟩ | ⟨ha, _⟩
    · exact ne_of_gt ha
    · exact ne_of_lt ha
  refine ⟨?_, ?_, ?_⟩
  · by_cases hne : pl.signedDistance a = pl.signedDistance b
    · exact lineSegmentXsection_parallel pl a b hne
    · rw [lineSegmentXsection_of_ne pl a b hne]
      have hoob := (bounds_iff_param a b _ (ne_of_sd_ne pl hne)).mpr (param_outside h hne)
      simp only [hoob, if_true]
  · by_cases hne : pl.signedDistance a = pl.signedDistance b
    · exact isp_parallel_off pl big hbig a b hne h0
    · rw [isp_of_ne pl big a b hne]
      rcases param_outside h hne with hp | hp
      · simp only [segmentRow, if_pos hp]
      · have hp' : ¬ pl.signedDistance a / (pl.signedDistance a - pl.signedDistance b) < 0 := by
          intro hc; linarith
        simp only [segmentRow, if_neg hp', if_pos hp]
  · intro r hr
    obtain ⟨a', b', hk, hs, _⟩ := (intersect_plane_mem_iff p pl i r).mp hr
    rw [hseg] at hk
    simp only [Option.some.injEq, Prod.mk.injEq] at hk
    obtain ⟨rfl, rfl⟩ := hk
    rw [edge_same_side h] at hs
    exact Bool.false_ne_true hs

theorem oob_start (a b : V3 K) : outOfBounds a a b = false := by
  unfold Xsect.outOfBounds; simp
theorem oob_end (a b : V3 K) : outOfBounds b a b = false := by
  unfold Xsect.outOfBounds; simp

/-- **C14, exactly one end point on the plane**: that end point, from the three segment routines
    (`line_segment_xsections` again through `stacked_segments_rowwise`). -/
theorem C14_endpoint_on_plane (pl : Plane K) (big : K) (a b : V3 K) :
    (pl.signedDistance a = 0 → pl.signedDistance b ≠ 0 →
      pl.lineSegmentXsection a b = some a ∧ intersectSegmentWithPlane big a (b - a) pl.ref pl.n = some a) ∧
    (pl.signedDistance b = 0 → pl.signedDistance a ≠ 0 →
      pl.lineSegmentXsection a b = some b ∧ intersectSegmentWithPlane big a (b - a) pl.ref pl.n = some b) := by
  have h00 : ¬ (0 : K) < 0 := lt_irrefl 0
  have h10 : ¬ (1 : K) < 0 := by intro h; linarith [zero_lt_one (α := K)]
  have h11 : ¬ (1 : K) < 1 := lt_irrefl 1
  constructor
  · intro ha hb
    have hne : pl.signedDistance a ≠ pl.signedDistance b := by rw [ha]; exact hb.symm
    have hP : V3.smul (pl.signedDistance a / (pl.signedDistance a - pl.signedDistance b)) (b - a) + a = a := by
      rw [ha]; ext <;> simp
    constructor
    · rw [lineSegmentXsection_of_ne pl a b hne]
      simp only [hP, oob_start, Bool.false_eq_true, if_false]
    · rw [isp_of_ne pl big a b hne, ha]
      simp only [zero_div, segmentRow, if_neg h00, if_neg h10]
      congr 1
      ext <;> simp
  · intro hb ha
    have hne : pl.signedDistance a ≠ pl.signedDistance b := by rw [hb]; exact ha
    have hone : pl.signedDistance a / (pl.signedDistance a - pl.signedDistance b) = 1 := by
      rw [hb, sub_zero, div_self ha]
    have hP : V3.smul (pl.signedDistance a / (pl.signedDistance a - pl.signedDistance b)) (b - a) + a = b := by
      rw [hone]; ext <;> simp
    constructor
    · rw [lineSegmentXsection_of_ne pl a b hne]
      simp only [hP, oob_end, Bool.false_eq_true, if_false]
    · rw [isp_of_ne pl big a b hne, hone]
      simp only [segmentRow, if_neg h10, if_neg h11]
      congr 1
      ext <;> simp

/-! ## what `Polyline.intersect_plane` returns for vertices on the plane (the code's TODO), precisely -/

/-- edge `i = (a, b)` with exactly `a` on the plane: one entry `(i, a)`; exactly `b` on the plane: one entry
    `(i, b)`; both on the plane: one entry `(i, NaN row)`.  Consequently a vertex lying on the plane is reported
    once for each incident edge whose other end point is off the plane (so typically twice, and also when the
    polyline merely touches the plane there), and an edge lying in the plane yields a NaN row. -/
theorem intersect_plane_on_plane_cases (p : Polyline K) (pl : Plane K) (i : Nat) (a b : V3 K)
    (hseg : p.segments[i]? = some (a, b)) :
    (pl.signedDistance a = 0 → pl.signedDistance b ≠ 0 →
      (i, some a) ∈ p.intersectPlane pl ∧ ∀ r, (i, r) ∈ p.intersectPlane pl → r = some a) ∧
    (pl.signedDistance b = 0 → pl.signedDistance a ≠ 0 →
      (i, some b) ∈ p.intersectPlane pl ∧ ∀ r, (i, r) ∈ p.intersectPlane pl → r = some b) ∧
    (pl.signedDistance a = 0 → pl.signedDistance b = 0 →
      (i, none) ∈ p.intersectPlane pl ∧ ∀ r, (i, r) ∈ p.intersectPlane pl → r = none) := by
  refine ⟨?_, ?_, ?_⟩
  · intro ha hb
    have he := edge_start_on_plane hb a b
    have hmem : (i, some a) ∈ p.intersectPlane pl :=
      (intersect_plane_mem_iff p pl i _).mpr ⟨a, b, hseg, by rw [ha]; exact he.1, by rw [ha]; exact he.2.symm⟩
    exact ⟨hmem, fun r hr => intersect_plane_one_entry_per_edge p pl i r _ hr hmem⟩
  · intro hb ha
    have he := edge_end_on_plane ha a b
    have hmem : (i, some b) ∈ p.intersectPlane pl :=
      (intersect_plane_mem_iff p pl i _).mpr ⟨a, b, hseg, by rw [hb]; exact he.1, by rw [hb]; exact he.2.symm⟩
    exact ⟨hmem, fun r hr => intersect_plane_one_entry_per_edge p pl i r _ hr hmem⟩
  · intro ha hb
    have he := edge_both_on_plane (K := K) a b
    have hmem : (i, none) ∈ p.intersectPlane pl :=
      (intersect_plane_mem_iff p pl i _).mpr ⟨a, b, hseg, by rw [ha, hb]; exact he.1, by rw [ha, hb]; exact he.2.symm⟩
    exact ⟨hmem, fun r hr => intersect_plane_one_entry_per_edge p pl i r _ hr hmem⟩

/-- the remaining out-of-scope case for the segment routines, stated for completeness: both end points on the
    plane (or `a = b` on the plane) — the Plane methods report `None`, the module-level routine the start point. -/
theorem both_on_plane_segment_routines (pl : Plane K) (big : K) (a b : V3 K)
    (ha : pl.signedDistance a = 0) (hb : pl.signedDistance b = 0) :
    pl.lineSegmentXsection a b = none ∧ intersectSegmentWithPlane big a (b - a) pl.ref pl.n = some a :=
  ⟨lineSegmentXsection_parallel pl a b (by rw [ha, hb]), isp_both_on_plane pl big a b ha hb⟩

/-! ## stacked forms -/

theorem stacked_lines_rowwise (pl : Plane K) (pts rays : List (V3 K)) (h : pts.length = rays.length) :
    pl.lineXsections pts rays = .ok (List.zipWith pl.lineXsection pts rays) ∧
    (List.zipWith pl.lineXsection pts rays).length = pts.length ∧
    ∀ i (hi : i < pts.length) (hi' : i < rays.length),
      (List.zipWith pl.lineXsection pts rays)[i]? = some (pl.lineXsection pts[i] rays[i]) := by
  refine ⟨?_, by simp [h], ?_⟩
  · simp [lineXsections, sameLength, h, bind, Except.bind, pure, Except.pure]
  · intro i hi hi'
    simp [List.getElem?_zipWith, List.getElem?_eq_getElem hi, List.getElem?_eq_getElem hi']

theorem stacked_segments_rowwise (pl : Plane K) (as bs : List (V3 K)) (h : as.length = bs.length) :
    pl.lineSegmentXsections as bs = .ok (List.zipWith pl.lineSegmentXsection as bs) ∧
    (List.zipWith pl.lineSegmentXsection as bs).length = as.length ∧
    ∀ i (hi : i < as.length) (hi' : i < bs.length),
      (List.zipWith pl.lineSegmentXsection as bs)[i]? = some (pl.lineSegmentXsection as[i] bs[i]) := by
  refine ⟨?_, by simp [h], ?_⟩
  · simp [lineSegmentXsections, sameLength, h, bind, Except.bind, pure, Except.pure]
  · intro i hi hi'
    simp [List.getElem?_zipWith, List.getElem?_eq_getElem hi, List.getElem?_eq_getElem hi']

theorem stacked_isp_rowwise (big : K) (ss vs qs ns : List (V3 K))
    (h1 : ss.length = vs.length) (h2 : ss.length = qs.length) (h3 : ss.length = ns.length) :
    ∃ rows, intersectSegmentsWithPlanes big ss vs qs ns = .ok rows ∧ rows.length = ss.length ∧
      ∀ i (hs : i < ss.length) (hv : i < vs.length) (hq : i < qs.length) (hn : i < ns.length),
        rows[i]? = some (intersectSegmentWithPlane big ss[i] vs[i] qs[i] ns[i]) := by
  refine ⟨(List.zip (List.zip ss vs) (List.zip qs ns)).map
    (fun x => intersectSegmentWithPlane big x.1.1 x.1.2 x.2.1 x.2.2), ?_, ?_, ?_⟩
  · have e1 : (ss.length == vs.length) = true := by simp [h1]
    have e2 : (ss.length == qs.length) = true := by simp [h2]
    have e3 : (ss.length == ns.length) = true := by simp [h3]
    simp only [intersectSegmentsWithPlanes, sameLength, e1, e2, e3, if_true, bind, Except.bind, pure, Except.pure]
  · simp [← h1, ← h2, ← h3]
  · intro i hs hv hq hn
    simp [hs, hv, hq, hn]

/-- the three clauses for row `i` of `line_segment_xsections` (a NaN row flagged invalid is `some none`). -/
theorem C14_stacked_rows (pl : Plane K) (as bs : List (V3 K)) (i : Nat) (hi : i < as.length) (hi' : i < bs.length) :
    (Opposite (pl.signedDistance as[i]) (pl.signedDistance bs[i]) →
      (List.zipWith pl.lineSegmentXsection as bs)[i]? = some (some (crossing pl as[i] bs[i]))) ∧
    (SameSide (pl.signedDistance as[i]) (pl.signedDistance bs[i]) →
      (List.zipWith pl.lineSegmentXsection as bs)[i]? = some none) ∧
    (pl.signedDistance as[i] = 0 → pl.signedDistance bs[i] ≠ 0 →
      (List.zipWith pl.lineSegmentXsection as bs)[i]? = some (some as[i])) ∧
    (pl.signedDistance bs[i] = 0 → pl.signedDistance as[i] ≠ 0 →
      (List.zipWith pl.lineSegmentXsection as bs)[i]? = some (some bs[i])) := by
  have hrow : (List.zipWith pl.lineSegmentXsection as bs)[i]? = some (pl.lineSegmentXsection as[i] bs[i]) := by
    simp [List.getElem?_zipWith, List.getElem?_eq_getElem hi, List.getElem?_eq_getElem hi']
  rw [hrow]
  refine ⟨fun h => by rw [segment_agree pl _ _ h], fun h => ?_, fun ha hb => ?_, fun hb ha => ?_⟩
  · by_cases hne : pl.signedDistance as[i] = pl.signedDistance bs[i]
    · rw [lineSegmentXsection_parallel pl _ _ hne]
    · rw [lineSegmentXsection_of_ne pl _ _ hne]
      have hoob := (bounds_iff_param as[i] bs[i] _ (ne_of_sd_ne pl hne)).mpr (param_outside h hne)
      simp only [hoob, if_true]
  · rw [((C14_endpoint_on_plane pl 0 as[i] bs[i]).1 ha hb).1]
  · rw [((C14_endpoint_on_plane pl 0 as[i] bs[i]).2 hb ha).1]

/-- stacks of different length are refused (`vg.shape.check`, `ValueError`). -/
theorem stacked_length_mismatch (pl : Plane K) (as bs : List (V3 K)) (h : as.length ≠ bs.length) :
    pl.lineSegmentXsections as bs = .error .ValueError ∧ pl.lineXsections as bs = .error .ValueError := by
  constructor <;> simp [lineSegmentXsections, lineXsections, sameLength, h, bind, Except.bind]

/-! ## non-vacuity -/

deriving instance DecidableEq for V3

/-- a concrete plane, a closed polyline with a crossing edge, a same-side edge, an edge ending on the plane
    and one starting there; all four routines evaluated. -/
example :
    let pl : Plane ℚ := ⟨⟨0, 0, 0⟩, ⟨0, 0, 1⟩⟩
    let p : Polyline ℚ := ⟨[⟨0, 0, -1⟩, ⟨2, 0, 3⟩, ⟨2, 2, 1⟩, ⟨0, 2, 0⟩], true⟩
    Opposite (pl.signedDistance ⟨0, 0, -1⟩) (pl.signedDistance ⟨2, 0, 3⟩) ∧
    SameSide (pl.signedDistance ⟨2, 0, 3⟩) (pl.signedDistance ⟨2, 2, 1⟩) ∧
    crossing pl ⟨0, 0, -1⟩ ⟨2, 0, 3⟩ = ⟨1/2, 0, 0⟩ ∧
    pl.lineSegmentXsection ⟨0, 0, -1⟩ ⟨2, 0, 3⟩ = some ⟨1/2, 0, 0⟩ ∧
    intersectSegmentWithPlane 1000 ⟨0, 0, -1⟩ ⟨2, 0, 4⟩ pl.ref pl.n = some ⟨1/2, 0, 0⟩ ∧
    p.intersectPlane pl = [(0, some ⟨1/2, 0, 0⟩), (2, some ⟨0, 2, 0⟩), (3, some ⟨0, 2, 0⟩)] := by
  decide +kernel

/-! ## what the model takes from the source

`harness/translate/c14.py` reads the guards, bounds tests, NaN rules and the weighted-average formula of
`Plane._line_xsection`, `_line_segment_xsection`, `line_xsections`, `line_segment_xsections`
(`polliwog/plane/_plane_object.py`), `intersect_segment_with_plane` (`polliwog/plane/_plane_intersect.py`) and
`Polyline.intersect_plane` (`polliwog/polyline/_polyline_object.py`) out of the source text into `PW/Gen/Xsect.lean` on
every run (local names replaced by what they were assigned; DENOM, PT, DENOMS, MASKED, PTS, VALID, T, SD, WHICH, ED are
structural labels).  The theorems below state that each generated value is the one the hand-written model
`PW/Model/PlaneXsect.lean` was written from — and, where the literal is a Lean literal of the model, that the model
computes with exactly the generated value — so that an edit of one of them in the source breaks a proof obligation. -/

/-- `_line_xsection`: `None` when `np.dot(ray, normal) == 0`, else `dot(ref − pt, normal) / denom * ray + pt`:
    the model's `lineXsection` tests exactly the generated comparison. -/
theorem gen_line_xsection :
    (PW.Gen.Xsect.parallelCmp = .eq ∧ PW.Gen.Xsect.parallelRhs = 0 ∧
      PW.Gen.Xsect.denomSrc = "np.dot(ray, self.normal)" ∧ PW.Gen.Xsect.parallelResult = "None") ∧
    PW.Gen.Xsect.lineXsectionSrc = "np.dot(-pt + self.reference_point, self.normal) / DENOM * ray + pt" ∧
    ∀ (pl : Plane K) (pt ray : V3 K), pl.lineXsection pt ray =
      if PW.Gen.Xsect.parallelCmp.test (ray.dot pl.n) ((PW.Gen.Xsect.parallelRhs : Int) : K) then none
      else some (V3.smul ((pl.ref - pt).dot pl.n / ray.dot pl.n) ray + pt) := by
  refine ⟨⟨by decide, by decide, rfl, rfl⟩, rfl, ?_⟩
  intro pl pt ray
  simp [lineXsection, PW.Gen.Cmp.test, PW.Gen.Xsect.parallelCmp, PW.Gen.Xsect.parallelRhs]

/-- the bounds test of `_line_segment_xsection`: `any(pt > a & pt > b) or any(pt < a & pt < b)` (normal form:
    `a < PT and b < PT`, `PT < a and PT < b`): the model's `outOfBounds` is exactly the generated comparisons, per
    coordinate. -/
theorem gen_bounds_test :
    (PW.Gen.Xsect.aboveACmp = .lt ∧ PW.Gen.Xsect.aboveBCmp = .lt ∧ PW.Gen.Xsect.belowACmp = .lt ∧
      PW.Gen.Xsect.belowBCmp = .lt) ∧
    PW.Gen.Xsect.boundsSrc = "any(a < PT and b < PT) or any(PT < a and PT < b)" ∧
    ∀ (pt a b : V3 K), outOfBounds pt a b =
      (((PW.Gen.Xsect.aboveACmp.test a.x pt.x && PW.Gen.Xsect.aboveBCmp.test b.x pt.x) ||
        (PW.Gen.Xsect.aboveACmp.test a.y pt.y && PW.Gen.Xsect.aboveBCmp.test b.y pt.y) ||
        (PW.Gen.Xsect.aboveACmp.test a.z pt.z && PW.Gen.Xsect.aboveBCmp.test b.z pt.z)) ||
       ((PW.Gen.Xsect.belowACmp.test pt.x a.x && PW.Gen.Xsect.belowBCmp.test pt.x b.x) ||
        (PW.Gen.Xsect.belowACmp.test pt.y a.y && PW.Gen.Xsect.belowBCmp.test pt.y b.y) ||
        (PW.Gen.Xsect.belowACmp.test pt.z a.z && PW.Gen.Xsect.belowBCmp.test pt.z b.z))) := by
  refine ⟨by decide, rfl, ?_⟩
  intro pt a b
  rfl

/-- [semantic + text] `_line_segment_xsection` intersects the carrying line `(a, b − a)` and returns `None` when that is not
    `None` and the bounds test holds.  Semantic: the model's `lineSegmentXsection` calls `lineXsection` with the start point
    `a` and the ray `ca·a + cb·b + d` made of the generated coefficients.  Text only: `PT is not None` / `None` (the
    `Option` match of the model) and the public wrappers, which only flatten their arguments (`np.asarray(..).ravel()`:
    array plumbing, no counterpart in the model). -/
theorem gen_segment_xsection :
    (PW.Gen.Xsect.segmentLineSrc = "self._line_xsection(a, -a + b)" ∧
      PW.Gen.Xsect.segmentNoneCheckSrc = "PT is not None" ∧ PW.Gen.Xsect.boundsRejectResult = "None" ∧
      PW.Gen.Xsect.lineWrapperSrc = "self._line_xsection(np.asarray(pt).ravel(), np.asarray(ray).ravel())" ∧
      PW.Gen.Xsect.segmentWrapperSrc = "self._line_segment_xsection(np.asarray(a).ravel(), np.asarray(b).ravel())" ∧
      PW.Gen.Xsect.segmentStart = "a") ∧
    (PW.Gen.Xsect.segmentRayACoef = -1 ∧ PW.Gen.Xsect.segmentRayBCoef = 1 ∧ PW.Gen.Xsect.segmentRayConst = 0) ∧
    ∀ (pl : Plane K) (a b : V3 K), pl.lineSegmentXsection a b =
      match pl.lineXsection a
        (V3.smul ((PW.Gen.Xsect.segmentRayACoef : Int) : K) a + V3.smul ((PW.Gen.Xsect.segmentRayBCoef : Int) : K) b +
          (⟨((PW.Gen.Xsect.segmentRayConst : Int) : K), ((PW.Gen.Xsect.segmentRayConst : Int) : K),
            ((PW.Gen.Xsect.segmentRayConst : Int) : K)⟩ : V3 K)) with
      | none => none
      | some pt => if outOfBounds pt a b then none else some pt := by
  refine ⟨⟨rfl, rfl, rfl, rfl, rfl, rfl⟩, by decide, ?_⟩
  intro pl a b
  have h : V3.smul ((PW.Gen.Xsect.segmentRayACoef : Int) : K) a + V3.smul ((PW.Gen.Xsect.segmentRayBCoef : Int) : K) b +
      (⟨((PW.Gen.Xsect.segmentRayConst : Int) : K), ((PW.Gen.Xsect.segmentRayConst : Int) : K),
        ((PW.Gen.Xsect.segmentRayConst : Int) : K)⟩ : V3 K) = b - a := by
    ext <;> simp [PW.Gen.Xsect.segmentRayACoef, PW.Gen.Xsect.segmentRayBCoef, PW.Gen.Xsect.segmentRayConst,
      V3.add_x, V3.add_y, V3.add_z, V3.smul_x, V3.smul_y, V3.smul_z, V3.sub_x, V3.sub_y, V3.sub_z] <;> ring
  rw [h]
  rfl

/-- [semantic + text] the stacked routines.  Semantic: `line_xsections` gives `none` (NaN row, flag `False`) for a row
    exactly when `denoms == 0` with the generated operator and bound, and `line_segment_xsections` calls it with start
    `a` and ray `ca·a + cb·b + d` and rejects a row by the row-wise bounds test made of the four generated comparisons
    (the model's `lineXsections`, `lineSegmentXsections`).  Text only: `stackMaskOk`, `stackPointSrc`, `segmentStackSrc` —
    the NaN / flag bookkeeping (`denoms[mask] = nan`, `pt_is_valid[pt_is_valid] = …`, `np.vstack([p, p, p]).T`) is array
    plumbing that the model expresses as `Option` rows. -/
theorem gen_stacked_xsections :
    (PW.Gen.Xsect.stackDenomSrc = "np.dot(rays, self.normal)" ∧ PW.Gen.Xsect.stackMaskOk = some true ∧
      PW.Gen.Xsect.stackPointSrc =
        "_vcat([np.dot(-pts + self.reference_point, self.normal) / MASKED, np.dot(-pts + self.reference_point, self.normal) / MASKED, np.dot(-pts + self.reference_point, self.normal) / MASKED]).T * rays + pts" ∧
      PW.Gen.Xsect.segmentStackSrc =
        "(_set(PTS, _0[~_set(VALID, _0[VALID], ~(np.any(PTS[VALID] < a[VALID] and PTS[VALID] < b[VALID], axis=1) or np.any(a[VALID] < PTS[VALID] and b[VALID] < PTS[VALID], axis=1)))], np.nan), _set(VALID, _0[VALID], ~(np.any(PTS[VALID] < a[VALID] and PTS[VALID] < b[VALID], axis=1) or np.any(a[VALID] < PTS[VALID] and b[VALID] < PTS[VALID], axis=1))))" ∧
      PW.Gen.Xsect.stackSegmentStart = "a") ∧
    (PW.Gen.Xsect.stackParallelCmp = .eq ∧ PW.Gen.Xsect.stackParallelRhs = 0 ∧
      PW.Gen.Xsect.stackAboveACmp = .lt ∧ PW.Gen.Xsect.stackAboveBCmp = .lt ∧ PW.Gen.Xsect.stackBelowACmp = .lt ∧
      PW.Gen.Xsect.stackBelowBCmp = .lt ∧ PW.Gen.Xsect.stackSegmentRayACoef = -1 ∧
      PW.Gen.Xsect.stackSegmentRayBCoef = 1 ∧ PW.Gen.Xsect.stackSegmentRayConst = 0) ∧
    (∀ (pl : Plane K) (pts rays : List (V3 K)), pl.lineXsections pts rays =
      (do sameLength pts rays
          pure (List.zipWith (fun pt ray =>
            if PW.Gen.Xsect.stackParallelCmp.test (ray.dot pl.n) ((PW.Gen.Xsect.stackParallelRhs : Int) : K) then none
            else some (V3.smul ((pl.ref - pt).dot pl.n / ray.dot pl.n) ray + pt)) pts rays))) ∧
    (∀ (pl : Plane K) (as bs : List (V3 K)), pl.lineSegmentXsections as bs =
      (do sameLength as bs
          pure (List.zipWith (fun a b =>
            match pl.lineXsection a
              (V3.smul ((PW.Gen.Xsect.stackSegmentRayACoef : Int) : K) a +
                V3.smul ((PW.Gen.Xsect.stackSegmentRayBCoef : Int) : K) b +
                (⟨((PW.Gen.Xsect.stackSegmentRayConst : Int) : K), ((PW.Gen.Xsect.stackSegmentRayConst : Int) : K),
                  ((PW.Gen.Xsect.stackSegmentRayConst : Int) : K)⟩ : V3 K)) with
            | none => none
            | some pt =>
              if (((PW.Gen.Xsect.stackAboveACmp.test a.x pt.x && PW.Gen.Xsect.stackAboveBCmp.test b.x pt.x) ||
                   (PW.Gen.Xsect.stackAboveACmp.test a.y pt.y && PW.Gen.Xsect.stackAboveBCmp.test b.y pt.y) ||
                   (PW.Gen.Xsect.stackAboveACmp.test a.z pt.z && PW.Gen.Xsect.stackAboveBCmp.test b.z pt.z)) ||
                  ((PW.Gen.Xsect.stackBelowACmp.test pt.x a.x && PW.Gen.Xsect.stackBelowBCmp.test pt.x b.x) ||
                   (PW.Gen.Xsect.stackBelowACmp.test pt.y a.y && PW.Gen.Xsect.stackBelowBCmp.test pt.y b.y) ||
                   (PW.Gen.Xsect.stackBelowACmp.test pt.z a.z && PW.Gen.Xsect.stackBelowBCmp.test pt.z b.z)))
              then none else some pt) as bs))) := by
  refine ⟨⟨rfl, by decide, rfl, rfl, rfl⟩, by decide, ?_, ?_⟩
  · intro pl pts rays
    have h : (fun pt ray : V3 K =>
        if PW.Gen.Xsect.stackParallelCmp.test (ray.dot pl.n) ((PW.Gen.Xsect.stackParallelRhs : Int) : K) then none
        else some (V3.smul ((pl.ref - pt).dot pl.n / ray.dot pl.n) ray + pt)) = pl.lineXsection := by
      funext pt ray
      simp [lineXsection, PW.Gen.Cmp.test, PW.Gen.Xsect.stackParallelCmp, PW.Gen.Xsect.stackParallelRhs]
    rw [h]
    rfl
  · intro pl as bs
    have hr : ∀ a b : V3 K, V3.smul ((PW.Gen.Xsect.stackSegmentRayACoef : Int) : K) a +
        V3.smul ((PW.Gen.Xsect.stackSegmentRayBCoef : Int) : K) b +
        (⟨((PW.Gen.Xsect.stackSegmentRayConst : Int) : K), ((PW.Gen.Xsect.stackSegmentRayConst : Int) : K),
          ((PW.Gen.Xsect.stackSegmentRayConst : Int) : K)⟩ : V3 K) = b - a := by
      intro a b
      ext <;> simp [PW.Gen.Xsect.stackSegmentRayACoef, PW.Gen.Xsect.stackSegmentRayBCoef,
        PW.Gen.Xsect.stackSegmentRayConst, V3.add_x, V3.add_y, V3.add_z, V3.smul_x, V3.smul_y, V3.smul_z, V3.sub_x,
        V3.sub_y, V3.sub_z] <;> ring
    simp only [hr]
    rfl

/-- `intersect_segment_with_plane`: `T = nan_to_num(dot(q − start, n) / dot(vec, n))`, row `start + T * vec`, set to NaN
    when `T < 0` or `T > 1`: the model's `segmentRow` tests exactly the generated comparisons and bounds. -/
theorem gen_segment_nan_rules :
    (PW.Gen.Xsect.nanLowCmp = .lt ∧ PW.Gen.Xsect.nanLowRhs = 0 ∧ PW.Gen.Xsect.nanHighCmp = .gt ∧
      PW.Gen.Xsect.nanHighRhs = 1 ∧ PW.Gen.Xsect.nanRulesOk = some true) ∧
    PW.Gen.Xsect.paramSrc =
      "np.nan_to_num(vg.dot(points_on_plane - start_points, plane_normals) / vg.dot(segment_vectors, plane_normals))" ∧
    PW.Gen.Xsect.pointSrc = "T.reshape(-1, 1) * segment_vectors + start_points" ∧
    ∀ (t : K) (start vec : V3 K), segmentRow t start vec =
      if PW.Gen.Xsect.nanLowCmp.test t ((PW.Gen.Xsect.nanLowRhs : Int) : K) then none
      else if PW.Gen.Xsect.nanHighCmp.test t ((PW.Gen.Xsect.nanHighRhs : Int) : K) then none
      else some (start + V3.smul t vec) := by
  refine ⟨by decide, rfl, rfl, ?_⟩
  intro t start vec
  simp [segmentRow, PW.Gen.Cmp.test, PW.Gen.Xsect.nanLowCmp, PW.Gen.Xsect.nanLowRhs, PW.Gen.Xsect.nanHighCmp,
    PW.Gen.Xsect.nanHighRhs]

/-- `Polyline.intersect_plane`: the edges with `abs(sign(d_a) + sign(d_b)) != 2`; weights `1 − |d| / (|d_a| + |d_b|)`
    on the two end points: the model's `edgeSelected` and `edgePoint` compute with exactly the generated comparison,
    bound and weight coefficients. -/
theorem gen_intersect_plane :
    (PW.Gen.Xsect.signedDistancesSrc = "plane.signed_distance(self.v)" ∧ PW.Gen.Xsect.selectCmp = .ne ∧
      PW.Gen.Xsect.selectLhs = "np.abs(np.sign(SD)[self.e].sum(axis=1))" ∧ PW.Gen.Xsect.selectRhs = 2 ∧
      PW.Gen.Xsect.endpointDistSrc = "np.abs(SD[self.e[WHICH]])" ∧
      PW.Gen.Xsect.tSrc = "ED / ED.sum(axis=1)[:, np.newaxis]" ∧
      PW.Gen.Xsect.weightCoef = -1 ∧ PW.Gen.Xsect.weightConst = 1 ∧ PW.Gen.Xsect.weightsOnSelected = some true ∧
      PW.Gen.Xsect.samePoints = some true) ∧
    PW.Gen.Xsect.pointsSrc = "((-T[:, :, np.newaxis] + 1) * self.segments[WHICH]).sum(axis=1)" ∧
    (∀ da db : K, edgeSelected da db =
      PW.Gen.Xsect.selectCmp.test (Plane.sgn da + Plane.sgn db).natAbs PW.Gen.Xsect.selectRhs.toNat) ∧
    ∀ (da db : K) (a b : V3 K), edgePoint da db a b =
      if absK da + absK db == 0 then none
      else some
        (V3.smul (((PW.Gen.Xsect.weightCoef : Int) : K) * (absK da / (absK da + absK db)) +
            ((PW.Gen.Xsect.weightConst : Int) : K)) a +
         V3.smul (((PW.Gen.Xsect.weightCoef : Int) : K) * (absK db / (absK da + absK db)) +
            ((PW.Gen.Xsect.weightConst : Int) : K)) b) := by
  refine ⟨⟨rfl, by decide, rfl, by decide, rfl, rfl, by decide, by decide, by decide, by decide⟩, rfl, ?_, ?_⟩
  · intro da db
    rw [Bool.eq_iff_iff]
    simp [edgeSelected, PW.Gen.Cmp.test, PW.Gen.Xsect.selectCmp, PW.Gen.Xsect.selectRhs]
  · intro da db a b
    have h : ∀ x : K, ((PW.Gen.Xsect.weightCoef : Int) : K) * x + ((PW.Gen.Xsect.weightConst : Int) : K) = 1 - x := by
      intro x
      simp only [PW.Gen.Xsect.weightCoef, PW.Gen.Xsect.weightConst]
      push_cast
      ring
    simp only [h]
    rfl

/-- [text] what the symbolic reader does not interpret, pinned to the source the model was written from: for every
    function read by `harness/translate/c14.py` its decorators, its parameter list with defaults, the statements whose
    effect is not modelled (shape checks — any added in-place call, loop, `with`, `try`, `del`, … shows up here), and
    the number of other bindings of its name in the enclosing scope. -/
theorem gen_function_shapes :
    PW.Gen.Xsect.functionShapes =
      [("Plane._line_xsection", [], "self, pt, ray", [], 0),
       ("Plane._line_segment_xsection", [], "self, a, b", [], 0),
       ("Plane.line_xsection", [], "self, pt, ray", ["expr vg.shape.check(locals(), 'pt', (3,))", "expr vg.shape.check(locals(), 'ray', (3,))"], 0),
       ("Plane.line_segment_xsection", [], "self, a, b", ["expr vg.shape.check(locals(), 'a', (3,))", "expr vg.shape.check(locals(), 'b', (3,))"], 0),
       ("Plane.line_xsections", [], "self, pts, rays", ["expr vg.shape.check(locals(), 'rays', (vg.shape.check(locals(), 'pts', (-1, 3)), 3))"], 0),
       ("Plane.line_segment_xsections", [], "self, a, b", ["expr vg.shape.check(locals(), 'b', (vg.shape.check(locals(), 'a', (-1, 3)), 3))"], 0),
       ("intersect_segment_with_plane", [], "start_points, segment_vectors, points_on_plane, plane_normals", ["expr vg.shape.check(locals(), 'plane_normals', start_points.shape)", "expr vg.shape.check(locals(), 'points_on_plane', start_points.shape)", "expr vg.shape.check(locals(), 'segment_vectors', start_points.shape)"], 0),
       ("Polyline.intersect_plane", [], "self, plane, ret_edge_indices=False", [], 0)] := by rfl

end PW.C14
