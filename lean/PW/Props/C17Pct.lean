/-
  C17 (addition) — `Pointcloud.percentileValue`, the model of `np.percentile(xs, q)` (default `linear` method), is the
  q-th percentile of the list: theorems over ℝ (`Rounding ℝ` built from `Int.floor`).

    sort_perm / sort_sorted / sort_length     `Pointcloud.sort` is a sorting function
    percentileValue_error_iff                 ValueError exactly for an empty list or `q ∉ [0, 100]`
    percentileValue_bracket                   the value is the convex combination `(1-γ)·s[i] + γ·s[i+1]` of two
                                              consecutive order statistics, `i = ⌊q/100·(n-1)⌋`, `γ = pos - i ∈ [0, 1)`
    percentileValue_between                   `min xs ≤ v ≤ max xs`
    percentileValue_zero / _hundred           `q = 0` ↦ minimum, `q = 100` ↦ maximum
    percentileValue_at_order_statistic        `q = 100·k/(n-1)` ↦ `(sort xs)[k]`
    percentileValue_mono                      monotone in `q` on `[0, 100]`
    percentileValue_perm                      depends only on the multiset of `xs`
    percentile_with_numpy_value               `percentile` with `c := percentileValue (coordsOnAxis pts axis) q`

  Property theorems and their helper lemmas (`ordStat`, `interp`) only; the model is PW/Model/Pointcloud.lean.
-/
import PW.Model.Pointcloud
import PW.Props.C17
import PW.Lemmas.RealNormC16C17
import Mathlib.Data.List.Sort
import Mathlib.Algebra.Order.Archimedean.Real.Basic
import Mathlib.Algebra.Order.Floor.Ring
import Mathlib.Algebra.Order.Floor.Semiring
import Mathlib.Tactic.Ring
import Mathlib.Tactic.Linarith
import Mathlib.Tactic.Positivity
import Mathlib.Tactic.FieldSimp
import Mathlib.Tactic.NormNum
import Mathlib.Tactic.Push

set_option linter.unusedSectionVars false
set_option linter.unusedTactic false
set_option linter.unusedSimpArgs false
set_option linter.unusedVariables false

namespace PW.C17Pct

open PW.Pointcloud PW.RealNorm

/-- `floor`/`ceil` of a real number; `rint` rounds half to even; `ofInt` is the cast -/
noncomputable instance instRoundingReal : PW.Rounding ℝ where
  ceil := Int.ceil
  floor := Int.floor
  rint x :=
    let f := ⌊x⌋
    let d := x - (f : ℝ)
    if d < 1 / 2 then f else if 1 / 2 < d then f + 1 else if f % 2 = 0 then f else f + 1
  ofInt i := (i : ℝ)

/-! ## `Pointcloud.sort` is insertion sort -/

theorem insertSorted_eq (x : ℝ) (l : List ℝ) : insertSorted x l = l.orderedInsert (· ≤ ·) x := by
  induction l with
  | nil => rfl
  | cons y ys ih =>
    simp only [insertSorted, List.orderedInsert_cons, ih]

theorem sort_eq_insertionSort (xs : List ℝ) : Pointcloud.sort xs = xs.insertionSort (· ≤ ·) := by
  induction xs with
  | nil => rfl
  | cons y ys ih =>
    have : Pointcloud.sort (y :: ys) = insertSorted y (Pointcloud.sort ys) := rfl
    rw [this, ih, insertSorted_eq]
    rfl

/-- **sort_perm**: the sorted list is a permutation of the input -/
theorem sort_perm (xs : List ℝ) : (Pointcloud.sort xs).Perm xs := by
  rw [sort_eq_insertionSort]; exact List.perm_insertionSort _ xs

/-- **sort_sorted**: the sorted list is non-decreasing -/
theorem sort_sorted (xs : List ℝ) : (Pointcloud.sort xs).Pairwise (· ≤ ·) := by
  rw [sort_eq_insertionSort]; exact List.pairwise_insertionSort _ xs

/-- **sort_length** -/
theorem sort_length (xs : List ℝ) : (Pointcloud.sort xs).length = xs.length := (sort_perm xs).length_eq

theorem mem_sort {xs : List ℝ} {x : ℝ} : x ∈ Pointcloud.sort xs ↔ x ∈ xs := (sort_perm xs).mem_iff

theorem sort_eq_nil {xs : List ℝ} : Pointcloud.sort xs = [] ↔ xs = [] := by
  rw [← List.length_eq_zero_iff, sort_length, List.length_eq_zero_iff]

/-- the sorted list is determined by the multiset of the elements -/
theorem sort_congr {xs ys : List ℝ} (h : xs.Perm ys) : Pointcloud.sort xs = Pointcloud.sort ys :=
  List.Perm.eq_of_pairwise' (r := (· ≤ ·)) (sort_sorted xs) (sort_sorted ys)
    ((sort_perm xs).trans (h.trans (sort_perm ys).symm))

/-! ## order statistics with a clamped index, and linear interpolation between them -/

/-- the `k`-th element of `s`, the last one for `k ≥ s.length` -/
noncomputable def ordStat (s : List ℝ) (k : ℕ) : ℝ := s.getD (min k (s.length - 1)) 0

theorem ordStat_getElem? {s : List ℝ} (hs : s ≠ []) (k : ℕ) :
    s[min k (s.length - 1)]? = some (ordStat s k) := by
  have hl : 0 < s.length := List.length_pos_iff.mpr hs
  have : min k (s.length - 1) < s.length := by omega
  rw [ordStat, List.getD_eq_getElem?_getD, List.getElem?_eq_getElem this]
  rfl

theorem ordStat_of_lt {s : List ℝ} {k : ℕ} (hk : k < s.length) : s[k]? = some (ordStat s k) := by
  have hs : s ≠ [] := by rintro rfl; simp at hk
  have := ordStat_getElem? hs k
  rwa [min_eq_left (by omega)] at this

theorem ordStat_mem {s : List ℝ} (hs : s ≠ []) (k : ℕ) : ordStat s k ∈ s :=
  List.mem_of_getElem? (ordStat_getElem? hs k)

theorem ordStat_mono {s : List ℝ} (hs : s.Pairwise (· ≤ ·)) : Monotone (ordStat s) := by
  intro a b hab
  by_cases hne : s = []
  · subst hne; simp [ordStat]
  have hl : 0 < s.length := List.length_pos_iff.mpr hne
  have ha : min a (s.length - 1) < s.length := by omega
  have hb : min b (s.length - 1) < s.length := by omega
  have ea := ordStat_getElem? hne a
  have eb := ordStat_getElem? hne b
  rw [List.getElem?_eq_getElem ha] at ea
  rw [List.getElem?_eq_getElem hb] at eb
  rw [← Option.some.inj ea, ← Option.some.inj eb]
  rcases Nat.lt_or_ge (min a (s.length - 1)) (min b (s.length - 1)) with h | h
  · exact List.pairwise_iff_getElem.mp hs _ _ ha hb h
  · have : min a (s.length - 1) = min b (s.length - 1) := by omega
    simp only [this, le_refl]

theorem ordStat_zero_le {s : List ℝ} (hs : s.Pairwise (· ≤ ·)) : ∀ x ∈ s, ordStat s 0 ≤ x := by
  intro x hx
  obtain ⟨j, hj, rfl⟩ := List.getElem_of_mem hx
  have := ordStat_mono hs (Nat.zero_le j)
  have ej := ordStat_of_lt hj
  rw [List.getElem?_eq_getElem hj] at ej
  rwa [← Option.some.inj ej] at this

theorem le_ordStat_last {s : List ℝ} (hs : s.Pairwise (· ≤ ·)) : ∀ x ∈ s, x ≤ ordStat s (s.length - 1) := by
  intro x hx
  obtain ⟨j, hj, rfl⟩ := List.getElem_of_mem hx
  have := ordStat_mono hs (show j ≤ s.length - 1 by omega)
  have ej := ordStat_of_lt hj
  rw [List.getElem?_eq_getElem hj] at ej
  rwa [← Option.some.inj ej] at this

theorem ordStat_ge_last (s : List ℝ) {k : ℕ} (hk : s.length - 1 ≤ k) : ordStat s k = ordStat s (s.length - 1) := by
  simp only [ordStat, min_eq_right hk, min_self]

/-- linear interpolation of a sequence at a non-negative real position -/
noncomputable def interp (E : ℕ → ℝ) (p : ℝ) : ℝ := E ⌊p⌋₊ + (p - (⌊p⌋₊ : ℝ)) * (E (⌊p⌋₊ + 1) - E ⌊p⌋₊)

theorem gamma_bounds {p : ℝ} (hp : 0 ≤ p) : 0 ≤ p - (⌊p⌋₊ : ℝ) ∧ p - (⌊p⌋₊ : ℝ) < 1 := by
  have := Nat.floor_le hp
  have := Nat.lt_floor_add_one p
  constructor <;> linarith

theorem interp_bounds {E : ℕ → ℝ} (hE : Monotone E) {p : ℝ} (hp : 0 ≤ p) :
    E ⌊p⌋₊ ≤ interp E p ∧ interp E p ≤ E (⌊p⌋₊ + 1) := by
  obtain ⟨g0, g1⟩ := gamma_bounds hp
  have hd : 0 ≤ E (⌊p⌋₊ + 1) - E ⌊p⌋₊ := sub_nonneg.mpr (hE (Nat.le_succ _))
  unfold interp
  constructor
  · have := mul_nonneg g0 hd; linarith
  · have := mul_nonneg (sub_nonneg.mpr g1.le) hd; linarith

theorem interp_natCast (E : ℕ → ℝ) (k : ℕ) : interp E (k : ℝ) = E k := by
  simp [interp, Nat.floor_natCast]

/-- the interpolation of a non-decreasing sequence is non-decreasing -/
theorem interp_mono {E : ℕ → ℝ} (hE : Monotone E) {p p' : ℝ} (hp : 0 ≤ p) (hpp : p ≤ p') :
    interp E p ≤ interp E p' := by
  have hp' : 0 ≤ p' := hp.trans hpp
  have hfl : ⌊p⌋₊ ≤ ⌊p'⌋₊ := Nat.floor_mono hpp
  rcases Nat.eq_or_lt_of_le hfl with h | h
  · unfold interp
    rw [← h]
    have hd : 0 ≤ E (⌊p⌋₊ + 1) - E ⌊p⌋₊ := sub_nonneg.mpr (hE (Nat.le_succ _))
    have := mul_nonneg (sub_nonneg.mpr hpp) hd
    linarith
  · calc interp E p ≤ E (⌊p⌋₊ + 1) := (interp_bounds hE hp).2
      _ ≤ E ⌊p'⌋₊ := hE h
      _ ≤ interp E p' := (interp_bounds hE hp').1

/-! ## `percentileValue` in closed form -/

/-- the position `q/100·(n-1)` of the `q`-th percentile in a list of `n` elements -/
noncomputable def pos (n : ℕ) (q : ℝ) : ℝ := q / 100 * ((n - 1 : ℕ) : ℝ)

theorem pos_bounds (n : ℕ) {q : ℝ} (h0 : 0 ≤ q) (h100 : q ≤ 100) :
    0 ≤ pos n q ∧ pos n q ≤ ((n - 1 : ℕ) : ℝ) := by
  have hn : (0 : ℝ) ≤ ((n - 1 : ℕ) : ℝ) := Nat.cast_nonneg _
  unfold pos
  constructor
  · positivity
  · have : q / 100 ≤ 1 := by linarith
    calc q / 100 * ((n - 1 : ℕ) : ℝ) ≤ 1 * ((n - 1 : ℕ) : ℝ) := mul_le_mul_of_nonneg_right this hn
      _ = _ := one_mul _

theorem pos_mono (n : ℕ) {q q' : ℝ} (h : q ≤ q') : pos n q ≤ pos n q' := by
  have hn : (0 : ℝ) ≤ ((n - 1 : ℕ) : ℝ) := Nat.cast_nonneg _
  unfold pos
  exact mul_le_mul_of_nonneg_right (by linarith) hn

/-- **closed form**: for a non-empty list and `0 ≤ q ≤ 100` the model returns the interpolation of the order
    statistics of `xs` at `q/100·(n-1)` -/
theorem percentileValue_eq_interp (xs : List ℝ) (hne : xs ≠ []) {q : ℝ} (h0 : 0 ≤ q) (h100 : q ≤ 100) :
    percentileValue xs q 100 = .ok (interp (ordStat (Pointcloud.sort xs)) (pos xs.length q)) := by
  have hlen := sort_length xs
  rcases hs : Pointcloud.sort xs with _ | ⟨s0, ss⟩
  · exact absurd (sort_eq_nil.mp hs) hne
  rw [hs] at hlen
  have hn : xs.length - 1 = ss.length := by rw [← hlen]; simp
  obtain ⟨hp0, hp1⟩ := pos_bounds xs.length h0 h100
  have hq : ¬ (q < 0 ∨ (100 : ℝ) < q) := by rintro (h | h) <;> linarith
  unfold percentileValue
  rw [if_neg hq]
  simp only [hs]
  have e1 : (Rounding.ofInt (Int.ofNat ss.length) : ℝ) = (ss.length : ℝ) := by
    show ((Int.ofNat ss.length : ℤ) : ℝ) = _
    simp
  have e2 : q / 100 * (Rounding.ofInt (Int.ofNat ss.length) : ℝ) = pos xs.length q := by
    rw [e1, pos, hn]
  rw [e2]
  set p := pos xs.length q with hpdef
  have e3 : (Rounding.floor p).toNat = ⌊p⌋₊ := Int.floor_toNat p
  rw [e3]
  have e4 : (Rounding.ofInt (Int.ofNat ⌊p⌋₊) : ℝ) = (⌊p⌋₊ : ℝ) := by
    show ((Int.ofNat ⌊p⌋₊ : ℤ) : ℝ) = _
    simp
  rw [e4]
  have hi : ⌊p⌋₊ ≤ ss.length := by
    apply Nat.floor_le_of_le
    rw [← hn]; exact hp1
  have hlo : (s0 :: ss).getD ⌊p⌋₊ s0 = ordStat (s0 :: ss) ⌊p⌋₊ := by
    have h1 : ⌊p⌋₊ < (s0 :: ss).length := by simp; omega
    have := ordStat_of_lt h1
    rw [List.getD_eq_getElem?_getD, this]; rfl
  have hhi : (s0 :: ss).getD (⌊p⌋₊ + 1) ((s0 :: ss).getD ⌊p⌋₊ s0) = ordStat (s0 :: ss) (⌊p⌋₊ + 1) := by
    rcases Nat.lt_or_ge ⌊p⌋₊ ss.length with h | h
    · have h1 : ⌊p⌋₊ + 1 < (s0 :: ss).length := by simp; omega
      have := ordStat_of_lt h1
      rw [List.getD_eq_getElem?_getD, this]; rfl
    · have h1 : (s0 :: ss).length ≤ ⌊p⌋₊ + 1 := by simp; omega
      rw [List.getD_eq_getElem?_getD, List.getElem?_eq_none h1, hlo]
      have ha : (s0 :: ss).length - 1 ≤ ⌊p⌋₊ := by simp; omega
      have hb : (s0 :: ss).length - 1 ≤ ⌊p⌋₊ + 1 := by omega
      rw [ordStat_ge_last _ ha, ordStat_ge_last _ hb]
      rfl
  rw [hhi, hlo]
  rfl

/-! ## the theorems about `percentileValue` -/

/-- **percentileValue_error_iff**: ValueError exactly for an empty list or `q` outside `[0, 100]`; a value
    otherwise (no other exception) -/
theorem percentileValue_error_iff (xs : List ℝ) (q : ℝ) :
    (percentileValue xs q 100 = .error .ValueError ↔ (xs = [] ∨ q < 0 ∨ 100 < q)) ∧
    (¬ (xs = [] ∨ q < 0 ∨ 100 < q) → ∃ v, percentileValue xs q 100 = .ok v) ∧
    (∀ e, percentileValue xs q 100 = .error e → e = .ValueError) := by
  by_cases hq : q < 0 ∨ (100 : ℝ) < q
  · have he : percentileValue xs q 100 = .error .ValueError := by
      unfold percentileValue; rw [if_pos hq]
    refine ⟨⟨fun _ => Or.inr hq, fun _ => he⟩, fun h => absurd (Or.inr hq) h, ?_⟩
    intro e h; rw [he] at h; cases h; rfl
  · by_cases hne : xs = []
    · have he : percentileValue xs q 100 = .error .ValueError := by
        subst hne
        unfold percentileValue; rw [if_neg hq]; rfl
      refine ⟨⟨fun _ => Or.inl hne, fun _ => he⟩, fun h => absurd (Or.inl hne) h, ?_⟩
      intro e h; rw [he] at h; cases h; rfl
    · have h0 : 0 ≤ q := by by_contra h; exact hq (Or.inl (not_le.mp h))
      have h100 : q ≤ 100 := by by_contra h; exact hq (Or.inr (not_le.mp h))
      have he := percentileValue_eq_interp xs hne h0 h100
      refine ⟨⟨?_, ?_⟩, fun _ => ⟨_, he⟩, ?_⟩
      · intro h; rw [he] at h; cases h
      · rintro (h | h)
        · exact absurd h hne
        · exact absurd h hq
      · intro e h; rw [he] at h; cases h

/-- **percentileValue_bracket**: with `n = len xs`, `pos = q/100·(n-1)`, `i = ⌊pos⌋`, `γ = pos - i`: `i ≤ n-1`,
    `0 ≤ γ < 1`, and the value is `lo + γ·(hi - lo) = (1-γ)·lo + γ·hi` where `lo = sorted[i]` and `hi = sorted[i+1]` are
    consecutive order statistics (`hi = lo = sorted[n-1]` when `i = n-1`, where necessarily `γ = 0`); so
    `lo ≤ v ≤ hi` -/
theorem percentileValue_bracket (xs : List ℝ) (hne : xs ≠ []) {q : ℝ} (h0 : 0 ≤ q) (h100 : q ≤ 100) :
    let n := xs.length
    let p := q / 100 * ((n - 1 : ℕ) : ℝ)
    let i := ⌊p⌋₊
    let γ := p - (i : ℝ)
    i ≤ n - 1 ∧ (i : ℤ) = ⌊p⌋ ∧ 0 ≤ γ ∧ γ < 1 ∧ (i = n - 1 → γ = 0) ∧
    ∃ lo hi v, (Pointcloud.sort xs)[i]? = some lo ∧ (Pointcloud.sort xs)[min (i + 1) (n - 1)]? = some hi ∧
      percentileValue xs q 100 = .ok v ∧ v = lo + γ * (hi - lo) ∧ v = (1 - γ) * lo + γ * hi ∧
      lo ≤ hi ∧ lo ≤ v ∧ v ≤ hi := by
  intro n p i γ
  have hpe : p = pos xs.length q := rfl
  obtain ⟨hp0, hp1⟩ := pos_bounds xs.length h0 h100
  rw [← hpe] at hp0 hp1
  obtain ⟨g0, g1⟩ := gamma_bounds hp0
  have hi : i ≤ n - 1 := Nat.floor_le_of_le hp1
  have hsne : Pointcloud.sort xs ≠ [] := fun h => hne (sort_eq_nil.mp h)
  have hsl := sort_length xs
  have hnpos : 0 < n := List.length_pos_iff.mpr hne
  have hE := ordStat_mono (sort_sorted xs)
  obtain ⟨b0, b1⟩ := interp_bounds hE hp0
  refine ⟨hi, ?_, g0, g1, ?_, ordStat (Pointcloud.sort xs) i, ordStat (Pointcloud.sort xs) (i + 1),
    interp (ordStat (Pointcloud.sort xs)) p, ?_, ?_, ?_, rfl, ?_, hE (Nat.le_succ i), b0, b1⟩
  · exact Int.natCast_floor_eq_floor hp0
  · intro h
    have h1 : ((n - 1 : ℕ) : ℝ) ≤ p := by rw [← h]; exact Nat.floor_le hp0
    have h2 : (i : ℝ) = ((n - 1 : ℕ) : ℝ) := by rw [h]
    show p - (i : ℝ) = 0
    rw [h2]; linarith
  · exact ordStat_of_lt (by rw [hsl]; omega)
  · have := ordStat_getElem? hsne (i + 1)
    rwa [hsl] at this
  · rw [hpe]; exact percentileValue_eq_interp xs hne h0 h100
  · show interp (ordStat (Pointcloud.sort xs)) p = _
    unfold interp
    ring

/-- **percentileValue_between**: the value lies between the least and the greatest element of `xs` (both are
    elements of `xs`; they are the first and the last element of the sorted list) -/
theorem percentileValue_between (xs : List ℝ) (hne : xs ≠ []) {q : ℝ} (h0 : 0 ≤ q) (h100 : q ≤ 100) :
    ∃ v, percentileValue xs q 100 = .ok v ∧
      (∃ a ∈ xs, (∀ x ∈ xs, a ≤ x) ∧ a ≤ v) ∧ (∃ b ∈ xs, (∀ x ∈ xs, x ≤ b) ∧ v ≤ b) ∧
      (∀ h : Pointcloud.sort xs ≠ [], (Pointcloud.sort xs).head h ≤ v ∧ v ≤ (Pointcloud.sort xs).getLast h) := by
  have hsne : Pointcloud.sort xs ≠ [] := fun h => hne (sort_eq_nil.mp h)
  have hss := sort_sorted xs
  have hE := ordStat_mono hss
  obtain ⟨hp0, hp1⟩ := pos_bounds xs.length h0 h100
  obtain ⟨b0, b1⟩ := interp_bounds hE hp0
  set s := Pointcloud.sort xs with hs
  have lo : ordStat s 0 ≤ interp (ordStat s) (pos xs.length q) := (hE (Nat.zero_le _)).trans b0
  have hi : interp (ordStat s) (pos xs.length q) ≤ ordStat s (s.length - 1) := by
    refine b1.trans ?_
    rcases Nat.lt_or_ge (⌊pos xs.length q⌋₊ + 1) (s.length - 1) with h | h
    · exact hE h.le
    · exact (ordStat_ge_last s h).le
  have hhead : ∀ h : s ≠ [], s.head h = ordStat s 0 := by
    intro h
    have := ordStat_of_lt (List.length_pos_iff.mpr h)
    rw [← List.head?_eq_getElem?, List.head?_eq_some_head h] at this
    exact Option.some.inj this
  have hlast : ∀ h : s ≠ [], s.getLast h = ordStat s (s.length - 1) := by
    intro h
    have hl := List.length_pos_iff.mpr h
    have := ordStat_of_lt (show s.length - 1 < s.length by omega)
    rw [← List.getLast?_eq_getElem?, List.getLast?_eq_some_getLast h] at this
    exact Option.some.inj this
  refine ⟨_, percentileValue_eq_interp xs hne h0 h100, ⟨ordStat s 0, mem_sort.mp (ordStat_mem hsne 0), ?_, lo⟩,
    ⟨ordStat s (s.length - 1), mem_sort.mp (ordStat_mem hsne _), ?_, hi⟩, ?_⟩
  · intro x hx; exact ordStat_zero_le hss x (mem_sort.mpr hx)
  · intro x hx; exact le_ordStat_last hss x (mem_sort.mpr hx)
  · intro h; rw [hhead h, hlast h]; exact ⟨lo, hi⟩

/-- **percentileValue_zero**: `q = 0` gives the minimum of `xs` -/
theorem percentileValue_zero (xs : List ℝ) (hne : xs ≠ []) :
    ∃ m, percentileValue xs 0 100 = .ok m ∧ m ∈ xs ∧ ∀ x ∈ xs, m ≤ x := by
  have hsne : Pointcloud.sort xs ≠ [] := fun h => hne (sort_eq_nil.mp h)
  have he := percentileValue_eq_interp xs hne (le_refl (0 : ℝ)) (by norm_num)
  have hp : pos xs.length 0 = ((0 : ℕ) : ℝ) := by simp [pos]
  rw [hp, interp_natCast] at he
  exact ⟨_, he, mem_sort.mp (ordStat_mem hsne 0), fun x hx => ordStat_zero_le (sort_sorted xs) x (mem_sort.mpr hx)⟩

/-- **percentileValue_hundred**: `q = 100` gives the maximum of `xs` -/
theorem percentileValue_hundred (xs : List ℝ) (hne : xs ≠ []) :
    ∃ m, percentileValue xs 100 100 = .ok m ∧ m ∈ xs ∧ ∀ x ∈ xs, x ≤ m := by
  have hsne : Pointcloud.sort xs ≠ [] := fun h => hne (sort_eq_nil.mp h)
  have he := percentileValue_eq_interp xs hne (by norm_num : (0 : ℝ) ≤ 100) (le_refl _)
  have hp : pos xs.length 100 = ((xs.length - 1 : ℕ) : ℝ) := by simp [pos]
  rw [hp, interp_natCast, ← sort_length xs] at he
  exact ⟨_, he, mem_sort.mp (ordStat_mem hsne _), fun x hx => le_ordStat_last (sort_sorted xs) x (mem_sort.mpr hx)⟩

/-- **percentileValue_at_order_statistic**: with `n ≥ 2` elements, `q = 100·k/(n-1)` (`k ≤ n-1`) gives the `k`-th
    element of the sorted list exactly -/
theorem percentileValue_at_order_statistic (xs : List ℝ) (h2 : 2 ≤ xs.length) (k : ℕ) (hk : k ≤ xs.length - 1) :
    ∃ v, (Pointcloud.sort xs)[k]? = some v ∧
      percentileValue xs (100 * (k : ℝ) / ((xs.length - 1 : ℕ) : ℝ)) 100 = .ok v := by
  have hne : xs ≠ [] := by rintro rfl; simp at h2
  have hn1 : (0 : ℝ) < ((xs.length - 1 : ℕ) : ℝ) := by
    have : 0 < xs.length - 1 := by omega
    exact_mod_cast this
  have hkr : (k : ℝ) ≤ ((xs.length - 1 : ℕ) : ℝ) := by exact_mod_cast hk
  have h0 : (0 : ℝ) ≤ 100 * (k : ℝ) / ((xs.length - 1 : ℕ) : ℝ) := by positivity
  have h100 : 100 * (k : ℝ) / ((xs.length - 1 : ℕ) : ℝ) ≤ 100 := by
    rw [div_le_iff₀ hn1]; nlinarith
  have he := percentileValue_eq_interp xs hne h0 h100
  have hp : pos xs.length (100 * (k : ℝ) / ((xs.length - 1 : ℕ) : ℝ)) = (k : ℝ) := by
    unfold pos; field_simp
  rw [hp, interp_natCast] at he
  exact ⟨_, ordStat_of_lt (by rw [sort_length]; omega), he⟩

/-- **percentileValue_mono**: the value is non-decreasing in `q` on `[0, 100]` -/
theorem percentileValue_mono (xs : List ℝ) (hne : xs ≠ []) {q₁ q₂ : ℝ} (h0 : 0 ≤ q₁) (h12 : q₁ ≤ q₂)
    (h100 : q₂ ≤ 100) :
    ∃ v₁ v₂, percentileValue xs q₁ 100 = .ok v₁ ∧ percentileValue xs q₂ 100 = .ok v₂ ∧ v₁ ≤ v₂ :=
  ⟨_, _, percentileValue_eq_interp xs hne h0 (h12.trans h100),
    percentileValue_eq_interp xs hne (h0.trans h12) h100,
    interp_mono (ordStat_mono (sort_sorted xs)) (pos_bounds xs.length h0 (h12.trans h100)).1
      (pos_mono xs.length h12)⟩

/-- **percentileValue_perm**: the result (value or exception) depends only on the multiset of `xs` -/
theorem percentileValue_perm {xs ys : List ℝ} (h : xs.Perm ys) (q : ℝ) :
    percentileValue xs q 100 = percentileValue ys q 100 := by
  unfold percentileValue
  rw [sort_congr h]

/-! ## `percentile` with the value NumPy computes -/

/-- **percentile_with_numpy_value**: for a non-empty cloud, an axis that is not almost zero and `0 ≤ q ≤ 100`, with
    `c := np.percentile(points.dot(â), q)` (the model `percentileValue` of it): `c` exists, `percentile` returns a point
    `r` satisfying `PercentileOk` (the clause proved in `C17.percentile_spec_partial`), `r` is on the line through the
    centroid along the unit axis `â = normalize axis`, its coordinate along `â` is `c`, and this coordinate lies
    between the least and the greatest coordinate of the cloud's points along `â` -/
theorem percentile_with_numpy_value (tol : ℝ) (htol : 0 ≤ tol) (pts : List (V3 ℝ)) (hne : pts ≠ []) (n : ℝ)
    (axis : V3 ℝ) (hax : almostZero tol axis = false) {q : ℝ} (h0 : 0 ≤ q) (h100 : q ≤ 100) :
    ∃ c r, percentileValue (coordsOnAxis pts axis) q 100 = .ok c ∧
      Pointcloud.percentile tol pts n axis c = .ok r ∧
      C17.PercentileOk tol pts n axis c ∧
      (V3.normalize axis).dot (V3.normalize axis) = 1 ∧
      r - centroid n pts = V3.smul (c - (centroid n pts).dot (V3.normalize axis)) (V3.normalize axis) ∧
      r.dot (V3.normalize axis) = c ∧
      (∃ p ∈ pts, (∀ p' ∈ pts, p.dot (V3.normalize axis) ≤ p'.dot (V3.normalize axis)) ∧
        p.dot (V3.normalize axis) ≤ r.dot (V3.normalize axis)) ∧
      (∃ p ∈ pts, (∀ p' ∈ pts, p'.dot (V3.normalize axis) ≤ p.dot (V3.normalize axis)) ∧
        r.dot (V3.normalize axis) ≤ p.dot (V3.normalize axis)) := by
  have hcne : coordsOnAxis pts axis ≠ [] := by
    unfold coordsOnAxis
    simpa using hne
  obtain ⟨c, hc, ⟨lo, hlo, hlomin, hloc⟩, ⟨hi, hhi, hhimax, hhic⟩, _⟩ :=
    percentileValue_between (coordsOnAxis pts axis) hcne h0 h100
  have hok := C17.percentile_spec_partial tol htol pts hne n axis hax c
  obtain ⟨r, a, hr, ha1, hsm, hm, _, hdot, hline⟩ := hok
  have hae : V3.normalize axis = a := by
    have hx : axis.x = V3.norm axis * a.x := by
      have := congrArg V3.x hsm; simpa only [V3.smul_x] using this
    have hy : axis.y = V3.norm axis * a.y := by
      have := congrArg V3.y hsm; simpa only [V3.smul_y] using this
    have hz : axis.z = V3.norm axis * a.z := by
      have := congrArg V3.z hsm; simpa only [V3.smul_z] using this
    have hm' : V3.norm axis ≠ 0 := hm.ne'
    ext
    · simp only [V3.normalize, V3.sdiv_x]; rw [div_eq_iff hm']; rw [mul_comm]; exact hx
    · simp only [V3.normalize, V3.sdiv_y]; rw [div_eq_iff hm']; rw [mul_comm]; exact hy
    · simp only [V3.normalize, V3.sdiv_z]; rw [div_eq_iff hm']; rw [mul_comm]; exact hz
  have hmem : ∀ x, x ∈ coordsOnAxis pts axis ↔ ∃ p ∈ pts, p.dot (V3.normalize axis) = x := by
    intro x; unfold coordsOnAxis; simp only [List.mem_map]
  rw [hae] at hmem ⊢
  obtain ⟨plo, hplo, elo⟩ := (hmem lo).mp hlo
  obtain ⟨phi, hphi, ehi⟩ := (hmem hi).mp hhi
  refine ⟨c, r, hc, hr, C17.percentile_spec_partial tol htol pts hne n axis hax c, ha1, hline, hdot,
    ⟨plo, hplo, ?_, ?_⟩, ⟨phi, hphi, ?_, ?_⟩⟩
  · intro p' hp'; rw [elo]; exact hlomin _ ((hmem _).mpr ⟨p', hp', rfl⟩)
  · rw [elo, hdot]; exact hloc
  · intro p' hp'; rw [ehi]; exact hhimax _ ((hmem _).mpr ⟨p', hp', rfl⟩)
  · rw [ehi, hdot]; exact hhic

/-! ## non-vacuity on `[3, 1, 2, 2]` -/

theorem sort_example : Pointcloud.sort ([3, 1, 2, 2] : List ℝ) = [1, 2, 2, 3] := by
  norm_num [Pointcloud.sort, insertSorted]

/-- `sort_perm`, `sort_sorted`, `sort_length` on a concrete list -/
example : ([1, 2, 2, 3] : List ℝ).Perm [3, 1, 2, 2] ∧ ([1, 2, 2, 3] : List ℝ).Pairwise (· ≤ ·) ∧
    (Pointcloud.sort ([3, 1, 2, 2] : List ℝ)).length = 4 := by
  refine ⟨?_, ?_, ?_⟩
  · rw [← sort_example]; exact sort_perm _
  · rw [← sort_example]; exact sort_sorted _
  · rw [sort_length]; rfl

/-- `percentileValue_error_iff`: both sides occur -/
example : percentileValue ([3, 1, 2, 2] : List ℝ) 101 100 = .error .ValueError ∧
    percentileValue ([] : List ℝ) 50 100 = .error .ValueError ∧
    ∃ v, percentileValue ([3, 1, 2, 2] : List ℝ) 50 100 = .ok v := by
  refine ⟨?_, ?_, ?_⟩
  · exact (percentileValue_error_iff _ _).1.mpr (Or.inr (Or.inr (by norm_num)))
  · exact (percentileValue_error_iff _ _).1.mpr (Or.inl rfl)
  · exact (percentileValue_error_iff _ _).2.1 (by simp; norm_num)

/-- hypotheses of `percentileValue_between` / `_bracket` / `_mono` / `_zero` / `_hundred` are satisfiable -/
example : ([3, 1, 2, 2] : List ℝ) ≠ [] ∧ (0 : ℝ) ≤ 40 ∧ (40 : ℝ) ≤ 75 ∧ (75 : ℝ) ≤ 100 := by
  refine ⟨by simp, ?_, ?_, ?_⟩ <;> norm_num

/-- `percentileValue_zero` / `_hundred` on the concrete list: minimum 1, maximum 3 -/
example : percentileValue ([3, 1, 2, 2] : List ℝ) 0 100 = .ok 1 ∧
    percentileValue ([3, 1, 2, 2] : List ℝ) 100 100 = .ok 3 := by
  constructor
  · obtain ⟨m, hm, hmem, hmin⟩ := percentileValue_zero ([3, 1, 2, 2] : List ℝ) (by simp)
    have h1 := hmin 1 (by simp)
    have : m = 1 := by
      simp only [List.mem_cons, List.not_mem_nil, or_false] at hmem
      rcases hmem with h | h | h | h <;> rw [h] at h1 ⊢ <;> first | rfl | (exfalso; norm_num at h1)
    rw [hm, this]
  · obtain ⟨m, hm, hmem, hmax⟩ := percentileValue_hundred ([3, 1, 2, 2] : List ℝ) (by simp)
    have h3 := hmax 3 (by simp)
    have : m = 3 := by
      simp only [List.mem_cons, List.not_mem_nil, or_false] at hmem
      rcases hmem with h | h | h | h <;> rw [h] at h3 ⊢ <;> first | rfl | (exfalso; norm_num at h3)
    rw [hm, this]

/-- `percentileValue_at_order_statistic` on the concrete list: `n = 4`, `k = 1`, `q = 100/3` gives `sorted[1] = 2` -/
example : percentileValue ([3, 1, 2, 2] : List ℝ) (100 * ((1 : ℕ) : ℝ) / (((4 : ℕ) - 1 : ℕ) : ℝ)) 100 = .ok 2 := by
  obtain ⟨v, hv, he⟩ := percentileValue_at_order_statistic ([3, 1, 2, 2] : List ℝ) (by simp) 1 (by simp)
  rw [sort_example] at hv
  simp only [List.getElem?_cons_succ, List.getElem?_cons_zero, Option.some.injEq] at hv
  subst hv
  exact he

/-- `percentileValue_bracket` on the concrete list: `q = 90` gives `pos = 2.7`, `i = 2`, `γ = 0.7`,
    value `2 + 0.7·(3 - 2) = 2.7` -/
example : percentileValue ([3, 1, 2, 2] : List ℝ) 90 100 = .ok 2.7 := by
  have hb := percentileValue_bracket ([3, 1, 2, 2] : List ℝ) (by simp) (q := 90) (by norm_num) (by norm_num)
  have hp : (90 : ℝ) / 100 * (((([3, 1, 2, 2] : List ℝ).length - 1 : ℕ)) : ℝ) = 2.7 := by
    simp only [List.length_cons, List.length_nil]; norm_num
  simp only [hp] at hb
  have hf : ⌊(2.7 : ℝ)⌋₊ = 2 := by
    rw [Nat.floor_eq_iff (by norm_num)]; constructor <;> norm_num
  rw [hf, sort_example] at hb
  obtain ⟨_, _, _, _, _, lo, hi, v, hlo, hhi, hv, he, _⟩ := hb
  simp only [List.length_cons, List.length_nil, List.getElem?_cons_succ, List.getElem?_cons_zero,
    Option.some.injEq] at hlo hhi
  norm_num at hhi
  rw [hv, he, ← hlo, ← hhi]
  norm_num

/-- `percentileValue_perm` hypothesis: a non-trivial permutation -/
example : ([3, 1, 2, 2] : List ℝ).Perm [2, 3, 2, 1] := by
  rw [List.perm_iff_count]
  intro a
  simp only [List.count_cons, List.count_nil]
  split_ifs <;> simp_all

/-- hypotheses of `percentile_with_numpy_value` are satisfiable (`tol = 1e-8`, axis `(0, 2, 0)`, three points) -/
example : (0 : ℝ) ≤ 1e-8 ∧ ([⟨0, 3, 0⟩, ⟨1, 1, 0⟩, ⟨0, 2, 5⟩] : List (V3 ℝ)) ≠ [] ∧
    almostZero (1e-8 : ℝ) ⟨0, 2, 0⟩ = false := by
  refine ⟨by norm_num, by simp, ?_⟩
  simp only [almostZero, Pointcloud.absK, Bool.and_eq_false_iff, decide_eq_false_iff_not]
  left; right; norm_num

end PW.C17Pct
