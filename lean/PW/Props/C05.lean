/-
  C05 — Plane point queries follow signed-distance semantics.

  Property theorems only (helper lemmas live in PW/Lemmas).  Every theorem is over an arbitrary linearly
  ordered field `K` (hence ℚ and ℝ at once); `n` is the plane normal; unit length is an explicit
  hypothesis `hn : n·n = 1` exactly where it is needed, and the general (any-normal) law is proved too.
-/
import PW.Model.Plane
import PW.Gen.PlaneFn
import PW.Lemmas.Vec
import Mathlib.Tactic.Ring
import Mathlib.Tactic.LinearCombination
import Mathlib.Tactic.Linarith
import Mathlib.Algebra.Order.Field.Basic

set_option linter.unusedSectionVars false

namespace PW.C05

variable {K : Type} [Field K] [LinearOrder K] [IsStrictOrderedRing K]

open Plane

/-- signed_distance equals the dot product of (point − reference point) with the normal. -/
theorem signed_distance_def (pl : Plane K) (p : V3 K) :
    pl.signedDistance p = (p - pl.ref).dot pl.n := by
  simp only [signedDistance, signedDistanceEq, equation, eqNormal, eqOffset, V3.dot_def, V3.sub_x,
    V3.sub_y, V3.sub_z]
  ring

/-- `sign` classifies by exactly that value. -/
theorem sign_pos_iff (pl : Plane K) (p : V3 K) : pl.sign p = 1 ↔ 0 < pl.signedDistance p := by
  unfold Plane.sign sgn
  split_ifs with h1 h2 <;> simp_all
theorem sign_neg_iff (pl : Plane K) (p : V3 K) : pl.sign p = -1 ↔ pl.signedDistance p < 0 := by
  unfold Plane.sign sgn
  split_ifs with h1 h2 <;> simp_all
  · exact le_of_lt h1
theorem sign_zero_iff (pl : Plane K) (p : V3 K) : pl.sign p = 0 ↔ pl.signedDistance p = 0 := by
  unfold Plane.sign sgn
  split_ifs with h1 h2
  · simp; exact ne_of_gt h1
  · simp; exact ne_of_lt h2
  · simp; exact le_antisymm (not_lt.mp h1) (not_lt.mp h2)

/-- `distance` is the absolute value of the signed distance. -/
theorem distance_def (pl : Plane K) (p : V3 K) : pl.distance p = |pl.signedDistance p| := by
  unfold Plane.distance
  simp only
  split_ifs with h
  · exact (abs_of_neg h).symm
  · exact (abs_of_nonneg (not_lt.mp h)).symm

/-! ### selections -/

theorem mem_flatnonzero (mask : List Bool) (i : Nat) :
    i ∈ flatnonzero mask ↔ mask[i]? = some true := by
  unfold flatnonzero
  simp only [List.mem_filter, List.mem_range]
  constructor
  · rintro ⟨hi, h⟩
    simp [List.getD, List.getElem?_eq_getElem hi] at h ⊢
    exact h
  · intro h
    have hi : i < mask.length := (List.getElem?_eq_some_iff.mp h).1
    refine ⟨hi, ?_⟩
    simp [List.getD, h]

/-- `points_in_front(ret_indices=True)` returns exactly the indices with positive signed distance,
    `inverted` exactly those with negative signed distance. -/
theorem mem_in_front_idx (pl : Plane K) (inv : Bool) (pts : List (V3 K)) (i : Nat) :
    i ∈ pl.pointsInFrontIdx inv pts ↔
      ∃ p, pts[i]? = some p ∧ (if inv then pl.signedDistance p < 0 else 0 < pl.signedDistance p) := by
  unfold pointsInFrontIdx inFrontMask
  rw [mem_flatnonzero]
  simp only [List.getElem?_map, Option.map_eq_some_iff]
  constructor
  · rintro ⟨p, hp, h⟩
    refine ⟨p, hp, ?_⟩
    cases inv <;> simp at h ⊢
    · have := (sign_pos_iff pl p).mp (by unfold Plane.sign sgn at *; split_ifs at h ⊢ <;> simp_all)
      exact this
    · have := (sign_neg_iff pl p).mp (by unfold Plane.sign sgn at *; split_ifs at h ⊢ <;> simp_all)
      exact this
  · rintro ⟨p, hp, h⟩
    refine ⟨p, hp, ?_⟩
    cases inv <;> simp at h ⊢
    · rw [(sign_pos_iff pl p).mpr h]; decide
    · rw [(sign_neg_iff pl p).mpr h]; decide

theorem mem_on_or_in_front_idx (pl : Plane K) (inv : Bool) (pts : List (V3 K)) (i : Nat) :
    i ∈ pl.pointsOnOrInFrontIdx inv pts ↔
      ∃ p, pts[i]? = some p ∧ (if inv then pl.signedDistance p ≤ 0 else 0 ≤ pl.signedDistance p) := by
  unfold pointsOnOrInFrontIdx onOrInFrontMask
  rw [mem_flatnonzero]
  simp only [List.getElem?_map, Option.map_eq_some_iff]
  have key : ∀ p : V3 K, (pl.sign p ≤ 0 ↔ pl.signedDistance p ≤ 0) ∧ (pl.sign p ≥ 0 ↔ 0 ≤ pl.signedDistance p) := by
    intro p
    unfold Plane.sign sgn
    split_ifs with h1 h2
    · exact ⟨by simp; exact h1, by simp; exact le_of_lt h1⟩
    · exact ⟨by simp; exact le_of_lt h2, by simp; exact h2⟩
    · exact ⟨by simp; exact not_lt.mp h1, by simp; exact not_lt.mp h2⟩
  constructor
  · rintro ⟨p, hp, h⟩
    refine ⟨p, hp, ?_⟩
    cases inv <;> simp at h ⊢
    · exact (key p).2.mp h
    · exact (key p).1.mp h
  · rintro ⟨p, hp, h⟩
    refine ⟨p, hp, ?_⟩
    cases inv <;> simp at h ⊢
    · exact (key p).2.mpr h
    · exact (key p).1.mpr h

/-- 'in front' and 'inverted on-or-in-front' partition every point set (each valid index is in exactly one). -/
theorem partition_front (pl : Plane K) (pts : List (V3 K)) (i : Nat) (hi : i < pts.length) :
    (i ∈ pl.pointsInFrontIdx false pts ↔ ¬ i ∈ pl.pointsOnOrInFrontIdx true pts) := by
  rw [mem_in_front_idx, mem_on_or_in_front_idx]
  simp only [List.getElem?_eq_getElem hi, Option.some.injEq, exists_eq_left', Bool.false_eq_true, if_false, if_true]
  exact (not_le).symm

/-- 'on-or-in-front' and 'inverted in-front' partition every point set. -/
theorem partition_on_or_in_front (pl : Plane K) (pts : List (V3 K)) (i : Nat) (hi : i < pts.length) :
    (i ∈ pl.pointsOnOrInFrontIdx false pts ↔ ¬ i ∈ pl.pointsInFrontIdx true pts) := by
  rw [mem_in_front_idx, mem_on_or_in_front_idx]
  simp only [List.getElem?_eq_getElem hi, Option.some.injEq, exists_eq_left', Bool.false_eq_true, if_false, if_true]
  exact (not_lt).symm

/-- indices come out in increasing order without repeats, all valid (order preserving selection). -/
theorem idx_sorted (mask : List Bool) :
    (flatnonzero mask).Pairwise (· < ·) ∧ ∀ i ∈ flatnonzero mask, i < mask.length := by
  unfold flatnonzero
  refine ⟨List.Pairwise.filter _ (List.pairwise_lt_range), ?_⟩
  intro i hi
  exact List.mem_range.mp (List.mem_filter.mp hi).1

/-- the "points" form is the "indices" form applied to the input (`points[indices]`). -/
theorem points_eq_take_indices (pl : Plane K) (inv : Bool) (pts : List (V3 K)) :
    pl.pointsInFront inv pts = Plane.take pts (pl.pointsInFrontIdx inv pts) ∧
    pl.pointsOnOrInFront inv pts = Plane.take pts (pl.pointsOnOrInFrontIdx inv pts) := ⟨rfl, rfl⟩

/-! ### projection, mirroring, flipping -/

/-- general law for any normal: the projected point has signed distance `d·(1 − n·n)`. -/
theorem project_sd_general (pl : Plane K) (p : V3 K) :
    pl.signedDistance (pl.projectPoint p) = pl.signedDistance p * (1 - pl.n.dot pl.n) := by
  simp only [projectPoint, projectPointToPlane, translateAlongNormal, projectFactor, signedDistance,
    signedDistanceEq, equation, eqNormal, eqOffset, V3.dot_def, V3.add_x, V3.add_y, V3.add_z,
    V3.smul_x, V3.smul_y, V3.smul_z]
  ring

/-- project_point lands on the plane (unit normal). -/
theorem project_on_plane (pl : Plane K) (p : V3 K) (hn : pl.n.dot pl.n = 1) :
    pl.signedDistance (pl.projectPoint p) = 0 := by
  rw [project_sd_general, hn]; ring

/-- project_point moves the point along the normal: `project p = p − d·n`. -/
theorem project_along_normal (pl : Plane K) (p : V3 K) :
    pl.projectPoint p = p - V3.smul (pl.signedDistance p) pl.n := by
  ext <;>
  simp only [projectPoint, projectPointToPlane, translateAlongNormal, projectFactor, signedDistance,
    eqNormal, equation, V3.add_x, V3.add_y, V3.add_z, V3.sub_x, V3.sub_y, V3.sub_z,
    V3.smul_x, V3.smul_y, V3.smul_z] <;> ring

/-- project_point is idempotent (unit normal). -/
theorem project_idempotent (pl : Plane K) (p : V3 K) (hn : pl.n.dot pl.n = 1) :
    pl.projectPoint (pl.projectPoint p) = pl.projectPoint p := by
  rw [project_along_normal pl (pl.projectPoint p), project_on_plane pl p hn]
  ext <;> simp

theorem mirror_sd_general (pl : Plane K) (p : V3 K) :
    pl.signedDistance (pl.mirrorPoint p) = pl.signedDistance p * (1 - 2 * pl.n.dot pl.n) := by
  simp only [mirrorPoint, mirrorPointAcrossPlane, translateAlongNormal, mirrorFactor, signedDistance,
    signedDistanceEq, equation, eqNormal, eqOffset, V3.dot_def, V3.add_x, V3.add_y, V3.add_z,
    V3.smul_x, V3.smul_y, V3.smul_z]
  ring

/-- mirror_point negates the signed distance (unit normal). -/
theorem mirror_negates (pl : Plane K) (p : V3 K) (hn : pl.n.dot pl.n = 1) :
    pl.signedDistance (pl.mirrorPoint p) = - pl.signedDistance p := by
  rw [mirror_sd_general, hn]; ring

theorem mirror_along_normal (pl : Plane K) (p : V3 K) :
    pl.mirrorPoint p = p - V3.smul (2 * pl.signedDistance p) pl.n := by
  ext <;>
  simp only [mirrorPoint, mirrorPointAcrossPlane, translateAlongNormal, mirrorFactor, signedDistance,
    eqNormal, equation, V3.add_x, V3.add_y, V3.add_z, V3.sub_x, V3.sub_y, V3.sub_z,
    V3.smul_x, V3.smul_y, V3.smul_z] <;> ring

/-- mirror_point is an involution (unit normal). -/
theorem mirror_involution (pl : Plane K) (p : V3 K) (hn : pl.n.dot pl.n = 1) :
    pl.mirrorPoint (pl.mirrorPoint p) = p := by
  rw [mirror_along_normal pl (pl.mirrorPoint p), mirror_negates pl p hn, mirror_along_normal]
  ext <;> simp only [V3.sub_x, V3.sub_y, V3.sub_z, V3.smul_x, V3.smul_y, V3.smul_z] <;> ring

/-- the midpoint of a point and its mirror image is the projection (any normal). -/
theorem mirror_midpoint (pl : Plane K) (p : V3 K) :
    V3.smul (1 / 2) (p + pl.mirrorPoint p) = pl.projectPoint p := by
  rw [mirror_along_normal, project_along_normal]
  ext <;> simp only [V3.add_x, V3.add_y, V3.add_z, V3.sub_x, V3.sub_y, V3.sub_z, V3.smul_x, V3.smul_y,
    V3.smul_z] <;> ring

/-- flipped() negates every signed distance … -/
theorem flipped_negates (pl : Plane K) (p : V3 K) :
    pl.flipped.signedDistance p = - pl.signedDistance p := by
  simp only [flipped, signedDistance, signedDistanceEq, equation, eqNormal, eqOffset, V3.dot_def,
    V3.neg_x, V3.neg_y, V3.neg_z]
  ring

/-- … and keeps the same point set. -/
theorem flipped_same_points (pl : Plane K) (p : V3 K) :
    pl.flipped.signedDistance p = 0 ↔ pl.signedDistance p = 0 := by
  rw [flipped_negates]; exact neg_eq_zero

/-- `equation` describes the plane: `A x + B y + C z + D` is the signed distance, and the reference point satisfies it. -/
theorem equation_describes (pl : Plane K) (p : V3 K) :
    pl.equation.x * p.x + pl.equation.y * p.y + pl.equation.z * p.z + pl.equation.w = pl.signedDistance p ∧
    pl.signedDistance pl.ref = 0 := by
  constructor
  · simp only [signedDistance, signedDistanceEq, equation, eqNormal, eqOffset, V3.dot_def]; ring
  · rw [signed_distance_def]; simp only [V3.dot_def, V3.sub_x, V3.sub_y, V3.sub_z]; ring

/-- `canonical_point` lies on the same plane (unit normal), and is a multiple of the normal. -/
theorem canonical_point_on_plane (pl : Plane K) (hn : pl.n.dot pl.n = 1) :
    pl.signedDistance pl.canonicalPoint = 0 := by
  simp only [canonicalPoint, signedDistance, signedDistanceEq, equation, eqNormal, eqOffset, V3.dot_def,
    V3.smul_x, V3.smul_y, V3.smul_z] at *
  linear_combination (pl.ref.x * pl.n.x + pl.ref.y * pl.n.y + pl.ref.z * pl.n.z) * hn

/-- the module-level functions give the same answers as the methods (they are what the methods call),
    and the one-equation-per-point form is the row-by-row application. -/
theorem functions_agree (pl : Plane K) (p : V3 K) :
    signedDistanceEq p pl.equation = pl.signedDistance p ∧
    projectPointToPlane p pl.equation = pl.projectPoint p ∧
    mirrorPointAcrossPlane p pl.equation = pl.mirrorPoint p := ⟨rfl, rfl, rfl⟩

theorem stacked_equations_rowwise (pts : List (V3 K)) (eqs : List (V4 K)) (i : Nat)
    (h : i < pts.length) (h' : i < eqs.length) :
    (List.zipWith signedDistanceEq pts eqs)[i]? = some (signedDistanceEq pts[i] eqs[i]) ∧
    (List.zipWith projectPointToPlane pts eqs)[i]? = some (projectPointToPlane pts[i] eqs[i]) ∧
    (List.zipWith mirrorPointAcrossPlane pts eqs)[i]? = some (mirrorPointAcrossPlane pts[i] eqs[i]) := by
  simp [List.getElem?_zipWith, List.getElem?_eq_getElem h, List.getElem?_eq_getElem h']

/-- non-vacuity: a concrete plane with a unit normal and points on each side. -/
example : let pl : Plane ℚ := ⟨⟨0, 0, 1⟩, ⟨0, 0, 1⟩⟩
    pl.n.dot pl.n = 1 ∧ pl.signedDistance ⟨3, 4, 5⟩ = 4 ∧ pl.sign ⟨0, 0, 0⟩ = -1 ∧
    pl.pointsInFrontIdx false [⟨0,0,0⟩, ⟨0,0,2⟩, ⟨0,0,1⟩] = [1] := by
  decide +kernel

/-! ## what the model takes from the source

`harness/translate/c05.py` reads the literals, comparison operators and formulas of
`polliwog/plane/_plane_functions.py` and of the point-query methods of `polliwog/plane/_plane_object.py` out of the
source text into `PW/Gen/PlaneFn.lean` on every run.  The theorems below state that each generated value is the one the
hand-written model `PW/Model/Plane.lean` was written from (and, where the literal is a Lean literal of the model, that
the model computes with exactly the generated value), so that an edit of one of them in the source breaks a proof
obligation here. -/

/-- `project_point_to_plane` passes `factor=-1`: the model's `projectFactor`. -/
theorem gen_project_factor :
    PW.Gen.PlaneFn.projectFactor = -1 ∧ PW.Gen.PlaneFn.projectCallOk = some true ∧
    (projectFactor (K := K)) = ((PW.Gen.PlaneFn.projectFactor : Int) : K) ∧
    ∀ (p : V3 K) (e : V4 K),
      projectPointToPlane p e = translateAlongNormal p e ((PW.Gen.PlaneFn.projectFactor : Int) : K) := by
  refine ⟨by decide, by decide, ?_, ?_⟩
  · simp [projectFactor, PW.Gen.PlaneFn.projectFactor]
  · intro p e
    simp [projectPointToPlane, projectFactor, PW.Gen.PlaneFn.projectFactor]

/-- `mirror_point_across_plane` passes `factor=-2`: the model's `mirrorFactor`. -/
theorem gen_mirror_factor :
    PW.Gen.PlaneFn.mirrorFactor = -2 ∧ PW.Gen.PlaneFn.mirrorCallOk = some true ∧
    (mirrorFactor (K := K)) = ((PW.Gen.PlaneFn.mirrorFactor : Int) : K) ∧
    ∀ (p : V3 K) (e : V4 K),
      mirrorPointAcrossPlane p e = translateAlongNormal p e ((PW.Gen.PlaneFn.mirrorFactor : Int) : K) := by
  have h : (mirrorFactor (K := K)) = ((PW.Gen.PlaneFn.mirrorFactor : Int) : K) := by
    simp only [mirrorFactor, PW.Gen.PlaneFn.mirrorFactor]
    push_cast
    ring
  refine ⟨by decide, by decide, h, ?_⟩
  intro p e
  rw [← h]
  rfl

/-- [semantic + text] `translate_points_along_plane_normal` returns `points + factor * signed_distance * normals`
    (single point and stack), `signed_distance_to_plane` returns `vg.dot(points, normals) + offsets`, and
    `normal_and_offset_from_plane_equations` splits `[A, B, C | D]` at index 3.  The generated sums-of-products, evaluated
    at the model's values of their atoms, ARE the model's `translateAlongNormal` (per coordinate) and `signedDistanceEq`;
    the generated slice bound / index select the model's `eqNormal` / `eqOffset` out of `[A, B, C, D]`.
    (Text only: the `…Src` strings, kept as a readable record; `stackedEquations…` — the `ndim == 2` dispatch is array
    plumbing with no counterpart in the model.) -/
theorem gen_translate_formula :
    (PW.Gen.PlaneFn.translateSrc = "NORMALS * factor * SD + points" ∧
      PW.Gen.PlaneFn.translateStackedSrc = "NORMALS * factor * SD.reshape(-1, 1) + points" ∧
      PW.Gen.PlaneFn.signedDistanceSrc = "OFFSETS + vg.dot(points, NORMALS)" ∧
      PW.Gen.PlaneFn.normalOffsetSrc =
        "(plane_equations[:, :3] if plane_equations.ndim == 2 else plane_equations[:3], plane_equations[:, 3] if plane_equations.ndim == 2 else plane_equations[3])" ∧
      PW.Gen.PlaneFn.stackedEquationsCmp = .eq ∧ PW.Gen.PlaneFn.stackedEquationsLhs = "plane_equations.ndim" ∧
      PW.Gen.PlaneFn.stackedEquationsRhs = 2) ∧
    (∀ (p : V3 K) (e : V4 K) (factor : K),
      let env := fun (pc nc : K) => PW.Gen.envOf
        [("points", pc), ("NORMALS", nc), ("SD", signedDistanceEq p e), ("SD.reshape(-1, 1)", signedDistanceEq p e),
         ("factor", factor)]
      (translateAlongNormal p e factor).x = PW.Gen.PlaneFn.translatePoly.eval (env p.x (eqNormal e).x) ∧
      (translateAlongNormal p e factor).y = PW.Gen.PlaneFn.translatePoly.eval (env p.y (eqNormal e).y) ∧
      (translateAlongNormal p e factor).z = PW.Gen.PlaneFn.translatePoly.eval (env p.z (eqNormal e).z) ∧
      (translateAlongNormal p e factor).x = PW.Gen.PlaneFn.translateStackedPoly.eval (env p.x (eqNormal e).x) ∧
      (translateAlongNormal p e factor).y = PW.Gen.PlaneFn.translateStackedPoly.eval (env p.y (eqNormal e).y) ∧
      (translateAlongNormal p e factor).z = PW.Gen.PlaneFn.translateStackedPoly.eval (env p.z (eqNormal e).z)) ∧
    (∀ (p : V3 K) (e : V4 K), signedDistanceEq p e =
      PW.Gen.PlaneFn.signedDistancePoly.eval
        (PW.Gen.envOf [("OFFSETS", eqOffset e), ("vg.dot(points, NORMALS)", p.dot (eqNormal e))])) ∧
    (∀ (e : V4 K), ∀ stop ∈ PW.Gen.PlaneFn.normalSliceStops, ∀ i ∈ PW.Gen.PlaneFn.offsetIndices,
      [(eqNormal e).x, (eqNormal e).y, (eqNormal e).z] = [e.x, e.y, e.z, e.w].take stop.toNat ∧
      some (eqOffset e) = PW.Gen.pyGet? [e.x, e.y, e.z, e.w] i) := by
  refine ⟨⟨rfl, rfl, rfl, rfl, by decide, rfl, by decide⟩, ?_, ?_, ?_⟩
  · intro p e factor
    simp only [PW.Gen.PlaneFn.translatePoly, PW.Gen.PlaneFn.translateStackedPoly, PW.Gen.Poly.eval, PW.Gen.prodOf,
      PW.Gen.envOf, translateAlongNormal, V3.add_x, V3.add_y, V3.add_z, V3.smul_x, V3.smul_y, V3.smul_z]
    simp only [String.reduceEq, if_true, if_false]
    refine ⟨?_, ?_, ?_, ?_, ?_, ?_⟩ <;> push_cast <;> ring
  · intro p e
    simp only [PW.Gen.PlaneFn.signedDistancePoly, PW.Gen.Poly.eval, PW.Gen.prodOf, PW.Gen.envOf, signedDistanceEq]
    simp only [String.reduceEq, if_true, if_false]
    push_cast
    ring
  · intro e stop hs i hi
    simp only [PW.Gen.PlaneFn.normalSliceStops, PW.Gen.PlaneFn.offsetIndices, List.mem_cons, List.mem_nil_iff,
      or_false, or_self] at hs hi
    subst hs hi
    exact ⟨rfl, rfl⟩

/-- the model function a `plane_functions` name stands for (`none`: unknown name — falsifies the tie) -/
def pointFnOfName (s : String) : Option (V3 K → V4 K → V3 K) :=
  if s = "project_point_to_plane" then some projectPointToPlane
  else if s = "mirror_point_across_plane" then some mirrorPointAcrossPlane else none

/-- the model function a NumPy wrapper name stands for, on a signed distance -/
def absOfName (s : String) (x : K) : Option K :=
  if s = "np.absolute" then some (if x < 0 then -x else x) else if s = "np.abs" then some (if x < 0 then -x else x) else none

/-- [semantic + text] the thin methods.  Semantic: `project_point` / `mirror_point` call the module functions the model's
    `projectPoint` / `mirrorPoint` call, on `(points, self.equation)`; `signed_distance` calls `signed_distance_to_plane`
    (the model's `signedDistance` is `signedDistanceEq` of the equation); `distance` wraps the signed distance in
    `np.absolute` (the model's `distance`), `sign` in `np.sign` (the model's `sgn`); `canonical_point`, as a product of
    atoms, is the model's `canonicalPoint` per coordinate; `flipped` keeps the reference point and negates the normal with
    the generated coefficients.  (The name ↔ model-function tables `pointFnOfName`, `absOfName` and `"np.sign"` ↔ `sgn`,
    `"signed_distance_to_plane"` ↔ `signedDistanceEq` are written by hand.)  Text only: the `…Src` strings (record). -/
theorem gen_method_bodies :
    (PW.Gen.PlaneFn.signSrc = "np.sign(self.signed_distance(points))" ∧
      PW.Gen.PlaneFn.signedDistanceMethodSrc = "signed_distance_to_plane(points, self.equation)" ∧
      PW.Gen.PlaneFn.distanceSrc = "np.absolute(self.signed_distance(points))" ∧
      PW.Gen.PlaneFn.projectMethodSrc = "project_point_to_plane(points, self.equation)" ∧
      PW.Gen.PlaneFn.mirrorMethodSrc = "mirror_point_across_plane(points, self.equation)" ∧
      PW.Gen.PlaneFn.canonicalPointSrc = "np.dot(self.reference_point, self.normal) * self.normal" ∧
      PW.Gen.PlaneFn.flippedSrc = "Plane(normal=-self.normal, reference_point=self.reference_point)") ∧
    (PW.Gen.PlaneFn.signedDistanceMethodArgs = ["points", "self.equation"] ∧
      PW.Gen.PlaneFn.projectMethodArgs = ["points", "self.equation"] ∧
      PW.Gen.PlaneFn.mirrorMethodArgs = ["points", "self.equation"] ∧
      PW.Gen.PlaneFn.signInner = "self.signed_distance(points)" ∧
      PW.Gen.PlaneFn.distanceInner = "self.signed_distance(points)" ∧
      PW.Gen.PlaneFn.flippedNormalTerm = "self.normal" ∧ PW.Gen.PlaneFn.flippedRefTerm = "self.reference_point") ∧
    (∀ (pl : Plane K) (p : V3 K),
      some (pl.projectPoint p) = (pointFnOfName PW.Gen.PlaneFn.projectMethodCallee).map (fun f => f p pl.equation) ∧
      some (pl.mirrorPoint p) = (pointFnOfName PW.Gen.PlaneFn.mirrorMethodCallee).map (fun f => f p pl.equation) ∧
      some (pl.signedDistance p) =
        (if PW.Gen.PlaneFn.signedDistanceMethodCallee = "signed_distance_to_plane"
          then some (signedDistanceEq p pl.equation) else none) ∧
      some (pl.distance p) = absOfName PW.Gen.PlaneFn.distanceWrapper (pl.signedDistance p) ∧
      some (pl.sign p) =
        (if PW.Gen.PlaneFn.signWrapper = "np.sign" then some (sgn (pl.signedDistance p)) else none)) ∧
    (∀ (pl : Plane K),
      let env := fun (nc : K) => PW.Gen.envOf
        [("self.normal", nc), ("np.dot(self.reference_point, self.normal)", pl.ref.dot pl.n)]
      pl.canonicalPoint.x = PW.Gen.PlaneFn.canonicalPointPoly.eval (env pl.n.x) ∧
      pl.canonicalPoint.y = PW.Gen.PlaneFn.canonicalPointPoly.eval (env pl.n.y) ∧
      pl.canonicalPoint.z = PW.Gen.PlaneFn.canonicalPointPoly.eval (env pl.n.z)) ∧
    (∀ (pl : Plane K),
      let c := fun (k d : Int) (v : V3 K) => V3.smul (k : K) v + (⟨(d : K), (d : K), (d : K)⟩ : V3 K)
      pl.flipped =
        ⟨c PW.Gen.PlaneFn.flippedRefCoef PW.Gen.PlaneFn.flippedRefConst pl.ref,
         c PW.Gen.PlaneFn.flippedNormalCoef PW.Gen.PlaneFn.flippedNormalConst pl.n⟩) := by
  refine ⟨⟨rfl, rfl, rfl, rfl, rfl, rfl, rfl⟩, ⟨by decide, by decide, by decide, rfl, rfl, rfl, rfl⟩, ?_, ?_, ?_⟩
  · intro pl p
    refine ⟨rfl, rfl, rfl, ?_, rfl⟩
    simp [absOfName, PW.Gen.PlaneFn.distanceWrapper, Plane.distance]
  · intro pl
    simp only [PW.Gen.PlaneFn.canonicalPointPoly, PW.Gen.Poly.eval, PW.Gen.prodOf, PW.Gen.envOf, canonicalPoint,
      V3.smul_x, V3.smul_y, V3.smul_z]
    simp only [String.reduceEq, if_true, if_false]
    refine ⟨?_, ?_, ?_⟩ <;> push_cast <;> ring
  · intro pl
    simp only [PW.Gen.PlaneFn.flippedRefCoef, PW.Gen.PlaneFn.flippedRefConst, PW.Gen.PlaneFn.flippedNormalCoef,
      PW.Gen.PlaneFn.flippedNormalConst, Plane.flipped]
    congr 1 <;> ext <;> simp [V3.smul_x, V3.smul_y, V3.smul_z]

/-- `Plane.equation` is `[A, B, C, D]` with `A, B, C = self.normal` and `D = -self.reference_point.dot(self.normal)`:
    the model's `Plane.equation` has exactly this last entry. -/
theorem gen_equation_offset :
    PW.Gen.PlaneFn.equationNormalOk = some true ∧ PW.Gen.PlaneFn.equationDCoef = -1 ∧
    PW.Gen.PlaneFn.equationDTerm = "np.dot(self.reference_point, self.normal)" ∧ PW.Gen.PlaneFn.equationDConst = 0 ∧
    ∀ pl : Plane K, pl.equation.w =
      ((PW.Gen.PlaneFn.equationDCoef : Int) : K) * pl.ref.dot pl.n + ((PW.Gen.PlaneFn.equationDConst : Int) : K) := by
  refine ⟨by decide, by decide, rfl, by decide, ?_⟩
  intro pl
  simp [equation, PW.Gen.PlaneFn.equationDCoef, PW.Gen.PlaneFn.equationDConst]

/-- the four masks: `np.greater(sign, 0)` / `np.less(sign, 0)` for `points_in_front`, `np.greater_equal(sign, 0)` /
    `np.less_equal(sign, 0)` for `points_on_or_in_front`, each applied to `self.sign(points)`; the model's masks are
    exactly the generated operators applied to `pl.sign p` and the generated right-hand sides. -/
theorem gen_front_masks :
    (PW.Gen.PlaneFn.inFrontCmp = .gt ∧ PW.Gen.PlaneFn.inFrontInvCmp = .lt ∧
     PW.Gen.PlaneFn.onOrInFrontCmp = .ge ∧ PW.Gen.PlaneFn.onOrInFrontInvCmp = .le) ∧
    (PW.Gen.PlaneFn.inFrontRhs = 0 ∧ PW.Gen.PlaneFn.inFrontInvRhs = 0 ∧
     PW.Gen.PlaneFn.onOrInFrontRhs = 0 ∧ PW.Gen.PlaneFn.onOrInFrontInvRhs = 0) ∧
    (PW.Gen.PlaneFn.inFrontLhs = "self.sign(points)" ∧ PW.Gen.PlaneFn.inFrontInvLhs = "self.sign(points)" ∧
     PW.Gen.PlaneFn.onOrInFrontLhs = "self.sign(points)" ∧ PW.Gen.PlaneFn.onOrInFrontInvLhs = "self.sign(points)") ∧
    (PW.Gen.PlaneFn.inFrontSelectSrc = "np.flatnonzero(MASK) if ret_indices else points[np.flatnonzero(MASK)]" ∧
     PW.Gen.PlaneFn.onOrInFrontSelectSrc = "np.flatnonzero(MASK) if ret_indices else points[np.flatnonzero(MASK)]") ∧
    ∀ (pl : Plane K) (inverted : Bool) (pts : List (V3 K)),
      pl.inFrontMask inverted pts = pts.map (fun p =>
        if inverted then PW.Gen.PlaneFn.inFrontInvCmp.test (pl.sign p) PW.Gen.PlaneFn.inFrontInvRhs
        else PW.Gen.PlaneFn.inFrontCmp.test (pl.sign p) PW.Gen.PlaneFn.inFrontRhs) ∧
      pl.onOrInFrontMask inverted pts = pts.map (fun p =>
        if inverted then PW.Gen.PlaneFn.onOrInFrontInvCmp.test (pl.sign p) PW.Gen.PlaneFn.onOrInFrontInvRhs
        else PW.Gen.PlaneFn.onOrInFrontCmp.test (pl.sign p) PW.Gen.PlaneFn.onOrInFrontRhs) := by
  refine ⟨by decide, by decide, ⟨rfl, rfl, rfl, rfl⟩, ⟨rfl, rfl⟩, ?_⟩
  intro pl inverted pts
  exact ⟨rfl, rfl⟩

/-- [text] what the symbolic reader does not interpret, pinned to the source the model was written from: for every
    function read by `harness/translate/c05.py` its decorators, its parameter list with defaults, the statements whose
    effect is not modelled (shape checks, asserts — any added in-place call, loop, `with`, `try`, `del`, … shows up
    here), and the number of other bindings of its name in the enclosing scope (a module-level rebinding after the
    `def` would make the function read here not the one that is called). -/
theorem gen_function_shapes :
    PW.Gen.PlaneFn.functionShapes =
      [("project_point_to_plane", [], "points, plane_equations", ["expr check_shape_any(plane_equations, (4,), (-1 if check_shape_any(points, (3,), (-1, 3), name='points') is None else check_shape_any(points, (3,), (-1, 3), name='points'), 4), name='plane_equations')"], 0),
       ("mirror_point_across_plane", [], "points, plane_equations", ["expr check_shape_any(plane_equations, (4,), (-1 if check_shape_any(points, (3,), (-1, 3), name='points') is None else check_shape_any(points, (3,), (-1, 3), name='points'), 4), name='plane_equations')"], 0),
       ("translate_points_along_plane_normal", [], "points, plane_equations, factor", ["expr check_shape_any(plane_equations, (4,), (-1 if check_shape_any(points, (3,), (-1, 3), name='points') is None else check_shape_any(points, (3,), (-1, 3), name='points'), 4), name='plane_equations')", "assert isinstance(factor, numbers.Real)"], 0),
       ("signed_distance_to_plane", [], "points, plane_equations", ["expr check_shape_any(plane_equations, (4,), (-1 if check_shape_any(points, (3,), (-1, 3), name='points') is None else check_shape_any(points, (3,), (-1, 3), name='points'), 4), name='plane_equations')"], 0),
       ("normal_and_offset_from_plane_equations", [], "plane_equations", ["expr check_shape_any(plane_equations, (4,), (-1, 4), name='plane_equations')"], 0),
       ("Plane.equation", ["property"], "self", [], 0),
       ("Plane.sign", [], "self, points", [], 0),
       ("Plane.signed_distance", [], "self, points", [], 0),
       ("Plane.distance", [], "self, points", [], 0),
       ("Plane.project_point", [], "self, points", [], 0),
       ("Plane.mirror_point", [], "self, points", [], 0),
       ("Plane.canonical_point", ["property"], "self", [], 0),
       ("Plane.flipped", [], "self", [], 0),
       ("Plane.points_in_front", [], "self, points, inverted=False, ret_indices=False", ["expr vg.shape.check(locals(), 'points', (-1, 3))"], 0),
       ("Plane.points_on_or_in_front", [], "self, points, inverted=False, ret_indices=False", ["expr vg.shape.check(locals(), 'points', (-1, 3))"], 0)] := by rfl

end PW.C05
