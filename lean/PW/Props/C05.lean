/-
  C05 — Plane point queries follow signed-distance semantics.

  Property theorems only (helper lemmas live in PW/Lemmas).  Every theorem is over an arbitrary linearly
  ordered field `K` (hence ℚ and ℝ at once); `n` is the plane normal; unit length is an explicit
  hypothesis `hn : n·n = 1` exactly where it is needed, and the general (any-normal) law is proved too.
-/
import PW.Model.Plane
import PW.Lemmas.Vec
import Mathlib.Tactic.Ring
import Mathlib.Tactic.LinearCombination
import Mathlib.Tactic.Linarith
import Mathlib.Algebra.Order.Field.Basic

set_option linter.unusedSectionVars false

namespace PW.C05

variable {K : Type} [Field K] [LinearOrder K] [IsStrictOrderedRing K]

open Plane

/-- signed_distance equals the dot product of (point − reference point) with the normal. -/
theorem signed_distance_def (pl : Plane K) (p : V3 K) :
    pl.signedDistance p = (p - pl.ref).dot pl.n := by
  simp only [signedDistance, signedDistanceEq, equation, eqNormal, eqOffset, V3.dot_def, V3.sub_x,
    V3.sub_y, V3.sub_z]
  ring

/-- `sign` classifies by exactly that value. -/
theorem sign_pos_iff (pl : Plane K) (p : V3 K) : pl.sign p = 1 ↔ 0 < pl.signedDistance p := by
  unfold Plane.sign sgn
  split_ifs with h1 h2 <;> simp_all
theorem sign_neg_iff (pl : Plane K) (p : V3 K) : pl.sign p = -1 ↔ pl.signedDistance p < 0 := by
  unfold Plane.sign sgn
  split_ifs with h1 h2 <;> simp_all
  · exact le_of_lt h1
theorem sign_zero_iff (pl : Plane K) (p : V3 K) : pl.sign p = 0 ↔ pl.signedDistance p = 0 := by
  unfold Plane.sign sgn
  split_ifs with h1 h2
  · simp; exact ne_of_gt h1
  · simp; exact ne_of_lt h2
  · simp; exact le_antisymm (not_lt.mp h1) (not_lt.mp h2)

/-- `distance` is the absolute value of the signed distance. -/
theorem distance_def (pl : Plane K) (p : V3 K) : pl.distance p = |pl.signedDistance p| := by
  unfold Plane.distance
  simp only
  split_ifs with h
  · exact (abs_of_neg h).symm
  · exact (abs_of_nonneg (not_lt.mp h)).symm

/-! ### selections -/

theorem mem_flatnonzero (mask : List Bool) (i : Nat) :
    i ∈ flatnonzero mask ↔ mask[i]? = some true := by
  unfold flatnonzero
  simp only [List.mem_filter, List.mem_range]
  constructor
  · rintro ⟨hi, h⟩
    simp [List.getD, List.getElem?_eq_getElem hi] at h ⊢
    exact h
  · intro h
    have hi : i < mask.length := (List.getElem?_eq_some_iff.mp h).1
    refine ⟨hi, ?_⟩
    simp [List.getD, h]

/-- `points_in_front(ret_indices=True)` returns exactly the indices with positive signed distance,
    `inverted` exactly those with negative signed distance. -/
theorem mem_in_front_idx (pl : Plane K) (inv : Bool) (pts : List (V3 K)) (i : Nat) :
    i ∈ pl.pointsInFrontIdx inv pts ↔
      ∃ p, pts[i]? = some p ∧ (if inv then pl.signedDistance p < 0 else 0 < pl.signedDistance p) := by
  unfold pointsInFrontIdx inFrontMask
  rw [mem_flatnonzero]
  simp only [List.getElem?_map, Option.map_eq_some_iff]
  constructor
  · rintro ⟨p, hp, h⟩
    refine ⟨p, hp, ?_⟩
    cases inv <;> simp at h ⊢
    · have := (sign_pos_iff pl p).mp (by unfold Plane.sign sgn at *; split_ifs at h ⊢ <;> simp_all)
      exact this
    · have := (sign_neg_iff pl p).mp (by unfold Plane.sign sgn at *; split_ifs at h ⊢ <;> simp_all)
      exact this
  · rintro ⟨p, hp, h⟩
    refine ⟨p, hp, ?_⟩
    cases inv <;> simp at h ⊢
    · rw [(sign_pos_iff pl p).mpr h]; decide
    · rw [(sign_neg_iff pl p).mpr h]; decide

theorem mem_on_or_in_front_idx (pl : Plane K) (inv : Bool) (pts : List (V3 K)) (i : Nat) :
    i ∈ pl.pointsOnOrInFrontIdx inv pts ↔
      ∃ p, pts[i]? = some p ∧ (if inv then pl.signedDistance p ≤ 0 else 0 ≤ pl.signedDistance p) := by
  unfold pointsOnOrInFrontIdx onOrInFrontMask
  rw [mem_flatnonzero]
  simp only [List.getElem?_map, Option.map_eq_some_iff]
  have key : ∀ p : V3 K, (pl.sign p ≤ 0 ↔ pl.signedDistance p ≤ 0) ∧ (pl.sign p ≥ 0 ↔ 0 ≤ pl.signedDistance p) := by
    intro p
    unfold Plane.sign sgn
    split_ifs with h1 h2
    · exact ⟨by simp; exact h1, by simp; exact le_of_lt h1⟩
    · exact ⟨by simp; exact le_of_lt h2, by simp; exact h2⟩
    · exact ⟨by simp; exact not_lt.mp h1, by simp; exact not_lt.mp h2⟩
  constructor
  · rintro ⟨p, hp, h⟩
    refine ⟨p, hp, ?_⟩
    cases inv <;> simp at h ⊢
    · exact (key p).2.mp h
    · exact (key p).1.mp h
  · rintro ⟨p, hp, h⟩
    refine ⟨p, hp, ?_⟩
    cases inv <;> simp at h ⊢
    · exact (key p).2.mpr h
    · exact (key p).1.mpr h

/-- 'in front' and 'inverted on-or-in-front' partition every point set (each valid index is in exactly one). -/
theorem partition_front (pl : Plane K) (pts : List (V3 K)) (i : Nat) (hi : i < pts.length) :
    (i ∈ pl.pointsInFrontIdx false pts ↔ ¬ i ∈ pl.pointsOnOrInFrontIdx true pts) := by
  rw [mem_in_front_idx, mem_on_or_in_front_idx]
  simp only [List.getElem?_eq_getElem hi, Option.some.injEq, exists_eq_left', Bool.false_eq_true, if_false, if_true]
  exact (not_le).symm

/-- 'on-or-in-front' and 'inverted in-front' partition every point set. -/
theorem partition_on_or_in_front (pl : Plane K) (pts : List (V3 K)) (i : Nat) (hi : i < pts.length) :
    (i ∈ pl.pointsOnOrInFrontIdx false pts ↔ ¬ i ∈ pl.pointsInFrontIdx true pts) := by
  rw [mem_in_front_idx, mem_on_or_in_front_idx]
  simp only [List.getElem?_eq_getElem hi, Option.some.injEq, exists_eq_left', Bool.false_eq_true, if_false, if_true]
  exact (not_lt).symm

/-- indices come out in increasing order without repeats, all valid (order preserving selection). -/
theorem idx_sorted (mask : List Bool) :
    (flatnonzero mask).Pairwise (· < ·) ∧ ∀ i ∈ flatnonzero mask, i < mask.length := by
  unfold flatnonzero
  refine ⟨List.Pairwise.filter _ (List.pairwise_lt_range), ?_⟩
  intro i hi
  exact List.mem_range.mp (List.mem_filter.mp hi).1

/-- the "points" form is the "indices" form applied to the input (`points[indices]`). -/
theorem points_eq_take_indices (pl : Plane K) (inv : Bool) (pts : List (V3 K)) :
    pl.pointsInFront inv pts = Plane.take pts (pl.pointsInFrontIdx inv pts) ∧
    pl.pointsOnOrInFront inv pts = Plane.take pts (pl.pointsOnOrInFrontIdx inv pts) := ⟨rfl, rfl⟩

/-! ### projection, mirroring, flipping -/

/-- general law for any normal: the projected point has signed distance `d·(1 − n·n)`. -/
theorem project_sd_general (pl : Plane K) (p : V3 K) :
    pl.signedDistance (pl.projectPoint p) = pl.signedDistance p * (1 - pl.n.dot pl.n) := by
  simp only [projectPoint, projectPointToPlane, translateAlongNormal, projectFactor, signedDistance,
    signedDistanceEq, equation, eqNormal, eqOffset, V3.dot_def, V3.add_x, V3.add_y, V3.add_z,
    V3.smul_x, V3.smul_y, V3.smul_z]
  ring

/-- project_point lands on the plane (unit normal). -/
theorem project_on_plane (pl : Plane K) (p : V3 K) (hn : pl.n.dot pl.n = 1) :
    pl.signedDistance (pl.projectPoint p) = 0 := by
  rw [project_sd_general, hn]; ring

/-- project_point moves the point along the normal: `project p = p − d·n`. -/
theorem project_along_normal (pl : Plane K) (p : V3 K) :
    pl.projectPoint p = p - V3.smul (pl.signedDistance p) pl.n := by
  ext <;>
  simp only [projectPoint, projectPointToPlane, translateAlongNormal, projectFactor, signedDistance,
    eqNormal, equation, V3.add_x, V3.add_y, V3.add_z, V3.sub_x, V3.sub_y, V3.sub_z,
    V3.smul_x, V3.smul_y, V3.smul_z] <;> ring

/-- project_point is idempotent (unit normal). -/
theorem project_idempotent (pl : Plane K) (p : V3 K) (hn : pl.n.dot pl.n = 1) :
    pl.projectPoint (pl.projectPoint p) = pl.projectPoint p := by
  rw [project_along_normal pl (pl.projectPoint p), project_on_plane pl p hn]
  ext <;> simp

theorem mirror_sd_general (pl : Plane K) (p : V3 K) :
    pl.signedDistance (pl.mirrorPoint p) = pl.signedDistance p * (1 - 2 * pl.n.dot pl.n) := by
  simp only [mirrorPoint, mirrorPointAcrossPlane, translateAlongNormal, mirrorFactor, signedDistance,
    signedDistanceEq, equation, eqNormal, eqOffset, V3.dot_def, V3.add_x, V3.add_y, V3.add_z,
    V3.smul_x, V3.smul_y, V3.smul_z]
  ring

/-- mirror_point negates the signed distance (unit normal). -/
theorem mirror_negates (pl : Plane K) (p : V3 K) (hn : pl.n.dot pl.n = 1) :
    pl.signedDistance (pl.mirrorPoint p) = - pl.signedDistance p := by
  rw [mirror_sd_general, hn]; ring

theorem mirror_along_normal (pl : Plane K) (p : V3 K) :
    pl.mirrorPoint p = p - V3.smul (2 * pl.signedDistance p) pl.n := by
  ext <;>
  simp only [mirrorPoint, mirrorPointAcrossPlane, translateAlongNormal, mirrorFactor, signedDistance,
    eqNormal, equation, V3.add_x, V3.add_y, V3.add_z, V3.sub_x, V3.sub_y, V3.sub_z,
    V3.smul_x, V3.smul_y, V3.smul_z] <;> ring

/-- mirror_point is an involution (unit normal). -/
theorem mirror_involution (pl : Plane K) (p : V3 K) (hn : pl.n.dot pl.n = 1) :
    pl.mirrorPoint (pl.mirrorPoint p) = p := by
  rw [mirror_along_normal pl (pl.mirrorPoint p), mirror_negates pl p hn, mirror_along_normal]
  ext <;> simp only [V3.sub_x, V3.sub_y, V3.sub_z, V3.smul_x, V3.smul_y, V3.smul_z] <;> ring

/-- the midpoint of a point and its mirror image is the projection (any normal). -/
theorem mirror_midpoint (pl : Plane K) (p : V3 K) :
    V3.smul (1 / 2) (p + pl.mirrorPoint p) = pl.projectPoint p := by
  rw [mirror_along_normal, project_along_normal]
  ext <;> simp only [V3.add_x, V3.add_y, V3.add_z, V3.sub_x, V3.sub_y, V3.sub_z, V3.smul_x, V3.smul_y,
    V3.smul_z] <;> ring

/-- flipped() negates every signed distance … -/
theorem flipped_negates (pl : Plane K) (p : V3 K) :
    pl.flipped.signedDistance p = - pl.signedDistance p := by
  simp only [flipped, signedDistance, signedDistanceEq, equation, eqNormal, eqOffset, V3.dot_def,
    V3.neg_x, V3.neg_y, V3.neg_z]
  ring

/-- … and keeps the same point set. -/
theorem flipped_same_points (pl : Plane K) (p : V3 K) :
    pl.flipped.signedDistance p = 0 ↔ pl.signedDistance p = 0 := by
  rw [flipped_negates]; exact neg_eq_zero

/-- `equation` describes the plane: `A x + B y + C z + D` is the signed distance, and the reference point satisfies it. -/
theorem equation_describes (pl : Plane K) (p : V3 K) :
    pl.equation.x * p.x + pl.equation.y * p.y + pl.equation.z * p.z + pl.equation.w = pl.signedDistance p ∧
    pl.signedDistance pl.ref = 0 := by
  constructor
  · simp only [signedDistance, signedDistanceEq, equation, eqNormal, eqOffset, V3.dot_def]; ring
  · rw [signed_distance_def]; simp only [V3.dot_def, V3.sub_x, V3.sub_y, V3.sub_z]; ring

/-- `canonical_point` lies on the same plane (unit normal), and is a multiple of the normal. -/
theorem canonical_point_on_plane (pl : Plane K) (hn : pl.n.dot pl.n = 1) :
    pl.signedDistance pl.canonicalPoint = 0 := by
  simp only [canonicalPoint, signedDistance, signedDistanceEq, equation, eqNormal, eqOffset, V3.dot_def,
    V3.smul_x, V3.smul_y, V3.smul_z] at *
  linear_combination (pl.ref.x * pl.n.x + pl.ref.y * pl.n.y + pl.ref.z * pl.n.z) * hn

/-- the module-level functions give the same answers as the methods (they are what the methods call),
    and the one-equation-per-point form is the row-by-row application. -/
theorem functions_agree (pl : Plane K) (p : V3 K) :
    signedDistanceEq p pl.equation = pl.signedDistance p ∧
    projectPointToPlane p pl.equation = pl.projectPoint p ∧
    mirrorPointAcrossPlane p pl.equation = pl.mirrorPoint p := ⟨rfl, rfl, rfl⟩

theorem stacked_equations_rowwise (pts : List (V3 K)) (eqs : List (V4 K)) (i : Nat)
    (h : i < pts.length) (h' : i < eqs.length) :
    (List.zipWith signedDistanceEq pts eqs)[i]? = some (signedDistanceEq pts[i] eqs[i]) ∧
    (List.zipWith projectPointToPlane pts eqs)[i]? = some (projectPointToPlane pts[i] eqs[i]) ∧
    (List.zipWith mirrorPointAcrossPlane pts eqs)[i]? = some (mirrorPointAcrossPlane pts[i] eqs[i]) := by
  simp [List.getElem?_zipWith, List.getElem?_eq_getElem h, List.getElem?_eq_getElem h']

/-- non-vacuity: a concrete plane with a unit normal and points on each side. -/
example : let pl : Plane ℚ := ⟨⟨0, 0, 1⟩, ⟨0, 0, 1⟩⟩
    pl.n.dot pl.n = 1 ∧ pl.signedDistance ⟨3, 4, 5⟩ = 4 ∧ pl.sign ⟨0, 0, 0⟩ = -1 ∧
    pl.pointsInFrontIdx false [⟨0,0,0⟩, ⟨0,0,2⟩, ⟨0,0,1⟩] = [1] := by
  decide +kernel

end PW.C05
