/-
  C03 — tie to the source: statements about the tables harness/translate/c03.py regenerates from
  polliwog/transform/_composite_transform.py and _coordinate_manager.py on every run (a source edit that changes
  which builder a method calls, the returned index, the delegation or the tag position breaks an obligation here).
-/
import PW.Gen.CompositeCalls

namespace PW.C03

/-- every appending method calls the builder the model uses for it and hands the pair to `append_transform`;
    `convert_units`, `flip`, `reorient` go through `uniform_scale`, `non_uniform_scale`, `rotate` as in the model. -/
theorem gen_composite_calls :
    PW.Gen.compositeCalls = [
      ("uniform_scale", ["transform_matrix_for_uniform_scale", "self.append_transform"]),
      ("non_uniform_scale", ["transform_matrix_for_non_uniform_scale", "self.append_transform"]),
      ("convert_units", ["ounce.factor", "self.uniform_scale"]),
      ("flip", ["self.non_uniform_scale"]),
      ("translate", ["transform_matrix_for_translation", "self.append_transform"]),
      ("reorient", ["rotation_from_up_and_look", "self.rotate"]),
      ("rotate", ["transform_matrix_for_rotation", "self.append_transform"])] := by
  decide

/-- `append_transform` takes `len(self.transforms)` before appending and returns it. -/
theorem gen_append_returns_old_len : PW.Gen.appendReturnsOldLen = true := by decide

end PW.C03
