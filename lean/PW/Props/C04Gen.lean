/-
  C04 — tie to the source: statements about the tables harness/translate/c03.py regenerates from
  polliwog/transform/_composite_transform.py and _coordinate_manager.py on every run (a source edit that changes
  which builder a method calls, the returned index, the delegation or the tag position breaks an obligation here).
-/
import PW.Gen.CompositeCalls

namespace PW.C04

/-- every public appender of CoordinateManager is `self._transform.<same name>(*args, **kwargs)`, and there are
    exactly the eight of them. -/
theorem gen_delegation :
    PW.Gen.coordMgrDelegation = [
      ("append_transform", "append_transform"), ("uniform_scale", "uniform_scale"),
      ("non_uniform_scale", "non_uniform_scale"), ("convert_units", "convert_units"), ("flip", "flip"),
      ("translate", "translate"), ("reorient", "reorient"), ("rotate", "rotate")] := by
  decide

/-- `tag_as` records `len(self._transform.transforms)`. -/
theorem gen_tag_as_is_len : PW.Gen.tagAsIsLen = true := by decide

end PW.C04
