/-
  C15 — Triangle normals, areas, barycentric weights, containment and sampling agree;
        quads_to_tris and edges_of_faces keep winding and list every edge once.

  Property theorems only (helper lemmas: PW/Lemmas/Tri.lean).  "(K)" = for every linearly ordered field,
  "(ℝ)" = over the reals with `Real.sqrt`.  `gen_*` theorems tie the model's literal tables/constants to the
  ones regenerated from the polliwog source on every run (PW/Gen/TriTables.lean).
-/
import PW.Model.Tri
import PW.Gen.TriTables
import PW.Lemmas.Vec
import PW.Lemmas.Tri
import Mathlib.Tactic.Ring
import Mathlib.Tactic.LinearCombination
import Mathlib.Tactic.Linarith
import Mathlib.Tactic.Positivity
import Mathlib.Tactic.FieldSimp
import Mathlib.Tactic.NormNum
import Mathlib.Algebra.Order.Field.Basic
import Mathlib.Analysis.Real.Sqrt

set_option linter.unusedSectionVars false

namespace PW.C15

open PW.Tri

/-! ## tie to the source (by G) -/

theorem gen_quad_picks :
    PW.Gen.TriTables.quadsToTrisPicks = [(0, 2, [0, 1, 2]), (1, 2, [0, 2, 3])] ∧
    PW.Gen.TriTables.quadsToTrisPicks.map (fun p => p.2.2) = quadPicks.map (fun p => [p.1, p.2.1, p.2.2]) ∧
    PW.Gen.TriTables.quadsMappingWidth = 2 := by decide

theorem gen_edge_cols :
    PW.Gen.TriTables.edgeCols = edgeCols.map (fun p => [p.1, p.2]) ∧
    PW.Gen.TriTables.edgesInterleaved = true ∧ PW.Gen.TriTables.edgesSortAxis = 1 := by decide

theorem gen_normal_cross_args : PW.Gen.TriTables.normalCrossArgs = [(1, 0), (2, 0)] := by decide

theorem gen_area_formula :
    PW.Gen.TriTables.areaEdges = [(1, 0), (2, 0)] ∧
    PW.Gen.TriTables.areaCrossIdx = [(1, 2, 2, 1), (2, 0, 0, 2), (0, 1, 1, 0)] ∧
    PW.Gen.TriTables.areaFactor = (1, 2) := by decide

theorem gen_same_side :
    PW.Gen.TriTables.sameSideCmp = "GtE" ∧ PW.Gen.TriTables.sameSideRhs = 0 ∧
    PW.Gen.TriTables.sameSideArgs = ["a/b/p1/p2", "b", "a", "p1", "a", "p2", "a"] := by decide

theorem gen_contains_calls :
    PW.Gen.TriTables.containsCalls =
      [["a", "b", "point", "c"], ["a", "c", "point", "b"], ["b", "c", "point", "a"]] := by decide

theorem gen_bary_guard : PW.Gen.TriTables.baryGuard = ("Eq", 0, 1) := by decide

theorem gen_sample_consts :
    PW.Gen.TriTables.searchsortedSide = "right" ∧
    PW.Gen.TriTables.reflectCmp = "Gt" ∧ PW.Gen.TriTables.reflectRhs = 1 ∧
    PW.Gen.TriTables.sampleDraws = [[], [2, 1]] ∧
    PW.Gen.TriTables.randomSeed = 1337 ∧ PW.Gen.TriTables.faceDtype = "int64" := by decide

/-- evaluation of the generated component table `e1[i]*e2[j] - e1[k]*e2[l]` -/
def evalCrossIdx {K : Type} [Mul K] [Sub K] (idx : List (Nat × Nat × Nat × Nat)) (e1 e2 : V3 K) : List K :=
  idx.map fun q => e1.get q.1 * e2.get q.2.1 - e1.get q.2.2.1 * e2.get q.2.2.2

section field
variable {K : Type} [Field K] [LinearOrder K] [IsStrictOrderedRing K]

/-! ## normals (K) -/

/-- surface_normals(normalize=False) is the cross product of the two edge vectors from the first vertex. -/
theorem normal_is_cross [Sqrt K] (t : Tri K) :
    surfaceNormal false t = V3.cross (t.v1 - t.v0) (t.v2 - t.v0) := rfl

/-- the component lines of `surface_area` as regenerated from the source are the cross product of the two
    edge vectors from the first vertex — the same vector `surface_normals` computes. -/
theorem area_cross_is_cross (t : Tri K) :
    evalCrossIdx PW.Gen.TriTables.areaCrossIdx (t.v1 - t.v0) (t.v2 - t.v0) = (rawNormal t).toList ∧
    areaCross t = rawNormal t := by
  refine ⟨?_, rfl⟩
  simp [evalCrossIdx, PW.Gen.TriTables.areaCrossIdx, V3.get, V3.toList, rawNormal]

theorem normal_cyclic (a b c : V3 K) : rawNormal ⟨b, c, a⟩ = rawNormal ⟨a, b, c⟩ := by
  ext <;> simp only [rawNormal, V3.cross_x, V3.cross_y, V3.cross_z, V3.sub_x, V3.sub_y, V3.sub_z] <;> ring

theorem normal_translate (a b c d : V3 K) : rawNormal ⟨a + d, b + d, c + d⟩ = rawNormal ⟨a, b, c⟩ := by
  ext <;> simp only [rawNormal, V3.cross_x, V3.cross_y, V3.cross_z, V3.sub_x, V3.sub_y, V3.sub_z,
    V3.add_x, V3.add_y, V3.add_z] <;> ring

/-- swapping any two vertices negates the normal. -/
theorem normal_swap (a b c : V3 K) :
    rawNormal ⟨b, a, c⟩ = -rawNormal ⟨a, b, c⟩ ∧ rawNormal ⟨a, c, b⟩ = -rawNormal ⟨a, b, c⟩ ∧
    rawNormal ⟨c, b, a⟩ = -rawNormal ⟨a, b, c⟩ := by
  refine ⟨?_, ?_, ?_⟩ <;> ext <;>
    simp only [rawNormal, V3.cross_x, V3.cross_y, V3.cross_z, V3.sub_x, V3.sub_y, V3.sub_z,
      V3.neg_x, V3.neg_y, V3.neg_z] <;> ring

/-- the normal is perpendicular to both edges. -/
theorem normal_perp (t : Tri K) :
    V3.dot (rawNormal t) (t.v1 - t.v0) = 0 ∧ V3.dot (rawNormal t) (t.v2 - t.v0) = 0 := by
  constructor <;>
  simp only [rawNormal, V3.dot_def, V3.cross_x, V3.cross_y, V3.cross_z, V3.sub_x, V3.sub_y, V3.sub_z] <;> ring

/-! ## barycentric weights (K) -/

/-- the weights sum to 1 (in both branches of the zero-area guard). -/
theorem bary_sum_one (t : Tri K) (p : V3 K) : (bary t p).x + (bary t p).y + (bary t p).z = 1 := by
  simp only [bary]; ring

/-- non-degenerate triangle: the guard is not taken and the weights are Heidrich's quotients. -/
theorem bary_nondegenerate (t : Tri K) (p : V3 K) (hs : V3.dot (rawNormal t) (rawNormal t) ≠ 0) :
    let n := rawNormal t
    let s := V3.dot n n
    let w := p - t.v0
    bary t p = ⟨1 - V3.dot (V3.cross w (t.v2 - t.v0)) n / s - V3.dot (V3.cross (t.v1 - t.v0) w) n / s,
                V3.dot (V3.cross w (t.v2 - t.v0)) n / s, V3.dot (V3.cross (t.v1 - t.v0) w) n / s⟩ := by
  have hs' : (V3.dot (V3.cross (t.v1 - t.v0) (t.v2 - t.v0)) (V3.cross (t.v1 - t.v0) (t.v2 - t.v0)) == 0) = false := by
    simpa [rawNormal] using hs
  simp only [bary, rawNormal, hs', Bool.false_eq_true, if_false]
  ext <;> simp only [mul_one_div]

/-- the weights reconstruct the orthogonal projection of `p` onto the plane of the triangle:
    `Σ bᵢ vᵢ = p − ((p − v₀)·n / n·n) n`. -/
theorem bary_reconstructs_projection (t : Tri K) (p : V3 K)
    (hs : V3.dot (rawNormal t) (rawNormal t) ≠ 0) :
    V3.smul (bary t p).x t.v0 + V3.smul (bary t p).y t.v1 + V3.smul (bary t p).z t.v2 =
      p - V3.smul (V3.dot (p - t.v0) (rawNormal t) / V3.dot (rawNormal t) (rawNormal t)) (rawNormal t) := by
  rw [bary_nondegenerate t p hs]
  ext <;>
  simp only [V3.add_x, V3.add_y, V3.add_z, V3.smul_x, V3.smul_y, V3.smul_z, V3.sub_x, V3.sub_y, V3.sub_z] <;>
  apply recon_component _ _ _ _ _ _ _ _ _ hs <;>
  simp only [rawNormal, V3.dot_def, V3.cross_x, V3.cross_y, V3.cross_z, V3.sub_x, V3.sub_y, V3.sub_z] <;>
  ring

/-- the projection lies in the plane of the triangle, and `p` minus it is parallel to the normal
    (so it *is* the orthogonal projection). -/
theorem projection_is_orthogonal (t : Tri K) (p : V3 K)
    (hs : V3.dot (rawNormal t) (rawNormal t) ≠ 0) :
    V3.dot ((p - V3.smul (V3.dot (p - t.v0) (rawNormal t) / V3.dot (rawNormal t) (rawNormal t)) (rawNormal t)) - t.v0)
      (rawNormal t) = 0 ∧
    p - (p - V3.smul (V3.dot (p - t.v0) (rawNormal t) / V3.dot (rawNormal t) (rawNormal t)) (rawNormal t)) =
      V3.smul (V3.dot (p - t.v0) (rawNormal t) / V3.dot (rawNormal t) (rawNormal t)) (rawNormal t) := by
  have hc : V3.dot (p - t.v0) (rawNormal t) / V3.dot (rawNormal t) (rawNormal t) * V3.dot (rawNormal t) (rawNormal t)
      = V3.dot (p - t.v0) (rawNormal t) := div_mul_cancel₀ _ hs
  generalize V3.dot (p - t.v0) (rawNormal t) / V3.dot (rawNormal t) (rawNormal t) = c at *
  generalize rawNormal t = n at *
  constructor
  · simp only [V3.dot_def, V3.sub_x, V3.sub_y, V3.sub_z, V3.smul_x, V3.smul_y, V3.smul_z] at hc ⊢
    linear_combination (-1) * hc
  · ext <;> simp only [V3.sub_x, V3.sub_y, V3.sub_z, V3.smul_x, V3.smul_y, V3.smul_z] <;> ring

/-- the zero-area guard branch, stated separately: when the cross product vanishes the code replaces
    `s = 0` by `np.spacing(1)` (no division by zero, no NaN) and returns the weights `(1, 0, 0)`,
    i.e. it reports the first vertex whatever the query point is. -/
theorem bary_degenerate (t : Tri K) (p : V3 K) (hs : V3.dot (rawNormal t) (rawNormal t) = 0) :
    bary t p = ⟨1, 0, 0⟩ := by
  obtain ⟨hx, hy, hz⟩ := dot_self_eq_zero hs
  have hn : V3.cross (t.v1 - t.v0) (t.v2 - t.v0) = ⟨0, 0, 0⟩ := V3.ext hx hy hz
  simp only [bary, hn, V3.dot_def]
  ext <;> simp

/-! ## same-side test and containment (K) -/

/-- what `coplanar_points_are_on_same_side_of_line(a, b, p1, p2)` computes: the line is `a b`, the points
    compared are `p1`, `p2`. -/
theorem same_side_def (a b p1 p2 : V3 K) :
    sameSide a b p1 p2 = true ↔ 0 ≤ V3.dot (V3.cross (b - a) (p1 - a)) (V3.cross (b - a) (p2 - a)) := by
  simp [sameSide]

/-- characterisation for coplanar points: with `m ≠ 0` a normal of the common plane, the test is true exactly
    when the signed areas (orientation w.r.t. `m`) of `(a, b, p1)` and `(a, b, p2)` do not have opposite
    signs — `p1` and `p2` are on the same side of the line `a b`, or one of them is on it. -/
theorem same_side_coplanar (a b p1 p2 m : V3 K) (hm : V3.dot m m ≠ 0)
    (h0 : V3.dot m (b - a) = 0) (h1 : V3.dot m (p1 - a) = 0) (h2 : V3.dot m (p2 - a) = 0) :
    sameSide a b p1 p2 = true ↔
      0 ≤ V3.dot (V3.cross (b - a) (p1 - a)) m * V3.dot (V3.cross (b - a) (p2 - a)) m := by
  rw [same_side_def]
  have hpos := dot_self_pos hm
  have key : V3.dot (V3.cross (b - a) (p1 - a)) (V3.cross (b - a) (p2 - a)) * V3.dot m m =
      V3.dot (V3.cross (b - a) (p1 - a)) m * V3.dot (V3.cross (b - a) (p2 - a)) m := by
    generalize b - a = d at *
    generalize p1 - a = x at *
    generalize p2 - a = y at *
    simp only [V3.dot_def, V3.cross_x, V3.cross_y, V3.cross_z] at *
    linear_combination
      (x.x * ((m.x * d.x + m.y * d.y + m.z * d.z) * y.x - (m.x * y.x + m.y * y.y + m.z * y.z) * d.x) +
       x.y * ((m.x * d.x + m.y * d.y + m.z * d.z) * y.y - (m.x * y.x + m.y * y.y + m.z * y.z) * d.y) +
       x.z * ((m.x * d.x + m.y * d.y + m.z * d.z) * y.z - (m.x * y.x + m.y * y.y + m.z * y.z) * d.z)) * h0 -
      (d.x * ((m.x * d.x + m.y * d.y + m.z * d.z) * y.x - (m.x * y.x + m.y * y.y + m.z * y.z) * d.x) +
       d.y * ((m.x * d.x + m.y * d.y + m.z * d.z) * y.y - (m.x * y.x + m.y * y.y + m.z * y.z) * d.y) +
       d.z * ((m.x * d.x + m.y * d.y + m.z * d.z) * y.z - (m.x * y.x + m.y * y.y + m.z * y.z) * d.z)) * h1
  rw [← key]
  constructor
  · intro h; exact mul_nonneg h hpos.le
  · intro h; exact nonneg_of_mul_nonneg_left h hpos

/-- the three same-side products of `tri_contains_coplanar_point` are `n·n` times the three weights. -/
theorem same_side_products (t : Tri K) (p : V3 K) (hs : V3.dot (rawNormal t) (rawNormal t) ≠ 0) :
    V3.dot (V3.cross (t.v2 - t.v1) (p - t.v1)) (V3.cross (t.v2 - t.v1) (t.v0 - t.v1)) =
      V3.dot (rawNormal t) (rawNormal t) * (bary t p).x ∧
    V3.dot (V3.cross (t.v2 - t.v0) (p - t.v0)) (V3.cross (t.v2 - t.v0) (t.v1 - t.v0)) =
      V3.dot (rawNormal t) (rawNormal t) * (bary t p).y ∧
    V3.dot (V3.cross (t.v1 - t.v0) (p - t.v0)) (V3.cross (t.v1 - t.v0) (t.v2 - t.v0)) =
      V3.dot (rawNormal t) (rawNormal t) * (bary t p).z := by
  have p0 : V3.dot (V3.cross (t.v2 - t.v1) (p - t.v1)) (V3.cross (t.v2 - t.v1) (t.v0 - t.v1)) =
      V3.dot (rawNormal t) (rawNormal t) - V3.dot (V3.cross (p - t.v0) (t.v2 - t.v0)) (rawNormal t)
        - V3.dot (V3.cross (t.v1 - t.v0) (p - t.v0)) (rawNormal t) := by
    simp only [rawNormal, V3.dot_def, V3.cross_x, V3.cross_y, V3.cross_z, V3.sub_x, V3.sub_y, V3.sub_z]; ring
  have p1 : V3.dot (V3.cross (t.v2 - t.v0) (p - t.v0)) (V3.cross (t.v2 - t.v0) (t.v1 - t.v0)) =
      V3.dot (V3.cross (p - t.v0) (t.v2 - t.v0)) (rawNormal t) := by
    simp only [rawNormal, V3.dot_def, V3.cross_x, V3.cross_y, V3.cross_z, V3.sub_x, V3.sub_y, V3.sub_z]; ring
  have p2 : V3.dot (V3.cross (t.v1 - t.v0) (p - t.v0)) (V3.cross (t.v1 - t.v0) (t.v2 - t.v0)) =
      V3.dot (V3.cross (t.v1 - t.v0) (p - t.v0)) (rawNormal t) := rfl
  rw [p0, p1, p2, bary_nondegenerate t p hs]
  generalize V3.dot (V3.cross (p - t.v0) (t.v2 - t.v0)) (rawNormal t) = X1
  generalize V3.dot (V3.cross (t.v1 - t.v0) (p - t.v0)) (rawNormal t) = X2
  generalize V3.dot (rawNormal t) (rawNormal t) = S at hs
  refine ⟨?_, ?_, ?_⟩
  · show S - X1 - X2 = S * (1 - X1 / S - X2 / S)
    field_simp
  · show X1 = S * (X1 / S)
    field_simp
  · show X2 = S * (X2 / S)
    field_simp

/-- for a non-degenerate triangle `tri_contains_coplanar_point` is True exactly when all three barycentric
    weights are non-negative.  (No coplanarity hypothesis is needed for this equivalence: for a point off the
    plane both sides speak about its orthogonal projection.) -/
theorem contains_iff_weights (t : Tri K) (p : V3 K) (hs : V3.dot (rawNormal t) (rawNormal t) ≠ 0) :
    triContains t.v0 t.v1 t.v2 p = true ↔ 0 ≤ (bary t p).x ∧ 0 ≤ (bary t p).y ∧ 0 ≤ (bary t p).z := by
  have hpos := dot_self_pos hs
  obtain ⟨e0, e1, e2⟩ := same_side_products t p hs
  simp only [triContains, Bool.and_eq_true, same_side_def, e0, e1, e2, mul_nonneg_iff_of_pos_left hpos]
  tauto

/-- for a coplanar point the weights reconstruct the point itself, so the same-side tests say exactly that
    `p` is a convex combination of the vertices. -/
theorem contains_coplanar (t : Tri K) (p : V3 K) (hs : V3.dot (rawNormal t) (rawNormal t) ≠ 0)
    (hp : V3.dot (p - t.v0) (rawNormal t) = 0) :
    V3.smul (bary t p).x t.v0 + V3.smul (bary t p).y t.v1 + V3.smul (bary t p).z t.v2 = p ∧
    (triContains t.v0 t.v1 t.v2 p = true ↔ 0 ≤ (bary t p).x ∧ 0 ≤ (bary t p).y ∧ 0 ≤ (bary t p).z) := by
  refine ⟨?_, contains_iff_weights t p hs⟩
  rw [bary_reconstructs_projection t p hs, hp]
  ext <;> simp

/-- degenerate triangle: every same-side product is 0, so the test accepts every point. -/
theorem contains_degenerate (t : Tri K) (p : V3 K) (hs : V3.dot (rawNormal t) (rawNormal t) = 0) :
    triContains t.v0 t.v1 t.v2 p = true := by
  obtain ⟨hx, hy, hz⟩ := dot_self_eq_zero hs
  simp only [rawNormal, V3.cross_x, V3.cross_y, V3.cross_z, V3.sub_x, V3.sub_y, V3.sub_z] at hx hy hz
  simp only [triContains, Bool.and_eq_true, same_side_def]
  refine ⟨⟨?_, ?_⟩, ?_⟩ <;> apply ge_of_eq <;>
  simp only [V3.dot_def, V3.cross_x, V3.cross_y, V3.cross_z, V3.sub_x, V3.sub_y, V3.sub_z]
  · linear_combination
      ((t.v2.y - t.v1.y) * (p.z - t.v1.z) - (t.v2.z - t.v1.z) * (p.y - t.v1.y)) * hx
      + ((t.v2.z - t.v1.z) * (p.x - t.v1.x) - (t.v2.x - t.v1.x) * (p.z - t.v1.z)) * hy
      + ((t.v2.x - t.v1.x) * (p.y - t.v1.y) - (t.v2.y - t.v1.y) * (p.x - t.v1.x)) * hz
  · linear_combination
      (-((t.v2.y - t.v0.y) * (p.z - t.v0.z) - (t.v2.z - t.v0.z) * (p.y - t.v0.y))) * hx
      - ((t.v2.z - t.v0.z) * (p.x - t.v0.x) - (t.v2.x - t.v0.x) * (p.z - t.v0.z)) * hy
      - ((t.v2.x - t.v0.x) * (p.y - t.v0.y) - (t.v2.y - t.v0.y) * (p.x - t.v0.x)) * hz
  · linear_combination
      ((t.v1.y - t.v0.y) * (p.z - t.v0.z) - (t.v1.z - t.v0.z) * (p.y - t.v0.y)) * hx
      + ((t.v1.z - t.v0.z) * (p.x - t.v0.x) - (t.v1.x - t.v0.x) * (p.z - t.v0.z)) * hy
      + ((t.v1.x - t.v0.x) * (p.y - t.v0.y) - (t.v1.y - t.v0.y) * (p.x - t.v0.x)) * hz

end field

/-! ## sampling (K) — the rng draws are data -/

section sampling
variable {K : Type} [Field K] [LinearOrder K] [IsStrictOrderedRing K]

/-- `p` is a convex combination of the vertices of `t` -/
def InTri (t : Tri K) (p : V3 K) : Prop :=
  ∃ a b c : K, 0 ≤ a ∧ 0 ≤ b ∧ 0 ≤ c ∧ a + b + c = 1 ∧
    p = V3.smul a t.v0 + V3.smul b t.v1 + V3.smul c t.v2

/-- after the reflection step the coefficients satisfy `u, v ≥ 0`, `u + v ≤ 1`. -/
theorem reflect_in_simplex (u v : K) (hu : 0 ≤ u ∧ u ≤ 1) (hv : 0 ≤ v ∧ v ≤ 1) :
    0 ≤ (reflect u v).1 ∧ 0 ≤ (reflect u v).2 ∧ (reflect u v).1 + (reflect u v).2 ≤ 1 := by
  unfold reflect
  split_ifs with h
  · refine ⟨by simp only; linarith [hu.2], by simp only; linarith [hv.2], by simp only; linarith⟩
  · exact ⟨hu.1, hv.1, not_lt.mp h⟩

/-- so the sampled point lies in the triangle it was built from. -/
theorem sample_point_inside (t : Tri K) (u v : K) (hu : 0 ≤ u ∧ u ≤ 1) (hv : 0 ≤ v ∧ v ≤ 1) :
    InTri t (samplePoint t u v) := by
  obtain ⟨h1, h2, h3⟩ := reflect_in_simplex u v hu hv
  refine ⟨1 - (reflect u v).1 - (reflect u v).2, (reflect u v).1, (reflect u v).2,
    by linarith, h1, h2, by ring, ?_⟩
  ext <;> simp only [samplePoint, V3.add_x, V3.add_y, V3.add_z, V3.smul_x, V3.smul_y, V3.smul_z,
    V3.sub_x, V3.sub_y, V3.sub_z] <;> ring

/-- `choice r = i ⇔ cum_{i-1} ≤ r·W < cum_i` (with `cum_{-1} = 0`): the face index returned by
    `np.searchsorted(cumsum(w), x, side="right")` for non-negative weights and `x ≥ 0`. -/
theorem choice_interval (ws : List K) (hw : ∀ w ∈ ws, 0 ≤ w) (x : K) (hx : 0 ≤ x) (i : Nat)
    (hi : i < ws.length) :
    searchRight (cumsum ws) x = i ↔ prefixSum ws i ≤ x ∧ x < prefixSum ws (i + 1) := by
  rw [searchRight_eq_iff]
  simp only [cumsum_getElem?]
  constructor
  · rintro ⟨h1, h2⟩
    refine ⟨?_, h2 _ (by simp [hi])⟩
    cases i with
    | zero => simpa using hx
    | succ i =>
      obtain ⟨c, hc, hcx⟩ := h1 i (by omega)
      rw [if_pos (by omega)] at hc
      cases hc
      exact hcx
  · rintro ⟨hlo, hhi⟩
    constructor
    · intro j hj
      refine ⟨prefixSum ws (j + 1), by rw [if_pos (by omega)], ?_⟩
      exact le_trans (prefixSum_mono ws hw (by omega)) hlo
    · intro c hc
      rw [if_pos hi] at hc
      cases hc
      exact hhi

/-- in terms of the draw `r`: face `i` is chosen exactly on the half-open interval
    `[cum_{i-1}/W, cum_i/W)`, whose length is `wᵢ/W` — frequency proportional to weight. -/
theorem choice_interval_r (ws : List K) (hw : ∀ w ∈ ws, 0 ≤ w) (W r : K) (hW : 0 < W) (hr : 0 ≤ r)
    (i : Nat) (hi : i < ws.length) :
    (chooseFace (cumsum ws) W r = i ↔ prefixSum ws i / W ≤ r ∧ r < prefixSum ws (i + 1) / W) ∧
    prefixSum ws (i + 1) / W - prefixSum ws i / W = ws[i] / W := by
  constructor
  · unfold chooseFace
    rw [choice_interval ws hw (r * W) (mul_nonneg hr hW.le) i hi, div_le_iff₀ hW, lt_div_iff₀ hW]
  · rw [prefixSum_succ ws i hi]; ring

/-- the chosen index is a valid face index as soon as `0 ≤ x < W` (`W` the total weight). -/
theorem choice_in_range (ws : List K) (hw : ∀ w ∈ ws, 0 ≤ w) (x : K) (hx : 0 ≤ x)
    (hxW : x < prefixSum ws ws.length) : searchRight (cumsum ws) x < ws.length := by
  have hle : searchRight (cumsum ws) x ≤ ws.length := by
    have := searchRight_le_length (cumsum ws) x
    rwa [cumsum_length] at this
  rcases Nat.lt_or_ge (searchRight (cumsum ws) x) ws.length with h | h
  · exact h
  · exfalso
    have heq : searchRight (cumsum ws) x = ws.length := Nat.le_antisymm hle h
    have hpos : 0 < ws.length := by
      rcases Nat.eq_zero_or_pos ws.length with h0 | h0
      · rw [h0, prefixSum_zero] at hxW; exact absurd hxW (not_lt.mpr hx)
      · exact h0
    obtain ⟨h1, _⟩ := (searchRight_eq_iff (cumsum ws) x ws.length).mp heq
    obtain ⟨c, hc, hcx⟩ := h1 (ws.length - 1) (by omega)
    rw [cumsum_getElem?, if_pos (by omega)] at hc
    cases hc
    have e : ws.length - 1 + 1 = ws.length := by omega
    rw [e] at hcx
    exact absurd hxW (not_lt.mpr hcx)

/-- never a zero-weight face: for non-negative weights and every `0 ≤ x < W` the chosen face has a
    strictly positive weight (and is a valid index).  With `side="right"` this needs no hypothesis `0 < r`. -/
theorem never_zero_weight (ws : List K) (hw : ∀ w ∈ ws, 0 ≤ w) (x : K) (hx : 0 ≤ x)
    (hxW : x < prefixSum ws ws.length) :
    ∃ w, ws[searchRight (cumsum ws) x]? = some w ∧ 0 < w := by
  have hi := choice_in_range ws hw x hx hxW
  obtain ⟨hlo, hhi⟩ := (choice_interval ws hw x hx _ hi).mp rfl
  refine ⟨ws[searchRight (cumsum ws) x], List.getElem?_eq_getElem hi, ?_⟩
  rw [prefixSum_succ ws _ hi] at hhi
  linarith

/-- the same in the code's own terms: `W = cumulative_weights[-1]`, draw `r ≥ 0` with `r·W < W`
    (true for every double `r ≤ 1 − 2⁻⁵³` when `W > 0`, see `draw_below_total`). -/
theorem never_zero_weight_draw (ws : List K) (hk : ws ≠ []) (hw : ∀ w ∈ ws, 0 ≤ w) (r : K) (hr : 0 ≤ r)
    (hrW : r * (cumsum ws).getLastD 0 < (cumsum ws).getLastD 0) :
    ∃ w, ws[chooseFace (cumsum ws) ((cumsum ws).getLastD 0) r]? = some w ∧ 0 < w := by
  rw [cumsum_getLastD ws hk] at hrW ⊢
  exact never_zero_weight ws hw _ (mul_nonneg hr (prefixSum_nonneg ws hw _)) hrW

theorem draw_below_total (W r : K) (hW : 0 < W) (hr : r < 1) : r * W < W := by
  have := mul_lt_mul_of_pos_right hr hW
  simpa using this

/-- all-zero (or empty) weights: the total is `0`, `x = r·0 = 0` is not `< W`, and the index returned is
    `k` (out of range) — the code then raises IndexError.  Outside the property's quantifier ("a positive
    entry"), recorded to make the boundary of `never_zero_weight` explicit. -/
theorem choice_all_zero (ws : List K) (hz : ∀ w ∈ ws, w = 0) (r : K) :
    chooseFace (cumsum ws) ((cumsum ws).getLastD 0) r = ws.length := by
  have hP : ∀ i, prefixSum ws i = 0 := by
    intro i
    unfold prefixSum
    apply List.sum_eq_zero
    intro w hw
    exact hz w (List.mem_of_mem_take hw)
  have hW : (cumsum ws).getLastD 0 = 0 := by
    by_cases hk : ws = []
    · subst hk; simp [cumsum]
    · rw [cumsum_getLastD ws hk, hP]
  unfold chooseFace
  rw [hW, mul_zero, searchRight_eq_iff]
  simp only [cumsum_getElem?, hP]
  constructor
  · intro j hj
    exact ⟨0, by rw [if_pos hj], le_refl 0⟩
  · intro c hc
    simp at hc

/-! ### the whole `sample` call -/

/-- `sample` returns exactly `num_samples` points and as many face indices (no triangles: none at all —
    the code returns the empty result whatever `num_samples` is). -/
theorem sample_count [Sqrt K] (tris : List (Tri K)) (n : Int) (weights : Option (List K)) (draws : List K)
    (out : SampleOut K) (h : sample tris true n true weights draws = .ok out) :
    (tris = [] → out.pts = [] ∧ out.idx = []) ∧
    (tris ≠ [] → 0 ≤ n ∧ (3 * n.toNat ≤ draws.length →
        out.pts.length = n.toNat ∧ out.idx.length = n.toNat)) := by
  constructor
  · intro hk
    subst hk
    unfold sample at h
    cases weights with
    | none => simp at h; cases h; exact ⟨rfl, rfl⟩
    | some w =>
      by_cases hwl : w.length = 0
      · simp [hwl] at h; cases h; exact ⟨rfl, rfl⟩
      · simp [hwl] at h
  · intro hk
    obtain ⟨w, xs, _, hn, hcore, rfl⟩ := sample_inv tris n weights draws out hk h
    refine ⟨hn, fun hd => ?_⟩
    have hl := (sampleAll_spec tris _ _ _ _ xs hcore).length_eq
    simp only [List.length_zip, List.length_take, pairs_length, List.length_drop] at hl
    simp only [List.length_map]
    have h2 : (min (2 * n.toNat) (draws.length - n.toNat)) / 2 = n.toNat := by
      rw [Nat.min_eq_left (by omega)]; omega
    rw [h2] at hl
    constructor <;> omega

/-- every returned point lies inside the triangle named by the face index returned with it
    (draws in `[0, 1]`, as `Generator.random` guarantees). -/
theorem sample_inside [Sqrt K] (tris : List (Tri K)) (n : Int) (weights : Option (List K)) (draws : List K)
    (out : SampleOut K) (h : sample tris true n true weights draws = .ok out)
    (hd : ∀ d ∈ draws, 0 ≤ d ∧ d ≤ 1) :
    ∀ x ∈ List.zip out.pts out.idx, ∃ t, tris[x.2]? = some t ∧ InTri t x.1 := by
  by_cases hk : tris = []
  · obtain ⟨h1, h2⟩ := (sample_count tris n weights draws out h).1 hk
    simp [h1]
  · obtain ⟨w, xs, _, _, hcore, rfl⟩ := sample_inv tris n weights draws out hk h
    simp only [zip_map_fst_snd]
    intro x hx
    obtain ⟨⟨r, uv⟩, hmem, _, t, ht, hp⟩ := forall₂_mem_right (sampleAll_spec tris _ _ _ _ xs hcore) x hx
    have huv : (uv.1, uv.2) ∈ pairs ((draws.drop n.toNat).take (2 * n.toNat)) := (List.of_mem_zip hmem).2
    obtain ⟨hu, hv⟩ := pairs_mem huv
    have hu' := hd _ (List.mem_of_mem_drop (List.mem_of_mem_take hu))
    have hv' := hd _ (List.mem_of_mem_drop (List.mem_of_mem_take hv))
    exact ⟨t, ht, by rw [hp]; exact sample_point_inside t _ _ hu' hv'⟩

/-- the face indices are `searchsorted` of the first `num_samples` draws — a function of the draws only
    (the interval form is `choice_interval_r`). -/
theorem sample_choice [Sqrt K] (tris : List (Tri K)) (n : Int) (w : List K) (draws : List K)
    (out : SampleOut K) (hk : tris ≠ []) (h : sample tris true n true (some w) draws = .ok out)
    (hlen : 3 * n.toNat ≤ draws.length) :
    out.idx = (draws.take n.toNat).map (chooseFace (cumsum w) ((cumsum w).getLastD 0)) := by
  obtain ⟨w', xs, hw, _, hcore, rfl⟩ := sample_inv tris n (some w) draws out hk h
  rcases hw with ⟨hw, _⟩ | ⟨hw, _⟩
  · cases hw
  · cases hw
    have hspec := sampleAll_spec tris _ _ _ _ xs hcore
    have := forall₂_map_eq (fun ru : K × (K × K) => chooseFace (cumsum w) ((cumsum w).getLastD 0) ru.1)
      (fun x : V3 K × Nat => x.2) (fun a x hR => hR.1) hspec
    simp only at this ⊢
    rw [this]
    have hz : ((draws.take n.toNat).zip (pairs ((draws.drop n.toNat).take (2 * n.toNat)))).map Prod.fst
        = draws.take n.toNat := by
      apply List.map_fst_zip
      simp only [List.length_take, pairs_length, List.length_drop]
      rw [Nat.min_eq_left (by omega), Nat.min_eq_left (by omega)]
      omega
    conv_rhs => rw [← hz]
    rw [List.map_map]
    rfl

/-- never a zero-weight face, for the whole call: explicit non-negative weights with a positive total,
    draws in `[0, 1)`. -/
theorem sample_never_zero_weight [Sqrt K] (tris : List (Tri K)) (n : Int) (w : List K) (draws : List K)
    (out : SampleOut K) (hk : tris ≠ []) (h : sample tris true n true (some w) draws = .ok out)
    (hw : ∀ x ∈ w, 0 ≤ x) (hW : 0 < (cumsum w).getLastD 0) (hd : ∀ d ∈ draws, 0 ≤ d ∧ d < 1) :
    ∀ i ∈ out.idx, ∃ wi, w[i]? = some wi ∧ 0 < wi := by
  obtain ⟨w', xs, hw', _, hcore, rfl⟩ := sample_inv tris n (some w) draws out hk h
  rcases hw' with ⟨hw', _⟩ | ⟨hw', hl⟩
  · cases hw'
  · cases hw'
    intro i hi
    simp only [List.mem_map] at hi
    obtain ⟨x, hx, rfl⟩ := hi
    obtain ⟨⟨r, uv⟩, hmem, hch, _⟩ := forall₂_mem_right (sampleAll_spec tris _ _ _ _ xs hcore) x hx
    have hr := hd _ (List.mem_of_mem_take (List.of_mem_zip hmem).1)
    have hwne : w ≠ [] := by
      intro h0; subst h0; simp [cumsum] at hW
    rw [hch]
    exact never_zero_weight_draw w hwne hw r hr.1 (draw_below_total _ _ hW hr.2)

/-- under the same hypotheses the call does not fail (the index is always in range). -/
theorem sample_succeeds [Sqrt K] (tris : List (Tri K)) (n : Int) (w : List K) (draws : List K)
    (hk : tris ≠ []) (hn : 0 ≤ n) (hl : w.length = tris.length)
    (hw : ∀ x ∈ w, 0 ≤ x) (hW : 0 < (cumsum w).getLastD 0) (hd : ∀ d ∈ draws, 0 ≤ d ∧ d < 1) :
    ∃ out, sample tris true n true (some w) draws = .ok out := by
  have hlen : tris.length ≠ 0 := fun h0 => hk (List.length_eq_zero_iff.mp h0)
  have hwne : w ≠ [] := by
    intro h0; subst h0; simp [cumsum] at hW
  obtain ⟨xs, hxs⟩ := sampleAll_ok_of_valid tris (cumsum w) ((cumsum w).getLastD 0) (draws.take n.toNat)
    (pairs ((draws.drop n.toNat).take (2 * n.toNat))) (by
      intro r hr
      have hr' := hd _ (List.mem_of_mem_take hr)
      obtain ⟨wi, hwi, _⟩ := never_zero_weight_draw w hwne hw r hr'.1 (draw_below_total _ _ hW hr'.2)
      rw [← hl]
      exact (List.getElem?_eq_some_iff.mp hwi).1)
  refine ⟨⟨xs.map (·.1), xs.map (·.2), false⟩, ?_⟩
  unfold sample
  simp only [Bool.not_true, Bool.false_eq_true, if_false, hl, if_true, hlen, not_lt.mpr hn]
  unfold sampleCore
  simp only [hxs]

/-- determinism: the result is a function of the arguments and of the first `3·num_samples` values the
    generator produces — two calls with the same generator state give the same output. -/
theorem sample_deterministic [Sqrt K] (tris : List (Tri K)) (isInt : Bool) (n : Int) (rngOk : Bool)
    (weights : Option (List K)) (d1 d2 : List K)
    (hd : d1.take (3 * n.toNat) = d2.take (3 * n.toNat)) :
    sample tris isInt n rngOk weights d1 = sample tris isInt n rngOk weights d2 := by
  have h1 : ∀ d : List K, d.take n.toNat = (d.take (3 * n.toNat)).take n.toNat := by
    intro d; rw [List.take_take, Nat.min_eq_left (by omega)]
  have h2 : ∀ d : List K, (d.drop n.toNat).take (2 * n.toNat) = (d.take (3 * n.toNat)).drop n.toNat := by
    intro d; rw [List.drop_take]; congr 1; omega
  have e1 : d1.take n.toNat = d2.take n.toNat := by rw [h1 d1, h1 d2, hd]
  have e2 : (d1.drop n.toNat).take (2 * n.toNat) = (d2.drop n.toNat).take (2 * n.toNat) := by
    rw [h2 d1, h2 d2, hd]
  simp only [sample, e1, e2]

end sampling

/-! ## index tables (by G, `decide`) -/

/-- a column pick keeps the cyclic order of the quad's corners -/
def cyclicIncreasing (p : List Nat) : Prop :=
  match p with
  | [i, j, k] => (i < j ∧ j < k ∧ k < 4) ∨ (j < k ∧ k < i ∧ i < 4) ∨ (k < i ∧ i < j ∧ j < 4)
  | _ => False

instance : DecidablePred cyclicIncreasing := fun p => by
  unfold cyclicIncreasing; split <;> infer_instance

/-- directed edges of a list of triangles given as column picks -/
def directedEdges (ps : List (List Nat)) : List (Nat × Nat) :=
  ps.flatMap fun p =>
    match p with
    | [i, j, k] => [(i, j), (j, k), (k, i)]
    | _ => []

/-- winding is kept, stated on the table REGENERATED from `quads_to_tris`: two triangles, rows `2i` and
    `2i+1`; each keeps the cyclic order of the quad's corners; every boundary edge `(i, i+1 mod 4)` of the
    quad occurs exactly once as a directed edge of the two triangles, and the only other edges are the
    shared diagonal, once in each direction (so it cancels). -/
theorem quads_to_tris_winding :
    let picks := PW.Gen.TriTables.quadsToTrisPicks.map (fun p => p.2.2)
    PW.Gen.TriTables.quadsToTrisPicks.map (fun p => (p.1, p.2.1)) = [(0, 2), (1, 2)] ∧
    (∀ p ∈ picks, cyclicIncreasing p) ∧
    (∀ i < 4, (directedEdges picks).count (i, (i + 1) % 4) = 1) ∧
    (directedEdges picks).length = 6 ∧
    ∃ a b, (directedEdges picks).count (a, b) = 1 ∧ (directedEdges picks).count (b, a) = 1 ∧
      (b + 4 - a) % 4 = 2 := by
  refine ⟨by decide, by decide, by decide, by decide, 0, 2, by decide, by decide, by decide⟩

/-- the model's table says the same (and `gen_quad_picks` ties it to the generated one). -/
theorem quads_to_tris_rows (q : Quad) (qs : List Quad) :
    quadsToTris (q :: qs) = ⟨q.a, q.b, q.c⟩ :: ⟨q.a, q.c, q.d⟩ :: quadsToTris qs ∧
    (quadsToTris qs).length = 2 * qs.length := by
  constructor
  · rfl
  · induction qs with
    | nil => rfl
    | cons q' qs ih =>
      show (quadToTris q' ++ quadsToTris qs).length = _
      rw [List.length_append, ih]
      simp [quadToTris, quadPicks]
      omega

/-- `ret_mapping`: row `i` of `f_old_to_new` is `(2i, 2i+1)` and those two rows of the result are the two
    triangles of quad `i`. -/
theorem quads_to_tris_mapping (qs : List Quad) (i : Nat) (hi : i < qs.length) :
    (quadsMapping qs.length)[i]? = some (2 * i, 2 * i + 1) ∧
    (quadsToTris qs)[2 * i]? = some ⟨qs[i].a, qs[i].b, qs[i].c⟩ ∧
    (quadsToTris qs)[2 * i + 1]? = some ⟨qs[i].a, qs[i].c, qs[i].d⟩ := by
  refine ⟨by simp [quadsMapping, hi], ?_⟩
  induction qs generalizing i with
  | nil => simp at hi
  | cons q qs ih =>
    rw [(quads_to_tris_rows q qs).1]
    cases i with
    | zero => simp
    | succ i =>
      have := ih i (by simpa using hi)
      have e1 : 2 * (i + 1) = 2 * i + 1 + 1 := by ring
      rw [e1]
      simpa using this

/-- winding, geometrically: the vector areas (cross products) of the two triangles add up to the vector
    area `(c − a) × (d − b)` of the quad `a b c d` — a reversed triangle would subtract instead. -/
theorem quads_to_tris_vector_area {K : Type} [Field K] (a b c d : V3 K) :
    ((quadToTrisPts a b c d).map rawNormal).foldl (· + ·) ⟨0, 0, 0⟩ = V3.cross (c - a) (d - b) := by
  ext <;>
  simp only [quadToTrisPts, quadPicks, pick4, rawNormal, List.map, List.foldl, V3.add_x, V3.add_y, V3.add_z,
    V3.cross_x, V3.cross_y, V3.cross_z, V3.sub_x, V3.sub_y, V3.sub_z] <;> ring

/-- every edge of a face once, stated on the table REGENERATED from `edges_of_faces`: the three column
    pairs are exactly the directed edges `i → i+1 (mod 3)`, in that order, no pair twice, and each of the three
    unordered vertex pairs of a triangle is covered by exactly one of them; the three edges of a face are
    adjacent rows of the result (interleaving), and `normalize` sorts within an edge. -/
theorem edges_once :
    PW.Gen.TriTables.edgeCols = (List.range 3).map (fun i => [i, (i + 1) % 3]) ∧
    PW.Gen.TriTables.edgeCols.Nodup ∧
    (∀ i < 3, ∀ j < 3, i ≠ j →
      PW.Gen.TriTables.edgeCols.count [i, j] + PW.Gen.TriTables.edgeCols.count [j, i] = 1) ∧
    PW.Gen.TriTables.edgesInterleaved = true ∧ PW.Gen.TriTables.edgesSortAxis = 1 := by
  refine ⟨by decide, by decide, by decide, by decide, by decide⟩

/-- the model lists, per face and in order, `(a,b), (b,c), (c,a)` (sorted within the pair when
    `normalize=True`): `3·k` rows, every edge of every face once. -/
theorem edges_of_faces_spec (faces : List Face) (nz : Bool) :
    edgesOfFaces true nz faces =
      .ok (faces.flatMap fun f =>
        ([(f.a, f.b), (f.b, f.c), (f.c, f.a)] : List (Int × Int)).map fun e => if nz then sortPair e else e) ∧
    (∀ es, edgesOfFaces true nz faces = .ok es → es.length = 3 * faces.length) ∧
    edgesOfFaces false nz faces = .error .AssertionError := by
  refine ⟨rfl, ?_, rfl⟩
  intro es h
  simp only [edgesOfFaces, Bool.not_true, Bool.false_eq_true, if_false, Except.ok.injEq] at h
  subst h
  induction faces with
  | nil => rfl
  | cons f fs ih =>
    rw [List.flatMap_cons, List.length_append, ih]
    simp [edgesOfFace, edgeCols]
    omega

/-- `normalize=True` puts the smaller index first and keeps the same unordered pair. -/
theorem sort_pair_spec (e : Int × Int) :
    (sortPair e).1 ≤ (sortPair e).2 ∧ (sortPair e = e ∨ sortPair e = (e.2, e.1)) := by
  unfold sortPair
  split_ifs with h
  · exact ⟨by simp only; omega, Or.inr rfl⟩
  · exact ⟨by omega, Or.inl rfl⟩

/-! ## areas and unit normals (ℝ) -/

section real

noncomputable instance instSqrtReal : PW.Sqrt ℝ := ⟨Real.sqrt⟩

/-- surface_area is half the length of the normal computed by surface_normals(normalize=False). -/
theorem area_half_norm (t : Tri ℝ) :
    surfaceArea t = (1 / 2) * Real.sqrt (V3.dot (rawNormal t) (rawNormal t)) := by
  show (1 / (1 + 1) : ℝ) * Real.sqrt _ = _
  norm_num
  rfl

theorem area_nonneg (t : Tri ℝ) : 0 ≤ surfaceArea t := by
  rw [area_half_norm]; positivity

theorem area_sq (t : Tri ℝ) : (2 * surfaceArea t) ^ 2 = V3.dot (rawNormal t) (rawNormal t) := by
  rw [area_half_norm]
  have := Real.sq_sqrt (normSq_nonneg (rawNormal t))
  calc (2 * (1 / 2 * Real.sqrt (V3.dot (rawNormal t) (rawNormal t)))) ^ 2
      = Real.sqrt (V3.dot (rawNormal t) (rawNormal t)) ^ 2 := by ring
    _ = _ := this

/-- zero area exactly for degenerate (collinear) triangles. -/
theorem area_eq_zero_iff (t : Tri ℝ) : surfaceArea t = 0 ↔ rawNormal t = ⟨0, 0, 0⟩ := by
  rw [area_half_norm]
  constructor
  · intro h
    have h' : Real.sqrt (V3.dot (rawNormal t) (rawNormal t)) = 0 := by linarith
    have := (Real.sqrt_eq_zero (normSq_nonneg (rawNormal t))).mp h'
    obtain ⟨hx, hy, hz⟩ := dot_self_eq_zero this
    exact V3.ext hx hy hz
  · intro h
    rw [h]
    simp [V3.dot_def]

/-- area is unchanged by cyclic relabelling, by translation and by swapping two vertices. -/
theorem area_invariant (a b c d : V3 ℝ) :
    surfaceArea ⟨b, c, a⟩ = surfaceArea ⟨a, b, c⟩ ∧
    surfaceArea ⟨a + d, b + d, c + d⟩ = surfaceArea ⟨a, b, c⟩ ∧
    surfaceArea ⟨b, a, c⟩ = surfaceArea ⟨a, b, c⟩ ∧ surfaceArea ⟨a, c, b⟩ = surfaceArea ⟨a, b, c⟩ ∧
    surfaceArea ⟨c, b, a⟩ = surfaceArea ⟨a, b, c⟩ := by
  have hneg : ∀ n : V3 ℝ, V3.dot (-n) (-n) = V3.dot n n := by
    intro n; simp only [V3.dot_def, V3.neg_x, V3.neg_y, V3.neg_z]; ring
  obtain ⟨s1, s2, s3⟩ := normal_swap a b c
  simp only [area_half_norm, normal_cyclic, normal_translate, s1, s2, s3, hneg, and_self]

/-- `surface_normals(normalize=True)` is the cross product divided by its length. -/
theorem unit_normal_def (t : Tri ℝ) :
    surfaceNormal true t = V3.sdiv (rawNormal t) (Real.sqrt (V3.dot (rawNormal t) (rawNormal t))) := rfl

/-- for a non-degenerate triangle it has length 1 and is a positive multiple of the cross product. -/
theorem unit_normal (t : Tri ℝ) (hs : V3.dot (rawNormal t) (rawNormal t) ≠ 0) :
    V3.dot (surfaceNormal true t) (surfaceNormal true t) = 1 ∧
    ∃ c : ℝ, 0 < c ∧ surfaceNormal true t = V3.smul c (rawNormal t) := by
  have hpos := dot_self_pos hs
  have hL : 0 < Real.sqrt (V3.dot (rawNormal t) (rawNormal t)) := Real.sqrt_pos.mpr hpos
  have hLL := Real.mul_self_sqrt hpos.le
  rw [unit_normal_def]
  generalize Real.sqrt (V3.dot (rawNormal t) (rawNormal t)) = L at *
  constructor
  · simp only [V3.dot_def, V3.sdiv_x, V3.sdiv_y, V3.sdiv_z] at hLL ⊢
    have hL' : L ≠ 0 := ne_of_gt hL
    field_simp
    linarith
  · refine ⟨1 / L, by positivity, ?_⟩
    ext <;> simp only [V3.sdiv_x, V3.sdiv_y, V3.sdiv_z, V3.smul_x, V3.smul_y, V3.smul_z] <;> ring

/-- the unit normal is unchanged by cyclic relabelling and translation, negated by a swap. -/
theorem unit_normal_invariant (a b c d : V3 ℝ) :
    surfaceNormal true ⟨b, c, a⟩ = surfaceNormal true ⟨a, b, c⟩ ∧
    surfaceNormal true ⟨a + d, b + d, c + d⟩ = surfaceNormal true ⟨a, b, c⟩ ∧
    surfaceNormal true ⟨b, a, c⟩ = -surfaceNormal true ⟨a, b, c⟩ ∧
    surfaceNormal true ⟨a, c, b⟩ = -surfaceNormal true ⟨a, b, c⟩ ∧
    surfaceNormal true ⟨c, b, a⟩ = -surfaceNormal true ⟨a, b, c⟩ := by
  have hneg : ∀ n : V3 ℝ, V3.sdiv (-n) (Real.sqrt (V3.dot (-n) (-n))) = -V3.sdiv n (Real.sqrt (V3.dot n n)) := by
    intro n
    have e : V3.dot (-n) (-n) = V3.dot n n := by
      simp only [V3.dot_def, V3.neg_x, V3.neg_y, V3.neg_z]; ring
    rw [e]
    ext <;> simp only [V3.sdiv_x, V3.sdiv_y, V3.sdiv_z, V3.neg_x, V3.neg_y, V3.neg_z] <;> ring
  obtain ⟨s1, s2, s3⟩ := normal_swap a b c
  simp only [unit_normal_def, normal_cyclic, normal_translate, s1, s2, s3, hneg, and_self]

/-- area-weighted sampling never returns a zero-area triangle (the default `weights=None`). -/
theorem sample_area_never_degenerate (tris : List (Tri ℝ)) (n : Int) (draws : List ℝ) (out : SampleOut ℝ)
    (hk : tris ≠ []) (h : sample tris true n true none draws = .ok out)
    (hW : 0 < (cumsum (tris.map surfaceArea)).getLastD 0) (hd : ∀ d ∈ draws, 0 ≤ d ∧ d < 1) :
    ∀ i ∈ out.idx, ∃ t, tris[i]? = some t ∧ 0 < surfaceArea t := by
  have h' : sample tris true n true (some (tris.map surfaceArea)) draws = .ok out := by
    rw [← h]; unfold sample; simp
  intro i hi
  obtain ⟨wi, hwi, hpos⟩ := sample_never_zero_weight tris n (tris.map surfaceArea) draws out hk h'
    (by intro x hx; obtain ⟨t, _, rfl⟩ := List.mem_map.mp hx; exact area_nonneg t) hW hd i hi
  rw [List.getElem?_map] at hwi
  cases ht : tris[i]? with
  | none => simp [ht] at hwi
  | some t => simp [ht] at hwi; exact ⟨t, rfl, by rw [hwi]; exact hpos⟩

end real

/-! ## non-vacuity -/

/-- a concrete non-degenerate triangle, a point inside and one outside, a sampling call with a zero-weight
    first face and the draw `r = 0`, a quad and a face. -/
example :
    V3.dot (rawNormal (⟨⟨0, 0, 0⟩, ⟨2, 0, 0⟩, ⟨0, 2, 0⟩⟩ : Tri ℚ)) (rawNormal ⟨⟨0, 0, 0⟩, ⟨2, 0, 0⟩, ⟨0, 2, 0⟩⟩) ≠ 0 ∧
    (bary (⟨⟨0, 0, 0⟩, ⟨2, 0, 0⟩, ⟨0, 2, 0⟩⟩ : Tri ℚ) ⟨1, 1, 5⟩).toList = [0, 1/2, 1/2] ∧
    triContains (⟨0, 0, 0⟩ : V3 ℚ) ⟨2, 0, 0⟩ ⟨0, 2, 0⟩ ⟨1, 1, 0⟩ = true ∧
    triContains (⟨0, 0, 0⟩ : V3 ℚ) ⟨2, 0, 0⟩ ⟨0, 2, 0⟩ ⟨2, 1, 0⟩ = false ∧
    chooseFace (cumsum [0, 1, 0, 3]) 4 (0 : ℚ) = 1 ∧ chooseFace (cumsum [0, 1, 0, 3]) 4 (1/4 : ℚ) = 3 ∧
    (samplePoint (⟨⟨0, 0, 0⟩, ⟨2, 0, 0⟩, ⟨0, 2, 0⟩⟩ : Tri ℚ) (3/4) (3/4)).toList = [1/2, 1/2, 0] ∧
    quadsToTris [⟨10, 11, 12, 13⟩] = [⟨10, 11, 12⟩, ⟨10, 12, 13⟩] ∧
    (edgesOfFaces true true [⟨5, 3, 4⟩]).toOption = some [(3, 5), (3, 4), (4, 5)] := by
  decide +kernel

end PW.C15
